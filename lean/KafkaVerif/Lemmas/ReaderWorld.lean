/-
Lemmas/ReaderWorld.lean — the three layers composed: the decoder as written (Model/PullReader) on what a
contract-obeying broker serves (Spec/Layout) produces fetch rounds that are `Good` in the sense of Lemmas/ReaderLoopLTS,
so the invariant of the reader loop holds with nothing assumed about the `read` calls.
-/
import KafkaVerif.Model.ReaderWorld
import KafkaVerif.Lemmas.ReaderLoopLTS
import KafkaVerif.Lemmas.PullReader
import KafkaVerif.Model.ReaderFront

namespace KV.C02

/-- one fetch round at conn offset `q` on the first `n` bytes of what the broker has from `q` on, deadline passed or
not (`fetch_round` is the case `n = serveBudget …`, `e = false`) -/
theorem fetch_round_gen (items : List Item) (nb : Int) (hnb : 0 ≤ nb) (hwf : LWF nb items) (hwm q : Int) (hq : 0 ≤ q)
    (e : Bool) (n : Nat) :
    let res := readAll .fixed e q hwm (truncate (allTokens (dropBefore q items)) n)
    (∀ r ∈ res.1, r ∈ allRecords items ∧ q ≤ r.1 ∧ r.1 < res.2.1) ∧
    (∀ r ∈ allRecords items, q ≤ r.1 → r.1 < res.2.1 → r ∈ res.1) ∧
    res.1.Pairwise (fun a b => a.1 < b.1) ∧
    res.2.2 ≠ .desync ∧
    ((∀ it rest, dropBefore q items = it :: rest → it.size ≤ n) →
      q ≤ res.2.1 ∧ (hwm ≠ q → dropBefore q items ≠ [] → q < res.2.1) ∧
      (hwm ≠ q → ∀ it rest, dropBefore q items = it :: rest → it.last + 1 ≤ res.2.1)) := by
  by_cases hne : hwm = q
  · simp [readAll, hne]
  · obtain ⟨d1, d2, d3, d4⟩ := dropBefore_spec q hwf
    have hsafe : Safe q (dropBefore q items) := by
      cases hsub : dropBefore q items with
      | nil => trivial
      | cons it rest => rw [hsub] at d1; exact safe_of_contract d1 (d4 it rest hsub)
    have hp := layout_run e q (dropBefore q items) nb { off := q } n d1 hsafe (bnd_init hq hnb _)
    have hrun : readAll .fixed e q hwm (truncate (allTokens (dropBefore q items)) n)
        = ((runCut .fixed e q { off := q } (allTokens (dropBefore q items)) n).1.out,
           (runCut .fixed e q { off := q } (allTokens (dropBefore q items)) n).1.off,
           (runCut .fixed e q { off := q } (allTokens (dropBefore q items)) n).2) := by
      simp only [readAll, hne, if_false, run_truncate]
    rw [hrun]
    simp only
    have hout := hp.out
    simp only [List.nil_append] at hout
    refine ⟨?_, ?_, hp.resok.2, hp.ok, ?_⟩
    · intro r hr
      have hb := hp.resok.1 r hr
      rw [hout] at hr
      simp only [List.mem_filter] at hr
      exact ⟨d3 r (contained_subset _ _ r hr.1), hb⟩
    · intro r hr h1 h2
      rcases d2 r hr with hlt | hsub
      · omega
      · rw [hout]
        simp only [List.mem_filter, decide_eq_true_eq]
        exact ⟨hp.nogap r hsub h1 h2, h1⟩
    · intro hfirst
      cases hsub : dropBefore q items with
      | nil => exact ⟨by cases e <;> simp [allTokens, runCut, finish], fun _ h => absurd rfl h, fun _ it rest h => by cases h⟩
      | cons it rest =>
        have hpr := hp.prog
        rw [hsub] at hpr
        have : it.size ≤ n := hfirst it rest hsub
        have hlast := d4 it rest hsub
        have := hpr (it.last + 1) (by simp [progLB, this, hlast])
        exact ⟨by omega, fun _ _ => by omega, fun _ it' rest' h' => by cases h'; omega⟩

/-- the same round read by the decoder as written -/
theorem fetch_round_pull (items : List Item) (nb : Int) (hnb : 0 ≤ nb) (hwf : LWF nb items) (hwm q : Int) (hq : 0 ≤ q)
    (e : Bool) (n : Nat) :
    Pull.readAll e q hwm (truncate (allTokens (dropBefore q items)) n)
      = readAll .fixed e q hwm (truncate (allTokens (dropBefore q items)) n) := by
  have h := fetch_round_gen items nb hnb hwf hwm q hq e n
  exact pull_eq_run_all e q hwm _ (allWF_truncate _ _ (allWF_tokens _ nb (dropBefore_spec q hwf).1)) h.2.2.2.1

/-! ### a log that is being appended to: a fetch answered from a prefix of the final layout is a fetch answered from the
final layout with fewer bytes -/

theorem truncate_full : ∀ (ts : List Tok) (n : Nat), totalSize ts ≤ n → truncate ts n = ts := by
  intro ts
  induction ts with
  | nil => intro n _; rfl
  | cons t ts ih =>
    intro n h
    simp only [totalSize] at h
    have : t.size ≤ n := by omega
    simp only [truncate, this, if_true]
    rw [ih (n - t.size) (by omega)]

theorem truncate_append_le : ∀ (x y : List Tok) (n : Nat), n ≤ totalSize x → (∀ t ts, y = t :: ts → 0 < t.size) →
    truncate (x ++ y) n = truncate x n := by
  intro x
  induction x with
  | nil =>
    intro y n h hy
    simp only [totalSize] at h
    have hn : n = 0 := by omega
    subst hn
    cases y with
    | nil => rfl
    | cons t ts =>
      have := hy t ts rfl
      have ht : ¬ t.size ≤ 0 := by omega
      simp [truncate, ht]
  | cons t x ih =>
    intro y n h hy
    simp only [totalSize] at h
    by_cases ht : t.size ≤ n
    · simp only [List.cons_append, truncate, ht, if_true]
      rw [ih y (n - t.size) (by omega) hy]
    · simp only [List.cons_append, truncate, ht, if_false]

theorem dropBefore_append (q : Int) : ∀ (a b : List Item),
    dropBefore q (a ++ b) = if dropBefore q a = [] then dropBefore q b else dropBefore q a ++ b := by
  intro a
  induction a with
  | nil => intro b; simp [dropBefore]
  | cons x xs ih =>
    intro b
    by_cases hx : x.last < q
    · simp only [List.cons_append, dropBefore, hx, if_true]; exact ih b
    · simp only [List.cons_append, dropBefore, hx, if_false]; simp

theorem allTokens_append (a b : List Item) : allTokens (a ++ b) = allTokens a ++ allTokens b := by
  simp [allTokens]

theorem totalSize_r2 : ∀ (recs : List (Int × Nat × Nat)), totalSize (recs.map fun (d, t, z) => Tok.r2 d t z) = sumSizes recs := by
  intro recs
  induction recs with
  | nil => rfl
  | cons x rs ih => obtain ⟨d, t, z⟩ := x; simp only [List.map_cons, totalSize, Tok.size, sumSizes, ih]

/-- the tokens of an item add up to its size -/
theorem tokensOf_size {nb : Int} {it : Item} {rest : List Item} (h : LWF nb (it :: rest)) : totalSize (tokensOf it) = it.size := by
  cases it with
  | b2 base last codec plen recs =>
    simp only [LWF] at h
    cases codec with
    | true => simp [tokensOf, totalSize, Tok.size, Item.size]
    | false =>
      have := h.2.2.2.1 rfl
      simp only [tokensOf, Bool.false_eq_true, if_false, totalSize, Tok.size, Item.size, totalSize_r2, this]
  | m magic off tag size =>
    simp only [LWF] at h
    have := h.2.2.1
    by_cases hm : magic = 1 <;> simp [tokensOf, totalSize, Tok.size, Item.size, hdr1Size, hm] at this ⊢ <;> omega
  | w magic woff size inner =>
    simp only [LWF] at h
    have := h.2.2.2.1
    by_cases hm : magic = 1 <;> simp [tokensOf, totalSize, Tok.size, Item.size, hdr1Size, hm] at this ⊢ <;> omega

theorem totalSize_append (a b : List Tok) : totalSize (a ++ b) = totalSize a + totalSize b := by
  induction a with
  | nil => simp [totalSize]
  | cons t ts ih => simp only [List.cons_append, totalSize, ih]; omega

/-- a layout starts with a header: its first token is not empty -/
theorem allTokens_head_pos : ∀ (items : List Item) (t : Tok) (ts : List Tok), allTokens items = t :: ts → 0 < t.size := by
  intro items t ts h
  cases items with
  | nil => simp [allTokens] at h
  | cons it rest =>
    simp only [allTokens, List.flatMap_cons] at h
    cases it with
    | b2 base last codec plen recs =>
      cases codec <;> simp only [tokensOf, Bool.false_eq_true, if_false, if_true, List.cons_append, List.cons.injEq] at h <;>
        (rw [← h.1]; simp [Tok.size])
    | m magic off tag size =>
      simp only [tokensOf, List.cons_append, List.cons.injEq] at h
      rw [← h.1]; simp only [Tok.size]; split <;> omega
    | w magic woff size inner =>
      simp only [tokensOf, List.cons_append, List.cons.injEq] at h
      rw [← h.1]; simp only [Tok.size]; split <;> omega

theorem lwf_take : ∀ (m : Nat) {items : List Item} {nb : Int}, LWF nb items → LWF nb (items.take m) := by
  intro m
  induction m with
  | zero => intro items nb _; simp [LWF]
  | succ m ih =>
    intro items nb h
    cases items with
    | nil => simp [LWF]
    | cons it rest =>
      obtain ⟨_, _, h3⟩ := item_bounds h
      have := ih h3
      simp only [List.take_succ_cons]
      cases it with
      | b2 base last codec plen recs => simp only [LWF] at h ⊢; exact ⟨h.1, h.2.1, h.2.2.1, h.2.2.2.1, h.2.2.2.2.1, this⟩
      | m magic off tag size => simp only [LWF] at h ⊢; exact ⟨h.1, h.2.1, h.2.2.1, this⟩
      | w magic woff size inner => simp only [LWF] at h ⊢; exact ⟨h.1, h.2.1, h.2.2.1, h.2.2.2.1, this⟩

/-- what a broker holding only the first `m` items serves is what a broker holding all of them serves, cut after some
number `n` of bytes; and the first item served is whole in both views -/
theorem serve_take (items : List Item) (nb : Int) (hwf : LWF nb items) (m : Nat) (q : Int) (b : Nat) :
    ∃ n, serve (items.take m) q b = truncate (allTokens (dropBefore q items)) n ∧
      (dropBefore q (items.take m) = [] → serve (items.take m) q b = []) ∧
      (dropBefore q (items.take m) ≠ [] → ∀ it rest, dropBefore q items = it :: rest → it.size ≤ n) := by
  have hsplit : items = items.take m ++ items.drop m := (List.take_append_drop m items).symm
  have hdb := dropBefore_append q (items.take m) (items.drop m)
  rw [← hsplit] at hdb
  cases hsub : dropBefore q (items.take m) with
  | nil =>
    have hserve : serve (items.take m) q b = [] := by simp [serve, hsub, allTokens, serveBudget, truncate]
    have htr : truncate (allTokens (dropBefore q items)) 0 = [] := by
      cases hall : allTokens (dropBefore q items) with
      | nil => rfl
      | cons t ts =>
        have := allTokens_head_pos _ t ts hall
        have ht : ¬ t.size ≤ 0 := by omega
        simp [truncate, ht]
    exact ⟨0, by rw [hserve, htr], fun _ => hserve, fun h => absurd rfl h⟩
  | cons it rest =>
    rw [hsub] at hdb
    simp only [List.cons_ne_nil, if_false] at hdb
    have hwf1 : LWF nb (items.take m) := lwf_take m hwf
    obtain ⟨d1, _, _, _⟩ := dropBefore_spec q hwf1
    rw [hsub] at d1
    have hsz := tokensOf_size d1
    have htot : it.size ≤ totalSize (allTokens (it :: rest)) := by
      simp only [allTokens, List.flatMap_cons, totalSize_append, hsz]; omega
    refine ⟨min (serveBudget (it :: rest) b) (totalSize (allTokens (it :: rest))), ?_, fun h => (by cases h), ?_⟩
    · simp only [serve, hsub]
      rw [hdb, allTokens_append]
      rw [truncate_append_le _ _ _ (Nat.min_le_right _ _) (allTokens_head_pos (items.drop m))]
      by_cases hB : serveBudget (it :: rest) b ≤ totalSize (allTokens (it :: rest))
      · rw [Nat.min_eq_left hB]
      · rw [Nat.min_eq_right (by omega), truncate_full _ _ (by omega), truncate_full _ _ (Nat.le_refl _)]
    · intro _ it' rest' h'
      rw [hdb] at h'
      simp only [List.cons_append, List.cons.injEq] at h'
      rw [← h'.1]
      have : it.size ≤ serveBudget (it :: rest) b := by simp only [serveBudget]; omega
      exact Nat.le_min.mpr ⟨this, htot⟩

theorem rstep_data_noop (cfg : RCfg) (s : RR) (hp : s.phase ≠ .reading) (d : List Rec) (off' : Int) (oc : Outcome) :
    rstep cfg s (.data d off' oc) = s := by
  unfold rstep
  cases h : s.phase with
  | reading => exact absurd h hp
  | stopped => rfl
  | top => simp only []; split <;> rfl

theorem rstep_cut_noop (cfg : RCfg) (s : RR) (hp : s.phase ≠ .reading) (d : List Rec) :
    rstep cfg s (.cutAfter d) = s := by
  unfold rstep
  cases h : s.phase with
  | reading => exact absurd h hp
  | stopped => rfl
  | top => simp only []; split <;> rfl

theorem rstep_ctx_noop (cfg : RCfg) (s : RR) (hp : s.phase ≠ .reading) (d : List Rec) :
    rstep cfg s (.ctxCanceled d) = s := by
  unfold rstep
  cases h : s.phase with
  | reading => exact absurd h hp
  | stopped => rfl
  | top => simp only []; split <;> rfl

/-- a prefix (by messages) of a good round is an initial segment of the log from the conn offset -/
theorem goodcut_take {log : List Rec} {q off' : Int} {d : List Rec}
    (f1 : ∀ r ∈ d, r ∈ log ∧ q ≤ r.1 ∧ r.1 < off') (f2 : ∀ r ∈ log, q ≤ r.1 → r.1 < off' → r ∈ d)
    (f3 : d.Pairwise (fun a b => a.1 < b.1)) (k : Nat) : GoodCut log q (d.take k) := by
  refine ⟨f3.sublist (List.take_sublist k d), fun r hr => ⟨(f1 r (List.mem_of_mem_take hr)).1, (f1 r (List.mem_of_mem_take hr)).2.1⟩, ?_⟩
  intro r hrl x hx h1 h2
  have hxd := List.mem_of_mem_take hx
  have hrd : r ∈ d := f2 r hrl h1 (by have := (f1 x hxd).2.2; omega)
  rw [← List.take_append_drop k d] at hrd f3
  rw [List.mem_append] at hrd
  rcases hrd with h | h
  · exact h
  · have := (List.pairwise_append.mp f3).2.2 x hx r h
    omega

/-- the computed events are `Good` (or ignored by the loop in its current state) -/
theorem world_good (cfg : RCfg) (items : List Item) (nb : Int) (hnb : 0 ≤ nb) (hwf : LWF nb items) {s : RR}
    (h : RInv (allRecords items) s) (x : Env) (hx : x.ok items) :
    Good (allRecords items) s (worldEvent items s x) ∨ rstep cfg s (worldEvent items s x) = s := by
  have hq : s.phase = .reading → 0 ≤ s.connOff := by
    intro hr
    obtain ⟨hst, hoc, _⟩ := h.conn hr
    cases hs : s.start with
    | none => exact absurd hs hst
    | some st => have := h.bounds st hs; omega
  cases x with
  | fetch b hwm e =>
    by_cases hr : s.phase = .reading
    · left
      simp only [worldEvent, serve, Good]
      rw [fetch_round_pull items nb hnb hwf hwm s.connOff (hq hr) e _]
      obtain ⟨f1, f2, f3, f4, f5⟩ := fetch_round_gen items nb hnb hwf hwm s.connOff (hq hr) e
        (serveBudget (dropBefore s.connOff items) b)
      refine ⟨⟨f3, f1, f2, (f5 ?_).1⟩, f4⟩
      intro it rest hsub
      rw [hsub]; simp only [serveBudget]; omega
    · right; simp only [worldEvent]; exact rstep_data_noop cfg s hr _ _ _
  | fetchSnap m b hwm e =>
    by_cases hr : s.phase = .reading
    · left
      simp only [worldEvent, Good]
      obtain ⟨n, hn, hnil, hfirst⟩ := serve_take items nb hwf m s.connOff b
      by_cases hsub : dropBefore s.connOff (items.take m) = []
      · -- the reader is at the end of what is stored at this moment: nothing is served
        rw [hnil hsub]
        by_cases hh : hwm = s.connOff
        · simp [Pull.readAll, hh]
          exact ⟨by simp, by simp, by intro r _ h1 h2; omega, Int.le_refl _⟩
        · simp [Pull.readAll, Pull.readHeader, hh]
          exact ⟨by simp, by simp, by intro r _ h1 h2; omega, Int.le_refl _⟩
      · rw [hn, fetch_round_pull items nb hnb hwf hwm s.connOff (hq hr) e n]
        obtain ⟨f1, f2, f3, f4, f5⟩ := fetch_round_gen items nb hnb hwf hwm s.connOff (hq hr) e n
        exact ⟨⟨f3, f1, f2, (f5 (hfirst hsub)).1⟩, f4⟩
    · right; simp only [worldEvent]; exact rstep_data_noop cfg s hr _ _ _
  | lost n hwm e =>
    by_cases hr : s.phase = .reading
    · left
      simp only [worldEvent, Good]
      rw [fetch_round_pull items nb hnb hwf hwm s.connOff (hq hr) e n]
      obtain ⟨f1, f2, f3, f4, _⟩ := fetch_round_gen items nb hnb hwf hwm s.connOff (hq hr) e n
      refine ⟨f3, fun r hr' => ⟨(f1 r hr').1, (f1 r hr').2.1⟩, ?_⟩
      intro r hrl x hx' h1 h2
      exact f2 r hrl h1 (by have := (f1 x hx').2.2; omega)
    · right; simp only [worldEvent]; exact rstep_cut_noop cfg s hr _
  | initOk first last => left; simpa [worldEvent, Good, Env.ok] using hx
  | kerr code offs =>
    left
    simp only [worldEvent]
    unfold Good
    split
    · rename_i heq; cases heq
    · rename_i heq; cases heq
    · rename_i heq; cases heq
    · rename_i heq; cases heq
    · rename_i first last heq
      cases heq
      simpa [Env.ok] using hx
    · trivial
  | sleepOk => left; simp [worldEvent, Good]
  | sleepCancel => left; simp [worldEvent, Good]
  | initFail oor => left; simp [worldEvent, Good]
  | ioErr => left; simp [worldEvent, Good]
  | canceled b hwm e k =>
    by_cases hr : s.phase = .reading
    · left
      simp only [worldEvent, serve, Good]
      rw [fetch_round_pull items nb hnb hwf hwm s.connOff (hq hr) e _]
      obtain ⟨f1, f2, f3, _, _⟩ := fetch_round_gen items nb hnb hwf hwm s.connOff (hq hr) e
        (serveBudget (dropBefore s.connOff items) b)
      exact goodcut_take f1 f2 f3 k
    · right; simp only [worldEvent]; exact rstep_ctx_noop cfg s hr _
  | unknownCodec => left; simp [worldEvent, Good]

/-- the computed events keep the loop invariant -/
theorem rinv_world_step (cfg : RCfg) (items : List Item) (nb : Int) (hnb : 0 ≤ nb) (hwf : LWF nb items) {s : RR}
    (h : RInv (allRecords items) s) (x : Env) (hx : x.ok items) :
    RInv (allRecords items) (rstep cfg s (worldEvent items s x)) := by
  rcases world_good cfg items nb hnb hwf h x hx with hg | he
  · exact rinv_step cfg _ h hg
  · rw [he]; exact h

/-- a fetch of the loop moves the connection's position forward when there is data -/
theorem world_fetch_progress (cfg : RCfg) (items : List Item) (nb : Int) (hnb : 0 ≤ nb) (hwf : LWF nb items) (s : RR)
    (hp : s.phase = .reading) (hs : s.slept = true) (hq : 0 ≤ s.connOff) (b : Nat) (hwm : Int) (e : Bool)
    (hne : hwm ≠ s.connOff) (hdata : dropBefore s.connOff items ≠ []) :
    s.connOff < (rstep cfg s (worldEvent items s (.fetch b hwm e))).connOff := by
  obtain ⟨_, _, _, _, f5⟩ := fetch_round_gen items nb hnb hwf hwm s.connOff hq e (serveBudget (dropBefore s.connOff items) b)
  have hlt := (f5 (by intro it rest hsub; rw [hsub]; simp only [serveBudget]; omega)).2.1 hne hdata
  rw [← fetch_round_pull items nb hnb hwf hwm s.connOff hq e _] at hlt
  simp only [worldEvent, serve, rstep, hp, hs]
  cases (Pull.readAll e s.connOff hwm (truncate (allTokens (dropBefore s.connOff items)) (serveBudget (dropBefore s.connOff items) b))).2.2 <;>
    simpa [again, toTop, pushMsgs] using hlt

theorem rinv_world_run (cfg : RCfg) (items : List Item) (nb : Int) (hnb : 0 ≤ nb) (hwf : LWF nb items) :
    ∀ (xs : List Env) (s : RR), RInv (allRecords items) s → (∀ x ∈ xs, x.ok items) →
      RInv (allRecords items) (worldRun cfg items s xs) := by
  intro xs
  induction xs with
  | nil => intro s h _; exact h
  | cons x xs ih =>
    intro s h hx
    exact ih _ (rinv_world_step cfg items nb hnb hwf h x (hx x (by simp))) (fun y hy => hx y (by simp [hy]))

end KV.C02

namespace KV.C02

/-! ### the loop is the fetcher the front model assumes: what it pushes is a prefix of `feed log start` -/

theorem records_ge : ∀ {items : List Item} {nb : Int}, LWF nb items → ∀ r ∈ allRecords items, nb ≤ r.1 := by
  intro items
  induction items with
  | nil => intro nb _ r hr; simp [allRecords] at hr
  | cons it rest ih =>
    intro nb h r hr
    obtain ⟨h1, h2, h3⟩ := item_bounds h
    simp only [allRecords, List.flatMap_cons, List.mem_append] at hr
    rcases hr with hr | hr
    · exact (h1 r hr).1
    · have := ih h3 r (by simpa [allRecords] using hr); omega

/-- the stored records of a well-formed layout have strictly increasing offsets -/
theorem allRecords_sorted (items : List Item) (nb : Int) (hnb : 0 ≤ nb) (hwf : LWF nb items) :
    (allRecords items).Pairwise (fun a b => a.1 < b.1) := by
  have hsafe : Safe 0 items := safe_of_lasts (fun it hit => by have := lasts_ge hwf it hit; omega)
  have hp := layout_run false 0 items nb { off := 0 } (itemsSize items) hwf hsafe (bnd_init (Int.le_refl 0) hnb _)
  have hout := hp.out
  rw [contained_all items _ (Nat.le_refl _)] at hout
  simp only [List.nil_append] at hout
  have hfil : (allRecords items).filter (fun r => (0 : Int) ≤ r.1) = allRecords items := by
    apply List.filter_eq_self.mpr
    intro r hr
    have := records_ge hwf r hr
    simp only [decide_eq_true_eq]; omega
  have := hp.resok.2
  rw [hout, hfil] at this
  exact this

theorem sorted_ext : ∀ (l1 l2 : List Rec), l1.Pairwise (fun a b => a.1 < b.1) → l2.Pairwise (fun a b => a.1 < b.1) →
    (∀ r, r ∈ l1 ↔ r ∈ l2) → l1 = l2 := by
  intro l1
  induction l1 with
  | nil =>
    intro l2 _ _ h
    cases l2 with
    | nil => rfl
    | cons b l2 => exact absurd ((h b).2 (by simp)) (by simp)
  | cons a l1 ih =>
    intro l2 h1 h2 h
    cases l2 with
    | nil => exact absurd ((h a).1 (by simp)) (by simp)
    | cons b l2 =>
      rw [List.pairwise_cons] at h1 h2
      have hab : a = b := by
        have ha := (h a).1 (by simp)
        have hb := (h b).2 (by simp)
        simp only [List.mem_cons] at ha hb
        rcases ha with ha | ha
        · exact ha
        · rcases hb with hb | hb
          · exact hb.symm
          · have := h1.1 b hb; have := h2.1 a ha; omega
      subst hab
      congr 1
      apply ih l2 h1.2 h2.2
      intro r
      constructor
      · intro hr
        have := (h r).1 (by simp [hr])
        simp only [List.mem_cons] at this
        rcases this with rfl | this
        · have := h1.1 r hr; omega
        · exact this
      · intro hr
        have := (h r).2 (by simp [hr])
        simp only [List.mem_cons] at this
        rcases this with rfl | this
        · have := h2.1 r hr; omega
        · exact this

theorem filter_lt_prefix : ∀ (l : List Rec) (off : Int), l.Pairwise (fun a b => a.1 < b.1) →
    l.filter (fun r => r.1 < off) <+: l := by
  intro l
  induction l with
  | nil => intro _ _; simp
  | cons a l ih =>
    intro off h
    rw [List.pairwise_cons] at h
    by_cases ha : a.1 < off
    · simp only [List.filter_cons, ha, decide_true, if_true]
      exact List.prefix_cons_inj a |>.mpr (ih off h.2)
    · have : l.filter (fun r => r.1 < off) = [] := by
        apply List.filter_eq_nil_iff.mpr
        intro r hr
        have := h.1 r hr
        simp only [decide_eq_true_eq]; omega
      simp only [List.filter_cons, ha, decide_false, this]
      exact List.nil_prefix

/-- what the loop has pushed into `r.msgs` is an initial segment of the stored records at or above its resolved start
offset, in log order: the loop is a fetcher in the sense of Model/ReaderFront.lean (`feed`) -/
theorem loop_msgs_prefix {log : List Rec} (hlog : log.Pairwise (fun a b => a.1 < b.1)) {s : RR} (h : RInv log s) (st : Int)
    (hst : s.start = some st) : s.msgs <+: feed log st := by
  obtain ⟨_, _, b2, b3⟩ := h.bounds st hst
  have hfeed : (feed log st).Pairwise (fun a b => a.1 < b.1) := hlog.filter _
  have heq : s.msgs = (feed log st).filter (fun r => r.1 < s.offset) := by
    apply sorted_ext _ _ h.sorted (hfeed.filter _)
    intro r
    simp only [feed, List.mem_filter, decide_eq_true_eq]
    constructor
    · intro hr; have := b2 r hr; exact ⟨⟨this.1, this.2.1⟩, this.2.2⟩
    · intro hr; exact b3 r hr.1.1 hr.1.2 hr.2
  rw [heq]
  exact filter_lt_prefix _ _ hfeed

end KV.C02

namespace KV.C02

/-! ### which offset the loop starts from -/

theorem rstep_start (cfg : RCfg) (s : RR) (e : REv) :
    (rstep cfg s e).start = s.start ∨
    (s.start = none ∧ ∃ f l, e = .initOk f l ∧ (rstep cfg s e).start = some (resolve s.offset f l)) := by
  unfold rstep
  cases hp : s.phase with
  | stopped => left; rfl
  | top =>
    simp only []
    split
    · cases e <;> (left; rfl)
    · cases e with
      | initOk f l =>
        simp only []
        split
        · split <;> (left; rfl)
        · cases hs : s.start with
          | none => right; exact ⟨rfl, f, l, rfl, by simp⟩
          | some x => left; simp
      | initFail oor => cases oor <;> simp only [] <;> (try split) <;> (first | trivial | (left; rfl) | (left; trivial))
      | _ => left; rfl
  | reading =>
    simp only []
    split
    · cases e <;> (left; rfl)
    · cases e with
      | data d off' oc => cases oc <;> (left; rfl)
      | kerr code offs =>
        left
        simp only [onKerr]
        split <;> (try split) <;> (try split) <;> rfl
      | _ => left; rfl

theorem rstep_offset_top (cfg : RCfg) (s : RR) (e : REv) (hp : s.phase ≠ .reading) :
    (rstep cfg s e).offset = s.offset ∨ (rstep cfg s e).start ≠ none := by
  unfold rstep
  cases h : s.phase with
  | reading => exact absurd h hp
  | stopped => left; rfl
  | top =>
    simp only []
    split
    · cases e <;> (left; rfl)
    · cases e with
      | initOk f l =>
        simp only []
        split
        · split <;> (left; rfl)
        · right; cases hs : s.start <;> simp
      | initFail oor => cases oor <;> simp only [] <;> (try split) <;> (first | trivial | (left; rfl) | (left; trivial))
      | _ => left; rfl

theorem feed_resolve (log : List Rec) (o0 first last : Int) (hok : ∀ r ∈ log, first ≤ r.1) (hf : 0 ≤ first) (h1 : o0 ≠ -1) :
    feed log (resolve o0 first last) = feed log o0 := by
  unfold feed
  apply List.filter_congr
  intro r hr
  have := hok r hr
  have hiff : (resolve o0 first last ≤ r.1) ↔ (o0 ≤ r.1) := by
    unfold resolve
    repeat' split
    all_goals first | omega | exact Iff.rfl
  exact decide_eq_decide.mpr hiff

/-- before the first successful `initialize` the loop's offset is the one it was started with (`o0`); afterwards the
resolved start offset selects the same stored records as `from` — `o0` itself for an absolute offset or FirstOffset, the
last offset the broker reports at that moment for LastOffset -/
structure SInv (log : List Rec) (o0 : Int) («from» : Int) (s : RR) : Prop where
  unset : s.start = none → s.offset = o0
  set : ∀ st, s.start = some st → feed log st = feed log «from»

theorem sinv_step (cfg : RCfg) {log : List Rec} {o0 fr : Int} {s : RR} (e : REv) (hi : RInv log s) (h : SInv log o0 fr s)
    (hg : Good log s e)
    (hres : ∀ f l, e = .initOk f l → s.start = none → Good log s e → feed log (resolve o0 f l) = feed log fr) :
    SInv log o0 fr (rstep cfg s e) := by
  have hnr : s.start = none → s.phase ≠ .reading := fun hs hr => (hi.conn hr).1 hs
  constructor
  · intro hs'
    rcases rstep_start cfg s e with h1 | ⟨_, f, l, _, h2⟩
    · have hs : s.start = none := by rw [← h1]; exact hs'
      rcases rstep_offset_top cfg s e (hnr hs) with h3 | h3
      · rw [h3]; exact h.unset hs
      · exact absurd hs' h3
    · rw [h2] at hs'; cases hs'
  · intro st hs'
    rcases rstep_start cfg s e with h1 | ⟨hs, f, l, he, h2⟩
    · exact h.set st (by rw [← h1]; exact hs')
    · rw [h2] at hs'
      cases hs'
      rw [h.unset hs]
      exact hres f l he hs hg

end KV.C02

namespace KV.C02

/-- for an absolute start offset or FirstOffset the resolution does not change which records are selected -/
theorem sinv_res_abs {log : List Rec} {s : RR} {o0 : Int} (hne : o0 ≠ -1) :
    ∀ (e : REv) f l, e = .initOk f l → s.start = none → Good log s e → feed log (resolve o0 f l) = feed log o0 := by
  intro e f l he _ hg
  subst he
  simp only [Good] at hg
  exact feed_resolve log o0 f l hg.2.2 hg.1 hne

theorem winv_run (cfg : RCfg) (items : List Item) (nb : Int) (hnb : 0 ≤ nb) (hwf : LWF nb items) (o0 : Int) (hne : o0 ≠ -1) :
    ∀ (xs : List Env) (s : RR), RInv (allRecords items) s → SInv (allRecords items) o0 o0 s → (∀ x ∈ xs, x.ok items) →
      RInv (allRecords items) (worldRun cfg items s xs) ∧ SInv (allRecords items) o0 o0 (worldRun cfg items s xs) := by
  intro xs
  induction xs with
  | nil => intro s h1 h2 _; exact ⟨h1, h2⟩
  | cons x xs ih =>
    intro s h1 h2 hx
    have hxo := hx x (by simp)
    refine ih _ (rinv_world_step cfg items nb hnb hwf h1 x hxo) ?_ (fun y hy => hx y (by simp [hy]))
    rcases world_good cfg items nb hnb hwf h1 x hxo with hg | he
    · exact sinv_step cfg _ h1 h2 hg (sinv_res_abs hne _)
    · rw [he]; exact h2

/-- the loop started at `o0` (an absolute offset or FirstOffset) pushes an initial segment of `feed log o0` -/
theorem world_msgs_prefix (cfg : RCfg) (items : List Item) (nb : Int) (hnb : 0 ≤ nb) (hwf : LWF nb items) (o0 : Int)
    (ho : -2 ≤ o0) (hne : o0 ≠ -1) (xs : List Env) (hx : ∀ x ∈ xs, x.ok items) :
    (worldRun cfg items { offset := o0 } xs).msgs <+: feed (allRecords items) o0 := by
  obtain ⟨h1, h2⟩ := winv_run cfg items nb hnb hwf o0 hne xs { offset := o0 } (rinv_init _ o0 ho)
    ⟨fun _ => rfl, fun st hs => by cases hs⟩ hx
  cases hs : (worldRun cfg items { offset := o0 } xs).start with
  | none => rw [(h1.nostart hs).1]; exact List.nil_prefix
  | some st =>
    rw [← h2.set st hs]
    exact loop_msgs_prefix (allRecords_sorted items nb hnb hwf) h1 st hs

end KV.C02

namespace KV.C02

/-! ### no starvation: fault-free fetches pass every stored record -/

theorem recordsV2_started (o : Int) : ∀ (rs : List (Int × Nat × Nat)) (s : St), (recordsV2 .fixed o s rs).started = s.started := by
  intro rs
  induction rs with
  | nil => intro s; rfl
  | cons x rs ih =>
    intro s
    obtain ⟨d, t, z⟩ := x
    simp only [recordsV2]
    rw [ih]
    exact (recordV2_fields o s d t z).1

theorem messageV1_started (o : Int) (s : St) (x : Int) (t : Nat) : (messageV1 .fixed o s x t).started = s.started := by
  simp only [messageV1]
  split <;> rfl

theorem messagesV1_started (o base : Int) : ∀ (ms : List (Int × Nat)) (s : St), (messagesV1 .fixed o base s ms).started = s.started := by
  intro ms
  induction ms with
  | nil => intro s; rfl
  | cons x ms ih =>
    intro s
    obtain ⟨f, t⟩ := x
    simp only [messagesV1]
    rw [ih, messageV1_started]

theorem finish_started (e : Bool) (s : St) (h : s.started = true) : (finish .fixed e s).2 ≠ .unexpectedEOF := by
  cases e <;> simp [finish, h]

theorem step_cont_started (e : Bool) (o : Int) (s s' : St) (t : Tok) (h : s.started = true)
    (hs : step .fixed e o s t = .cont s') : s'.started = true := by
  cases t with
  | cut => simp [step] at hs
  | h2 b ld c z pl =>
    simp only [step] at hs
    split at hs
    · cases hs
    · split at hs
      · cases hs
      · cases hs; rfl
  | r2 d t z =>
    simp only [step] at hs
    split at hs
    · cases hs
    · cases hs; rw [(recordV2_fields o s d t z).1]; exact h
  | z2 p rs =>
    simp only [step] at hs
    split at hs
    · cases hs
    · cases hs; rw [recordsV2_started]; exact h
  | h1 m f z =>
    simp only [step] at hs
    split at hs
    · cases hs
    · cases hs; rfl
  | kv t z =>
    simp only [step] at hs
    split at hs
    · cases hs
    · cases hs; rw [messageV1_started]; exact h
  | zv z inner =>
    simp only [step] at hs
    split at hs
    · cases hs
    · cases hs; rw [messagesV1_started]; exact h

theorem step_stop_ne (e : Bool) (o : Int) (s s' : St) (t : Tok) (r : Outcome) (h : s.started = true)
    (hs : step .fixed e o s t = .stop s' r) : r ≠ .unexpectedEOF := by
  cases t with
  | cut =>
    simp only [step] at hs
    have := finish_started e s h
    cases hf : finish .fixed e s with
    | mk s1 r1 => rw [hf] at hs this; simp only [Res.stop.injEq] at hs; rw [← hs.2]; exact this
  | h2 b ld c z pl =>
    simp only [step] at hs
    split at hs
    · cases hs; simp
    · split at hs
      · cases hs; simp
      · cases hs
  | r2 d t z => simp only [step] at hs; split at hs <;> cases hs; simp
  | z2 p rs => simp only [step] at hs; split at hs <;> cases hs; simp
  | h1 m f z => simp only [step] at hs; split at hs <;> cases hs; simp
  | kv t z => simp only [step] at hs; split at hs <;> cases hs; simp
  | zv z inner => simp only [step] at hs; split at hs <;> cases hs; simp

/-- once the first header has been read a round never ends with io.ErrUnexpectedEOF -/
theorem run_started (e : Bool) (o : Int) : ∀ (ts : List Tok) (s : St), s.started = true → (run .fixed e o s ts).2 ≠ .unexpectedEOF := by
  intro ts
  induction ts with
  | nil => intro s h; simp only [run]; exact finish_started e s h
  | cons t ts ih =>
    intro s h
    simp only [run]
    cases hs : step .fixed e o s t with
    | cont s' => simp only []; exact ih s' (step_cont_started e o s s' t h hs)
    | stop s' r => exact step_stop_ne e o s s' t r h hs

end KV.C02

namespace KV.C02

/-- the first item of a response that arrives whole starts with a complete header: the round does not end with
io.ErrUnexpectedEOF -/
theorem fetch_whole_started (nb : Int) (it : Item) (rest : List Item) (hwf : LWF nb (it :: rest)) (e : Bool) (q hwm : Int)
    (hne : hwm ≠ q) (n : Nat) (hn : it.size ≤ n) :
    (readAll .fixed e q hwm (truncate (allTokens (it :: rest)) n)).2.2 ≠ .unexpectedEOF := by
  simp only [readAll, hne, if_false]
  cases it with
  | b2 base last codec plen recs =>
    simp only [Item.size] at hn
    cases codec with
    | true =>
      have h61 : (61 : Nat) ≤ n := by omega
      simp only [allTokens, List.flatMap_cons, tokensOf, if_true, List.cons_append, List.nil_append, truncate, Tok.size, h61, run, step]
      simp only [Nat.lt_irrefl, Bool.false_eq_true, or_self, if_false, false_and]
      exact run_started e q _ _ rfl
    | false =>
      have h61 : (61 : Nat) ≤ n := by omega
      simp only [allTokens, List.flatMap_cons, tokensOf, Bool.false_eq_true, if_false, List.cons_append, truncate, Tok.size, h61, if_true, run, step]
      simp only [Nat.lt_irrefl, Bool.false_eq_true, or_self, if_false, false_and]
      exact run_started e q _ _ rfl
  | m magic off tag size =>
    simp only [LWF] at hwf
    simp only [Item.size] at hn
    have hh : (if magic = 1 then 26 else 18) ≤ n := by have := hwf.2.2.1; simp only [hdr1Size] at this; omega
    simp only [allTokens, List.flatMap_cons, tokensOf, List.cons_append, truncate, Tok.size, hh, if_true, run, step]
    simp only [Nat.lt_irrefl, if_false]
    exact run_started e q _ _ rfl
  | w magic woff size inner =>
    simp only [LWF] at hwf
    simp only [Item.size] at hn
    have hh : (if magic = 1 then 26 else 18) ≤ n := by have := hwf.2.2.2.1; simp only [hdr1Size] at this; omega
    simp only [allTokens, List.flatMap_cons, tokensOf, List.cons_append, truncate, Tok.size, hh, if_true, run, step]
    simp only [Nat.lt_irrefl, if_false]
    exact run_started e q _ _ rfl

theorem dropBefore_length_le (q : Int) : ∀ (items : List Item), (dropBefore q items).length ≤ items.length := by
  intro items
  induction items with
  | nil => simp [dropBefore]
  | cons it rest ih =>
    simp only [dropBefore]
    split
    · simp only [List.length_cons]; omega
    · exact Nat.le_refl _

/-- moving the position forward only drops more -/
theorem dropBefore_trans (q q' : Int) (h : q ≤ q') : ∀ (items : List Item), dropBefore q' (dropBefore q items) = dropBefore q' items := by
  intro items
  induction items with
  | nil => rfl
  | cons it rest ih =>
    by_cases h1 : it.last < q
    · have h2 : it.last < q' := by omega
      simp only [dropBefore, h1, h2, if_true, ih]
    · simp only [dropBefore, h1, if_false]

theorem dropBefore_nil_all {items : List Item} {nb : Int} (hwf : LWF nb items) (q : Int) (h : dropBefore q items = []) :
    ∀ r ∈ allRecords items, r.1 < q := by
  intro r hr
  rcases (dropBefore_spec q hwf).2.1 r hr with h1 | h1
  · exact h1
  · rw [h] at h1; simp [allRecords] at h1

end KV.C02
