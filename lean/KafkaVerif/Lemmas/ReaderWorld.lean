/-
Lemmas/ReaderWorld.lean — the three layers composed: the decoder as written (Model/PullReader) on what a
contract-obeying broker serves (Spec/Layout) produces fetch rounds that are `Good` in the sense of Lemmas/ReaderLoopLTS,
so the invariant of the reader loop holds with nothing assumed about the `read` calls.
-/
import KafkaVerif.Model.ReaderWorld
import KafkaVerif.Lemmas.ReaderLoopLTS
import KafkaVerif.Lemmas.PullReader
import KafkaVerif.Model.ReaderFront

namespace KV.C02

/-- one fetch round at conn offset `q` on the first `n` bytes of what the broker has from `q` on, deadline passed or
not (`fetch_round` is the case `n = serveBudget …`, `e = false`) -/
theorem fetch_round_gen (items : List Item) (nb : Int) (hnb : 0 ≤ nb) (hwf : LWF nb items) (hwm q : Int) (hq : 0 ≤ q)
    (e : Bool) (n : Nat) :
    let res := readAll .fixed e q hwm (truncate (allTokens (dropBefore q items)) n)
    (∀ r ∈ res.1, r ∈ allRecords items ∧ q ≤ r.1 ∧ r.1 < res.2.1) ∧
    (∀ r ∈ allRecords items, q ≤ r.1 → r.1 < res.2.1 → r ∈ res.1) ∧
    res.1.Pairwise (fun a b => a.1 < b.1) ∧
    res.2.2 ≠ .desync ∧
    ((∀ it rest, dropBefore q items = it :: rest → it.size ≤ n) →
      q ≤ res.2.1 ∧ (hwm ≠ q → dropBefore q items ≠ [] → q < res.2.1)) := by
  by_cases hne : hwm = q
  · simp [readAll, hne]
  · obtain ⟨d1, d2, d3, d4⟩ := dropBefore_spec q hwf
    have hsafe : Safe q (dropBefore q items) := by
      cases hsub : dropBefore q items with
      | nil => trivial
      | cons it rest => rw [hsub] at d1; exact safe_of_contract d1 (d4 it rest hsub)
    have hp := layout_run e q (dropBefore q items) nb { off := q } n d1 hsafe (bnd_init hq hnb _)
    have hrun : readAll .fixed e q hwm (truncate (allTokens (dropBefore q items)) n)
        = ((runCut .fixed e q { off := q } (allTokens (dropBefore q items)) n).1.out,
           (runCut .fixed e q { off := q } (allTokens (dropBefore q items)) n).1.off,
           (runCut .fixed e q { off := q } (allTokens (dropBefore q items)) n).2) := by
      simp only [readAll, hne, if_false, run_truncate]
    rw [hrun]
    simp only
    have hout := hp.out
    simp only [List.nil_append] at hout
    refine ⟨?_, ?_, hp.resok.2, hp.ok, ?_⟩
    · intro r hr
      have hb := hp.resok.1 r hr
      rw [hout] at hr
      simp only [List.mem_filter] at hr
      exact ⟨d3 r (contained_subset _ _ r hr.1), hb⟩
    · intro r hr h1 h2
      rcases d2 r hr with hlt | hsub
      · omega
      · rw [hout]
        simp only [List.mem_filter, decide_eq_true_eq]
        exact ⟨hp.nogap r hsub h1 h2, h1⟩
    · intro hfirst
      cases hsub : dropBefore q items with
      | nil => exact ⟨by cases e <;> simp [allTokens, runCut, finish], fun _ h => absurd rfl h⟩
      | cons it rest =>
        have hpr := hp.prog
        rw [hsub] at hpr
        have : it.size ≤ n := hfirst it rest hsub
        have hlast := d4 it rest hsub
        have := hpr (it.last + 1) (by simp [progLB, this, hlast])
        exact ⟨by omega, fun _ _ => by omega⟩

/-- the same round read by the decoder as written -/
theorem fetch_round_pull (items : List Item) (nb : Int) (hnb : 0 ≤ nb) (hwf : LWF nb items) (hwm q : Int) (hq : 0 ≤ q)
    (e : Bool) (n : Nat) :
    Pull.readAll e q hwm (truncate (allTokens (dropBefore q items)) n)
      = readAll .fixed e q hwm (truncate (allTokens (dropBefore q items)) n) := by
  have h := fetch_round_gen items nb hnb hwf hwm q hq e n
  exact pull_eq_run_all e q hwm _ (allWF_truncate _ _ (allWF_tokens _ nb (dropBefore_spec q hwf).1)) h.2.2.2.1

theorem rstep_data_noop (cfg : RCfg) (s : RR) (hp : s.phase ≠ .reading) (d : List Rec) (off' : Int) (oc : Outcome) :
    rstep cfg s (.data d off' oc) = s := by
  unfold rstep
  cases h : s.phase with
  | reading => exact absurd h hp
  | stopped => rfl
  | top => simp only []; split <;> rfl

theorem rstep_cut_noop (cfg : RCfg) (s : RR) (hp : s.phase ≠ .reading) (d : List Rec) :
    rstep cfg s (.cutAfter d) = s := by
  unfold rstep
  cases h : s.phase with
  | reading => exact absurd h hp
  | stopped => rfl
  | top => simp only []; split <;> rfl

/-- the computed events are `Good` (or ignored by the loop in its current state) -/
theorem world_good (cfg : RCfg) (items : List Item) (nb : Int) (hnb : 0 ≤ nb) (hwf : LWF nb items) {s : RR}
    (h : RInv (allRecords items) s) (x : Env) (hx : x.ok items) :
    Good (allRecords items) s (worldEvent items s x) ∨ rstep cfg s (worldEvent items s x) = s := by
  have hq : s.phase = .reading → 0 ≤ s.connOff := by
    intro hr
    obtain ⟨hst, hoc, _⟩ := h.conn hr
    cases hs : s.start with
    | none => exact absurd hs hst
    | some st => have := h.bounds st hs; omega
  cases x with
  | fetch b hwm e =>
    by_cases hr : s.phase = .reading
    · left
      simp only [worldEvent, serve, Good]
      rw [fetch_round_pull items nb hnb hwf hwm s.connOff (hq hr) e _]
      obtain ⟨f1, f2, f3, f4, f5⟩ := fetch_round_gen items nb hnb hwf hwm s.connOff (hq hr) e
        (serveBudget (dropBefore s.connOff items) b)
      refine ⟨⟨f3, f1, f2, (f5 ?_).1⟩, f4⟩
      intro it rest hsub
      rw [hsub]; simp only [serveBudget]; omega
    · right; simp only [worldEvent]; exact rstep_data_noop cfg s hr _ _ _
  | lost n hwm e =>
    by_cases hr : s.phase = .reading
    · left
      simp only [worldEvent, Good]
      rw [fetch_round_pull items nb hnb hwf hwm s.connOff (hq hr) e n]
      obtain ⟨f1, f2, f3, f4, _⟩ := fetch_round_gen items nb hnb hwf hwm s.connOff (hq hr) e n
      refine ⟨f3, fun r hr' => ⟨(f1 r hr').1, (f1 r hr').2.1⟩, ?_⟩
      intro r hrl x hx' h1 h2
      exact f2 r hrl h1 (by have := (f1 x hx').2.2; omega)
    · right; simp only [worldEvent]; exact rstep_cut_noop cfg s hr _
  | initOk first last => left; simpa [worldEvent, Good, Env.ok] using hx
  | kerr code offs =>
    left
    simp only [worldEvent]
    unfold Good
    split
    · rename_i heq; cases heq
    · rename_i heq; cases heq
    · rename_i heq; cases heq
    · rename_i first last heq
      cases heq
      simpa [Env.ok] using hx
    · trivial
  | sleepOk => left; simp [worldEvent, Good]
  | sleepCancel => left; simp [worldEvent, Good]
  | initFail oor => left; simp [worldEvent, Good]
  | ioErr => left; simp [worldEvent, Good]
  | ctxCanceled => left; simp [worldEvent, Good]
  | unknownCodec => left; simp [worldEvent, Good]

/-- the computed events keep the loop invariant -/
theorem rinv_world_step (cfg : RCfg) (items : List Item) (nb : Int) (hnb : 0 ≤ nb) (hwf : LWF nb items) {s : RR}
    (h : RInv (allRecords items) s) (x : Env) (hx : x.ok items) :
    RInv (allRecords items) (rstep cfg s (worldEvent items s x)) := by
  rcases world_good cfg items nb hnb hwf h x hx with hg | he
  · exact rinv_step cfg _ h hg
  · rw [he]; exact h

/-- a fetch of the loop moves the connection's position forward when there is data -/
theorem world_fetch_progress (cfg : RCfg) (items : List Item) (nb : Int) (hnb : 0 ≤ nb) (hwf : LWF nb items) (s : RR)
    (hp : s.phase = .reading) (hs : s.slept = true) (hq : 0 ≤ s.connOff) (b : Nat) (hwm : Int) (e : Bool)
    (hne : hwm ≠ s.connOff) (hdata : dropBefore s.connOff items ≠ []) :
    s.connOff < (rstep cfg s (worldEvent items s (.fetch b hwm e))).connOff := by
  obtain ⟨_, _, _, _, f5⟩ := fetch_round_gen items nb hnb hwf hwm s.connOff hq e (serveBudget (dropBefore s.connOff items) b)
  have hlt := (f5 (by intro it rest hsub; rw [hsub]; simp only [serveBudget]; omega)).2 hne hdata
  rw [← fetch_round_pull items nb hnb hwf hwm s.connOff hq e _] at hlt
  simp only [worldEvent, serve, rstep, hp, hs]
  cases (Pull.readAll e s.connOff hwm (truncate (allTokens (dropBefore s.connOff items)) (serveBudget (dropBefore s.connOff items) b))).2.2 <;>
    simpa [again, toTop, pushMsgs] using hlt

theorem rinv_world_run (cfg : RCfg) (items : List Item) (nb : Int) (hnb : 0 ≤ nb) (hwf : LWF nb items) :
    ∀ (xs : List Env) (s : RR), RInv (allRecords items) s → (∀ x ∈ xs, x.ok items) →
      RInv (allRecords items) (worldRun cfg items s xs) := by
  intro xs
  induction xs with
  | nil => intro s h _; exact h
  | cons x xs ih =>
    intro s h hx
    exact ih _ (rinv_world_step cfg items nb hnb hwf h x (hx x (by simp))) (fun y hy => hx y (by simp [hy]))

end KV.C02

namespace KV.C02

/-! ### the loop is the fetcher the front model assumes: what it pushes is a prefix of `feed log start` -/

theorem records_ge : ∀ {items : List Item} {nb : Int}, LWF nb items → ∀ r ∈ allRecords items, nb ≤ r.1 := by
  intro items
  induction items with
  | nil => intro nb _ r hr; simp [allRecords] at hr
  | cons it rest ih =>
    intro nb h r hr
    obtain ⟨h1, h2, h3⟩ := item_bounds h
    simp only [allRecords, List.flatMap_cons, List.mem_append] at hr
    rcases hr with hr | hr
    · exact (h1 r hr).1
    · have := ih h3 r (by simpa [allRecords] using hr); omega

/-- the stored records of a well-formed layout have strictly increasing offsets -/
theorem allRecords_sorted (items : List Item) (nb : Int) (hnb : 0 ≤ nb) (hwf : LWF nb items) :
    (allRecords items).Pairwise (fun a b => a.1 < b.1) := by
  have hsafe : Safe 0 items := safe_of_lasts (fun it hit => by have := lasts_ge hwf it hit; omega)
  have hp := layout_run false 0 items nb { off := 0 } (itemsSize items) hwf hsafe (bnd_init (Int.le_refl 0) hnb _)
  have hout := hp.out
  rw [contained_all items _ (Nat.le_refl _)] at hout
  simp only [List.nil_append] at hout
  have hfil : (allRecords items).filter (fun r => (0 : Int) ≤ r.1) = allRecords items := by
    apply List.filter_eq_self.mpr
    intro r hr
    have := records_ge hwf r hr
    simp only [decide_eq_true_eq]; omega
  have := hp.resok.2
  rw [hout, hfil] at this
  exact this

theorem sorted_ext : ∀ (l1 l2 : List Rec), l1.Pairwise (fun a b => a.1 < b.1) → l2.Pairwise (fun a b => a.1 < b.1) →
    (∀ r, r ∈ l1 ↔ r ∈ l2) → l1 = l2 := by
  intro l1
  induction l1 with
  | nil =>
    intro l2 _ _ h
    cases l2 with
    | nil => rfl
    | cons b l2 => exact absurd ((h b).2 (by simp)) (by simp)
  | cons a l1 ih =>
    intro l2 h1 h2 h
    cases l2 with
    | nil => exact absurd ((h a).1 (by simp)) (by simp)
    | cons b l2 =>
      rw [List.pairwise_cons] at h1 h2
      have hab : a = b := by
        have ha := (h a).1 (by simp)
        have hb := (h b).2 (by simp)
        simp only [List.mem_cons] at ha hb
        rcases ha with ha | ha
        · exact ha
        · rcases hb with hb | hb
          · exact hb.symm
          · have := h1.1 b hb; have := h2.1 a ha; omega
      subst hab
      congr 1
      apply ih l2 h1.2 h2.2
      intro r
      constructor
      · intro hr
        have := (h r).1 (by simp [hr])
        simp only [List.mem_cons] at this
        rcases this with rfl | this
        · have := h1.1 r hr; omega
        · exact this
      · intro hr
        have := (h r).2 (by simp [hr])
        simp only [List.mem_cons] at this
        rcases this with rfl | this
        · have := h2.1 r hr; omega
        · exact this

theorem filter_lt_prefix : ∀ (l : List Rec) (off : Int), l.Pairwise (fun a b => a.1 < b.1) →
    l.filter (fun r => r.1 < off) <+: l := by
  intro l
  induction l with
  | nil => intro _ _; simp
  | cons a l ih =>
    intro off h
    rw [List.pairwise_cons] at h
    by_cases ha : a.1 < off
    · simp only [List.filter_cons, ha, decide_true, if_true]
      exact List.prefix_cons_inj a |>.mpr (ih off h.2)
    · have : l.filter (fun r => r.1 < off) = [] := by
        apply List.filter_eq_nil_iff.mpr
        intro r hr
        have := h.1 r hr
        simp only [decide_eq_true_eq]; omega
      simp only [List.filter_cons, ha, decide_false, this]
      exact List.nil_prefix

/-- what the loop has pushed into `r.msgs` is an initial segment of the stored records at or above its resolved start
offset, in log order: the loop is a fetcher in the sense of Model/ReaderFront.lean (`feed`) -/
theorem loop_msgs_prefix {log : List Rec} (hlog : log.Pairwise (fun a b => a.1 < b.1)) {s : RR} (h : RInv log s) (st : Int)
    (hst : s.start = some st) : s.msgs <+: feed log st := by
  obtain ⟨_, _, b2, b3⟩ := h.bounds st hst
  have hfeed : (feed log st).Pairwise (fun a b => a.1 < b.1) := hlog.filter _
  have heq : s.msgs = (feed log st).filter (fun r => r.1 < s.offset) := by
    apply sorted_ext _ _ h.sorted (hfeed.filter _)
    intro r
    simp only [feed, List.mem_filter, decide_eq_true_eq]
    constructor
    · intro hr; have := b2 r hr; exact ⟨⟨this.1, this.2.1⟩, this.2.2⟩
    · intro hr; exact b3 r hr.1.1 hr.1.2 hr.2
  rw [heq]
  exact filter_lt_prefix _ _ hfeed

end KV.C02

namespace KV.C02

/-! ### which offset the loop starts from -/

theorem rstep_start (cfg : RCfg) (s : RR) (e : REv) :
    (rstep cfg s e).start = s.start ∨
    (s.start = none ∧ ∃ f l, e = .initOk f l ∧ (rstep cfg s e).start = some (resolve s.offset f l)) := by
  unfold rstep
  cases hp : s.phase with
  | stopped => left; rfl
  | top =>
    simp only []
    split
    · cases e <;> (left; rfl)
    · cases e with
      | initOk f l =>
        simp only []
        split
        · split <;> (left; rfl)
        · cases hs : s.start with
          | none => right; exact ⟨rfl, f, l, rfl, by simp⟩
          | some x => left; simp
      | initFail oor => cases oor <;> simp only [] <;> (try split) <;> (first | trivial | (left; rfl) | (left; trivial))
      | _ => left; rfl
  | reading =>
    simp only []
    split
    · cases e <;> (left; rfl)
    · cases e with
      | data d off' oc => cases oc <;> (left; rfl)
      | kerr code offs =>
        left
        simp only [onKerr]
        split <;> (try split) <;> (try split) <;> rfl
      | _ => left; rfl

theorem rstep_offset_top (cfg : RCfg) (s : RR) (e : REv) (hp : s.phase ≠ .reading) :
    (rstep cfg s e).offset = s.offset ∨ (rstep cfg s e).start ≠ none := by
  unfold rstep
  cases h : s.phase with
  | reading => exact absurd h hp
  | stopped => left; rfl
  | top =>
    simp only []
    split
    · cases e <;> (left; rfl)
    · cases e with
      | initOk f l =>
        simp only []
        split
        · split <;> (left; rfl)
        · right; cases hs : s.start <;> simp
      | initFail oor => cases oor <;> simp only [] <;> (try split) <;> (first | trivial | (left; rfl) | (left; trivial))
      | _ => left; rfl

theorem feed_resolve (log : List Rec) (o0 first last : Int) (hok : ∀ r ∈ log, first ≤ r.1) (hf : 0 ≤ first) (h1 : o0 ≠ -1) :
    feed log (resolve o0 first last) = feed log o0 := by
  unfold feed
  apply List.filter_congr
  intro r hr
  have := hok r hr
  have hiff : (resolve o0 first last ≤ r.1) ↔ (o0 ≤ r.1) := by
    unfold resolve
    repeat' split
    all_goals first | omega | exact Iff.rfl
  exact decide_eq_decide.mpr hiff

/-- before the first successful `initialize` the loop's offset is the one it was started with; afterwards the resolved
start offset selects the same stored records as that one (for LastOffset, −1, it depends on the broker's answer) -/
structure SInv (log : List Rec) (o0 : Int) (s : RR) : Prop where
  unset : s.start = none → s.offset = o0
  set : ∀ st, s.start = some st → o0 ≠ -1 → feed log st = feed log o0

theorem sinv_step (cfg : RCfg) {log : List Rec} {o0 : Int} {s : RR} (e : REv) (hi : RInv log s) (h : SInv log o0 s)
    (hg : Good log s e) : SInv log o0 (rstep cfg s e) := by
  have hnr : s.start = none → s.phase ≠ .reading := fun hs hr => (hi.conn hr).1 hs
  constructor
  · intro hs'
    rcases rstep_start cfg s e with h1 | ⟨_, f, l, _, h2⟩
    · have hs : s.start = none := by rw [← h1]; exact hs'
      rcases rstep_offset_top cfg s e (hnr hs) with h3 | h3
      · rw [h3]; exact h.unset hs
      · exact absurd hs' h3
    · rw [h2] at hs'; cases hs'
  · intro st hs' hne
    rcases rstep_start cfg s e with h1 | ⟨hs, f, l, he, h2⟩
    · exact h.set st (by rw [← h1]; exact hs') hne
    · rw [h2] at hs'
      cases hs'
      subst he
      simp only [Good] at hg
      rw [h.unset hs]
      exact feed_resolve log o0 f l hg.2.2 hg.1 hne

end KV.C02

namespace KV.C02

theorem winv_run (cfg : RCfg) (items : List Item) (nb : Int) (hnb : 0 ≤ nb) (hwf : LWF nb items) (o0 : Int) :
    ∀ (xs : List Env) (s : RR), RInv (allRecords items) s → SInv (allRecords items) o0 s → (∀ x ∈ xs, x.ok items) →
      RInv (allRecords items) (worldRun cfg items s xs) ∧ SInv (allRecords items) o0 (worldRun cfg items s xs) := by
  intro xs
  induction xs with
  | nil => intro s h1 h2 _; exact ⟨h1, h2⟩
  | cons x xs ih =>
    intro s h1 h2 hx
    have hxo := hx x (by simp)
    refine ih _ (rinv_world_step cfg items nb hnb hwf h1 x hxo) ?_ (fun y hy => hx y (by simp [hy]))
    rcases world_good cfg items nb hnb hwf h1 x hxo with hg | he
    · exact sinv_step cfg _ h1 h2 hg
    · rw [he]; exact h2

/-- the loop started at `o0` (an absolute offset or FirstOffset) pushes an initial segment of `feed log o0` -/
theorem world_msgs_prefix (cfg : RCfg) (items : List Item) (nb : Int) (hnb : 0 ≤ nb) (hwf : LWF nb items) (o0 : Int)
    (ho : -2 ≤ o0) (hne : o0 ≠ -1) (xs : List Env) (hx : ∀ x ∈ xs, x.ok items) :
    (worldRun cfg items { offset := o0 } xs).msgs <+: feed (allRecords items) o0 := by
  obtain ⟨h1, h2⟩ := winv_run cfg items nb hnb hwf o0 xs { offset := o0 } (rinv_init _ o0 ho)
    ⟨fun _ => rfl, fun st hs => by cases hs⟩ hx
  cases hs : (worldRun cfg items { offset := o0 } xs).start with
  | none => rw [(h1.nostart hs).1]; exact List.nil_prefix
  | some st =>
    rw [← h2.set st hs hne]
    exact loop_msgs_prefix (allRecords_sorted items nb hnb hwf) h1 st hs

end KV.C02
