/-
Lemmas/CodecAccount.lean — the frame decoder of Model/Codec.lean never loses track of the frame boundary: the stream
position and `decoder.remain` move together through EVERY step, for arbitrary input.  Consequence (Props/C20,
`readResponse_consumes_frame`): whenever ReadResponse returns a message, exactly the announced frame has left the
connection — for every schema, record sets (read by a reader with the same property) included.
-/
import KafkaVerif.Model.Codec

namespace KV.Codec
open KV KV.Wire

/-- `d'` is `d` after `n` bytes left the stream and were charged to the frame -/
def DAdv (d d' : Dec) : Prop := ∃ n : Nat, n ≤ d.inp.length ∧ d'.inp = d.inp.drop n ∧ d'.remain + n = d.remain

theorem DAdv.refl (d : Dec) : DAdv d d := ⟨0, by omega, by simp, by omega⟩

theorem DAdv.trans {a b c : Dec} (h1 : DAdv a b) (h2 : DAdv b c) : DAdv a c := by
  obtain ⟨n1, l1, i1, r1⟩ := h1
  obtain ⟨n2, l2, i2, r2⟩ := h2
  refine ⟨n1 + n2, ?_, ?_, by omega⟩
  · rw [i1, List.length_drop] at l2; omega
  · rw [i2, i1, List.drop_drop]

theorem bind_ok_inv {α β : Type} {r : Res α} {f : α → Dec → Res β} {b : β} {d2 : Dec}
    (h : r.bind f = .ok b d2) : ∃ a d1, r = .ok a d1 ∧ f a d1 = .ok b d2 := by
  cases r with
  | ok a d1 => exact ⟨a, d1, rfl, by simpa [Res.bind] using h⟩
  | error => simp [Res.bind] at h
  | panic => simp [Res.bind] at h
  | balloon => simp [Res.bind] at h

theorem readN_adv (k : Nat) (d d' : Dec) (bs : Bytes) (h : readN k d = .ok bs d') : DAdv d d' := by
  unfold readN at h
  split at h
  · rename_i hk
    simp only [Res.ok.injEq] at h
    rw [← h.2]
    exact ⟨k, hk.2, rfl, by simp; omega⟩
  · simp at h

theorem readInt_adv (k : Nat) (d d' : Dec) (i : Int) (h : readInt k d = .ok i d') : DAdv d d' := by
  unfold readInt at h
  obtain ⟨bs, d1, h1, h2⟩ := bind_ok_inv h
  simp only [Res.ok.injEq] at h2
  rw [← h2.2]; exact readN_adv k d d1 bs h1

theorem readUvarintAux_suffix : ∀ (fuel : Nat) (bs : Bytes) (v : Nat) (rest : Bytes),
    readUvarintAux fuel bs = some (v, rest) → ∃ j, j ≤ fuel ∧ j ≤ bs.length ∧ rest = bs.drop j
  | 0, _, _, _, h => by simp [readUvarintAux] at h
  | _ + 1, [], _, _, h => by simp [readUvarintAux] at h
  | fuel + 1, b :: bs, v, rest, h => by
    simp only [readUvarintAux] at h
    split at h
    · simp only [Option.some.injEq, Prod.mk.injEq] at h
      exact ⟨1, by omega, by simp, by rw [← h.2]; rfl⟩
    · split at h
      · rename_i v' r' heq
        simp only [Option.some.injEq, Prod.mk.injEq] at h
        obtain ⟨j, hj, hl, hr⟩ := readUvarintAux_suffix fuel bs v' r' heq
        exact ⟨j + 1, by omega, by simp; omega, by rw [← h.2, hr]; rfl⟩
      · simp at h

theorem readUvarint_adv (d d' : Dec) (n : Nat) (h : readUvarint d = .ok n d') : DAdv d d' := by
  unfold readUvarint at h
  split at h
  · rename_i v rest heq
    simp only [Res.ok.injEq] at h
    obtain ⟨j, hj, hl, hr⟩ := readUvarintAux_suffix _ _ _ _ heq
    rw [← h.2]
    refine ⟨j, hl, hr, ?_⟩
    simp only [hr, List.length_drop]
    have : j ≤ d.remain := by omega
    omega
  · simp at h

theorem readLen_adv (cfg : Cfg) (n : Int) (d d' : Dec) (bs : Bytes) (h : readLen cfg n d = .ok bs d') : DAdv d d' := by
  unfold readLen at h
  split at h
  · split at h <;> simp at h
  · split at h
    · split at h <;> simp at h
    · split at h
      · simp at h
      · split at h
        · rename_i h1 h2 hg h3
          simp only [Res.ok.injEq] at h
          rw [← h.2]
          exact ⟨n.toNat, h3, rfl, by simp; omega⟩
        · simp at h

theorem allocElems_adv (cfg : Cfg) (n : Int) (d d' : Dec) (k : Nat) (h : allocElems cfg n d = .ok k d') : d' = d := by
  unfold allocElems at h
  split at h
  · split at h <;> simp at h
  · split at h
    · split at h <;> simp at h
    · split at h
      · simp at h
      · simp only [Res.ok.injEq] at h; exact h.2.symm

theorem tagCount_adv (cfg : Cfg) (u : Nat) (d d' : Dec) (k : Nat) (h : tagCount cfg u d = .ok k d') : d' = d := by
  unfold tagCount at h
  simp only [] at h
  split at h
  · split at h
    · simp at h
    · simp only [Res.ok.injEq] at h; exact h.2.symm
  · split at h
    · simp at h
    · simp only [Res.ok.injEq] at h; exact h.2.symm

/-- `f` keeps stream and frame together -/
def Acc {α : Type} (f : Dec → Res α) : Prop := ∀ d a d', f d = .ok a d' → DAdv d d'

theorem decodeElems_adv (f : Dec → Res Val) (z : Val) (hf : Acc f) :
    ∀ (n : Nat) (d : Dec) (vs : List Val) (d' : Dec), decodeElems f z n d = .ok vs d' → DAdv d d'
  | 0, d, vs, d', h => by simp only [decodeElems, Res.ok.injEq] at h; rw [← h.2]; exact DAdv.refl d
  | n + 1, d, vs, d', h => by
    unfold decodeElems at h
    split at h
    · simp only [Res.ok.injEq] at h; rw [← h.2]; exact DAdv.refl d
    · obtain ⟨v, d1, h1, h⟩ := bind_ok_inv h
      obtain ⟨vs', d2, h2, h⟩ := bind_ok_inv h
      simp only [Res.ok.injEq] at h
      rw [← h.2]
      exact (hf d v d1 h1).trans (decodeElems_adv f z hf n d1 vs' d2 h2)

theorem taggedLoop_adv (cfg : Cfg) (lookup : Int → Option (Nat × (Dec → Res Val)))
    (hl : ∀ id idx dec, lookup id = some (idx, dec) → Acc dec) :
    ∀ (n : Nat) (slots : List Val) (d : Dec) (out : List Val) (d' : Dec),
      taggedLoop cfg lookup n slots d = .ok out d' → DAdv d d'
  | 0, slots, d, out, d', h => by simp only [taggedLoop, Res.ok.injEq] at h; rw [← h.2]; exact DAdv.refl d
  | n + 1, slots, d, out, d', h => by
    unfold taggedLoop at h
    obtain ⟨tagID, d1, h1, h⟩ := bind_ok_inv h
    obtain ⟨size, d2, h2, h⟩ := bind_ok_inv h
    have a12 := (readUvarint_adv d d1 _ h1).trans (readUvarint_adv d1 d2 _ h2)
    split at h
    · rename_i idx dec heq
      obtain ⟨v, d3, h3, h⟩ := bind_ok_inv h
      exact (a12.trans (hl _ idx dec heq d2 v d3 h3)).trans (taggedLoop_adv cfg lookup hl n _ d3 out d' h)
    · obtain ⟨_, d3, h3, h⟩ := bind_ok_inv h
      exact (a12.trans (readLen_adv cfg _ d2 d3 _ h3)).trans (taggedLoop_adv cfg lookup hl n _ d3 out d' h)

/-- decoding one type keeps stream and frame together -/
def DA (cfg : Cfg) (t : Ty) : Prop := Acc (decode cfg t)

/-- the record-set reader plugged into the decoder (if any) keeps stream and frame together -/
def RecsAcc (cfg : Cfg) : Prop := ∀ h, cfg.recs = some h → Acc h

theorem decodeFields_adv (cfg : Cfg) : ∀ (fs : List Ty), (∀ t ∈ fs, DA cfg t) → Acc (decodeFields cfg fs)
  | [], _, d, vs, d', h => by simp only [decodeFields, Res.ok.injEq] at h; rw [← h.2]; exact DAdv.refl d
  | t :: ts, ht, d, vs, d', h => by
    unfold decodeFields at h
    obtain ⟨v, d1, h1, h⟩ := bind_ok_inv h
    obtain ⟨vs', d2, h2, h⟩ := bind_ok_inv h
    simp only [Res.ok.injEq] at h
    rw [← h.2]
    exact (ht t (by simp) d v d1 h1).trans
      (decodeFields_adv cfg ts (fun t' h' => ht t' (by simp [h'])) d1 vs' d2 h2)

theorem tagLookup_acc (cfg : Cfg) : ∀ (ids : List Int) (ts : List Ty), (∀ t ∈ ts, DA cfg t) →
    ∀ (k : Nat) (id : Int) (idx : Nat) (dec : Dec → Res Val), tagLookup cfg ids ts k id = some (idx, dec) → Acc dec
  | [], _, _, _, _, _, _, h => by simp [tagLookup] at h
  | _ :: _, [], _, _, _, _, _, h => by simp [tagLookup] at h
  | i :: is, t :: ts, hts, k, id, idx, dec, h => by
    unfold tagLookup at h
    split at h
    · rename_i r heq
      simp only [Option.some.injEq] at h
      subst h
      exact tagLookup_acc cfg is ts (fun t' ht' => hts t' (by simp [ht'])) (k + 1) id idx dec heq
    · split at h
      · simp only [Option.some.injEq, Prod.mk.injEq] at h
        obtain ⟨_, rfl⟩ := h
        exact hts t (by simp)
      · simp at h

theorem da_lenPrefixed (cfg : Cfg) (t : Ty) (compact : Bool) (k : Nat) (mk : Bytes → Val) (nul : Val)
    (hdec : ∀ d, decode cfg t d =
      if compact then
        (readUvarint d).bind fun n d =>
          if n < 1 then .ok nul d else (readLen cfg (lenOfU cfg (n - 1)) d).bind fun bs d => .ok (mk bs) d
      else
        (readInt k d).bind fun n d =>
          if n < 0 then .ok nul d else (readLen cfg n d).bind fun bs d => .ok (mk bs) d) : DA cfg t := by
  intro d v d' h
  rw [hdec] at h
  split at h
  · obtain ⟨n, d1, h1, h⟩ := bind_ok_inv h
    have a1 := readUvarint_adv d d1 n h1
    split at h
    · simp only [Res.ok.injEq] at h; rw [← h.2]; exact a1
    · obtain ⟨bs, d2, h2, h⟩ := bind_ok_inv h
      simp only [Res.ok.injEq] at h; rw [← h.2]
      exact a1.trans (readLen_adv cfg _ d1 d2 bs h2)
  · obtain ⟨n, d1, h1, h⟩ := bind_ok_inv h
    have a1 := readInt_adv k d d1 n h1
    split at h
    · simp only [Res.ok.injEq] at h; rw [← h.2]; exact a1
    · obtain ⟨bs, d2, h2, h⟩ := bind_ok_inv h
      simp only [Res.ok.injEq] at h; rw [← h.2]
      exact a1.trans (readLen_adv cfg _ d1 d2 bs h2)

theorem da_readN (cfg : Cfg) (t : Ty) (k : Nat) (f : Bytes → Val)
    (h : ∀ d, decode cfg t d = (readN k d).bind fun bs d => .ok (f bs) d) : DA cfg t := by
  intro d v d' hd
  rw [h] at hd
  obtain ⟨bs, d1, h1, h2⟩ := bind_ok_inv hd
  simp only [Res.ok.injEq] at h2; rw [← h2.2]; exact readN_adv k d d1 bs h1

theorem da_readInt (cfg : Cfg) (t : Ty) (k : Nat)
    (h : ∀ d, decode cfg t d = (readInt k d).bind fun i d => .ok (.int i) d) : DA cfg t := by
  intro d v d' hd
  rw [h] at hd
  obtain ⟨i, d1, h1, h2⟩ := bind_ok_inv hd
  simp only [Res.ok.injEq] at h2; rw [← h2.2]; exact readInt_adv k d d1 i h1

theorem da_array (cfg : Cfg) (c n : Bool) (t : Ty) (ht : DA cfg t) : DA cfg (.array c n t) := by
  intro d v d' h
  simp only [decode] at h
  split at h
  · obtain ⟨m, d1, h1, h⟩ := bind_ok_inv h
    have a1 := readUvarint_adv d d1 m h1
    split at h
    · simp only [Res.ok.injEq] at h; rw [← h.2]; exact a1
    · obtain ⟨k, d2, h2, h⟩ := bind_ok_inv h
      have e := allocElems_adv cfg _ d1 d2 k h2
      rw [e] at h
      obtain ⟨vs, d3, h3, h⟩ := bind_ok_inv h
      simp only [Res.ok.injEq] at h; rw [← h.2]
      exact a1.trans (decodeElems_adv _ _ ht k d1 vs d3 h3)
  · obtain ⟨m, d1, h1, h⟩ := bind_ok_inv h
    have a1 := readInt_adv 4 d d1 m h1
    split at h
    · simp only [Res.ok.injEq] at h; rw [← h.2]; exact a1
    · obtain ⟨k, d2, h2, h⟩ := bind_ok_inv h
      have e := allocElems_adv cfg _ d1 d2 k h2
      rw [e] at h
      obtain ⟨vs, d3, h3, h⟩ := bind_ok_inv h
      simp only [Res.ok.injEq] at h; rw [← h.2]
      exact a1.trans (decodeElems_adv _ _ ht k d1 vs d3 h3)

theorem tagBuffer_adv (cfg : Cfg) (lookup : Int → Option (Nat × (Dec → Res Val)))
    (hl : ∀ id idx dec, lookup id = some (idx, dec) → Acc dec) (slots : List Val) (d d' : Dec) (out : List Val)
    (h : ((readUvarint d).bind fun n d => (tagCount cfg n d).bind fun k d => taggedLoop cfg lookup k slots d) = .ok out d') :
    DAdv d d' := by
  obtain ⟨n, d1, h1, h⟩ := bind_ok_inv h
  obtain ⟨k, d2, h2, h⟩ := bind_ok_inv h
  have e := tagCount_adv cfg n d1 d2 k h2
  rw [e] at h
  exact (readUvarint_adv d d1 n h1).trans (taggedLoop_adv cfg lookup hl k slots d1 out d' h)

theorem da_struct (cfg : Cfg) (flex : Bool) (fs : List Ty) (ids : List Int) (ts : List Ty)
    (hfs : ∀ t ∈ fs, DA cfg t) (hts : ∀ t ∈ ts, DA cfg t) : DA cfg (.struct flex fs ids ts) := by
  intro d v d' h
  simp only [decode] at h
  obtain ⟨vs, d1, h1, h⟩ := bind_ok_inv h
  have a1 := decodeFields_adv cfg fs hfs d vs d1 h1
  split at h
  · obtain ⟨n, d2, h2, h⟩ := bind_ok_inv h
    obtain ⟨k, d3, h3, h⟩ := bind_ok_inv h
    have e := tagCount_adv cfg n d2 d3 k h3
    rw [e] at h
    obtain ⟨tvs, d4, h4, h⟩ := bind_ok_inv h
    simp only [Res.ok.injEq] at h; rw [← h.2]
    exact (a1.trans (readUvarint_adv d1 d2 n h2)).trans
      (taggedLoop_adv cfg _ (fun id idx dec hh => tagLookup_acc cfg ids ts hts 0 id idx dec hh) k _ d2 tvs d4 h4)
  · simp only [Res.ok.injEq] at h; rw [← h.2]; exact a1

theorem da_unit (cfg : Cfg) (flex : Bool) : DA cfg (.unit flex) := by
  intro d v d' h
  simp only [decode] at h
  split at h
  · obtain ⟨n, d2, h2, h⟩ := bind_ok_inv h
    obtain ⟨k, d3, h3, h⟩ := bind_ok_inv h
    have e := tagCount_adv cfg n d2 d3 k h3
    rw [e] at h
    obtain ⟨tvs, d4, h4, h⟩ := bind_ok_inv h
    simp only [Res.ok.injEq] at h; rw [← h.2]
    exact (readUvarint_adv d d2 n h2).trans
      (taggedLoop_adv cfg _ (fun id idx dec hh => by simp at hh) k _ d2 tvs d4 h4)
  · simp only [Res.ok.injEq] at h; rw [← h.2]; exact DAdv.refl d

theorem da_records (cfg : Cfg) (hr : RecsAcc cfg) : DA cfg .records := by
  intro d v d' h
  simp only [decode] at h
  split at h
  · rename_i hh heq
    exact hr hh heq d v d' h
  · obtain ⟨n, d1, h1, h⟩ := bind_ok_inv h
    have a1 := readInt_adv 4 d d1 n h1
    split at h
    · simp only [Res.ok.injEq] at h; rw [← h.2]; exact a1
    · obtain ⟨bs, d2, h2, h⟩ := bind_ok_inv h
      simp only [Res.ok.injEq] at h; rw [← h.2]
      exact a1.trans (readLen_adv cfg _ d1 d2 bs h2)

mutual
theorem da_all (cfg : Cfg) (hr : RecsAcc cfg) (t : Ty) : DA cfg t :=
  match t with
  | .bool => da_readN cfg _ 1 (fun bs => .bool (fromBE bs != 0)) (fun _ => by simp [decode])
  | .int8 => da_readInt cfg _ 1 (fun _ => by simp [decode])
  | .int16 => da_readInt cfg _ 2 (fun _ => by simp [decode])
  | .int32 => da_readInt cfg _ 4 (fun _ => by simp [decode])
  | .int64 => da_readInt cfg _ 8 (fun _ => by simp [decode])
  | .float64 => da_readN cfg _ 8 (fun bs => .int (fromBE bs)) (fun _ => by simp [decode])
  | .string c n => da_lenPrefixed cfg _ c 2 .str (.str []) (fun _ => by simp [decode])
  | .bytes c n => da_lenPrefixed cfg _ c 4 (fun bs => .bytes (some bs)) (.bytes none) (fun _ => by simp [decode])
  | .array c n t => da_array cfg c n t (da_all cfg hr t)
  | .struct flex fs ids ts => da_struct cfg flex fs ids ts (da_list cfg hr fs) (da_list cfg hr ts)
  | .unit flex => da_unit cfg flex
  | .records => da_records cfg hr
termination_by structural t
theorem da_list (cfg : Cfg) (hr : RecsAcc cfg) (ts : List Ty) : ∀ t ∈ ts, DA cfg t :=
  match ts with
  | [] => fun _ h => by simp at h
  | t :: ts => fun t' h => by
    rcases List.mem_cons.1 h with h | h
    · exact h ▸ da_all cfg hr t
    · exact da_list cfg hr ts t' h
termination_by structural ts
end

theorem skipHeaderTags_adv (cfg : Cfg) : ∀ (n : Nat) (d d' : Dec), skipHeaderTags cfg n d = .ok () d' → DAdv d d'
  | 0, d, d', h => by simp only [skipHeaderTags, Res.ok.injEq, true_and] at h; rw [← h]; exact DAdv.refl d
  | n + 1, d, d', h => by
    unfold skipHeaderTags at h
    obtain ⟨_, d1, h1, h⟩ := bind_ok_inv h
    obtain ⟨sz, d2, h2, h⟩ := bind_ok_inv h
    obtain ⟨_, d3, h3, h⟩ := bind_ok_inv h
    exact (((readUvarint_adv d d1 _ h1).trans (readUvarint_adv d1 d2 _ h2)).trans (readLen_adv cfg _ d2 d3 _ h3)).trans
      (skipHeaderTags_adv cfg n d3 d' h)

/-- **ReadResponse consumes exactly one frame** — for EVERY byte stream on which it returns a message, every
schema, every decoder configuration whose record-set reader (if any) keeps stream and frame together: the bytes
that left the connection are the 4-byte size prefix and exactly the `size` bytes it announces. -/
theorem readResponse_consumes_frame (cfg : Cfg) (hr : RecsAcc cfg) (flex : Bool) (t : Ty) (stream : Bytes)
    (x : Int × Val) (d' : Dec) (h : readResponse cfg flex t stream = .ok x d') :
    ∃ size : Nat, 4 + size ≤ stream.length ∧ toS 32 (fromBE (stream.take 4)) = size ∧
      d'.inp = stream.drop (4 + size) ∧ d'.remain = 0 := by
  unfold readResponse at h
  obtain ⟨size, d0, h0, h⟩ := bind_ok_inv h
  -- the size prefix
  have hpre : 4 ≤ stream.length ∧ d0.inp = stream.drop 4 ∧ size = toS 32 (fromBE (stream.take 4)) := by
    unfold readInt at h0
    obtain ⟨bs, d1, h1, h2⟩ := bind_ok_inv h0
    unfold readN at h1
    split at h1
    · rename_i hk
      simp only [Res.ok.injEq] at h1 h2
      refine ⟨hk.2, ?_, ?_⟩
      · rw [← h2.2, ← h1.2]
      · rw [← h2.1, ← h1.1]
    · simp at h1
  split at h
  · split at h <;> simp at h
  · rename_i hneg
    simp only [] at h
    obtain ⟨corr, d1, h1, h⟩ := bind_ok_inv h
    have a1 := readInt_adv 4 ⟨d0.inp, size.toNat⟩ d1 corr h1
    obtain ⟨_, d2, h2, h⟩ := bind_ok_inv h
    have a2 : DAdv d1 d2 := by
      split at h2
      · obtain ⟨n, e1, g1, h2⟩ := bind_ok_inv h2
        obtain ⟨k, e2, g2, h2⟩ := bind_ok_inv h2
        have e := tagCount_adv cfg n e1 e2 k g2
        rw [e] at h2
        exact (readUvarint_adv d1 e1 n g1).trans (skipHeaderTags_adv cfg k e1 d2 h2)
      · simp only [Res.ok.injEq, true_and] at h2; rw [← h2]; exact DAdv.refl d1
    obtain ⟨v, d3, h3, h⟩ := bind_ok_inv h
    have a3 := da_all cfg hr t d2 v d3 h3
    obtain ⟨_, d4, h4, h⟩ := bind_ok_inv h
    simp only [Res.ok.injEq] at h
    obtain ⟨n, hn, hi, hrem⟩ := (a1.trans a2).trans a3
    simp only [] at hn hi hrem
    unfold discardAll at h4
    split at h4
    · rename_i hle
      simp only [Res.ok.injEq, true_and] at h4
      refine ⟨size.toNat, ?_, ?_, ?_, ?_⟩
      · rw [hi, List.length_drop, hpre.2.1, List.length_drop] at hle
        rw [hpre.2.1, List.length_drop] at hn
        omega
      · rw [← hpre.2.2]; omega
      · rw [← h.2, ← h4]
        show List.drop d3.remain d3.inp = _
        rw [hi, hpre.2.1, List.drop_drop, List.drop_drop]
        congr 1
        omega
      · rw [← h.2, ← h4]
    · simp at h4

end KV.Codec
