/-
Lemmas/WriterSched.lean — scheduling invariants of the Writer LTS for C08:
  InvRej   : a call that was rejected (oversize message, topic conflict, metadata failure, Writer closed) never
             placed a message in any batch;
  InvSched : indexes (pwIds, qOf), the attached batch is open (not detached), the recorded reason of every
             detached batch held when it was detached, and outside the batchMessages critical section no attached
             batch is full.
-/
import KafkaVerif.Lemmas.WriterCompl

namespace KV.Writer

/-! ## Rejected calls never queued anything -/

def Result.isReject : Result → Bool
  | .closed => true
  | .rejected _ _ => true
  | _ => false

/-- either the call got (or had) the right to queue its messages — it is inside / past batchMessages and was not
rejected — or nothing of it has been placed in any batch -/
def CallRej (C : Call) : Prop :=
  ((C.phase = .batching ∨ C.phase = .batched ∨ (C.phase = .returned ∧ ∃ r, C.result = some r ∧ r.isReject = false)) ∨
    (∀ i, C.place i = none)) ∧
  (∀ r, C.result = some r → C.phase = .returned)

def InvRej (s : State) : Prop := ∀ c C, s.calls c = some C → CallRej C

theorem invRej_init : InvRej State.init := by
  intro c C h; simp [State.init] at h

theorem callRej_none_of_early {C : Call} (h : CallRej C)
    (hp : C.phase = .begun ∨ C.phase = .assigning ∨ C.phase = .rejectedClosed) : (∀ i, C.place i = none) ∧ C.result = none := by
  obtain ⟨h1, h2⟩ := h
  constructor
  · rcases h1 with (h | h | ⟨h, -⟩) | h
    · rcases hp with hp | hp | hp <;> rw [hp] at h <;> cases h
    · rcases hp with hp | hp | hp <;> rw [hp] at h <;> cases h
    · rcases hp with hp | hp | hp <;> rw [hp] at h <;> cases h
    · exact h
  · cases hr : C.result with
    | none => rfl
    | some r =>
      have := h2 r hr
      rcases hp with hp | hp | hp <;> rw [hp] at this <;> cases this

theorem invRej_step (cfg : Cfg) (s : State) (e : Event) (s' : State) (hI : InvRej s) (hs : step cfg s e = some s') :
    InvRej s' := by
  cases e with
  | reject c why i =>
    cases why <;> simp only [step, stepReject] at hs <;> repeat' split at hs
    all_goals (first | (cases hs; done) | skip)
    all_goals (rename_i _ C hC hg; cases hs; apply forall_upd _ _ _ hI; have hold := hI c C hC)
    · have := callRej_none_of_early hold (Or.inl hg.1)
      exact ⟨Or.inr this.1, fun r hr => rfl⟩
    · have := callRej_none_of_early hold (by rcases hg.1 with h | h <;> simp [h])
      exact ⟨Or.inr this.1, fun r hr => rfl⟩
    · have := callRej_none_of_early hold (by rcases hg.1 with h | h <;> simp [h])
      exact ⟨Or.inr this.1, fun r hr => rfl⟩
    · have := callRej_none_of_early hold (Or.inr (Or.inl hg.2.2.1))
      exact ⟨Or.inr this.1, fun r hr => by rw [show ({ C with phase := Phase.rejectedClosed } : Call).result = C.result from rfl, this.2] at hr; cases hr⟩
  | ret c r =>
    cases r <;> simp only [step, stepRet] at hs <;> repeat' split at hs
    all_goals (first | (cases hs; done) | skip)
    all_goals (rename_i _ C hC hg; cases hs; apply forall_upd _ _ _ hI; have hold := hI c C hC)
    · exact ⟨Or.inl (Or.inr (Or.inr ⟨rfl, _, rfl, rfl⟩)), fun r hr => rfl⟩
    · exact ⟨Or.inl (Or.inr (Or.inr ⟨rfl, _, rfl, rfl⟩)), fun r hr => rfl⟩
    · exact ⟨Or.inl (Or.inr (Or.inr ⟨rfl, _, rfl, rfl⟩)), fun r hr => rfl⟩
    · have := callRej_none_of_early hold (Or.inr (Or.inr hg))
      exact ⟨Or.inr this.1, fun r hr => rfl⟩
    · exact ⟨Or.inl (Or.inr (Or.inr ⟨rfl, _, rfl, rfl⟩)), fun r hr => rfl⟩
  | begin_ c msgs =>
    simp only [step] at hs
    repeat' split at hs
    all_goals (first | (cases hs; done) | skip)
    cases hs
    apply forall_upd _ _ _ hI
    exact ⟨Or.inr (fun _ => rfl), fun r hr => by cases hr⟩
  | assign c i tp =>
    simp only [step] at hs
    repeat' split at hs
    all_goals (first | (cases hs; done) | skip)
    rename_i _ C hC hg
    cases hs
    apply forall_upd _ _ _ hI
    have := callRej_none_of_early (hI c C hC) (by rcases hg.1 with h | h <;> simp [h])
    exact ⟨Or.inr this.1, fun r hr => by rw [show ({ C with phase := Phase.assigning, assign := C.assign ++ [tp] } : Call).result = C.result from rfl, this.2] at hr; cases hr⟩
  | batch c =>
    simp only [step] at hs
    repeat' split at hs
    all_goals (first | (cases hs; done) | skip)
    rename_i _ C hC hg
    cases hs
    apply forall_upd _ _ _ hI
    have := callRej_none_of_early (hI c C hC) (Or.inr (Or.inl hg.2.2.1))
    exact ⟨Or.inl (Or.inl rfl), fun r hr => by rw [show ({ C with phase := Phase.batching } : Call).result = C.result from rfl, this.2] at hr; cases hr⟩
  | batched c =>
    simp only [step] at hs
    repeat' split at hs
    all_goals (first | (cases hs; done) | skip)
    rename_i _ C hC hg
    cases hs
    apply forall_upd _ _ _ hI
    obtain ⟨-, h2⟩ := hI c C hC
    refine ⟨Or.inl (Or.inr (Or.inl rfl)), ?_⟩
    intro r hr
    have := h2 r hr
    rw [hg.2.1] at this; cases this
  | add pw b c i size =>
    simp only [step, stepAdd] at hs
    repeat' split at hs
    all_goals (first | (cases hs; done) | skip)
    rename_i _ P hP _ B hB _ C hC hg
    obtain ⟨-, -, -, -, -, -, -, -, hphase, -⟩ := hg
    cases hs
    apply forall_upd _ _ _ hI
    obtain ⟨-, h2⟩ := hI c C hC
    exact ⟨Or.inl (Or.inl hphase), h2⟩
  | _ =>
    simp only [step, stepDetach, stepProduce] at hs
    repeat' split at hs
    all_goals (first | (cases hs; done) | skip)
    all_goals (cases hs)
    all_goals exact hI

theorem invRej (cfg : Cfg) : ∀ s, Reachable cfg s → InvRej s :=
  invariant_of_step cfg InvRej invRej_init (fun s e s' => invRej_step cfg s e s')

end KV.Writer

namespace KV.Writer

/-! ## Scheduling facts: why batches were queued, attached batches are open and (outside batchMessages) not full -/

def WhyOK (cfg : Cfg) (closed : Bool) (B : Batch) : Prop :=
  (B.detached = some .full → B.full cfg = true) ∧ (B.detached = some .timer → B.timerFired = true) ∧
  (B.detached = some .close → closed = true)

structure InvSched (cfg : Cfg) (s : State) : Prop where
  pwListed : ∀ pw P, s.pws pw = some P → pw ∈ s.pwIds
  qOfInv : ∀ pw P, s.pws pw = some P → s.qOf P.q = some pw
  currOpen : ∀ pw P, s.pws pw = some P → ∀ b, P.curr = some b → ∃ B, s.batches b = some B ∧ B.pw = pw ∧ B.detached = none
  why : ∀ b B, s.batches b = some B → WhyOK cfg s.closed B
  notFull : s.wlock.isCall = false → ∀ pw P b B, s.pws pw = some P → P.curr = some b → s.batches b = some B → B.full cfg = false

theorem invSched_init (cfg : Cfg) : InvSched cfg State.init := by
  constructor <;> simp [State.init]

theorem full_congr {cfg : Cfg} {B B' : Batch} (h1 : B'.msgs = B.msgs) (h2 : B'.bytes = B.bytes) : B'.full cfg = B.full cfg := by
  simp [Batch.full, h1, h2]

theorem InvSched.of_frame {cfg : Cfg} {s s' : State} (h : InvSched cfg s)
    (hw : s'.wlock.isCall = false → s.wlock.isCall = false)
    (hclosed : s.closed = true → s'.closed = true)
    (hids : s'.pwIds = s.pwIds) (hq : s'.qOf = s.qOf)
    (hpws : ∀ x X', s'.pws x = some X' → ∃ X, s.pws x = some X ∧ X'.q = X.q ∧ (X'.curr = none ∨ X'.curr = X.curr))
    (hbat : ∀ b B', s'.batches b = some B' → ∃ B, s.batches b = some B ∧ B'.pw = B.pw ∧ B'.detached = B.detached ∧
      B'.msgs = B.msgs ∧ B'.bytes = B.bytes ∧ (B.timerFired = true → B'.timerFired = true))
    (hbat' : ∀ b B, s.batches b = some B → ∃ B', s'.batches b = some B' ∧ B'.pw = B.pw ∧ B'.detached = B.detached) :
    InvSched cfg s' := by
  constructor
  · intro x X' hx
    obtain ⟨X, hX, -, -⟩ := hpws x X' hx
    rw [hids]; exact h.pwListed x X hX
  · intro x X' hx
    obtain ⟨X, hX, e, -⟩ := hpws x X' hx
    rw [hq, e]; exact h.qOfInv x X hX
  · intro x X' hx b hc
    obtain ⟨X, hX, -, hcurr⟩ := hpws x X' hx
    rcases hcurr with e | e
    · rw [e] at hc; cases hc
    · obtain ⟨B, hB, h1, h2⟩ := h.currOpen x X hX b (e ▸ hc)
      obtain ⟨B', hB', e1, e2⟩ := hbat' b B hB
      exact ⟨B', hB', e1 ▸ h1, e2 ▸ h2⟩
  · intro b B' hB'
    obtain ⟨B, hB, -, hd, hm, hby, ht⟩ := hbat b B' hB'
    obtain ⟨w1, w2, w3⟩ := h.why b B hB
    refine ⟨?_, ?_, ?_⟩
    · intro hf; rw [full_congr hm hby]; exact w1 (hd ▸ hf)
    · intro hf; exact ht (w2 (hd ▸ hf))
    · intro hf; exact hclosed (w3 (hd ▸ hf))
  · intro hlock x X' b B' hx hc hB'
    obtain ⟨X, hX, -, hcurr⟩ := hpws x X' hx
    obtain ⟨B, hB, -, -, hm, hby, -⟩ := hbat b B' hB'
    rcases hcurr with e | e
    · rw [e] at hc; cases hc
    · rw [full_congr hm hby]; exact h.notFull (hw hlock) x X b B hX (e ▸ hc) hB

theorem sframe_pws_id {s : State} :
    ∀ x X', s.pws x = some X' → ∃ X, s.pws x = some X ∧ X'.q = X.q ∧ (X'.curr = none ∨ X'.curr = X.curr) :=
  fun _ X' h => ⟨X', h, rfl, Or.inr rfl⟩

theorem sframe_pws_upd {s : State} {pws' : Nat → Option PW} {pw : Nat} {P P' : PW} (hP : s.pws pw = some P)
    (e : pws' = upd s.pws pw (some P')) (hq : P'.q = P.q) (hc : P'.curr = none ∨ P'.curr = P.curr) :
    ∀ x X', pws' x = some X' → ∃ X, s.pws x = some X ∧ X'.q = X.q ∧ (X'.curr = none ∨ X'.curr = X.curr) := by
  intro x X' hx
  rw [e] at hx
  rcases upd_some_elim hx with ⟨rfl, rfl⟩ | ⟨-, h⟩
  · exact ⟨P, hP, hq, hc⟩
  · exact ⟨X', h, rfl, Or.inr rfl⟩

theorem sframe_bat_id {s : State} :
    (∀ b B', s.batches b = some B' → ∃ B, s.batches b = some B ∧ B'.pw = B.pw ∧ B'.detached = B.detached ∧
      B'.msgs = B.msgs ∧ B'.bytes = B.bytes ∧ (B.timerFired = true → B'.timerFired = true)) ∧
    (∀ b B, s.batches b = some B → ∃ B', s.batches b = some B' ∧ B'.pw = B.pw ∧ B'.detached = B.detached) :=
  ⟨fun _ B' h => ⟨B', h, rfl, rfl, rfl, rfl, fun h => h⟩, fun _ B h => ⟨B, h, rfl, rfl⟩⟩

theorem sframe_bat_upd {s : State} {bt' : Nat → Option Batch} {b : Nat} {B B' : Batch} (hB : s.batches b = some B)
    (e : bt' = upd s.batches b (some B')) (h1 : B'.pw = B.pw) (h2 : B'.detached = B.detached) (h3 : B'.msgs = B.msgs)
    (h4 : B'.bytes = B.bytes) (h5 : B.timerFired = true → B'.timerFired = true) :
    (∀ x X', bt' x = some X' → ∃ X, s.batches x = some X ∧ X'.pw = X.pw ∧ X'.detached = X.detached ∧
      X'.msgs = X.msgs ∧ X'.bytes = X.bytes ∧ (X.timerFired = true → X'.timerFired = true)) ∧
    (∀ x X, s.batches x = some X → ∃ X', bt' x = some X' ∧ X'.pw = X.pw ∧ X'.detached = X.detached) := by
  constructor
  · intro x X' hx
    rw [e] at hx
    rcases upd_some_elim hx with ⟨rfl, rfl⟩ | ⟨-, h⟩
    · exact ⟨B, hB, h1, h2, h3, h4, h5⟩
    · exact ⟨X', h, rfl, rfl, rfl, rfl, fun h => h⟩
  · intro x X hx
    by_cases hxb : x = b
    · subst hxb; rw [hB] at hx; cases hx
      exact ⟨B', by rw [e]; simp, h1, h2⟩
    · exact ⟨X, by rw [e, upd_other _ _ _ _ hxb]; exact hx, rfl, rfl⟩

end KV.Writer

namespace KV.Writer

theorem noFull_elim {cfg : Cfg} {s : State} (h : noFullAttached cfg s = true) {pw b : Nat} {P : PW} {B : Batch}
    (hmem : pw ∈ s.pwIds) (hP : s.pws pw = some P) (hc : P.curr = some b) (hB : s.batches b = some B) : B.full cfg = false := by
  unfold noFullAttached at h
  rw [List.all_eq_true] at h
  have := h pw hmem
  simp only [hP, hc, hB] at this
  simpa using this

theorem invSched_step (cfg : Cfg) (s : State) (e : Event) (s' : State) (hI : InvSched cfg s)
    (hs : step cfg s e = some s') : InvSched cfg s' := by
  cases e with
  | newPW pw q tp =>
    simp only [step] at hs
    repeat' split at hs
    all_goals (first | (cases hs; done) | skip)
    rename_i hg
    obtain ⟨hcall, -, -, h2, h3⟩ := hg
    have h2' : s.pws pw = none := by simpa using h2
    have h3' : s.qOf q = none := by simpa using h3
    cases hs
    constructor
    · intro x X' hx
      rcases upd_some_elim hx with ⟨rfl, rfl⟩ | ⟨-, h⟩
      · exact List.mem_append_right _ (List.mem_singleton.mpr rfl)
      · exact List.mem_append_left _ (hI.pwListed x X' h)
    · intro x X' hx
      rcases upd_some_elim hx with ⟨rfl, rfl⟩ | ⟨-, h⟩
      · show upd s.qOf q (some x) (PW.new tp q).q = some x
        simp [PW.new]
      · have := hI.qOfInv x X' h
        have hne : X'.q ≠ q := by intro e; rw [e, h3'] at this; cases this
        show upd s.qOf q (some pw) X'.q = some x
        rw [upd_other _ _ _ _ hne]; exact this
    · intro x X' hx b hc
      rcases upd_some_elim hx with ⟨rfl, rfl⟩ | ⟨-, h⟩
      · simp [PW.new] at hc
      · exact hI.currOpen x X' h b hc
    · exact hI.why
    · intro hlock; rw [show s.wlock.isCall = true from hcall] at hlock; cases hlock
  | newBatch pw b =>
    simp only [step] at hs
    repeat' split at hs
    all_goals (first | (cases hs; done) | skip)
    rename_i _ P hP hg
    obtain ⟨hcall, -, -, hb, -⟩ := hg
    have hnone : s.batches b = none := by simpa using hb
    cases hs
    have hlook : ∀ y, y ≠ b → upd s.batches b (some (Batch.new pw P.tp P.nbatches)) y = s.batches y :=
      fun y hy => upd_other _ _ _ _ hy
    constructor
    · intro x X' hx
      rcases upd_some_elim hx with ⟨rfl, rfl⟩ | ⟨-, h⟩
      · exact hI.pwListed x P hP
      · exact hI.pwListed x X' h
    · intro x X' hx
      rcases upd_some_elim hx with ⟨rfl, rfl⟩ | ⟨-, h⟩
      · exact hI.qOfInv x P hP
      · exact hI.qOfInv x X' h
    · intro x X' hx y hc
      rcases upd_some_elim hx with ⟨rfl, rfl⟩ | ⟨-, h⟩
      · simp at hc; subst hc
        exact ⟨Batch.new x P.tp P.nbatches, by show upd _ _ _ _ = _; simp, rfl, rfl⟩
      · obtain ⟨B, hB, h1, h2⟩ := hI.currOpen x X' h y hc
        have hne : y ≠ b := by intro e; rw [e, hnone] at hB; cases hB
        exact ⟨B, by show upd _ _ _ _ = _; rw [hlook y hne]; exact hB, h1, h2⟩
    · intro y Y' hy
      rcases upd_some_elim hy with ⟨rfl, rfl⟩ | ⟨-, h⟩
      · refine ⟨?_, ?_, ?_⟩ <;> (intro hf; simp [Batch.new] at hf)
      · exact hI.why y Y' h
    · intro hlock; rw [show s.wlock.isCall = true from hcall] at hlock; cases hlock
  | add pw b c i size =>
    simp only [step, stepAdd] at hs
    repeat' split at hs
    all_goals (first | (cases hs; done) | skip)
    rename_i _ P hP _ B hB _ C hC hg
    obtain ⟨hlockc, -, -, -, -, hdet, -⟩ := hg
    cases hs
    constructor
    · exact hI.pwListed
    · exact hI.qOfInv
    · intro x X hx y hc
      obtain ⟨Y, hY, h1, h2⟩ := hI.currOpen x X hx y hc
      by_cases hyb : y = b
      · subst hyb; rw [hB] at hY; cases hY
        exact ⟨B.push { msg := (c, i), size := size, seq := s.seq }, by show upd _ _ _ _ = _; simp, h1, h2⟩
      · exact ⟨Y, by show upd _ _ _ _ = _; rw [upd_other _ _ _ _ hyb]; exact hY, h1, h2⟩
    · intro y Y' hy
      rcases upd_some_elim hy with ⟨rfl, rfl⟩ | ⟨-, h⟩
      · refine ⟨?_, ?_, ?_⟩ <;> (intro hf; simp [Batch.push, hdet] at hf)
      · exact hI.why y Y' h
    · intro hlock
      rw [show s.wlock = Lock.call c from hlockc] at hlock
      simp [Lock.isCall] at hlock
  | detach pw b why size =>
    simp only [step, stepDetach] at hs
    repeat' split at hs
    all_goals (first | (cases hs; done) | skip)
    rename_i _ P hP _ B hB hg
    obtain ⟨hc, hpend, hdet, hwhy, -⟩ := hg
    cases hs
    have hBpw : B.pw = pw := by
      obtain ⟨B0, hB0, h, -⟩ := hI.currOpen pw P hP b hc
      rw [hB] at hB0; cases hB0; exact h
    -- another partition writer's current batch is not b
    have hother : ∀ x X, s.pws x = some X → x ≠ pw → X.curr ≠ some b := by
      intro x X hx hne hcx
      obtain ⟨B0, hB0, h, -⟩ := hI.currOpen x X hx b hcx
      rw [hB] at hB0; cases hB0
      exact hne (h.symm.trans hBpw)
    constructor
    · intro x X' hx
      rcases upd_some_elim hx with ⟨rfl, rfl⟩ | ⟨-, h⟩
      · exact hI.pwListed x P hP
      · exact hI.pwListed x X' h
    · intro x X' hx
      rcases upd_some_elim hx with ⟨rfl, rfl⟩ | ⟨-, h⟩
      · exact hI.qOfInv x P hP
      · exact hI.qOfInv x X' h
    · intro x X' hx y hcy
      rcases upd_some_elim hx with ⟨rfl, rfl⟩ | ⟨hne, h⟩
      · cases hcy
      · obtain ⟨Y, hY, h1, h2⟩ := hI.currOpen x X' h y hcy
        have hyb : y ≠ b := by intro e; exact hother x X' h hne (e ▸ hcy)
        exact ⟨Y, by show upd _ _ _ _ = _; rw [upd_other _ _ _ _ hyb]; exact hY, h1, h2⟩
    · intro y Y' hy
      rcases upd_some_elim hy with ⟨rfl, rfl⟩ | ⟨-, h⟩
      · show WhyOK cfg s.closed { B with detached := some why }
        unfold WhyOK
        cases why with
        | full =>
          refine ⟨?_, ?_, ?_⟩
          · intro _
            have : B.full cfg = true := by simp [whyOk] at hwhy; exact hwhy.1
            simpa [Batch.full] using this
          · intro hf; simp at hf
          · intro hf; simp at hf
        | nofit =>
          refine ⟨?_, ?_, ?_⟩ <;> (intro hf; simp at hf)
        | timer =>
          refine ⟨?_, ?_, ?_⟩
          · intro hf; simp at hf
          · intro _; simpa [whyOk] using hwhy
          · intro hf; simp at hf
        | close =>
          refine ⟨?_, ?_, ?_⟩
          · intro hf; simp at hf
          · intro hf; simp at hf
          · intro _; simp [whyOk] at hwhy; exact hwhy.1
      · exact hI.why y Y' h
    · intro hlock x X' y Y' hx hcy hy
      rcases upd_some_elim hx with ⟨rfl, rfl⟩ | ⟨hne, h⟩
      · cases hcy
      · have hyb : y ≠ b := by intro e; exact hother x X' h hne (e ▸ hcy)
        have hy' : s.batches y = some Y' := by
          have : upd s.batches b (some { B with detached := some why }) y = s.batches y := upd_other _ _ _ _ hyb
          rw [← this]; exact hy
        exact hI.notFull hlock x X' y Y' h hcy hy'
  | batched c =>
    simp only [step] at hs
    repeat' split at hs
    all_goals (first | (cases hs; done) | skip)
    rename_i _ C hC hg
    obtain ⟨-, -, -, hnf, -⟩ := hg
    cases hs
    constructor
    · exact hI.pwListed
    · exact hI.qOfInv
    · exact hI.currOpen
    · exact hI.why
    · intro _ x X y Y hx hcy hy
      exact noFull_elim hnf (hI.pwListed x X hx) hx hcy hy
  | qput q b acc =>
    simp only [step] at hs
    repeat' split at hs
    all_goals (first | (cases hs; done) | skip)
    rename_i _ pw hq _ P hP hg
    cases hs
    exact hI.of_frame (fun h => h) (fun h => h) rfl rfl
      (sframe_pws_upd (P' := { P with pending := none, queue := enq P.queue b acc }) hP rfl rfl (Or.inr rfl)) sframe_bat_id.1 sframe_bat_id.2
  | qget q ob =>
    simp only [step] at hs
    repeat' split at hs
    all_goals (first | (cases hs; done) | skip)
    · rename_i _ pw hq _ P hP _ b hg
      cases hs
      exact hI.of_frame (fun h => h) (fun h => h) rfl rfl
        (sframe_pws_upd (P' := { P with queue := P.queue.tail, sender := .ready b 0 }) hP rfl rfl (Or.inr rfl)) sframe_bat_id.1 sframe_bat_id.2
    · rename_i _ pw hq _ P hP _ hg
      cases hs
      exact hI.of_frame (fun h => h) (fun h => h) rfl rfl
        (sframe_pws_upd (P' := { P with sender := .exited }) hP rfl rfl (Or.inr rfl)) sframe_bat_id.1 sframe_bat_id.2
  | qclose q =>
    simp only [step] at hs
    repeat' split at hs
    all_goals (first | (cases hs; done) | skip)
    rename_i _ pw hq _ P hP hg
    cases hs
    exact hI.of_frame (fun h => h) (fun h => h) rfl rfl
      (sframe_pws_upd (P' := { P with qclosed := true }) hP rfl rfl (Or.inr rfl)) sframe_bat_id.1 sframe_bat_id.2
  | timerFire pw b att =>
    simp only [step] at hs
    repeat' split at hs
    all_goals (first | (cases hs; done) | skip)
    rename_i _ P hP _ B hB hg
    cases hs
    exact hI.of_frame (fun h => h) (fun h => h) rfl rfl sframe_pws_id
      (sframe_bat_upd (B' := { B with timerFired := true }) hB rfl rfl rfl rfl rfl (fun _ => rfl)).1
      (sframe_bat_upd (B' := { B with timerFired := true }) hB rfl rfl rfl rfl rfl (fun _ => rfl)).2
  | attempt pw b k =>
    simp only [step] at hs
    repeat' split at hs
    all_goals (first | (cases hs; done) | skip)
    rename_i _ P hP hg
    cases hs
    exact hI.of_frame (fun h => h) (fun h => h) rfl rfl
      (sframe_pws_upd (P' := { P with sender := .attempting b k none }) hP rfl rfl (Or.inr rfl)) sframe_bat_id.1 sframe_bat_id.2
  | attemptDone pw b k code =>
    simp only [step] at hs
    repeat' split at hs
    all_goals (first | (cases hs; done) | skip)
    rename_i _ P hP _ b' k' br hsend hg
    cases hs
    exact hI.of_frame (fun h => h) (fun h => h) rfl rfl
      (sframe_pws_upd (P' := { P with sender := afterAttempt cfg b k code }) hP rfl rfl (Or.inr rfl)) sframe_bat_id.1 sframe_bat_id.2
  | produce pw tp msgs out =>
    simp only [step, stepProduce] at hs
    repeat' split at hs
    all_goals (first | (cases hs; done) | skip)
    rename_i _ P hP _ b k hsend _ B hB hg
    cases hs
    exact hI.of_frame (fun h => h) (fun h => h) rfl rfl
      (sframe_pws_upd (P' := { P with sender := .attempting b k (some out) }) hP rfl rfl (Or.inr rfl))
      (sframe_bat_upd (B' := B.noteProduce out) hB rfl rfl rfl rfl rfl (fun h => h)).1
      (sframe_bat_upd (B' := B.noteProduce out) hB rfl rfl rfl rfl rfl (fun h => h)).2
  | completion pw b code =>
    simp only [step] at hs
    repeat' split at hs
    all_goals (first | (cases hs; done) | skip)
    rename_i _ P hP _ B hB hg
    cases hs
    exact hI.of_frame (fun h => h) (fun h => h) rfl rfl
      (sframe_pws_upd (P' := { P with sender := .finishing b code true }) hP rfl rfl (Or.inr rfl))
      (sframe_bat_upd (B' := { B with ncompl := B.ncompl + 1, cbCode := some code }) hB rfl rfl rfl rfl rfl (fun h => h)).1
      (sframe_bat_upd (B' := { B with ncompl := B.ncompl + 1, cbCode := some code }) hB rfl rfl rfl rfl rfl (fun h => h)).2
  | complete pw b code =>
    simp only [step] at hs
    repeat' split at hs
    all_goals (first | (cases hs; done) | skip)
    rename_i _ P hP _ B hB hg
    cases hs
    exact hI.of_frame (fun h => h) (fun h => h) rfl rfl
      (sframe_pws_upd (P' := { P with sender := .idle }) hP rfl rfl (Or.inr rfl))
      (sframe_bat_upd (B' := { B with done := some code }) hB rfl rfl rfl rfl rfl (fun h => h)).1
      (sframe_bat_upd (B' := { B with done := some code }) hB rfl rfl rfl rfl rfl (fun h => h)).2
  | closeBegin =>
    simp only [step] at hs
    repeat' split at hs
    all_goals (first | (cases hs; done) | skip)
    rename_i hfree
    cases hs
    exact hI.of_frame (fun _ => by rw [hfree]; rfl) (fun _ => rfl) rfl rfl sframe_pws_id sframe_bat_id.1 sframe_bat_id.2
  | batch c =>
    simp only [step] at hs
    repeat' split at hs
    all_goals (first | (cases hs; done) | skip)
    cases hs
    exact hI.of_frame (fun h => by simp [Lock.isCall] at h) (fun h => h) rfl rfl sframe_pws_id sframe_bat_id.1 sframe_bat_id.2
  | closeMarked n =>
    simp only [step] at hs
    repeat' split at hs
    all_goals (first | (cases hs; done) | skip)
    rename_i hg
    cases hs
    exact hI.of_frame (fun _ => by rw [hg.1]; rfl) (fun h => h) rfl rfl sframe_pws_id sframe_bat_id.1 sframe_bat_id.2
  | _ =>
    simp only [step, stepReject, stepRet] at hs
    repeat' split at hs
    all_goals (first | (cases hs; done) | skip)
    all_goals (cases hs)
    all_goals exact hI.of_frame (fun h => h) (fun h => h) rfl rfl sframe_pws_id sframe_bat_id.1 sframe_bat_id.2

theorem invSched (cfg : Cfg) : ∀ s, Reachable cfg s → InvSched cfg s :=
  invariant_of_step cfg (InvSched cfg) (invSched_init cfg) (fun s e s' => invSched_step cfg s e s')

end KV.Writer

namespace KV.Writer

/-! ## Only validated calls place messages -/

structure CallFit (cfg : Cfg) (C : Call) : Prop where
  assigned : ∀ (j : Nat) (tp : TP), C.assign[j]? = some tp → ∃ m, C.msgs[j]? = some m ∧ chooseTopic cfg m = some tp.1
  placed : (C.phase = .batching ∨ C.phase = .batched ∨ ∃ i, (C.place i).isSome = true) →
    allFit cfg C.msgs = true ∧ C.assign.length = C.msgs.length

def InvFit (cfg : Cfg) (s : State) : Prop := ∀ c C, s.calls c = some C → CallFit cfg C

theorem invFit_init (cfg : Cfg) : InvFit cfg State.init := by
  intro c C h; simp [State.init] at h

/-- a call record changes only in phase / result -/
theorem callFit_meta {cfg : Cfg} {C C' : Call} (h : CallFit cfg C) (h1 : C'.msgs = C.msgs) (h2 : C'.assign = C.assign)
    (h3 : C'.place = C.place)
    (hph : (C'.phase = .batching ∨ C'.phase = .batched) → (C.phase = .batching ∨ C.phase = .batched)) : CallFit cfg C' := by
  constructor
  · intro j tp hj; rw [h1]; exact h.assigned j tp (h2 ▸ hj)
  · intro hp
    rw [h1, h2]
    apply h.placed
    rcases hp with hp | hp | ⟨i, hi⟩
    · rcases hph (Or.inl hp) with h | h
      · exact Or.inl h
      · exact Or.inr (Or.inl h)
    · rcases hph (Or.inr hp) with h | h
      · exact Or.inl h
      · exact Or.inr (Or.inl h)
    · exact Or.inr (Or.inr ⟨i, h3 ▸ hi⟩)

theorem invFit_step (cfg : Cfg) (s : State) (e : Event) (s' : State) (hI : InvFit cfg s)
    (hs : step cfg s e = some s') : InvFit cfg s' := by
  cases e with
  | reject c why i =>
    cases why <;> simp only [step, stepReject] at hs <;> repeat' split at hs
    all_goals (first | (cases hs; done) | skip)
    all_goals (rename_i _ C hC hg; cases hs; apply forall_upd _ _ _ hI)
    all_goals exact callFit_meta (hI c C hC) rfl rfl rfl (fun h => by rcases h with h | h <;> cases h)
  | ret c r =>
    cases r <;> simp only [step, stepRet] at hs <;> repeat' split at hs
    all_goals (first | (cases hs; done) | skip)
    all_goals (rename_i _ C hC hg; cases hs; apply forall_upd _ _ _ hI)
    all_goals exact callFit_meta (hI c C hC) rfl rfl rfl (fun h => by rcases h with h | h <;> cases h)
  | begin_ c msgs =>
    simp only [step] at hs
    repeat' split at hs
    all_goals (first | (cases hs; done) | skip)
    cases hs
    apply forall_upd _ _ _ hI
    constructor
    · intro j tp hj; simp at hj
    · intro hp
      rcases hp with hp | hp | ⟨i, hi⟩
      · cases hp
      · cases hp
      · simp at hi
  | assign c i tp =>
    simp only [step] at hs
    repeat' split at hs
    all_goals (first | (cases hs; done) | skip)
    rename_i _ C hC hg
    obtain ⟨hph, hlen, hfit, hm⟩ := hg
    obtain ⟨m, hmi, hch⟩ := msgAt_elim hm
    cases hs
    apply forall_upd _ _ _ hI
    have hold := hI c C hC
    constructor
    · intro j tp' hj
      show ∃ m, C.msgs[j]? = some m ∧ chooseTopic cfg m = some tp'.1
      have hj' : (C.assign ++ [tp])[j]? = some tp' := hj
      by_cases hjl : j < C.assign.length
      · rw [List.getElem?_append_left hjl] at hj'
        exact hold.assigned j tp' hj'
      · have hge : C.assign.length ≤ j := Nat.le_of_not_lt hjl
        rw [List.getElem?_append_right hge] at hj'
        have hj0 : j - C.assign.length = 0 := by
          cases hk : j - C.assign.length with
          | zero => rfl
          | succ n => rw [hk] at hj'; simp at hj'
        rw [hj0] at hj'; simp at hj'
        have : j = i := by omega
        subst this; subst hj'
        exact ⟨m, hmi, by simpa using hch⟩
    · intro hp
      rcases hp with hp | hp | ⟨k, hk⟩
      · cases hp
      · cases hp
      · have := hold.placed (Or.inr (Or.inr ⟨k, hk⟩))
        -- a call that has placed something has all indexes assigned, so it cannot be in the assign loop
        have hmlen : i < C.msgs.length := by
          cases Nat.lt_or_ge i C.msgs.length with
          | inl h => exact h
          | inr h => rw [List.getElem?_eq_none h] at hmi; cases hmi
        omega
  | batch c =>
    simp only [step] at hs
    repeat' split at hs
    all_goals (first | (cases hs; done) | skip)
    rename_i _ C hC hg
    obtain ⟨-, -, -, hlen, hfit⟩ := hg
    cases hs
    apply forall_upd _ _ _ hI
    exact ⟨(hI c C hC).assigned, fun _ => ⟨hfit, hlen⟩⟩
  | batched c =>
    simp only [step] at hs
    repeat' split at hs
    all_goals (first | (cases hs; done) | skip)
    rename_i _ C hC hg
    cases hs
    apply forall_upd _ _ _ hI
    exact callFit_meta (hI c C hC) rfl rfl rfl (fun _ => Or.inl hg.2.1)
  | add pw b c i size =>
    simp only [step, stepAdd] at hs
    repeat' split at hs
    all_goals (first | (cases hs; done) | skip)
    rename_i _ P hP _ B hB _ C hC hg
    obtain ⟨-, -, -, -, -, -, -, -, hphase, -⟩ := hg
    cases hs
    apply forall_upd _ _ _ hI
    have hold := hI c C hC
    exact ⟨hold.assigned, fun _ => hold.placed (Or.inl hphase)⟩
  | _ =>
    simp only [step, stepDetach, stepProduce] at hs
    repeat' split at hs
    all_goals (first | (cases hs; done) | skip)
    all_goals (cases hs)
    all_goals exact hI

theorem invFit (cfg : Cfg) : ∀ s, Reachable cfg s → InvFit cfg s :=
  invariant_of_step cfg (InvFit cfg) (invFit_init cfg) (fun s e s' => invFit_step cfg s e s')

end KV.Writer
