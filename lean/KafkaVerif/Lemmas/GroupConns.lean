/-
Lemmas/GroupConns.lean — connection accounting of `(*ConsumerGroup).run` (Model/GroupConns.lean): connections appear only
through a successful connect (`gain_step`), and the accounting invariant `K`.
-/
import KafkaVerif.Model.GroupConns
import KafkaVerif.Lemmas.GroupRunStruct
namespace KV.GroupConns
open KV.Group

/-- connections appear only through a successful connect, one at a time: -/
def gain (pc pc' : PC) : Nat := b2n (!bootPC pc && bootPC pc') + b2n (!connPC pc && connPC pc')

theorem afterLeave_none (s : St) (a : After) : bootPC (afterLeave s a).pc = false ∧ connPC (afterLeave s a).pc = false := by
  cases a <;> simp [afterLeave, bootPC, connPC]

theorem coordFail_none (s : St) (lv : Option After) (e : Err) :
    bootPC (coordFail s lv e).pc = false ∧ connPC (coordFail s lv e).pc = false := by
  cases lv with
  | none => simp [coordFail, bootPC, connPC]
  | some a => exact afterLeave_none _ a

theorem gain_step (c : Cfg) (g g' : St) (e : Ev) (hi : Inv3 g) (h : step c g e = some g') :
    gain g.pc g'.pc = b2n (isConnectOk e) := by
  have hst := hi.stage
  have keep : ∀ gi f, onCur g gi f = some g' → gain g.pc g'.pc = 0 := by
    intro gi f hf
    rw [(onCur_keeps g g' gi f hf).1]
    simp [gain, b2n]
  cases e <;> simp only [step] at h
  case hbCall gi gid m => simpa [isConnectOk, b2n] using keep _ _ h
  case hbRet gi e => simpa [isConnectOk, b2n] using keep _ _ h
  case hbExit gi => simpa [isConnectOk, b2n] using keep _ _ h
  case watchCall gi t => simpa [isConnectOk, b2n] using keep _ _ h
  case watchParts gi t n => simpa [isConnectOk, b2n] using keep _ _ h
  case watchErr gi t e => simpa [isConnectOk, b2n] using keep _ _ h
  case watchExit gi t => simpa [isConnectOk, b2n] using keep _ _ h
  case fnExit gi cbm l => simpa [isConnectOk, b2n] using keep _ _ h
  case uRet gi acc =>
    split at h
    · simpa [isConnectOk, b2n] using keep _ _ h
    · split at h <;> simp at h; subst h; simp [gain, isConnectOk, b2n]
  case uCtx gi =>
    split at h
    · simpa [isConnectOk, b2n] using keep _ _ h
    · split at h <;> simp at h; subst h; simp [gain, isConnectOk, b2n]
  case connectRes e =>
    cases hpc : g.pc <;> simp only [hpc] at h <;> try contradiction
    rename_i k lv
    have hk := hst k lv hpc
    match k, e with
    | 0, none => simp at h; subst h; simp [gain, bootPC, connPC, isConnectOk, b2n]
    | 0, some er =>
      simp at h; subst h
      have := coordFail_none g lv er
      simp only [gain, this.1, this.2, hpc]
      simp [bootPC, connPC, isConnectOk, b2n]
    | 2, none => simp at h; subst h; cases lv <;> simp [gain, bootPC, connPC, isConnectOk, b2n]
    | 2, some er =>
      simp at h; subst h
      have := coordFail_none g lv er
      simp only [gain, this.1, this.2, hpc]
      simp [bootPC, connPC, isConnectOk, b2n]
    | 1, _ => simp at h
    | k + 3, _ => omega
  case findRes e =>
    cases hpc : g.pc <;> simp only [hpc] at h <;> try contradiction
    rename_i k lv
    match k, e with
    | 1, none => simp at h; subst h; simp [gain, bootPC, connPC, isConnectOk, b2n]
    | 1, some er =>
      simp at h; subst h
      have := coordFail_none g lv er
      simp only [gain, this.1, this.2, hpc]
      simp [bootPC, connPC, isConnectOk, b2n]
    | 0, _ => simp at h
    | k + 2, _ => simp at h
  case leave m =>
    cases hpc : g.pc <;> simp only [hpc] at h <;> try contradiction
    rename_i a
    split at h
    · split at h
      · simp at h; subst h
        cases a <;> simp [gain, afterLeave, bootPC, connPC, isConnectOk, b2n]
      · simp at h; subst h; simp [gain, bootPC, connPC, isConnectOk, b2n]
    · simp at h
  case leaveRes mi ok =>
    cases hpc : g.pc <;> simp only [hpc] at h <;> try contradiction
    rename_i a
    simp only [Option.ite_none_right_eq_some, Option.some.injEq] at h
    obtain ⟨_, rfl⟩ := h
    cases a <;> simp [gain, afterLeave, bootPC, connPC, isConnectOk, b2n]
  case gStart gi acc =>
    split at h
    · cases hpc : g.pc with
      | starting k =>
        simp only [hpc, Option.map_eq_some_iff] at h
        obtain ⟨cg, _, rfl⟩ := h
        simp only [gain]
        split <;> simp [bootPC, connPC, isConnectOk, b2n]
      | _ =>
        simp only [hpc, Option.map_eq_some_iff] at h
        obtain ⟨cg, _, rfl⟩ := h
        simp [gain, hpc, isConnectOk, b2n]
    · split at h
      · simp at h; subst h; simp [gain, isConnectOk, b2n]
      · simp at h
  all_goals (repeat' split at h)
  all_goals (first | (simp at h; done) | skip)
  all_goals (try (simp only [Option.some.injEq] at h))
  all_goals (try subst h)
  all_goals (try (simp_all [gain, bootPC, connPC, isConnectOk, b2n, afterLeave]; done))

theorem exited_stays (c : Cfg) (g g' : St) (e : Ev) (hx : g.pc = .exited) (h : step c g e = some g') :
    g'.pc = .exited ∧ isConnectOk e = false := by
  have keep : ∀ gi f, onCur g gi f = some g' → g'.pc = .exited := by
    intro gi f hf; rw [(onCur_keeps g g' gi f hf).1]; exact hx
  cases e <;> simp only [step, hx] at h
  case hbCall gi gid m => exact ⟨keep _ _ h, rfl⟩
  case hbRet gi e => exact ⟨keep _ _ h, rfl⟩
  case hbExit gi => exact ⟨keep _ _ h, rfl⟩
  case watchCall gi t => exact ⟨keep _ _ h, rfl⟩
  case watchParts gi t n => exact ⟨keep _ _ h, rfl⟩
  case watchErr gi t e => exact ⟨keep _ _ h, rfl⟩
  case watchExit gi t => exact ⟨keep _ _ h, rfl⟩
  case fnExit gi cbm l => exact ⟨keep _ _ h, rfl⟩
  case uRet gi acc =>
    split at h
    · exact ⟨keep _ _ h, rfl⟩
    · split at h <;> simp at h; subst h; first | exact ⟨rfl, rfl⟩ | exact ⟨hx, rfl⟩
  case uCtx gi =>
    split at h
    · exact ⟨keep _ _ h, rfl⟩
    · split at h <;> simp at h; subst h; first | exact ⟨rfl, rfl⟩ | exact ⟨hx, rfl⟩
  case gStart gi acc =>
    split at h
    · simp only [Option.map_eq_some_iff] at h
      obtain ⟨cg, _, rfl⟩ := h
      exact ⟨rfl, rfl⟩
    · split at h <;> simp at h; subst h; first | exact ⟨rfl, rfl⟩ | exact ⟨hx, rfl⟩
  case nextGenRet m e =>
    split at h
    · rename_i hr; simp [returnsNow, hx] at hr
    · simp at h
  all_goals (repeat' split at h)
  all_goals (first | (simp at h; done) | skip)
  all_goals (try (simp only [Option.some.injEq] at h))
  all_goals (try subst h)
  all_goals (try (simp_all [isConnectOk]; done))

theorem afterLeave_ne_exited (s : St) (a : After) : (afterLeave s a).pc ≠ .exited := by
  cases a <;> simp [afterLeave]

theorem coordFail_ne_exited (s : St) (lv : Option After) (e : Err) : (coordFail s lv e).pc ≠ .exited := by
  cases lv with
  | none => simp [coordFail]
  | some a => exact afterLeave_ne_exited _ a

/-- `run` becomes `exited` only by `runExit` -/
theorem into_exited (c : Cfg) (g g' : St) (e : Ev) (h : step c g e = some g') (hx : g'.pc = .exited) :
    g.pc = .exited ∨ e = .runExit := by
  have keep : ∀ gi f, onCur g gi f = some g' → g.pc = .exited := by
    intro gi f hf; rw [← (onCur_keeps g g' gi f hf).1]; exact hx
  cases e <;> simp only [step] at h
  case runExit => exact Or.inr rfl
  case hbCall gi gid m => exact Or.inl (keep _ _ h)
  case hbRet gi e => exact Or.inl (keep _ _ h)
  case hbExit gi => exact Or.inl (keep _ _ h)
  case watchCall gi t => exact Or.inl (keep _ _ h)
  case watchParts gi t n => exact Or.inl (keep _ _ h)
  case watchErr gi t e => exact Or.inl (keep _ _ h)
  case watchExit gi t => exact Or.inl (keep _ _ h)
  case fnExit gi cbm l => exact Or.inl (keep _ _ h)
  case uRet gi acc =>
    split at h
    · exact Or.inl (keep _ _ h)
    · split at h <;> simp at h; subst h; exact Or.inl hx
  case uCtx gi =>
    split at h
    · exact Or.inl (keep _ _ h)
    · split at h <;> simp at h; subst h; exact Or.inl hx
  case gStart gi acc =>
    split at h
    · split at h
      · simp only [Option.map_eq_some_iff] at h
        obtain ⟨cg, _, rfl⟩ := h
        simp only at hx
        split at hx <;> simp at hx
      · simp only [Option.map_eq_some_iff] at h
        obtain ⟨cg, _, rfl⟩ := h
        exact Or.inl hx
    · split at h <;> simp at h; subst h; exact Or.inl hx
  all_goals (repeat' split at h)
  all_goals (first | (simp at h; done) | skip)
  all_goals (try (simp only [Option.some.injEq] at h))
  all_goals (try subst h)
  all_goals (try (exact absurd hx (coordFail_ne_exited _ _ _)))
  all_goals (try (exact absurd hx (afterLeave_ne_exited _ _)))
  all_goals (try (simp at hx; done))
  all_goals (try (exact Or.inl hx))

theorem bit_id (x x' : Bool) : b2n x' + b2n (x && !x') = b2n x + b2n (!x && x') := by
  cases x <;> cases x' <;> simp [b2n]

/-- the accounting invariant: connections journalled as opened or still owed an `copen` = connections journalled as
closed, owed a `cclose`, or held at the current program point -/
structure K (cs : CS) : Prop where
  struct : Inv3 cs.g
  acct : cs.opened + cs.owedOpen = cs.closed + cs.owedClose + held cs.g.pc
  gone : cs.g.pc = .exited → cs.owedOpen = 0 ∧ cs.owedClose = 0

theorem k_init : K {} := ⟨inv3_init, by simp [held, bootPC, connPC, b2n], by intro h; simp at h⟩

theorem k_step (c : Cfg) (cs cs' : CS) (e : CEv) (hk : K cs) (h : stepC c cs e = some cs') : K cs' := by
  cases e with
  | copen =>
    simp only [stepC, Option.ite_none_right_eq_some, Option.some.injEq] at h
    obtain ⟨hg, rfl⟩ := h
    refine ⟨hk.struct, ?_, ?_⟩
    · have := hk.acct; simp only; omega
    · intro hx; have := hk.gone hx; simp only; omega
  | cclose =>
    simp only [stepC, Option.ite_none_right_eq_some, Option.some.injEq] at h
    obtain ⟨hg, rfl⟩ := h
    refine ⟨hk.struct, ?_, ?_⟩
    · have := hk.acct; simp only; omega
    · intro hx; have := hk.gone hx; simp only; omega
  | ev e =>
    simp only [stepC] at h
    split at h
    · simp at h
    · rename_i hq
      cases hs : step c cs.g e with
      | none => simp [hs] at h
      | some g' =>
        simp only [hs, Option.some.injEq] at h
        subst h
        have hg := gain_step c cs.g g' e hk.struct hs
        have b1 := bit_id (bootPC cs.g.pc) (bootPC g'.pc)
        have b2 := bit_id (connPC cs.g.pc) (connPC g'.pc)
        refine ⟨inv3_step c _ _ e hk.struct hs, ?_, ?_⟩
        · have := hk.acct
          simp only [held, gain] at *
          omega
        · intro hx
          simp only at hx
          by_cases hx0 : cs.g.pc = .exited
          · obtain ⟨_, hok⟩ := exited_stays c cs.g g' e hx0 hs
            have := hk.gone hx0
            simp only [hok, hx0, hx, bootPC, connPC, b2n]
            simp; omega
          · -- the only step into `exited` is runExit, guarded by "nothing owed"
            rcases into_exited c cs.g g' e hs hx with h1 | h1
            · exact absurd h1 hx0
            · subst h1
              simp only [step, Option.ite_none_right_eq_some, Option.some.injEq, beq_iff_eq] at hs
              obtain ⟨hpc, rfl⟩ := hs
              simp only [leavesQuiet, Bool.true_and, Bool.not_eq_true', Bool.not_eq_false', Bool.and_eq_true,
                decide_eq_true_eq] at hq
              simp [isConnectOk, hpc, bootPC, connPC, b2n]
              simpa using hq

theorem k_reachable (c : Cfg) (cs : CS) (h : ReachableC c cs) : K cs := by
  induction h with
  | init => exact k_init
  | step e _ hs ih => exact k_step c _ _ e ih hs

end KV.GroupConns
