/-
Lemmas/RecordBatchSpec.lean — round-trip lemmas for the reference codec `Spec/RecordBatch.lean`:
every reader applied to its encoder's output followed by arbitrary bytes returns the value and the rest.
-/
import KafkaVerif.Spec.RecordBatch

namespace KV.Spec.RB
open KV KV.RW

theorem readVarbytes_varbytes (b : Option Bytes) (r : Bytes) : readVarbytes (varbytes b ++ r) = some (b, r) := by
  cases b with
  | none => simp [varbytes, readVarbytes, readVarint_varint]
  | some b =>
    simp only [varbytes, readVarbytes, List.append_assoc, readVarint_varint]
    have h1 : ¬ ((b.length : Int) = -1) := by omega
    have h2 : ¬ ((b.length : Int) < 0) := by omega
    simp [h1, h2, takeN_append]

theorem readHdr_encHdr (h : Hdr) (r : Bytes) : readHdr (encHdr h ++ r) = some (h, r) := by
  simp only [encHdr, readHdr, List.append_assoc, readVarint_varint]
  have h2 : ¬ ((h.key.length : Int) < 0) := by omega
  simp [h2, takeN_append, readVarbytes_varbytes]

theorem readHdrs_encHdrs (hs : List Hdr) (r : Bytes) : readHdrs hs.length (encHdrs hs ++ r) = some (hs, r) := by
  induction hs with
  | nil => simp [readHdrs, encHdrs]
  | cons h hs ih => simp [readHdrs, encHdrs, List.append_assoc, readHdr_encHdr, ih]

theorem readRecBody_recBody (x : RecV2) : readRecBody (recBody x) = some x := by
  simp only [recBody, readRecBody, readVarint_varint, readVarbytes_varbytes]
  have h2 : ¬ ((x.headers.length : Int) < 0) := by omega
  have := readHdrs_encHdrs x.headers []
  simp only [List.append_nil] at this
  simp [h2, this]

theorem readRec_encRec (x : RecV2) (r : Bytes) : readRec (encRec x ++ r) = some (x, r) := by
  simp only [encRec, readRec, List.append_assoc, readVarint_varint]
  have h2 : ¬ (((recBody x).length : Int) < 0) := by omega
  simp [h2, takeN_append, readRecBody_recBody]

theorem readRecs_encRecs (xs : List RecV2) (r : Bytes) : readRecs xs.length (encRecs xs ++ r) = some (xs, r) := by
  induction xs with
  | nil => simp [readRecs, encRecs]
  | cons x xs ih => simp [readRecs, encRecs, List.append_assoc, readRec_encRec, ih]

theorem decodeRecs_encRecs (xs : List RecV2) : decodeRecs (xs.length : Int) (encRecs xs) = some xs := by
  have := readRecs_encRecs xs []
  simp only [List.append_nil] at this
  have h2 : ¬ ((xs.length : Int) < 0) := by omega
  simp [decodeRecs, h2, this]

theorem frameBody_length (f : FrameV2) : (frameBody f).length = 40 + f.payload.length := by
  simp [frameBody]; omega

theorem readFrameBody_frameBody (f : FrameV2) (h : f.WF) :
    readFrameBody f.baseOffset f.leaderEpoch (frameBody f) = some f := by
  obtain ⟨_, _, h3, h4, h5, h6, h7, h8, h9, h10, _⟩ := h
  simp [frameBody, readFrameBody, readI16_i16 _ _ h3, readI32_i32 _ _ h4, readI64_i64 _ _ h5, readI64_i64 _ _ h6,
    readI64_i64 _ _ h7, readI16_i16 _ _ h8, readI32_i32 _ _ h9, readI32_i32 _ _ h10]

theorem readFrame_encFrame (crc : Bytes → Nat) (hcrc : ∀ b, crc b < M32) (f : FrameV2) (h : f.WF) (r : Bytes) :
    readFrame crc (encFrame crc f ++ r) = some (f, r) := by
  have hw := h
  obtain ⟨h1, h2, _, _, _, _, _, _, _, _, h11⟩ := h
  have hlen : InRange M32 ((9 + (frameBody f).length : Nat) : Int) := by
    rw [frameBody_length]; unfold InRange M32 at *; omega
  have h9 : ¬ (((9 + (frameBody f).length : Nat) : Int) < 9) := by omega
  have hblk : (i32 f.leaderEpoch ++ (i8 2 ++ (u32 (crc (frameBody f)) ++ frameBody f))).length
      = ((9 + (frameBody f).length : Nat) : Int).toNat := by
    simp; omega
  have htake := takeN_append (i32 f.leaderEpoch ++ (i8 2 ++ (u32 (crc (frameBody f)) ++ frameBody f))) r
  rw [hblk] at htake
  have hm : InRange M8 2 := by unfold InRange M8; omega
  simp only [encFrame, readFrame, List.append_assoc, readI64_i64 _ _ h1, readI32_i32 _ _ hlen]
  simp only [h9, if_false]
  simp only [List.append_assoc] at htake
  rw [htake]
  simp [readI32_i32 _ _ h2, readI8_i8 _ _ hm, readU32_u32 _ _ (hcrc _), readFrameBody_frameBody f hw]

theorem readNbytes_nbytes (b : Option Bytes) (r : Bytes) (h : 2 * optLen b < M32) :
    readNbytes (nbytes b ++ r) = some (b, r) := by
  cases b with
  | none =>
    have : InRange M32 (-1) := by unfold InRange M32; omega
    simp [nbytes, readNbytes, readI32_i32 _ _ this]
  | some b =>
    have hr : InRange M32 (b.length : Int) := by unfold InRange; simp [optLen] at h; omega
    simp only [nbytes, readNbytes, List.append_assoc, readI32_i32 _ _ hr]
    have h1 : ¬ ((b.length : Int) = -1) := by omega
    have h2 : ¬ ((b.length : Int) < 0) := by omega
    simp [h1, h2, takeN_append]

theorem msgBody_length (m : Msg) (h : m.WF) :
    (msgBody m).length = 10 + (if m.magic = 0 then 0 else 8) + (if m.key.isSome then optLen m.key else 0)
      + (if m.value.isSome then optLen m.value else 0) := by
  obtain ⟨_, _, _, _, _, _⟩ := h
  cases hk : m.key <;> cases hv : m.value <;> simp [msgBody, nbytes, optLen, hk, hv] <;> split <;> simp <;> omega

theorem readMsgBody_msgBody (m : Msg) (h : m.WF) : readMsgBody m.offset (msgBody m) = some m := by
  obtain ⟨off, magic, attrs, ts, key, value⟩ := m
  obtain ⟨_, hm, ha, ht, hz, hl⟩ := h
  simp only at hm ha ht hz hl
  have hk : 2 * optLen key < M32 := by omega
  have hv : 2 * optLen value < M32 := by omega
  have hvn := readNbytes_nbytes value [] hv
  simp only [List.append_nil] at hvn
  have hm0 : InRange M8 0 := by unfold InRange M8; omega
  have hm1 : InRange M8 1 := by unfold InRange M8; omega
  cases hm with
  | inl h0 =>
    subst h0
    have := hz rfl
    subst this
    simp [msgBody, readMsgBody, readI8_i8 _ _ hm0, readI8_i8 _ _ ha, readNbytes_nbytes _ _ hk, hvn]
  | inr h1 =>
    subst h1
    simp [msgBody, readMsgBody, readI8_i8 _ _ hm1, readI8_i8 _ _ ha, readI64_i64 _ _ ht,
      readNbytes_nbytes _ _ hk, hvn]

theorem readMsg_encMsg (crc : Bytes → Nat) (hcrc : ∀ b, crc b < M32) (m : Msg) (h : m.WF) (r : Bytes) :
    readMsg crc (encMsg crc m ++ r) = some (m, r) := by
  have hw := h
  have hbl := msgBody_length m h
  obtain ⟨h1, _, _, _, _, hl⟩ := h
  have hb : (msgBody m).length ≤ 18 + optLen m.key + optLen m.value := by
    rw [hbl]; split <;> split <;> split <;> omega
  have hlen : InRange M32 ((4 + (msgBody m).length : Nat) : Int) := by
    unfold InRange M32 at *; omega
  have h4 : ¬ (((4 + (msgBody m).length : Nat) : Int) < 4) := by omega
  have hblk : (u32 (crc (msgBody m)) ++ msgBody m).length = ((4 + (msgBody m).length : Nat) : Int).toNat := by
    simp; omega
  have htake := takeN_append (u32 (crc (msgBody m)) ++ msgBody m) r
  rw [hblk] at htake
  simp only [encMsg, readMsg, List.append_assoc, readI64_i64 _ _ h1, readI32_i32 _ _ hlen]
  simp only [h4, if_false]
  simp only [List.append_assoc] at htake
  rw [htake]
  simp [readU32_u32 _ _ (hcrc _), readMsgBody_msgBody m hw]


theorem readFrame_badcrc (crc : Bytes → Nat) (hcrc : ∀ b, crc b < M32) (f : FrameV2) (h : f.WF) (r : Bytes)
    (c' : Nat) (hc : c' < M32) (hne : c' ≠ crc (frameBody f)) :
    readFrame crc (i64 f.baseOffset ++ (i32 ((9 + (frameBody f).length : Nat) : Int) ++ (i32 f.leaderEpoch ++
      (i8 2 ++ (u32 c' ++ frameBody f)))) ++ r) = none := by
  have _ := hcrc
  obtain ⟨h1, h2, _, _, _, _, _, _, _, _, h11⟩ := h
  have hlen : InRange M32 ((9 + (frameBody f).length : Nat) : Int) := by
    rw [frameBody_length]; unfold InRange M32 at *; omega
  have h9 : ¬ (((9 + (frameBody f).length : Nat) : Int) < 9) := by omega
  have hblk : (i32 f.leaderEpoch ++ (i8 2 ++ (u32 c' ++ frameBody f))).length
      = ((9 + (frameBody f).length : Nat) : Int).toNat := by
    simp; omega
  have htake := takeN_append (i32 f.leaderEpoch ++ (i8 2 ++ (u32 c' ++ frameBody f))) r
  rw [hblk] at htake
  have hm : InRange M8 2 := by unfold InRange M8; omega
  simp only [readFrame, List.append_assoc, readI64_i64 _ _ h1, readI32_i32 _ _ hlen]
  simp only [h9, if_false]
  simp only [List.append_assoc] at htake
  rw [htake]
  have hne' : ¬ (crc (frameBody f) = c') := fun e => hne e.symm
  simp [readI32_i32 _ _ h2, readI8_i8 _ _ hm, readU32_u32 _ _ hc, hne']

/-! ### whole record sets -/

theorem i8_eq (x : Int) : i8 x = [byte (toU M8 x)] := by simp [i8, beN]

theorem getElem?_skip (a b : Bytes) (n : Nat) (h : a.length ≤ n) : (a ++ b)[n]? = b[n - a.length]? :=
  List.getElem?_append_right h

theorem magicOf_encFrame (crc : Bytes → Nat) (f : FrameV2) (r : Bytes) :
    magicOf (encFrame crc f ++ r) = some 2 := by
  simp only [magicOf, encFrame, List.append_assoc]
  rw [getElem?_skip _ _ _ (by simp), getElem?_skip _ _ _ (by simp), getElem?_skip _ _ _ (by simp)]
  simp [i8_eq]
  decide

theorem magicOf_encMsg (crc : Bytes → Nat) (m : Msg) (r : Bytes) (h : m.magic = 0 ∨ m.magic = 1) :
    ∃ b, magicOf (encMsg crc m ++ r) = some b ∧ b ≠ 2 := by
  simp only [magicOf, encMsg, msgBody, List.append_assoc]
  rw [getElem?_skip _ _ _ (by simp), getElem?_skip _ _ _ (by simp), getElem?_skip _ _ _ (by simp)]
  rcases h with h | h <;> simp [i8_eq, h] <;> decide

theorem readEntry_encEntry (c : Crcs) (h1 : ∀ b, c.ieee b < M32) (h2 : ∀ b, c.castagnoli b < M32)
    (e : Entry) (hwf : match e with | .msg m => m.WF | .batch f => f.WF) (r : Bytes) :
    readEntry c (encEntry c e ++ r) = some (e, r) := by
  cases e with
  | msg m =>
    obtain ⟨b, hb, hne⟩ := magicOf_encMsg c.ieee m r hwf.2.1
    simp [readEntry, encEntry, hb, hne, readMsg_encMsg c.ieee h1 m hwf r]
  | batch f =>
    simp [readEntry, encEntry, magicOf_encFrame, readFrame_encFrame c.castagnoli h2 f hwf r]

theorem encEntry_length_pos (c : Crcs) (e : Entry) : 0 < (encEntry c e).length := by
  cases e <;> simp [encEntry, encMsg, encFrame] <;> omega

theorem readSet_encSet (c : Crcs) (h1 : ∀ b, c.ieee b < M32) (h2 : ∀ b, c.castagnoli b < M32)
    (es : List Entry) (hwf : ∀ e ∈ es, match e with | .msg m => m.WF | .batch f => f.WF)
    (fuel : Nat) (hf : es.length ≤ fuel) : readSet c fuel (encSet c es) = some es := by
  induction es generalizing fuel with
  | nil => cases fuel <;> simp [readSet, encSet]
  | cons e es ih =>
    have hpos := encEntry_length_pos c e
    cases fuel with
    | zero => simp at hf
    | succ fuel =>
      have hne : encSet c (e :: es) ≠ [] := by
        intro h
        have := congrArg List.length h
        rw [encSet, List.length_append, List.length_nil] at this; omega
      simp only [encSet] at hne ⊢
      cases hbs : encEntry c e ++ encSet c es with
      | nil => exact absurd hbs hne
      | cons x xs =>
        rw [← hbs]
        have hre := readEntry_encEntry c h1 h2 e (hwf e (by simp)) (encSet c es)
        have hrest := ih (fun e' he' => hwf e' (by simp [he'])) fuel (by simp only [List.length_cons] at hf; omega)
        rw [hbs]
        simp only [readSet]
        rw [← hbs, hre]
        simp [hrest]

theorem encSet_length_ge (c : Crcs) (es : List Entry) : es.length ≤ (encSet c es).length := by
  induction es with
  | nil => simp [encSet]
  | cons e es ih =>
    have := encEntry_length_pos c e
    simp [encSet]; omega

theorem decodeSet_encSet (c : Crcs) (h1 : ∀ b, c.ieee b < M32) (h2 : ∀ b, c.castagnoli b < M32)
    (es : List Entry) (hwf : ∀ e ∈ es, match e with | .msg m => m.WF | .batch f => f.WF) :
    decodeSet c (encSet c es) = some es :=
  readSet_encSet c h1 h2 es hwf _ (encSet_length_ge c es)

end KV.Spec.RB
