/-
Lemmas/GroupLog.lean — invariants of the group history over a log with holes (Model/GroupLog.lean).
-/
import KafkaVerif.Model.GroupLog
namespace KV.GroupLog

def Del (s : G) (r : Nat) : Prop := ∃ m, (m, r) ∈ s.delivered

/-- a position / committed offset never runs more than one past a stored offset -/
def Bounded (s : G) (x : Nat) : Prop := x = 0 ∨ ∃ r ∈ s.log, x ≤ r + 1

structure GInv (s : G) : Prop where
  sorted : s.log.Pairwise (· < ·)
  cov : ∀ c, s.committed = some c → ∀ r ∈ s.log, r < c → Del s r
  below : ∀ rd ∈ s.readers, ∀ r ∈ s.log, r < rd.pos → Del s r
  down : ∀ d ∈ s.delivered, ∀ r ∈ s.log, r ≤ d.2 → Del s r
  /-- per epoch: nothing stored in [start, pos) was skipped, and only stored records were handed out, to the member -/
  noskip : ∀ rd ∈ s.readers, ∀ r ∈ s.log, rd.start ≤ r → r < rd.pos → r ∈ rd.epoch
  mine : ∀ rd ∈ s.readers, ∀ r ∈ rd.epoch, r ∈ s.log ∧ (rd.m, r) ∈ s.delivered ∧ rd.start ≤ r ∧ r < rd.pos
  bpos : ∀ rd ∈ s.readers, Bounded s rd.pos
  bcom : ∀ c, s.committed = some c → Bounded s c
  dlog : ∀ d ∈ s.delivered, d.2 ∈ s.log
  sle : ∀ rd ∈ s.readers, rd.start ≤ rd.pos

/-- in a strictly increasing list the first element satisfying `p ≤ ·` is the least such element -/
theorem find_least (l : List Nat) (hs : l.Pairwise (· < ·)) (p r : Nat) (h : l.find? (fun x => p ≤ x) = some r) :
    r ∈ l ∧ p ≤ r ∧ ∀ x ∈ l, p ≤ x → r ≤ x := by
  induction l with
  | nil => simp at h
  | cons a t ih =>
    rw [List.pairwise_cons] at hs
    simp only [List.find?_cons] at h
    split at h
    · rename_i ha
      cases h
      refine ⟨List.mem_cons_self, by simpa using ha, ?_⟩
      intro x hx _
      rcases List.mem_cons.mp hx with rfl | hx
      · exact Nat.le_refl _
      · exact Nat.le_of_lt (hs.1 x hx)
    · rename_i ha
      obtain ⟨h1, h2, h3⟩ := ih hs.2 h
      refine ⟨List.mem_cons_of_mem _ h1, h2, ?_⟩
      intro x hx hpx
      rcases List.mem_cons.mp hx with rfl | hx
      · simp at ha; omega
      · exact h3 x hx hpx

theorem ginv_init : GInv {} :=
  ⟨List.Pairwise.nil, (by intro c h; cases h), (by intro rd h; cases h), (by intro d h; cases h),
   (by intro rd h; cases h), (by intro rd h; cases h), (by intro rd h; cases h), (by intro c h; cases h),
   (by intro d h; cases h), (by intro rd h; cases h)⟩

theorem Bounded.mono {s : G} {x : Nat} (l : List Nat) (h : Bounded s x) : Bounded { s with log := s.log ++ l } x := by
  rcases h with h | ⟨r, hr, hx⟩
  · exact .inl h
  · exact .inr ⟨r, List.mem_append_left _ hr, hx⟩

theorem ginv_step (s s' : G) (e : GEv) (hi : GInv s) (h : gstep s e = some s') : GInv s' := by
  cases e <;> simp only [gstep] at h
  case produce o =>
    split at h
    · rename_i hall
      cases h
      simp only [List.all_eq_true, decide_eq_true_eq] at hall
      have notBelow : ∀ x, Bounded s x → ¬ o < x := by
        intro x hb hlt
        rcases hb with h0 | ⟨r, hr, hx⟩
        · omega
        · have := hall r hr; omega
      have split : ∀ r, r ∈ s.log ++ [o] → r ∈ s.log ∨ r = o := by
        intro r hr; rcases List.mem_append.mp hr with hr | hr
        · exact .inl hr
        · simp at hr; exact .inr hr
      refine ⟨?_, ?_, ?_, ?_, ?_, ?_, ?_, ?_, ?_, hi.sle⟩
      · rw [List.pairwise_append]
        exact ⟨hi.sorted, List.pairwise_singleton _ _, by intro a ha b hb; simp at hb; subst hb; exact hall a ha⟩
      · intro c hc r hr hlt
        rcases split r hr with hr | rfl
        · exact hi.cov c hc r hr hlt
        · exact absurd hlt (notBelow c (hi.bcom c hc))
      · intro rd hrd r hr hlt
        rcases split r hr with hr | rfl
        · exact hi.below rd hrd r hr hlt
        · exact absurd hlt (notBelow _ (hi.bpos rd hrd))
      · intro d hd r hr hle
        rcases split r hr with hr | rfl
        · exact hi.down d hd r hr hle
        · have := hall d.2 (hi.dlog d hd); omega
      · intro rd hrd r hr h1 h2
        rcases split r hr with hr | rfl
        · exact hi.noskip rd hrd r hr h1 h2
        · exact absurd h2 (notBelow _ (hi.bpos rd hrd))
      · intro rd hrd r hr
        have := hi.mine rd hrd r hr
        exact ⟨List.mem_append_left _ this.1, this.2⟩
      · intro rd hrd; exact (hi.bpos rd hrd).mono _
      · intro c hc; exact (hi.bcom c hc).mono _
      · intro d hd; exact List.mem_append_left _ (hi.dlog d hd)
    · cases h
  case assign m =>
    cases h
    have hnew : ∀ rd, rd ∈ s.readers ++ [{ m := m, start := s.committed.getD 0, pos := s.committed.getD 0, epoch := [] }] →
        rd ∈ s.readers ∨ rd = { m := m, start := s.committed.getD 0, pos := s.committed.getD 0, epoch := [] } := by
      intro rd hrd; rcases List.mem_append.mp hrd with h | h
      · exact .inl h
      · simp at h; exact .inr h
    refine ⟨hi.sorted, hi.cov, ?_, hi.down, ?_, ?_, ?_, hi.bcom, hi.dlog, ?_⟩
    · intro rd hrd r hr hlt
      rcases hnew rd hrd with h | rfl
      · exact hi.below rd h r hr hlt
      · cases hc : s.committed with
        | none => simp [hc] at hlt
        | some c => simp [hc] at hlt; exact hi.cov c hc r hr hlt
    · intro rd hrd r hr h1 h2
      rcases hnew rd hrd with h | rfl
      · exact hi.noskip rd h r hr h1 h2
      · simp at h1 h2; omega
    · intro rd hrd r hr
      rcases hnew rd hrd with h | rfl
      · exact hi.mine rd h r hr
      · cases hr
    · intro rd hrd
      rcases hnew rd hrd with h | rfl
      · exact hi.bpos rd h
      · cases hc : s.committed with
        | none => exact .inl (by simp)
        | some c => simp only [Option.getD_some]; exact hi.bcom c hc
    · intro rd hrd
      rcases hnew rd hrd with h | rfl
      · exact hi.sle rd h
      · exact Nat.le_refl _
  case revoke i =>
    split at h
    · cases h
      have sub : ∀ rd, rd ∈ s.readers.eraseIdx i → rd ∈ s.readers := fun rd h => List.mem_of_mem_eraseIdx h
      exact ⟨hi.sorted, hi.cov, fun rd h => hi.below rd (sub rd h), hi.down, fun rd h => hi.noskip rd (sub rd h),
             fun rd h => hi.mine rd (sub rd h), fun rd h => hi.bpos rd (sub rd h), hi.bcom, hi.dlog, fun rd h => hi.sle rd (sub rd h)⟩
    · cases h
  case deliver i =>
    split at h
    · rename_i rd hget
      split at h
      · rename_i r hfind
        cases h
        have hmem : rd ∈ s.readers := List.mem_of_getElem? hget
        obtain ⟨hrl, hpr, hleast⟩ := find_least s.log hi.sorted rd.pos r hfind
        have mono : ∀ x, Del s x → Del { s with readers := s.readers.set i { rd with pos := r + 1, epoch := rd.epoch ++ [r] }, delivered := s.delivered ++ [(rd.m, r)] } x :=
          fun x ⟨m, hm⟩ => ⟨m, List.mem_append_left _ hm⟩
        have hnewdel : ∀ x ∈ s.log, x ≤ r → Del { s with readers := s.readers.set i { rd with pos := r + 1, epoch := rd.epoch ++ [r] }, delivered := s.delivered ++ [(rd.m, r)] } x := by
          intro x hx hle
          rcases Nat.lt_or_ge x rd.pos with hlt | hge
          · exact mono x (hi.below rd hmem x hx hlt)
          · have := hleast x hx hge
            have : x = r := by omega
            subst this
            exact ⟨rd.m, List.mem_append_right _ (by simp)⟩
        have hmine := hi.mine rd hmem
        have hst : rd.start ≤ rd.pos := hi.sle rd hmem
        refine ⟨hi.sorted, fun c hc x hx hlt => mono x (hi.cov c hc x hx hlt), ?_, ?_, ?_, ?_, ?_, hi.bcom, ?_, ?_⟩
        · intro x hx y hy hlt
          rcases List.mem_or_eq_of_mem_set hx with hx | rfl
          · exact mono y (hi.below x hx y hy hlt)
          · exact hnewdel y hy (by simp at hlt; omega)
        · intro d hd y hy hle
          rcases List.mem_append.mp hd with hd | hd
          · exact mono y (hi.down d hd y hy hle)
          · simp at hd; subst hd; exact hnewdel y hy hle
        · intro x hx y hy h1 h2
          rcases List.mem_or_eq_of_mem_set hx with hx | rfl
          · exact hi.noskip x hx y hy h1 h2
          · simp only at h1 h2 ⊢
            rcases Nat.lt_or_ge y rd.pos with hlt | hge
            · exact List.mem_append_left _ (hi.noskip rd hmem y hy h1 hlt)
            · have := hleast y hy hge
              have : y = r := by omega
              subst this
              exact List.mem_append_right _ (by simp)
        · intro x hx y hy
          rcases List.mem_or_eq_of_mem_set hx with hx | rfl
          · have := hi.mine x hx y hy
            exact ⟨this.1, List.mem_append_left _ this.2.1, this.2.2⟩
          · simp only at hy ⊢
            rcases List.mem_append.mp hy with hy | hy
            · have := hmine y hy
              exact ⟨this.1, List.mem_append_left _ this.2.1, this.2.2.1, by omega⟩
            · simp at hy; subst hy
              exact ⟨hrl, List.mem_append_right _ (by simp), by omega, by omega⟩
        · intro x hx
          rcases List.mem_or_eq_of_mem_set hx with hx | rfl
          · exact hi.bpos x hx
          · exact .inr ⟨r, hrl, Nat.le_refl _⟩
        · intro d hd
          rcases List.mem_append.mp hd with hd | hd
          · exact hi.dlog d hd
          · simp at hd; subst hd; exact hrl
        · intro x hx
          rcases List.mem_or_eq_of_mem_set hx with hx | rfl
          · exact hi.sle x hx
          · show rd.start ≤ r + 1; omega
      · cases h
    · cases h
  case commit m o ack =>
    split at h
    · rename_i hany
      cases h
      cases ack with
      | false => exact hi
      | true =>
        simp only [List.any_eq_true, Bool.and_eq_true, decide_eq_true_eq] at hany
        obtain ⟨d, hd, _, hle⟩ := hany
        refine ⟨hi.sorted, ?_, hi.below, hi.down, hi.noskip, hi.mine, hi.bpos, ?_, hi.dlog, hi.sle⟩
        · intro c hc r hr hlt
          simp at hc; subst hc
          exact hi.down d hd r hr (by omega)
        · intro c hc
          simp at hc; subst hc
          exact .inr ⟨d.2, hi.dlog d hd, hle⟩
    · cases h

theorem ginv_reachable (s : G) (h : GReachable s) : GInv s := by
  induction h with
  | init => exact ginv_init
  | step e _ hs ih => exact ginv_step _ _ e ih hs

end KV.GroupLog
