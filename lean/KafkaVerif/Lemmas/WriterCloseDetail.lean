/-
C09 over the detailed Writer LTS (`Model/Writer.lean`, the model that C01/C07/C08 tie to the code deterministically,
hook event by hook event): when `Close` may return, every batch ever created is done.

`Model/WriterClose.lean` (my own, coarser model) carries the termination argument; its tie is an existential
state-set simulation.  The theorem here is the safety half of C09 for the Writer restated on the model whose traces
are replayed one-to-one, so that "every accepted message was sent or gave up, and its Completion ran, before Close
returned" does not rest on the coarser model alone.

Invariant `DI`:
* `lockClosed`  once `closed` is set no WriteMessages call holds the writer mutex (Close took it when it was free and
                `batch` needs `closed = false`);
* `qcl`         a closed batch queue belongs to a closed writer whose partition writer holds neither a current nor a
                detached-but-unqueued batch (Close detaches and queues them before closing the queue);
* `exi`         a sender goroutine exits only on a closed and empty queue;
* `ids`         every partition writer is listed in `pwIds` (the list `closeReturn` quantifies over);
* `live`        every batch that is not done sits in its partition writer's pipe (sender, queue, pending, current).

Invariant `CI`: the call ids are distinct and exactly the keys of `calls`, and `inflight = entered + #{calls not returned}`
(the model's WaitGroup counter: `enter` adds, `empty` / `reject` / `ret` subtract), so `inflight = 0 ∧ entered = 0` —
the guard of `closeReturn`, i.e. `w.group.Wait()` — means every call has returned.

Invariant `AI`: a call in phase `batched`, or returned with a result other than `closed` / `rejected`, has every message
placed in a batch.  `close_return_complete` puts the three together with the writer builder's `InvCompl` (Completion
ran exactly once per done batch) and `InvPlace` (a placed message is in that batch).
-/
import KafkaVerif.Model.Writer
import KafkaVerif.Lemmas.WriterInv
import KafkaVerif.Lemmas.WriterPlace
import KafkaVerif.Lemmas.WriterCompl
namespace KV.WriterCloseDetail
open KV.Writer

/-- invariants of the detailed Writer LTS about Close -/
structure DI (s : State) : Prop where
  lockClosed : s.closed = true → s.wlock.isCall = false
  qcl : ∀ pw P, s.pws pw = some P → P.qclosed = true → s.closed = true ∧ P.curr = none ∧ P.pending = none
  exi : ∀ pw P, s.pws pw = some P → P.sender = .exited → P.qclosed = true ∧ P.queue = []
  ids : ∀ pw P, s.pws pw = some P → pw ∈ s.pwIds
  live : ∀ b B, s.batches b = some B → B.done = none → ∃ P, s.pws B.pw = some P ∧ b ∈ P.pipe

theorem di_init : DI State.init := by
  constructor <;> simp [State.init, Lock.isCall]

/-- a step that changes neither the partition writers, the batches, the lock, the closed flag nor the id list -/
theorem di_frame (s s' : State) (h : DI s) (h1 : s'.pws = s.pws) (h2 : s'.batches = s.batches)
    (h3 : s'.wlock = s.wlock) (h4 : s'.closed = s.closed) (h5 : s'.pwIds = s.pwIds) : DI s' := by
  constructor
  · rw [h4, h3]; exact h.lockClosed
  · rw [h1, h4]; exact h.qcl
  · rw [h1]; exact h.exi
  · rw [h1, h5]; exact h.ids
  · rw [h1, h2]; exact h.live

/-- replacing partition writer `pw0` by `P'` (batches unchanged): what `P'` has to satisfy -/
theorem di_updPW (s s' : State) (h : DI s) (pw0 : Nat) (P P' : PW) (hP : s.pws pw0 = some P)
    (e1 : s'.pws = upd s.pws pw0 (some P')) (e2 : s'.batches = s.batches) (e3 : s'.wlock = s.wlock)
    (e4 : s'.closed = s.closed) (e5 : s'.pwIds = s.pwIds)
    (hq : P'.qclosed = true → s.closed = true ∧ P'.curr = none ∧ P'.pending = none)
    (he : P'.sender = .exited → P'.qclosed = true ∧ P'.queue = [])
    (hpipe : ∀ b ∈ P.pipe, b ∈ P'.pipe) : DI s' := by
  constructor
  · rw [e4, e3]; exact h.lockClosed
  · intro pw X hX
    rw [e1] at hX; rw [e4]
    by_cases hpw : pw = pw0
    · subst hpw; simp at hX; subst hX; exact hq
    · rw [upd_other _ _ _ _ hpw] at hX; exact h.qcl pw X hX
  · intro pw X hX
    rw [e1] at hX
    by_cases hpw : pw = pw0
    · subst hpw; simp at hX; subst hX; exact he
    · rw [upd_other _ _ _ _ hpw] at hX; exact h.exi pw X hX
  · intro pw X hX
    rw [e1] at hX; rw [e5]
    by_cases hpw : pw = pw0
    · subst hpw; exact h.ids pw P hP
    · rw [upd_other _ _ _ _ hpw] at hX; exact h.ids pw X hX
  · intro b B hB hd
    rw [e2] at hB; rw [e1]
    obtain ⟨X, hX, hb⟩ := h.live b B hB hd
    by_cases hpw : B.pw = pw0
    · refine ⟨P', by simp [hpw], ?_⟩
      rw [hpw, hP] at hX; injection hX with hX; subst hX
      exact hpipe b hb
    · exact ⟨X, by rw [upd_other _ _ _ _ hpw]; exact hX, hb⟩

/-- partition writer `pw0` becomes `P'` and batch `b0` becomes `B'` (same owner; it may have become done) -/
theorem di_updBoth (s s' : State) (h : DI s) (pw0 : Nat) (P P' : PW) (hP : s.pws pw0 = some P)
    (b0 : Nat) (B B' : Batch) (hB : s.batches b0 = some B)
    (e1 : s'.pws = upd s.pws pw0 (some P')) (e2 : s'.batches = upd s.batches b0 (some B')) (e3 : s'.wlock = s.wlock)
    (e4 : s'.closed = s.closed) (e5 : s'.pwIds = s.pwIds)
    (hpw : B'.pw = B.pw) (hdone : B'.done = none → B.done = none)
    (hq : P'.qclosed = true → s.closed = true ∧ P'.curr = none ∧ P'.pending = none)
    (he : P'.sender = .exited → P'.qclosed = true ∧ P'.queue = [])
    (hpipe : ∀ b ∈ P.pipe, b ∈ P'.pipe ∨ (b = b0 ∧ B'.done ≠ none)) : DI s' := by
  constructor
  · rw [e4, e3]; exact h.lockClosed
  · intro pw X hX
    rw [e1] at hX; rw [e4]
    by_cases hpw' : pw = pw0
    · subst hpw'; simp at hX; subst hX; exact hq
    · rw [upd_other _ _ _ _ hpw'] at hX; exact h.qcl pw X hX
  · intro pw X hX
    rw [e1] at hX
    by_cases hpw' : pw = pw0
    · subst hpw'; simp at hX; subst hX; exact he
    · rw [upd_other _ _ _ _ hpw'] at hX; exact h.exi pw X hX
  · intro pw X hX
    rw [e1] at hX; rw [e5]
    by_cases hpw' : pw = pw0
    · subst hpw'; exact h.ids pw P hP
    · rw [upd_other _ _ _ _ hpw'] at hX; exact h.ids pw X hX
  · intro b Bx hBx hd
    rw [e2] at hBx; rw [e1]
    -- the batch as it was in s, undone, same owner
    have old : ∃ B0, s.batches b = some B0 ∧ B0.done = none ∧ B0.pw = Bx.pw := by
      by_cases hb : b = b0
      · subst hb; simp at hBx; subst hBx; exact ⟨B, hB, hdone hd, hpw.symm⟩
      · rw [upd_other _ _ _ _ hb] at hBx; exact ⟨Bx, hBx, hd, rfl⟩
    obtain ⟨B0, hB0, hd0, hpw0⟩ := old
    obtain ⟨X, hX, hb⟩ := h.live b B0 hB0 hd0
    rw [hpw0] at hX
    by_cases hpw' : Bx.pw = pw0
    · refine ⟨P', by simp [hpw'], ?_⟩
      rw [hpw', hP] at hX; injection hX with hX; subst hX
      rcases hpipe b hb with h1 | ⟨h1, h2⟩
      · exact h1
      · subst h1; simp at hBx; subst hBx; exact absurd hd h2
    · exact ⟨X, by rw [upd_other _ _ _ _ hpw']; exact hX, hb⟩

/-- only batch `b0` changes (same owner, not un-done) -/
theorem di_updBatch (s s' : State) (h : DI s) (b0 : Nat) (B B' : Batch) (hB : s.batches b0 = some B)
    (e1 : s'.pws = s.pws) (e2 : s'.batches = upd s.batches b0 (some B')) (e3 : s'.wlock = s.wlock)
    (e4 : s'.closed = s.closed) (e5 : s'.pwIds = s.pwIds)
    (hpw : B'.pw = B.pw) (hdone : B'.done = none → B.done = none) : DI s' := by
  constructor
  · rw [e4, e3]; exact h.lockClosed
  · rw [e1, e4]; exact h.qcl
  · rw [e1]; exact h.exi
  · rw [e1, e5]; exact h.ids
  · intro b Bx hBx hd
    rw [e2] at hBx; rw [e1]
    by_cases hb : b = b0
    · subst hb; simp at hBx; subst hBx
      rw [hpw]; exact h.live b B hB (hdone hd)
    · rw [upd_other _ _ _ _ hb] at hBx; exact h.live b Bx hBx hd

theorem mem_pipe (P : PW) (b : Nat) :
    b ∈ P.pipe ↔ P.sender.batch? = some b ∨ b ∈ P.queue ∨ P.pending = some b ∨ P.curr = some b := by
  simp only [PW.pipe, List.mem_append, Option.mem_toList]
  constructor
  · rintro (((h | h) | h) | h)
    · exact Or.inl h
    · exact Or.inr (Or.inl h)
    · exact Or.inr (Or.inr (Or.inl h))
    · exact Or.inr (Or.inr (Or.inr h))
  · rintro (h | h | h | h)
    · exact Or.inl (Or.inl (Or.inl h))
    · exact Or.inl (Or.inl (Or.inr h))
    · exact Or.inl (Or.inr h)
    · exact Or.inr h

theorem mem_head_tail (q : List Nat) (b x : Nat) (hq : q.head? = some b) (hx : x ∈ q) : x = b ∨ x ∈ q.tail := by
  cases q with
  | nil => cases hx
  | cons a t =>
    simp at hq; subst hq
    simpa using hx

theorem afterAttempt_batch (cfg : Cfg) (b k : Nat) (code : Code) : (afterAttempt cfg b k code).batch? = some b := by
  unfold afterAttempt
  split
  · rfl
  · split <;> rfl

theorem di_step (cfg : Cfg) (s s' : State) (e : Event) (h : DI s) (hs : step cfg s e = some s') : DI s' := by
  cases e <;> simp only [step] at hs
  case enter ok =>
    split at hs
    · split at hs <;> (injection hs with hs; subst hs; exact di_frame s _ h rfl rfl rfl rfl rfl)
    · simp at hs
  case tick t =>
    split at hs
    · injection hs with hs; subst hs; exact di_frame s _ h rfl rfl rfl rfl rfl
    · simp at hs
  case empty =>
    split at hs
    · injection hs with hs; subst hs; exact di_frame s _ h rfl rfl rfl rfl rfl
    · simp at hs
  case begin_ c msgs =>
    split at hs
    · injection hs with hs; subst hs; exact di_frame s _ h rfl rfl rfl rfl rfl
    · simp at hs
  case reject c why i =>
    simp only [stepReject] at hs
    split at hs
    · simp at hs
    · split at hs <;> (split at hs <;> first | (injection hs with hs; subst hs; exact di_frame s _ h rfl rfl rfl rfl rfl) | (simp at hs))
  case assign c i tp =>
    split at hs
    · simp at hs
    · split at hs
      · injection hs with hs; subst hs; exact di_frame s _ h rfl rfl rfl rfl rfl
      · simp at hs
  case ret c r =>
    simp only [stepRet] at hs
    split at hs
    · simp at hs
    · split at hs <;> first
        | (split at hs <;> first | (injection hs with hs; subst hs; exact di_frame s _ h rfl rfl rfl rfl rfl) | (simp at hs))
        | (simp at hs)
  case batch c =>
    split at hs
    · simp at hs
    · split at hs
      · rename_i hg
        injection hs with hs; subst hs
        exact ⟨fun hc => by simp [hg.2.1] at hc, h.qcl, h.exi, h.ids, h.live⟩
      · simp at hs
  case batched c =>
    split at hs
    · simp at hs
    · split at hs
      · injection hs with hs; subst hs
        exact ⟨fun _ => rfl, h.qcl, h.exi, h.ids, h.live⟩
      · simp at hs
  case closeBegin =>
    split at hs
    · injection hs with hs; subst hs
      exact ⟨fun _ => rfl, fun pw P hP hq => ⟨rfl, (h.qcl pw P hP hq).2⟩, h.exi, h.ids, h.live⟩
    · simp at hs
  case closeMarked n =>
    split at hs
    · injection hs with hs; subst hs
      exact ⟨fun _ => rfl, h.qcl, h.exi, h.ids, h.live⟩
    · simp at hs
  case closeReturn =>
    split at hs
    · injection hs with hs; subst hs; exact di_frame s _ h rfl rfl rfl rfl rfl
    · simp at hs
  case newPW pw q tp =>
    split at hs
    · rename_i hg
      injection hs with hs; subst hs
      have hnone : s.pws pw = none := by simpa using hg.2.2.2.1
      constructor
      · exact h.lockClosed
      · intro x X hX
        by_cases hx : x = pw
        · subst hx; simp at hX; subst hX; intro hq; simp [PW.new] at hq
        · simp only at hX; rw [upd_other _ _ _ _ hx] at hX; exact h.qcl x X hX
      · intro x X hX
        by_cases hx : x = pw
        · subst hx; simp at hX; subst hX; intro hq; simp [PW.new] at hq
        · simp only at hX; rw [upd_other _ _ _ _ hx] at hX; exact h.exi x X hX
      · intro x X hX
        by_cases hx : x = pw
        · subst hx; simp
        · simp only at hX; rw [upd_other _ _ _ _ hx] at hX
          exact List.mem_append.mpr (Or.inl (h.ids x X hX))
      · intro b B hB hd
        obtain ⟨X, hX, hb⟩ := h.live b B hB hd
        have hne : B.pw ≠ pw := by intro he; rw [he, hnone] at hX; cases hX
        exact ⟨X, by simp only; rw [upd_other _ _ _ _ hne]; exact hX, hb⟩
    · simp at hs
  case newBatch pw b =>
    split at hs
    · simp at hs
    · rename_i P hP
      split at hs
      · rename_i hg
        injection hs with hs; subst hs
        have hbnone : s.batches b = none := by simpa using hg.2.2.2.1
        have hcall := hg.1
        constructor
        · exact h.lockClosed
        · intro x X hX
          by_cases hx : x = pw
          · subst hx; simp at hX; subst hX
            intro hq
            -- a closed queue cannot get a new batch: the writer is closed, no call holds the lock
            have := (h.qcl x P hP hq).1
            have := h.lockClosed this
            simp [hcall] at this
          · simp only at hX; rw [upd_other _ _ _ _ hx] at hX; exact h.qcl x X hX
        · intro x X hX
          by_cases hx : x = pw
          · subst hx; simp at hX; subst hX
            intro he
            have hq := (h.exi x P hP he).1
            have := h.lockClosed (h.qcl x P hP hq).1
            simp [hcall] at this
          · simp only at hX; rw [upd_other _ _ _ _ hx] at hX; exact h.exi x X hX
        · intro x X hX
          by_cases hx : x = pw
          · subst hx; exact h.ids x P hP
          · simp only at hX; rw [upd_other _ _ _ _ hx] at hX; exact h.ids x X hX
        · intro b' B hB hd
          by_cases hb : b' = b
          · subst hb
            simp at hB; subst hB
            refine ⟨{ P with curr := some b', nbatches := P.nbatches + 1 }, by simp [Batch.new], ?_⟩
            rw [mem_pipe]; exact Or.inr (Or.inr (Or.inr rfl))
          · simp only at hB; rw [upd_other _ _ _ _ hb] at hB
            obtain ⟨X, hX, hbm⟩ := h.live b' B hB hd
            by_cases hx : B.pw = pw
            · refine ⟨{ P with curr := some b, nbatches := P.nbatches + 1 }, by simp [hx], ?_⟩
              rw [hx, hP] at hX; injection hX with hX; subst hX
              rw [mem_pipe] at hbm ⊢
              rcases hbm with h1 | h1 | h1 | h1
              · exact Or.inl h1
              · exact Or.inr (Or.inl h1)
              · exact Or.inr (Or.inr (Or.inl h1))
              · rw [hg.2.1] at h1; cases h1
            · exact ⟨X, by simp only; rw [upd_other _ _ _ _ hx]; exact hX, hbm⟩
      · simp at hs
  case add pw b c i size =>
    simp only [stepAdd] at hs
    split at hs
    · simp at hs
    · rename_i P hP
      split at hs
      · simp at hs
      · rename_i B hB
        split at hs
        · simp at hs
        · rename_i C hC
          split at hs
          · injection hs with hs; subst hs
            exact di_updBatch s _ h b B _ hB rfl rfl rfl rfl rfl rfl (fun hd => hd)
          · simp at hs
  case detach pw b why size =>
    simp only [stepDetach] at hs
    split at hs
    · simp at hs
    · rename_i P hP
      split at hs
      · simp at hs
      · rename_i B hB
        split at hs
        · rename_i hg
          injection hs with hs; subst hs
          refine di_updBoth s _ h pw P _ hP b B _ hB rfl rfl rfl rfl rfl rfl (fun hd => hd) ?_ ?_ ?_
          · intro hq
            have := (h.qcl pw P hP hq).2.1
            rw [hg.1] at this; cases this
          · intro he; exact ⟨(h.exi pw P hP he).1, (h.exi pw P hP he).2⟩
          · intro x hx
            left
            rw [mem_pipe] at hx ⊢
            rcases hx with h1 | h1 | h1 | h1
            · exact Or.inl h1
            · exact Or.inr (Or.inl h1)
            · rw [hg.2.1] at h1; cases h1
            · rw [hg.1] at h1; exact Or.inr (Or.inr (Or.inl h1))
        · simp at hs
  case qput q b acc =>
    split at hs
    · simp at hs
    · rename_i pw hq0
      split at hs
      · simp at hs
      · rename_i P hP
        split at hs
        · rename_i hg
          injection hs with hs; subst hs
          have hnq : P.qclosed = false := by
            cases hqc : P.qclosed
            · rfl
            · have := (h.qcl pw P hP hqc).2.2
              rw [hg.1] at this; cases this
          have hacc : acc = true := by rw [hg.2.2, hnq]; rfl
          refine di_updPW s _ h pw P _ hP rfl rfl rfl rfl rfl ?_ ?_ ?_
          · intro hq; simp only at hq; rw [hnq] at hq; cases hq
          · intro he; simp only at he
            have := (h.exi pw P hP he).1
            rw [hnq] at this; cases this
          · intro x hx
            rw [mem_pipe] at hx ⊢
            simp only [enq, hacc, if_true, List.mem_append, List.mem_singleton]
            rcases hx with h1 | h1 | h1 | h1
            · exact Or.inl h1
            · exact Or.inr (Or.inl (Or.inl h1))
            · rw [hg.1] at h1; injection h1 with h1; exact Or.inr (Or.inl (Or.inr h1.symm))
            · exact Or.inr (Or.inr (Or.inr h1))
        · simp at hs
  case qget q ob =>
    split at hs
    · simp at hs
    · rename_i pw hq0
      split at hs
      · simp at hs
      · rename_i P hP
        split at hs
        · rename_i b
          split at hs
          · rename_i hg
            injection hs with hs; subst hs
            refine di_updPW s _ h pw P _ hP rfl rfl rfl rfl rfl ?_ ?_ ?_
            · intro hq; exact h.qcl pw P hP hq
            · intro he; cases he
            · intro x hx
              rw [mem_pipe] at hx ⊢
              rcases hx with h1 | h1 | h1 | h1
              · rw [hg.1] at h1; cases h1
              · rcases mem_head_tail _ _ _ hg.2 h1 with h2 | h2
                · subst h2; exact Or.inl rfl
                · exact Or.inr (Or.inl h2)
              · exact Or.inr (Or.inr (Or.inl h1))
              · exact Or.inr (Or.inr (Or.inr h1))
          · simp at hs
        · split at hs
          · rename_i hg
            injection hs with hs; subst hs
            refine di_updPW s _ h pw P _ hP rfl rfl rfl rfl rfl ?_ ?_ ?_
            · intro hq; exact h.qcl pw P hP hq
            · intro _; exact ⟨hg.2.2, hg.2.1⟩
            · intro x hx
              rw [mem_pipe] at hx ⊢
              rcases hx with h1 | h1 | h1 | h1
              · rw [hg.1] at h1; cases h1
              · exact Or.inr (Or.inl h1)
              · exact Or.inr (Or.inr (Or.inl h1))
              · exact Or.inr (Or.inr (Or.inr h1))
          · simp at hs
  case qclose q =>
    split at hs
    · simp at hs
    · rename_i pw hq0
      split at hs
      · simp at hs
      · rename_i P hP
        split at hs
        · rename_i hg
          injection hs with hs; subst hs
          refine di_updPW s _ h pw P _ hP rfl rfl rfl rfl rfl ?_ ?_ ?_
          · intro _; exact ⟨hg.1, hg.2.2.1, hg.2.2.2⟩
          · intro he; exact ⟨rfl, (h.exi pw P hP he).2⟩
          · intro x hx; exact hx
        · simp at hs
  case timerFire pw b att =>
    split at hs
    · simp at hs
    · rename_i P hP
      split at hs
      · simp at hs
      · rename_i B hB
        split at hs
        · injection hs with hs; subst hs
          exact di_updBatch s _ h b B _ hB rfl rfl rfl rfl rfl rfl (fun hd => hd)
        · simp at hs
  case attempt pw b k =>
    split at hs
    · simp at hs
    · rename_i P hP
      split at hs
      · rename_i hg
        injection hs with hs; subst hs
        refine di_updPW s _ h pw P _ hP rfl rfl rfl rfl rfl ?_ ?_ ?_
        · intro hq; exact h.qcl pw P hP hq
        · intro he; cases he
        · intro x hx
          rw [mem_pipe] at hx ⊢
          rcases hx with h1 | h1 | h1 | h1
          · rw [hg.1] at h1; exact Or.inl h1
          · exact Or.inr (Or.inl h1)
          · exact Or.inr (Or.inr (Or.inl h1))
          · exact Or.inr (Or.inr (Or.inr h1))
      · simp at hs
  case produce pw tp msgs out =>
    simp only [stepProduce] at hs
    split at hs
    · rename_i P hP
      split at hs
      · rename_i b k hsd
        split at hs
        · rename_i B hB
          split at hs
          · injection hs with hs; subst hs
            refine di_updBoth s _ h pw P _ hP b B _ hB rfl rfl rfl rfl rfl rfl (fun hd => hd) ?_ ?_ ?_
            · intro hq; exact h.qcl pw P hP hq
            · intro he; cases he
            · intro x hx
              left
              rw [mem_pipe] at hx ⊢
              rcases hx with h1 | h1 | h1 | h1
              · rw [hsd] at h1; exact Or.inl h1
              · exact Or.inr (Or.inl h1)
              · exact Or.inr (Or.inr (Or.inl h1))
              · exact Or.inr (Or.inr (Or.inr h1))
          · simp at hs
        · simp at hs
      · simp at hs
    · simp at hs
  case attemptDone pw b k code =>
    split at hs
    · simp at hs
    · rename_i P hP
      split at hs
      · rename_i b' k' br hsd
        split at hs
        · rename_i hg
          injection hs with hs; subst hs
          refine di_updPW s _ h pw P _ hP rfl rfl rfl rfl rfl ?_ ?_ ?_
          · intro hq; exact h.qcl pw P hP hq
          · intro he
            have := afterAttempt_batch cfg b k code
            simp only at he; rw [he] at this; cases this
          · intro x hx
            rw [mem_pipe] at hx ⊢
            rcases hx with h1 | h1 | h1 | h1
            · rw [hsd] at h1; left; simp only [afterAttempt_batch]; rw [← hg.1]; exact h1
            · exact Or.inr (Or.inl h1)
            · exact Or.inr (Or.inr (Or.inl h1))
            · exact Or.inr (Or.inr (Or.inr h1))
        · simp at hs
      · simp at hs
  case completion pw b code =>
    split at hs
    · simp at hs
    · rename_i P hP
      split at hs
      · simp at hs
      · rename_i B hB
        split at hs
        · rename_i hg
          injection hs with hs; subst hs
          refine di_updBoth s _ h pw P _ hP b B _ hB rfl rfl rfl rfl rfl rfl (fun hd => hd) ?_ ?_ ?_
          · intro hq; exact h.qcl pw P hP hq
          · intro he; cases he
          · intro x hx
            left
            rw [mem_pipe] at hx ⊢
            rcases hx with h1 | h1 | h1 | h1
            · rw [hg.2] at h1; exact Or.inl h1
            · exact Or.inr (Or.inl h1)
            · exact Or.inr (Or.inr (Or.inl h1))
            · exact Or.inr (Or.inr (Or.inr h1))
        · simp at hs
  case complete pw b code =>
    split at hs
    · simp at hs
    · rename_i P hP
      split at hs
      · simp at hs
      · rename_i B hB
        split at hs
        · rename_i hg
          injection hs with hs; subst hs
          refine di_updBoth s _ h pw P _ hP b B _ hB rfl rfl rfl rfl rfl rfl (fun hd => by cases hd) ?_ ?_ ?_
          · intro hq; exact h.qcl pw P hP hq
          · intro he; cases he
          · intro x hx
            rw [mem_pipe] at hx
            rcases hx with h1 | h1 | h1 | h1
            · rw [hg] at h1; injection h1 with h1
              exact Or.inr ⟨h1.symm, by simp⟩
            · left; rw [mem_pipe]; exact Or.inr (Or.inl h1)
            · left; rw [mem_pipe]; exact Or.inr (Or.inr (Or.inl h1))
            · left; rw [mem_pipe]; exact Or.inr (Or.inr (Or.inr h1))
        · simp at hs


theorem di_reachable (cfg : Cfg) : ∀ s, Reachable cfg s → DI s :=
  invariant_of_step cfg DI di_init (fun s e s' h hs => di_step cfg s s' e h hs)

/-- a partition writer whose sender goroutine has exited holds no batch any more -/
theorem exited_pipe_empty (s : State) (h : DI s) (pw : Nat) (P : PW) (hP : s.pws pw = some P) (he : P.sender = .exited) :
    P.pipe = [] := by
  obtain ⟨hq, hqu⟩ := h.exi pw P hP he
  obtain ⟨-, hc, hp⟩ := h.qcl pw P hP hq
  simp [PW.pipe, he, hqu, hc, hp, Sender.batch?]

/-- when `Close` may return (`closeReturn` is enabled), every batch that was ever created is done -/
theorem all_done_at_closeReturn (cfg : Cfg) (s s' : State) (hr : Reachable cfg s) (hs : step cfg s .closeReturn = some s') :
    ∀ b B, s.batches b = some B → ∃ code, B.done = some code := by
  intro b B hB
  have h := di_reachable cfg s hr
  simp only [step] at hs
  split at hs
  · rename_i hg
    cases hd : B.done with
    | some code => exact ⟨code, rfl⟩
    | none =>
      obtain ⟨P, hP, hb⟩ := h.live b B hB hd
      have hid := h.ids _ P hP
      have hall := List.all_eq_true.mp hg.2.2.2 _ hid
      rw [hP] at hall
      have he : P.sender = .exited := by simpa using hall
      rw [exited_pipe_empty s h _ P hP he] at hb
      cases hb
  · simp at hs

/-! ## calls: the in-flight counter counts exactly the calls that entered or began and have not returned -/

/-- the call has begun and not returned yet -/
def openCall (s : State) (c : Nat) : Bool :=
  match s.calls c with
  | some C => C.phase != .returned
  | none => false

def nOpen (s : State) : Nat := s.callIds.countP (openCall s)

structure CI (s : State) : Prop where
  nodup : s.callIds.Nodup
  ids : ∀ c, c ∈ s.callIds ↔ (s.calls c).isSome = true
  cnt : s.inflight = s.entered + nOpen s

theorem ci_init : CI State.init := by
  constructor <;> simp [State.init, nOpen]

theorem countP_upd (l : List Nat) (hnd : l.Nodup) (f g : Nat → Bool) (c : Nat) (hc : c ∈ l)
    (hfg : ∀ x, x ≠ c → g x = f x) :
    l.countP g + (if f c then 1 else 0) = l.countP f + (if g c then 1 else 0) := by
  induction l with
  | nil => cases hc
  | cons a t ih =>
    rw [List.nodup_cons] at hnd
    by_cases hac : a = c
    · subst hac
      have : t.countP g = t.countP f := by
        apply List.countP_congr
        intro x hx
        have : x ≠ a := by intro he; subst he; exact hnd.1 hx
        rw [hfg x this]
      simp only [List.countP_cons, this]
      cases f a <;> cases g a <;> simp <;> omega
    · have hct : c ∈ t := by
        rcases List.mem_cons.mp hc with h | h
        · exact absurd h.symm hac
        · exact h
      have := ih hnd.2 hct
      simp only [List.countP_cons, hfg a hac]
      omega

theorem ci_frame (s s' : State) (h : CI s) (e1 : s'.calls = s.calls) (e2 : s'.callIds = s.callIds)
    (e3 : s'.entered = s.entered) (e4 : s'.inflight = s.inflight) : CI s' := by
  constructor
  · rw [e2]; exact h.nodup
  · rw [e2, e1]; exact h.ids
  · have : nOpen s' = nOpen s := by
      unfold nOpen; rw [e2]
      apply List.countP_congr; intro x _; simp [openCall, e1]
    rw [e4, e3, this]; exact h.cnt

theorem openCall_upd (s s' : State) (c : Nat) (C' : Call) (e1 : s'.calls = upd s.calls c (some C')) (x : Nat) (hx : x ≠ c) :
    openCall s' x = openCall s x := by
  simp [openCall, e1, upd_other _ _ _ _ hx]

theorem countP_openCall_other (s s' : State) (c : Nat) (C' : Call) (e1 : s'.calls = upd s.calls c (some C'))
    (l : List Nat) (hnin : c ∉ l) : l.countP (openCall s') = l.countP (openCall s) := by
  apply List.countP_congr
  intro x hx
  have : x ≠ c := by intro he; subst he; exact hnin hx
  rw [openCall_upd s s' c C' e1 x this]

/-- call `c` changes its record; `d` = 1 if it thereby returns (and the in-flight counter drops), 0 if it stays open
or stays returned -/
theorem ci_updCall (s s' : State) (h : CI s) (c : Nat) (C C' : Call) (hC : s.calls c = some C)
    (e1 : s'.calls = upd s.calls c (some C')) (e2 : s'.callIds = s.callIds) (e3 : s'.entered = s.entered)
    (hcase : ((C'.phase != .returned) = (C.phase != .returned) ∧ s'.inflight = s.inflight) ∨
             (C.phase ≠ .returned ∧ C'.phase = .returned ∧ s'.inflight = s.inflight - 1)) : CI s' := by
  have hcin : c ∈ s.callIds := (h.ids c).mpr (by simp [hC])
  have hcount := countP_upd s.callIds h.nodup (openCall s) (openCall s') c hcin (openCall_upd s s' c C' e1)
  have ho : openCall s c = (C.phase != .returned) := by simp [openCall, hC]
  have ho' : openCall s' c = (C'.phase != .returned) := by simp [openCall, e1]
  constructor
  · rw [e2]; exact h.nodup
  · intro x; rw [e2, e1]
    by_cases hx : x = c
    · subst hx; simp [hcin]
    · rw [upd_other _ _ _ _ hx]; exact h.ids x
  · have hc := h.cnt
    unfold nOpen at hc ⊢
    rw [e2, e3]
    rcases hcase with ⟨hp, hi⟩ | ⟨hp, hp', hi⟩
    · rw [ho, ho', hp] at hcount
      rw [hi]; omega
    · rw [ho, ho'] at hcount
      have h1 : (C.phase != .returned) = true := by simpa using hp
      have h2 : (C'.phase != .returned) = false := by simp [hp']
      rw [h1, h2] at hcount
      simp at hcount
      rw [hi]; omega


/-- the call records stay; the counters move together -/
theorem ci_counters (s s' : State) (h : CI s) (e1 : s'.calls = s.calls) (e2 : s'.callIds = s.callIds)
    (e34 : ∀ n, s.inflight = s.entered + n → s'.inflight = s'.entered + n) : CI s' := by
  constructor
  · rw [e2]; exact h.nodup
  · rw [e2, e1]; exact h.ids
  · have : nOpen s' = nOpen s := by
      unfold nOpen; rw [e2]
      apply List.countP_congr; intro x _; simp [openCall, e1]
    rw [this]; exact e34 _ h.cnt

theorem ci_step (cfg : Cfg) (s s' : State) (e : Event) (h : CI s) (hs : step cfg s e = some s') : CI s' := by
  cases e <;> simp only [step, stepReject, stepAdd, stepDetach, stepProduce, produced, stepRet] at hs
  case enter ok =>
    split at hs
    · split at hs <;> (injection hs with hs; subst hs)
      · exact ci_counters s _ h rfl rfl (by intro n hn; simp only; omega)
      · exact ci_frame s _ h rfl rfl rfl rfl
    · simp at hs
  case empty =>
    split at hs
    · injection hs with hs; subst hs
      exact ci_counters s _ h rfl rfl (by intro n hn; simp only; omega)
    · simp at hs
  case begin_ c msgs =>
    split at hs
    · rename_i hg
      injection hs with hs; subst hs
      have hnone : s.calls c = none := by simpa using hg.2.1
      have hnin : c ∉ s.callIds := by
        intro hc; have := (h.ids c).mp hc; rw [hnone] at this; cases this
      constructor
      · simp only
        rw [List.nodup_append]
        refine ⟨h.nodup, by simp, ?_⟩
        intro a ha b hb
        simp at hb; subst hb
        intro he; subst he; exact hnin ha
      · intro x
        by_cases hx : x = c
        · subst hx; simp
        · simp only; rw [upd_other _ _ _ _ hx]
          simp only [List.mem_append, List.mem_singleton, hx, or_false]
          exact h.ids x
      · have hc := h.cnt
        unfold nOpen at hc ⊢
        simp only [List.countP_append, List.countP_cons, List.countP_nil]
        rw [countP_openCall_other s _ c _ rfl s.callIds hnin]
        simp [openCall]
        omega
    · simp at hs
  case reject c why i =>
    split at hs
    · simp at hs
    · rename_i C hC
      split at hs <;> split at hs <;> first | (simp at hs; done) | skip
      all_goals (rename_i hg; injection hs with hs; subst hs)
      · refine ci_updCall s _ h c C _ hC rfl rfl rfl (Or.inr ⟨?_, rfl, rfl⟩)
        rw [hg.1]; decide
      · refine ci_updCall s _ h c C _ hC rfl rfl rfl (Or.inr ⟨?_, rfl, rfl⟩)
        rcases hg.1 with h1 | h1 <;> (rw [h1]; try decide)
      · refine ci_updCall s _ h c C _ hC rfl rfl rfl (Or.inr ⟨?_, rfl, rfl⟩)
        rcases hg.1 with h1 | h1 <;> (rw [h1]; try decide)
      · refine ci_updCall s _ h c C _ hC rfl rfl rfl (Or.inl ⟨?_, rfl⟩)
        simp only; rw [hg.2.2.1]; decide
  case assign c i tp =>
    split at hs
    · simp at hs
    · rename_i C hC
      split at hs
      · rename_i hg; injection hs with hs; subst hs
        refine ci_updCall s _ h c C _ hC rfl rfl rfl (Or.inl ⟨?_, rfl⟩)
        simp only
        rcases hg.1 with h1 | h1 <;> (rw [h1]; try decide)
      · simp at hs
  case batch c =>
    split at hs
    · simp at hs
    · rename_i C hC
      split at hs
      · rename_i hg; injection hs with hs; subst hs
        refine ci_updCall s _ h c C _ hC rfl rfl rfl (Or.inl ⟨?_, rfl⟩)
        simp only; rw [hg.2.2.1]; decide
      · simp at hs
  case batched c =>
    split at hs
    · simp at hs
    · rename_i C hC
      split at hs
      · rename_i hg; injection hs with hs; subst hs
        refine ci_updCall s _ h c C _ hC rfl rfl rfl (Or.inl ⟨?_, rfl⟩)
        simp only; rw [hg.2.1]; decide
      · simp at hs
  case add pw b c i size =>
    split at hs
    · simp at hs
    · split at hs
      · simp at hs
      · split at hs
        · simp at hs
        · rename_i C hC
          split at hs
          · injection hs with hs; subst hs
            exact ci_updCall s _ h c C _ hC rfl rfl rfl (Or.inl ⟨rfl, rfl⟩)
          · simp at hs
  case ret c r =>
    split at hs
    · simp at hs
    · rename_i C hC
      split at hs <;> first | (simp at hs; done) | (split at hs <;> first | (simp at hs; done) | skip)
      all_goals (rename_i hg; injection hs with hs; subst hs)
      all_goals refine ci_updCall s _ h c C _ hC rfl rfl rfl (Or.inr ⟨?_, rfl, rfl⟩)
      · rw [hg]; decide
      · rw [hg.2]; decide
      · rw [hg.2]; decide
      · rw [hg.2.1]; decide
      · rw [hg.2.1]; decide
  all_goals
    ((repeat' split at hs) <;>
      first
      | (simp at hs; done)
      | (injection hs with hs; subst hs; exact ci_frame s _ h rfl rfl rfl rfl))

theorem ci_reachable (cfg : Cfg) : ∀ s, Reachable cfg s → CI s :=
  invariant_of_step cfg CI ci_init (fun s e s' h hs => ci_step cfg s s' e h hs)

/-- when `Close` may return, every WriteMessages call that ever began has returned -/
theorem all_returned_at_closeReturn (cfg : Cfg) (s s' : State) (hr : Reachable cfg s)
    (hs : step cfg s .closeReturn = some s') : ∀ c C, s.calls c = some C → C.phase = .returned := by
  intro c C hC
  have h := ci_reachable cfg s hr
  simp only [step] at hs
  split at hs
  · rename_i hg
    have hc := h.cnt
    rw [hg.2.1, hg.2.2.1] at hc
    have h0 : nOpen s = 0 := by omega
    have hcin : c ∈ s.callIds := (h.ids c).mpr (by simp [hC])
    unfold nOpen at h0
    rw [List.countP_eq_zero] at h0
    have := h0 c hcin
    simpa [openCall, hC] using this
  · simp at hs

/-! ## accepted calls: once a call got through `batchMessages` all its messages are placed in batches -/

/-- results of a call whose messages were all handed to batches -/
def resAccepted : Result → Bool
  | .ok => true
  | .async => true
  | .ctx => true
  | .werr _ => true
  | .closed => false
  | .rejected _ _ => false

/-- the call got through `batchMessages`: all its messages were put into batches -/
def accepted (C : Call) : Bool :=
  C.phase == .batched || (C.phase == .returned && (match C.result with | some r => resAccepted r | none => false))

def AI (s : State) : Prop := ∀ c C, s.calls c = some C → accepted C = true → C.placedAll = true

theorem ai_init : AI State.init := by
  intro c C hC; simp [State.init] at hC

theorem ai_frame (s s' : State) (h : AI s) (e1 : s'.calls = s.calls) : AI s' := by
  intro c C hC; rw [e1] at hC; exact h c C hC

theorem ai_updCall (s s' : State) (h : AI s) (c : Nat) (C' : Call) (e1 : s'.calls = upd s.calls c (some C'))
    (hnew : accepted C' = true → C'.placedAll = true) : AI s' := by
  intro x X hX
  rw [e1] at hX
  by_cases hx : x = c
  · subst hx; simp at hX; subst hX; exact hnew
  · rw [upd_other _ _ _ _ hx] at hX; exact h x X hX

theorem ai_step (cfg : Cfg) (s s' : State) (e : Event) (h : AI s) (hs : step cfg s e = some s') : AI s' := by
  cases e <;> simp only [step, stepReject, stepAdd, stepDetach, stepProduce, produced, stepRet] at hs
  case begin_ c msgs =>
    split at hs
    · injection hs with hs; subst hs
      exact ai_updCall s _ h c _ rfl (by simp [accepted])
    · simp at hs
  case reject c why i =>
    split at hs
    · simp at hs
    · rename_i C hC
      split at hs <;> split at hs <;> first | (simp at hs; done) | skip
      all_goals (rename_i hg; injection hs with hs; subst hs)
      all_goals exact ai_updCall s _ h c _ rfl (by simp [accepted, resAccepted])
  case assign c i tp =>
    split at hs
    · simp at hs
    · rename_i C hC
      split at hs
      · injection hs with hs; subst hs
        exact ai_updCall s _ h c _ rfl (by simp [accepted])
      · simp at hs
  case batch c =>
    split at hs
    · simp at hs
    · rename_i C hC
      split at hs
      · injection hs with hs; subst hs
        exact ai_updCall s _ h c _ rfl (by simp [accepted])
      · simp at hs
  case batched c =>
    split at hs
    · simp at hs
    · rename_i C hC
      split at hs
      · rename_i hg; injection hs with hs; subst hs
        exact ai_updCall s _ h c _ rfl (fun _ => hg.2.2.1)
      · simp at hs
  case add pw b c i size =>
    split at hs
    · simp at hs
    · split at hs
      · simp at hs
      · split at hs
        · simp at hs
        · rename_i C hC
          split at hs
          · rename_i hg; injection hs with hs; subst hs
            exact ai_updCall s _ h c _ rfl (by simp [accepted, hg.2.2.2.2.2.2.2.2.1])
          · simp at hs
  case ret c r =>
    split at hs
    · simp at hs
    · rename_i C hC
      split at hs <;> first | (simp at hs; done) | (split at hs <;> first | (simp at hs; done) | skip)
      all_goals (rename_i hg; injection hs with hs; subst hs)
      · exact ai_updCall s _ h c _ rfl (by simp [accepted, resAccepted])
      · exact ai_updCall s _ h c _ rfl (fun _ => h c C hC (by simp [accepted, hg.2]))
      · exact ai_updCall s _ h c _ rfl (fun _ => h c C hC (by simp [accepted, hg.2]))
      · exact ai_updCall s _ h c _ rfl (fun _ => h c C hC (by simp [accepted, hg.2.1]))
      · exact ai_updCall s _ h c _ rfl (fun _ => h c C hC (by simp [accepted, hg.2.1]))
  all_goals
    ((repeat' split at hs) <;>
      first
      | (simp at hs; done)
      | (injection hs with hs; subst hs; exact ai_frame s _ h rfl))

theorem ai_reachable (cfg : Cfg) : ∀ s, Reachable cfg s → AI s :=
  invariant_of_step cfg AI ai_init (fun s e s' h hs => ai_step cfg s s' e h hs)

/-- **Close on the detailed Writer model.**  When `Close` may return: every call has returned; every batch is done
and, with a Completion callback configured, the callback ran exactly once for it with the batch's final code; and
every message of every call that got through `batchMessages` (results ok / async / ctx / write errors) sits in such a
batch. -/
theorem close_return_complete (cfg : Cfg) (s s' : State) (hr : Reachable cfg s)
    (hs : step cfg s .closeReturn = some s') :
    (∀ c C, s.calls c = some C → C.phase = .returned) ∧
    (∀ b B, s.batches b = some B → ∃ code, B.done = some code ∧
       (cfg.completion = true → B.ncompl = 1 ∧ B.cbCode = some code) ∧ (cfg.completion = false → B.ncompl = 0)) ∧
    (∀ c C, s.calls c = some C → accepted C = true → ∀ i, i < C.msgs.length →
       ∃ b B code, C.place i = some b ∧ s.batches b = some B ∧ (∃ m ∈ B.msgs, m.msg = (c, i)) ∧ B.done = some code) := by
  have hdone := all_done_at_closeReturn cfg s s' hr hs
  refine ⟨all_returned_at_closeReturn cfg s s' hr hs, ?_, ?_⟩
  · intro b B hB
    obtain ⟨code, hc⟩ := hdone b B hB
    exact ⟨code, hc, (invCompl cfg s hr).complDone b B code hB hc⟩
  · intro c C hC hacc i hi
    have hpl := ai_reachable cfg s hr c C hC hacc
    simp only [Call.placedAll, List.all_eq_true, List.mem_range] at hpl
    have := hpl i hi
    cases hp : C.place i with
    | none => rw [hp] at this; cases this
    | some b =>
      obtain ⟨B, hB, hm, -⟩ := (invPlace cfg s hr).placed c C hC i b hp
      obtain ⟨code, hc⟩ := hdone b B hB
      exact ⟨b, B, code, rfl, hB, hm, hc⟩

end KV.WriterCloseDetail
