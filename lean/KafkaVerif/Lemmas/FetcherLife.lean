/-
Lemmas/FetcherLife.lean — termination of a partition fetcher after cancellation (Model/FetcherLife.lean).
-/
import KafkaVerif.Model.FetcherLife

namespace KV.FetcherLife

/-- once the fetcher's context is done (`Reader.Close`, a newer `start`,
unsubscribe) every control step strictly decreases `rank`: the fetcher returns after at most 10 further control steps
(the hand-overs `msg`/`sendErr` of the fetch response being processed do not change the control state). -/
theorem terminates_after_cancel (s s' : FetcherLife.State) (e : FetcherLife.Event) (hc : s.cancelled = true)
    (he : e.control = true) (h : FetcherLife.step s e = some s') :
    FetcherLife.rank s' < FetcherLife.rank s ∧ s'.cancelled = true := by
  obtain ⟨pc, co, ca, sa⟩ := s
  simp only at hc; subst hc
  cases e <;> simp only [Event.control] at he <;> try contradiction
  case top a =>
    simp only [FetcherLife.step] at h
    split at h
    · injection h with h; subst h
      rename_i hg
      rcases hg with ⟨h1, h2⟩ | ⟨h1, h2⟩
      · subst h1 h2; simp [FetcherLife.rank]
      · have : decide (0 < a) = true := by simp [h2]
        rcases h1 with h1 | h1 | h1 <;> (subst h1; simp [FetcherLife.rank, this])
    · simp at h
  case cancel =>
    simp only [FetcherLife.step] at h
    split at h
    · injection h with h; subst h
      rename_i hg
      rcases hg with h1 | h1 <;> (subst h1; cases sa <;> simp [FetcherLife.rank])
    · simp at h
  case init ok =>
    simp only [FetcherLife.step] at h
    split at h
    · injection h with h; subst h
      rename_i hg
      obtain ⟨h1, h2⟩ := hg
      subst h1; subst h2
      cases ok <;> simp [FetcherLife.rank]
    · simp at h
  case iter =>
    simp only [FetcherLife.step] at h
    split at h
    · injection h with h; subst h
      rename_i hg
      rcases hg with h1 | h1 <;> (subst h1; simp [FetcherLife.rank])
    · simp at h
  case read c =>
    simp only [FetcherLife.step] at h
    split at h
    · injection h with h; subst h
      rename_i hg
      obtain ⟨h1, h2⟩ := hg
      subst h1; subst h2
      cases c <;> simp [FetcherLife.rank]
    · simp at h
  case offsets ok =>
    simp only [FetcherLife.step] at h
    split at h
    · injection h with h; subst h
      rename_i hg
      subst hg
      cases ok <;> simp [FetcherLife.rank]
    · simp at h

/-- … and it is never blocked: while not exited a control step is enabled (the dial fails or succeeds, the read
returns — every network call returns — or the pending `sleep` sees the context done) -/
theorem progress_after_cancel (s : FetcherLife.State) (hc : s.cancelled = true) (hx : s.pc ≠ .exited) :
    ∃ e, e.control = true ∧ (FetcherLife.step s e).isSome := by
  obtain ⟨pc, co, ca, sa⟩ := s
  simp only at hc hx; subst hc
  cases pc
  case exited => exact absurd rfl hx
  case idle0 => exact ⟨.top 0, rfl, by simp [FetcherLife.step]⟩
  case top => exact ⟨.cancel, rfl, by simp [FetcherLife.step]⟩
  case retry => exact ⟨.top 1, rfl, by simp [FetcherLife.step]⟩
  case broke => exact ⟨.top 1, rfl, by simp [FetcherLife.step]⟩
  case inLoop => exact ⟨.iter, rfl, by simp [FetcherLife.step]⟩
  case iterating => exact ⟨.cancel, rfl, by simp [FetcherLife.step]⟩
  case oor => exact ⟨.offsets false, rfl, by simp [FetcherLife.step]⟩
  case afterOffsets => exact ⟨.iter, rfl, by simp [FetcherLife.step]⟩


end KV.FetcherLife
