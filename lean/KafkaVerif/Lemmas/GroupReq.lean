/-
Lemmas/GroupReq.lean — the group requests the legacy Conn writes (C04 regenerates their `writeTo` into Gen/Legacy.lean)
are the Kafka layouts of Spec/GroupWire.lean `Req.*`: field order BY NAME, not only by type.
-/
import KafkaVerif.Spec.GroupWire
import KafkaVerif.Gen.Legacy
namespace KV.GroupReq
open KV KV.Legacy KV.Gen.Legacy KV.Spec.GroupWire

theorem leave_layout (t : leaveGroupRequestV0) : leaveGroupRequestV0.writeTo t = Req.leaveGroup t.GroupID t.MemberID := by
  simp [leaveGroupRequestV0.writeTo, Req.leaveGroup, Req.wstr, writeString, i16]

theorem heartbeat_layout (t : heartbeatRequestV0) :
    heartbeatRequestV0.writeTo t = Req.heartbeat t.GroupID t.GenerationID t.MemberID := by
  simp [heartbeatRequestV0.writeTo, Req.heartbeat, Req.wstr, writeString, writeInt32, i16, i32]

theorem findCoordinator_layout (t : findCoordinatorRequestV0) :
    findCoordinatorRequestV0.writeTo t = Req.findCoordinator t.CoordinatorKey := by
  simp [findCoordinatorRequestV0.writeTo, Req.findCoordinator, Req.wstr, writeString, i16]

theorem join_layout (t : joinGroupRequest) :
    joinGroupRequest.writeTo t = Req.joinGroup t.GroupID t.SessionTimeout t.RebalanceTimeout t.MemberID t.ProtocolType
      (t.GroupProtocols.map fun p => (p.ProtocolName, p.ProtocolMetadata)) := by
  simp [joinGroupRequest.writeTo, joinGroupRequestGroupProtocolV1.writeTo, Req.joinGroup, Req.wstr, Req.wbytes, arr,
    writeString, writeBytes, writeInt32, writeArray, writeArrayLen, writeEach, i16, i32, List.map_map, Function.comp_def]

theorem sync_layout (t : syncGroupRequestV0) :
    syncGroupRequestV0.writeTo t = Req.syncGroup t.GroupID t.GenerationID t.MemberID
      (t.GroupAssignments.map fun a => (a.MemberID, a.MemberAssignments)) := by
  simp [syncGroupRequestV0.writeTo, syncGroupRequestGroupAssignmentV0.writeTo, Req.syncGroup, Req.wstr, Req.wbytes, arr,
    writeString, writeBytes, writeInt32, writeArray, writeArrayLen, writeEach, i16, i32, List.map_map, Function.comp_def]

theorem offsetCommit_layout (t : offsetCommitRequestV2) :
    offsetCommitRequestV2.writeTo t = Req.offsetCommit t.GroupID t.GenerationID t.MemberID t.RetentionTime
      (t.Topics.map fun x => (x.Topic, x.Partitions.map fun p => (p.Partition, p.Offset, p.Metadata))) := by
  simp [offsetCommitRequestV2.writeTo, offsetCommitRequestV2Topic.writeTo, offsetCommitRequestV2Partition.writeTo,
    Req.offsetCommit, Req.wstr, arr, writeString, writeInt32, writeInt64, writeArray, writeArrayLen, writeEach, i16, i32, i64,
    List.map_map, Function.comp_def]

theorem offsetFetch_layout (t : offsetFetchRequestV1) :
    offsetFetchRequestV1.writeTo t = Req.offsetFetch t.GroupID (t.Topics.map fun x => (x.Topic, x.Partitions)) := by
  simp [offsetFetchRequestV1.writeTo, offsetFetchRequestV1Topic.writeTo, Req.offsetFetch, Req.wstr, arr, writeString,
    writeInt32Array, writeArray, writeArrayLen, writeEach, i16, i32, List.map_map, Function.comp_def]
  rfl

end KV.GroupReq
