/-
Lemmas/XerialReader.lean — the xerial READER model returns exactly the decoded blocks, for any Read buffer sizes.
`Rep r pend bs`: reader `r` still owes the consumer `pend` (decoded, buffered in `output`) followed by the
blocks `bs` (still compressed in the underlying stream).
-/
import KafkaVerif.Model.Xerial

namespace KV.Model.Xerial
open KV KV.RW KV.Spec.Xerial

structure Good (c : Codec) : Prop where
  dec_enc : ∀ b, c.dec (c.enc b) = some b
  len_enc : ∀ b, c.decodedLen (c.enc b) = some b.length

inductive Rep (c : Codec) : Reader → Bytes → List Bytes → Prop where
  | startFramed (r : Reader) (bs : List Bytes) : r.nbytes = 0 → r.rest = frame (bs.map c.enc) →
      r.output.drop r.offset = [] → Rep c r [] bs
  | framed (r : Reader) (pend : Bytes) (bs : List Bytes) : r.nbytes ≠ 0 → r.header.take 8 = magic →
      r.rest = frameBlocks (bs.map c.enc) → r.output.drop r.offset = pend → Rep c r pend bs
  | startUnframed (r : Reader) (p : Bytes) : r.nbytes = 0 → r.rest = c.enc p → c.enc p ≠ [] →
      (∀ t, (c.enc p ++ t).take 8 ≠ magic) → r.output.drop r.offset = [] → Rep c r [] [p]
  | doneUnframed (r : Reader) (pend : Bytes) : r.nbytes ≠ 0 → r.header.take 8 ≠ magic → r.rest = [] →
      r.output.drop r.offset = pend → Rep c r pend []

theorem header_take8 (t : Bytes) : (header ++ t).take 8 = magic := by
  show (magic ++ [0, 0, 0, 1, 0, 0, 0, 1] ++ t).take 8 = magic
  rw [List.append_assoc]; exact List.take_left' (by decide)

theorem decodeInto_enc (c : Codec) (hg : Good c) (r : Reader) (b : Bytes) (k : Nat) :
    decodeInto c r (c.enc b) k =
      if b.length ≤ k then (r, .direct b) else ({ r with output := b }, .buffered) := by
  simp [decodeInto, hg.dec_enc, hg.len_enc]

def clearOut (r : Reader) : Reader := { r with output := [], offset := 0 }

/-- the reader after `headerPhase` consumed the prefix `h` (and `rest'` is left) -/
def afterHeader (r : Reader) (h rest' : Bytes) : Reader :=
  { rest := rest', header := h ++ r.header.drop h.length, nbytes := h.length, output := [], offset := 0 }

theorem headerPhase_first (r : Reader) (hn : r.nbytes = 0) (hne : r.rest.take 16 ≠ []) :
    headerPhase (clearOut r) = some (afterHeader r (r.rest.take 16) (r.rest.drop 16), (r.rest.take 16).length) := by
  simp only [headerPhase, clearOut, hn, if_true, hne, if_false, afterHeader]

theorem headerPhase_later (r : Reader) (hn : r.nbytes ≠ 0) : headerPhase (clearOut r) = some (clearOut r, 0) := by
  simp only [headerPhase, clearOut, hn, if_false]

theorem readChunk_eq (c : Codec) (r : Reader) (k : Nat) :
    readChunk c r k = match headerPhase (clearOut r) with
      | none => (clearOut r, .eof)
      | some (r', pre) => if r'.header.take 8 = magic then framedBody c r' k else unframedBody c r' pre k := rfl

/-- the framed body on a stream positioned at a block boundary -/
theorem framedBody_cons (c : Codec) (hg : Good c) (r : Reader) (b : Bytes) (bs : List Bytes) (k : Nat)
    (hr : r.rest = frameBlocks ((b :: bs).map c.enc)) (hs : (c.enc b).length < 256 ^ 4) :
    framedBody c r k =
      if b.length ≤ k then
        ({ r with rest := frameBlocks (bs.map c.enc), nbytes := r.nbytes + 4 + (c.enc b).length }, .direct b)
      else
        ({ r with rest := frameBlocks (bs.map c.enc), nbytes := r.nbytes + 4 + (c.enc b).length, output := b }, .buffered) := by
  have h4 : (beN 4 (c.enc b).length).length = 4 := beN_length _ _
  have ht : r.rest.take 4 = beN 4 (c.enc b).length := by
    rw [hr]; simp only [List.map_cons, frameBlocks]
    exact List.take_left' h4
  have hd : r.rest.drop 4 = c.enc b ++ frameBlocks (bs.map c.enc) := by
    rw [hr]; simp only [List.map_cons, frameBlocks]
    exact List.drop_left' h4
  have hne : beN 4 (c.enc b).length ≠ [] := by
    intro h; have := congrArg List.length h; simp at this
  have hdn : deN (beN 4 (c.enc b).length) = (c.enc b).length := by
    rw [deN_beN, Nat.mod_eq_of_lt hs]
  have hd2 : r.rest.drop (4 + (c.enc b).length) = frameBlocks (bs.map c.enc) := by
    rw [← List.drop_drop, hd]; exact List.drop_left' rfl
  have htk : (c.enc b ++ frameBlocks (bs.map c.enc)).take (c.enc b).length = c.enc b := List.take_left' rfl
  simp only [framedBody, ht, hne, if_false, h4, Nat.lt_irrefl, hdn, hd, htk, hd2]
  rw [decodeInto_enc c hg]

theorem framedBody_nil (c : Codec) (r : Reader) (k : Nat) (hr : r.rest = []) :
    framedBody c r k = (r, .eof) := by
  simp [framedBody, hr]

/-- result of `readChunk` on a represented state with nothing pending -/
theorem readChunk_rep (c : Codec) (hg : Good c) (r : Reader) (bs : List Bytes) (k : Nat)
    (hrep : Rep c r [] bs) (hsm : ∀ b ∈ bs, (c.enc b).length < 256 ^ 4) :
    (bs = [] ∧ (readChunk c r k).2 = .eof) ∨
    (∃ b bs', bs = b :: bs' ∧
      ((b.length ≤ k ∧ (readChunk c r k).2 = .direct b ∧ Rep c (readChunk c r k).1 [] bs') ∨
       (k < b.length ∧ (readChunk c r k).2 = .buffered ∧ Rep c (readChunk c r k).1 b bs' ∧
          (readChunk c r k).1.offset = 0 ∧ (readChunk c r k).1.output = b))) := by
  rw [readChunk_eq]
  cases hrep with
  | startFramed =>
    have hn : r.nbytes = 0 := by assumption
    have hr : r.rest = frame (bs.map c.enc) := by assumption
    have h16 : header.length = 16 := by decide
    have htake : r.rest.take 16 = header := by rw [hr, frame]; exact List.take_left' h16
    have hdrop : r.rest.drop 16 = frameBlocks (bs.map c.enc) := by rw [hr, frame]; exact List.drop_left' h16
    have hhne : r.rest.take 16 ≠ [] := by rw [htake]; decide
    rw [headerPhase_first r hn hhne, htake, hdrop]
    have hm : (afterHeader r header (frameBlocks (bs.map c.enc))).header.take 8 = magic := header_take8 _
    simp only [hm, if_true]
    cases bs with
    | nil =>
      left
      exact ⟨rfl, by rw [framedBody_nil c _ k (by simp [afterHeader, frameBlocks])]⟩
    | cons b bs' =>
      right
      refine ⟨b, bs', rfl, ?_⟩
      rw [framedBody_cons c hg _ b bs' k rfl (hsm b (by simp))]
      by_cases hk : b.length ≤ k
      · left
        rw [if_pos hk]
        exact ⟨hk, rfl, Rep.framed _ _ _ (by simp [afterHeader, h16]) hm rfl (by simp [afterHeader])⟩
      · right
        rw [if_neg hk]
        exact ⟨by omega, rfl, Rep.framed _ _ _ (by simp [afterHeader, h16]) hm rfl (by simp [afterHeader]), rfl, rfl⟩
  | framed =>
    have hn : r.nbytes ≠ 0 := by assumption
    have hm : r.header.take 8 = magic := by assumption
    have hr : r.rest = frameBlocks (bs.map c.enc) := by assumption
    rw [headerPhase_later r hn]
    have hm' : (clearOut r).header.take 8 = magic := hm
    simp only [hm', if_true]
    cases bs with
    | nil =>
      left
      exact ⟨rfl, by rw [framedBody_nil c _ k (by simp [clearOut, hr, frameBlocks])]⟩
    | cons b bs' =>
      right
      refine ⟨b, bs', rfl, ?_⟩
      rw [framedBody_cons c hg (clearOut r) b bs' k hr (hsm b (by simp))]
      by_cases hk : b.length ≤ k
      · left
        rw [if_pos hk]
        exact ⟨hk, rfl, Rep.framed _ _ _ (by simp [clearOut]) hm rfl (by simp [clearOut])⟩
      · right
        rw [if_neg hk]
        exact ⟨by omega, rfl, Rep.framed _ _ _ (by simp [clearOut]) hm rfl (by simp [clearOut]), rfl, rfl⟩
  | startUnframed p =>
    have hn : r.nbytes = 0 := by assumption
    have hr : r.rest = c.enc p := by assumption
    have hne : c.enc p ≠ [] := by assumption
    have hmag : ∀ t, (c.enc p ++ t).take 8 ≠ magic := by assumption
    right
    refine ⟨p, [], rfl, ?_⟩
    have hpos : 0 < (c.enc p).length := List.length_pos_iff.mpr hne
    have hhne : r.rest.take 16 ≠ [] := by
      rw [hr]; intro h
      have := congrArg List.length h
      simp only [List.length_take, List.length_nil] at this
      omega
    rw [headerPhase_first r hn hhne]
    have hnot : (afterHeader r (r.rest.take 16) (r.rest.drop 16)).header.take 8 ≠ magic := by
      simp only [afterHeader]
      rw [hr]
      by_cases hl : 16 ≤ (c.enc p).length
      · have := hmag []
        simp only [List.append_nil] at this
        intro h; apply this
        rw [← h, List.take_append_of_le_length (by simp; omega), List.take_take]; simp
      · have ht : (c.enc p).take 16 = c.enc p := List.take_of_length_le (by omega)
        rw [ht]; exact hmag _
    have hinput : (afterHeader r (r.rest.take 16) (r.rest.drop 16)).header.take (r.rest.take 16).length
        ++ (afterHeader r (r.rest.take 16) (r.rest.drop 16)).rest = c.enc p := by
      simp only [afterHeader]
      rw [List.take_left' rfl, hr]; exact List.take_append_drop 16 _
    have hnz : (r.rest.take 16).length ≠ 0 := by
      intro h; exact hhne (List.eq_nil_of_length_eq_zero h)
    simp only [hnot, if_false, unframedBody, hinput, hne]
    rw [decodeInto_enc c hg]
    by_cases hk : p.length ≤ k
    · left
      rw [if_pos hk]
      exact ⟨hk, rfl, Rep.doneUnframed _ _ (by simp only [afterHeader]; omega) hnot rfl (by simp [afterHeader])⟩
    · right
      rw [if_neg hk]
      exact ⟨by omega, rfl, Rep.doneUnframed _ _ (by simp only [afterHeader]; omega) hnot rfl (by simp [afterHeader]), rfl, rfl⟩
  | doneUnframed =>
    have hn : r.nbytes ≠ 0 := by assumption
    have hm : r.header.take 8 ≠ magic := by assumption
    have hr : r.rest = [] := by assumption
    left
    refine ⟨rfl, ?_⟩
    rw [headerPhase_later r hn]
    have hm' : ¬ (clearOut r).header.take 8 = magic := hm
    simp [hm, unframedBody, clearOut, hr]


theorem Rep.pend_eq {c : Codec} {r : Reader} {pend : Bytes} {bs : List Bytes} (h : Rep c r pend bs) :
    r.output.drop r.offset = pend := by
  cases h <;> assumption

theorem Rep.set_offset {c : Codec} {r : Reader} {pend : Bytes} {bs : List Bytes} (h : Rep c r pend bs)
    (hp : pend ≠ []) (o : Nat) : Rep c { r with offset := o } (r.output.drop o) bs := by
  cases h with
  | startFramed => exact absurd rfl hp
  | startUnframed => exact absurd rfl hp
  | framed =>
    exact Rep.framed _ _ _ (by assumption) (by assumption) (by assumption) rfl
  | doneUnframed =>
    exact Rep.doneUnframed _ _ (by assumption) (by assumption) (by assumption) rfl

theorem drop_take_length (l : Bytes) (k : Nat) : l.drop (l.take k).length = l.drop k := by
  rw [List.length_take]
  by_cases h : k ≤ l.length
  · rw [Nat.min_eq_left h]
  · rw [Nat.min_eq_right (by omega), List.drop_of_length_le (Nat.le_refl _), List.drop_of_length_le (by omega)]

/-- serving from the buffered output -/
theorem read_buffered (c : Codec) (fuel : Nat) (r : Reader) (pend : Bytes) (bs : List Bytes) (k : Nat) (hk : 1 ≤ k)
    (hrep : Rep c r pend bs) (hp : pend ≠ []) :
    (read c (fuel + 1) r k).2 = .data (pend.take k) ∧ Rep c (read c (fuel + 1) r k).1 (pend.drop k) bs ∧ pend.take k ≠ [] := by
  have hpe := hrep.pend_eq
  have hlt : r.offset < r.output.length := by
    cases Nat.lt_or_ge r.offset r.output.length with
    | inl h => exact h
    | inr h => rw [List.drop_of_length_le h] at hpe; exact absurd hpe.symm hp
  simp only [read, hlt, if_true, hpe]
  refine ⟨trivial, ?_, ?_⟩
  · have := hrep.set_offset hp (r.offset + (pend.take k).length)
    rw [← List.drop_drop, hpe, drop_take_length] at this
    exact this
  · cases pend with
    | nil => exact absurd rfl hp
    | cons x xs =>
      cases k with
      | zero => omega
      | succ k => simp

theorem read_rep (c : Codec) (hg : Good c) (fuel : Nat) (hf : 2 ≤ fuel) (r : Reader) (pend : Bytes) (bs : List Bytes)
    (k : Nat) (hk : 1 ≤ k) (hne : ∀ b ∈ bs, b ≠ [] ∧ (c.enc b).length < 256 ^ 4) (hrep : Rep c r pend bs) :
    (pend = [] ∧ bs = [] ∧ (read c fuel r k).2 = .eof) ∨
    (∃ d pend' bs', d ≠ [] ∧ (read c fuel r k).2 = .data d ∧ Rep c (read c fuel r k).1 pend' bs' ∧
      pend ++ bs.flatten = d ++ (pend' ++ bs'.flatten) ∧ (∀ b ∈ bs', b ≠ [] ∧ (c.enc b).length < 256 ^ 4)) := by
  obtain ⟨f1, rfl⟩ : ∃ f1, fuel = f1 + 1 := ⟨fuel - 1, by omega⟩
  by_cases hp : pend = []
  · subst hp
    have hpe := hrep.pend_eq
    have hnlt : ¬ r.offset < r.output.length := by
      intro h
      have : (r.output.drop r.offset).length = r.output.length - r.offset := List.length_drop
      rw [hpe] at this; simp at this; omega
    have hrc := readChunk_rep c hg r bs k hrep (fun b hb => (hne b hb).2)
    cases hch : readChunk c r k with
    | mk r' ch =>
      rw [hch] at hrc
      simp only at hrc
      rcases hrc with ⟨hb, he⟩ | ⟨b, bs', hb, hcase⟩
      · left
        subst he
        refine ⟨rfl, hb, ?_⟩
        simp only [read, hnlt, if_false, hch]
      · right
        have hbne : b ≠ [] := (hne b (by simp [hb])).1
        have hne' : ∀ x ∈ bs', x ≠ [] ∧ (c.enc x).length < 256 ^ 4 := fun x hx => hne x (by simp [hb, hx])
        rcases hcase with ⟨_, he, hr'⟩ | ⟨_, he, hr', ho, hout⟩
        · subst he
          have hpos : b.length > 0 := List.length_pos_iff.mpr hbne
          refine ⟨b, [], bs', hbne, ?_, ?_, by simp [hb], hne'⟩
          · simp only [read, hnlt, if_false, hch, hpos, if_true]
          · simp only [read, hnlt, if_false, hch, hpos, if_true]; exact hr'
        · subst he
          obtain ⟨f2, rfl⟩ : ∃ f2, f1 = f2 + 1 := ⟨f1 - 1, by omega⟩
          have hb2 := read_buffered c f2 r' b bs' k hk hr' hbne
          refine ⟨b.take k, b.drop k, bs', hb2.2.2, ?_, ?_, ?_, hne'⟩
          · simp only [read, hnlt, if_false, hch]; exact hb2.1
          · simp only [read, hnlt, if_false, hch]; exact hb2.2.1
          · rw [hb]; simp only [List.nil_append, List.flatten_cons]; rw [← List.append_assoc, List.take_append_drop]
  · right
    have hb := read_buffered c f1 r pend bs k hk hrep hp
    exact ⟨pend.take k, pend.drop k, bs, hb.2.2, hb.1, hb.2.1, by rw [← List.append_assoc, List.take_append_drop], hne⟩

/-- any consumer: whatever buffer sizes (≥ 1) it passes to `Read`, as long as it keeps reading until EOF, it
receives exactly what is pending followed by the decoded blocks -/
theorem readAllWith_rep (c : Codec) (hg : Good c) (ks : List Nat) (r : Reader) (pend : Bytes) (bs : List Bytes)
    (hks : ∀ k ∈ ks, 1 ≤ k) (hlen : (pend ++ bs.flatten).length < ks.length)
    (hne : ∀ b ∈ bs, b ≠ [] ∧ (c.enc b).length < 256 ^ 4)
    (hrep : Rep c r pend bs) : readAllWith c r ks = some (pend ++ bs.flatten) := by
  induction ks generalizing r pend bs with
  | nil => simp at hlen
  | cons k ks ih =>
    have hk : 1 ≤ k := hks k (by simp)
    have hr := read_rep c hg (r.rest.length + 2) (by omega) r pend bs k hk hne hrep
    simp only [readAllWith]
    cases hrd : read c (r.rest.length + 2) r k with
    | mk r' res =>
      rw [hrd] at hr
      simp only at hr
      rcases hr with ⟨hp, hb, he⟩ | ⟨d, pend', bs', hd, he, hrep', htot, hne'⟩
      · subst he; subst hp; subst hb; simp
      · subst he
        have hdl : 0 < d.length := List.length_pos_iff.mpr hd
        have hl' : (pend' ++ bs'.flatten).length < ks.length := by
          have := congrArg List.length htot
          simp only [List.length_append, List.length_cons] at this hlen ⊢
          omega
        have := ih r' pend' bs' (fun k hk => hks k (by simp [hk])) hl' hne' hrep'
        simp only [this, Option.map_some, htot]


/-- a represented state stays represented when the pending output is marked as consumed -/
theorem Rep.consume {c : Codec} {r : Reader} {pend : Bytes} {bs : List Bytes} (h : Rep c r pend bs) :
    Rep c { r with offset := r.output.length } [] bs := by
  cases h with
  | startFramed => exact Rep.startFramed _ _ (by assumption) (by assumption) (by simp)
  | startUnframed => exact Rep.startUnframed _ _ (by assumption) (by assumption) (by assumption) (by assumption) (by simp)
  | framed => exact Rep.framed _ _ _ (by assumption) (by assumption) (by assumption) (by simp)
  | doneUnframed => exact Rep.doneUnframed _ _ (by assumption) (by assumption) (by assumption) (by simp)

/-- `WriteTo`: everything pending and every remaining block, empty blocks included -/
theorem writeTo_rep (c : Codec) (hg : Good c) (bs : List Bytes) (fuel : Nat) (r : Reader) (pend : Bytes)
    (hf : bs.length < fuel) (hsm : ∀ b ∈ bs, (c.enc b).length < 256 ^ 4) (hrep : Rep c r pend bs) :
    writeTo c fuel r = some (pend ++ bs.flatten) := by
  induction bs generalizing fuel r pend with
  | nil =>
    obtain ⟨f1, rfl⟩ : ∃ f1, fuel = f1 + 1 := ⟨fuel - 1, by omega⟩
    have hpe := hrep.pend_eq
    have hrc := readChunk_rep c hg _ [] 0 hrep.consume hsm
    simp only [writeTo, hpe]
    rcases hrc with ⟨_, he⟩ | ⟨b, bs', hb, _⟩
    · cases hch : readChunk c { r with offset := r.output.length } 0 with
      | mk r' ch => rw [hch] at he; simp only at he; subst he; simp
    · simp at hb
  | cons b bs' ih =>
    obtain ⟨f1, rfl⟩ : ∃ f1, fuel = f1 + 1 := ⟨fuel - 1, by omega⟩
    have hpe := hrep.pend_eq
    have hrc := readChunk_rep c hg _ (b :: bs') 0 hrep.consume hsm
    simp only [writeTo, hpe]
    rcases hrc with ⟨hb, _⟩ | ⟨b0, bs0, hb, hcase⟩
    · simp at hb
    · simp only [List.cons.injEq] at hb
      obtain ⟨hb1, hb2⟩ := hb
      subst hb1; subst hb2
      have hsm' : ∀ x ∈ bs', (c.enc x).length < 256 ^ 4 := fun x hx => hsm x (by simp [hx])
      have hf' : bs'.length < f1 := by simp only [List.length_cons] at hf; omega
      cases hch : readChunk c { r with offset := r.output.length } 0 with
      | mk r' ch =>
        rw [hch] at hcase
        simp only at hcase
        rcases hcase with ⟨hle, he, hr'⟩ | ⟨_, he, hr', _, _⟩
        · subst he
          have hb0 : b = [] := List.eq_nil_of_length_eq_zero (by omega)
          subst hb0
          simp only
          rw [ih f1 r' [] hf' hsm' hr']
          simp
        · subst he
          simp only
          rw [ih f1 r' b hf' hsm' hr']
          simp


/-! ### empty blocks: `Read` skips them (loops to the next chunk) -/

theorem Rep.blocks_le_rest {c : Codec} {r : Reader} {pend : Bytes} {bs : List Bytes} (h : Rep c r pend bs) :
    bs.length ≤ r.rest.length := by
  cases h with
  | startFramed =>
    rename_i hr _
    have hr' : r.rest = frame (bs.map c.enc) := by assumption
    rw [hr']
    have := frameBlocks_length_ge (bs.map c.enc)
    simp only [frame, List.length_append, List.length_map] at this ⊢
    omega
  | framed =>
    have hr' : r.rest = frameBlocks (bs.map c.enc) := by assumption
    rw [hr']
    have := frameBlocks_length_ge (bs.map c.enc)
    simpa using this
  | startUnframed p =>
    have hr' : r.rest = c.enc p := by assumption
    have hne : c.enc p ≠ [] := by assumption
    rw [hr']
    have : 0 < (c.enc p).length := List.length_pos_iff.mpr hne
    simp; omega
  | doneUnframed => simp

/-- outcome of one `Read` on a represented state: EOF exactly when nothing is left, otherwise a non-empty piece of
what is left -/
def ReadOK (c : Codec) (k : Nat) (bs : List Bytes) (fuel : Nat) (r : Reader) (pend : Bytes) : Prop :=
  (pend ++ bs.flatten = [] ∧ (read c fuel r k).2 = .eof) ∨
  (∃ d pend' bs', d ≠ [] ∧ (read c fuel r k).2 = .data d ∧ Rep c (read c fuel r k).1 pend' bs' ∧
    pend ++ bs.flatten = d ++ (pend' ++ bs'.flatten) ∧ (∀ b ∈ bs', (c.enc b).length < 256 ^ 4))

theorem read_rep_step (c : Codec) (hg : Good c) (k : Nat) (hk : 1 ≤ k) (bs : List Bytes)
    (ih : ∀ (bs' : List Bytes) (fuel : Nat) (r : Reader), bs'.length < bs.length → bs'.length + 2 ≤ fuel →
      (∀ b ∈ bs', (c.enc b).length < 256 ^ 4) → Rep c r [] bs' → ReadOK c k bs' fuel r [])
    (fuel : Nat) (r : Reader) (pend : Bytes) (hf : bs.length + 2 ≤ fuel)
    (hsm : ∀ b ∈ bs, (c.enc b).length < 256 ^ 4) (hrep : Rep c r pend bs) : ReadOK c k bs fuel r pend := by
  obtain ⟨f1, rfl⟩ : ∃ f1, fuel = f1 + 1 := ⟨fuel - 1, by omega⟩
  unfold ReadOK
  by_cases hp : pend = []
  · subst hp
    have hpe := hrep.pend_eq
    have hnlt : ¬ r.offset < r.output.length := by
      intro h
      have : (r.output.drop r.offset).length = r.output.length - r.offset := List.length_drop
      rw [hpe] at this; simp at this; omega
    have hrc := readChunk_rep c hg r bs k hrep hsm
    cases hch : readChunk c r k with
    | mk r' ch =>
      rw [hch] at hrc
      simp only at hrc
      rcases hrc with ⟨hb, he⟩ | ⟨b, bs', hb, hcase⟩
      · left
        subst he; subst hb
        exact ⟨rfl, by simp only [read, hnlt, if_false, hch]⟩
      · subst hb
        have hsm' : ∀ x ∈ bs', (c.enc x).length < 256 ^ 4 := fun x hx => hsm x (by simp [hx])
        rcases hcase with ⟨hle, he, hr'⟩ | ⟨hlt, he, hr', ho, hout⟩
        · subst he
          by_cases hbe : b = []
          · -- an empty block: decoded "directly" into the caller's buffer, 0 bytes → next chunk
            subst hbe
            have := ih bs' f1 r' (by simp) (by simp only [List.length_cons] at hf; omega) hsm' hr'
            have hrd : read c (f1 + 1) r k = read c f1 r' k := by
              simp only [read, hnlt, if_false, hch, List.length_nil, Nat.lt_irrefl]
            rw [hrd]
            simpa [ReadOK] using this
          · right
            have hpos : b.length > 0 := List.length_pos_iff.mpr hbe
            refine ⟨b, [], bs', hbe, ?_, ?_, by simp, hsm'⟩
            · simp only [read, hnlt, if_false, hch, hpos, if_true]
            · simp only [read, hnlt, if_false, hch, hpos, if_true]; exact hr'
        · subst he
          right
          have hbne : b ≠ [] := by intro h0; subst h0; simp at hlt
          obtain ⟨f2, rfl⟩ : ∃ f2, f1 = f2 + 1 := ⟨f1 - 1, by simp only [List.length_cons] at hf; omega⟩
          have hb2 := read_buffered c f2 r' b bs' k hk hr' hbne
          refine ⟨b.take k, b.drop k, bs', hb2.2.2, ?_, ?_, ?_, hsm'⟩
          · simp only [read, hnlt, if_false, hch]; exact hb2.1
          · simp only [read, hnlt, if_false, hch]; exact hb2.2.1
          · simp only [List.nil_append, List.flatten_cons]; rw [← List.append_assoc, List.take_append_drop]
  · right
    have hb := read_buffered c f1 r pend bs k hk hrep hp
    exact ⟨pend.take k, pend.drop k, bs, hb.2.2, hb.1, hb.2.1, by rw [← List.append_assoc, List.take_append_drop], hsm⟩

/-- `Read` on a represented state, blocks may be empty -/
theorem read_rep_any (c : Codec) (hg : Good c) (k : Nat) (hk : 1 ≤ k) : ∀ (n : Nat) (bs : List Bytes) (fuel : Nat)
    (r : Reader) (pend : Bytes), bs.length ≤ n → bs.length + 2 ≤ fuel → (∀ b ∈ bs, (c.enc b).length < 256 ^ 4) →
    Rep c r pend bs → ReadOK c k bs fuel r pend
  | 0, bs, fuel, r, pend, hn, hf, hsm, hrep =>
    read_rep_step c hg k hk bs (fun bs' _ _ hlt _ _ _ => by omega) fuel r pend hf hsm hrep
  | n + 1, bs, fuel, r, pend, hn, hf, hsm, hrep =>
    read_rep_step c hg k hk bs
      (fun bs' fuel' r' hlt hf' hsm' hrep' => read_rep_any c hg k hk n bs' fuel' r' [] (by omega) hf' hsm' hrep')
      fuel r pend hf hsm hrep

/-- any consumer, any buffer sizes ≥ 1, blocks may be EMPTY -/
theorem readAllWith_rep_any (c : Codec) (hg : Good c) (ks : List Nat) (r : Reader) (pend : Bytes) (bs : List Bytes)
    (hks : ∀ k ∈ ks, 1 ≤ k) (hlen : (pend ++ bs.flatten).length < ks.length)
    (hsm : ∀ b ∈ bs, (c.enc b).length < 256 ^ 4) (hrep : Rep c r pend bs) :
    readAllWith c r ks = some (pend ++ bs.flatten) := by
  induction ks generalizing r pend bs with
  | nil => simp at hlen
  | cons k ks ih =>
    have hk : 1 ≤ k := hks k (by simp)
    have hfuel : bs.length + 2 ≤ r.rest.length + 2 := by have := hrep.blocks_le_rest; omega
    have hr := read_rep_any c hg k hk bs.length bs (r.rest.length + 2) r pend (Nat.le_refl _) hfuel hsm hrep
    unfold ReadOK at hr
    simp only [readAllWith]
    cases hrd : read c (r.rest.length + 2) r k with
    | mk r' res =>
      rw [hrd] at hr
      simp only at hr
      rcases hr with ⟨hnil, he⟩ | ⟨d, pend', bs', hd, he, hrep', htot, hsm'⟩
      · subst he; simp [hnil]
      · subst he
        have hdl : 0 < d.length := List.length_pos_iff.mpr hd
        have hl' : (pend' ++ bs'.flatten).length < ks.length := by
          have := congrArg List.length htot
          simp only [List.length_append, List.length_cons] at this hlen ⊢
          omega
        have := ih r' pend' bs' (fun k hk => hks k (by simp [hk])) hl' hsm' hrep'
        simp only [this, Option.map_some, htot]

/-- Reads of any sizes, then WriteTo: together they deliver everything exactly once — in particular the part of a decoded
block that a short Read left pending in `output[offset:]` is written by WriteTo from `offset`, not from the start -/
theorem readsThenWriteTo_rep (c : Codec) (hg : Good c) (ks : List Nat) (r : Reader) (pend : Bytes) (bs : List Bytes)
    (hks : ∀ k ∈ ks, 1 ≤ k) (hsm : ∀ b ∈ bs, (c.enc b).length < 256 ^ 4) (hrep : Rep c r pend bs) :
    readsThenWriteTo c r ks = some (pend ++ bs.flatten) := by
  induction ks generalizing r pend bs with
  | nil =>
    simp only [readsThenWriteTo]
    exact writeTo_rep c hg bs (r.rest.length + 2) r pend (by have := hrep.blocks_le_rest; omega) hsm hrep
  | cons k ks ih =>
    have hk : 1 ≤ k := hks k (by simp)
    have hfuel : bs.length + 2 ≤ r.rest.length + 2 := by have := hrep.blocks_le_rest; omega
    have hr := read_rep_any c hg k hk bs.length bs (r.rest.length + 2) r pend (Nat.le_refl _) hfuel hsm hrep
    unfold ReadOK at hr
    simp only [readsThenWriteTo]
    cases hrd : read c (r.rest.length + 2) r k with
    | mk r' res =>
      rw [hrd] at hr
      simp only at hr
      rcases hr with ⟨hnil, he⟩ | ⟨d, pend', bs', _, he, hrep', htot, hsm'⟩
      · subst he; simp [hnil]
      · subst he
        have := ih r' pend' bs' (fun k hk => hks k (by simp [hk])) hsm' hrep'
        simp only [this, Option.map_some, htot]

end KV.Model.Xerial
