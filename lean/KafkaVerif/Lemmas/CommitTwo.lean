/-
Lemmas/CommitTwo.lean — the invariants of the commit path lifted to two concurrently running commit loops (`cstep2`).
-/
import KafkaVerif.Lemmas.CommitSync
namespace KV.Commit

/-- what one loop's step leaves alone / only extends -/
structure Frame (s s' : CState) : Prop where
  lstash : s'.lstash = s.lstash
  lpc : s'.lpc = s.lpc
  sent : ∃ l, s'.sent = s.sent ++ l
  passed : ∃ l, s'.passed = s.passed ++ l

theorem Frame.refl' (s : CState) : Frame s s := ⟨rfl, rfl, ⟨[], by simp⟩, ⟨[], by simp⟩⟩

theorem Frame.of_eq {s s' : CState} (h1 : s'.lstash = s.lstash) (h2 : s'.lpc = s.lpc) (h3 : s'.sent = s.sent)
    (h4 : s'.passed = s.passed) : Frame s s' := ⟨h1, h2, ⟨[], by simp [h3]⟩, ⟨[], by simp [h4]⟩⟩

theorem enterCommit_frame (s : CState) (rs : List Req) (f : Bool) : Frame s (enterCommit s rs f) := by
  unfold enterCommit; split <;> exact Frame.of_eq rfl rfl rfl rfl

theorem settle_frame (s : CState) : Frame s (settle s) := by
  unfold settle
  split
  · exact enterCommit_frame _ _ _
  · split <;> exact Frame.of_eq rfl rfl rfl rfl
  · exact Frame.refl' s

theorem Frame.trans {a b c : CState} (h1 : Frame a b) (h2 : Frame b c) : Frame a c := by
  obtain ⟨l1, hl1⟩ := h1.sent; obtain ⟨l2, hl2⟩ := h2.sent
  obtain ⟨p1, hp1⟩ := h1.passed; obtain ⟨p2, hp2⟩ := h2.passed
  exact ⟨h2.lstash.trans h1.lstash, h2.lpc.trans h1.lpc, ⟨l1 ++ l2, by rw [hl2, hl1, List.append_assoc]⟩,
         ⟨p1 ++ p2, by rw [hp2, hp1, List.append_assoc]⟩⟩

theorem cstep_frame (s s' : CState) (e : CEv) (h : cstep s e = some s') : Frame s s' := by
  have hset := settle_frame s
  cases e <;> simp only [cstep] at h
  case call id msgs => cases h; exact ⟨rfl, rfl, ⟨[], by simp⟩, ⟨msgs, rfl⟩⟩
  case begin sync =>
    split at h
    · cases h; exact Frame.of_eq rfl rfl rfl rfl
    · cases h
  case deq commits drain =>
    have hs : Frame s (if drain = true then s else settle s) := by split; exact Frame.refl' s; exact hset
    generalize (if drain = true then s else settle s) = t at h hs
    split at h
    · cases h
    · split at h
      · split at h
        · cases h
          refine hs.trans (Frame.trans (b := { t with queue := _, stash := t.stash.merge commits }) (Frame.of_eq rfl rfl rfl rfl) (enterCommit_frame _ _ _))
        · cases h; exact hs.trans (Frame.of_eq rfl rfl rfl rfl)
      · cases h; exact hs.trans (Frame.of_eq rfl rfl rfl rfl)
      · cases h
  case attempt offs ok =>
    generalize settle s = t at h hset
    split at h
    · split at h
      · split at h
        · cases h; exact hset.trans ⟨rfl, rfl, ⟨[(offs, ok)], rfl⟩, ⟨[], by simp⟩⟩
        · split at h <;> (cases h; exact hset.trans ⟨rfl, rfl, ⟨[(offs, ok)], rfl⟩, ⟨[], by simp⟩⟩)
      · cases h
    · cases h
  case abort =>
    generalize settle s = t at h hset
    split at h
    · split at h
      · cases h; exact hset.trans (Frame.of_eq rfl rfl rfl rfl)
      · cases h
    · cases h
  case replied =>
    split at h
    · split at h
      · cases h; exact Frame.of_eq rfl rfl rfl rfl
      · cases h
    · cases h
  case reply ok' =>
    generalize settle s = t at h hset
    split at h
    · split at h
      · cases h; exact hset.trans (Frame.of_eq rfl rfl rfl rfl)
      · cases h
    · cases h
  case reset =>
    generalize settle s = t at h hset
    split at h
    · split at h
      · cases h; exact hset.trans (Frame.of_eq rfl rfl rfl rfl)
      · cases h
    · cases h
  case tick =>
    generalize settle s = t at h hset
    split at h
    · cases h; exact hset.trans (enterCommit_frame _ _ _)
    · cases h
  case genEnd =>
    generalize settle s = t at h hset
    split at h
    · cases h; exact hset.trans (Frame.of_eq rfl rfl rfl rfl)
    · cases h
  case endLoop =>
    generalize settle s = t at h hset
    split at h
    · cases h; exact hset.trans (Frame.of_eq rfl rfl rfl rfl)
    · cases h
  case ret id ok =>
    split at h
    · cases h; exact Frame.of_eq rfl rfl rfl rfl
    · cases h

/-- the other loop's part of the invariants: its stash is covered / unique / dominates its requests, its recorded
requests stay recorded -/
structure LateInv (s : CState) : Prop where
  cov : ∀ e ∈ s.lstash, Covered s.passed e
  uniq : Uniq s.lstash
  dom : domPc s.lstash s.lpc
  recp : recPc s.sent s.lpc
  bp : ∀ r ∈ pcReqs s.lpc, r.sentAtCall ≤ s.sent.length

theorem lateInv_frame {s s' : CState} (f : Frame s s') (h : LateInv s) : LateInv s' := by
  obtain ⟨l, hl⟩ := f.sent; obtain ⟨p, hp⟩ := f.passed
  refine ⟨?_, ?_, ?_, ?_, ?_⟩
  · rw [f.lstash, hp]; exact fun e he => (h.cov e he).mono _
  · rw [f.lstash]; exact h.uniq
  · rw [f.lstash, f.lpc]; exact h.dom
  · rw [f.lpc, hl]
    have := h.recp
    revert this
    cases s.lpc with
    | done rs ok fin => cases ok <;> simp only [recPc] <;> intro hh <;> first | trivial | exact fun r hr => (hh r hr).mono _
    | _ => intro _; trivial
  · rw [f.lpc, hl]; intro r hr; have := h.bp r hr; simp; omega

/-- the invariants of the main loop's component, read off `Cov` and `SInv` of the swapped state -/
theorem lateInv_of_swapped (s : CState) (hc : Cov (swap s)) (hs : SInv (swap s)) : LateInv s :=
  ⟨hc.stash, hs.uniq, hs.dom, hs.recp, hs.bp⟩

structure Inv2 (s : CState) : Prop where
  cov : Cov s
  sinv : SInv s
  ret : RetOK s
  late : LateInv s

theorem cov_swap {s : CState} (h : Cov s) (l : LateInv s) : Cov (swap s) := ⟨l.cov, h.queue, h.sent⟩
theorem sinv_swap {s : CState} (h : SInv s) (l : LateInv s) : SInv (swap s) :=
  ⟨l.uniq, l.dom, l.recp, h.recr, h.bq, l.bp⟩
theorem lateInv_swap {s : CState} (hc : Cov s) (hs : SInv s) : LateInv (swap s) :=
  ⟨hc.stash, hs.uniq, hs.dom, hs.recp, hs.bp⟩

theorem swap_swap (s : CState) : swap (swap s) = s := rfl

theorem inv2_init : Inv2 {} :=
  ⟨cov_init, sinv_init, (by intro x hx; cases hx),
   ⟨(by intro e he; cases he), uniq_nil, trivial, trivial, (by intro r hr; cases hr)⟩⟩

theorem inv2_step (s s' : CState) (e : CEv2) (hi : Inv2 s) (h : cstep2 s e = some s') : Inv2 s' := by
  cases e with
  | main e =>
    simp only [cstep2] at h
    exact ⟨cov_step _ _ e hi.cov h, sinv_step _ _ e hi.sinv h, retok_step _ _ e hi.ret h,
           lateInv_frame (cstep_frame _ _ e h) hi.late⟩
  | late e =>
    have key : ∀ t, cstep (swap s) e = some t → Inv2 (swap t) := by
      intro t ht
      have hc := cov_step _ _ e (cov_swap hi.cov hi.late) ht
      have hs := sinv_step _ _ e (sinv_swap hi.sinv hi.late) ht
      have hr : RetOK t := retok_step _ _ e (show RetOK (swap s) from hi.ret) ht
      have hl := lateInv_frame (cstep_frame _ _ e ht) (lateInv_swap hi.cov hi.sinv)
      exact ⟨cov_swap hc hl, sinv_swap hs hl, hr, lateInv_swap hc hs⟩
    cases e <;> simp only [cstep2] at h <;> first
      | cases h
      | (simp only [Option.map_eq_some_iff] at h; obtain ⟨t, ht, rfl⟩ := h; exact key t ht)

theorem inv2_reachable (s : CState) (h : CReachable2 s) : Inv2 s := by
  induction h with
  | init => exact inv2_init
  | step e _ hs ih => exact inv2_step _ _ e ih hs

end KV.Commit
