/-
Lemmas/WriterClose.lean — termination measure of the Writer close protocol and list-sum helpers.
-/
import KafkaVerif.Model.WriterClose

namespace KV.WriterClose

/-! ### list sums under pointwise updates -/

theorem sum_map_le {α : Type} (l : List α) (g : α → α) (w : α → Nat)
    (hle : ∀ x ∈ l, w (g x) ≤ w x) : ((l.map g).map w).sum ≤ (l.map w).sum := by
  induction l with
  | nil => simp
  | cons x xs ih =>
    have h1 := hle x (by simp)
    have h2 := ih (fun y hy => hle y (by simp [hy]))
    simp only [List.map_cons, List.sum_cons]
    omega

theorem sum_map_lt {α : Type} (l : List α) (g : α → α) (w : α → Nat)
    (hle : ∀ x ∈ l, w (g x) ≤ w x) (hlt : ∃ x ∈ l, w (g x) < w x) :
    ((l.map g).map w).sum < (l.map w).sum := by
  induction l with
  | nil => obtain ⟨x, hx, _⟩ := hlt; simp at hx
  | cons x xs ih =>
    have h1 := hle x (by simp)
    have h2 := sum_map_le xs g w (fun y hy => hle y (by simp [hy]))
    simp only [List.map_cons, List.sum_cons]
    obtain ⟨y, hy, hyl⟩ := hlt
    rcases List.mem_cons.mp hy with rfl | hy'
    · omega
    · have := ih (fun z hz => hle z (by simp [hz])) ⟨y, hy', hyl⟩
      omega

/-! ### the measure -/

def phaseW : Phase → Nat
  | .invoked => 3
  | .entered => 2
  | .waiting => 2
  | .left _ => 1
  | .returned _ => 0

def senderW (cfg : Cfg) : Sender → Nat
  | .idle => 0
  | .sending _ k => (cfg.maxAttempts - k) + 2
  | .completing _ _ => 1
  | .exited => 0

def pwW (cfg : Cfg) (p : PW) : Nat :=
  (if p.sender = .exited then 0 else 1) + senderW cfg p.sender +
  (p.queue.length + (if p.curr.isSome then 1 else 0)) * (cfg.maxAttempts + 3)

def callW (c : Call) : Nat := phaseW c.phase

/-- work still to be done by the library's goroutines and by calls already inside the library -/
def mu (cfg : Cfg) (s : State) : Nat :=
  (s.calls.map callW).sum + s.awaiters.length + (s.writers.map (pwW cfg)).sum


theorem mu_updCalls_lt (cfg : Cfg) (s : State) (c : Nat) (p : Call → Bool) (f : Call → Call)
    (hlt : ∀ x, p x = true → callW (f x) < callW x) (h : hasCall s c p = true) :
    mu cfg (updCalls s c p f) < mu cfg s := by
  have : ((s.calls.map fun x => if (x.id = c && p x) = true then f x else x).map callW).sum
      < (s.calls.map callW).sum := by
    apply sum_map_lt
    · intro x _
      split
      · rename_i hq
        simp only [Bool.and_eq_true] at hq
        exact Nat.le_of_lt (hlt x hq.2)
      · exact Nat.le_refl _
    · simp only [hasCall, List.any_eq_true] at h
      obtain ⟨x, hx, hq⟩ := h
      refine ⟨x, hx, ?_⟩
      simp only [hq, if_true]
      simp only [Bool.and_eq_true] at hq
      exact hlt x hq.2
  simp only [mu, updCalls]
  omega

theorem mu_updPWs_lt (cfg : Cfg) (s : State) (i : Nat) (p : PW → Bool) (f : PW → PW)
    (hle : ∀ x, p x = true → pwW cfg (f x) ≤ pwW cfg x)
    (h : ∃ x ∈ s.writers, x.pid = i ∧ p x = true ∧ pwW cfg (f x) < pwW cfg x) :
    mu cfg (updPWs s i p f) < mu cfg s := by
  have : ((s.writers.map fun x => if (x.pid = i && p x) = true then f x else x).map (pwW cfg)).sum
      < (s.writers.map (pwW cfg)).sum := by
    apply sum_map_lt
    · intro x _
      split
      · rename_i hq
        simp only [Bool.and_eq_true] at hq
        exact hle x hq.2
      · exact Nat.le_refl _
    · obtain ⟨x, hx, hi, hp, hl⟩ := h
      refine ⟨x, hx, ?_⟩
      simp [hi, hp, hl]
  simp only [mu, updPWs]
  omega

end KV.WriterClose
