/-
Lemmas/WriterClose.lean — termination measure of the Writer close protocol and list-sum helpers.
-/
import KafkaVerif.Model.WriterClose

namespace KV.WriterClose

/-! ### list sums under pointwise updates -/

theorem sum_map_le {α : Type} (l : List α) (g : α → α) (w : α → Nat)
    (hle : ∀ x ∈ l, w (g x) ≤ w x) : ((l.map g).map w).sum ≤ (l.map w).sum := by
  induction l with
  | nil => simp
  | cons x xs ih =>
    have h1 := hle x (by simp)
    have h2 := ih (fun y hy => hle y (by simp [hy]))
    simp only [List.map_cons, List.sum_cons]
    omega

theorem sum_map_lt {α : Type} (l : List α) (g : α → α) (w : α → Nat)
    (hle : ∀ x ∈ l, w (g x) ≤ w x) (hlt : ∃ x ∈ l, w (g x) < w x) :
    ((l.map g).map w).sum < (l.map w).sum := by
  induction l with
  | nil => obtain ⟨x, hx, _⟩ := hlt; simp at hx
  | cons x xs ih =>
    have h1 := hle x (by simp)
    have h2 := sum_map_le xs g w (fun y hy => hle y (by simp [hy]))
    simp only [List.map_cons, List.sum_cons]
    obtain ⟨y, hy, hyl⟩ := hlt
    rcases List.mem_cons.mp hy with rfl | hy'
    · omega
    · have := ih (fun z hz => hle z (by simp [hz])) ⟨y, hy', hyl⟩
      omega

/-! ### the measure -/

def phaseW : Phase → Nat
  | .invoked => 3
  | .entered => 2
  | .waiting => 2
  | .left _ => 1
  | .returned _ => 0

def senderW (cfg : Cfg) : Sender → Nat
  | .idle => 0
  | .sending _ k => (cfg.maxAttempts - k) + 2
  | .completing _ _ => 1
  | .exited => 0

def pwW (cfg : Cfg) (p : PW) : Nat :=
  (if p.sender = .exited then 0 else 1) + senderW cfg p.sender +
  (p.queue.length + (if p.curr.isSome then 1 else 0)) * (cfg.maxAttempts + 3)

def callW (c : Call) : Nat := phaseW c.phase

/-- work still to be done by the library's goroutines and by calls already inside the library -/
def mu (cfg : Cfg) (s : State) : Nat :=
  (s.calls.map callW).sum + s.awaiters.length + (s.writers.map (pwW cfg)).sum


theorem mu_updCalls_lt (cfg : Cfg) (s : State) (c : Nat) (p : Call → Bool) (f : Call → Call)
    (hlt : ∀ x, p x = true → callW (f x) < callW x) (h : hasCall s c p = true) :
    mu cfg (updCalls s c p f) < mu cfg s := by
  have : ((s.calls.map fun x => if (x.id = c && p x) = true then f x else x).map callW).sum
      < (s.calls.map callW).sum := by
    apply sum_map_lt
    · intro x _
      split
      · rename_i hq
        simp only [Bool.and_eq_true] at hq
        exact Nat.le_of_lt (hlt x hq.2)
      · exact Nat.le_refl _
    · simp only [hasCall, List.any_eq_true] at h
      obtain ⟨x, hx, hq⟩ := h
      refine ⟨x, hx, ?_⟩
      simp only [hq, if_true]
      simp only [Bool.and_eq_true] at hq
      exact hlt x hq.2
  simp only [mu, updCalls]
  omega

theorem mu_updPWs_lt (cfg : Cfg) (s : State) (i : Nat) (p : PW → Bool) (f : PW → PW)
    (hle : ∀ x, p x = true → pwW cfg (f x) ≤ pwW cfg x)
    (h : ∃ x ∈ s.writers, x.pid = i ∧ p x = true ∧ pwW cfg (f x) < pwW cfg x) :
    mu cfg (updPWs s i p f) < mu cfg s := by
  have : ((s.writers.map fun x => if (x.pid = i && p x) = true then f x else x).map (pwW cfg)).sum
      < (s.writers.map (pwW cfg)).sum := by
    apply sum_map_lt
    · intro x _
      split
      · rename_i hq
        simp only [Bool.and_eq_true] at hq
        exact hle x hq.2
      · exact Nat.le_refl _
    · obtain ⟨x, hx, hi, hp, hl⟩ := h
      refine ⟨x, hx, ?_⟩
      simp [hi, hp, hl]
  simp only [mu, updPWs]
  omega

theorem hasCall_mem {s : State} {c : Nat} {p : Call → Bool} (h : hasCall s c p = true) :
    ∃ x ∈ s.calls, x.id = c ∧ p x = true := by
  simp only [hasCall, List.any_eq_true, Bool.and_eq_true, decide_eq_true_eq] at h
  exact h

theorem hasPW_mem {s : State} {i : Nat} {p : PW → Bool} (h : hasPW s i p = true) :
    ∃ x ∈ s.writers, x.pid = i ∧ p x = true := by
  simp only [hasPW, List.any_eq_true, Bool.and_eq_true, decide_eq_true_eq] at h
  exact h

/-- `candidates` lists every internal event that can be enabled -/
theorem candidates_complete (cfg : Cfg) (s s' : State) (e : Event) (hint : e.internal = true)
    (hstep : step cfg s e = some s') : e ∈ candidates s := by
  have callCase : ∀ (c : Nat) (e : Event), (∃ x ∈ s.calls, x.id = c) →
      (∀ x : Call, x.id = c → e ∈ ([.enter x.id, .batch x.id, .ret x.id] ++
        [Res.nil, .ctxErr, .other].map (Event.early x.id) ++
        [Res.nil, .writeErrors, .ctxErr].map (Event.leave x.id) : List Event)) → e ∈ candidates s := by
    intro c e ⟨x, hx, hc⟩ h
    simp only [candidates, List.mem_append, List.mem_flatMap]
    exact Or.inl (Or.inl ⟨x, hx, by simpa [List.mem_append, or_assoc] using h x hc⟩)
  have pwCase : ∀ (i : Nat) (e : Event), (∃ x ∈ s.writers, x.pid = i) →
      (∀ x : PW, x.pid = i → e ∈ ([.get x.pid, .complete x.pid] ++ [Outcome.ok, .temp, .perm].map (Event.attempt x.pid) : List Event)) →
      e ∈ candidates s := by
    intro i e ⟨x, hx, hc⟩ h
    simp only [candidates, List.mem_append, List.mem_flatMap]
    exact Or.inr ⟨x, hx, by simpa [List.mem_append, or_assoc] using h x hc⟩
  cases e with
  | callBegin c ms mf => simp [Event.internal] at hint
  | ctxCancel c => simp [Event.internal] at hint
  | closeBegin => simp [Event.internal] at hint
  | metaReq c => simp [Event.internal] at hint
  | metaRel c => simp [Event.internal] at hint
  | closeMark => simp [Event.internal] at hint
  | closeReturn => simp [Event.internal] at hint
  | enter c =>
    simp only [step, Option.ite_none_right_eq_some] at hstep
    obtain ⟨x, hx, hc, _⟩ := hasCall_mem hstep.1
    exact callCase c _ ⟨x, hx, hc⟩ (fun y hy => by simp [hy])
  | early c r =>
    simp only [step, Option.ite_none_right_eq_some] at hstep
    obtain ⟨x, hx, hc, hp⟩ := hasCall_mem hstep.1
    apply callCase c _ ⟨x, hx, hc⟩
    intro y hy
    cases r <;> simp [hy, earlyOk, leaveOk] at hp ⊢
  | batch c =>
    simp only [step] at hstep
    split at hstep
    · simp at hstep
    · rename_i x hfind
      have hm := List.mem_of_find?_eq_some hfind
      have hx := List.find?_some hfind
      simp only [Bool.and_eq_true, decide_eq_true_eq] at hx
      exact callCase c _ ⟨x, hm, hx.1.1.1⟩ (fun y hy => by simp [hy])
  | leave c r =>
    simp only [step, Option.ite_none_right_eq_some] at hstep
    obtain ⟨x, hx, hc, hp⟩ := hasCall_mem hstep.1
    apply callCase c _ ⟨x, hx, hc⟩
    intro y hy
    cases r <;> simp [hy, earlyOk, leaveOk] at hp ⊢
  | ret c =>
    simp only [step, Option.ite_none_right_eq_some] at hstep
    obtain ⟨x, hx, hc, _⟩ := hasCall_mem hstep.1
    exact callCase c _ ⟨x, hx, hc⟩ (fun y hy => by simp [hy])
  | timer b =>
    simp only [step, Option.ite_none_right_eq_some] at hstep
    have hmem : b ∈ s.awaiters := by simpa using hstep.1
    simp only [candidates, List.mem_append, List.mem_map]
    exact Or.inl (Or.inr ⟨b, hmem, rfl⟩)
  | get i =>
    simp only [step] at hstep
    split at hstep
    · rename_i h
      obtain ⟨x, hx, hc, _⟩ := hasPW_mem h
      exact pwCase i _ ⟨x, hx, hc⟩ (fun y hy => by simp [hy])
    · split at hstep
      · rename_i h
        obtain ⟨x, hx, hc, _⟩ := hasPW_mem h
        exact pwCase i _ ⟨x, hx, hc⟩ (fun y hy => by simp [hy])
      · simp at hstep
  | attempt i o =>
    simp only [step, Option.ite_none_right_eq_some] at hstep
    obtain ⟨x, hx, hc, _⟩ := hasPW_mem hstep.1
    apply pwCase i _ ⟨x, hx, hc⟩
    intro y hy
    cases o <;> simp [hy]
  | complete i =>
    simp only [step] at hstep
    split at hstep
    · rename_i p hfind
      have hm := List.mem_of_find?_eq_some hfind
      have hx := List.find?_some hfind
      simp only [Bool.and_eq_true, decide_eq_true_eq] at hx
      exact pwCase i _ ⟨p, hm, hx.1⟩ (fun y hy => by simp [hy])
    · simp at hstep

/-! ### invariant: no open partition writer once closed; progress of a waiting Close -/

/-- K1: once the writer is marked closed no partition writer is open (in `w.writers`) -/
def NoOpenWhenClosed (s : State) : Prop := s.closed = true → ∀ p ∈ s.writers, p.opn = false

theorem updPWs_opn (s : State) (i : Nat) (q : PW → Bool) (f : PW → PW) (hf : ∀ p, (f p).opn = p.opn)
    (h : ∀ p ∈ s.writers, p.opn = false) : ∀ p ∈ (updPWs s i q f).writers, p.opn = false := by
  intro p hp
  simp only [updPWs, List.mem_map] at hp
  obtain ⟨x, hx, rfl⟩ := hp
  split
  · rw [hf]; exact h x hx
  · exact h x hx

theorem noOpen_step (cfg : Cfg) (hfix : cfg.fixed = true) (s s' : State) (e : Event)
    (hinv : NoOpenWhenClosed s) (hstep : step cfg s e = some s') : NoOpenWhenClosed s' := by
  cases e with
  | callBegin c ms mf =>
    simp only [step] at hstep
    split at hstep
    · simp at hstep
    · injection hstep with h; subst h; exact hinv
  | ctxCancel c =>
    simp only [step, Option.ite_none_right_eq_some, Option.some.injEq] at hstep
    obtain ⟨_, rfl⟩ := hstep; exact hinv
  | closeBegin =>
    simp only [step, Option.ite_none_right_eq_some, Option.some.injEq] at hstep
    obtain ⟨_, rfl⟩ := hstep; exact hinv
  | enter c =>
    simp only [step, Option.ite_none_right_eq_some, Option.some.injEq] at hstep
    obtain ⟨_, rfl⟩ := hstep; exact hinv
  | metaReq c =>
    simp only [step, Option.ite_none_right_eq_some, Option.some.injEq] at hstep
    obtain ⟨_, rfl⟩ := hstep; exact hinv
  | metaRel c =>
    simp only [step, Option.ite_none_right_eq_some, Option.some.injEq] at hstep
    obtain ⟨_, rfl⟩ := hstep; exact hinv
  | early c r =>
    simp only [step, Option.ite_none_right_eq_some, Option.some.injEq] at hstep
    obtain ⟨_, rfl⟩ := hstep; exact hinv
  | leave c r =>
    simp only [step, Option.ite_none_right_eq_some, Option.some.injEq] at hstep
    obtain ⟨_, rfl⟩ := hstep; exact hinv
  | ret c =>
    simp only [step, Option.ite_none_right_eq_some, Option.some.injEq] at hstep
    obtain ⟨_, rfl⟩ := hstep; exact hinv
  | closeReturn =>
    simp only [step, Option.ite_none_right_eq_some, Option.some.injEq] at hstep
    obtain ⟨_, rfl⟩ := hstep; exact hinv
  | closeMark =>
    simp only [step, Option.ite_none_right_eq_some, Option.some.injEq] at hstep
    obtain ⟨_, rfl⟩ := hstep
    intro _ p hp
    simp only [List.mem_map] at hp
    obtain ⟨x, _, rfl⟩ := hp
    simp only [closePW]
    split <;> rfl
  | batch c =>
    simp only [step] at hstep
    split at hstep
    · simp at hstep
    · rename_i x hfind
      by_cases hc : s.closed = true
      · simp only [hfix, hc, Bool.and_self, if_true] at hstep
        injection hstep with h; subst h; exact hinv
      · simp only [hc, Bool.and_false, if_false] at hstep
        injection hstep with h; subst h
        intro hcl
        -- closed is unchanged by the fold: it is still false
        have : ∀ (l : List (Nat × Nat)) (t : State), (l.foldl (addOne cfg) t).closed = t.closed := by
          intro l
          induction l with
          | nil => intro t; rfl
          | cons a l ih => intro t; simp only [List.foldl_cons]; rw [ih]; rfl
        simp only [updCalls] at hcl
        rw [this] at hcl
        exact absurd hcl hc
  | timer b =>
    simp only [step, Option.ite_none_right_eq_some, Option.some.injEq] at hstep
    obtain ⟨_, rfl⟩ := hstep
    intro hcl p hp
    simp only [List.mem_map] at hp
    obtain ⟨x, hx, rfl⟩ := hp
    have hxo := hinv hcl x hx
    simp only [timerPW]
    split
    · split
      · simp only [putBatch]; split <;> simp_all
      · exact hxo
    · exact hxo
  | get i =>
    simp only [step] at hstep
    split at hstep
    · injection hstep with h; subst h
      intro hcl
      apply updPWs_opn _ _ _ _ _ (hinv hcl)
      intro p; split <;> rfl
    · split at hstep
      · injection hstep with h; subst h
        intro hcl
        exact updPWs_opn _ _ _ _ (fun p => rfl) (hinv hcl)
      · simp at hstep
  | attempt i o =>
    simp only [step, Option.ite_none_right_eq_some, Option.some.injEq] at hstep
    obtain ⟨_, rfl⟩ := hstep
    intro hcl
    apply updPWs_opn _ _ _ _ _ (hinv hcl)
    intro p; split <;> rfl
  | complete i =>
    simp only [step] at hstep
    split at hstep
    · split at hstep
      · injection hstep with h; subst h
        intro hcl
        exact updPWs_opn _ _ _ _ (fun p => rfl) (hinv hcl)
      · simp at hstep
    · simp at hstep

/-- a synchronous call waits for a message that nobody holds any more (excluded by the tracking invariant) -/
def WaitingBlocked (s : State) : Prop :=
  s.awaiters = [] ∧ (∀ p ∈ s.writers, p.live = false) ∧
  ∃ c ∈ s.calls, c.phase = .waiting ∧ ∃ mk ∈ c.msgs, s.isCompleted mk.1 = false

/-- events that make progress without any new request from the application: the library's internal events and
the transport's answer to a metadata lookup it already holds -/
def Event.progress (e : Event) : Bool := e.internal || (match e with | .metaRel _ => true | _ => false)

theorem progress_core (cfg : Cfg) (s : State) (hclose : s.close = 2)
    (hno : ∀ p ∈ s.writers, p.opn = false) :
    (step cfg s .closeReturn).isSome ∨ (∃ e, e.progress = true ∧ (step cfg s e).isSome) ∨ WaitingBlocked s := by
  by_cases haw' : ¬ s.awaiters = []
  · -- a live awaitBatch goroutine: its timer can fire / its ready channel is closed
    right; left
    cases hl : s.awaiters with
    | nil => exact absurd hl haw'
    | cons b rest =>
      refine ⟨.timer b, rfl, ?_⟩
      simp [step, hl]
  have haw : s.awaiters = [] := Decidable.of_not_not haw'
  by_cases hlive : ∃ p ∈ s.writers, p.live = true
  · right; left
    obtain ⟨p, hp, hl⟩ := hlive
    have hopn := hno p hp
    cases hs : p.sender with
    | exited => simp [PW.live, hs] at hl
    | idle =>
      by_cases hq : p.queue.isEmpty = true
      · refine ⟨.get p.pid, rfl, ?_⟩
        have h2 : hasPW s p.pid (fun p => decide (p.sender = .idle) && p.queue.isEmpty && !p.opn) = true := by
          simp only [hasPW, List.any_eq_true]
          exact ⟨p, hp, by simp [hs, hq, hopn]⟩
        simp only [step]
        split
        · rfl
        · simp [h2]
      · refine ⟨.get p.pid, rfl, ?_⟩
        have h1 : hasPW s p.pid (fun p => decide (p.sender = .idle) && !p.queue.isEmpty) = true := by
          simp only [hasPW, List.any_eq_true]
          exact ⟨p, hp, by simp [hs, hq]⟩
        simp [step, h1]
    | sending b k =>
      refine ⟨.attempt p.pid .ok, rfl, ?_⟩
      have h1 : hasPW s p.pid (·.sender.isSending) = true := by
        simp only [hasPW, List.any_eq_true]
        exact ⟨p, hp, by simp [hs, Sender.isSending]⟩
      simp [step, h1]
    | completing b why =>
      refine ⟨.complete p.pid, rfl, ?_⟩
      have hex : ∃ q ∈ s.writers, (decide (q.pid = p.pid) && q.sender.isCompleting) = true :=
        ⟨p, hp, by simp [hs, Sender.isCompleting]⟩
      simp only [step]
      cases hf : s.writers.find? (fun q => decide (q.pid = p.pid) && q.sender.isCompleting) with
      | none =>
        rw [List.find?_eq_none] at hf
        obtain ⟨q, hq, hqq⟩ := hex
        exact absurd hqq (hf q hq)
      | some q =>
        have hq := List.find?_some hf
        simp only [Bool.and_eq_true] at hq
        cases hqs : q.sender <;> simp [hqs, Sender.isCompleting] at hq ⊢
  · have hdead : ∀ p ∈ s.writers, p.live = false := by
      intro p hp
      cases h : p.live with
      | false => rfl
      | true => exact absurd ⟨p, hp, h⟩ hlive
    by_cases hcall : ∃ c ∈ s.calls, c.holdsGroup = true
    · obtain ⟨c, hc, hg⟩ := hcall
      simp only [Call.holdsGroup, Bool.or_eq_true, decide_eq_true_eq] at hg
      rcases hg with hent | hwait
      · right; left
        by_cases hem : c.msgs.isEmpty = true
        · refine ⟨.early c.id .nil, rfl, ?_⟩
          have : hasCall s c.id (fun x => decide (x.phase = .entered) && earlyOk .nil x) = true := by
            simp only [hasCall, List.any_eq_true]
            exact ⟨c, hc, by simp [hent, hem, earlyOk]⟩
          simp [step, this]
        · by_cases hheld : c.held = true
          · refine ⟨.metaRel c.id, rfl, ?_⟩
            have : hasCall s c.id (fun x => decide (x.phase = .entered) && x.held) = true := by
              simp only [hasCall, List.any_eq_true]
              exact ⟨c, hc, by simp [hent, hheld]⟩
            simp [step, this]
          · refine ⟨.batch c.id, rfl, ?_⟩
            simp only [step]
            cases hf : s.calls.find? (fun x => decide (x.id = c.id) && decide (x.phase = .entered) && !x.msgs.isEmpty && !x.held) with
            | none =>
              rw [List.find?_eq_none] at hf
              have := hf c hc
              simp [hent, hem, hheld] at this
            | some x =>
              simp only
              split <;> rfl
      · by_cases hall : c.msgs.all (fun mk => s.isCompleted mk.1) = true
        · right; left
          refine ⟨.leave c.id (callResult s c), rfl, ?_⟩
          have hr : callResult s c = .nil ∨ callResult s c = .writeErrors := by
            simp only [callResult]; split <;> simp
          have : hasCall s c.id (fun x => decide (x.phase = .waiting) && leaveOk s (callResult s c) x) = true := by
            simp only [hasCall, List.any_eq_true]
            refine ⟨c, hc, ?_⟩
            rcases hr with h | h <;> simp [h, hwait, hall, leaveOk]
          simp [step, this]
        · right; right
          refine ⟨haw, hdead, c, hc, hwait, ?_⟩
          simp only [List.all_eq_true] at hall
          apply Classical.byContradiction
          intro hcon
          apply hall
          intro mk hmk
          cases h : s.isCompleted mk.1 with
          | true => rfl
          | false => exact absurd ⟨mk, hmk, h⟩ hcon
    · left
      have h0 : s.wg = 0 := by
        simp only [State.wg, haw, List.length_nil, Nat.add_zero]
        have h1 : s.calls.countP Call.holdsGroup = 0 := by
          rw [List.countP_eq_zero]
          intro c hc hg
          exact hcall ⟨c, hc, hg⟩
        have h2 : s.writers.countP PW.live = 0 := by
          rw [List.countP_eq_zero]
          intro p hp hl
          have := hdead p hp
          simp [hl] at this
        omega
      simp [step, hclose, h0]

theorem foldl_addOne_flags (cfg : Cfg) (l : List (Nat × Nat)) (t : State) :
    (l.foldl (addOne cfg) t).closed = t.closed ∧ (l.foldl (addOne cfg) t).close = t.close ∧
    (l.foldl (addOne cfg) t).calls = t.calls ∧ (l.foldl (addOne cfg) t).completed = t.completed := by
  induction l generalizing t with
  | nil => exact ⟨rfl, rfl, rfl, rfl⟩
  | cons a l ih =>
    simp only [List.foldl_cons]
    obtain ⟨h1, h2, h3, h4⟩ := ih (addOne cfg t a)
    exact ⟨h1, h2, h3, h4⟩

/-- how one step moves the Close phase and the closed flag -/
theorem step_close_flags (cfg : Cfg) (s s' : State) (e : Event) (hstep : step cfg s e = some s') :
    (s'.close = s.close ∧ s'.closed = s.closed) ∨ (s.close = 0 ∧ s'.close = 1 ∧ s'.closed = s.closed) ∨
    (s'.close = 2 ∧ s'.closed = true) ∨ (s.close = 2 ∧ s'.close = 3 ∧ s'.closed = s.closed) := by
  cases e with
  | callBegin c ms mf =>
    simp only [step] at hstep
    split at hstep
    · simp at hstep
    · injection hstep with h; subst h; exact Or.inl ⟨rfl, rfl⟩
  | closeBegin =>
    simp only [step, Option.ite_none_right_eq_some, Option.some.injEq] at hstep
    obtain ⟨h, rfl⟩ := hstep; exact Or.inr (Or.inl ⟨h, rfl, rfl⟩)
  | closeMark =>
    simp only [step, Option.ite_none_right_eq_some, Option.some.injEq] at hstep
    obtain ⟨h, rfl⟩ := hstep; exact Or.inr (Or.inr (Or.inl ⟨rfl, rfl⟩))
  | closeReturn =>
    simp only [step, Option.ite_none_right_eq_some, Option.some.injEq] at hstep
    obtain ⟨h, rfl⟩ := hstep
    simp only [Bool.and_eq_true, decide_eq_true_eq] at h
    exact Or.inr (Or.inr (Or.inr ⟨h.1, rfl, rfl⟩))
  | batch c =>
    simp only [step] at hstep
    split at hstep
    · simp at hstep
    · split at hstep
      · injection hstep with h; subst h; exact Or.inl ⟨rfl, rfl⟩
      · injection hstep with h; subst h
        have := foldl_addOne_flags cfg
        simp only [updCalls]
        exact Or.inl ⟨(this _ _).2.1, (this _ _).1⟩
  | get i =>
    simp only [step] at hstep
    split at hstep
    · injection hstep with h; subst h; exact Or.inl ⟨rfl, rfl⟩
    · split at hstep
      · injection hstep with h; subst h; exact Or.inl ⟨rfl, rfl⟩
      · simp at hstep
  | complete i =>
    simp only [step] at hstep
    split at hstep
    · split at hstep
      · injection hstep with h; subst h; exact Or.inl ⟨rfl, rfl⟩
      · simp at hstep
    · simp at hstep
  | ctxCancel c | enter c | metaReq c | metaRel c | ret c | timer c =>
    simp only [step, Option.ite_none_right_eq_some, Option.some.injEq] at hstep
    obtain ⟨_, rfl⟩ := hstep; exact Or.inl ⟨rfl, rfl⟩
  | early c r | leave c r | attempt c r =>
    simp only [step, Option.ite_none_right_eq_some, Option.some.injEq] at hstep
    obtain ⟨_, rfl⟩ := hstep; exact Or.inl ⟨rfl, rfl⟩

/-- induction over runs -/
theorem run_induction (cfg : Cfg) (P : State → Prop)
    (hstep : ∀ s e s', P s → step cfg s e = some s' → P s') :
    ∀ es s0 s, P s0 → run cfg s0 es = some s → P s := by
  intro es
  induction es with
  | nil => intro s0 s h0 hr; simp only [run, Option.some.injEq] at hr; subst hr; exact h0
  | cons e es ih =>
    intro s0 s h0 hr
    simp only [run] at hr
    cases hs : step cfg s0 e with
    | none => simp [hs] at hr
    | some s1 => simp only [hs] at hr; exact ih s1 s (hstep s0 e s1 h0 hs) hr

theorem reachable_induction (cfg : Cfg) (P : State → Prop) (h0 : P State.init)
    (hstep : ∀ s e s', P s → step cfg s e = some s' → P s') : ∀ s, Reachable cfg s → P s := by
  intro s ⟨es, hr⟩
  exact run_induction cfg P hstep es State.init s h0 hr

/-- K0: Close has marked the writer (phase ≥ 2) iff the closed flag is set -/
theorem reachable_closed_iff (cfg : Cfg) : ∀ s, Reachable cfg s → (2 ≤ s.close ↔ s.closed = true) := by
  apply reachable_induction cfg (fun s => 2 ≤ s.close ↔ s.closed = true)
  · simp [State.init]
  · intro s e s' ih hs
    rcases step_close_flags cfg s s' e hs with ⟨h1, h2⟩ | ⟨h0, h1, h2⟩ | ⟨h1, h2⟩ | ⟨h0, h1, h2⟩
    · rw [h1, h2]; exact ih
    · rw [h1, h2, ← ih, h0]; omega
    · rw [h1, h2]; simp
    · rw [h1, h2, ← ih, h0]; omega

theorem reachable_noOpen (cfg : Cfg) (hfix : cfg.fixed = true) : ∀ s, Reachable cfg s → NoOpenWhenClosed s := by
  apply reachable_induction cfg NoOpenWhenClosed
  · intro h; simp [State.init] at h
  · intro s e s' ih hs; exact noOpen_step cfg hfix s s' e ih hs

end KV.WriterClose
