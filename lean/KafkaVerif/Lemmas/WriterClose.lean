/-
Lemmas/WriterClose.lean — termination measure of the Writer close protocol and list-sum helpers.
-/
import KafkaVerif.Model.WriterClose

namespace KV.WriterClose

/-! ### list sums under pointwise updates -/

theorem sum_map_le {α : Type} (l : List α) (g : α → α) (w : α → Nat)
    (hle : ∀ x ∈ l, w (g x) ≤ w x) : ((l.map g).map w).sum ≤ (l.map w).sum := by
  induction l with
  | nil => simp
  | cons x xs ih =>
    have h1 := hle x (by simp)
    have h2 := ih (fun y hy => hle y (by simp [hy]))
    simp only [List.map_cons, List.sum_cons]
    omega

theorem sum_map_lt {α : Type} (l : List α) (g : α → α) (w : α → Nat)
    (hle : ∀ x ∈ l, w (g x) ≤ w x) (hlt : ∃ x ∈ l, w (g x) < w x) :
    ((l.map g).map w).sum < (l.map w).sum := by
  induction l with
  | nil => obtain ⟨x, hx, _⟩ := hlt; simp at hx
  | cons x xs ih =>
    have h1 := hle x (by simp)
    have h2 := sum_map_le xs g w (fun y hy => hle y (by simp [hy]))
    simp only [List.map_cons, List.sum_cons]
    obtain ⟨y, hy, hyl⟩ := hlt
    rcases List.mem_cons.mp hy with rfl | hy'
    · omega
    · have := ih (fun z hz => hle z (by simp [hz])) ⟨y, hy', hyl⟩
      omega

/-! ### the measure -/

def phaseW : Phase → Nat
  | .invoked => 3
  | .entered => 2
  | .waiting => 2
  | .left _ => 1
  | .returned _ => 0

def senderW (cfg : Cfg) : Sender → Nat
  | .idle => 0
  | .sending _ k => (cfg.maxAttempts - k) + 2
  | .completing _ _ => 1
  | .exited => 0

def pwW (cfg : Cfg) (p : PW) : Nat :=
  (if p.sender = .exited then 0 else 1) + senderW cfg p.sender +
  (p.queue.length + (if p.curr.isSome then 1 else 0)) * (cfg.maxAttempts + 3)

def callW (c : Call) : Nat := phaseW c.phase

/-- work still to be done by the library's goroutines and by calls already inside the library -/
def mu (cfg : Cfg) (s : State) : Nat :=
  (s.calls.map callW).sum + s.awaiters.length + (s.writers.map (pwW cfg)).sum


theorem mu_updCalls_lt (cfg : Cfg) (s : State) (c : Nat) (p : Call → Bool) (f : Call → Call)
    (hlt : ∀ x, p x = true → callW (f x) < callW x) (h : hasCall s c p = true) :
    mu cfg (updCalls s c p f) < mu cfg s := by
  have : ((s.calls.map fun x => if (x.id = c && p x) = true then f x else x).map callW).sum
      < (s.calls.map callW).sum := by
    apply sum_map_lt
    · intro x _
      split
      · rename_i hq
        simp only [Bool.and_eq_true] at hq
        exact Nat.le_of_lt (hlt x hq.2)
      · exact Nat.le_refl _
    · simp only [hasCall, List.any_eq_true] at h
      obtain ⟨x, hx, hq⟩ := h
      refine ⟨x, hx, ?_⟩
      simp only [hq, if_true]
      simp only [Bool.and_eq_true] at hq
      exact hlt x hq.2
  simp only [mu, updCalls]
  omega

theorem mu_updPWs_lt (cfg : Cfg) (s : State) (i : Nat) (p : PW → Bool) (f : PW → PW)
    (hle : ∀ x, p x = true → pwW cfg (f x) ≤ pwW cfg x)
    (h : ∃ x ∈ s.writers, x.pid = i ∧ p x = true ∧ pwW cfg (f x) < pwW cfg x) :
    mu cfg (updPWs s i p f) < mu cfg s := by
  have : ((s.writers.map fun x => if (x.pid = i && p x) = true then f x else x).map (pwW cfg)).sum
      < (s.writers.map (pwW cfg)).sum := by
    apply sum_map_lt
    · intro x _
      split
      · rename_i hq
        simp only [Bool.and_eq_true] at hq
        exact hle x hq.2
      · exact Nat.le_refl _
    · obtain ⟨x, hx, hi, hp, hl⟩ := h
      refine ⟨x, hx, ?_⟩
      simp [hi, hp, hl]
  simp only [mu, updPWs]
  omega

theorem hasCall_mem {s : State} {c : Nat} {p : Call → Bool} (h : hasCall s c p = true) :
    ∃ x ∈ s.calls, x.id = c ∧ p x = true := by
  simp only [hasCall, List.any_eq_true, Bool.and_eq_true, decide_eq_true_eq] at h
  exact h

theorem hasPW_mem {s : State} {i : Nat} {p : PW → Bool} (h : hasPW s i p = true) :
    ∃ x ∈ s.writers, x.pid = i ∧ p x = true := by
  simp only [hasPW, List.any_eq_true, Bool.and_eq_true, decide_eq_true_eq] at h
  exact h

/-- `candidates` lists every internal event that can be enabled -/
theorem candidates_complete (cfg : Cfg) (s s' : State) (e : Event) (hint : e.internal = true)
    (hstep : step cfg s e = some s') : e ∈ candidates s := by
  have callCase : ∀ (c : Nat) (e : Event), (∃ x ∈ s.calls, x.id = c) →
      (∀ x : Call, x.id = c → e ∈ ([.enter x.id, .batch x.id, .ret x.id] ++
        [Res.nil, .ctxErr, .other].map (Event.early x.id) ++
        [Res.nil, .writeErrors, .ctxErr].map (Event.leave x.id) : List Event)) → e ∈ candidates s := by
    intro c e ⟨x, hx, hc⟩ h
    simp only [candidates, List.mem_append, List.mem_flatMap]
    exact Or.inl (Or.inl ⟨x, hx, by simpa [List.mem_append, or_assoc] using h x hc⟩)
  have pwCase : ∀ (i : Nat) (e : Event), (∃ x ∈ s.writers, x.pid = i) →
      (∀ x : PW, x.pid = i → e ∈ ([.get x.pid, .complete x.pid] ++ [Outcome.ok, .temp, .perm].map (Event.attempt x.pid) : List Event)) →
      e ∈ candidates s := by
    intro i e ⟨x, hx, hc⟩ h
    simp only [candidates, List.mem_append, List.mem_flatMap]
    exact Or.inr ⟨x, hx, by simpa [List.mem_append, or_assoc] using h x hc⟩
  cases e with
  | callBegin c ms mf => simp [Event.internal] at hint
  | ctxCancel c => simp [Event.internal] at hint
  | closeBegin => simp [Event.internal] at hint
  | metaReq c => simp [Event.internal] at hint
  | metaRel c => simp [Event.internal] at hint
  | closeMark => simp [Event.internal] at hint
  | closeReturn => simp [Event.internal] at hint
  | enter c =>
    simp only [step, Option.ite_none_right_eq_some] at hstep
    obtain ⟨x, hx, hc, _⟩ := hasCall_mem hstep.1
    exact callCase c _ ⟨x, hx, hc⟩ (fun y hy => by simp [hy])
  | early c r =>
    simp only [step, Option.ite_none_right_eq_some] at hstep
    obtain ⟨x, hx, hc, hp⟩ := hasCall_mem hstep.1
    apply callCase c _ ⟨x, hx, hc⟩
    intro y hy
    cases r <;> simp [hy] at hp ⊢
  | batch c =>
    simp only [step] at hstep
    split at hstep
    · simp at hstep
    · rename_i x hfind
      have hm := List.mem_of_find?_eq_some hfind
      have hx := List.find?_some hfind
      simp only [Bool.and_eq_true, decide_eq_true_eq] at hx
      exact callCase c _ ⟨x, hm, hx.1.1.1⟩ (fun y hy => by simp [hy])
  | leave c r =>
    simp only [step, Option.ite_none_right_eq_some] at hstep
    obtain ⟨x, hx, hc, hp⟩ := hasCall_mem hstep.1
    apply callCase c _ ⟨x, hx, hc⟩
    intro y hy
    cases r <;> simp [hy] at hp ⊢
  | ret c =>
    simp only [step, Option.ite_none_right_eq_some] at hstep
    obtain ⟨x, hx, hc, _⟩ := hasCall_mem hstep.1
    exact callCase c _ ⟨x, hx, hc⟩ (fun y hy => by simp [hy])
  | timer b =>
    simp only [step, Option.ite_none_right_eq_some] at hstep
    have hmem : b ∈ s.awaiters := by simpa using hstep.1
    simp only [candidates, List.mem_append, List.mem_map]
    exact Or.inl (Or.inr ⟨b, hmem, rfl⟩)
  | get i =>
    simp only [step] at hstep
    split at hstep
    · rename_i h
      obtain ⟨x, hx, hc, _⟩ := hasPW_mem h
      exact pwCase i _ ⟨x, hx, hc⟩ (fun y hy => by simp [hy])
    · split at hstep
      · rename_i h
        obtain ⟨x, hx, hc, _⟩ := hasPW_mem h
        exact pwCase i _ ⟨x, hx, hc⟩ (fun y hy => by simp [hy])
      · simp at hstep
  | attempt i o =>
    simp only [step, Option.ite_none_right_eq_some] at hstep
    obtain ⟨x, hx, hc, _⟩ := hasPW_mem hstep.1
    apply pwCase i _ ⟨x, hx, hc⟩
    intro y hy
    cases o <;> simp [hy]
  | complete i =>
    simp only [step] at hstep
    split at hstep
    · rename_i p hfind
      have hm := List.mem_of_find?_eq_some hfind
      have hx := List.find?_some hfind
      simp only [Bool.and_eq_true, decide_eq_true_eq] at hx
      exact pwCase i _ ⟨p, hm, hx.1⟩ (fun y hy => by simp [hy])
    · simp at hstep

end KV.WriterClose
