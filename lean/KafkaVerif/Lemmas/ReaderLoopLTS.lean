/-
Lemmas/ReaderLoopLTS.lean — invariant of the reader loop LTS (Model/ReaderLoopLTS.lean): what has been pushed into r.msgs is
exactly the log between the resolved start offset and `offset`, strictly increasing, whatever faults occur.
-/
import KafkaVerif.Model.ReaderLoopLTS

namespace KV.C02

/-- what a complete fetch round at conn offset `q` guarantees (`fetch_round`) -/
structure GoodData (log : List Rec) (q : Int) (d : List Rec) (off' : Int) : Prop where
  sorted : d.Pairwise (fun a b => a.1 < b.1)
  inlog : ∀ r ∈ d, r ∈ log ∧ q ≤ r.1 ∧ r.1 < off'
  nogap : ∀ r ∈ log, q ≤ r.1 → r.1 < off' → r ∈ d
  mono : q ≤ off'

/-- what a fetch round whose connection dies guarantees (`single_fetch` on the prefix that arrived): an initial
segment of the log from `q` -/
structure GoodCut (log : List Rec) (q : Int) (d : List Rec) : Prop where
  sorted : d.Pairwise (fun a b => a.1 < b.1)
  inlog : ∀ r ∈ d, r ∈ log ∧ q ≤ r.1
  closed : ∀ r ∈ log, ∀ x ∈ d, q ≤ r.1 → r.1 ≤ x.1 → r ∈ d

/-- assumptions on the environment's answers: fetch rounds are as `single_fetch`/`fetch_round` prove them, and the
first offset a broker reports is not above a record that still exists -/
def Good (log : List Rec) (s : RR) : REv → Prop
  | .data d off' oc => GoodData log s.connOff d off' ∧ oc ≠ .desync
  | .cutAfter d => GoodCut log s.connOff d
  | .ctxCanceled d => GoodCut log s.connOff d
  | .initOk first last => 0 ≤ first ∧ first ≤ last ∧ ∀ r ∈ log, first ≤ r.1
  | .kerr 1 (some (first, _)) => ∀ r ∈ log, first ≤ r.1
  | _ => True

def GoodRun (cfg : RCfg) (log : List Rec) : RR → List REv → Prop
  | _, [] => True
  | s, e :: es => Good log s e ∧ GoodRun cfg log (rstep cfg s e) es

structure RInv (log : List Rec) (s : RR) : Prop where
  sorted : s.msgs.Pairwise (fun a b => a.1 < b.1)
  nostart : s.start = none → s.msgs = [] ∧ -2 ≤ s.offset
  bounds : ∀ st, s.start = some st →
    0 ≤ st ∧ st ≤ s.offset ∧ (∀ r ∈ s.msgs, r ∈ log ∧ st ≤ r.1 ∧ r.1 < s.offset) ∧
    (∀ r ∈ log, st ≤ r.1 → r.1 < s.offset → r ∈ s.msgs)
  conn : s.phase = .reading → s.start ≠ none ∧ s.offset ≤ s.connOff ∧ ∀ r ∈ log, s.offset ≤ r.1 → r.1 < s.connOff → False

theorem rinv_init (log : List Rec) (o : Int) (ho : -2 ≤ o) : RInv log { offset := o } :=
  ⟨by simp, fun _ => ⟨rfl, ho⟩, (by intro st h; cases h), (by intro h; cases h)⟩

theorem getLast_mem {α : Type} {l : List α} {x : α} (h : l.getLast? = some x) : x ∈ l := List.mem_of_getLast? h

theorem pairwise_getLast_le {d : List Rec} (hs : d.Pairwise (fun a b => a.1 < b.1)) {l : Rec} (hl : d.getLast? = some l) :
    ∀ r ∈ d, r.1 ≤ l.1 := by
  induction d with
  | nil => intro r hr; simp at hr
  | cons x xs ih =>
    intro r hr
    rw [List.pairwise_cons] at hs
    cases xs with
    | nil =>
      simp only [List.getLast?_singleton, Option.some.injEq] at hl
      simp only [List.mem_singleton] at hr
      subst hl; subst hr; omega
    | cons y ys =>
      have hl' : (y :: ys).getLast? = some l := by simpa [List.getLast?_cons_cons] using hl
      simp only [List.mem_cons] at hr
      rcases hr with rfl | hr
      · have := hs.1 l (getLast_mem hl'); omega
      · exact ih hs.2 hl' r (by simpa using hr)

/-- pushing the messages of a fetch round (complete, or cut by a connection loss) keeps the invariant's core -/
theorem push_core {log : List Rec} {s : RR} (h : RInv log s) (hr : s.phase = .reading) (d : List Rec)
    (hsorted : d.Pairwise (fun a b => a.1 < b.1)) (hin : ∀ r ∈ d, r ∈ log ∧ s.connOff ≤ r.1)
    (hclosed : ∀ r ∈ log, ∀ x ∈ d, s.connOff ≤ r.1 → r.1 ≤ x.1 → r ∈ d) :
    (pushMsgs s d).msgs.Pairwise (fun a b => a.1 < b.1) ∧
    (∀ st, s.start = some st → 0 ≤ st ∧ st ≤ (pushMsgs s d).offset ∧
      (∀ r ∈ (pushMsgs s d).msgs, r ∈ log ∧ st ≤ r.1 ∧ r.1 < (pushMsgs s d).offset) ∧
      (∀ r ∈ log, st ≤ r.1 → r.1 < (pushMsgs s d).offset → r ∈ (pushMsgs s d).msgs)) ∧
    s.offset ≤ (pushMsgs s d).offset ∧
    (∀ l, d.getLast? = some l → (pushMsgs s d).offset = l.1 + 1) ∧ (d = [] → (pushMsgs s d).offset = s.offset) := by
  obtain ⟨hst, hoc, hgap⟩ := h.conn hr
  cases hl : d.getLast? with
  | none =>
    have hd : d = [] := List.getLast?_eq_none_iff.mp hl
    subst hd
    refine ⟨by simpa [pushMsgs] using h.sorted, ?_, by simp [pushMsgs], (by intro l h'; simp at h'), (by intro _; simp [pushMsgs])⟩
    intro st hs
    simpa [pushMsgs] using h.bounds st hs
  | some l =>
    have hle := pairwise_getLast_le hsorted hl
    have hlm := getLast_mem hl
    have hoff : (pushMsgs s d).offset = l.1 + 1 := by simp [pushMsgs, hl]
    have hmsgs : (pushMsgs s d).msgs = s.msgs ++ d := rfl
    have hlq := (hin l hlm).2
    refine ⟨?_, ?_, by rw [hoff]; omega, (by intro l' h'; cases h'; exact hoff), (by intro hd; subst hd; simp at hl)⟩
    · rw [hmsgs, List.pairwise_append]
      refine ⟨h.sorted, hsorted, ?_⟩
      intro a ha b hb
      cases hs : s.start with
      | none => exact absurd hs hst
      | some st =>
        have := ((h.bounds st hs).2.2.1 a ha).2.2
        have := (hin b hb).2
        omega
    · intro st hs
      obtain ⟨b0, b1, b2, b3⟩ := h.bounds st hs
      refine ⟨b0, by rw [hoff]; omega, ?_, ?_⟩
      · intro r hr'
        rw [hmsgs, List.mem_append] at hr'
        rw [hoff]
        rcases hr' with hr' | hr'
        · have := b2 r hr'; exact ⟨this.1, this.2.1, by omega⟩
        · have := hin r hr'; have := hle r hr'; exact ⟨(hin r hr').1, by omega, by omega⟩
      · intro r hrl h1 h2
        rw [hoff] at h2
        rw [hmsgs, List.mem_append]
        by_cases hlt : r.1 < s.offset
        · exact Or.inl (b3 r hrl h1 hlt)
        · by_cases hq : r.1 < s.connOff
          · exact absurd (hgap r hrl (by omega) hq) id
          · exact Or.inr (hclosed r hrl l hlm (by omega) (by omega))

end KV.C02

namespace KV.C02

theorem rinv_of_eq {log : List Rec} {s s' : RR} (h : RInv log s) (hm : s'.msgs = s.msgs) (hs : s'.start = s.start)
    (ho : s'.offset = s.offset) (hc : s'.phase = .reading → s.phase = .reading ∧ s'.connOff = s.connOff) : RInv log s' := by
  refine ⟨by rw [hm]; exact h.sorted, by rw [hs, hm, ho]; exact h.nostart, by rw [hs, hm, ho]; exact h.bounds, ?_⟩
  intro hp
  obtain ⟨hp', hco⟩ := hc hp
  rw [hs, ho, hco]
  exact h.conn hp'

/-- a connection positioned at `v`: the old offset, or a first offset below which nothing exists any more -/
theorem rinv_seek {log : List Rec} {s s' : RR} (h : RInv log s) (hstart : s.start ≠ none) (v : Int)
    (hv : s.offset ≤ v) (hvv : v = s.offset ∨ ∀ r ∈ log, v ≤ r.1)
    (hm : s'.msgs = s.msgs) (hs : s'.start = s.start) (ho : s'.offset = v) (hc : s'.connOff = v) : RInv log s' := by
  refine ⟨by rw [hm]; exact h.sorted, by rw [hs]; intro h0; exact absurd h0 hstart, ?_, ?_⟩
  · intro st hst
    rw [hs] at hst
    obtain ⟨b0, b1, b2, b3⟩ := h.bounds st hst
    rw [hm, ho]
    refine ⟨b0, by omega, fun r hr => ⟨(b2 r hr).1, (b2 r hr).2.1, by have := (b2 r hr).2.2; omega⟩, ?_⟩
    intro r hr h1 h2
    rcases hvv with hvv | hvv
    · exact b3 r hr h1 (by omega)
    · have := hvv r hr; omega
  · intro _
    rw [hs, ho, hc]
    exact ⟨hstart, by omega, by intro r _ h1 h2; omega⟩

theorem rinv_step (cfg : RCfg) {log : List Rec} {s : RR} (e : REv) (h : RInv log s) (hg : Good log s e) :
    RInv log (rstep cfg s e) := by
  unfold rstep
  cases hp : s.phase with
  | stopped => simpa [hp] using h
  | top =>
    simp only [hp]
    have htop : ∀ s' : RR, s'.msgs = s.msgs → s'.start = s.start → s'.offset = s.offset → s'.phase ≠ .reading → RInv log s' :=
      fun s' a b c d => rinv_of_eq h a b c (fun x => absurd x d)
    split
    · cases e <;> first | exact h | (apply htop <;> simp [hp])
    · cases e with
      | initFail oor =>
        cases oor <;> simp only <;> (try split) <;> (apply htop <;> simp [hp])
      | initOk first last =>
        simp only
        obtain ⟨hf0, hfle, hfl⟩ := hg
        split
        · split <;> (apply htop <;> simp [hp])
        · rename_i hle
          cases hst : s.start with
          | none =>
            obtain ⟨hm0, ho2⟩ := h.nostart hst
            refine ⟨by simp [hm0], by simp [hst], ?_, ?_⟩
            · intro st hst'
              simp only [hst, Option.some.injEq] at hst'
              subst hst'
              have h0 : 0 ≤ resolve s.offset first last := by
                unfold resolve
                by_cases a : s.offset = -2
                · simp [a]; exact hf0
                · by_cases b : s.offset = -1
                  · simp [b]; omega
                  · simp only [a, b, if_false]; split <;> omega
              exact ⟨h0, by simp, by simp [hm0], by intro r _ h1 h2; simp only at h2; omega⟩
            · intro _
              simp only [hst]
              exact ⟨by simp, by simp, by intro r _ h1 h2; omega⟩
          | some st =>
            obtain ⟨b0, b1, _, _⟩ := h.bounds st hst
            have hres : resolve s.offset first last = if s.offset < first then first else s.offset := by
              unfold resolve
              have a : ¬ s.offset = -2 := by omega
              have b : ¬ s.offset = -1 := by omega
              simp [a, b]
            apply rinv_seek h (by simp [hst]) (resolve s.offset first last)
            · rw [hres]; split <;> omega
            · rw [hres]; split
              · exact Or.inr hfl
              · exact Or.inl rfl
            · rfl
            · simp [hst]
            · rfl
            · rfl
      | _ => exact h
  | reading =>
    simp only [hp]
    have hsame : ∀ s' : RR, s'.msgs = s.msgs → s'.start = s.start → s'.offset = s.offset →
        (s'.phase = .reading → s'.connOff = s.connOff) → RInv log s' :=
      fun s' a b c d => rinv_of_eq h a b c (fun x => ⟨hp, d x⟩)
    split
    · cases e <;> first | exact h | (apply hsame <;> simp [hp])
    · cases e with
      | data d off' oc =>
        obtain ⟨⟨gs, gi, gn, gm⟩, _⟩ := hg
        obtain ⟨hstn, hoc, hgap⟩ := h.conn hp
        obtain ⟨c1, c2, c3, c4, c5⟩ := push_core h hp d gs (fun r hr => ⟨(gi r hr).1, (gi r hr).2.1⟩)
          (fun r hr x hx h1 h2 => gn r hr h1 (by have := (gi x hx).2.2; omega))
        have hs1 : RInv log { pushMsgs s d with connOff := off' } := by
          refine ⟨c1, by intro h0; exact absurd h0 hstn, c2, ?_⟩
          intro _
          refine ⟨hstn, ?_, ?_⟩
          · cases hl : d.getLast? with
            | none =>
              have hd : d = [] := List.getLast?_eq_none_iff.mp hl
              have := c5 hd
              simp only at this ⊢; omega
            | some l =>
              have := c4 l hl
              have := (gi l (getLast_mem hl)).2.2
              simp only at *; omega
          · intro r hr h1 h2
            simp only at h1 h2
            by_cases hq : r.1 < s.connOff
            · exact hgap r hr (by omega) hq
            · have hrd := gn r hr (by omega) h2
              cases hl : d.getLast? with
              | none =>
                have hd : d = [] := List.getLast?_eq_none_iff.mp hl
                subst hd; simp at hrd
              | some l =>
                have := pairwise_getLast_le gs hl r hrd
                have := c4 l hl
                omega
        cases oc with
        | eof => exact rinv_of_eq hs1 rfl rfl rfl (fun x => ⟨x, rfl⟩)
        | timedOut => exact rinv_of_eq hs1 rfl rfl rfl (fun x => ⟨x, rfl⟩)
        | unexpectedEOF => exact rinv_of_eq hs1 rfl rfl rfl (fun x => by simp [toTop] at x)
        | desync => exact rinv_of_eq hs1 rfl rfl rfl (fun x => by simp at x)
      | cutAfter d =>
        obtain ⟨gs, gi, gc⟩ := hg
        obtain ⟨hstn, _, _⟩ := h.conn hp
        obtain ⟨c1, c2, _, _, _⟩ := push_core h hp d gs gi gc
        exact ⟨c1, by intro h0; exact absurd h0 hstn, c2, by intro x; simp [toTop] at x⟩
      | kerr code offs =>
        simp only
        unfold onKerr
        split
        · exact rinv_of_eq h rfl rfl rfl (fun x => by simp [toTop] at x)
        · exact rinv_of_eq h rfl rfl rfl (fun x => by simp [toTop] at x)
        · exact hsame _ rfl rfl rfl (fun _ => rfl)
        · exact rinv_of_eq h rfl rfl rfl (fun x => by simp [toTop] at x)
        · rename_i first last
          obtain ⟨hstn, _, _⟩ := h.conn hp
          split
          · exact rinv_seek h hstn first (by omega) (Or.inr hg) rfl rfl rfl rfl
          · split <;> exact hsame _ rfl rfl rfl (fun _ => rfl)
        · exact hsame _ rfl rfl rfl (fun _ => rfl)
      | ioErr => exact rinv_of_eq h rfl rfl rfl (fun x => by simp [toTop] at x)
      | ctxCanceled d =>
        obtain ⟨gs, gi, gc⟩ := hg
        obtain ⟨hstn, _, _⟩ := h.conn hp
        obtain ⟨c1, c2, _, _, _⟩ := push_core h hp d gs gi gc
        exact ⟨c1, by intro h0; exact absurd h0 hstn, c2, by intro x; simp at x⟩
      | unknownCodec => exact rinv_of_eq h rfl rfl rfl (fun x => by simp [toTop] at x)
      | _ => exact h

theorem rinv_run (cfg : RCfg) (log : List Rec) : ∀ (es : List REv) (s : RR), RInv log s → GoodRun cfg log s es →
    RInv log (rrun cfg s es) := by
  intro es
  induction es with
  | nil => intro s h _; exact h
  | cons e es ih => intro s h hg; exact ih _ (rinv_step cfg e h hg.1) hg.2

end KV.C02
