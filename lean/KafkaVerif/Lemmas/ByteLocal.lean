/-
Lemmas/ByteLocal.lean — the byte-level reads of the decoder (Model/ByteReader.lean, Model/ByteHeader.lean) never look at or
consume a byte beyond `remain`, the part of the current message set that is still unread.

`Local p`: run `p` on two connections that agree on the next `remain` bytes (and hold at least that many) — the value or
error, the `remain` handed back and the number of bytes consumed are the same, and that number is at most `remain`.
What follows the message set on the connection (the next response) is invisible to `p`.

This makes the "cut" clause of `AllOrShort` a statement about the real situation: a record / header / message cut by the
end of the set *followed by whatever comes next on the connection* is errShortRead (`cut_is_short`).
-/
import KafkaVerif.Lemmas.ByteReader
import KafkaVerif.Lemmas.ByteHeader

namespace KV.C02.BR
open KV KV.RW KV.Spec.RB KV.C02

/-- the two connections agree on the unread part of the set -/
def Pre (bs bs' : Bytes) (remain : Nat) : Prop :=
  bs.take remain = bs'.take remain ∧ remain ≤ bs.length ∧ remain ≤ bs'.length

/-- both runs consumed the same `k ≤ remain` bytes and hand back the same `remain` -/
def Rel (bs bs' : Bytes) (remain : Nat) (r r' : Rd) : Prop :=
  r.remain = r'.remain ∧ ∃ k, k ≤ remain ∧ r.remain = remain - k ∧ r.bs = bs.drop k ∧ r'.bs = bs'.drop k

def Agree {α : Type} (bs bs' : Bytes) (remain : Nat) :
    Except (RErr × Rd) (α × Rd) → Except (RErr × Rd) (α × Rd) → Prop
  | .ok (a, r), .ok (a', r') => a = a' ∧ Rel bs bs' remain r r'
  | .error (e, r), .error (e', r') => e = e' ∧ Rel bs bs' remain r r'
  | _, _ => False

def Local {α : Type} (p : M α) : Prop :=
  ∀ bs bs' remain, Pre bs bs' remain → Agree bs bs' remain (p ⟨bs, remain⟩) (p ⟨bs', remain⟩)

theorem rel_zero (bs bs' : Bytes) (remain : Nat) : Rel bs bs' remain ⟨bs, remain⟩ ⟨bs', remain⟩ :=
  ⟨rfl, 0, Nat.zero_le _, by simp, by simp, by simp⟩

theorem take_take_le (bs : Bytes) {k n : Nat} (h : k ≤ n) : (bs.take n).take k = bs.take k := by
  rw [List.take_take, Nat.min_eq_left h]

theorem pre_take {bs bs' : Bytes} {remain k : Nat} (h : Pre bs bs' remain) (hk : k ≤ remain) : bs.take k = bs'.take k := by
  rw [← take_take_le bs hk, ← take_take_le bs' hk, h.1]

/-- after both have consumed `k` bytes the precondition holds again -/
theorem pre_drop {bs bs' : Bytes} {remain k : Nat} (h : Pre bs bs' remain) (hk : k ≤ remain) :
    Pre (bs.drop k) (bs'.drop k) (remain - k) := by
  obtain ⟨h1, h2, h3⟩ := h
  refine ⟨?_, by simp; omega, by simp; omega⟩
  have e1 : (bs.drop k).take (remain - k) = (bs.take remain).drop k := by
    rw [List.drop_take]
  have e2 : (bs'.drop k).take (remain - k) = (bs'.take remain).drop k := by
    rw [List.drop_take]
  rw [e1, e2, h1]

theorem local_pure {α : Type} (a : α) : Local (M.pure a) := by
  intro bs bs' remain _
  exact ⟨rfl, rel_zero bs bs' remain⟩

theorem local_bind {α β : Type} {p : M α} {q : α → M β} (hp : Local p) (hq : ∀ a, Local (q a)) : Local (M.bind p q) := by
  intro bs bs' remain hpre
  have h := hp bs bs' remain hpre
  simp only [M.bind]
  cases h1 : p ⟨bs, remain⟩ with
  | error e1 =>
    cases h2 : p ⟨bs', remain⟩ with
    | error e2 =>
      rw [h1, h2] at h
      obtain ⟨e, r⟩ := e1
      obtain ⟨e', r'⟩ := e2
      exact h
    | ok v2 =>
      rw [h1, h2] at h
      obtain ⟨e, r⟩ := e1
      obtain ⟨a', r'⟩ := v2
      exact h.elim
  | ok v1 =>
    cases h2 : p ⟨bs', remain⟩ with
    | error e2 =>
      rw [h1, h2] at h
      obtain ⟨a, r⟩ := v1
      obtain ⟨e', r'⟩ := e2
      exact h.elim
    | ok v2 =>
      rw [h1, h2] at h
      obtain ⟨a, r⟩ := v1
      obtain ⟨a', r'⟩ := v2
      obtain ⟨ha, hrem, k, hk, hr, hb, hb'⟩ := h
      subst ha
      simp only
      have hpre2 := pre_drop hpre hk
      have hq' := hq a (bs.drop k) (bs'.drop k) (remain - k) hpre2
      have er : r = ⟨bs.drop k, remain - k⟩ := by cases r; simp_all
      have er' : r' = ⟨bs'.drop k, remain - k⟩ := by cases r'; simp_all
      rw [er, er']
      -- transport the inner relation to the outer connection
      cases h3 : q a ⟨bs.drop k, remain - k⟩ with
      | error e3 =>
        cases h4 : q a ⟨bs'.drop k, remain - k⟩ with
        | error e4 =>
          rw [h3, h4] at hq'
          obtain ⟨e, s⟩ := e3
          obtain ⟨e', s'⟩ := e4
          obtain ⟨he, hrem2, k2, hk2, hs, hsb, hsb'⟩ := hq'
          refine ⟨he, hrem2, k + k2, by omega, by omega, ?_, ?_⟩
          · rw [hsb, List.drop_drop]
          · rw [hsb', List.drop_drop]
        | ok v4 =>
          rw [h3, h4] at hq'
          obtain ⟨e, s⟩ := e3
          obtain ⟨a4, s'⟩ := v4
          exact hq'.elim
      | ok v3 =>
        cases h4 : q a ⟨bs'.drop k, remain - k⟩ with
        | error e4 =>
          rw [h3, h4] at hq'
          obtain ⟨a3, s⟩ := v3
          obtain ⟨e', s'⟩ := e4
          exact hq'.elim
        | ok v4 =>
          rw [h3, h4] at hq'
          obtain ⟨a3, s⟩ := v3
          obtain ⟨a4, s'⟩ := v4
          obtain ⟨he, hrem2, k2, hk2, hs, hsb, hsb'⟩ := hq'
          refine ⟨he, hrem2, k + k2, by omega, by omega, ?_, ?_⟩
          · rw [hsb, List.drop_drop]
          · rw [hsb', List.drop_drop]

/-- a test of `remain` in front of a local reader (`if n > r.remain { return errShortRead }`) -/
theorem local_guard {α : Type} (c : Nat → Prop) [DecidablePred c] {q : M α} (hq : Local q) :
    Local (fun r => if c r.remain then .error (.short, r) else q r) := by
  intro bs bs' remain hpre
  simp only
  by_cases hc : c remain
  · simp only [hc, if_true]
    exact ⟨rfl, rel_zero bs bs' remain⟩
  · simp only [hc, if_false]
    exact hq bs bs' remain hpre

/-! ### the primitives -/

theorem local_readInt (k m : Nat) : Local (readInt k m) := by
  intro bs bs' remain hpre
  simp only [readInt]
  by_cases hk : k > remain
  · simp only [hk, if_true]
    exact ⟨rfl, rel_zero bs bs' remain⟩
  · have hk' : k ≤ remain := by omega
    obtain ⟨h1, h2, h3⟩ := hpre
    have e := pre_take ⟨h1, h2, h3⟩ hk'
    have l1 : k ≤ bs.length := by omega
    have l2 : k ≤ bs'.length := by omega
    simp only [hk, if_false, readI, readN, l1, l2, if_true, e]
    exact ⟨rfl, rfl, k, hk', rfl, rfl, rfl⟩

theorem local_readVarInt : Local readVarInt := by
  intro bs bs' remain hpre
  obtain ⟨h1, h2, h3⟩ := hpre
  have hl : (bs.take remain).length = remain := by simp [h2]
  have hl' : (bs'.take remain).length = remain := by simp [h3]
  simp only [readVarInt, ← h1]
  cases hu : readUvarint (bs.take remain) with
  | none =>
    simp only [hl]
    exact ⟨rfl, rfl, remain, Nat.le_refl _, rfl, rfl, rfl⟩
  | some p =>
    obtain ⟨n, rest⟩ := p
    simp only [hl]
    exact ⟨rfl, rfl, remain - rest.length, Nat.sub_le _ _, rfl, rfl, rfl⟩

theorem local_readNewBytes (n : Int) : Local (readNewBytes n) := by
  intro bs bs' remain hpre
  simp only [readNewBytes]
  by_cases hn : n ≤ 0
  · simp only [hn, if_true]
    exact ⟨rfl, rel_zero bs bs' remain⟩
  · obtain ⟨h1, h2, h3⟩ := hpre
    simp only [hn, if_false]
    by_cases hr : remain < n.toNat
    · simp only [hr, if_true, h2, h3]
      exact ⟨rfl, rfl, remain, Nat.le_refl _, by simp, rfl, rfl⟩
    · have hk : n.toNat ≤ remain := by omega
      have l1 : ¬ bs.length < n.toNat := by omega
      have l2 : ¬ bs'.length < n.toNat := by omega
      simp only [hr, if_false, l1, l2]
      exact ⟨pre_take ⟨h1, h2, h3⟩ hk, rfl, n.toNat, hk, rfl, rfl, rfl⟩

theorem local_discardN (n : Nat) : Local (discardN n) := by
  intro bs bs' remain hpre
  obtain ⟨h1, h2, h3⟩ := hpre
  simp only [discardN]
  by_cases hn : n ≤ remain
  · have l1 : n ≤ bs.length := by omega
    have l2 : n ≤ bs'.length := by omega
    simp only [hn, if_true, l1, l2]
    exact ⟨rfl, rfl, n, hn, rfl, rfl, rfl⟩
  · simp only [hn, if_false, h2, h3, if_true]
    exact ⟨rfl, rfl, remain, Nat.le_refl _, by simp, rfl, rfl⟩

/-! ### the composite readers -/

theorem local_readMessageBytes (n : Int) : Local (readMessageBytes n) :=
  local_bind (local_readNewBytes n) (fun _ => local_pure _)

theorem local_runFunc : Local runFunc :=
  local_bind local_readVarInt (fun n => local_readMessageBytes n)

theorem local_readMessageHeader : Local readMessageHeader :=
  local_bind local_readVarInt fun keyLen =>
    local_bind (local_readNewBytes keyLen) fun _ =>
      local_bind local_readVarInt fun valLen =>
        local_bind (local_readMessageBytes valLen) fun _ => local_pure _

theorem local_readMessageHeaders : ∀ n, Local (readMessageHeaders n)
  | 0 => local_pure _
  | n + 1 => local_bind local_readMessageHeader fun _ =>
      local_bind (local_readMessageHeaders n) fun _ => local_pure _

theorem local_recTail (length lol : Int) : Local (recTail length lol) :=
  local_bind (local_readInt 1 M8) fun _ =>
    local_bind local_readVarInt fun _ =>
      local_bind local_readVarInt fun _ =>
        local_bind local_runFunc fun _ =>
          local_bind local_runFunc fun _ =>
            local_bind local_readVarInt fun headerCount =>
              local_bind (q := fun headers => M.pure _)
                (by
                  by_cases h : headerCount > 0
                  · simp only [h, if_true]; exact local_readMessageHeaders _
                  · simp only [h, if_false]; exact local_pure _)
                fun _ => local_pure _

/-- the record part of readMessageV2 -/
theorem local_readRecordV2 : Local readRecordV2 := by
  intro bs bs' remain hpre
  have hv := local_readVarInt bs bs' remain hpre
  simp only [readRecordV2]
  cases h1 : readVarInt ⟨bs, remain⟩ with
  | error e1 =>
    cases h2 : readVarInt ⟨bs', remain⟩ with
    | error e2 =>
      rw [h1, h2] at hv
      obtain ⟨e, r⟩ := e1
      obtain ⟨e', r'⟩ := e2
      exact hv
    | ok v2 =>
      rw [h1, h2] at hv
      obtain ⟨e, r⟩ := e1
      obtain ⟨a', r'⟩ := v2
      exact hv.elim
  | ok v1 =>
    cases h2 : readVarInt ⟨bs', remain⟩ with
    | error e2 =>
      rw [h1, h2] at hv
      obtain ⟨a, r⟩ := v1
      obtain ⟨e', r'⟩ := e2
      exact hv.elim
    | ok v2 =>
      rw [h1, h2] at hv
      obtain ⟨a, r⟩ := v1
      obtain ⟨a', r'⟩ := v2
      obtain ⟨ha, hrem, k, hk, hr, hb, hb'⟩ := hv
      subst ha
      simp only
      have er : r = ⟨bs.drop k, remain - k⟩ := by cases r; simp_all
      have er' : r' = ⟨bs'.drop k, remain - k⟩ := by cases r'; simp_all
      rw [er, er']
      have ht := local_recTail a ((remain : Int) - ((remain - k : Nat) : Int)) (bs.drop k) (bs'.drop k) (remain - k) (pre_drop hpre hk)
      cases h3 : recTail a ((remain : Int) - ((remain - k : Nat) : Int)) ⟨bs.drop k, remain - k⟩ with
      | error e3 =>
        cases h4 : recTail a ((remain : Int) - ((remain - k : Nat) : Int)) ⟨bs'.drop k, remain - k⟩ with
        | error e4 =>
          rw [h3, h4] at ht
          obtain ⟨e, s⟩ := e3
          obtain ⟨e', s'⟩ := e4
          obtain ⟨he, hrem2, k2, hk2, hs, hsb, hsb'⟩ := ht
          refine ⟨he, hrem2, k + k2, by omega, by omega, ?_, ?_⟩
          · rw [hsb, List.drop_drop]
          · rw [hsb', List.drop_drop]
        | ok v4 =>
          rw [h3, h4] at ht
          obtain ⟨e, s⟩ := e3
          obtain ⟨a4, s'⟩ := v4
          exact ht.elim
      | ok v3 =>
        cases h4 : recTail a ((remain : Int) - ((remain - k : Nat) : Int)) ⟨bs'.drop k, remain - k⟩ with
        | error e4 =>
          rw [h3, h4] at ht
          obtain ⟨a3, s⟩ := v3
          obtain ⟨e', s'⟩ := e4
          exact ht.elim
        | ok v4 =>
          rw [h3, h4] at ht
          obtain ⟨a3, s⟩ := v3
          obtain ⟨a4, s'⟩ := v4
          obtain ⟨he, hrem2, k2, hk2, hs, hsb, hsb'⟩ := ht
          refine ⟨he, hrem2, k + k2, by omega, by omega, ?_, ?_⟩
          · rw [hsb, List.drop_drop]
          · rw [hsb', List.drop_drop]

theorem local_readBytes32 : Local readBytes32 :=
  local_bind (local_readInt 4 M32) fun n =>
    local_guard (fun rem => n > (rem : Int)) (local_readMessageBytes n)

theorem local_discardTail (n : Int) : Local (fun r => if n < 0 then .ok ((), r) else discardN n.toNat r : M Unit) := by
  by_cases h : n < 0
  · simp only [h, if_true]; exact local_pure ()
  · simp only [h, if_false]; exact local_discardN _

theorem local_discardBytes32 : Local discardBytes32 :=
  local_bind (local_readInt 4 M32) fun n =>
    local_guard (fun rem => n > (rem : Int)) (local_discardTail n)

theorem local_readBodyV1 : Local readBodyV1 :=
  local_bind local_readBytes32 fun _ => local_bind local_readBytes32 fun _ => local_pure _

theorem local_skipBodyV1 : Local skipBodyV1 :=
  local_bind local_discardBytes32 fun _ => local_discardBytes32

theorem local_readWrapV1 : Local readWrapV1 :=
  local_bind local_discardBytes32 fun _ => local_readBytes32

theorem local_hdrBranch (fo len magic : Int) : Local (hdrBranch fo len magic) := by
  unfold hdrBranch
  by_cases h0 : magic = 0
  · simp only [h0, if_true]
    exact local_bind (local_readInt 1 M8) fun _ => local_pure _
  · by_cases h1 : magic = 1
    · simp only [h0, h1, if_false, if_true]
      exact local_bind (local_readInt 1 M8) fun _ => local_bind (local_readInt 8 M64) fun _ => local_pure _
    · by_cases h2 : magic = 2
      · simp only [h0, h1, h2, if_false, if_true]
        exact local_bind (local_readInt 4 M32) fun _ => local_bind (local_readInt 2 M16) fun _ =>
          local_bind (local_readInt 4 M32) fun _ => local_bind (local_readInt 8 M64) fun _ =>
          local_bind (local_readInt 8 M64) fun _ => local_bind (local_readInt 8 M64) fun _ =>
          local_bind (local_readInt 2 M16) fun _ => local_bind (local_readInt 4 M32) fun _ =>
          local_bind (local_readInt 4 M32) fun _ => local_pure _
      · simp only [h0, h1, h2, if_false]
        exact local_pure _

theorem local_readHeaderB : Local readHeaderB :=
  local_bind (local_readInt 8 M64) fun fo => local_bind (local_readInt 4 M32) fun len =>
    local_bind (local_readInt 4 M32) fun _ => local_bind (local_readInt 1 M8) fun magic => local_hdrBranch fo len magic

/-- **cut means errShortRead, whatever follows on the connection**: `e` (a header, a record, key + value of a message)
reaches only up to byte `remain < e.length` of the message set; after it the connection carries `Y` (the next
response): the reader fails with errShortRead, having consumed at most what was left of the set. -/
theorem cut_is_short {α : Type} {p : M α} {e : Bytes} {v : α} (h : AllOrShort p e v) (hl : Local p)
    (Y : Bytes) (remain : Nat) (hlt : remain < e.length) :
    ∃ r', p ⟨e.take remain ++ Y, remain⟩ = .error (.short, r') ∧ r'.remain ≤ remain := by
  obtain ⟨r, hr⟩ := (h [] remain).2 hlt
  have hpre : Pre (e ++ []) (e.take remain ++ Y) remain := by
    refine ⟨?_, by simp; omega, by simp; omega⟩
    have : (e.take remain).length = remain := by simp; omega
    rw [List.append_nil, List.take_append_of_le_length (by omega), List.take_take, Nat.min_self]
  have ha := hl _ _ remain hpre
  rw [hr] at ha
  cases h2 : p ⟨e.take remain ++ Y, remain⟩ with
  | ok v2 =>
    rw [h2] at ha
    obtain ⟨a, s⟩ := v2
    exact ha.elim
  | error e2 =>
    rw [h2] at ha
    obtain ⟨e', r'⟩ := e2
    obtain ⟨he, hrem, k, hk, hrk, _, _⟩ := ha
    refine ⟨r', by rw [← he], ?_⟩
    omega

end KV.C02.BR
