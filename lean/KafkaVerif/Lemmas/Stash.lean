/-
Lemmas/Stash.lean — key uniqueness of the stash and "the stash dominates a commit" under `Stash.merge`.
-/
import KafkaVerif.Lemmas.Commit
namespace KV.Commit

theorem lookup_none {s : Stash} {k : TP} (h : s.lookup k = none) : ∀ e ∈ s, e.1 ≠ k := by
  induction s with
  | nil => intro e he; cases he
  | cons a t ih =>
    obtain ⟨ak, av⟩ := a
    simp only [List.lookup_cons] at h
    split at h
    · cases h
    · rename_i hne
      intro e he
      rcases List.mem_cons.mp he with rfl | he
      · intro heq; simp at heq; subst heq; simp at hne
      · exact ih h e he

theorem lookup_some_mem {s : Stash} {k : TP} {o : Int} (h : s.lookup k = some o) : (k, o) ∈ s := by
  induction s with
  | nil => simp at h
  | cons a t ih =>
    obtain ⟨ak, av⟩ := a
    simp only [List.lookup_cons] at h
    split at h
    · rename_i heq
      have : k = ak := by simpa using heq
      cases h; subst this; exact List.mem_cons_self
    · exact List.mem_cons_of_mem _ (ih h)

/-- keys are unique (the Go stash is a map) -/
def Uniq (s : Stash) : Prop := ∀ e1 ∈ s, ∀ e2 ∈ s, e1.1 = e2.1 → e1 = e2

theorem uniq_nil : Uniq [] := by intro e1 h; cases h

theorem uniq_merge1 (s : Stash) (c : Commit) (h : Uniq s) : Uniq (s.merge1 c) := by
  unfold Stash.merge1
  split
  · rename_i hn
    have hk := lookup_none hn
    intro e1 h1 e2 h2 heq
    rcases List.mem_append.mp h1 with h1 | h1 <;> rcases List.mem_append.mp h2 with h2 | h2
    · exact h e1 h1 e2 h2 heq
    · simp at h2; subst h2; exact absurd heq (hk e1 h1)
    · simp at h1; subst h1; exact absurd heq.symm (hk e2 h2)
    · simp at h1 h2; rw [h1, h2]
  · split
    · intro e1 h1 e2 h2 heq
      obtain ⟨a1, ha1, rfl⟩ := List.mem_map.mp h1
      obtain ⟨a2, ha2, rfl⟩ := List.mem_map.mp h2
      by_cases k1 : (a1.1 == c.tp) = true <;> by_cases k2 : (a2.1 == c.tp) = true
      · have e1 : a1.1 = c.tp := by simpa using k1
        have e2 : a2.1 = c.tp := by simpa using k2
        simp [e1, e2]
      · simp [k1, k2] at heq ⊢
        have e1 : a1.1 = c.tp := by simpa using k1
        rw [e1] at heq
        exact absurd heq.symm (by simpa using k2)
      · simp [k1, k2] at heq ⊢
        have e2 : a2.1 = c.tp := by simpa using k2
        rw [e2] at heq
        exact absurd heq (by simpa using k1)
      · simp [k1, k2] at heq ⊢
        exact h a1 ha1 a2 ha2 heq
    · exact h

theorem uniq_merge (cs : List Commit) (s : Stash) (h : Uniq s) : Uniq (s.merge cs) := by
  induction cs generalizing s with
  | nil => exact h
  | cons c cs ih => simp only [Stash.merge, List.foldl_cons]; exact ih _ (uniq_merge1 s c h)

/-- the stash holds, for the key of `c`, an offset at least `c.offset` -/
def Has (s : Stash) (tp : TP) (o : Int) : Prop := ∃ o', (tp, o') ∈ s ∧ o ≤ o'

theorem has_merge1_self (s : Stash) (c : Commit) : Has (s.merge1 c) c.tp c.offset := by
  unfold Stash.merge1
  split
  · exact ⟨c.offset, List.mem_append_right _ (by simp), Int.le_refl _⟩
  · rename_i o ho
    have hm := lookup_some_mem ho
    split
    · refine ⟨c.offset, ?_, Int.le_refl _⟩
      exact List.mem_map.mpr ⟨(c.tp, o), hm, by simp⟩
    · exact ⟨o, hm, by omega⟩

theorem has_merge1_mono (s : Stash) (c : Commit) (hu : Uniq s) (tp : TP) (o : Int) (h : Has s tp o) :
    Has (s.merge1 c) tp o := by
  obtain ⟨o', hm, hle⟩ := h
  unfold Stash.merge1
  split
  · exact ⟨o', List.mem_append_left _ hm, hle⟩
  · rename_i o1 ho
    have hm1 := lookup_some_mem ho
    split
    · rename_i hgt
      by_cases hk : tp = c.tp
      · subst hk
        have : (c.tp, o') = (c.tp, o1) := hu _ hm _ hm1 rfl
        have ho' : o' = o1 := by simpa using this
        exact ⟨c.offset, List.mem_map.mpr ⟨(c.tp, o1), hm1, by simp⟩, by omega⟩
      · refine ⟨o', List.mem_map.mpr ⟨(tp, o'), hm, ?_⟩, hle⟩
        have : ((tp, o').1 == c.tp) = false := by simpa using hk
        simp [this]
    · exact ⟨o', hm, hle⟩

theorem has_merge_mono (cs : List Commit) (s : Stash) (hu : Uniq s) (tp : TP) (o : Int) (h : Has s tp o) :
    Has (s.merge cs) tp o := by
  induction cs generalizing s with
  | nil => exact h
  | cons c cs ih =>
    simp only [Stash.merge, List.foldl_cons]
    exact ih _ (uniq_merge1 s c hu) (has_merge1_mono s c hu tp o h)

theorem has_merge_self (cs : List Commit) (s : Stash) (hu : Uniq s) : ∀ c ∈ cs, Has (s.merge cs) c.tp c.offset := by
  induction cs generalizing s with
  | nil => intro c hc; cases hc
  | cons a cs ih =>
    intro c hc
    simp only [Stash.merge, List.foldl_cons]
    rcases List.mem_cons.mp hc with rfl | hc
    · exact has_merge_mono cs _ (uniq_merge1 s c hu) _ _ (has_merge1_self s c)
    · exact ih _ (uniq_merge1 s a hu) c hc

end KV.Commit
