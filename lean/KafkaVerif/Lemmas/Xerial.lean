/-
Lemmas/Xerial.lean — invariants of the xerial writer model: content conservation, block bounds,
output = Spec framing of the flushed blocks.
-/
import KafkaVerif.Model.Xerial

namespace KV.Model.Xerial
open KV KV.RW KV.Spec.Xerial

def content (w : Writer) : Bytes := w.blocks.flatten ++ w.input

/-- what the underlying writer has received for a list of flushed blocks -/
def render (c : Codec) (framed : Bool) (blocks : List Bytes) : Bytes :=
  if blocks = [] then []
  else if framed then frame (blocks.map c.enc)
  else (blocks.map c.enc).flatten

theorem frameBlocks_append (l : List Bytes) (x : Bytes) :
    frameBlocks (l ++ [x]) = frameBlocks l ++ (beN 4 x.length ++ x) := by
  induction l with
  | nil => simp [frameBlocks]
  | cons a l ih => simp [frameBlocks, ih]

theorem header_ne_nil : header ≠ [] := by decide

theorem render_snoc (c : Codec) (framed : Bool) (blocks : List Bytes) (x : Bytes) :
    render c framed (blocks ++ [x]) =
      render c framed blocks ++ ((if framed ∧ render c framed blocks = [] then header else []) ++
        ((if framed then beN 4 (c.enc x).length else []) ++ c.enc x)) := by
  cases framed with
  | false =>
    by_cases hb : blocks = []
    · subst hb; simp [render]
    · simp [render, hb]
  | true =>
    by_cases hb : blocks = []
    · subst hb; simp [render, frame, frameBlocks]
    · have : frame (List.map c.enc blocks) ≠ [] := by
        simp [frame, header_ne_nil]
      simp [render, hb, frame, frameBlocks_append, header_ne_nil]

structure WInv (c : Codec) (w : Writer) : Prop where
  out_eq : w.out = render c w.framed w.blocks
  nonempty : ∀ b ∈ w.blocks, b ≠ []
  bounded : w.framed = true → ∀ b ∈ w.blocks, b.length ≤ blockCap
  single : w.framed = false → w.blocks.length ≤ 1 ∧ (w.blocks ≠ [] → w.input = [])

theorem winv_new (c : Codec) (framed : Bool) : WInv c (newWriter framed) :=
  ⟨by simp [newWriter, render], by simp [newWriter], by simp [newWriter], by simp [newWriter]⟩

theorem flush_content (c : Codec) (w : Writer) : content (flush c w) = content w := by
  unfold flush content
  split
  · rfl
  · simp

theorem flush_inv (c : Codec) (w : Writer) (h : WInv c w) (hlen : w.framed = true → w.input.length ≤ blockCap)
    (hun : w.framed = false → w.blocks = []) : WInv c (flush c w) := by
  unfold flush
  split
  · exact h
  · rename_i hne
    refine ⟨?_, ?_, ?_, ?_⟩
    · simp only [render_snoc, ← h.out_eq]
    · intro b hb
      simp only [List.mem_append, List.mem_singleton] at hb
      rcases hb with hb | hb
      · exact h.nonempty b hb
      · subst hb; exact hne
    · intro hf b hb
      simp only [List.mem_append, List.mem_singleton] at hb
      rcases hb with hb | hb
      · exact h.bounded hf b hb
      · subst hb; exact hlen hf
    · intro hf
      simp [hun hf]

theorem flush_input (c : Codec) (w : Writer) : (flush c w).input = [] := by
  unfold flush; split <;> simp_all

theorem flush_framed (c : Codec) (w : Writer) : (flush c w).framed = w.framed := by
  unfold flush; split <;> rfl

theorem flush_blocks_unframed (c : Codec) (w : Writer) (h : w.blocks = []) : (flush c w).blocks.length ≤ 1 := by
  unfold flush; split <;> simp [h]

/-- the loop of `Write` in framed mode keeps ≥ 1 KiB free at its boundary, never loses or reorders a byte -/
theorem writeLoop_framed (c : Codec) (fuel : Nat) (w : Writer) (b : Bytes) (hf : w.framed = true)
    (h : WInv c w) (hs : w.input.length + slack ≤ blockCap) (hfuel : b.length ≤ fuel) :
    let w' := writeLoop c fuel w b
    WInv c w' ∧ w'.framed = true ∧ w'.input.length + slack ≤ blockCap ∧ content w' = content w ++ b := by
  induction fuel generalizing w b with
  | zero =>
    have : b = [] := List.eq_nil_of_length_eq_zero (by omega)
    subst this
    simp [writeLoop, h, hf, hs]
  | succ fuel ih =>
    obtain ⟨fr, inp, ou, bl⟩ := w
    simp only at hf hs
    subst hf
    simp only [writeLoop]
    by_cases hb : b = []
    · subst hb; simp [h, hs]
    · simp only [hb, if_false, if_true]
      have hbl : 0 < b.length := List.length_pos_iff.mpr hb
      have hcap : blockCap = 32768 := rfl
      have hsl : slack = 1024 := rfl
      generalize hn : min (blockCap - inp.length) b.length = n
      have hn1 : 1 ≤ n := by omega
      have hn2 : n ≤ b.length := by omega
      have hn3 : n ≤ blockCap - inp.length := by omega
      have hw1 : WInv c ⟨true, inp ++ b.take n, ou, bl⟩ :=
        ⟨h.out_eq, h.nonempty, h.bounded, fun hf' => by simp at hf'⟩
      have hlen1 : (inp ++ b.take n).length ≤ blockCap := by
        simp only [List.length_append, List.length_take]; omega
      have hc1 : content ⟨true, inp ++ b.take n, ou, bl⟩ = content ⟨true, inp, ou, bl⟩ ++ b.take n := by
        simp [content]
      have hdrop : (b.drop n).length ≤ fuel := by simp only [List.length_drop]; omega
      by_cases hfl : blockCap - (inp ++ b.take n).length < slack
      · have hw2 := flush_inv c ⟨true, inp ++ b.take n, ou, bl⟩ hw1 (fun _ => hlen1) (fun hf' => by simp at hf')
        have := ih (flush c ⟨true, inp ++ b.take n, ou, bl⟩) (b.drop n) (by rw [flush_framed]) hw2
          (by rw [flush_input]; simp [slack, blockCap]) hdrop
        simp only [hfl, if_true]
        refine ⟨this.1, this.2.1, this.2.2.1, ?_⟩
        rw [this.2.2.2, flush_content, hc1, List.append_assoc, List.take_append_drop]
      · have := ih ⟨true, inp ++ b.take n, ou, bl⟩ (b.drop n) rfl hw1 (by simp only; omega) hdrop
        simp only [hfl, if_false]
        refine ⟨this.1, this.2.1, this.2.2.1, ?_⟩
        rw [this.2.2.2, hc1, List.append_assoc, List.take_append_drop]

end KV.Model.Xerial
