/-
Lemmas/RecordScanExact.lean — frame accounting of the record-set reader (Model/RecordScan.lean): the stream position
and the OUTERMOST decoder's `remain` move together through every step, so that when `RecordSet.ReadFrom` returns, the
enclosing frame decoder's `remain` has decreased by exactly the number of bytes taken from the connection.
-/
import KafkaVerif.Model.RecordScan

namespace KV.RecordScan
open KV KV.Wire

/-- the `remain` of the outermost decoder on the path -/
def lastR (s : RS) : Int := s.rems.getLastD 0

/-- `s'` is `s` advanced by `k` bytes: `k` bytes left the stream and the outermost remain decreased by `k`; the
nesting depth is unchanged -/
def Adv (s s' : RS) : Prop :=
  ∃ k : Nat, k ≤ s.inp.length ∧ s'.inp = s.inp.drop k ∧ lastR s' = lastR s - k ∧ s'.rems.length = s.rems.length

theorem Adv.refl (s : RS) : Adv s s := ⟨0, by omega, by simp, by simp, rfl⟩

theorem Adv.trans {a b c : RS} (h1 : Adv a b) (h2 : Adv b c) : Adv a c := by
  obtain ⟨k1, hk1, hi1, hl1, hn1⟩ := h1
  obtain ⟨k2, hk2, hi2, hl2, hn2⟩ := h2
  refine ⟨k1 + k2, ?_, ?_, ?_, by omega⟩
  · rw [hi1, List.length_drop] at hk2; omega
  · rw [hi2, hi1, List.drop_drop]
  · rw [hl2, hl1]; push_cast; omega

theorem getLastD_map_sub (l : List Int) (k : Int) (h : l ≠ []) : (l.map (· - k)).getLastD 0 = l.getLastD 0 - k := by
  induction l with
  | nil => exact absurd rfl h
  | cons x xs ih =>
    cases xs with
    | nil => simp [List.getLastD]
    | cons y ys =>
      have := ih (by simp)
      simpa [List.getLastD] using this

/-- a step that drops `k` bytes and subtracts `k` on every level -/
theorem adv_step (s : RS) (k : Nat) (hk : k ≤ s.inp.length) (hne : s.rems ≠ []) :
    Adv s ⟨s.inp.drop k, s.rems.map (· - (k : Int))⟩ :=
  ⟨k, hk, rfl, by unfold lastR; exact getLastD_map_sub _ _ hne, by simp⟩

theorem rread_adv (c : RCfg) (k : Nat) (s : RS) (hne : s.rems ≠ []) (bs : Bytes) (s' : RS)
    (h : rread c k s = .ok bs s') : Adv s s' := by
  unfold rread at h
  split at h
  · simp only [RRes.ok.injEq] at h; rw [← h.2]; exact Adv.refl s
  · split at h
    · split at h <;> simp at h
    · split at h
      · simp at h
      · rename_i hlen
        simp only [RRes.ok.injEq] at h
        rw [← h.2]
        simp only [Bool.or_eq_true, decide_eq_true_eq, not_or, Nat.not_lt] at hlen
        exact adv_step s k hlen.2 hne

theorem rint_adv (c : RCfg) (k : Nat) (s : RS) (hne : s.rems ≠ []) (i : Int) (s' : RS)
    (h : rint c k s = .ok i s') : Adv s s' := by
  unfold rint at h
  cases hr : rread c k s with
  | ok bs s1 =>
    rw [hr] at h
    simp only [RRes.bind, RRes.ok.injEq] at h
    rw [← h.2]
    exact rread_adv c k s hne bs s1 hr
  | error => rw [hr] at h; simp [RRes.bind] at h
  | panic => rw [hr] at h; simp [RRes.bind] at h
  | balloon => rw [hr] at h; simp [RRes.bind] at h

/-- a fixed-width read takes exactly its width -/
theorem rint_exact (c : RCfg) (k : Nat) (hk0 : k ≠ 0) (s : RS) (hne : s.rems ≠ []) (i : Int) (s' : RS)
    (h : rint c k s = .ok i s') :
    k ≤ s.inp.length ∧ s'.inp = s.inp.drop k ∧ lastR s' = lastR s - k ∧ s'.rems.length = s.rems.length := by
  unfold rint at h
  obtain ⟨bs, s1, hr, h⟩ : ∃ a s1, rread c k s = .ok a s1 ∧ (RRes.ok (toS (8 * k) (fromBE a)) s1 : RRes Int) = .ok i s' := by
    cases hr : rread c k s with
    | ok a s1 => rw [hr] at h; exact ⟨a, s1, rfl, by simpa [RRes.bind] using h⟩
    | error => rw [hr] at h; simp [RRes.bind] at h
    | panic => rw [hr] at h; simp [RRes.bind] at h
    | balloon => rw [hr] at h; simp [RRes.bind] at h
  simp only [RRes.ok.injEq] at h
  rw [← h.2]
  unfold rread at hr
  simp only [hk0, if_false] at hr
  split at hr
  · split at hr <;> simp at hr
  · split at hr
    · simp at hr
    · rename_i hlen
      simp only [RRes.ok.injEq] at hr
      rw [← hr.2]
      simp only [Bool.or_eq_true, decide_eq_true_eq, not_or, Nat.not_lt] at hlen
      exact ⟨hlen.2, rfl, by unfold lastR; exact getLastD_map_sub _ _ hne, by simp⟩

theorem avail_le (s : RS) : avail s ≤ s.inp.length := by
  unfold avail
  generalize s.inp.length = n
  induction s.rems generalizing n with
  | nil => simp
  | cons r rs ih =>
    simp only [List.foldl_cons]
    exact Nat.le_trans (ih _) (Nat.min_le_left _ _)

theorem rvarint_adv (c : RCfg) (s : RS) (i : Int) (s' : RS) (h : rvarint c s = .ok i s') : Adv s s' := by
  unfold rvarint at h
  split at h
  · simp at h
  · rename_i r outer heq
    split at h
    · simp at h
    · split at h
      · split at h <;> simp at h
      · simp only [] at h
        split at h
        · rename_i u rest hu
          simp only [RRes.ok.injEq] at h
          rw [← h.2]
          have hne : s.rems ≠ [] := by rw [heq]; simp
          have hk : (List.take (avail s) s.inp).length - rest.length ≤ s.inp.length := by
            have := avail_le s
            simp [List.length_take]; omega
          exact adv_step s _ hk hne
        · simp at h

theorem rdiscard_adv (n : Int) (s : RS) (s' : RS) (h : rdiscard n s = .ok () s') : Adv s s' := by
  unfold rdiscard at h
  split at h
  · simp at h
  · rename_i r outer heq
    try simp only [] at h
    generalize (if n > r then r else n) = m at h
    split at h
    · simp at h
    · split at h
      · simp at h
      · rename_i hn hlen
        simp only [RRes.ok.injEq, true_and] at h
        rw [← h]
        simp only [Bool.or_eq_true, decide_eq_true_eq, not_or, Nat.not_lt] at hlen
        have hne : s.rems ≠ [] := by rw [heq]; simp
        have := adv_step s m.toNat hlen.2 hne
        have hnn : (m.toNat : Int) = m := by omega
        simpa [hnn] using this

theorem Adv.ne {s s' : RS} (h : Adv s s') (hne : s.rems ≠ []) : s'.rems ≠ [] := by
  obtain ⟨_, _, _, _, hn⟩ := h
  intro he
  rw [he] at hn
  have : s.rems.length = 0 := by simpa using hn.symm
  exact hne (List.length_eq_zero_iff.mp this)

theorem bind_adv {α β : Type} (r : RRes α) (f : α → RS → RRes β) (s : RS) (b : β) (s2 : RS)
    (h : r.bind f = .ok b s2)
    (hr : ∀ a s1, r = .ok a s1 → Adv s s1)
    (hf : ∀ a s1, r = .ok a s1 → f a s1 = .ok b s2 → Adv s1 s2) : Adv s s2 := by
  cases r with
  | ok a s1 => exact (hr a s1 rfl).trans (hf a s1 rfl (by simpa [RRes.bind] using h))
  | error => simp [RRes.bind] at h
  | panic => simp [RRes.bind] at h
  | balloon => simp [RRes.bind] at h

theorem getLastD_cons_ne (a : Int) (l : List Int) (h : l ≠ []) : (a :: l).getLastD 0 = l.getLastD 0 := by
  cases l with
  | nil => exact absurd rfl h
  | cons x xs => simp [List.getLastD]

theorem getLastD_drop_one (l : List Int) (h : 2 ≤ l.length) : (l.drop 1).getLastD 0 = l.getLastD 0 := by
  cases l with
  | nil => simp at h
  | cons a t =>
    cases t with
    | nil => simp at h
    | cons b u => simp [List.getLastD]

/-- run something on a chain with one more (inner) level, then drop that level again -/
theorem adv_push_pop (i : Bytes) (a : Int) (rs : List Int) (t : RS) (hne : rs ≠ [])
    (h : Adv ⟨i, a :: rs⟩ t) : Adv ⟨i, rs⟩ ⟨t.inp, t.rems.drop 1⟩ := by
  obtain ⟨k, hk, hi, hl, hn⟩ := h
  have hlen : 2 ≤ t.rems.length := by
    simp only [List.length_cons] at hn
    have : 0 < rs.length := List.length_pos_iff.mpr hne
    omega
  refine ⟨k, hk, hi, ?_, ?_⟩
  · simp only [lastR] at hl ⊢
    rw [getLastD_drop_one _ hlen, hl, getLastD_cons_ne a rs hne]
  · simp only [List.length_drop, List.length_cons] at hn ⊢; omega

/-- replacing the innermost level's remain (`md.remain = int(size)`) moves nothing -/
theorem adv_set_head (t : RS) (a : Int) (h : 2 ≤ t.rems.length) : Adv t ⟨t.inp, a :: t.rems.drop 1⟩ := by
  refine ⟨0, by omega, by simp, ?_, ?_⟩
  · simp only [lastR]
    have hne : t.rems.drop 1 ≠ [] := by
      intro he
      have : (t.rems.drop 1).length = 0 := by rw [he]; rfl
      simp only [List.length_drop] at this; omega
    rw [getLastD_cons_ne a _ hne, getLastD_drop_one _ h]; simp
  · simp only [List.length_cons, List.length_drop]; omega

theorem writeTo_adv (c : RCfg) (n : Int) (s s' : RS) (hlen : 2 ≤ s.rems.length) (h : writeTo c n s = .ok () s') :
    Adv s s' := by
  unfold writeTo at h
  split at h
  · simp at h
  · rename_i limit outer heq
    try simp only [] at h
    generalize hw : (if c.writeToGuard = true then if n < limit then n else limit else n) = window at h
    split at h
    · split at h
      · simp only [RRes.ok.injEq, true_and] at h; rw [← h]; exact Adv.refl s
      · simp at h
    · split at h
      · split at h <;> simp at h
      · split at h
        · simp at h
        · simp only [RRes.ok.injEq, true_and] at h
          rw [← h]
          have hout : outer ≠ [] := by
            intro he; rw [heq, he] at hlen; simp at hlen
          have hk : avail ⟨s.inp, window :: outer⟩ ≤ s.inp.length := avail_le ⟨s.inp, window :: outer⟩
          refine ⟨_, hk, rfl, ?_, ?_⟩
          · simp only [lastR, heq]
            rw [getLastD_cons_ne _ _ (by simpa using hout), getLastD_cons_ne _ _ hout, getLastD_map_sub _ _ hout]
          · simp [heq]

theorem ite_adv {p : Prop} [Decidable p] (x : RRes Unit) (s s' : RS)
    (hx : x = .ok () s' → Adv s s') (h : (if p then x else RRes.ok () s) = .ok () s') : Adv s s' := by
  split at h
  · exact hx h
  · simp only [RRes.ok.injEq, true_and] at h; rw [← h]; exact Adv.refl s

theorem bind_ok_inv {α β : Type} {r : RRes α} {f : α → RS → RRes β} {b : β} {s2 : RS}
    (h : r.bind f = .ok b s2) : ∃ a s1, r = .ok a s1 ∧ f a s1 = .ok b s2 := by
  cases r with
  | ok a s1 => exact ⟨a, s1, rfl, by simpa [RRes.bind] using h⟩
  | error => simp [RRes.bind] at h
  | panic => simp [RRes.bind] at h
  | balloon => simp [RRes.bind] at h

theorem Adv.len {s s' : RS} (h : Adv s s') : s'.rems.length = s.rems.length := h.choose_spec.2.2.2

theorem readMessage_adv (c : RCfg) (crcI : Bytes → Nat) (s : RS) (hne : s.rems ≠ []) (av : Int × Bytes) (s' : RS)
    (h : readMessage c crcI s = .ok av s') : Adv s s' := by
  unfold readMessage at h
  try simp only [] at h
  have hpos : 0 < s.rems.length := List.length_pos_iff.mpr hne
  have h12 : (12 :: s.rems) ≠ [] := by simp
  obtain ⟨_, s0, h1, h⟩ := bind_ok_inv h
  have a1 := rread_adv c 8 _ h12 _ s0 h1
  obtain ⟨size, s0', h2, h⟩ := bind_ok_inv h
  have a2 := rint_adv c 4 s0 (a1.ne h12) _ s0' h2
  have hl0 : 2 ≤ s0'.rems.length := by
    have n1 := a1.len; have n2 := a2.len
    simp only [List.length_cons] at n1; omega
  have a3 := adv_set_head s0' size hl0
  have base := (a1.trans a2).trans a3
  have l1 : 2 ≤ (⟨s0'.inp, size :: s0'.rems.drop 1⟩ : RS).rems.length := by
    simp only [List.length_cons, List.length_drop]; omega
  have ne1 : (⟨s0'.inp, size :: s0'.rems.drop 1⟩ : RS).rems ≠ [] := by simp
  obtain ⟨crcb, s2, h3, h⟩ := bind_ok_inv h
  have b1 := rread_adv c 4 _ ne1 _ s2 h3
  obtain ⟨ma, s3, h4, h⟩ := bind_ok_inv h
  have b2 := rread_adv c 2 s2 (b1.ne ne1) _ s3 h4
  have ne3 := b2.ne (b1.ne ne1)
  obtain ⟨_, s4, h5, h⟩ := bind_ok_inv h
  have b3 : Adv s3 s4 := by
    split at h5
    · obtain ⟨_, s4', h51, h52⟩ := bind_ok_inv h5
      simp only [RRes.ok.injEq, true_and] at h52
      rw [← h52]; exact rread_adv c 8 s3 ne3 _ _ h51
    · simp only [RRes.ok.injEq, true_and] at h5; rw [← h5]; exact Adv.refl s3
  have ne4 := b3.ne ne3
  obtain ⟨kl, s5, h6, h⟩ := bind_ok_inv h
  have b4 := rint_adv c 4 s4 ne4 _ s5 h6
  have l5 : 2 ≤ s5.rems.length := by
    have := b1.len; have := b2.len; have := b3.len; have := b4.len; omega
  obtain ⟨_, s6, h7, h⟩ := bind_ok_inv h
  have b5 : Adv s5 s6 := ite_adv _ s5 s6 (fun hx => writeTo_adv c kl s5 s6 l5 hx) h7
  have ne6 := b5.ne (b4.ne ne4)
  obtain ⟨vl, s7, h8, h⟩ := bind_ok_inv h
  have b6 := rint_adv c 4 s6 ne6 _ s7 h8
  have l7 : 2 ≤ s7.rems.length := by
    have := b5.len; have := b6.len; omega
  obtain ⟨_, s8, h9, h⟩ := bind_ok_inv h
  have b7 : Adv s7 s8 := ite_adv _ s7 s8 (fun hx => writeTo_adv c vl s7 s8 l7 hx) h9
  try simp only [] at h
  split at h
  · simp at h
  · simp only [RRes.ok.injEq] at h
    rw [← h.2]
    exact adv_push_pop s.inp 12 s.rems s8 hne
      (base.trans ((((((b1.trans b2).trans b3).trans b4).trans b5).trans b6).trans b7))

theorem readV1_adv (c : RCfg) (crcI : Bytes → Nat) (dcmp : Int → Bytes → Option Bytes) (s : RS) (hne : s.rems ≠ [])
    (k : Nat) (s' : RS) (h : readV1 c crcI dcmp s = .ok k s') : Adv s s' := by
  unfold readV1 at h
  obtain ⟨av, s1, h1, h⟩ := bind_ok_inv h
  obtain ⟨attrs, value⟩ := av
  have a1 := readMessage_adv c crcI s hne _ s1 h1
  try simp only [] at h
  split at h
  · simp only [RRes.ok.injEq] at h; rw [← h.2]; exact a1
  · split at h
    · simp at h
    · split at h
      · simp only [RRes.ok.injEq] at h; rw [← h.2]; exact a1
      · simp at h
      · simp at h
      · simp at h

theorem readV2_adv (c : RCfg) (crcC : Bytes → Nat) (dcmp : Int → Bytes → Option Bytes) (s : RS) (hne : s.rems ≠ [])
    (k : Nat) (s' : RS) (h : readV2 c crcC dcmp s = .ok k s') : Adv s s' := by
  unfold readV2 at h
  obtain ⟨_, s1, h1, h⟩ := bind_ok_inv h
  have a1 := rread_adv c 8 s hne _ s1 h1
  obtain ⟨bl, s2, h2, h⟩ := bind_ok_inv h
  have a2 := rint_adv c 4 s1 (a1.ne hne) _ s2 h2
  have ne2 := a2.ne (a1.ne hne)
  split at h
  · simp at h
  · rename_i r rest heq
    split at h
    · -- the batch is longer than what is left: discardAll
      obtain ⟨_, s3, h3, h⟩ := bind_ok_inv h
      simp only [RRes.ok.injEq] at h
      rw [← h.2]
      exact (a1.trans a2).trans (rdiscard_adv _ s2 s3 h3)
    · simp only [] at h
      obtain ⟨hb1, t1, h3, h⟩ := bind_ok_inv h
      have hpush : (bl :: s2.rems) ≠ [] := by simp
      have b1 := rread_adv c 9 ⟨s2.inp, bl :: s2.rems⟩ hpush _ t1 h3
      obtain ⟨hb2, t2, h4, h⟩ := bind_ok_inv h
      have b2 := rread_adv c 40 t1 (b1.ne hpush) _ t2 h4
      try simp only [] at h
      split at h
      · simp at h
      · rename_i rdec _ _
        obtain ⟨payload, t3, h5, h⟩ := bind_ok_inv h
        have b3 := rread_adv c rdec.toNat t2 (b2.ne (b1.ne hpush)) _ t3 h5
        have pop : Adv s2 ⟨t3.inp, t3.rems.drop 1⟩ :=
          adv_push_pop s2.inp bl s2.rems t3 ne2 ((b1.trans b2).trans b3)
        try simp only [] at h
        split at h
        · simp at h
        · split at h
          · simp at h
          · split at h
            · split at h <;> simp at h
            · split at h
              · split at h <;> simp at h
              · split at h
                · split at h
                  · simp only [RRes.ok.injEq] at h; rw [← h.2]; exact (a1.trans a2).trans pop
                  · simp at h
                · simp at h
                · simp at h
                · simp at h

theorem setLoop_adv (c : RCfg) (crcI crcC : Bytes → Nat) (dcmp : Int → Bytes → Option Bytes) :
    ∀ (fuel nrec : Nat) (s : RS), s.rems ≠ [] → ∀ (res : Nat × Bool) (s' : RS),
      setLoop c crcI crcC dcmp fuel nrec s = .ok res s' → Adv s s'
  | 0, nrec, s, _, res, s', h => by
    simp only [setLoop, RRes.ok.injEq] at h; rw [← h.2]; exact Adv.refl s
  | fuel + 1, nrec, s, hne, res, s', h => by
    unfold setLoop at h
    split at h
    · simp at h
    · split at h
      · simp only [RRes.ok.injEq] at h; rw [← h.2]; exact Adv.refl s
      · split at h
        · split at h
          · simp only [RRes.ok.injEq] at h; rw [← h.2]; exact Adv.refl s
          · simp at h
        · split at h
          · split at h
            · simp at h
            · split at h <;> simp at h
          · simp only [] at h
            split at h
            · rename_i k s1 hres
              have a1 : Adv s s1 := by
                split at hres
                · exact readV2_adv c crcC dcmp s hne k s1 hres
                · split at hres
                  · exact readV1_adv c crcI dcmp s hne k s1 hres
                  · simp at hres
              split at h
              · exact a1.trans (setLoop_adv c crcI crcC dcmp fuel _ s1 (a1.ne hne) res s' h)
              · simp only [RRes.ok.injEq] at h; rw [← h.2]; exact a1
            · simp only [RRes.ok.injEq] at h; rw [← h.2]; exact Adv.refl s
            · simp at h
            · simp at h

/-- **Frame accounting of `RecordSet.ReadFrom`.**  With `rn` computed after `discardAll` (guard
`accountAfterDiscard`): whenever the reader returns normally, the enclosing frame decoder's `remain` has decreased
by EXACTLY the number of bytes taken from the connection — whatever the record set contains (stumps, batches that
fail to parse after others were decoded, unknown magic bytes, …).  Hence the frame decoder's final `discardAll`
ends exactly at the frame boundary: one frame is consumed. -/
theorem readSet_exact (c : RCfg) (hacc : c.accountAfterDiscard = true) (crcI crcC : Bytes → Nat)
    (dcmp : Int → Bytes → Option Bytes) (inp : Bytes) (frameRemain newRemain : Int) (s' : RS)
    (h : readSet c crcI crcC dcmp inp frameRemain = .ok newRemain s') :
    ∃ n : Nat, n ≤ inp.length ∧ s'.inp = inp.drop n ∧ newRemain = frameRemain - n ∧ s'.rems = [newRemain] := by
  unfold readSet at h
  try simp only [] at h
  obtain ⟨size, s1, h1, h⟩ := bind_ok_inv h
  have hne0 : ([frameRemain] : List Int) ≠ [] := by simp
  have a1 := rint_adv c 4 ⟨inp, [frameRemain]⟩ hne0 _ s1 h1
  have hlen1 : s1.rems.length = 1 := a1.len
  split at h
  · simp at h
  · rename_i rem rest heq
    have hrest : rest = [] := by
      rw [heq] at hlen1; simpa using hlen1
    subst hrest
    obtain ⟨hk1, hi1, hl1, _⟩ := rint_exact c 4 (by decide) ⟨inp, [frameRemain]⟩ hne0 _ s1 h1
    have e0 : lastR (⟨inp, [frameRemain]⟩ : RS) = frameRemain := by simp [lastR]
    have e1 : lastR s1 = rem := by simp [lastR, heq]
    rw [e0, e1] at hl1
    have hk1' : 4 ≤ inp.length := hk1
    have hi1' : s1.inp = inp.drop 4 := hi1
    split at h
    · -- size ≤ 0: nothing but the prefix was read
      simp only [RRes.ok.injEq] at h
      refine ⟨4, hk1', ?_, ?_, ?_⟩
      · rw [← h.2]; exact hi1'
      · rw [← h.1]; exact hl1
      · rw [← h.2, heq, h.1]
    · split at h
      · simp at h
      · obtain ⟨np, s2, h2, h⟩ := bind_ok_inv h
        obtain ⟨nrec, pending⟩ := np
        have hne1 : ([size] : List Int) ≠ [] := by simp
        have a2 := setLoop_adv c crcI crcC dcmp _ 0 ⟨s1.inp, [size]⟩ hne1 _ s2 h2
        try simp only [] at h
        split at h
        · simp at h
        · rename_i r2 rest2 heq2
          have hlen2 : s2.rems.length = 1 := a2.len
          have hrest2 : rest2 = [] := by rw [heq2] at hlen2; simpa using hlen2
          subst hrest2
          obtain ⟨k2, hk2, hi2, hl2, _⟩ := a2
          have e2 : lastR (⟨s1.inp, [size]⟩ : RS) = size := by simp [lastR]
          have e3 : lastR s2 = r2 := by simp [lastR, heq2]
          rw [e2, e3] at hl2
          have hk2' : k2 ≤ s1.inp.length := hk2
          have hi2' : s2.inp = s1.inp.drop k2 := hi2
          obtain ⟨_, s3, h3, h⟩ := bind_ok_inv h
          obtain ⟨k3, hk3, hi3, hl3, hn3⟩ := rdiscard_adv r2 s2 s3 h3
          rw [e3] at hl3
          -- the discard removed exactly r2: the remain drops to 0
          have hr3 : lastR s3 = 0 := by
            unfold rdiscard at h3
            rw [heq2] at h3
            simp only [gt_iff_lt, Int.lt_irrefl, if_false] at h3
            split at h3
            · simp at h3
            · split at h3
              · simp at h3
              · simp only [RRes.ok.injEq, true_and] at h3
                rw [← h3]; simp [lastR]
          try simp only [hacc, if_true] at h
          split at h
          · simp at h
          · simp only [RRes.ok.injEq] at h
            have hsz : (size : Int) = k2 + k3 := by rw [hr3] at hl3; omega
            refine ⟨4 + k2 + k3, ?_, ?_, ?_, ?_⟩
            · rw [hi1', List.length_drop] at hk2'
              rw [hi2', hi1', List.length_drop, List.length_drop] at hk3
              omega
            · rw [← h.2]
              show s3.inp = _
              rw [hi3, hi2', hi1', List.drop_drop, List.drop_drop]
              congr 1
              omega
            · rw [← h.1]; push_cast; omega
            · rw [← h.2, h.1]

end KV.RecordScan
