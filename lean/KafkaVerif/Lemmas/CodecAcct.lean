/-
Lemmas/CodecAcct.lean — frame accounting of the reflective decoder model (Model/Codec.lean, the C04 builder's model of
protocol/decode.go + response.go): whenever a decoding function returns `ok`, the bytes it consumed from the stream and
the decrease of `decoder.remain` are the same number.  Proved for every schema type by the same mutual induction as
C20's `ds_all`.  With `discardAll` at the end of `ReadResponse` this gives: ok ⇒ exactly the announced frame was consumed.
-/
import KafkaVerif.Model.Codec

namespace KV.CodecAcct
open KV KV.Wire KV.Codec

/-- `ok` results advance the stream and `remain` by the same amount -/
def Acct {α : Type} (d : Dec) : Res α → Prop
  | .ok _ d' => ∃ pre : Bytes, d.inp = pre ++ d'.inp ∧ d.remain = pre.length + d'.remain
  | _ => True

theorem acct_ok {α : Type} (d : Dec) (a : α) : Acct d (.ok a d) := ⟨[], by simp, by simp⟩

theorem bind_acct {α β : Type} {d : Dec} {r : Res α} {f : α → Dec → Res β} (hr : Acct d r)
    (hf : ∀ a d', Acct d' (f a d')) : Acct d (r.bind f) := by
  cases r with
  | ok a d1 =>
    simp only [Res.bind]
    obtain ⟨p, hp, hs⟩ := hr
    have h2 := hf a d1
    cases hfa : f a d1 with
    | ok b d2 =>
      rw [hfa] at h2
      obtain ⟨q, hq, ht⟩ := h2
      exact ⟨p ++ q, by rw [hp, hq, List.append_assoc], by rw [hs, ht, List.length_append]; omega⟩
    | _ => trivial
  | _ => trivial

theorem readN_acct (k : Nat) (d : Dec) : Acct d (readN k d) := by
  unfold readN
  split
  · rename_i h
    exact ⟨d.inp.take k, (List.take_append_drop k d.inp).symm, by simp only [List.length_take]; omega⟩
  · trivial

theorem readInt_acct (k : Nat) (d : Dec) : Acct d (Codec.readInt k d) :=
  bind_acct (readN_acct k d) fun _ d' => acct_ok d' _

theorem uvarintAux_split : ∀ (fuel : Nat) (inp : Bytes) (v : Nat) (rest : Bytes),
    readUvarintAux fuel inp = some (v, rest) → ∃ pre : Bytes, inp = pre ++ rest ∧ pre.length ≤ fuel
  | 0, _, _, _, h => by simp [readUvarintAux] at h
  | _ + 1, [], _, _, h => by simp [readUvarintAux] at h
  | fuel + 1, b :: tl, v, rest, h => by
    unfold readUvarintAux at h
    split at h
    · simp only [Option.some.injEq, Prod.mk.injEq] at h
      exact ⟨[b], by simp [h.2], by simp⟩
    · cases hr : readUvarintAux fuel tl with
      | none => simp [hr] at h
      | some p =>
        obtain ⟨v', r'⟩ := p
        simp only [hr, Option.some.injEq, Prod.mk.injEq] at h
        obtain ⟨pre, hp, hl⟩ := uvarintAux_split fuel tl v' r' hr
        exact ⟨b :: pre, by rw [hp, ← h.2]; rfl, by simp; omega⟩

theorem readUvarint_acct (d : Dec) : Acct d (readUvarint d) := by
  unfold readUvarint
  cases h : readUvarintAux (min 11 d.remain) d.inp with
  | none => trivial
  | some p =>
    obtain ⟨v, rest⟩ := p
    obtain ⟨pre, hp, hl⟩ := uvarintAux_split _ _ _ _ h
    refine ⟨pre, hp, ?_⟩
    simp only [hp, List.length_append]
    omega

theorem readLen_acct (cfg : Cfg) (n : Int) (d : Dec) : Acct d (readLen cfg n d) := by
  unfold readLen
  split
  · split <;> trivial
  · split
    · split <;> trivial
    · split
      · trivial
      · split
        · exact ⟨d.inp.take n.toNat, (List.take_append_drop _ _).symm, by simp only [List.length_take]; omega⟩
        · trivial

theorem allocElems_acct (cfg : Cfg) (n : Int) (d : Dec) : Acct d (allocElems cfg n d) := by
  unfold allocElems
  split
  · split <;> trivial
  · split
    · split <;> trivial
    · split
      · trivial
      · exact acct_ok d _

theorem tagCount_acct (cfg : Cfg) (u : Nat) (d : Dec) : Acct d (tagCount cfg u d) := by
  unfold tagCount
  simp only
  split
  · split
    · trivial
    · exact acct_ok d _
  · split
    · trivial
    · exact acct_ok d _

theorem decodeElems_acct (f : Dec → Res Val) (z : Val) (hf : ∀ d, Acct d (f d)) :
    ∀ (n : Nat) (d : Dec), Acct d (decodeElems f z n d)
  | 0, d => by simp only [decodeElems]; exact acct_ok d _
  | n + 1, d => by
    unfold decodeElems
    split
    · exact acct_ok d _
    · exact bind_acct (hf d) fun _ d' => bind_acct (decodeElems_acct f z hf n d') fun _ d'' => acct_ok d'' _

theorem taggedLoop_acct (cfg : Cfg) (lookup : Int → Option (Nat × (Dec → Res Val)))
    (hl : ∀ id idx dec, lookup id = some (idx, dec) → ∀ d, Acct d (dec d)) :
    ∀ (n : Nat) (slots : List Val) (d : Dec), Acct d (taggedLoop cfg lookup n slots d)
  | 0, slots, d => by simp only [taggedLoop]; exact acct_ok d _
  | n + 1, slots, d => by
    unfold taggedLoop
    refine bind_acct (readUvarint_acct d) fun tagID d1 => bind_acct (readUvarint_acct d1) fun size d2 => ?_
    split
    · rename_i idx dec heq
      exact bind_acct (hl _ idx dec heq d2) fun _ d3 => taggedLoop_acct cfg lookup hl n _ d3
    · exact bind_acct (readLen_acct cfg _ d2) fun _ d3 => taggedLoop_acct cfg lookup hl n _ d3

def DA (cfg : Cfg) (t : Ty) : Prop := ∀ d, Acct d (decode cfg t d)

theorem decodeFields_acct (cfg : Cfg) : ∀ (fs : List Ty), (∀ t ∈ fs, DA cfg t) → ∀ d, Acct d (decodeFields cfg fs d)
  | [], _, d => by simp only [decodeFields]; exact acct_ok d _
  | t :: ts, h, d => by
    unfold decodeFields
    exact bind_acct (h t (by simp) d) fun _ d1 =>
      bind_acct (decodeFields_acct cfg ts (fun t' ht' => h t' (by simp [ht'])) d1) fun _ d2 => acct_ok d2 _

theorem tagLookup_acct (cfg : Cfg) : ∀ (ids : List Int) (ts : List Ty), (∀ t ∈ ts, DA cfg t) →
    ∀ (k : Nat) (id : Int) (idx : Nat) (dec : Dec → Res Val), tagLookup cfg ids ts k id = some (idx, dec) → ∀ d, Acct d (dec d)
  | [], _, _, _, _, _, _, h => by simp [tagLookup] at h
  | _ :: _, [], _, _, _, _, _, h => by simp [tagLookup] at h
  | i :: is, t :: ts, hts, k, id, idx, dec, h => by
    unfold tagLookup at h
    split at h
    · rename_i r heq
      simp only [Option.some.injEq] at h
      subst h
      exact tagLookup_acct cfg is ts (fun t' ht' => hts t' (by simp [ht'])) (k + 1) id idx dec heq
    · split at h
      · simp only [Option.some.injEq, Prod.mk.injEq] at h
        obtain ⟨_, rfl⟩ := h
        exact hts t (by simp)
      · simp at h

theorem da_string (cfg : Cfg) (c n : Bool) : DA cfg (.string c n) := by
  intro d
  simp only [decode]
  split
  · exact bind_acct (readUvarint_acct d) fun n d1 => by
      split
      · exact acct_ok d1 _
      · exact bind_acct (readLen_acct cfg _ d1) fun _ d2 => acct_ok d2 _
  · exact bind_acct (readInt_acct 2 d) fun n d1 => by
      split
      · exact acct_ok d1 _
      · exact bind_acct (readLen_acct cfg _ d1) fun _ d2 => acct_ok d2 _

theorem da_bytes (cfg : Cfg) (c n : Bool) : DA cfg (.bytes c n) := by
  intro d
  simp only [decode]
  split
  · exact bind_acct (readUvarint_acct d) fun n d1 => by
      split
      · exact acct_ok d1 _
      · exact bind_acct (readLen_acct cfg _ d1) fun _ d2 => acct_ok d2 _
  · exact bind_acct (readInt_acct 4 d) fun n d1 => by
      split
      · exact acct_ok d1 _
      · exact bind_acct (readLen_acct cfg _ d1) fun _ d2 => acct_ok d2 _

theorem da_array (cfg : Cfg) (c n : Bool) (t : Ty) (ht : DA cfg t) : DA cfg (.array c n t) := by
  intro d
  simp only [decode]
  split
  · exact bind_acct (readUvarint_acct d) fun n d1 => by
      split
      · exact acct_ok d1 _
      · exact bind_acct (allocElems_acct cfg _ d1) fun k d2 =>
          bind_acct (decodeElems_acct _ _ ht k d2) fun _ d3 => acct_ok d3 _
  · exact bind_acct (readInt_acct 4 d) fun n d1 => by
      split
      · exact acct_ok d1 _
      · exact bind_acct (allocElems_acct cfg _ d1) fun k d2 =>
          bind_acct (decodeElems_acct _ _ ht k d2) fun _ d3 => acct_ok d3 _

theorem da_struct (cfg : Cfg) (flex : Bool) (fs : List Ty) (ids : List Int) (ts : List Ty)
    (hfs : ∀ t ∈ fs, DA cfg t) (hts : ∀ t ∈ ts, DA cfg t) : DA cfg (.struct flex fs ids ts) := by
  intro d
  simp only [decode]
  refine bind_acct (decodeFields_acct cfg fs hfs d) fun vs d1 => ?_
  split
  · exact bind_acct (readUvarint_acct d1) fun n d2 => bind_acct (tagCount_acct cfg n d2) fun k d3 =>
      bind_acct (taggedLoop_acct cfg _ (fun id idx dec h => tagLookup_acct cfg ids ts hts 0 id idx dec h) k _ d3)
        fun _ d4 => acct_ok d4 _
  · exact acct_ok d1 _

theorem da_unit (cfg : Cfg) (flex : Bool) : DA cfg (.unit flex) := by
  intro d
  simp only [decode]
  split
  · exact bind_acct (readUvarint_acct d) fun n d1 => bind_acct (tagCount_acct cfg n d1) fun k d2 =>
      bind_acct (taggedLoop_acct cfg _ (fun id idx dec h => by simp at h) k _ d2) fun _ d3 => acct_ok d3 _
  · exact acct_ok d _

/-- a detailed record-set reader plugged into the frame decoder (`Cfg.recs`, C20's Model/CodecRecords.lean) must itself account
for the bytes it takes; with `recs = none` (the opaque-payload view, what `Gen.decoderCfg` is) this is vacuous -/
def RecsAcct (cfg : Cfg) : Prop := ∀ h, cfg.recs = some h → ∀ d, Acct d (h d)

theorem recsAcct_none (cfg : Cfg) (h : cfg.recs = none) : RecsAcct cfg := fun _ hh => by rw [h] at hh; cases hh

theorem da_records (cfg : Cfg) (hr : RecsAcct cfg) : DA cfg .records := by
  intro d
  simp only [decode]
  split
  · rename_i h heq
    exact hr h heq d
  · exact bind_acct (readInt_acct 4 d) fun n d1 => by
      split
      · exact acct_ok d1 _
      · exact bind_acct (readLen_acct cfg _ d1) fun _ d2 => acct_ok d2 _

theorem da_prim (cfg : Cfg) (t : Ty) (k : Nat) (f : Bytes → Val)
    (h : ∀ d, decode cfg t d = (readN k d).bind fun bs d => .ok (f bs) d) : DA cfg t := by
  intro d; rw [h]; exact bind_acct (readN_acct k d) fun _ d1 => acct_ok d1 _

theorem da_int (cfg : Cfg) (t : Ty) (k : Nat)
    (h : ∀ d, decode cfg t d = (Codec.readInt k d).bind fun i d => .ok (.int i) d) : DA cfg t := by
  intro d; rw [h]; exact bind_acct (readInt_acct k d) fun _ d1 => acct_ok d1 _

mutual
theorem da_all (cfg : Cfg) (hr : RecsAcct cfg) (t : Ty) : DA cfg t :=
  match t with
  | .bool => da_prim cfg _ 1 (fun bs => .bool (fromBE bs != 0)) (fun _ => by simp [decode])
  | .int8 => da_int cfg _ 1 (fun _ => by simp [decode])
  | .int16 => da_int cfg _ 2 (fun _ => by simp [decode])
  | .int32 => da_int cfg _ 4 (fun _ => by simp [decode])
  | .int64 => da_int cfg _ 8 (fun _ => by simp [decode])
  | .float64 => da_prim cfg _ 8 (fun bs => .int (fromBE bs)) (fun _ => by simp [decode])
  | .string c n => da_string cfg c n
  | .bytes c n => da_bytes cfg c n
  | .array c n t => da_array cfg c n t (da_all cfg hr t)
  | .struct flex fs ids ts => da_struct cfg flex fs ids ts (da_list cfg hr fs) (da_list cfg hr ts)
  | .unit flex => da_unit cfg flex
  | .records => da_records cfg hr
termination_by structural t
theorem da_list (cfg : Cfg) (hr : RecsAcct cfg) (ts : List Ty) : ∀ t ∈ ts, DA cfg t :=
  match ts with
  | [] => fun _ h => by simp at h
  | t :: ts => fun t' h => by
    rcases List.mem_cons.1 h with h | h
    · exact h ▸ da_all cfg hr t
    · exact da_list cfg hr ts t' h
termination_by structural ts
end

theorem skipHeaderTags_acct (cfg : Cfg) : ∀ (n : Nat) (d : Dec), Acct d (skipHeaderTags cfg n d)
  | 0, d => by simp only [skipHeaderTags]; exact acct_ok d _
  | n + 1, d => by
    unfold skipHeaderTags
    exact bind_acct (readUvarint_acct d) fun _ d1 => bind_acct (readUvarint_acct d1) fun _ d2 =>
      bind_acct (readLen_acct cfg _ d2) fun _ d3 => skipHeaderTags_acct cfg n d3

/-- `ok` results have consumed everything that `remain` announced -/
def AcctZ {α : Type} (d : Dec) : Res α → Prop
  | .ok _ d' => (∃ pre : Bytes, d.inp = pre ++ d'.inp ∧ d.remain = pre.length) ∧ d'.remain = 0
  | _ => True

theorem bind_acctz {α β : Type} {d : Dec} {r : Res α} {f : α → Dec → Res β} (hr : Acct d r)
    (hf : ∀ a d', AcctZ d' (f a d')) : AcctZ d (r.bind f) := by
  cases r with
  | ok a d1 =>
    simp only [Res.bind]
    obtain ⟨p, hp, hs⟩ := hr
    have h2 := hf a d1
    cases hfa : f a d1 with
    | ok b d2 =>
      rw [hfa] at h2
      obtain ⟨⟨q, hq, ht⟩, hz⟩ := h2
      exact ⟨⟨p ++ q, by rw [hp, hq, List.append_assoc], by rw [hs, ht, List.length_append]⟩, hz⟩
    | _ => trivial
  | _ => trivial

/-- `d.discardAll()` followed by returning the message -/
theorem discardAll_acctz {β : Type} (d : Dec) (x : β) : AcctZ d ((discardAll d).bind fun _ d' => .ok x d') := by
  unfold discardAll
  split
  · simp only [Res.bind]
    exact ⟨⟨d.inp.take d.remain, (List.take_append_drop _ _).symm, by simp only [List.length_take]; omega⟩, rfl⟩
  · trivial

/-- the size announced by the 4-byte prefix of a response -/
def announced (stream : Bytes) : Int := toS 32 (fromBE (stream.take 4))

/-- what ReadResponse does after the size prefix, from the state ⟨rest of the stream, announced size⟩ -/
def respTail (cfg : Cfg) (flex : Bool) (t : Ty) (d : Dec) : Res (Int × Val) :=
  (Codec.readInt 4 d).bind fun corr d =>
    (if flex then
      (readUvarint d).bind fun n d => (tagCount cfg n d).bind fun k d => skipHeaderTags cfg k d
     else .ok () d).bind fun _ d =>
    (decode cfg t d).bind fun v d =>
    (discardAll d).bind fun _ d => .ok (corr, v) d

theorem readResponse_eq (cfg : Cfg) (flex : Bool) (t : Ty) (stream : Bytes) :
    readResponse cfg flex t stream =
      (Codec.readInt 4 ⟨stream, 4⟩).bind fun size d =>
        if size < 0 then (if cfg.bounded then .error else .panic) else respTail cfg flex t ⟨d.inp, size.toNat⟩ := rfl

theorem readInt4_prefix (stream : Bytes) :
    Codec.readInt 4 ⟨stream, 4⟩ = if 4 ≤ stream.length then .ok (announced stream) ⟨stream.drop 4, 0⟩ else .error := by
  unfold Codec.readInt readN announced
  by_cases h : 4 ≤ stream.length
  · simp [h, Res.bind]
  · simp [h, Res.bind]

theorem bind_ok {α β : Type} (a : α) (d : Dec) (f : α → Dec → Res β) : (Res.ok a d).bind f = f a d := rfl

theorem respTail_acctz (cfg : Cfg) (hr : RecsAcct cfg) (flex : Bool) (t : Ty) (d : Dec) : AcctZ d (respTail cfg flex t d) := by
  unfold respTail
  refine bind_acctz (readInt_acct 4 d) fun corr d1 => ?_
  refine bind_acctz ?_ fun _ d2 => bind_acctz (da_all cfg hr t d2) fun v d3 => discardAll_acctz d3 (corr, v)
  split
  · exact bind_acct (readUvarint_acct d1) fun n d2 => bind_acct (tagCount_acct cfg n d2) fun k d3 => skipHeaderTags_acct cfg k d3
  · exact acct_ok d1 _

/-- **protocol.ReadResponse, structurally** (Model/Codec.lean `readResponse`, every schema, bounded or not, flexible or
not): when it returns a message, the stream held the 4-byte prefix and the whole announced frame, exactly those
bytes were consumed, and `remain` is 0 — this is the `Decoder` contract of Props/C17, proved instead of assumed. -/
theorem readResponse_ok_consumes_frame (cfg : Cfg) (hr : RecsAcct cfg) (flex : Bool) (t : Ty) (stream : Bytes) (r : Int × Val) (d : Dec)
    (h : readResponse cfg flex t stream = .ok r d) :
    4 ≤ stream.length ∧ 0 ≤ announced stream ∧ 4 + (announced stream).toNat ≤ stream.length ∧
    d.inp = stream.drop (4 + (announced stream).toNat) ∧ d.remain = 0 := by
  rw [readResponse_eq, readInt4_prefix] at h
  by_cases h4 : 4 ≤ stream.length
  · rw [if_pos h4, bind_ok] at h
    by_cases hneg : announced stream < 0
    · rw [if_pos hneg] at h
      split at h <;> cases h
    · rw [if_neg hneg] at h
      have key := respTail_acctz cfg hr flex t ⟨stream.drop 4, (announced stream).toNat⟩
      simp only at h
      rw [h] at key
      obtain ⟨⟨pre, hp, hl⟩, hz⟩ := key
      simp only at hp hl
      have hlen : (stream.drop 4).length = pre.length + d.inp.length := by rw [hp, List.length_append]
      simp only [List.length_drop] at hlen
      refine ⟨h4, by omega, by omega, ?_, hz⟩
      have : stream.drop (4 + (announced stream).toNat) = (stream.drop 4).drop (announced stream).toNat := by
        rw [List.drop_drop, Nat.add_comm]
      rw [this, hp, hl, List.drop_left]
  · rw [if_neg h4] at h
    cases h

/-- … hence on ANY strict prefix of a frame — cut inside the size prefix, the correlation id, the tag buffer, the body,
a record set — the structural decoder does not return a message -/
theorem readResponse_cut_structural (cfg : Cfg) (hr : RecsAcct cfg) (flex : Bool) (t : Ty) (frame : Bytes)
    (hframe : frame.length = 4 + (announced frame).toNat) (hpos : 0 ≤ announced frame) (k : Nat) (hk : k < frame.length)
    (r : Int × Val) (d : Dec) : readResponse cfg flex t (frame.take k) ≠ .ok r d := by
  intro h
  obtain ⟨h4, _, hlen, _, _⟩ := readResponse_ok_consumes_frame cfg hr flex t (frame.take k) r d h
  have hk4 : 4 ≤ k := by simp only [List.length_take] at h4; omega
  have hann : announced (frame.take k) = announced frame := by
    unfold announced
    rw [List.take_take, Nat.min_eq_left hk4]
  rw [hann] at hlen
  simp only [List.length_take] at hlen
  omega

end KV.CodecAcct
