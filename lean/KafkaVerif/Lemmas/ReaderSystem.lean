/-
Lemmas/ReaderSystem.lean — the whole Reader (Model/ReaderSystem.lean) refines the front LTS of Model/ReaderFront.lean:
what a loop pushes is what the abstract fetcher of the front model enqueues (`world_msgs_prefix`), so every run of the
system projects onto a run of `fstep`, and `front_run` applies.
-/
import KafkaVerif.Model.ReaderSystem
import KafkaVerif.Lemmas.ReaderWorld
import KafkaVerif.Lemmas.ReaderFront

namespace KV.C02

/-- the loop only ever appends to what it has pushed -/
theorem rstep_msgs (cfg : RCfg) (s : RR) (e : REv) : ∃ d, (rstep cfg s e).msgs = s.msgs ++ d := by
  unfold rstep
  cases hp : s.phase with
  | stopped => exact ⟨[], by simp⟩
  | top =>
    simp only []
    split
    · cases e <;> exact ⟨[], by simp⟩
    · cases e with
      | initOk f l =>
        simp only []
        split
        · split <;> exact ⟨[], by simp⟩
        · exact ⟨[], by simp⟩
      | initFail oor => cases oor <;> simp only [] <;> (try split) <;> exact ⟨[], by simp⟩
      | _ => exact ⟨[], by simp⟩
  | reading =>
    simp only []
    split
    · cases e <;> exact ⟨[], by simp⟩
    · cases e with
      | data d off' oc => cases oc <;> exact ⟨d, rfl⟩
      | cutAfter d => exact ⟨d, rfl⟩
      | ctxCanceled d => exact ⟨d, rfl⟩
      | kerr code offs =>
        simp only [onKerr]
        split <;> (try split) <;> (try split) <;> exact ⟨[], by simp [toTop, again]⟩
      | _ => exact ⟨[], by simp [toTop]⟩

theorem frun_append (log : List Rec) : ∀ (a b : List FEv) (s : FS),
    frun log s (a ++ b) =
      match frun log s a with
      | none => none
      | some (s1, m1) =>
        match frun log s1 b with
        | none => none
        | some (s2, m2) => some (s2, m1 ++ m2) := by
  intro a
  induction a with
  | nil =>
    intro b s
    simp only [List.nil_append, frun]
    cases frun log s b with
    | none => rfl
    | some p => obtain ⟨s2, m2⟩ := p; simp
  | cons e a ih =>
    intro b s
    simp only [List.cons_append, frun]
    cases hs : fstep log s e with
    | none => rfl
    | some p =>
      obtain ⟨s1, m⟩ := p
      simp only []
      rw [ih b s1]
      cases frun log s1 a with
      | none => rfl
      | some q =>
        obtain ⟨s2, m1⟩ := q
        simp only []
        cases frun log s2 b with
        | none => rfl
        | some r => obtain ⟨s3, m2⟩ := r; simp [List.append_assoc]

theorem pushQ_nil (fs : FS) (t : Nat) : pushQ fs t [] = fs := by
  obtain ⟨v, q, fsl, a⟩ := fs
  simp only [pushQ, List.map_nil, List.append_nil, List.length_nil, Nat.add_zero, FS.mk.injEq, true_and, and_true]
  have : ∀ l : List Fetcher, l.map (fun g => if g.tag = t then { g with sent := g.sent } else g) = l := by
    intro l
    induction l with
    | nil => rfl
    | cons x xs ih => simp only [List.map_cons, ih]; split <;> rfl
  exact this fsl

/-- the next `d.length` records of fetcher `f`'s feed being `d`, that many `enqueue` steps of the front LTS put `d`
into the queue -/
theorem enqueue_many (log : List Rec) : ∀ (d : List Rec) (fs : FS) (f : Fetcher), (fs.fetchers.map (·.tag)).Nodup →
    f ∈ fs.fetchers → (∀ i (h : i < d.length), (feed log f.start)[f.sent + i]? = some d[i]) →
    frun log fs (List.replicate d.length (.enqueue f.tag)) = some (pushQ fs f.tag d, []) := by
  intro d
  induction d with
  | nil => intro fs f _ _ _; simp [frun, pushQ_nil]
  | cons r d ih =>
    intro fs f hnd hf hd
    simp only [List.length_cons, List.replicate_succ, frun]
    have hfind : fs.fetchers.find? (fun g => g.tag = f.tag) = some f := by
      cases hx : fs.fetchers.find? (fun g => g.tag = f.tag) with
      | none =>
        have := List.find?_eq_none.mp hx f hf
        simp at this
      | some g =>
        have hg := List.mem_of_find?_eq_some hx
        have hgt := List.find?_some hx
        simp only [decide_eq_true_eq] at hgt
        rw [same_tag_eq hnd hg hf hgt]
    have h0 := hd 0 (by simp)
    simp only [Nat.add_zero, List.getElem_cons_zero] at h0
    simp only [fstep, hfind, h0]
    -- the state after one enqueue, and the fetcher in it
    have hf' : ({ f with sent := f.sent + 1 } : Fetcher) ∈ bump f.tag fs.fetchers := by
      simp only [bump, List.mem_map]
      exact ⟨f, hf, by simp⟩
    have hnd' : ((bump f.tag fs.fetchers).map (·.tag)).Nodup := by rw [bump_tags]; exact hnd
    have := ih { fs with queue := fs.queue ++ [(f.tag, r)], fetchers := bump f.tag fs.fetchers } { f with sent := f.sent + 1 } hnd' hf'
      (by
        intro i hi
        have := hd (i + 1) (by simp; omega)
        simp only [List.getElem_cons_succ] at this
        rw [← this]; congr 1; simp only; omega)
    simp only at this
    rw [this]
    simp only [List.nil_append, Option.some.injEq, Prod.mk.injEq, and_true]
    simp only [pushQ, List.map_cons, List.length_cons, bump, List.map_map, FS.mk.injEq, true_and, and_true]
    refine ⟨by simp [List.append_assoc], ?_⟩
    apply List.map_congr_left
    intro g _
    simp only [Function.comp]
    by_cases hg : g.tag = f.tag
    · simp [hg]; omega
    · simp [hg]


theorem front_invariant_aux (log : List Rec) : ∀ (es : List FEv) (s s' : FS) (ms : List Rec),
    FInv log s → frun log s es = some (s', ms) → FInv log s' := by
  intro es
  induction es with
  | nil => intro s s' ms h hr; simp only [frun, Option.some.injEq, Prod.mk.injEq] at hr; rw [← hr.1]; exact h
  | cons e es ih =>
    intro s s' ms h hr
    simp only [frun] at hr
    cases hs : fstep log s e with
    | none => simp [hs] at hr
    | some p =>
      obtain ⟨s1, m⟩ := p
      simp only [hs] at hr
      cases hq : frun log s1 es with
      | none => simp [hq] at hr
      | some q =>
        obtain ⟨s2, ms'⟩ := q
        simp only [hq, Option.some.injEq, Prod.mk.injEq] at hr
        rw [← hr.1]
        exact ih s1 s2 ms' (finv_step h hs).1 hq

theorem inv_prefix {log : List Rec} (hlog : log.Pairwise (fun a b => a.1 < b.1)) {s : RR} {o0 fr : Int} (h1 : RInv log s)
    (h2 : SInv log o0 fr s) : s.msgs <+: feed log fr := by
  cases hs : s.start with
  | none => rw [(h1.nostart hs).1]; exact List.nil_prefix
  | some st =>
    rw [← h2.set st hs]
    exact loop_msgs_prefix hlog h1 st hs

theorem lookup_setLoop_same (t : Nat) (s' : RR) : ∀ (l : List (Nat × RR)) (s : RR), lookupLoop t l = some s →
    lookupLoop t (setLoop t s' l) = some s' := by
  intro l
  induction l with
  | nil => intro s h; simp [lookupLoop] at h
  | cons x xs ih =>
    intro s h
    obtain ⟨t', s0⟩ := x
    by_cases ht : t' = t
    · simp [setLoop, lookupLoop, ht]
    · simp only [lookupLoop, ht, if_false] at h
      simp only [setLoop, ht, if_false, lookupLoop]
      exact ih s h

theorem lookup_setLoop_other (t t' : Nat) (s' : RR) (hne : t' ≠ t) : ∀ (l : List (Nat × RR)),
    lookupLoop t' (setLoop t s' l) = lookupLoop t' l := by
  intro l
  induction l with
  | nil => rfl
  | cons x xs ih =>
    obtain ⟨t0, s0⟩ := x
    by_cases ht : t0 = t
    · subst ht
      have : ¬ t0 = t' := fun h => hne h.symm
      simp [setLoop, lookupLoop, this]
    · simp only [setLoop, ht, if_false, lookupLoop, ih]

/-- the front part is a reachable front state, and every fetcher of the front is a loop in a reachable state that has
pushed as many messages as the front has seen from it -/
structure CInv (items : List Item) (c : CS) : Prop where
  finv : FInv (allRecords items) c.fs
  loopOf : ∀ f ∈ c.fs.fetchers, ∃ s o, lookupLoop f.tag c.loops = some s ∧ RInv (allRecords items) s ∧
      SInv (allRecords items) o f.start s ∧ f.sent = s.msgs.length ∧ ((o = f.start ∧ o ≠ -1) ∨ o = -1)
  onlyF : ∀ t s, lookupLoop t c.loops = some s → ∃ f ∈ c.fs.fetchers, f.tag = t

theorem cinv_init (items : List Item) : CInv items {} :=
  ⟨finv_init _, by intro f hf; simp at hf, by intro t s h; simp [lookupLoop] at h⟩

def optL (m : Option Rec) : List Rec := match m with | some r => [r] | none => []

/-- one step of the system is a (possibly empty) sequence of steps of the front LTS -/
theorem cstep_sim (cfg : RCfg) (items : List Item) (nb : Int) (hnb : 0 ≤ nb) (hwf : LWF nb items) {c c' : CS} {m : Option Rec}
    {e : CEv} (h : CInv items c) (hok : e.ok items) (hat : e.okAt c) (hs : cstep cfg items c e = some (c', m)) :
    CInv items c' ∧ ∃ es', frun (allRecords items) c.fs es' = some (c'.fs, optL m) ∧
      (e.notSet → ∀ e' ∈ es', notSet e') ∧ (∀ o, e = .setOffset o → es' = [.setOffset o]) ∧
      (∀ l, e = .setOffsetLast l → es' = [.setOffset l]) := by
  have hlog := allRecords_sorted items nb hnb hwf
  cases e with
  | setOffsetLast l =>
    simp only [cstep, fstep, Option.some.injEq, Prod.mk.injEq] at hs
    obtain ⟨rfl, rfl⟩ := hs
    have hfs : fstep (allRecords items) c.fs (.setOffset l) =
        some ({ version := c.fs.version + 1, queue := c.fs.queue, fetchers := { tag := c.fs.version + 1, start := l } :: c.fs.fetchers,
                accepted := 0 }, none) := rfl
    refine ⟨⟨(finv_step h.finv hfs).1, ?_, ?_⟩, [.setOffset l], by simp [frun, fstep, optL], fun hn => absurd hn (by simp [CEv.notSet]),
      fun o' ho' => (by cases ho'), fun l' hl' => (by cases hl'; rfl)⟩
    · intro f hf
      simp only [List.mem_cons] at hf
      rcases hf with rfl | hf
      · exact ⟨{ offset := -1 }, -1, by simp [lookupLoop], rinv_init _ (-1) (by omega), ⟨fun _ => rfl, fun st hst => by cases hst⟩, rfl,
          Or.inr rfl⟩
      · obtain ⟨s, o, a1, a2, a3, a4, a5⟩ := h.loopOf f hf
        have hle := h.finv.tagle f hf
        have hne : ¬ c.fs.version + 1 = f.tag := by omega
        exact ⟨s, o, by simp only [lookupLoop, hne, if_false]; exact a1, a2, a3, a4, a5⟩
    · intro t s hl
      simp only [lookupLoop] at hl
      by_cases ht : c.fs.version + 1 = t
      · exact ⟨{ tag := c.fs.version + 1, start := l }, by simp, ht⟩
      · simp only [ht, if_false] at hl
        obtain ⟨f, hf, hft⟩ := h.onlyF t s hl
        exact ⟨f, by simp [hf], hft⟩
  | setOffset o =>
    simp only [cstep, fstep, Option.some.injEq, Prod.mk.injEq] at hs
    obtain ⟨rfl, rfl⟩ := hs
    simp only [CEv.ok] at hok
    have hfs : fstep (allRecords items) c.fs (.setOffset o) =
        some ({ version := c.fs.version + 1, queue := c.fs.queue, fetchers := { tag := c.fs.version + 1, start := o } :: c.fs.fetchers,
                accepted := 0 }, none) := rfl
    refine ⟨⟨(finv_step h.finv hfs).1, ?_, ?_⟩, [.setOffset o], by simp [frun, fstep, optL], fun hn => absurd hn (by simp [CEv.notSet]),
      fun o' ho' => (by cases ho'; rfl), fun l' hl' => (by cases hl')⟩
    · intro f hf
      simp only [List.mem_cons] at hf
      rcases hf with rfl | hf
      · exact ⟨{ offset := o }, o, by simp [lookupLoop], rinv_init _ o hok.1, ⟨fun _ => rfl, fun st hst => by cases hst⟩, rfl,
          Or.inl ⟨rfl, hok.2⟩⟩
      · obtain ⟨s, o', a1, a2, a3, a4, a5⟩ := h.loopOf f hf
        have hle := h.finv.tagle f hf
        have hne : ¬ c.fs.version + 1 = f.tag := by omega
        exact ⟨s, o', by simp only [lookupLoop, hne, if_false]; exact a1, a2, a3, a4, a5⟩
    · intro t s hl
      simp only [lookupLoop] at hl
      by_cases ht : c.fs.version + 1 = t
      · exact ⟨{ tag := c.fs.version + 1, start := o }, by simp, ht⟩
      · simp only [ht, if_false] at hl
        obtain ⟨f, hf, hft⟩ := h.onlyF t s hl
        exact ⟨f, by simp [hf], hft⟩
  | fetch =>
    simp only [cstep] at hs
    cases hfs : fstep (allRecords items) c.fs .fetch with
    | none => simp [hfs] at hs
    | some p =>
      obtain ⟨fs', m'⟩ := p
      simp only [hfs, Option.some.injEq, Prod.mk.injEq] at hs
      obtain ⟨rfl, rfl⟩ := hs
      have hfet : fs'.fetchers = c.fs.fetchers := by
        simp only [fstep] at hfs
        cases hq : Front.fetchMessage { version := c.fs.version, queue := c.fs.queue } with
        | none => simp [hq] at hfs
        | some q =>
          obtain ⟨r, f'⟩ := q
          simp only [hq, Option.some.injEq, Prod.mk.injEq] at hfs
          rw [← hfs.1]
      refine ⟨⟨(finv_step h.finv hfs).1, ?_, ?_⟩, [.fetch], ?_, fun _ e' he' => by simp at he'; subst he'; simp [notSet],
        fun o ho => (by cases ho), fun l hl => (by cases hl)⟩
      · intro f hf
        simp only [hfet] at hf
        exact h.loopOf f hf
      · intro t s hl
        obtain ⟨f, hf, hft⟩ := h.onlyF t s hl
        exact ⟨f, by simp only [hfet]; exact hf, hft⟩
      · simp only [frun, hfs, optL]
        cases m' <;> simp
  | env t x =>
    simp only [cstep] at hs
    cases hl : lookupLoop t c.loops with
    | none => simp [hl] at hs
    | some s =>
      simp only [hl, Option.some.injEq, Prod.mk.injEq] at hs
      obtain ⟨rfl, rfl⟩ := hs
      simp only [CEv.ok] at hok
      obtain ⟨f, hf, hft⟩ := h.onlyF t s hl
      obtain ⟨s0, o, a1, a2, a3, a4, a5⟩ := h.loopOf f hf
      rw [hft, hl] at a1
      cases a1
      obtain ⟨d, hd⟩ := rstep_msgs cfg s (worldEvent items s x)
      have hdrop : (rstep cfg s (worldEvent items s x)).msgs.drop s.msgs.length = d := by rw [hd]; simp
      rw [hdrop]
      have a2' := rinv_world_step cfg items nb hnb hwf a2 x hok
      have a3' : SInv (allRecords items) o f.start (rstep cfg s (worldEvent items s x)) := by
        rcases world_good cfg items nb hnb hwf a2 x hok with hg | he
        · refine sinv_step cfg _ a2 a3 hg ?_
          rcases a5 with ⟨ho, hne⟩ | ho
          · rw [← ho]; exact sinv_res_abs hne _
          · -- a fetcher started at LastOffset: the broker reports the promised log end
            intro f' l he hs0 _
            have hx : x = .initOk f' l := by
              cases x <;> simp [worldEvent] at he
              rw [he.1, he.2]
            subst hx
            have := hat s hl hs0 (by rw [a3.unset hs0, ho]) f hf hft
            rw [ho, this]
            simp [resolve]
        · rw [he]; exact a3
      obtain ⟨tl, htl⟩ := inv_prefix hlog a2' a3'
      have hslice : ∀ i (hi : i < d.length), (feed (allRecords items) f.start)[f.sent + i]? = some d[i] := by
        intro i hi
        rw [← htl, hd, a4]
        rw [List.getElem?_append_left (by simp; omega)]
        rw [List.getElem?_append_right (by omega)]
        simp [hi]
      have hrun := enqueue_many (allRecords items) d c.fs f h.finv.nodup hf hslice
      rw [hft] at hrun
      have hfinv' : FInv (allRecords items) (pushQ c.fs t d) :=
        front_invariant_aux (allRecords items) _ _ _ _ h.finv hrun
      refine ⟨⟨hfinv', ?_, ?_⟩, List.replicate d.length (.enqueue t), by simpa [optL] using hrun,
        fun _ e' he' => by rw [List.mem_replicate] at he'; rw [he'.2]; simp [notSet], fun o ho => (by cases ho), fun l hl' => (by cases hl')⟩
      · intro g' hg'
        simp only [pushQ, List.mem_map] at hg'
        obtain ⟨g, hg, rfl⟩ := hg'
        by_cases hgt : g.tag = t
        · have hgf : g = f := same_tag_eq h.finv.nodup hg hf (by rw [hgt, hft])
          subst hgf
          simp only [hgt, if_true]
          refine ⟨_, o, lookup_setLoop_same t _ c.loops s hl, a2', a3', ?_, a5⟩
          rw [hd, List.length_append, ← a4]
        · simp only [hgt, if_false]
          obtain ⟨sg, og, b1, b2, b3, b4, b5⟩ := h.loopOf g hg
          exact ⟨sg, og, by rw [lookup_setLoop_other t g.tag _ hgt]; exact b1, b2, b3, b4, b5⟩
      · intro t' s' hl'
        by_cases htt : t' = t
        · subst htt
          refine ⟨{ f with sent := f.sent + d.length }, ?_, hft⟩
          simp only [pushQ, List.mem_map]
          exact ⟨f, hf, by simp [hft]⟩
        · rw [lookup_setLoop_other t t' _ htt] at hl'
          obtain ⟨g, hg, hgt⟩ := h.onlyF t' s' hl'
          refine ⟨g, ?_, hgt⟩
          simp only [pushQ, List.mem_map]
          exact ⟨g, hg, by simp [hgt, htt]⟩


theorem crun_cons {cfg : RCfg} {items : List Item} {c c' : CS} {e : CEv} {es : List CEv} {ms : List Rec}
    (h : crun cfg items c (e :: es) = some (c', ms)) :
    ∃ c1 m ms', cstep cfg items c e = some (c1, m) ∧ crun cfg items c1 es = some (c', ms') ∧ ms = optL m ++ ms' := by
  simp only [crun] at h
  cases hs : cstep cfg items c e with
  | none => simp [hs] at h
  | some p =>
    obtain ⟨c1, m⟩ := p
    simp only [hs] at h
    cases hq : crun cfg items c1 es with
    | none => simp [hq] at h
    | some q =>
      obtain ⟨c2, ms'⟩ := q
      simp only [hq, Option.some.injEq, Prod.mk.injEq] at h
      exact ⟨c1, m, ms', rfl, by rw [← h.1]; exact hq, by rw [← h.2]; rfl⟩

/-- every run of the system is a run of the front LTS (same messages returned by FetchMessage) -/
theorem crun_sim (cfg : RCfg) (items : List Item) (nb : Int) (hnb : 0 ≤ nb) (hwf : LWF nb items) :
    ∀ (es : List CEv) (c c' : CS) (ms : List Rec), CInv items c → OkRun cfg items c es →
      crun cfg items c es = some (c', ms) →
      CInv items c' ∧ ∃ es', frun (allRecords items) c.fs es' = some (c'.fs, ms) ∧
        ((∀ e ∈ es, e.notSet) → ∀ e' ∈ es', notSet e') := by
  intro es
  induction es with
  | nil =>
    intro c c' ms h _ hr
    simp only [crun, Option.some.injEq, Prod.mk.injEq] at hr
    obtain ⟨rfl, rfl⟩ := hr
    exact ⟨h, [], rfl, fun _ e' he' => by simp at he'⟩
  | cons e es ih =>
    intro c c' ms h hok hr
    obtain ⟨c1, m, ms', hs, hq, rfl⟩ := crun_cons hr
    obtain ⟨hok1, hok2, hok3⟩ := hok
    obtain ⟨h1, es1, hf1, hn1, _⟩ := cstep_sim cfg items nb hnb hwf h hok1 hok2 hs
    obtain ⟨h2, es2, hf2, hn2⟩ := ih c1 c' ms' h1 (hok3 c1 m hs) hq
    refine ⟨h2, es1 ++ es2, ?_, ?_⟩
    · rw [frun_append, hf1]; simp only [hf2]
    · intro hns e' he'
      rw [List.mem_append] at he'
      rcases he' with he' | he'
      · exact hn1 (hns e (by simp)) e' he'
      · exact hn2 (fun x hx => hns x (by simp [hx])) e' he'

/-- after `SetOffset(o)`, along any run of the whole system without a further SetOffset, the front LTS makes the same
run -/
theorem crun_after_set (cfg : RCfg) (items : List Item) (nb : Int) (hnb : 0 ≤ nb) (hwf : LWF nb items) (c0 c' : CS)
    (h0 : CInv items c0) (o : Int) (es : List CEv) (hok : OkRun cfg items c0 (.setOffset o :: es))
    (hns : ∀ e ∈ es, e.notSet) (ms : List Rec) (hr : crun cfg items c0 (.setOffset o :: es) = some (c', ms)) :
    ∃ es', (∀ e' ∈ es', notSet e') ∧ frun (allRecords items) c0.fs (.setOffset o :: es') = some (c'.fs, ms) := by
  obtain ⟨c1, m, ms', hs, hq, rfl⟩ := crun_cons hr
  obtain ⟨hok1, hok2, hok3⟩ := hok
  obtain ⟨h1, es1, hf1, _, he1, _⟩ := cstep_sim cfg items nb hnb hwf h0 (e := .setOffset o) hok1 hok2 hs
  have := he1 o rfl
  subst this
  have hm : m = none := by
    simp only [cstep, fstep, Option.some.injEq, Prod.mk.injEq] at hs
    exact hs.2.symm
  subst hm
  obtain ⟨_, es2, hf2, hn2⟩ := crun_sim cfg items nb hnb hwf es c1 c' ms' h1 (hok3 c1 none hs) hq
  refine ⟨es2, hn2 hns, ?_⟩
  have := frun_append (allRecords items) [.setOffset o] es2 c0.fs
  simp only [List.singleton_append] at this
  rw [this, hf1]
  simp only [hf2, optL, List.nil_append]

/-- … and after `SetOffset(LastOffset)`: the front LTS makes the same run with a fetcher started at the log end `l` the
broker reports to it -/
theorem crun_after_set_last (cfg : RCfg) (items : List Item) (nb : Int) (hnb : 0 ≤ nb) (hwf : LWF nb items) (c0 c' : CS)
    (h0 : CInv items c0) (l : Int) (es : List CEv) (hok : OkRun cfg items c0 (.setOffsetLast l :: es))
    (hns : ∀ e ∈ es, e.notSet) (ms : List Rec) (hr : crun cfg items c0 (.setOffsetLast l :: es) = some (c', ms)) :
    ∃ es', (∀ e' ∈ es', notSet e') ∧ frun (allRecords items) c0.fs (.setOffset l :: es') = some (c'.fs, ms) := by
  obtain ⟨c1, m, ms', hs, hq, rfl⟩ := crun_cons hr
  obtain ⟨hok1, hok2, hok3⟩ := hok
  obtain ⟨h1, es1, hf1, _, _, he1⟩ := cstep_sim cfg items nb hnb hwf h0 (e := .setOffsetLast l) hok1 hok2 hs
  have := he1 l rfl
  subst this
  have hm : m = none := by
    simp only [cstep, fstep, Option.some.injEq, Prod.mk.injEq] at hs
    exact hs.2.symm
  subst hm
  obtain ⟨_, es2, hf2, hn2⟩ := crun_sim cfg items nb hnb hwf es c1 c' ms' h1 (hok3 c1 none hs) hq
  refine ⟨es2, hn2 hns, ?_⟩
  have := frun_append (allRecords items) [.setOffset l] es2 c0.fs
  simp only [List.singleton_append] at this
  rw [this, hf1]
  simp only [hf2, optL, List.nil_append]

end KV.C02

namespace KV.C02

/-! ### the API: `Offset()`, `SetOffset`'s no-op rule, the lazy start -/

theorem feed_sorted {log : List Rec} (hlog : log.Pairwise (fun a b => a.1 < b.1)) (o : Int) :
    (feed log o).Pairwise (fun a b => a.1 < b.1) := hlog.filter _

/-- after the first stored record at or above `pos` come the stored records above it -/
theorem feed_tail {log : List Rec} (hlog : log.Pairwise (fun a b => a.1 < b.1)) {pos : Int} {r : Rec} {rest : List Rec}
    (h : feed log pos = r :: rest) : rest = feed log (r.1 + 1) := by
  have hs := feed_sorted hlog pos
  rw [h, List.pairwise_cons] at hs
  apply sorted_ext _ _ hs.2 (feed_sorted hlog _)
  intro x
  have hmem : ∀ y, y ∈ feed log pos ↔ (y ∈ log ∧ pos ≤ y.1) := by intro y; simp [feed]
  have hr := (hmem r).1 (by rw [h]; simp)
  constructor
  · intro hx
    have := (hmem x).1 (by rw [h]; simp [hx])
    have := hs.1 x hx
    simp only [feed, List.mem_filter, decide_eq_true_eq]
    exact ⟨‹x ∈ log ∧ pos ≤ x.1›.1, by omega⟩
  · intro hx
    simp only [feed, List.mem_filter, decide_eq_true_eq] at hx
    have := (hmem x).2 ⟨hx.1, by omega⟩
    rw [h, List.mem_cons] at this
    rcases this with rfl | this
    · omega
    · exact this

structure AInv (items : List Item) (a : AS) : Prop where
  cinv : CInv items a.c
  posok : -2 ≤ a.pos ∧ a.pos ≠ -1
  cur : a.c.fs.version ≠ 0 → ∃ f ∈ a.c.fs.fetchers, f.tag = a.c.fs.version ∧
    (feed (allRecords items) f.start).drop a.c.fs.accepted = feed (allRecords items) a.pos
  /-- no fetcher of this layer is started at LastOffset -/
  nolast : ∀ t s, lookupLoop t a.c.loops = some s → s.start = none → s.offset ≠ -1

theorem ainv_init (items : List Item) (o : Int) (ho : -2 ≤ o ∧ o ≠ -1) : AInv items { pos := o } :=
  ⟨cinv_init items, ho, fun h => absurd rfl h, by intro t s h; simp [lookupLoop] at h⟩

/-- what the three calls do, seen by the application -/
def ASpec (items : List Item) (a : AS) (e : AEv) (a' : AS) (m : Option Rec) : Prop :=
  match e with
  | .close => a'.pos = a.pos ∧ m = none ∧ a'.closed = true
  | .setOffset o => if a.closed then a' = a ∧ m = none else a'.pos = o ∧ m = none ∧ a'.closed = false
  | .env _ _ => a'.pos = a.pos ∧ m = none ∧ a'.closed = a.closed
  | .fetch =>
    if a.closed then a' = a ∧ m = none     -- io.EOF: nothing is handed out after Close
    else match m with
      | some r => (feed (allRecords items) a.pos).head? = some r ∧ a'.pos = r.1 + 1 ∧ a'.closed = false
      | none => a'.pos = a.pos ∧ a'.closed = false

theorem cstep_set (cfg : RCfg) (items : List Item) (c : CS) (o : Int) :
    cstep cfg items c (.setOffset o) =
      some ({ fs := { version := c.fs.version + 1, queue := c.fs.queue,
                      fetchers := { tag := c.fs.version + 1, start := o } :: c.fs.fetchers, accepted := 0 },
              loops := (c.fs.version + 1, { offset := o }) :: c.loops }, none) := by
  simp [cstep, fstep]

theorem astep_inv (cfg : RCfg) (items : List Item) (nb : Int) (hnb : 0 ≤ nb) (hwf : LWF nb items) {a a' : AS} {m : Option Rec}
    {e : AEv} (h : AInv items a) (hok : e.ok items) (hs : astep cfg items a e = some (a', m)) :
    AInv items a' ∧ ASpec items a e a' m := by
  have hlog := allRecords_sorted items nb hnb hwf
  have hstart : ∀ o, -2 ≤ o ∧ o ≠ -1 → ∀ x : AS,
      x.c = { fs := { version := a.c.fs.version + 1, queue := a.c.fs.queue,
                      fetchers := { tag := a.c.fs.version + 1, start := o } :: a.c.fs.fetchers, accepted := 0 },
              loops := (a.c.fs.version + 1, { offset := o }) :: a.c.loops } → x.pos = o → AInv items x := by
    intro o ho x hxc hxp
    have hc := (cstep_sim cfg items nb hnb hwf h.cinv (e := .setOffset o) ho trivial (cstep_set cfg items a.c o)).1
    refine ⟨by rw [hxc]; exact hc, by rw [hxp]; exact ho, fun _ => ?_, ?_⟩
    · rw [hxc, hxp]
      exact ⟨{ tag := a.c.fs.version + 1, start := o }, by simp, rfl, by simp⟩
    · intro t s hl hs0
      rw [hxc] at hl
      simp only [lookupLoop] at hl
      by_cases ht : a.c.fs.version + 1 = t
      · simp only [ht, if_true, Option.some.injEq] at hl
        rw [← hl]; exact ho.2
      · simp only [ht, if_false] at hl
        exact h.nolast t s hl hs0
  cases e with
  | close =>
    simp only [astep, Option.some.injEq, Prod.mk.injEq] at hs
    obtain ⟨rfl, rfl⟩ := hs
    exact ⟨⟨h.cinv, h.posok, h.cur, h.nolast⟩, by simp [ASpec]⟩
  | setOffset o =>
    simp only [AEv.ok] at hok
    simp only [astep] at hs
    by_cases hcl : a.closed = true
    · simp only [hcl, if_true, Option.some.injEq, Prod.mk.injEq] at hs
      obtain ⟨rfl, rfl⟩ := hs
      exact ⟨h, by simp [ASpec, hcl]⟩
    have hcl' : a.closed = false := by simpa using hcl
    simp only [hcl', Bool.false_eq_true, if_false] at hs
    by_cases h1 : o = a.pos
    · simp only [h1, if_true, Option.some.injEq, Prod.mk.injEq] at hs
      obtain ⟨rfl, rfl⟩ := hs
      exact ⟨h, by simp [ASpec, h1, hcl']⟩
    · simp only [h1, if_false] at hs
      by_cases h2 : a.c.fs.version = 0
      · simp only [h2, if_true, Option.some.injEq, Prod.mk.injEq] at hs
        obtain ⟨rfl, rfl⟩ := hs
        exact ⟨⟨h.cinv, hok, fun hv => absurd h2 hv, h.nolast⟩, by simp [ASpec, hcl']⟩
      · simp only [h2, if_false, cstep_set, Option.some.injEq, Prod.mk.injEq] at hs
        obtain ⟨rfl, rfl⟩ := hs
        exact ⟨hstart o hok _ rfl rfl, by simp [ASpec, hcl']⟩
  | env t x =>
    simp only [AEv.ok] at hok
    simp only [astep] at hs
    cases hc : cstep cfg items a.c (.env t x) with
    | none => simp [hc] at hs
    | some p =>
      obtain ⟨c', m'⟩ := p
      simp only [hc, Option.some.injEq, Prod.mk.injEq] at hs
      obtain ⟨rfl, rfl⟩ := hs
      have hat : (CEv.env t x).okAt a.c := by
        cases x <;> simp only [CEv.okAt]
        intro s hl hs0 ho
        exact absurd ho (h.nolast t s hl hs0)
      obtain ⟨hc', _⟩ := cstep_sim cfg items nb hnb hwf h.cinv (e := .env t x) hok hat hc
      -- the front part: version, accepted and the fetchers' start offsets are untouched
      simp only [cstep] at hc
      cases hl : lookupLoop t a.c.loops with
      | none => simp [hl] at hc
      | some s =>
        simp only [hl, Option.some.injEq, Prod.mk.injEq] at hc
        obtain ⟨rfl, _⟩ := hc
        refine ⟨⟨hc', h.posok, ?_, ?_⟩, by simp [ASpec]⟩
        rotate_left
        · -- no loop turns into one started at LastOffset
          intro t' s' hl' hs0'
          by_cases htt : t' = t
          · subst htt
            rw [lookup_setLoop_same t' _ a.c.loops s hl] at hl'
            cases hl'
            obtain ⟨f, hf, hft⟩ := h.cinv.onlyF t' s hl
            obtain ⟨s1, o1, b1, b2, _⟩ := h.cinv.loopOf f hf
            rw [hft, hl] at b1
            cases b1
            rcases rstep_start cfg s (worldEvent items s x) with h1 | ⟨_, f', l', _, h2⟩
            · have hs0 : s.start = none := by rw [← h1]; exact hs0'
              have hnr : s.phase ≠ .reading := fun hr => (b2.conn hr).1 hs0
              rcases rstep_offset_top cfg s (worldEvent items s x) hnr with h3 | h3
              · rw [h3]; exact h.nolast t' s hl hs0
              · exact absurd hs0' h3
            · rw [h2] at hs0'; cases hs0'
          · rw [lookup_setLoop_other t t' _ htt] at hl'
            exact h.nolast t' s' hl' hs0'
        intro hv
        obtain ⟨f, hf, hft, hfd⟩ := h.cur hv
        refine ⟨if f.tag = t then { f with sent := f.sent + ((rstep cfg s (worldEvent items s x)).msgs.drop s.msgs.length).length } else f,
          ?_, ?_, ?_⟩
        · simp only [pushQ, List.mem_map]; exact ⟨f, hf, rfl⟩
        · split <;> exact hft
        · split <;> exact hfd
  | fetch =>
    simp only [astep] at hs
    by_cases hcl : a.closed = true
    · simp only [hcl, if_true, Option.some.injEq, Prod.mk.injEq] at hs
      obtain ⟨rfl, rfl⟩ := hs
      exact ⟨h, by simp [ASpec, hcl]⟩
    have hcl' : a.closed = false := by simpa using hcl
    simp only [hcl', Bool.false_eq_true, if_false] at hs
    by_cases h2 : a.c.fs.version = 0
    · simp only [h2, if_true, cstep_set, Option.some.injEq, Prod.mk.injEq] at hs
      obtain ⟨rfl, rfl⟩ := hs
      exact ⟨hstart a.pos h.posok _ (by simp [h2]) rfl, by simp [ASpec, hcl']⟩
    · simp only [h2, if_false] at hs
      cases hc : cstep cfg items a.c .fetch with
      | none => simp [hc] at hs
      | some p =>
        obtain ⟨c2, m'⟩ := p
        simp only [hc, Option.some.injEq, Prod.mk.injEq] at hs
        obtain ⟨rfl, rfl⟩ := hs
        obtain ⟨hc', _⟩ := cstep_sim cfg items nb hnb hwf h.cinv (e := .fetch) trivial trivial hc
        obtain ⟨f, hf, hft, hfd⟩ := h.cur h2
        simp only [cstep] at hc
        cases hfs : fstep (allRecords items) a.c.fs .fetch with
        | none => simp [hfs] at hc
        | some q =>
          obtain ⟨fs', m2⟩ := q
          simp only [hfs, Option.some.injEq, Prod.mk.injEq] at hc
          obtain ⟨rfl, rfl⟩ := hc
          have hget := (finv_step h.cinv.finv hfs).2
          -- what fstep did to the front
          simp only [fstep] at hfs
          cases hq : Front.fetchMessage { version := a.c.fs.version, queue := a.c.fs.queue } with
          | none => simp [hq] at hfs
          | some q2 =>
            obtain ⟨r, f'⟩ := q2
            simp only [hq, Option.some.injEq, Prod.mk.injEq] at hfs
            obtain ⟨rfl, rfl⟩ := hfs
            have hr := hget r rfl f hf hft
            have hhead : feed (allRecords items) a.pos = r :: (feed (allRecords items) a.pos).tail := by
              rw [← hfd]
              have : ((feed (allRecords items) f.start).drop a.c.fs.accepted)[0]? = some r := by
                rw [List.getElem?_drop]; simpa using hr
              cases hd : (feed (allRecords items) f.start).drop a.c.fs.accepted with
              | nil => rw [hd] at this; simp at this
              | cons y ys => rw [hd] at this; simp at this; simp [this]
            have htail := feed_tail hlog hhead
            have hrec : r ∈ allRecords items := by
              have : r ∈ feed (allRecords items) a.pos := by rw [hhead]; simp
              simp only [feed, List.mem_filter] at this
              exact this.1
            have hr0 := records_ge hwf r hrec
            refine ⟨⟨hc', ⟨by simp only; omega, by simp only; omega⟩, ?_, h.nolast⟩, ?_⟩
            · intro _
              refine ⟨f, hf, hft, ?_⟩
              simp only
              rw [← htail, ← List.drop_drop, hfd, hhead]
              simp
            · simp only [ASpec, hcl', Bool.false_eq_true, if_false, and_true]
              rw [hhead]; rfl

end KV.C02

namespace KV.C02

theorem arun_inv (cfg : RCfg) (items : List Item) (nb : Int) (hnb : 0 ≤ nb) (hwf : LWF nb items) :
    ∀ (es : List AEv) (a a' : AS) (ms : List Rec), AInv items a → (∀ e ∈ es, e.ok items) →
      arun cfg items a es = some (a', ms) → AInv items a' := by
  intro es
  induction es with
  | nil =>
    intro a a' ms h _ hr
    simp only [arun, Option.some.injEq, Prod.mk.injEq] at hr
    rw [← hr.1]; exact h
  | cons e es ih =>
    intro a a' ms h hok hr
    simp only [arun] at hr
    cases hs : astep cfg items a e with
    | none => simp [hs] at hr
    | some p =>
      obtain ⟨a1, m⟩ := p
      simp only [hs] at hr
      cases hq : arun cfg items a1 es with
      | none => simp [hq] at hr
      | some q =>
        obtain ⟨a2, ms'⟩ := q
        simp only [hq, Option.some.injEq, Prod.mk.injEq] at hr
        rw [← hr.1]
        exact ih a1 a2 ms' (astep_inv cfg items nb hnb hwf h (hok e (by simp)) hs).1 (fun x hx => hok x (by simp [hx])) hq

end KV.C02

namespace KV.C02

/-! ### no starvation -/

/-- everything stored at or above the start offset has been pushed -/
def Done (log : List Rec) (s : RR) : Prop := ∃ st, s.start = some st ∧ ∀ r ∈ log, st ≤ r.1 → r ∈ s.msgs

theorem done_step (cfg : RCfg) {log : List Rec} {s : RR} (e : REv) (h : Done log s) : Done log (rstep cfg s e) := by
  obtain ⟨st, hst, hall⟩ := h
  obtain ⟨d, hd⟩ := rstep_msgs cfg s e
  refine ⟨st, ?_, ?_⟩
  · rcases rstep_start cfg s e with h1 | ⟨h1, _⟩
    · rw [h1]; exact hst
    · rw [hst] at h1; cases h1
  · intro r hr h1
    rw [hd]
    exact List.mem_append_left _ (hall r hr h1)

theorem done_of_passed {log : List Rec} {s : RR} (h : RInv log s) (hr : s.phase = .reading) (hall : ∀ r ∈ log, r.1 < s.connOff) :
    Done log s := by
  obtain ⟨hst, _, hgap⟩ := h.conn hr
  cases hs : s.start with
  | none => exact absurd hs hst
  | some st =>
    refine ⟨st, hs, ?_⟩
    intro r hrl h1
    by_cases hlt : r.1 < s.offset
    · exact (h.bounds st hs).2.2.2 r hrl h1 hlt
    · exact absurd (hgap r hrl (by omega) (hall r hrl)) id

theorem rstep_sleep_reading (cfg : RCfg) (s : RR) (hp : s.phase = .reading) :
    (rstep cfg s .sleepOk).phase = .reading ∧ (rstep cfg s .sleepOk).connOff = s.connOff ∧ (rstep cfg s .sleepOk).slept = true := by
  cases hs : s.slept <;> simp [rstep, hp, hs]

theorem dropBefore_mem (q : Int) : ∀ (items : List Item) (it : Item), it ∈ dropBefore q items → it ∈ items := by
  intro items
  induction items with
  | nil => intro it h; simp [dropBefore] at h
  | cons x rest ih =>
    intro it h
    simp only [dropBefore] at h
    split at h
    · exact List.mem_cons_of_mem _ (ih it h)
    · exact h

/-- **no starvation**: however far behind the loop is, `k` fault-free rounds (sleep, fetch — any byte budgets, deadline
passed or not) with `k` at least the number of stored batches / messages from the connection's position on deliver every
stored record from the start offset on -/
theorem catch_up (cfg : RCfg) (items : List Item) (nb : Int) (hnb : 0 ≤ nb) (hwf : LWF nb items) (hwm : Int)
    (hh : ∀ it ∈ items, it.last < hwm) :
    ∀ (moves : List (Nat × Bool)) (s : RR), RInv (allRecords items) s →
      (Done (allRecords items) s ∨ (s.phase = .reading ∧ (dropBefore s.connOff items).length ≤ moves.length)) →
      Done (allRecords items) (worldRun cfg items s (moves.flatMap fun m => [Env.sleepOk, Env.fetch m.1 hwm m.2])) := by
  intro moves
  induction moves with
  | nil =>
    intro s h hc
    simp only [List.flatMap_nil, worldRun]
    rcases hc with hd | ⟨hr, hl⟩
    · exact hd
    · have : dropBefore s.connOff items = [] := List.eq_nil_of_length_eq_zero (by simpa using hl)
      exact done_of_passed h hr (dropBefore_nil_all hwf _ this)
  | cons mv moves ih =>
    intro s h hc
    obtain ⟨b, e⟩ := mv
    simp only [List.flatMap_cons, List.cons_append, List.nil_append, worldRun]
    have h1 := rinv_world_step cfg items nb hnb hwf h .sleepOk trivial
    have h2 := rinv_world_step cfg items nb hnb hwf h1 (.fetch b hwm e) trivial
    apply ih _ h2
    have hdone : Done (allRecords items) s → Done (allRecords items)
        (rstep cfg (rstep cfg s (worldEvent items s .sleepOk)) (worldEvent items (rstep cfg s (worldEvent items s .sleepOk)) (.fetch b hwm e))) :=
      fun hd => done_step cfg _ (done_step cfg _ hd)
    rcases hc with hd | ⟨hr, hl⟩
    · exact Or.inl (hdone hd)
    · cases hsub : dropBefore s.connOff items with
      | nil => exact Or.inl (hdone (done_of_passed h hr (dropBefore_nil_all hwf _ hsub)))
      | cons it rest =>
        right
        obtain ⟨p1, p2, p3⟩ := rstep_sleep_reading cfg s hr
        simp only [worldEvent] at p1 p2 p3 ⊢
        -- the state after the sleep
        obtain ⟨s1, hs1⟩ : ∃ s1, s1 = rstep cfg s .sleepOk := ⟨_, rfl⟩
        rw [← hs1] at p1 p2 p3 ⊢
        have hq : 0 ≤ s.connOff := by
          obtain ⟨hst, hoc, _⟩ := h.conn hr
          cases hs : s.start with
          | none => exact absurd hs hst
          | some st => have := h.bounds st hs; omega
        obtain ⟨d1, d2, d3, d4⟩ := dropBefore_spec s.connOff hwf
        have hlast := d4 it rest hsub
        have hitm : it ∈ items := dropBefore_mem s.connOff items it (by rw [hsub]; simp)
        have hne : hwm ≠ s.connOff := by have := hh it hitm; omega
        have hsz : it.size ≤ serveBudget (dropBefore s.connOff items) b := by rw [hsub]; simp only [serveBudget]; omega
        obtain ⟨f1, f2, f3, f4, f5⟩ := fetch_round_gen items nb hnb hwf hwm s.connOff hq e (serveBudget (dropBefore s.connOff items) b)
        obtain ⟨g1, _, g3⟩ := f5 (by intro it' rest' h'; rw [hsub] at h'; cases h'; exact hsz)
        have hprog := g3 hne it rest hsub
        have hnu : (readAll .fixed e s.connOff hwm (truncate (allTokens (dropBefore s.connOff items)) (serveBudget (dropBefore s.connOff items) b))).2.2
            ≠ .unexpectedEOF := by
          rw [hsub] at d1 ⊢
          exact fetch_whole_started nb it rest d1 e s.connOff hwm hne _ (by rw [hsub] at hsz; exact hsz)
        simp only [serve, p2]
        rw [fetch_round_pull items nb hnb hwf hwm s.connOff hq e _]
        -- the round
        obtain ⟨res, hres⟩ : ∃ res, res = readAll .fixed e s.connOff hwm
            (truncate (allTokens (dropBefore s.connOff items)) (serveBudget (dropBefore s.connOff items) b)) := ⟨_, rfl⟩
        rw [← hres] at f4 hprog hnu ⊢
        have hstep : (rstep cfg s1 (.data res.1 res.2.1 res.2.2)).phase = .reading ∧
            (rstep cfg s1 (.data res.1 res.2.1 res.2.2)).connOff = res.2.1 := by
          cases hoc : res.2.2 with
          | eof => simp [rstep, p1, p3, again, pushMsgs]
          | timedOut => simp [rstep, p1, p3, again, pushMsgs]
          | unexpectedEOF => exact absurd hoc hnu
          | desync => exact absurd hoc f4
        refine ⟨hstep.1, ?_⟩
        rw [hstep.2, ← dropBefore_trans s.connOff res.2.1 (by omega) items, hsub]
        have : it.last < res.2.1 := by omega
        simp only [dropBefore, this, if_true]
        have := dropBefore_length_le res.2.1 rest
        rw [hsub] at hl
        simp only [List.length_cons] at hl
        omega

end KV.C02
