/-
Lemmas/ListOffsets.lean — helper lemmas for Props/C19.lean: the grouping + sorting of Merge is a permutation
of the appended entries.
-/
import KafkaVerif.Model.ListOffsets

namespace KV.Lemmas.ListOffsets
open KV.ListOffsets

theorem insertBy_perm {α : Type} (lt : α → α → Bool) (x : α) (l : List α) : (insertBy lt x l).Perm (x :: l) := by
  induction l with
  | nil => exact List.Perm.refl _
  | cons y ys ih =>
    simp only [insertBy]
    split
    · exact (List.Perm.cons y ih).trans (List.Perm.swap x y ys)
    · exact List.Perm.refl _

theorem sortBy_perm {α : Type} (lt : α → α → Bool) (l : List α) : (sortBy lt l).Perm l := by
  induction l with
  | nil => exact List.Perm.refl _
  | cons x xs ih => exact (insertBy_perm lt x _).trans (List.Perm.cons x ih)

theorem mem_dedup (l : List String) (x : String) : x ∈ dedup l ↔ x ∈ l := by
  induction l with
  | nil => simp [dedup]
  | cons y ys ih =>
    simp only [dedup]
    split
    · next h =>
      have hy : y ∈ dedup ys := by simpa using h
      constructor
      · intro hx; exact List.mem_cons_of_mem _ (ih.mp hx)
      · intro hx
        rcases List.mem_cons.mp hx with rfl | hx
        · exact hy
        · exact ih.mpr hx
    · simp [ih]

theorem nodup_dedup (l : List String) : (dedup l).Nodup := by
  induction l with
  | nil => simp [dedup]
  | cons y ys ih =>
    simp only [dedup]
    split
    · exact ih
    · next h =>
      have : y ∉ dedup ys := by simpa using h
      exact List.nodup_cons.mpr ⟨this, ih⟩

theorem flatMap_perm_congr {α β : Type} (ns : List α) (f g : α → List β) (h : ∀ n ∈ ns, (f n).Perm (g n)) :
    (ns.flatMap f).Perm (ns.flatMap g) := by
  induction ns with
  | nil => exact List.Perm.refl _
  | cons n ns ih =>
    simp only [List.flatMap_cons]
    exact List.Perm.append (h n List.mem_cons_self) (ih fun m hm => h m (List.mem_cons_of_mem _ hm))

theorem flatMap_filter_absent {β : Type} (ns : List String) (es : List (String × β)) (e : String × β) (h : e.1 ∉ ns) :
    ns.flatMap (fun n => (e :: es).filter (·.1 == n)) = ns.flatMap (fun n => es.filter (·.1 == n)) := by
  induction ns with
  | nil => rfl
  | cons n ns ih =>
    have hn : e.1 ≠ n := fun h' => h (h' ▸ List.mem_cons_self)
    have hns : e.1 ∉ ns := fun h' => h (List.mem_cons_of_mem _ h')
    simp only [List.flatMap_cons, ih hns]
    have : (e.1 == n) = false := by simpa using hn
    simp [this]

/-- listing a list by the distinct values of a key loses and duplicates nothing -/
theorem flatMap_filter_perm {β : Type} (ns : List String) (es : List (String × β)) (hnd : ns.Nodup)
    (hcov : ∀ e ∈ es, e.1 ∈ ns) : (ns.flatMap (fun n => es.filter (·.1 == n))).Perm es := by
  induction es with
  | nil =>
    have : ns.flatMap (fun n => ([] : List (String × β)).filter (·.1 == n)) = [] := by
      induction ns with
      | nil => rfl
      | cons n ns ih => simp [List.flatMap_cons]
    rw [this]
  | cons e es ih =>
    have hmem : e.1 ∈ ns := hcov e List.mem_cons_self
    obtain ⟨l1, l2, hsplit⟩ := List.append_of_mem hmem
    subst hsplit
    have hnd' := hnd
    rw [List.nodup_append] at hnd'
    obtain ⟨_, hnd2, hdisj⟩ := hnd'
    have h1 : e.1 ∉ l1 := fun h => hdisj _ h _ List.mem_cons_self rfl
    have h2 : e.1 ∉ l2 := (List.nodup_cons.mp hnd2).1
    have ih' := ih (fun x hx => hcov x (List.mem_cons_of_mem _ hx))
    simp only [List.flatMap_append, List.flatMap_cons] at ih' ⊢
    rw [flatMap_filter_absent l1 es e h1, flatMap_filter_absent l2 es e h2]
    have hself : (e :: es).filter (·.1 == e.1) = e :: es.filter (·.1 == e.1) := by simp
    rw [hself]
    -- l1' ++ (e :: m) ++ l2'  ~  e :: (l1' ++ m ++ l2')
    simp only [List.cons_append]
    exact (List.perm_middle).trans (List.Perm.cons e ih')

theorem filter_map_pair {β : Type} (es : List (String × β)) (n : String) :
    ((es.filter (·.1 == n)).map (·.2)).map (fun p => (n, p)) = es.filter (·.1 == n) := by
  induction es with
  | nil => rfl
  | cons e es ih =>
    obtain ⟨t, p⟩ := e
    by_cases h : t == n
    · have : t = n := by simpa using h
      subst this
      simp [ih]
    · simp [h, ih]

/-- Merge's map + sorts keep exactly the appended entries -/
theorem group_perm (es : List (String × ResPart)) : (flatRes (group es)).Perm es := by
  unfold flatRes group
  rw [List.flatMap_map]
  have hnd : (topicNames es).Nodup := by
    unfold topicNames
    exact ((sortBy_perm _ _).nodup_iff).mpr (nodup_dedup _)
  have hcov : ∀ e ∈ es, e.1 ∈ topicNames es := by
    intro e he
    unfold topicNames
    exact ((sortBy_perm _ _).mem_iff).mpr ((mem_dedup _ _).mpr (List.mem_map_of_mem he))
  refine List.Perm.trans ?_ (flatMap_filter_perm (topicNames es) es hnd hcov)
  apply flatMap_perm_congr
  intro n _
  have h := List.Perm.map (fun p => (n, p)) (sortBy_perm partLt ((es.filter (·.1 == n)).map (·.2)))
  rw [filter_map_pair] at h
  exact h

end KV.Lemmas.ListOffsets
