/-
Lemmas/ByteWalk.lean — `BR.walk` on the reference encoding of uncompressed v2 batches, cut at any byte, emits the truncated
token stream of the layout.
-/
import KafkaVerif.Model.ByteWalk
import KafkaVerif.Lemmas.ByteLocal

namespace KV.C02.BR
open KV KV.RW KV.Spec.RB KV.C02

/-- a whole item `e` at the head of what is left (which is also all the connection is asked for) -/
theorem step_full {α : Type} {p : M α} {e : Bytes} {v : α} (h : AllOrShort p e v) (R : Bytes) :
    p ⟨e ++ R, (e ++ R).length⟩ = .ok (v, ⟨R, R.length⟩) := by
  have := (h R (e ++ R).length).1 (by simp)
  rw [this]; simp

/-- the set ends inside `e` -/
theorem step_short {α : Type} {p : M α} {e : Bytes} {v : α} (h : AllOrShort p e v) (hl : Local p) (X : Bytes) (n : Nat)
    (hn : n < e.length) : ∃ er, p ⟨(e ++ X).take n, ((e ++ X).take n).length⟩ = .error er := by
  obtain ⟨r', hr, _⟩ := cut_is_short h hl [] n hn
  have e1 : (e ++ X).take n = e.take n ++ [] := by
    rw [List.append_nil, List.take_append_of_le_length (by omega)]
  have e2 : (e.take n ++ ([] : Bytes)).length = n := by simp; omega
  rw [e1, e2]
  exact ⟨_, hr⟩

theorem walk_nil (dgv : Int → RecView → Nat) (dgm : H1 → Int → Option Bytes → Option Bytes → Nat) (fuel : Nat) (st : WS) :
    walk dgv dgm fuel st [] = [] := by
  cases fuel <;> simp [walk]

theorem walk_recs (dgv : Int → RecView → Nat) (dgm : H1 → Int → Option Bytes → Option Bytes → Nat) (dg2 : Int → RecV2 → Nat) (hdg : ∀ fts r, dgv fts (viewOf r) = dg2 fts r)
    (h : H2) (Rb : Bytes) (Rt : List Tok)
    (IH : ∀ m fuel, m < fuel → walk dgv dgm fuel .hdr (Rb.take m) = truncate Rt m) :
    ∀ (recs : List RecV2) (n fuel : Nat), n < fuel →
      walk dgv dgm fuel (if recs.length = 0 then .hdr else .recs h recs.length) ((encRecs recs ++ Rb).take n)
        = truncate (recs.map (r2Tok dg2 h.firstTs) ++ Rt) n := by
  intro recs
  induction recs with
  | nil => intro n fuel hf; simpa [encRecs] using IH n fuel hf
  | cons r rs ih =>
    intro n fuel hf
    cases fuel with
    | zero => omega
    | succ fuel =>
      have hpos := encRec_length_pos r
      have hsz : (r2Tok dg2 h.firstTs r).size = (encRec r).length := rfl
      simp only [List.length_cons, Nat.add_one_ne_zero, if_false, encRecs, List.append_assoc, List.map_cons, List.cons_append]
      by_cases hfit : (encRec r).length ≤ n
      · rw [truncate_cons_fit _ _ _ (by rw [hsz]; exact hfit), hsz]
        rw [take_append_ge _ _ _ hfit]
        have hne : (encRec r ++ (encRecs rs ++ Rb).take (n - (encRec r).length)).isEmpty = false := isEmpty_append_false hpos
        have hstep := step_full (readRecordV2_spec r) ((encRecs rs ++ Rb).take (n - (encRec r).length))
        simp only [walk, hne, Bool.false_eq_true, if_false, hstep]
        have hst : (if rs.length + 1 ≤ 1 then WS.hdr else WS.recs h (rs.length + 1 - 1))
            = (if rs.length = 0 then WS.hdr else WS.recs h rs.length) := by
          by_cases h0 : rs.length = 0 <;> simp [h0]
        rw [hst, ih (n - (encRec r).length) fuel (by omega)]
        simp [r2Tok, viewOf, hdg]
        rw [← hdg]; rfl
      · by_cases h0 : n = 0
        · subst h0
          rw [truncate_cons_zero _ _ (by rw [hsz]; exact hpos)]
          simp [walk]
        · rw [truncate_cons_cut _ _ _ (by rw [hsz]; omega) h0]
          have hne : ((encRec r ++ (encRecs rs ++ Rb)).take n).isEmpty = false :=
            isEmpty_take_false (by omega) (by simp only [List.length_append]; omega)
          obtain ⟨er, her⟩ := step_short (readRecordV2_spec r) local_readRecordV2 (encRecs rs ++ Rb) n (by omega)
          simp only [walk, hne, Bool.false_eq_true, if_false, her]

/-- an uncompressed v2 batch followed by anything -/
theorem walk_plain2 (dgv : Int → RecView → Nat) (dgm : H1 → Int → Option Bytes → Option Bytes → Nat) (dg2 : Int → RecV2 → Nat) (hdg : ∀ fts r, dgv fts (viewOf r) = dg2 fts r)
    (crc : Bytes → Nat) (b : BBatch) (hb : b.frame.WF)
    (Rb : Bytes) (Rt : List Tok) (IH : ∀ m fuel, m < fuel → walk dgv dgm fuel .hdr (Rb.take m) = truncate Rt m)
    (n fuel : Nat) (hf : n < fuel) :
    walk dgv dgm fuel .hdr ((encFrame crc b.frame ++ Rb).take n) = truncate (tokensOf (b.item dg2) ++ Rt) n := by
  cases fuel with
  | zero => omega
  | succ fuel =>
    have htoks : tokensOf (b.item dg2) ++ Rt
        = Tok.h2 b.hdr.baseOffset b.hdr.lastOffsetDelta b.recs.length false (encRecs b.recs).length ::
          (b.recs.map (r2Tok dg2 b.hdr.firstTs) ++ Rt) := by
      simp only [BBatch.item, tokensOf, Bool.false_eq_true, if_false, List.length_map, List.map_map, List.cons_append,
        List.cons.injEq, Tok.h2.injEq, true_and, and_true]
      refine ⟨by omega, ?_⟩
      congr 1
    have hbytes : encFrame crc b.frame ++ Rb = encH2 (crc (frameBody b.frame)) b.frame ++ (encRecs b.recs ++ Rb) := by
      simp [encFrame_split, BBatch.frame, List.append_assoc]
    rw [htoks, hbytes]
    have hl61 := encH2_length (crc (frameBody b.frame)) b.frame
    by_cases h61 : 61 ≤ n
    · rw [truncate_cons_fit _ _ _ (by simpa [Tok.size] using h61)]
      rw [take_append_ge _ _ _ (by omega), hl61]
      have hne := isEmpty_append_false (b := (encRecs b.recs ++ Rb).take (n - 61)) (a := encH2 (crc (frameBody b.frame)) b.frame) (by omega)
      have hstep := step_full (readHeaderB_v2 (crc (frameBody b.frame)) b.frame hb) ((encRecs b.recs ++ Rb).take (n - 61))
      simp only [walk, hne, Bool.false_eq_true, if_false, hstep]
      have hcnt : (b.frame.count).toNat = b.recs.length := by simp [BBatch.frame]
      have hattr : (b.frame.attributes % 8 != 0) = false := by simp [BBatch.frame]
      simp only [hcnt, hattr]
      have := walk_recs dgv dgm dg2 hdg ⟨b.frame.baseOffset, b.frame.lastOffsetDelta, b.frame.firstTs, b.frame.count, b.frame.attributes,
        b.frame.payload.length⟩ Rb Rt IH b.recs (n - 61) fuel (by omega)
      simp only [Tok.size]
      rw [this]
      simp [BBatch.frame]
    · by_cases h0 : n = 0
      · subst h0
        rw [truncate_cons_zero _ _ (by simp [Tok.size])]
        simp [walk]
      · rw [truncate_cons_cut _ _ _ (by simp [Tok.size]; omega) h0]
        have hne : ((encH2 (crc (frameBody b.frame)) b.frame ++ (encRecs b.recs ++ Rb)).take n).isEmpty = false :=
          isEmpty_take_false (by omega) (by simp only [List.length_append]; omega)
        obtain ⟨er, her⟩ := step_short (readHeaderB_v2 (crc (frameBody b.frame)) b.frame hb) local_readHeaderB
          (encRecs b.recs ++ Rb) n (by omega)
        simp only [walk, hne, Bool.false_eq_true, if_false, her]

/-- an uncompressed v0 / v1 message followed by anything -/
theorem walk_v1 (dgv : Int → RecView → Nat) (dgm : H1 → Int → Option Bytes → Option Bytes → Nat) (dg1 : Msg → Nat)
    (hdm : ∀ m : Msg, m.WF → dgm ⟨m.offset, m.magic, m.attributes, (encB1 m).length⟩ m.ts m.key m.value = dg1 m)
    (cv : Nat) (m : Msg) (hwf : m.WF)
    (Rb : Bytes) (Rt : List Tok) (IH : ∀ k fuel, k < fuel → walk dgv dgm fuel .hdr (Rb.take k) = truncate Rt k)
    (n fuel : Nat) (hf : n < fuel) :
    walk dgv dgm fuel .hdr ((encH1 cv m ++ (encB1 m ++ Rb)).take n)
      = truncate (Tok.h1 m.magic.toNat m.offset (m.attributes % 8 != 0) :: Tok.kv (dg1 m) (encB1 m).length :: Rt) n := by
  cases fuel with
  | zero => omega
  | succ fuel =>
    have hmag := hwf.2.1
    have hlH := encH1_length cv m
    have hsz1 : (Tok.h1 m.magic.toNat m.offset (m.attributes % 8 != 0)).size = (encH1 cv m).length := by
      rcases hmag with h | h <;> simp [Tok.size, hlH, h]
    have hpos := encB1_pos m
    have h18 : 18 ≤ (encH1 cv m).length := by rw [hlH]; split <;> omega
    have hk : InRange M32 (optLen m.key : Int) := by
      have := hwf.2.2.2.2.2; unfold InRange M32 at *; omega
    have hv : InRange M32 (optLen m.value : Int) := by
      have := hwf.2.2.2.2.2; unfold InRange M32 at *; omega
    have hbt : (Tok.kv (dg1 m) (encB1 m).length).size = (encB1 m).length := rfl
    by_cases hfit : (encH1 cv m).length ≤ n
    · rw [truncate_cons_fit _ _ _ (by rw [hsz1]; exact hfit), hsz1]
      rw [take_append_ge _ _ _ hfit]
      have hne1 := isEmpty_append_false (b := (encB1 m ++ Rb).take (n - (encH1 cv m).length)) (a := encH1 cv m) (by omega)
      have hstep := step_full (readHeaderB_v1 cv m hwf) ((encB1 m ++ Rb).take (n - (encH1 cv m).length))
      simp only [walk, hne1, Bool.false_eq_true, if_false, hstep]
      congr 1
      -- the body
      by_cases hbfit : (encB1 m).length ≤ n - (encH1 cv m).length
      · rw [truncate_cons_fit _ _ _ (by rw [hbt]; exact hbfit), hbt, take_append_ge _ _ _ hbfit]
        cases fuel with
        | zero => omega
        | succ fuel =>
          have hne2 := isEmpty_append_false (b := Rb.take (n - (encH1 cv m).length - (encB1 m).length)) (a := encB1 m) hpos
          have hstep2 := step_full (readBodyV1_spec m hk hv) (Rb.take (n - (encH1 cv m).length - (encB1 m).length))
          have hb1 : encB1 m = nbytes m.key ++ nbytes m.value := rfl
          rw [← hb1] at hstep2
          simp only [walk, hne2, Bool.false_eq_true, if_false, hstep2]
          rw [IH _ fuel (by omega), hdm m hwf]
          simp
      · by_cases h0 : n - (encH1 cv m).length = 0
        · rw [h0, truncate_cons_zero _ _ (by rw [hbt]; exact hpos)]
          simp [walk_nil]
        · rw [truncate_cons_cut _ _ _ (by rw [hbt]; omega) h0]
          cases fuel with
          | zero => omega
          | succ fuel =>
            have hne2 : ((encB1 m ++ Rb).take (n - (encH1 cv m).length)).isEmpty = false :=
              isEmpty_take_false (by omega) (by simp only [List.length_append]; omega)
            have hb1 : encB1 m = nbytes m.key ++ nbytes m.value := rfl
            obtain ⟨er, her⟩ := step_short (readBodyV1_spec m hk hv) local_readBodyV1 Rb (n - (encH1 cv m).length)
              (by rw [← hb1]; omega)
            rw [← hb1] at her
            simp only [walk, hne2, Bool.false_eq_true, if_false, her]
    · by_cases h0 : n = 0
      · subst h0
        rw [truncate_cons_zero _ _ (by rw [hsz1]; omega)]
        simp [walk]
      · rw [truncate_cons_cut _ _ _ (by rw [hsz1]; omega) h0]
        have hne : ((encH1 cv m ++ (encB1 m ++ Rb)).take n).isEmpty = false :=
          isEmpty_take_false (by omega) (by simp only [List.length_append]; omega)
        obtain ⟨er, her⟩ := step_short (readHeaderB_v1 cv m hwf) local_readHeaderB (encB1 m ++ Rb) n (by omega)
        simp only [walk, hne, Bool.false_eq_true, if_false, her]

/-- what the walk covers: uncompressed v2 batches and uncompressed v0 / v1 messages -/
def PlainItem : BItem → Prop
  | .plain2 _ => True
  | .msg _ => True
  | _ => False

/-- **the byte-level reads of a whole message set, all three formats**: uncompressed v2 batches and v0 / v1 messages in
any order, cut at any byte -/
theorem walk_items (dgv : Int → RecView → Nat) (dgm : H1 → Int → Option Bytes → Option Bytes → Nat) (c : TokCfg)
    (enc : Int → Bytes → Bytes) (hdg : ∀ fts r, dgv fts (viewOf r) = c.dg2 fts r)
    (hdm : ∀ m : Msg, m.WF → dgm ⟨m.offset, m.magic, m.attributes, (encB1 m).length⟩ m.ts m.key m.value = c.dg1 m) :
    ∀ (its : List BItem), (∀ it ∈ its, it.WF c enc ∧ PlainItem it) → ∀ (n fuel : Nat), n < fuel →
      walk dgv dgm fuel .hdr ((encItems c enc its).take n) = truncate (allTokens (layoutOfItems c enc its)) n := by
  intro its
  induction its with
  | nil => intro _ n fuel _; simp [encItems, walk_nil, layoutOfItems, allTokens, truncate]
  | cons it its ih =>
    intro hwf n fuel hf
    have hit := hwf it (by simp)
    have IH := fun m fuel hm => ih (fun x hx => hwf x (by simp [hx])) m fuel hm
    have hall : allTokens (layoutOfItems c enc (it :: its)) = tokensOf (it.item c enc) ++ allTokens (layoutOfItems c enc its) := by
      simp [layoutOfItems, allTokens]
    rw [hall]
    simp only [encItems]
    cases it with
    | plain2 b => exact walk_plain2 dgv dgm c.dg2 hdg c.crcs.castagnoli b hit.1 _ _ IH n fuel hf
    | comp2 hdr codec recs => exact hit.2.elim
    | wrap m codec inner => exact hit.2.elim
    | msg m =>
      obtain ⟨⟨hm, hplain⟩, _⟩ := hit
      have hsz := hdr1Size_eq (c.crcs.ieee (msgBody m)) m hm.2.1
      have hflag : (m.attributes % 8 != 0) = false := by simp [hplain]
      have htoks : tokensOf ((BItem.msg m).item c enc) ++ allTokens (layoutOfItems c enc its)
          = Tok.h1 m.magic.toNat m.offset (m.attributes % 8 != 0) :: Tok.kv (c.dg1 m) (encB1 m).length ::
            allTokens (layoutOfItems c enc its) := by
        simp only [BItem.item, tokensOf, hflag, hsz, encMsg_split, List.length_append, List.cons_append, List.nil_append,
          List.cons.injEq, Tok.kv.injEq, true_and, and_true]
        omega
      rw [htoks]
      simp only [BItem.bytes, encMsg_split, List.append_assoc]
      exact walk_v1 dgv dgm c.dg1 hdm _ m hm _ _ IH n fuel hf

/-- **the byte-level reads of a whole message set**: the reference encoding of any list of uncompressed v2 batches,
cut at any byte `n` (the broker's byte limit); `readHeaderB` and `readRecordV2` strung together with `remain` = what
is left emit exactly the truncated token stream of the layout -/
theorem walk_set (dgv : Int → RecView → Nat) (dgm : H1 → Int → Option Bytes → Option Bytes → Nat) (dg2 : Int → RecV2 → Nat) (hdg : ∀ fts r, dgv fts (viewOf r) = dg2 fts r)
    (crc : Bytes → Nat) :
    ∀ (bs : List BBatch), (∀ b ∈ bs, b.frame.WF) → ∀ (n fuel : Nat), n < fuel →
      walk dgv dgm fuel .hdr ((encSetV2 crc bs).take n) = truncate (allTokens (layoutOf dg2 bs)) n := by
  intro bs
  induction bs with
  | nil => intro _ n fuel _; simp [encSetV2, walk_nil, layoutOf, allTokens, truncate]
  | cons b bs ih =>
    intro hwf n fuel hf
    have IH := fun m fuel hm => ih (fun x hx => hwf x (by simp [hx])) m fuel hm
    have hall : allTokens (layoutOf dg2 (b :: bs)) = tokensOf (b.item dg2) ++ allTokens (layoutOf dg2 bs) := by
      simp [layoutOf, allTokens]
    rw [hall]
    simp only [encSetV2]
    exact walk_plain2 dgv dgm dg2 hdg crc b (hwf b (by simp)) _ _ IH n fuel hf

end KV.C02.BR
