/-
Lemmas/ByteLayout.lean — the tokenizer of Spec/ByteLayout.lean inverts the reference encoder, also on truncated input.
-/
import KafkaVerif.Spec.ByteLayout
import KafkaVerif.Lemmas.RecordBatchSpec

namespace KV.C02
open KV KV.RW KV.Spec.RB

/-! ### primitives on prefixes -/

theorem take_append_ge {α : Type} (a b : List α) (n : Nat) (h : a.length ≤ n) :
    (a ++ b).take n = a ++ b.take (n - a.length) := by
  rw [List.take_append]
  simp [List.take_of_length_le h]

theorem take_append_lt {α : Type} (a b : List α) (n : Nat) (h : n ≤ a.length) :
    (a ++ b).take n = a.take n := by
  rw [List.take_append]
  have : n - a.length = 0 := by omega
  simp [this]

/-- a strict prefix of a LEB128 number is not a number (every byte but the last has the continuation bit) -/
theorem readUvarint_prefix (n : Nat) : ∀ k, k < (uvarint n).length → readUvarint ((uvarint n).take k) = none := by
  induction n using uvarint.induct with
  | case1 n h =>
    intro k hk
    rw [uvarint] at hk ⊢
    simp only [h, if_true, List.length_singleton] at hk ⊢
    have : k = 0 := by omega
    subst this
    simp [readUvarint]
  | case2 n h ih =>
    intro k hk
    rw [uvarint] at hk ⊢
    simp only [h, if_false, List.length_cons] at hk ⊢
    cases k with
    | zero => simp [readUvarint]
    | succ k =>
      simp only [List.take_succ_cons, readUvarint, byte_toNat]
      have : ¬ (n % 128 + 128) % 256 < 128 := by omega
      simp only [this, if_false]
      rw [ih k (by omega)]

theorem encRec_length_pos (r : RecV2) : 0 < (encRec r).length := by
  simp only [encRec, List.length_append, varint_length]
  have := uvarintLen_pos (zigzag ((recBody r).length : Int))
  simp only [varintLen]; omega

/-- a record whose bytes are not all there cannot be read -/
theorem readRec_prefix (r : RecV2) (x : Bytes) (n : Nat) (h : n < (encRec r).length) :
    readRec ((encRec r ++ x).take n) = none := by
  simp only [encRec, List.append_assoc] at h ⊢
  by_cases hv : n < (varint ((recBody r).length : Int)).length
  · rw [take_append_lt _ _ _ (by omega)]
    simp only [readRec, readVarint, varint]
    rw [readUvarint_prefix _ _ (by simpa [varint] using hv)]
  · rw [take_append_ge _ _ _ (by omega)]
    simp only [readRec, readVarint_varint]
    have h2 : ¬ (((recBody r).length : Int) < 0) := by omega
    simp only [h2, if_false, Int.toNat_natCast]
    have hlen : ((recBody r ++ x).take (n - (varint ((recBody r).length : Int)).length)).length < (recBody r).length := by
      simp only [List.length_take, List.length_append] at h ⊢
      omega
    unfold takeN
    rw [if_neg (Nat.not_le.mpr hlen)]

theorem readRec_take (r : RecV2) (x : Bytes) (n : Nat) (h : (encRec r).length ≤ n) :
    readRec ((encRec r ++ x).take n) = some (r, x.take (n - (encRec r).length)) := by
  rw [take_append_ge _ _ _ h, readRec_encRec]

/-! ### the v2 header -/

theorem encFrame_split (crc : Bytes → Nat) (f : FrameV2) :
    encFrame crc f = encH2 (crc (frameBody f)) f ++ f.payload := by
  simp [encFrame, encH2, frameBody, List.append_assoc]

theorem encH2_length (c : Nat) (f : FrameV2) : (encH2 c f).length = 61 := by
  simp [encH2, u32]

theorem readH2_encH2 (c : Nat) (hc : c < M32) (f : FrameV2) (h : f.WF) (x : Bytes) :
    readH2 (encH2 c f ++ x) = some (⟨f.baseOffset, f.lastOffsetDelta, f.firstTs, f.count, f.attributes, f.payload.length⟩, x) := by
  obtain ⟨h1, h2, h3, h4, h5, h6, h7, h8, h9, h10, h11⟩ := h
  have hlen : InRange M32 (9 + ((frameBody f).length : Int)) := by
    rw [frameBody_length]; unfold InRange M32 at *; omega
  have hm : InRange M8 2 := by unfold InRange M8; omega
  have hl : (9 + ((frameBody f).length : Int) - 49).toNat = f.payload.length := by
    rw [frameBody_length]; omega
  simp [encH2, readH2, List.append_assoc, Int.natCast_add, readI64_i64 _ _ h1, readI32_i32 _ _ hlen, readI32_i32 _ _ h2, readI8_i8 _ _ hm,
    readU32_u32 _ _ hc, readI16_i16 _ _ h3, readI32_i32 _ _ h4, readI64_i64 _ _ h5, readI64_i64 _ _ h6,
    readI64_i64 _ _ h7, readI16_i16 _ _ h8, readI32_i32 _ _ h9, readI32_i32 _ _ h10, hl]

end KV.C02

namespace KV.C02
open KV KV.RW KV.Spec.RB

/-! ### uncompressed v2 batches, cut anywhere -/

def r2Tok (dg2 : Int → RecV2 → Nat) (fts : Int) (r : RecV2) : Tok := .r2 r.offDelta (dg2 fts r) (encRec r).length

theorem truncate_cons_fit (t : Tok) (ts : List Tok) (n : Nat) (h : t.size ≤ n) :
    truncate (t :: ts) n = t :: truncate ts (n - t.size) := by simp [truncate, h]

theorem truncate_cons_zero (t : Tok) (ts : List Tok) (h : 0 < t.size) : truncate (t :: ts) 0 = [] := by
  have : ¬ t.size ≤ 0 := by omega
  simp [truncate, this]

theorem truncate_cons_cut (t : Tok) (ts : List Tok) (n : Nat) (h : n < t.size) (h0 : n ≠ 0) :
    truncate (t :: ts) n = [.cut] := by
  have : ¬ t.size ≤ n := by omega
  simp [truncate, this, h0]

theorem tokenize_nil (dg2 : Int → RecV2 → Nat) (fuel : Nat) (st : TS) : tokenize dg2 fuel st [] = [] := by
  cases fuel <;> simp [tokenize]

theorem tokenize_recs (dg2 : Int → RecV2 → Nat) (h : H2) (Rb : Bytes) (Rt : List Tok)
    (IH : ∀ m fuel, m < fuel → tokenize dg2 fuel .hdr (Rb.take m) = truncate Rt m) :
    ∀ (recs : List RecV2) (n fuel : Nat), n < fuel →
      tokenize dg2 fuel (if recs.length = 0 then .hdr else .recs h recs.length) ((encRecs recs ++ Rb).take n)
        = truncate (recs.map (r2Tok dg2 h.firstTs) ++ Rt) n := by
  intro recs
  induction recs with
  | nil => intro n fuel hf; simpa [encRecs] using IH n fuel hf
  | cons r rs ih =>
    intro n fuel hf
    cases fuel with
    | zero => omega
    | succ fuel =>
      have hpos := encRec_length_pos r
      have hsz : (r2Tok dg2 h.firstTs r).size = (encRec r).length := rfl
      simp only [List.length_cons, Nat.add_one_ne_zero, if_false, encRecs, List.append_assoc, List.map_cons, List.cons_append]
      by_cases hfit : (encRec r).length ≤ n
      · rw [truncate_cons_fit _ _ _ (by rw [hsz]; exact hfit), hsz]
        have hread := readRec_take r (encRecs rs ++ Rb) n hfit
        have hne : ((encRec r ++ (encRecs rs ++ Rb)).take n).isEmpty = false := by
          rw [take_append_ge _ _ _ hfit]
          cases hb : encRec r with
          | nil => rw [hb] at hpos; simp at hpos
          | cons x xs => simp
        have hlen : ((encRec r ++ (encRecs rs ++ Rb)).take n).length - ((encRecs rs ++ Rb).take (n - (encRec r).length)).length
            = (encRec r).length := by
          rw [take_append_ge _ _ _ hfit]; simp
        simp only [tokenize, hne, Bool.false_eq_true, if_false, hread, hlen]
        have hst : (if rs.length + 1 ≤ 1 then TS.hdr else TS.recs h (rs.length + 1 - 1))
            = (if rs.length = 0 then TS.hdr else TS.recs h rs.length) := by
          by_cases h0 : rs.length = 0 <;> simp [h0]
        rw [hst, ih (n - (encRec r).length) fuel (by omega)]
        rfl
      · by_cases h0 : n = 0
        · subst h0
          rw [truncate_cons_zero _ _ (by rw [hsz]; exact hpos)]
          simp [tokenize]
        · rw [truncate_cons_cut _ _ _ (by rw [hsz]; omega) h0]
          have hne : ((encRec r ++ (encRecs rs ++ Rb)).take n).isEmpty = false := by
            have : 0 < ((encRec r ++ (encRecs rs ++ Rb)).take n).length := by
              simp only [List.length_take, List.length_append]; omega
            cases hb : (encRec r ++ (encRecs rs ++ Rb)).take n with
            | nil => rw [hb] at this; simp at this
            | cons x xs => simp
          simp only [tokenize, hne, Bool.false_eq_true, if_false, readRec_prefix r _ n (by omega)]

/-- **bytes ↔ tokens, uncompressed v2 batches**: tokenizing the first `n` bytes of the reference encoding gives the
token stream of the layout truncated at `n` bytes -/
theorem tokenize_v2 (crc : Bytes → Nat) (hcrc : ∀ b, crc b < M32) (dg2 : Int → RecV2 → Nat) :
    ∀ (bs : List BBatch), (∀ b ∈ bs, b.frame.WF) → ∀ (n fuel : Nat), n < fuel →
      tokenize dg2 fuel .hdr ((encSetV2 crc bs).take n) = truncate (allTokens (layoutOf dg2 bs)) n := by
  intro bs
  induction bs with
  | nil => intro _ n fuel _; simp [encSetV2, tokenize_nil, layoutOf, allTokens, truncate]
  | cons b bs ih =>
    intro hwf n fuel hf
    cases fuel with
    | zero => omega
    | succ fuel =>
      have hb := hwf b (by simp)
      have ihb := ih (fun x hx => hwf x (by simp [hx]))
      have htoks : allTokens (layoutOf dg2 (b :: bs))
          = Tok.h2 b.hdr.baseOffset b.hdr.lastOffsetDelta b.recs.length false (encRecs b.recs).length ::
            (b.recs.map (r2Tok dg2 b.hdr.firstTs) ++ allTokens (layoutOf dg2 bs)) := by
        simp only [layoutOf, allTokens, List.map_cons, List.flatMap_cons, BBatch.item, tokensOf, Bool.false_eq_true,
          if_false, List.length_map, List.map_map, List.cons_append, List.cons.injEq, Tok.h2.injEq, true_and, and_true]
        refine ⟨by omega, ?_⟩
        congr 1
      have hbytes : encSetV2 crc (b :: bs)
          = encH2 (crc (frameBody b.frame)) b.frame ++ (encRecs b.recs ++ encSetV2 crc bs) := by
        simp [encSetV2, encFrame_split, BBatch.frame, List.append_assoc]
      rw [htoks, hbytes]
      have hl61 := encH2_length (crc (frameBody b.frame)) b.frame
      by_cases h61 : 61 ≤ n
      · rw [truncate_cons_fit _ _ _ (by simpa [Tok.size] using h61)]
        rw [take_append_ge _ _ _ (by omega), hl61]
        have hne : (encH2 (crc (frameBody b.frame)) b.frame ++ (encRecs b.recs ++ encSetV2 crc bs).take (n - 61)).isEmpty = false := by
          cases hx : encH2 (crc (frameBody b.frame)) b.frame with
          | nil => rw [hx] at hl61; simp at hl61
          | cons y ys => simp
        have hlen : ¬ (encH2 (crc (frameBody b.frame)) b.frame ++ (encRecs b.recs ++ encSetV2 crc bs).take (n - 61)).length < 61 := by
          simp only [List.length_append, hl61]; omega
        simp only [tokenize, hne, Bool.false_eq_true, if_false, hlen, readH2_encH2 _ (hcrc _) _ hb]
        have hcnt : (b.frame.count).toNat = b.recs.length := by simp [BBatch.frame]
        have hattr : (b.frame.attributes % 8 != 0) = false := by simp [BBatch.frame]
        simp only [hcnt, hattr]
        have := tokenize_recs dg2 ⟨b.frame.baseOffset, b.frame.lastOffsetDelta, b.frame.firstTs, b.frame.count, b.frame.attributes,
          b.frame.payload.length⟩ (encSetV2 crc bs) (allTokens (layoutOf dg2 bs)) (fun m f hm => ihb m f hm) b.recs (n - 61) fuel (by omega)
        simp only [Tok.size]
        rw [this]
        simp [BBatch.frame]
      · by_cases h0 : n = 0
        · subst h0
          rw [truncate_cons_zero _ _ (by simp [Tok.size])]
          simp [tokenize]
        · rw [truncate_cons_cut _ _ _ (by simp [Tok.size]; omega) h0]
          have hlen : ((encH2 (crc (frameBody b.frame)) b.frame ++ (encRecs b.recs ++ encSetV2 crc bs)).take n).length = n := by
            simp only [List.length_take, List.length_append, hl61]; omega
          have hne : ((encH2 (crc (frameBody b.frame)) b.frame ++ (encRecs b.recs ++ encSetV2 crc bs)).take n).isEmpty = false := by
            cases hx : (encH2 (crc (frameBody b.frame)) b.frame ++ (encRecs b.recs ++ encSetV2 crc bs)).take n with
            | nil => rw [hx] at hlen; simp at hlen; omega
            | cons y ys => simp
          have hlt : ((encH2 (crc (frameBody b.frame)) b.frame ++ (encRecs b.recs ++ encSetV2 crc bs)).take n).length < 61 := by
            rw [hlen]; omega
          simp only [tokenize, hne, Bool.false_eq_true, if_false, hlt, if_true]

end KV.C02
