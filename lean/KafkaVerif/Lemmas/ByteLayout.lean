/-
Lemmas/ByteLayout.lean — the tokenizer of Spec/ByteLayout.lean inverts the reference encoder.
-/
import KafkaVerif.Spec.ByteLayout
import KafkaVerif.Lemmas.RecordBatchSpec

namespace KV.C02
open KV KV.RW KV.Spec.RB

theorem tokenizeFrame_enc (crc : Bytes → Nat) (hcrc : ∀ b, crc b < M32) (dg : FrameV2 → RecV2 → Nat) (b : BBatch)
    (hwf : b.frame.WF) (r : Bytes) :
    tokenizeFrame crc dg (encFrame crc b.frame ++ r) = some (tokensOf (b.item dg), r) := by
  have hdec : decodeRecs b.frame.count b.frame.payload = some b.recs := by
    simpa [BBatch.frame] using decodeRecs_encRecs b.recs
  have hcodec : codecOf b.frame.attributes = 0 := by simp [BBatch.frame, codecOf]
  simp only [tokenizeFrame, readFrame_encFrame crc hcrc b.frame hwf r, hcodec, ne_eq, not_true_eq_false, if_false, hdec]
  simp only [BBatch.item, tokensOf, Bool.false_eq_true, if_false, List.length_map, List.map_map, BBatch.frame,
    Option.some.injEq, Prod.mk.injEq, and_true, List.cons.injEq]
  refine ⟨?_, ?_⟩
  · congr 1; omega
  · apply List.map_congr_left; intro a _; rfl

theorem encFrame_ne_nil (crc : Bytes → Nat) (f : FrameV2) : encFrame crc f ≠ [] := by
  intro h
  have := congrArg List.length h
  simp [encFrame, i64, beN_length] at this

theorem tokenizeSet_succ (crc : Bytes → Nat) (dg : FrameV2 → RecV2 → Nat) (fuel : Nat) (bs : Bytes) (h : bs ≠ []) :
    tokenizeSet crc dg (fuel + 1) bs =
      (match tokenizeFrame crc dg bs with
       | none => none
       | some (ts, rest) =>
         match tokenizeSet crc dg fuel rest with
         | none => none
         | some ts' => some (ts ++ ts')) := by
  cases bs with
  | nil => exact absurd rfl h
  | cons x xs => rfl

/-- **bytes ↔ tokens**: tokenizing the reference encoding of a list of uncompressed v2 batches gives exactly the token
stream of their layout -/
theorem tokenizeSet_enc (crc : Bytes → Nat) (hcrc : ∀ b, crc b < M32) (dg : FrameV2 → RecV2 → Nat) :
    ∀ (bs : List BBatch), (∀ b ∈ bs, b.frame.WF) → ∀ fuel, bs.length ≤ fuel →
      tokenizeSet crc dg fuel (encSetV2 crc bs) = some (allTokens (layoutOf dg bs)) := by
  intro bs
  induction bs with
  | nil => intro _ fuel _; cases fuel <;> simp [encSetV2, tokenizeSet, layoutOf, allTokens]
  | cons b bs ih =>
    intro hwf fuel hf
    cases fuel with
    | zero => simp at hf
    | succ fuel =>
      have hne : encFrame crc b.frame ++ encSetV2 crc bs ≠ [] := by
        intro h; exact encFrame_ne_nil crc b.frame (List.append_eq_nil_iff.mp h).1
      have ihb := ih (fun x hx => hwf x (by simp [hx])) fuel (by simp at hf; omega)
      simp only [encSetV2]
      rw [tokenizeSet_succ crc dg fuel _ hne]
      simp only [tokenizeFrame_enc crc hcrc dg b (hwf b (by simp)) (encSetV2 crc bs), ihb]
      simp [layoutOf, allTokens]

end KV.C02
