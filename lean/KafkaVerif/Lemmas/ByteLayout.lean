/-
Lemmas/ByteLayout.lean — the tokenizer of Spec/ByteLayout.lean inverts the reference encoder, also on truncated input.
-/
import KafkaVerif.Spec.ByteLayout
import KafkaVerif.Lemmas.RecordBatchSpec

namespace KV.C02
open KV KV.RW KV.Spec.RB

/-! ### primitives on prefixes -/

theorem take_append_ge {α : Type} (a b : List α) (n : Nat) (h : a.length ≤ n) :
    (a ++ b).take n = a ++ b.take (n - a.length) := by
  rw [List.take_append]
  simp [List.take_of_length_le h]

theorem take_append_lt {α : Type} (a b : List α) (n : Nat) (h : n ≤ a.length) :
    (a ++ b).take n = a.take n := by
  rw [List.take_append]
  have : n - a.length = 0 := by omega
  simp [this]

/-- a strict prefix of a LEB128 number is not a number (every byte but the last has the continuation bit) -/
theorem readUvarint_prefix (n : Nat) : ∀ k, k < (uvarint n).length → readUvarint ((uvarint n).take k) = none := by
  induction n using uvarint.induct with
  | case1 n h =>
    intro k hk
    rw [uvarint] at hk ⊢
    simp only [h, if_true, List.length_singleton] at hk ⊢
    have : k = 0 := by omega
    subst this
    simp [readUvarint]
  | case2 n h ih =>
    intro k hk
    rw [uvarint] at hk ⊢
    simp only [h, if_false, List.length_cons] at hk ⊢
    cases k with
    | zero => simp [readUvarint]
    | succ k =>
      simp only [List.take_succ_cons, readUvarint, byte_toNat]
      have : ¬ (n % 128 + 128) % 256 < 128 := by omega
      simp only [this, if_false]
      rw [ih k (by omega)]

theorem encRec_length_pos (r : RecV2) : 0 < (encRec r).length := by
  simp only [encRec, List.length_append, varint_length]
  have := uvarintLen_pos (zigzag ((recBody r).length : Int))
  simp only [varintLen]; omega

/-- a record whose bytes are not all there cannot be read -/
theorem readRec_prefix (r : RecV2) (x : Bytes) (n : Nat) (h : n < (encRec r).length) :
    readRec ((encRec r ++ x).take n) = none := by
  simp only [encRec, List.append_assoc] at h ⊢
  by_cases hv : n < (varint ((recBody r).length : Int)).length
  · rw [take_append_lt _ _ _ (by omega)]
    simp only [readRec, readVarint, varint]
    rw [readUvarint_prefix _ _ (by simpa [varint] using hv)]
  · rw [take_append_ge _ _ _ (by omega)]
    simp only [readRec, readVarint_varint]
    have h2 : ¬ (((recBody r).length : Int) < 0) := by omega
    simp only [h2, if_false, Int.toNat_natCast]
    have hlen : ((recBody r ++ x).take (n - (varint ((recBody r).length : Int)).length)).length < (recBody r).length := by
      simp only [List.length_take, List.length_append] at h ⊢
      omega
    unfold takeN
    rw [if_neg (Nat.not_le.mpr hlen)]

theorem readRec_take (r : RecV2) (x : Bytes) (n : Nat) (h : (encRec r).length ≤ n) :
    readRec ((encRec r ++ x).take n) = some (r, x.take (n - (encRec r).length)) := by
  rw [take_append_ge _ _ _ h, readRec_encRec]

/-! ### the v2 header -/

theorem encFrame_split (crc : Bytes → Nat) (f : FrameV2) :
    encFrame crc f = encH2 (crc (frameBody f)) f ++ f.payload := by
  simp [encFrame, encH2, frameBody, List.append_assoc]

theorem encH2_length (c : Nat) (f : FrameV2) : (encH2 c f).length = 61 := by
  simp [encH2, u32]

theorem readH2_encH2 (c : Nat) (hc : c < M32) (f : FrameV2) (h : f.WF) (x : Bytes) :
    readH2 (encH2 c f ++ x) = some (⟨f.baseOffset, f.lastOffsetDelta, f.firstTs, f.count, f.attributes, f.payload.length⟩, x) := by
  obtain ⟨h1, h2, h3, h4, h5, h6, h7, h8, h9, h10, h11⟩ := h
  have hlen : InRange M32 (9 + ((frameBody f).length : Int)) := by
    rw [frameBody_length]; unfold InRange M32 at *; omega
  have hm : InRange M8 2 := by unfold InRange M8; omega
  have hl : (9 + ((frameBody f).length : Int) - 49).toNat = f.payload.length := by
    rw [frameBody_length]; omega
  simp [encH2, readH2, List.append_assoc, Int.natCast_add, readI64_i64 _ _ h1, readI32_i32 _ _ hlen, readI32_i32 _ _ h2, readI8_i8 _ _ hm,
    readU32_u32 _ _ hc, readI16_i16 _ _ h3, readI32_i32 _ _ h4, readI64_i64 _ _ h5, readI64_i64 _ _ h6,
    readI64_i64 _ _ h7, readI16_i16 _ _ h8, readI32_i32 _ _ h9, readI32_i32 _ _ h10, hl]

end KV.C02

namespace KV.C02
open KV KV.RW KV.Spec.RB

/-! ### the magic byte -/

theorem magicOf_take (l : Bytes) (n : Nat) : magicOf (l.take n) = if 16 < n then magicOf l else none := by
  simp only [magicOf, List.getElem?_take]

theorem magicOf_encH2 (c : Nat) (f : FrameV2) (x : Bytes) : magicOf (encH2 c f ++ x) = some 2 := by
  simp only [magicOf, encH2, List.append_assoc]
  rw [getElem?_skip _ _ _ (by simp), getElem?_skip _ _ _ (by simp), getElem?_skip _ _ _ (by simp)]
  simp [i8_eq]
  decide

/-! ### the v0/v1 header -/

theorem encMsg_split (crc : Bytes → Nat) (m : Msg) : encMsg crc m = encH1 (crc (msgBody m)) m ++ encB1 m := by
  simp [encMsg, encH1, encB1, msgBody, List.append_assoc]

theorem encH1_length (c : Nat) (m : Msg) : (encH1 c m).length = if m.magic = 0 then 18 else 26 := by
  by_cases h : m.magic = 0 <;> simp [encH1, u32, h]

theorem magicOf_encH1 (c : Nat) (m : Msg) (x : Bytes) (h : m.magic = 0 ∨ m.magic = 1) :
    magicOf (encH1 c m ++ x) = some (if m.magic = 1 then 1 else 0) := by
  simp only [magicOf, encH1, List.append_assoc]
  rw [getElem?_skip _ _ _ (by simp), getElem?_skip _ _ _ (by simp), getElem?_skip _ _ _ (by simp [u32])]
  rcases h with h | h <;> simp [i8_eq, h] <;> decide

theorem encB1_length (m : Msg) (h : m.WF) : (msgBody m).length = (if m.magic = 0 then 2 else 10) + (encB1 m).length := by
  by_cases h0 : m.magic = 0 <;> simp [msgBody, encB1, h0] <;> omega

theorem readH1_encH1 (c : Nat) (hc : c < M32) (m : Msg) (h : m.WF) (x : Bytes) :
    readH1 (encH1 c m ++ x) = some (⟨m.offset, m.magic, m.attributes, (encB1 m).length⟩, x) := by
  have hbl := encB1_length m h
  have hml := msgBody_length m h
  obtain ⟨h1, hm, ha, ht, hz, hl⟩ := h
  have hb : (msgBody m).length ≤ 18 + optLen m.key + optLen m.value := by
    rw [hml]; split <;> split <;> split <;> omega
  have hlen : InRange M32 (4 + ((msgBody m).length : Int)) := by unfold InRange M32 at *; omega
  have hm0 : InRange M8 0 := by unfold InRange M8; omega
  have hm1 : InRange M8 1 := by unfold InRange M8; omega
  rcases hm with h0 | h1'
  · have hsz : (4 + ((msgBody m).length : Int) - 6).toNat = (encB1 m).length := by rw [hbl]; simp [h0]; omega
    simp [encH1, readH1, h0, List.append_assoc, Int.natCast_add, readI64_i64 _ _ h1, readI32_i32 _ _ hlen, readU32_u32 _ _ hc,
      readI8_i8 _ _ hm0, readI8_i8 _ _ ha, hsz]
  · have hne : ¬ m.magic = 0 := by omega
    have hsz : (4 + ((msgBody m).length : Int) - 14).toNat = (encB1 m).length := by rw [hbl]; simp [hne]; omega
    simp [encH1, readH1, h1', List.append_assoc, Int.natCast_add, readI64_i64 _ _ h1, readI32_i32 _ _ hlen, readU32_u32 _ _ hc,
      readI8_i8 _ _ hm1, readI8_i8 _ _ ha, readI64_i64 _ _ ht, hsz]

end KV.C02

namespace KV.C02
open KV KV.RW KV.Spec.RB

/-! ### small facts about `truncate` and `tokenize` -/

def r2Tok (dg2 : Int → RecV2 → Nat) (fts : Int) (r : RecV2) : Tok := .r2 r.offDelta (dg2 fts r) (encRec r).length

theorem truncate_cons_fit (t : Tok) (ts : List Tok) (n : Nat) (h : t.size ≤ n) :
    truncate (t :: ts) n = t :: truncate ts (n - t.size) := by simp [truncate, h]

theorem truncate_cons_zero (t : Tok) (ts : List Tok) (h : 0 < t.size) : truncate (t :: ts) 0 = [] := by
  have : ¬ t.size ≤ 0 := by omega
  simp [truncate, this]

theorem truncate_cons_cut (t : Tok) (ts : List Tok) (n : Nat) (h : n < t.size) (h0 : n ≠ 0) :
    truncate (t :: ts) n = [.cut] := by
  have : ¬ t.size ≤ n := by omega
  simp [truncate, this, h0]

theorem tokenize_nil (c : TokCfg) (fuel : Nat) (st : TS) : tokenize c fuel st [] = [] := by
  cases fuel <;> simp [tokenize]

theorem isEmpty_take_false {l : Bytes} {n : Nat} (hn : 0 < n) (hl : 0 < l.length) : (l.take n).isEmpty = false := by
  cases l with
  | nil => simp at hl
  | cons x xs =>
    cases n with
    | zero => omega
    | succ n => simp

theorem isEmpty_append_false {a b : Bytes} (ha : 0 < a.length) : (a ++ b).isEmpty = false := by
  cases a with
  | nil => simp at ha
  | cons x xs => simp

/-- at the start of an item whose header `H` (with magic byte `mg`, `17 ≤ |H|`) is not completely there -/
theorem tokenize_hdr_short (c : TokCfg) (fuel : Nat) (H x : Bytes) (n : Nat) (mg : UInt8)
    (hmg : magicOf (H ++ x) = some mg) (hsz : H.length = if mg = 2 then 61 else if mg = 1 then 26 else 18)
    (hn : n < H.length) (h0 : n ≠ 0) :
    tokenize c (fuel + 1) .hdr ((H ++ x).take n) = [.cut] := by
  have hlen : ((H ++ x).take n).length = n := by simp only [List.length_take, List.length_append]; omega
  have hne : ((H ++ x).take n).isEmpty = false := isEmpty_take_false (by omega) (by simp only [List.length_append]; omega)
  simp only [tokenize, hne, Bool.false_eq_true, if_false, magicOf_take, hmg]
  by_cases h16 : 16 < n
  · simp only [h16, if_true, hlen]
    by_cases h2 : mg = 2
    · simp only [h2, if_true] at hsz ⊢
      have : n < 61 := by omega
      simp [this]
    · simp only [h2, if_false] at hsz ⊢
      have : n < (if mg = 1 then 26 else 18) := by omega
      simp [this]
  · simp [h16]

end KV.C02

namespace KV.C02
open KV KV.RW KV.Spec.RB

/-! ### v2 batches -/

theorem tokenize_recs (c : TokCfg) (h : H2) (Rb : Bytes) (Rt : List Tok)
    (IH : ∀ m fuel, m < fuel → tokenize c fuel .hdr (Rb.take m) = truncate Rt m) :
    ∀ (recs : List RecV2) (n fuel : Nat), n < fuel →
      tokenize c fuel (if recs.length = 0 then .hdr else .recs h recs.length) ((encRecs recs ++ Rb).take n)
        = truncate (recs.map (r2Tok c.dg2 h.firstTs) ++ Rt) n := by
  intro recs
  induction recs with
  | nil => intro n fuel hf; simpa [encRecs] using IH n fuel hf
  | cons r rs ih =>
    intro n fuel hf
    cases fuel with
    | zero => omega
    | succ fuel =>
      have hpos := encRec_length_pos r
      have hsz : (r2Tok c.dg2 h.firstTs r).size = (encRec r).length := rfl
      simp only [List.length_cons, Nat.add_one_ne_zero, if_false, encRecs, List.append_assoc, List.map_cons, List.cons_append]
      by_cases hfit : (encRec r).length ≤ n
      · rw [truncate_cons_fit _ _ _ (by rw [hsz]; exact hfit), hsz]
        have hread := readRec_take r (encRecs rs ++ Rb) n hfit
        have hne : ((encRec r ++ (encRecs rs ++ Rb)).take n).isEmpty = false := by
          rw [take_append_ge _ _ _ hfit]; exact isEmpty_append_false hpos
        have hlen : ((encRec r ++ (encRecs rs ++ Rb)).take n).length - ((encRecs rs ++ Rb).take (n - (encRec r).length)).length
            = (encRec r).length := by
          rw [take_append_ge _ _ _ hfit]; simp
        simp only [tokenize, hne, Bool.false_eq_true, if_false, hread, hlen]
        have hst : (if rs.length + 1 ≤ 1 then TS.hdr else TS.recs h (rs.length + 1 - 1))
            = (if rs.length = 0 then TS.hdr else TS.recs h rs.length) := by
          by_cases h0 : rs.length = 0 <;> simp [h0]
        rw [hst, ih (n - (encRec r).length) fuel (by omega)]
        rfl
      · by_cases h0 : n = 0
        · subst h0
          rw [truncate_cons_zero _ _ (by rw [hsz]; exact hpos)]
          simp [tokenize]
        · rw [truncate_cons_cut _ _ _ (by rw [hsz]; omega) h0]
          have hne : ((encRec r ++ (encRecs rs ++ Rb)).take n).isEmpty = false :=
            isEmpty_take_false (by omega) (by simp only [List.length_append]; omega)
          simp only [tokenize, hne, Bool.false_eq_true, if_false, readRec_prefix r _ n (by omega)]

/-- an uncompressed v2 batch followed by anything -/
theorem tok_plain2 (c : TokCfg) (hcrc : ∀ b, c.crcs.castagnoli b < M32) (b : BBatch) (hb : b.frame.WF)
    (Rb : Bytes) (Rt : List Tok) (IH : ∀ m fuel, m < fuel → tokenize c fuel .hdr (Rb.take m) = truncate Rt m)
    (n fuel : Nat) (hf : n < fuel) :
    tokenize c fuel .hdr ((encFrame c.crcs.castagnoli b.frame ++ Rb).take n) = truncate (tokensOf (b.item c.dg2) ++ Rt) n := by
  cases fuel with
  | zero => omega
  | succ fuel =>
    have htoks : tokensOf (b.item c.dg2) ++ Rt
        = Tok.h2 b.hdr.baseOffset b.hdr.lastOffsetDelta b.recs.length false (encRecs b.recs).length ::
          (b.recs.map (r2Tok c.dg2 b.hdr.firstTs) ++ Rt) := by
      simp only [BBatch.item, tokensOf, Bool.false_eq_true, if_false, List.length_map, List.map_map, List.cons_append,
        List.cons.injEq, Tok.h2.injEq, true_and, and_true]
      refine ⟨by omega, ?_⟩
      congr 1
    have hbytes : encFrame c.crcs.castagnoli b.frame ++ Rb
        = encH2 (c.crcs.castagnoli (frameBody b.frame)) b.frame ++ (encRecs b.recs ++ Rb) := by
      simp [encFrame_split, BBatch.frame, List.append_assoc]
    rw [htoks, hbytes]
    have hl61 := encH2_length (c.crcs.castagnoli (frameBody b.frame)) b.frame
    have hmg := magicOf_encH2 (c.crcs.castagnoli (frameBody b.frame)) b.frame
    by_cases h61 : 61 ≤ n
    · rw [truncate_cons_fit _ _ _ (by simpa [Tok.size] using h61)]
      rw [take_append_ge _ _ _ (by omega), hl61]
      have hne := isEmpty_append_false (b := (encRecs b.recs ++ Rb).take (n - 61)) (a := encH2 (c.crcs.castagnoli (frameBody b.frame)) b.frame) (by omega)
      have hlen : ¬ (encH2 (c.crcs.castagnoli (frameBody b.frame)) b.frame ++ (encRecs b.recs ++ Rb).take (n - 61)).length < 61 := by
        simp only [List.length_append, hl61]; omega
      simp only [tokenize, hne, Bool.false_eq_true, if_false, hmg, if_true, hlen, readH2_encH2 _ (hcrc _) _ hb]
      have hcnt : (b.frame.count).toNat = b.recs.length := by simp [BBatch.frame]
      have hattr : (b.frame.attributes % 8 != 0) = false := by simp [BBatch.frame]
      simp only [hcnt, hattr, Bool.false_eq_true, if_false]
      have := tokenize_recs c ⟨b.frame.baseOffset, b.frame.lastOffsetDelta, b.frame.firstTs, b.frame.count, b.frame.attributes,
        b.frame.payload.length⟩ Rb Rt IH b.recs (n - 61) fuel (by omega)
      simp only [Tok.size]
      rw [this]
      simp [BBatch.frame]
    · by_cases h0 : n = 0
      · subst h0
        rw [truncate_cons_zero _ _ (by simp [Tok.size])]
        simp [tokenize]
      · rw [truncate_cons_cut _ _ _ (by simp [Tok.size]; omega) h0]
        exact tokenize_hdr_short c fuel _ _ n 2 (hmg _) (by simp [hl61]) (by omega) h0

/-- a compressed v2 batch followed by anything; `dec ∘ enc = id` -/
theorem tok_comp2 (c : TokCfg) (enc : Int → Bytes → Bytes) (hdec : ∀ k b, c.dec k (enc k b) = some b)
    (hcrc : ∀ b, c.crcs.castagnoli b < M32) (hdr : FrameV2) (codec : Int) (recs : List RecV2)
    (hwf : (BItem.comp2 hdr codec recs).WF c enc) (hpl : 0 < (enc codec (encRecs recs)).length)
    (Rb : Bytes) (Rt : List Tok) (IH : ∀ m fuel, m < fuel → tokenize c fuel .hdr (Rb.take m) = truncate Rt m)
    (n fuel : Nat) (hf : n < fuel) :
    tokenize c fuel .hdr (((BItem.comp2 hdr codec recs).bytes c enc ++ Rb).take n)
      = truncate (tokensOf ((BItem.comp2 hdr codec recs).item c enc) ++ Rt) n := by
  obtain ⟨hfw, hc0, hc8, hne⟩ := hwf
  cases fuel with
  | zero => omega
  | succ fuel =>
    have hlenne : recs.length ≠ 0 := by simpa using hne
    obtain ⟨f, hfdef⟩ : ∃ f, f = comp2Frame enc hdr codec recs := ⟨_, rfl⟩
    obtain ⟨pl, hpldef⟩ : ∃ pl, pl = enc codec (encRecs recs) := ⟨_, rfl⟩
    rw [← hfdef] at hfw
    rw [← hpldef] at hpl
    have htoks : tokensOf ((BItem.comp2 hdr codec recs).item c enc) ++ Rt
        = Tok.h2 hdr.baseOffset hdr.lastOffsetDelta recs.length true pl.length ::
          Tok.z2 pl.length (recs.map fun r => (r.offDelta, c.dg2 hdr.firstTs r, (encRec r).length)) :: Rt := by
      simp only [BItem.item, tokensOf, if_true, List.length_map, List.cons_append, List.nil_append, List.cons.injEq,
        Tok.h2.injEq, true_and, and_true, hpldef]
      omega
    have hbytes : (BItem.comp2 hdr codec recs).bytes c enc ++ Rb
        = encH2 (c.crcs.castagnoli (frameBody f)) f ++ (pl ++ Rb) := by
      simp [BItem.bytes, encFrame_split, hfdef, hpldef, comp2Frame, List.append_assoc]
    rw [htoks, hbytes]
    have hl61 := encH2_length (c.crcs.castagnoli (frameBody f)) f
    have hmg := magicOf_encH2 (c.crcs.castagnoli (frameBody f)) f
    have hcm : codec % 8 = codec := by omega
    by_cases h61 : 61 ≤ n
    · rw [truncate_cons_fit _ _ _ (by simpa [Tok.size] using h61)]
      rw [take_append_ge _ _ _ (by omega), hl61]
      have hne1 := isEmpty_append_false (b := (pl ++ Rb).take (n - 61)) (a := encH2 (c.crcs.castagnoli (frameBody f)) f) (by omega)
      have hlen : ¬ (encH2 (c.crcs.castagnoli (frameBody f)) f ++ (pl ++ Rb).take (n - 61)).length < 61 := by
        simp only [List.length_append, hl61]; omega
      simp only [tokenize, hne1, Bool.false_eq_true, if_false, hmg, if_true, hlen, readH2_encH2 _ (hcrc _) _ hfw]
      have hcnt : (f.count).toNat = recs.length := by simp [hfdef, comp2Frame]
      have hattr : (f.attributes % 8 != 0) = true := by simp [hfdef, comp2Frame, hcm]; omega
      simp only [hcnt, hattr, if_true, Tok.size]
      -- the payload
      have hfb : f.baseOffset = hdr.baseOffset ∧ f.lastOffsetDelta = hdr.lastOffsetDelta ∧ f.payload = pl ∧ f.firstTs = hdr.firstTs
          ∧ f.attributes = codec ∧ f.count = (recs.length : Int) := by
        simp [hfdef, hpldef, comp2Frame]
      obtain ⟨e1, e2, e3, e4, e5, e6⟩ := hfb
      rw [e1, e2, e3]
      congr 1
      by_cases hpfit : pl.length ≤ n - 61
      · rw [truncate_cons_fit _ _ _ (by simpa [Tok.size] using hpfit)]
        rw [take_append_ge _ _ _ hpfit]
        cases fuel with
        | zero => omega
        | succ fuel =>
          have hne2 := isEmpty_append_false (b := Rb.take (n - 61 - pl.length)) (a := pl) hpl
          have hl2 : ¬ (pl ++ Rb.take (n - 61 - pl.length)).length < pl.length := by simp only [List.length_append]; omega
          have htk : (pl ++ Rb.take (n - 61 - pl.length)).take pl.length = pl := by simp
          have hdr' : (pl ++ Rb.take (n - 61 - pl.length)).drop pl.length = Rb.take (n - 61 - pl.length) := by simp
          have hd : (c.dec (codec % 8) pl).bind (decodeRecs (recs.length : Int)) = some recs := by
            rw [hcm, hpldef]; simp only [hdec, Option.bind_some]; exact decodeRecs_encRecs recs
          simp only [tokenize, hne2, Bool.false_eq_true, if_false, hl2, htk, hdr', e4, e5, e6, hd, Tok.size]
          rw [IH _ fuel (by omega)]
      · by_cases h0 : n - 61 = 0
        · rw [h0, truncate_cons_zero _ _ (by simpa [Tok.size] using hpl)]
          simp [tokenize_nil]
        · rw [truncate_cons_cut _ _ _ (by simp [Tok.size]; omega) h0]
          cases fuel with
          | zero => omega
          | succ fuel =>
            have hne2 : ((pl ++ Rb).take (n - 61)).isEmpty = false :=
              isEmpty_take_false (by omega) (by simp only [List.length_append]; omega)
            have hl2 : ((pl ++ Rb).take (n - 61)).length < pl.length := by
              simp only [List.length_take, List.length_append]; omega
            simp only [tokenize, hne2, Bool.false_eq_true, if_false, hl2, if_true]
    · by_cases h0 : n = 0
      · subst h0
        rw [truncate_cons_zero _ _ (by simp [Tok.size])]
        simp [tokenize]
      · rw [truncate_cons_cut _ _ _ (by simp [Tok.size]; omega) h0]
        exact tokenize_hdr_short c fuel _ _ n 2 (hmg _) (by simp [hl61]) (by omega) h0

end KV.C02

namespace KV.C02
open KV KV.RW KV.Spec.RB

/-! ### v0/v1 messages -/

def h1Of (m : Msg) : H1 := ⟨m.offset, m.magic, m.attributes, (encB1 m).length⟩

theorem encB1_pos (m : Msg) : 0 < (encB1 m).length := by
  cases hk : m.key <;> simp [encB1, nbytes, hk] <;> omega

/-- a v0/v1 message (plain or wrapper) followed by anything, given what the decoder does with its complete body -/
theorem tok_v1 (c : TokCfg) (cv : Nat) (hcv : cv < M32) (m : Msg) (hwf : m.WF) (bt : Tok) (hbt : bt.size = (encB1 m).length)
    (hbody : ∀ fuel x, tokenize c (fuel + 1) (.body (encH1 cv m) (h1Of m)) (encB1 m ++ x) = bt :: tokenize c fuel .hdr x)
    (Rb : Bytes) (Rt : List Tok) (IH : ∀ k fuel, k < fuel → tokenize c fuel .hdr (Rb.take k) = truncate Rt k)
    (n fuel : Nat) (hf : n < fuel) :
    tokenize c fuel .hdr ((encH1 cv m ++ (encB1 m ++ Rb)).take n)
      = truncate (Tok.h1 m.magic.toNat m.offset (m.attributes % 8 != 0) :: bt :: Rt) n := by
  cases fuel with
  | zero => omega
  | succ fuel =>
    have hmag := hwf.2.1
    have hlH := encH1_length cv m
    have hmg := magicOf_encH1 cv m
    have hsz1 : (Tok.h1 m.magic.toNat m.offset (m.attributes % 8 != 0)).size = (encH1 cv m).length := by
      rcases hmag with h | h <;> simp [Tok.size, hlH, h]
    have hpos := encB1_pos m
    by_cases hfit : (encH1 cv m).length ≤ n
    · rw [truncate_cons_fit _ _ _ (by rw [hsz1]; exact hfit), hsz1]
      rw [take_append_ge _ _ _ hfit]
      have hne1 := isEmpty_append_false (b := (encB1 m ++ Rb).take (n - (encH1 cv m).length)) (a := encH1 cv m)
        (by rw [hlH]; split <;> omega)
      have hmgv : (if m.magic = 1 then (1 : UInt8) else 0) ≠ 2 := by split <;> decide
      have hlen : ¬ (encH1 cv m ++ (encB1 m ++ Rb).take (n - (encH1 cv m).length)).length
          < (if (if m.magic = 1 then (1 : UInt8) else 0) = 1 then 26 else 18) := by
        simp only [List.length_append, hlH]
        rcases hmag with h | h <;> simp [h]
      simp only [tokenize, hne1, Bool.false_eq_true, if_false, hmg _ hmag, hmgv, hlen, readH1_encH1 cv hcv m hwf]
      have htk : (encH1 cv m ++ (encB1 m ++ Rb).take (n - (encH1 cv m).length)).take
          ((encH1 cv m ++ (encB1 m ++ Rb).take (n - (encH1 cv m).length)).length - ((encB1 m ++ Rb).take (n - (encH1 cv m).length)).length)
          = encH1 cv m := by
        simp
      rw [htk]
      congr 1
      -- the body
      by_cases hbfit : (encB1 m).length ≤ n - (encH1 cv m).length
      · rw [truncate_cons_fit _ _ _ (by rw [hbt]; exact hbfit), hbt, take_append_ge _ _ _ hbfit]
        cases fuel with
        | zero => omega
        | succ fuel =>
          have := hbody fuel (Rb.take (n - (encH1 cv m).length - (encB1 m).length))
          simp only [h1Of] at this
          have h18 : 18 ≤ (encH1 cv m).length := by rw [hlH]; split <;> omega
          rw [this, IH _ fuel (by omega)]
      · by_cases h0 : n - (encH1 cv m).length = 0
        · rw [h0, truncate_cons_zero _ _ (by rw [hbt]; exact hpos)]
          simp [tokenize_nil]
        · rw [truncate_cons_cut _ _ _ (by rw [hbt]; omega) h0]
          cases fuel with
          | zero => omega
          | succ fuel =>
            have hne2 : ((encB1 m ++ Rb).take (n - (encH1 cv m).length)).isEmpty = false :=
              isEmpty_take_false (by omega) (by simp only [List.length_append]; omega)
            have hl2 : ((encB1 m ++ Rb).take (n - (encH1 cv m).length)).length < (encB1 m).length := by
              simp only [List.length_take, List.length_append]; omega
            simp only [tokenize, hne2, Bool.false_eq_true, if_false, hl2, if_true]
    · by_cases h0 : n = 0
      · subst h0
        rw [truncate_cons_zero _ _ (by rw [hsz1, hlH]; split <;> omega)]
        simp [tokenize]
      · rw [truncate_cons_cut _ _ _ (by rw [hsz1]; omega) h0]
        refine tokenize_hdr_short c fuel _ _ n _ (hmg _ hmag) ?_ (by omega) h0
        rw [hlH]
        rcases hmag with h | h <;> simp [h]

end KV.C02

namespace KV.C02
open KV KV.RW KV.Spec.RB

theorem encMsgs_eq_encSet (c : Crcs) (ms : List Msg) : encMsgs c.ieee ms = encSet c (ms.map Entry.msg) := by
  induction ms with
  | nil => rfl
  | cons m ms ih => simp [encMsgs, encSet, encEntry, ih]

theorem msgsOf_map (ms : List Msg) : msgsOf (ms.map Entry.msg) = some ms := by
  induction ms with
  | nil => rfl
  | cons m ms ih => simp [msgsOf, ih]

/-- the complete body of a plain v0/v1 message -/
theorem body_msg (c : TokCfg) (hcrc : ∀ b, c.crcs.ieee b < M32) (m : Msg) (hwf : m.WF) (hplain : m.attributes % 8 = 0)
    (fuel : Nat) (x : Bytes) :
    tokenize c (fuel + 1) (.body (encH1 (c.crcs.ieee (msgBody m)) m) (h1Of m)) (encB1 m ++ x)
      = Tok.kv (c.dg1 m) (encB1 m).length :: tokenize c fuel .hdr x := by
  have hne := isEmpty_append_false (b := x) (a := encB1 m) (encB1_pos m)
  have hl : ¬ (encB1 m ++ x).length < (encB1 m).length := by simp only [List.length_append]; omega
  have hread : readMsg c.crcs.ieee (encH1 (c.crcs.ieee (msgBody m)) m ++ (encB1 m ++ x).take (encB1 m).length) = some (m, []) := by
    have := readMsg_encMsg c.crcs.ieee hcrc m hwf []
    simpa [encMsg_split] using this
  simp only [tokenize, hne, Bool.false_eq_true, if_false, h1Of, hl, hread, hplain, if_true]
  simp

/-- the complete body of a wrapper message; `dec ∘ enc = id` -/
theorem body_wrap (c : TokCfg) (enc : Int → Bytes → Bytes) (hdec : ∀ k b, c.dec k (enc k b) = some b)
    (h1 : ∀ b, c.crcs.ieee b < M32) (h2 : ∀ b, c.crcs.castagnoli b < M32)
    (m : Msg) (codec : Int) (inner : List Msg) (hwf : (BItem.wrap m codec inner).WF c enc) (fuel : Nat) (x : Bytes) :
    tokenize c (fuel + 1) (.body (encH1 (c.crcs.ieee (msgBody (wrapMsg enc c.crcs.ieee m codec inner))) (wrapMsg enc c.crcs.ieee m codec inner))
        (h1Of (wrapMsg enc c.crcs.ieee m codec inner))) (encB1 (wrapMsg enc c.crcs.ieee m codec inner) ++ x)
      = Tok.zv (encB1 (wrapMsg enc c.crcs.ieee m codec inner)).length (inner.map fun y => (y.offset, c.dg1 y)) :: tokenize c fuel .hdr x := by
  obtain ⟨hmw, hc0, hc8, hin⟩ := hwf
  obtain ⟨mw, hmwdef⟩ : ∃ mw, mw = wrapMsg enc c.crcs.ieee m codec inner := ⟨_, rfl⟩
  rw [← hmwdef] at hmw ⊢
  have hne := isEmpty_append_false (b := x) (a := encB1 mw) (encB1_pos mw)
  have hl : ¬ (encB1 mw ++ x).length < (encB1 mw).length := by simp only [List.length_append]; omega
  have hread : readMsg c.crcs.ieee (encH1 (c.crcs.ieee (msgBody mw)) mw ++ (encB1 mw ++ x).take (encB1 mw).length) = some (mw, []) := by
    have := readMsg_encMsg c.crcs.ieee h1 mw hmw []
    simpa [encMsg_split] using this
  have hattr : mw.attributes = codec := by rw [hmwdef]; rfl
  have hcm : codec % 8 = codec := by omega
  have hnz : ¬ codec % 8 = 0 := by omega
  have hval : ((mw.value.bind (c.dec (codec % 8))).bind (decodeSet c.crcs)).bind msgsOf = some inner := by
    rw [hmwdef, hcm]
    simp only [wrapMsg, Option.bind_some, hdec, encMsgs_eq_encSet]
    rw [decodeSet_encSet c.crcs h1 h2 (inner.map Entry.msg) (by
      intro e he
      simp only [List.mem_map] at he
      obtain ⟨y, hy, rfl⟩ := he
      exact hin y hy)]
    simp [msgsOf_map]
  simp only [tokenize, hne, Bool.false_eq_true, if_false, h1Of, hl, hread, hattr, hnz, hval]
  simp

end KV.C02

namespace KV.C02
open KV KV.RW KV.Spec.RB

theorem hdr1Size_eq (cv : Nat) (m : Msg) (h : m.magic = 0 ∨ m.magic = 1) : hdr1Size m.magic.toNat = (encH1 cv m).length := by
  rw [encH1_length]
  rcases h with h | h <;> simp [hdr1Size, h]

/-- **bytes ↔ tokens** for everything the reference encoder can put into a message set — uncompressed and compressed
v2 batches, v0/v1 messages and compressed wrappers, in any order — cut at any byte: tokenizing the first `n` bytes
gives the token stream of the layout truncated at `n` bytes.  The codec is a parameter with `dec ∘ enc = id` and
non-empty output. -/
theorem tokenize_items (c : TokCfg) (enc : Int → Bytes → Bytes) (hdec : ∀ k b, c.dec k (enc k b) = some b)
    (hpos : ∀ k b, 0 < (enc k b).length) (h1 : ∀ b, c.crcs.ieee b < M32) (h2 : ∀ b, c.crcs.castagnoli b < M32) :
    ∀ (its : List BItem), (∀ it ∈ its, it.WF c enc) → ∀ (n fuel : Nat), n < fuel →
      tokenize c fuel .hdr ((encItems c enc its).take n) = truncate (allTokens (layoutOfItems c enc its)) n := by
  intro its
  induction its with
  | nil => intro _ n fuel _; simp [encItems, tokenize_nil, layoutOfItems, allTokens, truncate]
  | cons it its ih =>
    intro hwf n fuel hf
    have hit := hwf it (by simp)
    have IH := fun m fuel hm => ih (fun x hx => hwf x (by simp [hx])) m fuel hm
    have hall : allTokens (layoutOfItems c enc (it :: its)) = tokensOf (it.item c enc) ++ allTokens (layoutOfItems c enc its) := by
      simp [layoutOfItems, allTokens]
    rw [hall]
    simp only [encItems]
    cases it with
    | plain2 b => exact tok_plain2 c h2 b hit _ _ IH n fuel hf
    | comp2 hdr codec recs => exact tok_comp2 c enc hdec h2 hdr codec recs hit (hpos _ _) _ _ IH n fuel hf
    | msg m =>
      obtain ⟨hm, hplain⟩ := hit
      have hsz := hdr1Size_eq (c.crcs.ieee (msgBody m)) m hm.2.1
      have hflag : (m.attributes % 8 != 0) = false := by simp [hplain]
      have htoks : tokensOf ((BItem.msg m).item c enc) ++ allTokens (layoutOfItems c enc its)
          = Tok.h1 m.magic.toNat m.offset (m.attributes % 8 != 0) :: Tok.kv (c.dg1 m) (encB1 m).length ::
            allTokens (layoutOfItems c enc its) := by
        simp only [BItem.item, tokensOf, hflag, hsz, encMsg_split, List.length_append, List.cons_append, List.nil_append,
          List.cons.injEq, Tok.kv.injEq, true_and, and_true]
        omega
      rw [htoks]
      simp only [BItem.bytes, encMsg_split, List.append_assoc]
      exact tok_v1 c _ (h1 _) m hm _ rfl (body_msg c h1 m hm hplain) _ _ IH n fuel hf
    | wrap m codec inner =>
      have hit' := hit
      obtain ⟨hm, hc0, hc8, _⟩ := hit
      obtain ⟨mw, hmwdef⟩ : ∃ mw, mw = wrapMsg enc c.crcs.ieee m codec inner := ⟨_, rfl⟩
      have hmm : mw.magic = m.magic ∧ mw.offset = m.offset ∧ mw.attributes = codec := by rw [hmwdef]; exact ⟨rfl, rfl, rfl⟩
      have hsz := hdr1Size_eq (c.crcs.ieee (msgBody mw)) mw (by rw [hmwdef]; exact hm.2.1)
      have hflag : (mw.attributes % 8 != 0) = true := by rw [hmm.2.2]; simp; omega
      have htoks : tokensOf ((BItem.wrap m codec inner).item c enc) ++ allTokens (layoutOfItems c enc its)
          = Tok.h1 mw.magic.toNat mw.offset (mw.attributes % 8 != 0) ::
            Tok.zv (encB1 mw).length (inner.map fun y => (y.offset, c.dg1 y)) :: allTokens (layoutOfItems c enc its) := by
        simp only [BItem.item, tokensOf, hflag, ← hmwdef, hmm.1.symm ▸ hsz, encMsg_split, List.length_append,
          List.cons_append, List.nil_append, List.cons.injEq, Tok.zv.injEq, Tok.h1.injEq, hmm.1, hmm.2.1, true_and, and_true]
        omega
      rw [htoks]
      simp only [BItem.bytes, ← hmwdef, encMsg_split, List.append_assoc]
      refine tok_v1 c _ (h1 _) mw (by rw [hmwdef]; exact hm) _ rfl ?_ _ _ IH n fuel hf
      intro fuel x
      rw [hmwdef]
      exact body_wrap c enc hdec h1 h2 m codec inner hit' fuel x

end KV.C02
