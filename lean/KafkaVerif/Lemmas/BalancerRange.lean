/- Lemmas/BalancerRange.lean — arithmetic helper lemmas for the key-hashing balancers. -/
import KafkaVerif.Lemmas.Murmur2
namespace KV.Balancer
open KV

theorem ofNat_toNat_small (n : Nat) (h : n < 4294967296) : (UInt32.ofNat n).toNat = n := by
  simp [UInt32.toNat_ofNat']; omega

theorem u32_mod_lt (x : UInt32) (n : Nat) (h0 : 0 < n) (h : n < 4294967296) :
    (x % UInt32.ofNat n).toNat < n := by
  rw [UInt32.toNat_mod, ofNat_toNat_small n h]
  exact Nat.mod_lt _ h0

theorem u32_mod_toNat (x : UInt32) (n : Nat) (h : n < 4294967296) :
    (x % UInt32.ofNat n).toNat = x.toNat % n := by
  rw [UInt32.toNat_mod, ofNat_toNat_small n h]

theorem getElem?_mem_of_lt (parts : List Int) (i : Nat) (h : i < parts.length) :
    ∃ p, parts[i]? = some p ∧ p ∈ parts :=
  ⟨parts[i], by simp [h], List.getElem_mem h⟩

theorem ofNat_ne_zero (n : Nat) (h0 : 0 < n) (h : n < 4294967296) : UInt32.ofNat n ≠ 0 := by
  intro e
  have := congrArg UInt32.toNat e
  rw [ofNat_toNat_small n h] at this
  simp at this; omega

theorem mask31_toNat (x : UInt32) : (x &&& (0x7fffffff : UInt32)).toNat = x.toNat % 2147483648 := by
  rw [UInt32.toNat_and]
  have : (0x7fffffff : UInt32).toNat = 2^31 - 1 := by decide
  rw [this, Nat.and_two_pow_sub_one_eq_mod]

theorem lenInt32_small (n : Nat) (h : n < 2147483648) : lenInt32 n = (n : Int) := by
  unfold lenInt32
  have : n % 4294967296 = n := Nat.mod_eq_of_lt (by omega)
  simp [this, h]

theorem toInt32_eq_spec (x : UInt32) : toInt32 x = Spec.asInt32 x.toNat := by
  unfold toInt32 Spec.asInt32 Spec.two31 Spec.two32
  split <;> simp

/-- `|a tmod n| < n` and `≥ 0` — the arithmetic of `Hash.Balance` -/
theorem abs_tmod_range (a : Int) (n : Int) (hn : 0 < n) :
    let p := a.tmod n
    0 ≤ (if p < 0 then -p else p) ∧ (if p < 0 then -p else p) < n := by
  intro p
  have h1 : p < n := Int.tmod_lt_of_pos a hn
  have h2 : -n < p := by
    have := Int.lt_tmod_of_pos a hn
    simpa using this
  split <;> omega

end KV.Balancer
