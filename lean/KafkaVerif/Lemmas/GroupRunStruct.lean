/-
Lemmas/GroupRunStruct.lean — structural invariant of the `run` goroutine's program counter in Model/GroupRun.lean
(coordinator stage ≤ 2; a generation exists while the pc is inside one; the generation is untouched until its first
internal function is started) and progress of `run` after Close in every phase except `gen.close()`.
-/
import KafkaVerif.Lemmas.GroupInv
import KafkaVerif.Lemmas.GroupRunMeasure
namespace KV.Group

/-- a generation no function of which has been started -/
def FreshGen (g : Gen) : Prop :=
  g.closed = false ∧ g.routines = 0 ∧ g.hb = none ∧ g.watchers = [] ∧ g.users = 0 ∧ g.late = 0 ∧ g.returning = 0

/-- structural facts of the `run` goroutine's program counter -/
structure Inv3 (s : St) : Prop where
  stage : ∀ k lv, s.pc = .coord k lv → k ≤ 2
  hasGen : s.pc.quiet = false → 0 < s.gens
  fresh : s.pc = .starting 0 → FreshGen s.cur

theorem fresh_blocks (g : Gen) (hf : FreshGen g) :
    (∀ gid m, gHbCall gid m g = none) ∧ (∀ e, gHbRet e g = none) ∧ gHbExit g = none ∧
    (∀ t, gWatchCall t g = none) ∧ (∀ t n, gWatchParts t n g = none) ∧ (∀ t e, gWatchErr t e g = none) ∧
    (∀ t, gWatchExit t g = none) ∧ (∀ c l, gFnExit c l g = none) ∧ (∀ a, gURet a g = none) ∧ gUCtx g = none := by
  obtain ⟨h1, h2, h3, h4, h5, h6, h7⟩ := hf
  refine ⟨?_, ?_, ?_, ?_, ?_, ?_, ?_, ?_, ?_, ?_⟩
  · intro gid m; simp [gHbCall, h3]
  · intro e; simp [gHbRet, h3]
  · simp [gHbExit, h3]
  · intro t; simp [gWatchCall, h4]
  · intro t n; simp [gWatchParts, h4]
  · intro t e; simp [gWatchErr, h4]
  · intro t; simp [gWatchExit, h4]
  · intro c l; simp [gFnExit, Gen.fnExit, h2]
  · intro a; cases a <;> simp [gURet, h5, h6]
  · simp [gUCtx, h1]

theorem inv3_onCur (s s' : St) (g : Nat) (f : Gen → Option Gen) (hi : Inv3 s) (hf : FreshGen s.cur → f s.cur = none)
    (h : onCur s g f = some s') : Inv3 s' := by
  simp only [onCur] at h
  split at h
  · cases hfc : f s.cur with
    | none => simp [hfc] at h
    | some c =>
      simp [hfc] at h; subst h
      refine ⟨hi.stage, hi.hasGen, ?_⟩
      intro hp
      have := hf (hi.fresh hp)
      rw [hfc] at this; cases this
  · simp at h

theorem inv3_init : Inv3 {} := by
  refine ⟨?_, ?_, ?_⟩
  · intro k lv h; simp at h; omega
  · intro h; simp [PC.quiet] at h
  · intro h; simp at h

theorem inv3_of_quiet (s : St) (hq : s.pc.quiet = true) (hs : ∀ k lv, s.pc = .coord k lv → k ≤ 2) : Inv3 s :=
  ⟨hs, (fun h => by rw [hq] at h; cases h), (fun h => by rw [h] at hq; simp [PC.quiet] at hq)⟩

theorem inv3_afterLeave (s : St) (a : After) : Inv3 (afterLeave s a) := by
  cases a <;> exact inv3_of_quiet _ (by simp [afterLeave, PC.quiet]) (by intro k lv h; simp [afterLeave] at h)

theorem inv3_coordFail (s : St) (lv : Option After) (e : Err) : Inv3 (coordFail s lv e) := by
  cases lv with
  | none => exact inv3_of_quiet _ (by simp [coordFail, PC.quiet]) (by intro k lv h; simp [coordFail] at h)
  | some a => exact inv3_afterLeave _ a

theorem inv3_step (c : Cfg) (s s' : St) (e : Ev) (hi : Inv3 s) (h : step c s e = some s') : Inv3 s' := by
  have fb := fun hf => fresh_blocks s.cur hf
  cases e <;> simp only [step] at h
  case hbCall g gid m => exact inv3_onCur s s' g _ hi (fun hf => (fb hf).1 gid m) h
  case hbRet g e => exact inv3_onCur s s' g _ hi (fun hf => (fb hf).2.1 e) h
  case hbExit g => exact inv3_onCur s s' g _ hi (fun hf => (fb hf).2.2.1) h
  case watchCall g t => exact inv3_onCur s s' g _ hi (fun hf => (fb hf).2.2.2.1 t) h
  case watchParts g t n => exact inv3_onCur s s' g _ hi (fun hf => (fb hf).2.2.2.2.1 t n) h
  case watchErr g t e => exact inv3_onCur s s' g _ hi (fun hf => (fb hf).2.2.2.2.2.1 t e) h
  case watchExit g t => exact inv3_onCur s s' g _ hi (fun hf => (fb hf).2.2.2.2.2.2.1 t) h
  case fnExit g cbm l => exact inv3_onCur s s' g _ hi (fun hf => (fb hf).2.2.2.2.2.2.2.1 cbm l) h
  case uRet g acc =>
    split at h
    · exact inv3_onCur s s' g _ hi (fun hf => (fb hf).2.2.2.2.2.2.2.2.1 acc) h
    · split at h
      · cases h; exact ⟨hi.stage, hi.hasGen, hi.fresh⟩
      · cases h
  case uCtx g =>
    split at h
    · exact inv3_onCur s s' g _ hi (fun hf => (fb hf).2.2.2.2.2.2.2.2.2) h
    · split at h
      · cases h; exact hi
      · cases h
  case gNew g gid m =>
    split at h
    · cases h
      refine ⟨by intro k lv hp; simp at hp, by intro _; simp, ?_⟩
      intro _; simp [FreshGen]
    · cases h
  case gStart g acc =>
    split at h
    · split at h
      · rename_i k hpc
        simp only [Option.map_eq_some_iff] at h
        obtain ⟨cg, hcg, rfl⟩ := h
        have hg : 0 < s.gens := hi.hasGen (by simp [hpc, PC.quiet])
        refine ⟨?_, fun _ => hg, ?_⟩
        · intro k' lv hp; split at hp <;> simp at hp
        · intro hp; split at hp <;> simp at hp
      · simp only [Option.map_eq_some_iff] at h
        obtain ⟨cg, hcg, rfl⟩ := h
        rename_i hns
        refine ⟨hi.stage, hi.hasGen, ?_⟩
        intro hp
        exact absurd hp (by intro hp'; exact (hns 0 hp').elim)
    · split at h
      · cases h; exact ⟨hi.stage, hi.hasGen, hi.fresh⟩
      · cases h
  clear fb
  all_goals (repeat' split at h)
  all_goals (first | cases h | skip)
  all_goals (try (exact inv3_coordFail _ _ _))
  all_goals (try (exact inv3_afterLeave _ _))
  all_goals (try (exact ⟨hi.stage, hi.hasGen, hi.fresh⟩))
  all_goals (try (constructor <;> simp_all [PC.quiet, afterLeave, coordFail] <;> done))
  all_goals (try (
    have hg : 0 < s.gens := hi.hasGen (by simp_all [PC.quiet])
    exact ⟨by intro k lv hp; simp at hp, fun _ => hg, by intro hp; simp at hp⟩))



theorem inv3_reachable (c : Cfg) (s : St) (h : Reachable c s) : Inv3 s := by
  induction h with
  | init => exact inv3_init
  | step e _ hs ih => exact inv3_step c _ _ e ih hs

/-- once the group is closed, in every reachable state whose pc is not `exited` and not inside `gen.close()` the
`run` goroutine has an enabled step of its own (a coordinator answer it waits for, the start of the next internal
function of the generation, or a step of its loop) -/
theorem run_progress_reachable (c : Cfg) (s : St) (hr : Reachable c s) (hc : s.closedCG = true) (hx : s.pc ≠ .exited)
    (hw : ∀ ret r, s.pc ≠ .waiting ret r) :
    ∃ e, (e.runLoop = true ∨ ∃ g acc, e = .gStart g acc) ∧ (step c s e).isSome := by
  have hi := inv3_reachable c s hr
  by_cases hs : ∃ k, s.pc = .starting k
  · obtain ⟨k, hpc⟩ := hs
    have hg : 0 < s.gens := hi.hasGen (by simp [hpc, PC.quiet])
    have hcur : isCur s (s.gens - 1) = true := by simp [isCur]; omega
    refine ⟨.gStart (s.gens - 1) s.cur.start.2, Or.inr ⟨_, _, rfl⟩, ?_⟩
    simp only [step, hcur, if_true, hpc]
    by_cases hk : k = 0
    · subst hk
      obtain ⟨hcl, _⟩ := hi.fresh hpc
      simp [gHbStart, Gen.start, hcl]
    · have : (k == 0) = false := by simp [hk]
      simp [this, gWatchStart]
  · have hs' : ∀ k, s.pc ≠ .starting k := fun k hk => hs ⟨k, hk⟩
    have hgens : (s.pc = .handing ∨ s.pc = .running ∨ ∃ r, s.pc = .closing r) → 0 < s.gens := by
      intro h
      apply hi.hasGen
      rcases h with h | h | ⟨r, h⟩ <;> simp [h, PC.quiet]
    obtain ⟨e, he, hen⟩ := run_progress_when_closed c s hc hx hw hs' hgens hi.stage
    exact ⟨e, Or.inl he, hen⟩

end KV.Group
