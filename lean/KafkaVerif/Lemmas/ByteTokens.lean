/-
Lemmas/ByteTokens.lean — the general tokenizer inverts the reference encoder: the bytes of a described record set
tokenize to the token stream of its layout (Spec/Layout `allTokens`), and the layout's records are the logical
records of the description.
-/
import KafkaVerif.Spec.ByteTokens
import KafkaVerif.Lemmas.RecordReader

namespace KV.Spec.RB
open KV KV.RW KV.C02 KV.Model.RecordReader

def Desc.Good (c : Crcs) (dec : Int → Bytes → Option Bytes) : Desc → Prop
  | .batch f xs => GoodBatch dec f xs
  | .msg m => m.WF ∧ codecOf m.attributes = 0
  | .wrapper m inner => GoodWrapper c dec m inner

theorem wrapRecs_eq (m : Msg) (inner : List Msg) : wrapRecs m inner = wrapperRecs m inner := rfl

theorem Desc.goodEntry (c : Crcs) (dec : Int → Bytes → Option Bytes) (d : Desc) (h : d.Good c dec) :
    GoodEntry c dec d.entry d.group := by
  cases d with
  | batch f xs => exact .batch f xs h
  | msg m => exact .msg m h.1 h.2
  | wrapper m inner => exact .wrapper m inner h

theorem allGood_descs (c : Crcs) (dec : Int → Bytes → Option Bytes) (ds : List Desc) (h : ∀ d ∈ ds, d.Good c dec) :
    AllGood c dec (ds.map Desc.entry) (ds.map Desc.group) := by
  induction ds with
  | nil => exact .nil
  | cons d ds ih => exact .cons (d.goodEntry c dec (h d (by simp))) (ih fun d' hd' => h d' (by simp [hd']))

theorem magic_toNat (m : Msg) (h : m.WF) : (m.magic.toNat = 0 ∨ m.magic.toNat = 1) := by
  rcases h.2.1 with h0 | h1
  · left; rw [h0]; rfl
  · right; rw [h1]; rfl

theorem tokenizeEntry_enc (c : Crcs) (h1 : ∀ b, c.ieee b < M32) (h2 : ∀ b, c.castagnoli b < M32)
    (dec : Int → Bytes → Option Bytes) (tagOf : Rec → Nat) (d : Desc) (h : d.Good c dec) (rest : Bytes) :
    tokenizeEntry c dec tagOf (encEntry c d.entry ++ rest) = some (tokensOf (d.item c tagOf), rest) := by
  cases d with
  | batch f xs =>
    have hb : GoodBatch dec f xs := h
    simp only [Desc.entry, encEntry, tokenizeEntry, magicOf_encFrame, if_true, readFrame_encFrame c.castagnoli h2 f hb.wf rest]
    by_cases hc : codecOf f.attributes = 0
    · have hp : f.payload = encRecs xs := by
        have := hb.payload; simp only [hc, if_true, Option.some.injEq] at this; exact this
      simp only [hc, if_true, hp, hb.count, decodeRecs_encRecs, Desc.item, tokensOf, ne_eq, not_true_eq_false,
        decide_false, Bool.false_eq_true, if_false]
      have e1 : f.baseOffset + f.lastOffsetDelta - f.baseOffset = f.lastOffsetDelta := by omega
      have e2 : (recToks tagOf f xs).length = xs.length := by simp [recToks]
      rw [e1, e2]
    · have hp : dec (codecOf f.attributes) f.payload = some (encRecs xs) := by
        have := hb.payload; simp only [hc, if_false] at this; exact this
      simp only [hc, if_false, hp, hb.count, decodeRecs_encRecs, Desc.item, tokensOf, ne_eq, not_false_eq_true,
        decide_true, if_true]
      have e1 : f.baseOffset + f.lastOffsetDelta - f.baseOffset = f.lastOffsetDelta := by omega
      have e2 : (recToks tagOf f xs).length = xs.length := by simp [recToks]
      rw [e1, e2]
  | msg m =>
    obtain ⟨hw, hc⟩ := (h : m.WF ∧ codecOf m.attributes = 0)
    obtain ⟨b, hb, hne⟩ := magicOf_encMsg c.ieee m rest hw.2.1
    simp only [Desc.entry, encEntry, tokenizeEntry, hb, hne, if_false, readMsg_encMsg c.ieee h1 m hw rest, hc, if_true,
      Desc.item, tokensOf]
    simp
  | wrapper m inner =>
    have hw : GoodWrapper c dec m inner := h
    obtain ⟨b, hb, hne⟩ := magicOf_encMsg c.ieee m rest hw.wf.2.1
    obtain ⟨v, hv, hd⟩ := hw.value
    have hrs : readSet c (encSet c (inner.map Entry.msg)).length (encSet c (inner.map Entry.msg)) = some (inner.map Entry.msg) :=
      decodeSet_encSet c h1 h2 _ (fun e he => by
        simp only [List.mem_map] at he
        obtain ⟨x, hx, rfl⟩ := he
        exact (hw.innerWF x hx).1)
    simp only [Desc.entry, encEntry, tokenizeEntry, hb, hne, if_false, readMsg_encMsg c.ieee h1 m hw.wf rest, hw.codec,
      hv, hd, hrs]
    rw [filterMap_msgs _ (fun x => rfl) inner]
    simp [Desc.item, tokensOf]

theorem encEntry_ne_nil (c : Crcs) (e : Entry) : encEntry c e ≠ [] := by
  intro h
  have := encEntry_length_pos c e
  rw [h] at this; simp at this

theorem tokenizeAll_encSet (c : Crcs) (h1 : ∀ b, c.ieee b < M32) (h2 : ∀ b, c.castagnoli b < M32)
    (dec : Int → Bytes → Option Bytes) (tagOf : Rec → Nat) (ds : List Desc) (h : ∀ d ∈ ds, d.Good c dec)
    (fuel : Nat) (hf : ds.length ≤ fuel) :
    tokenizeAll c dec tagOf fuel (encSet c (ds.map Desc.entry)) = some (allTokens (ds.map (Desc.item c tagOf))) := by
  induction ds generalizing fuel with
  | nil => cases fuel <;> simp [tokenizeAll, encSet, allTokens]
  | cons d ds ih =>
    cases fuel with
    | zero => simp at hf
    | succ fuel =>
      simp only [List.map_cons, encSet]
      cases hbs : encEntry c d.entry ++ encSet c (ds.map Desc.entry) with
      | nil =>
        have := encEntry_ne_nil c d.entry
        simp at hbs; exact absurd hbs.1 this
      | cons x xs =>
        simp only [tokenizeAll]
        rw [← hbs, tokenizeEntry_enc c h1 h2 dec tagOf d (h d (by simp))]
        simp only
        rw [ih (fun d' hd' => h d' (by simp [hd'])) fuel (by simp only [List.length_cons] at hf; omega)]
        simp [allTokens]

theorem getLast_offsets (f : Msg → Nat) (l : List Msg) :
    ((l.map (fun x => (x.offset, f x))).getLast?.map (·.1)).getD 0 = lastOffset l := by
  induction l with
  | nil => rfl
  | cons a t ih =>
    cases t with
    | nil => simp [lastOffset]
    | cons b t' =>
      simp only [List.map_cons, List.getLast?_cons_cons, lastOffset] at ih ⊢
      exact ih

theorem getLast_inner (tagOf : Rec → Nat) (m : Msg) (inner : List Msg) :
    ((innerToks tagOf m inner).getLast?.map (·.1)).getD 0 = lastOffset inner :=
  getLast_offsets _ inner

/-- the records of the layout are the logical records of the description, tagged -/
theorem item_records (c : Crcs) (tagOf : Rec → Nat) (d : Desc) :
    (d.item c tagOf).records = d.group.2.map (fun r => (r.offset, tagOf r)) := by
  cases d with
  | batch f xs => simp [Desc.item, Desc.group, Item.records, recToks, recOfV2, recOfV2c]
  | msg m => simp [Desc.item, Desc.group, Item.records, recOfMsg]
  | wrapper m inner =>
    simp only [Desc.item, Desc.group, Item.records, wrapperBase, getLast_inner, wrapRecs, List.map_map]
    simp only [innerToks, List.map_map]
    apply List.map_congr_left
    intro x _
    simp only [Function.comp, stamp_offset, recOfMsg, Prod.mk.injEq, and_true]
    omega

theorem allRecords_descs (c : Crcs) (tagOf : Rec → Nat) (ds : List Desc) :
    allRecords (ds.map (Desc.item c tagOf)) = ((ds.map Desc.group).flatMap (·.2)).map (fun r => (r.offset, tagOf r)) := by
  induction ds with
  | nil => rfl
  | cons d ds ih =>
    simp only [allRecords, List.map_cons, List.flatMap_cons, List.map_append] at ih ⊢
    rw [ih, item_records]

end KV.Spec.RB
