/-
Lemmas/BufVarInt.lean — read.go's readVarInt loop over a refilled bufio.Reader (Model/BufVarInt.lean) computes what
`BR.readVarInt` computes on the concatenated stream, whatever the cut into buffered bytes and reads.
-/
import KafkaVerif.Model.BufVarInt

namespace KV.C02.BV
open KV KV.RW KV.Spec.RB KV.C02.BR

/-- `readUvarint` with the loop's accumulators -/
def uvAcc (x s : Nat) : Bytes → Option (Nat × Bytes)
  | [] => none
  | b :: r => if b.toNat < 128 then some (x + b.toNat * 2 ^ s, r) else uvAcc (x + (b.toNat - 128) * 2 ^ s) (s + 7) r

theorem uvAcc_eq (bs : Bytes) : ∀ x s, uvAcc x s bs = (readUvarint bs).map fun p => (x + p.1 * 2 ^ s, p.2) := by
  induction bs with
  | nil => intro x s; simp [uvAcc, readUvarint]
  | cons b r ih =>
    intro x s
    by_cases hb : b.toNat < 128
    · simp [uvAcc, readUvarint, hb]
    · simp only [uvAcc, readUvarint, hb, if_false]
      rw [ih]
      cases readUvarint r with
      | none => simp
      | some p =>
        simp only [Option.map_some, Option.some.injEq, Prod.mk.injEq, and_true]
        have h7 : 2 ^ (s + 7) = 128 * 2 ^ s := by rw [Nat.pow_add]; omega
        rw [h7, Nat.add_mul, Nat.mul_assoc, ← Nat.mul_assoc p.1 128, Nat.mul_comm p.1 128, Nat.mul_assoc]
        omega

theorem uvAcc_zero (bs : Bytes) : uvAcc 0 0 bs = readUvarint bs := by
  rw [uvAcc_eq]
  cases readUvarint bs with
  | none => rfl
  | some p => simp

theorem uvAcc_length : ∀ (bs : Bytes) (x s : Nat) {v : Nat} {r : Bytes}, uvAcc x s bs = some (v, r) → r.length < bs.length := by
  intro bs
  induction bs with
  | nil => intro x s v r h; simp [uvAcc] at h
  | cons b t ih =>
    intro x s v r h
    by_cases hb : b.toNat < 128
    · simp [uvAcc, hb] at h; simp [← h.2]
    · simp only [uvAcc, hb, if_false] at h
      have := ih _ _ h
      simp; omega

/-- the inner loop found the end of the varint inside `a` -/
theorem scan_done : ∀ (a : Bytes) (x s k v j : Nat) (t : Bytes), scan x s k a = .done v j →
    uvAcc x s (a ++ t) = some (v, a.drop (j - k) ++ t) ∧ k < j ∧ j - k ≤ a.length := by
  intro a
  induction a with
  | nil => intro x s k v j t h; simp [scan] at h
  | cons b r ih =>
    intro x s k v j t h
    by_cases hb : b.toNat < 128
    · simp only [scan, hb, if_true, Scan.done.injEq] at h
      obtain ⟨h1, h2⟩ := h
      subst h1; subst h2
      have : k + 1 - k = 1 := by omega
      simp [uvAcc, hb, this]
    · simp only [scan, hb, if_false] at h
      obtain ⟨h1, h2, h3⟩ := ih _ _ _ _ _ t h
      have hj : j - k = (j - (k + 1)) + 1 := by omega
      refine ⟨?_, by omega, by simp; omega⟩
      simp only [List.cons_append, uvAcc, hb, if_false, h1, hj, List.drop_succ_cons]

/-- … or ran through all of `a` -/
theorem scan_more : ∀ (a : Bytes) (x s k x' s' : Nat) (t : Bytes), scan x s k a = .more x' s' →
    uvAcc x s (a ++ t) = uvAcc x' s' t := by
  intro a
  induction a with
  | nil => intro x s k x' s' t h; simp only [scan, Scan.more.injEq] at h; simp [h.1, h.2]
  | cons b r ih =>
    intro x s k x' s' t h
    by_cases hb : b.toNat < 128
    · simp [scan, hb] at h
    · simp only [scan, hb, if_false] at h
      simp only [List.cons_append, uvAcc, hb, if_false]
      exact ih _ _ _ _ _ t h

theorem uvAcc_nil (x s : Nat) : uvAcc x s [] = none := rfl

/-- what `BR.readVarInt` computes, started with the loop's accumulators -/
def G (x s sz : Nat) (bs : Bytes) : Except (RErr × Rd) (Int × Rd) :=
  match uvAcc x s (bs.take sz) with
  | some (n, rest) =>
    let used := (bs.take sz).length - rest.length
    .ok (unzigzag n, ⟨bs.drop used, sz - used⟩)
  | none => .error (.short, ⟨bs.drop sz, sz - (bs.take sz).length⟩)

theorem G_zero (sz : Nat) (bs : Bytes) : G 0 0 sz bs = BR.readVarInt ⟨bs, sz⟩ := by
  simp only [G, uvAcc_zero, BR.readVarInt]
  rfl

/-- the loop in one piece -/
theorem varLoop_def (x s sz : Nat) (buf : Bytes) (chunks : List Bytes) :
    varLoop x s sz buf chunks =
      if sz ≤ buf.length then
        match scan x s 0 (buf.take sz) with
        | .done v k => .ok (unzigzag v, ⟨buf.drop k, chunks⟩, sz - k)
        | .more _ _ => .error (.short, ⟨buf.drop sz, chunks⟩, 0)
      else
        match scan x s 0 buf with
        | .done v k => .ok (unzigzag v, ⟨buf.drop k, chunks⟩, sz - k)
        | .more x' s' =>
          match chunks with
          | [] => .error (.short, ⟨[], []⟩, sz - buf.length)
          | c :: cs => varLoop x' s' (sz - buf.length) c cs := by
  by_cases hle : sz ≤ buf.length
  · cases hsc : scan x s 0 (buf.take sz) <;> cases chunks <;> simp [varLoop, round, hle, hsc]
  · cases hsc : scan x s 0 buf <;> cases chunks <;> simp [varLoop, round, hle, hsc]

theorem varLoop_eq : ∀ (chunks : List Bytes) (x s sz : Nat) (buf : Bytes),
    (varLoop x s sz buf chunks).abs = G x s sz (buf ++ chunks.flatten) := by
  intro chunks
  induction chunks with
  | nil =>
    intro x s sz buf
    simp only [List.flatten_nil, List.append_nil]
    rw [varLoop_def]
    by_cases hle : sz ≤ buf.length
    · simp only [hle, if_true]
      cases hsc : scan x s 0 (buf.take sz) with
      | done v k =>
        obtain ⟨h1, h2, h3⟩ := scan_done _ _ _ _ _ _ [] hsc
        simp only [List.append_nil, Nat.sub_zero] at h1 h3
        simp only [Res.abs, BufRd.stream, List.flatten_nil, List.append_nil, G, h1]
        have hl : (buf.take sz).length = sz := by simp [hle]
        rw [hl] at h3
        have hu : (List.take sz buf).length - (List.drop k (List.take sz buf)).length = k := by
          simp only [List.length_drop, hl]; omega
        simp only [hu]
      | more x' s' =>
        have h1 := scan_more _ _ _ _ _ _ [] hsc
        simp only [List.append_nil, uvAcc_nil] at h1
        simp only [Res.abs, BufRd.stream, List.flatten_nil, List.append_nil, G, h1]
        have hl : (buf.take sz).length = sz := by simp [hle]
        simp [hl]
    · simp only [hle, if_false]
      have hlt : buf.length < sz := by omega
      have htk : buf.take sz = buf := List.take_of_length_le (by omega)
      cases hsc : scan x s 0 buf with
      | done v k =>
        obtain ⟨h1, h2, h3⟩ := scan_done _ _ _ _ _ _ [] hsc
        simp only [List.append_nil, Nat.sub_zero] at h1 h3
        simp only [Res.abs, BufRd.stream, List.flatten_nil, List.append_nil, G, htk, h1]
        have hu : buf.length - (List.drop k buf).length = k := by simp only [List.length_drop]; omega
        simp only [hu]
      | more x' s' =>
        have h1 := scan_more _ _ _ _ _ _ [] hsc
        simp only [List.append_nil, uvAcc_nil] at h1
        simp only [Res.abs, BufRd.stream, List.flatten_nil, List.append_nil, G, htk, h1]
        have : List.drop sz buf = [] := List.drop_eq_nil_of_le (by omega)
        simp [this]
  | cons c cs ih =>
    intro x s sz buf
    rw [varLoop_def]
    by_cases hle : sz ≤ buf.length
    · simp only [hle, if_true]
      have htk : (buf ++ (c :: cs).flatten).take sz = buf.take sz := List.take_append_of_le_length hle
      have hdr : (buf ++ (c :: cs).flatten).drop sz = buf.drop sz ++ (c :: cs).flatten := List.drop_append_of_le_length hle
      have hl : (buf.take sz).length = sz := by simp [hle]
      cases hsc : scan x s 0 (buf.take sz) with
      | done v k =>
        obtain ⟨h1, h2, h3⟩ := scan_done _ _ _ _ _ _ [] hsc
        simp only [List.append_nil, Nat.sub_zero] at h1 h3
        rw [hl] at h3
        simp only [Res.abs, BufRd.stream, G, htk, h1]
        have hu : (List.take sz buf).length - (List.drop k (List.take sz buf)).length = k := by
          simp only [List.length_drop, hl]; omega
        have hk : k ≤ buf.length := by omega
        simp only [hu, List.drop_append_of_le_length hk]
      | more x' s' =>
        have h1 := scan_more _ _ _ _ _ _ [] hsc
        simp only [List.append_nil, uvAcc_nil] at h1
        simp only [Res.abs, BufRd.stream, G, htk, h1, hdr, hl, Nat.sub_self]
    · simp only [hle, if_false]
      have hlt : buf.length < sz := by omega
      have htk : (buf ++ (c :: cs).flatten).take sz = buf ++ ((c :: cs).flatten).take (sz - buf.length) := by
        rw [List.take_append, List.take_of_length_le (by omega)]
      cases hsc : scan x s 0 buf with
      | done v k =>
        obtain ⟨h1, h2, h3⟩ := scan_done _ _ _ _ _ _ (((c :: cs).flatten).take (sz - buf.length)) hsc
        simp only [Nat.sub_zero] at h1 h3
        simp only [Res.abs, BufRd.stream, G, htk, h1]
        have hu : (buf ++ List.take (sz - buf.length) (c :: cs).flatten).length
            - (List.drop k buf ++ List.take (sz - buf.length) (c :: cs).flatten).length = k := by
          simp only [List.length_append, List.length_drop]; omega
        simp only [hu, List.drop_append_of_le_length h3]
      | more x' s' =>
        have h1 := scan_more _ _ _ _ _ _ (((c :: cs).flatten).take (sz - buf.length)) hsc
        simp only
        rw [ih x' s' (sz - buf.length) c]
        have hfl : c ++ cs.flatten = (c :: cs).flatten := by simp
        rw [hfl]
        generalize (c :: cs).flatten = F at *
        simp only [G, htk, h1]
        cases hu : uvAcc x' s' (List.take (sz - buf.length) F) with
        | none =>
          simp only [List.length_append]
          have hd : List.drop sz (buf ++ F) = List.drop (sz - buf.length) F := by
            rw [List.drop_append]; simp [List.drop_eq_nil_of_le (Nat.le_of_lt hlt)]
          rw [hd]
          have : sz - (buf.length + (List.take (sz - buf.length) F).length) = sz - buf.length - (List.take (sz - buf.length) F).length := by omega
          rw [this]
        | some p =>
          obtain ⟨n, rest⟩ := p
          have hlen := uvAcc_length _ _ _ hu
          simp only [List.length_append]
          have hused : buf.length + (List.take (sz - buf.length) F).length - rest.length
              = buf.length + ((List.take (sz - buf.length) F).length - rest.length) := by omega
          rw [hused]
          have hd : List.drop (buf.length + ((List.take (sz - buf.length) F).length - rest.length)) (buf ++ F)
              = List.drop ((List.take (sz - buf.length) F).length - rest.length) F := by
            rw [List.drop_append]; simp
          rw [hd]
          have : sz - (buf.length + ((List.take (sz - buf.length) F).length - rest.length))
              = sz - buf.length - ((List.take (sz - buf.length) F).length - rest.length) := by omega
          rw [this]

/-- **readVarInt does not see where the reads of the connection end**: for every buffered prefix and every sequence of
reads, the loop of read.go returns the value (or errShortRead), leaves the stream and hands back the `remain` that
`BR.readVarInt` — LEB128 on the first `sz` bytes of the concatenation — defines. -/
theorem readVarIntBuf_eq (sz : Nat) (b : BufRd) : (readVarIntBuf sz b).abs = BR.readVarInt ⟨b.stream, sz⟩ := by
  rw [readVarIntBuf, varLoop_eq, G_zero]; rfl

end KV.C02.BV
