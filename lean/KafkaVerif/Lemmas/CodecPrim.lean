/-
Lemmas/CodecPrim.lean — reading back what the primitive writers wrote (helper lemmas for Props/C04, C20).
-/
import KafkaVerif.Model.Codec
import KafkaVerif.Model.CodecWF

namespace KV.Codec
open KV KV.Wire

theorem encInt_length (k : Nat) (i : Int) : (encInt k i).length = k := by simp [encInt, be_length]

theorem readN_append (k rem : Nat) (bs r : Bytes) (hl : bs.length = k) (hr : k ≤ rem) :
    readN k ⟨bs ++ r, rem⟩ = .ok bs ⟨r, rem - k⟩ := by
  subst hl
  simp [readN, hr, List.take_left', List.drop_left']

theorem readInt_encInt (k : Nat) (i : Int) (rem : Nat) (r : Bytes) (hk : 0 < k)
    (hi : inRange (8 * k) i = true) (hr : k ≤ rem) :
    readInt k ⟨encInt k i ++ r, rem⟩ = .ok i ⟨r, rem - k⟩ := by
  simp only [inRange, Bool.and_eq_true, decide_eq_true_eq] at hi
  simp [readInt, readN_append k rem _ r (encInt_length k i) hr, Res.bind, decInt_encInt k i hk hi.1 hi.2]

theorem uvarint_length_le10 (n : Nat) (h : n < 2 ^ 64) : (uvarint n).length ≤ 10 :=
  uvarint_length_le 10 n (by decide) (by omega)

theorem readUvarint_uvarint (n rem : Nat) (r : Bytes) (h : n < 2 ^ 64) (hr : (uvarint n).length ≤ rem) :
    readUvarint ⟨uvarint n ++ r, rem⟩ = .ok n ⟨r, rem - (uvarint n).length⟩ := by
  have h10 := uvarint_length_le10 n h
  have hf : (uvarint n).length ≤ min 11 rem := by omega
  simp only [readUvarint]
  rw [readUvarintAux_uvarint _ n r hf]
  simp [Nat.mod_eq_of_lt h]

theorem readLen_append (cfg : Cfg) (n : Int) (rem : Nat) (bs r : Bytes) (hn : n = bs.length) (hr : bs.length ≤ rem) :
    readLen cfg n ⟨bs ++ r, rem⟩ = .ok bs ⟨r, rem - bs.length⟩ := by
  subst hn
  have h0 : ¬ ((bs.length : Int) < 0) := by omega
  have h1 : ¬ (bs.length > rem) := by omega
  have h2 : ¬ (bs.length > (bs ++ r).length + 65536) := by simp; omega
  have h3 : bs.length ≤ (bs ++ r).length := by simp
  simp only [readLen, h0, if_false, Int.toNat_natCast, h1, h2, decide_false, Bool.and_false, Bool.false_eq_true, h3, if_true,
    List.take_left' rfl, List.drop_left' rfl]

theorem lenOfU_small (cfg : Cfg) (u : Nat) (h : u < 2 ^ 31) : lenOfU cfg u = u := by
  unfold lenOfU
  split
  · have : ¬ (u > 2147483647) := by omega
    simp [this]
  · unfold toI64 toS
    have h1 : u % 2 ^ 64 = u := Nat.mod_eq_of_lt (by omega)
    rw [h1]
    have : u < 2 ^ (64 - 1) := by omega
    simp [this]

theorem allocElems_ok (cfg : Cfg) (n : Nat) (d : Dec) (h : n ≤ d.remain) (hi : n ≤ d.inp.length + 1024) :
    allocElems cfg (n : Int) d = .ok n d := by
  have h0 : ¬ ((n : Int) < 0) := by omega
  have h1 : ¬ (n > d.remain) := by omega
  have h2 : ¬ (n > d.inp.length + 1024) := by omega
  simp [allocElems, h0, h1, h2]

end KV.Codec
