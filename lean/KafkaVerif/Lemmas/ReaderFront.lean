/-
Lemmas/ReaderFront.lean — invariant of the Reader front LTS (Model/ReaderFront.lean): the queue entries that carry
the current version tag are exactly the part of the current fetcher's feed that has been enqueued and not yet
returned.  Discharges the hypothesis `Fed` of `setoffset_next`.
-/
import KafkaVerif.Model.ReaderFront

namespace KV.C02

/-- messages in the queue that carry the current tag, in order -/
def curQ (s : FS) : List Rec := (s.queue.filter (fun e => e.1 == s.version)).map (·.2)

structure FInv (log : List Rec) (s : FS) : Prop where
  tagle : ∀ f ∈ s.fetchers, f.tag ≤ s.version
  nodup : (s.fetchers.map (·.tag)).Nodup
  qtag : ∀ e ∈ s.queue, e.1 ≤ s.version
  curOK : ∀ f ∈ s.fetchers, f.tag = s.version →
    s.accepted ≤ f.sent ∧ curQ s = ((feed log f.start).drop s.accepted).take (f.sent - s.accepted)
  nocur : (∀ f ∈ s.fetchers, f.tag ≠ s.version) → curQ s = []

theorem finv_init (log : List Rec) : FInv log {} :=
  ⟨by simp, by simp, by simp, by simp, by simp [curQ]⟩

theorem same_tag_eq {fs : List Fetcher} (h : (fs.map (·.tag)).Nodup) {f g : Fetcher} (hf : f ∈ fs) (hg : g ∈ fs)
    (ht : f.tag = g.tag) : f = g := by
  induction fs with
  | nil => simp at hf
  | cons x xs ih =>
    simp only [List.map_cons, List.nodup_cons, List.mem_map, not_exists, not_and] at h
    simp only [List.mem_cons] at hf hg
    rcases hf with rfl | hf <;> rcases hg with rfl | hg
    · rfl
    · exact absurd ht.symm (h.1 g hg)
    · exact absurd ht (h.1 f hf)
    · exact ih h.2 hf hg

theorem bump_tags (t : Nat) (fs : List Fetcher) : (bump t fs).map (·.tag) = fs.map (·.tag) := by
  simp only [bump, List.map_map]
  apply List.map_congr_left
  intro a _
  simp only [Function.comp]
  split <;> rfl

theorem head_dropWhile_false {α : Type} (p : α → Bool) : ∀ (l : List α) (e : α) (rest : List α),
    l.dropWhile p = e :: rest → p e = false := by
  intro l
  induction l with
  | nil => intro e rest h; simp at h
  | cons x xs ih =>
    intro e rest h
    cases hp : p x
    · simp only [List.dropWhile, hp, List.cons.injEq] at h; rw [← h.1]; exact hp
    · simp only [List.dropWhile, hp] at h; exact ih e rest h

theorem drop_succ_of_drop_cons {α : Type} {l : List α} {a : Nat} {y : α} {ys : List α} (h : l.drop a = y :: ys) :
    l.drop (a + 1) = ys := by
  induction a generalizing l with
  | zero => cases l <;> simp_all
  | succ k ih =>
    cases l with
    | nil => simp at h
    | cons z zs => simp only [List.drop_succ_cons] at h ⊢; exact ih h

theorem tail_of_take_drop {α : Type} {l : List α} {a n : Nat} {x : α} {t : List α}
    (h : x :: t = (l.drop a).take (n + 1)) : t = (l.drop (a + 1)).take n := by
  cases hd : l.drop a with
  | nil => rw [hd] at h; simp at h
  | cons y ys =>
    rw [hd] at h
    simp only [List.take_succ_cons, List.cons.injEq] at h
    rw [drop_succ_of_drop_cons hd]; exact h.2

theorem mem_bump {t : Nat} {fs : List Fetcher} {g' : Fetcher} (h : g' ∈ bump t fs) :
    ∃ g ∈ fs, g'.tag = g.tag ∧ g'.start = g.start ∧ g'.sent = (if g.tag = t then g.sent + 1 else g.sent) := by
  simp only [bump, List.mem_map] at h
  obtain ⟨g, hg, rfl⟩ := h
  refine ⟨g, hg, ?_⟩
  split <;> simp_all

theorem bump_mem {t : Nat} {fs : List Fetcher} {g : Fetcher} (h : g ∈ fs) :
    ∃ g' ∈ bump t fs, g'.tag = g.tag ∧ g'.start = g.start := by
  refine ⟨if g.tag = t then { g with sent := g.sent + 1 } else g, ?_, ?_⟩
  · simp only [bump, List.mem_map]; exact ⟨g, h, rfl⟩
  · split <;> simp

theorem take_snoc_getElem {α : Type} (l : List α) (a n : Nat) (x : α) (ha : a ≤ n) (hx : l[n]? = some x) :
    (l.drop a).take (n - a) ++ [x] = (l.drop a).take (n + 1 - a) := by
  have h1 : n + 1 - a = (n - a) + 1 := by omega
  rw [h1, List.take_succ]
  congr 1
  have : (l.drop a)[n - a]? = l[n]? := by rw [List.getElem?_drop]; congr 1; omega
  rw [this, hx]; rfl

theorem filter_dropWhile_not {α : Type} (p : α → Bool) (l : List α) :
    (l.dropWhile (fun x => !p x)).filter p = l.filter p := by
  induction l with
  | nil => rfl
  | cons x xs ih =>
    cases hp : p x
    · simp [List.dropWhile, List.filter, hp, ih]
    · simp [List.dropWhile, hp]

theorem finv_step {log : List Rec} {s s' : FS} {e : FEv} {m : Option Rec} (h : FInv log s) (hs : fstep log s e = some (s', m)) :
    FInv log s' ∧
    (∀ r, m = some r → ∀ f ∈ s.fetchers, f.tag = s.version → (feed log f.start)[s.accepted]? = some r) := by
  obtain ⟨htag, hnd, hq, hcur, hno⟩ := h
  cases e with
  | setOffset o =>
    simp only [fstep, Option.some.injEq, Prod.mk.injEq] at hs
    obtain ⟨rfl, rfl⟩ := hs
    have hcq : curQ { version := s.version + 1, queue := s.queue, fetchers := { tag := s.version + 1, start := o } :: s.fetchers, accepted := 0 } = [] := by
      simp only [curQ, List.map_eq_nil_iff, List.filter_eq_nil_iff]
      intro e he
      have := hq e he
      simp only [beq_iff_eq]; omega
    refine ⟨⟨?_, ?_, ?_, ?_, ?_⟩, by intro r hr; cases hr⟩
    · intro f hf
      simp only [List.mem_cons] at hf
      rcases hf with rfl | hf
      · simp
      · have := htag f hf; simp only; omega
    · simp only [List.map_cons, List.nodup_cons, List.mem_map, not_exists, not_and]
      exact ⟨fun f hf => by have := htag f hf; omega, hnd⟩
    · intro e he; have := hq e he; simp only; omega
    · intro f hf ht
      simp only [List.mem_cons] at hf
      rcases hf with rfl | hf
      · simp [hcq]
      · have := htag f hf; simp only at ht; omega
    · intro _; exact hcq
  | enqueue t =>
    simp only [fstep] at hs
    cases hfind : s.fetchers.find? (fun f => f.tag = t) with
    | none => simp [hfind] at hs
    | some f =>
      simp only [hfind] at hs
      cases hget : (feed log f.start)[f.sent]? with
      | none => simp [hget] at hs
      | some r =>
        simp only [hget, Option.some.injEq, Prod.mk.injEq] at hs
        obtain ⟨rfl, rfl⟩ := hs
        have hfm : f ∈ s.fetchers := List.mem_of_find?_eq_some hfind
        have hft : f.tag = t := by simpa using List.find?_some hfind
        have hcq : curQ { s with queue := s.queue ++ [(t, r)], fetchers := bump t s.fetchers }
            = curQ s ++ (if t = s.version then [r] else []) := by
          simp only [curQ, List.filter_append, List.map_append]
          congr 1
          by_cases h : t = s.version
          · simp [List.filter, h]
          · have hb : (t == s.version) = false := by simpa using h
            simp [List.filter, hb, h]
        refine ⟨⟨?_, ?_, ?_, ?_, ?_⟩, by intro r hr; cases hr⟩
        · intro g' hg'
          obtain ⟨g, hg, h1, _, _⟩ := mem_bump hg'
          have := htag g hg; simp only; omega
        · simp only; rw [bump_tags]; exact hnd
        · intro e he
          simp only [List.mem_append, List.mem_singleton] at he
          rcases he with he | rfl
          · exact hq e he
          · have := htag f hfm; simp only; omega
        · intro g' hg' ht'
          obtain ⟨g, hg, h1, h2, h3⟩ := mem_bump hg'
          simp only at ht'
          have hgt : g.tag = s.version := by omega
          obtain ⟨c1, c2⟩ := hcur g hg hgt
          rw [hcq, h2, h3]
          by_cases htv : t = s.version
          · have hgf : g = f := same_tag_eq hnd hg hfm (by omega)
            subst hgf
            have : g.tag = t := hft
            simp only [this, if_true, htv]
            refine ⟨by omega, ?_⟩
            rw [c2]
            exact take_snoc_getElem _ _ _ _ c1 hget
          · have : ¬ g.tag = t := by omega
            simp only [this, if_false, htv]
            exact ⟨c1, by simpa using c2⟩
        · intro hall
          rw [hcq]
          have htv : ¬ t = s.version := by
            intro h
            obtain ⟨g', hg', h1, _⟩ := bump_mem (t := t) hfm
            exact hall g' hg' (by simp only; omega)
          have : curQ s = [] := by
            apply hno
            intro g hg hgt
            obtain ⟨g', hg', h1, _⟩ := bump_mem (t := t) hg
            exact hall g' hg' (by simp only; omega)
          simp [this, htv]
  | fetch =>
    simp only [fstep, Front.fetchMessage] at hs
    cases hd : s.queue.dropWhile (fun e => e.1 != s.version) with
    | nil => simp [hd] at hs
    | cons e rest =>
      simp only [hd, Option.some.injEq, Prod.mk.injEq] at hs
      obtain ⟨rfl, rfl⟩ := hs
      have hpe : (e.1 == s.version) = true := by
        have := head_dropWhile_false (fun e : Nat × Rec => e.1 != s.version) s.queue e rest hd
        simpa [bne] using this
      have hfil : s.queue.filter (fun e => e.1 == s.version) = e :: rest.filter (fun e => e.1 == s.version) := by
        have := filter_dropWhile_not (fun e : Nat × Rec => e.1 == s.version) s.queue
        have hd' : s.queue.dropWhile (fun x => !(x.1 == s.version)) = e :: rest := by
          simpa [bne] using hd
        rw [hd'] at this
        rw [← this]
        simp [List.filter, hpe]
      have hcq : curQ s = e.2 :: curQ { s with queue := rest, accepted := s.accepted + 1 } := by
        simp only [curQ, hfil, List.map_cons]
      have hsub : ∀ x ∈ rest, x ∈ s.queue := by
        intro x hx
        have : x ∈ s.queue.dropWhile (fun e => e.1 != s.version) := by rw [hd]; exact List.mem_cons_of_mem _ hx
        exact (List.dropWhile_sublist _).subset this
      refine ⟨⟨htag, hnd, fun x hx => hq x (hsub x hx), ?_, ?_⟩, ?_⟩
      · intro f hf ht
        obtain ⟨c1, c2⟩ := hcur f hf ht
        rw [hcq] at c2
        have hpos : f.sent - s.accepted ≠ 0 := by
          intro h0; rw [h0] at c2; simp at c2
        refine ⟨by simp only; omega, ?_⟩
        have h1 : f.sent - s.accepted = (f.sent - (s.accepted + 1)) + 1 := by omega
        rw [h1] at c2
        exact tail_of_take_drop c2
      · intro hall
        have := hno hall
        rw [hcq] at this
        cases this
      · intro r hr f hf ht
        simp only [Option.some.injEq] at hr
        obtain ⟨c1, c2⟩ := hcur f hf ht
        rw [hcq] at c2
        have : (((feed log f.start).drop s.accepted).take (f.sent - s.accepted))[0]? = some e.2 := by rw [← c2]; rfl
        rw [List.getElem?_take] at this
        split at this
        · rw [List.getElem?_drop] at this; simpa [hr] using this
        · cases this

end KV.C02

namespace KV.C02

def notSet : FEv → Prop
  | .setOffset _ => False
  | _ => True

theorem fstep_facts {log : List Rec} {s s1 : FS} {e : FEv} {m : Option Rec} (hs : fstep log s e = some (s1, m)) (hn : notSet e) :
    s1.version = s.version ∧
    (∀ f ∈ s.fetchers, ∃ f1 ∈ s1.fetchers, f1.tag = f.tag ∧ f1.start = f.start) ∧
    ((m = none ∧ s1.accepted = s.accepted) ∨ (∃ r, m = some r ∧ s1.accepted = s.accepted + 1)) := by
  cases e with
  | setOffset o => exact absurd hn (by simp [notSet])
  | enqueue t =>
    simp only [fstep] at hs
    cases hfind : s.fetchers.find? (fun f => f.tag = t) with
    | none => simp [hfind] at hs
    | some f =>
      simp only [hfind] at hs
      cases hget : (feed log f.start)[f.sent]? with
      | none => simp [hget] at hs
      | some r =>
        simp only [hget, Option.some.injEq, Prod.mk.injEq] at hs
        obtain ⟨rfl, rfl⟩ := hs
        exact ⟨rfl, fun g hg => bump_mem hg, Or.inl ⟨rfl, rfl⟩⟩
  | fetch =>
    simp only [fstep] at hs
    cases hf : Front.fetchMessage { version := s.version, queue := s.queue } with
    | none => simp [hf] at hs
    | some p =>
      obtain ⟨r, f'⟩ := p
      simp only [hf, Option.some.injEq, Prod.mk.injEq] at hs
      obtain ⟨rfl, rfl⟩ := hs
      exact ⟨rfl, fun g hg => ⟨g, hg, rfl, rfl⟩, Or.inr ⟨r, rfl, rfl⟩⟩

/-- along any run without a further SetOffset, what FetchMessage returns is, in order, the current fetcher's feed from
the number of messages already accepted -/
theorem front_run (log : List Rec) : ∀ (es : List FEv) (s s' : FS) (ms : List Rec) (f : Fetcher),
    FInv log s → f ∈ s.fetchers → f.tag = s.version → (∀ e ∈ es, notSet e) → frun log s es = some (s', ms) →
    ms = ((feed log f.start).drop s.accepted).take ms.length := by
  intro es
  induction es with
  | nil => intro s s' ms f _ _ _ _ h; simp only [frun, Option.some.injEq, Prod.mk.injEq] at h; rw [← h.2]; simp
  | cons e es ih =>
    intro s s' ms f hinv hf ht hns h
    simp only [frun] at h
    cases hs : fstep log s e with
    | none => simp [hs] at h
    | some p =>
      obtain ⟨s1, m⟩ := p
      simp only [hs] at h
      cases hr : frun log s1 es with
      | none => simp [hr] at h
      | some q =>
        obtain ⟨s2, ms'⟩ := q
        simp only [hr, Option.some.injEq, Prod.mk.injEq] at h
        obtain ⟨_, rfl⟩ := h
        obtain ⟨hinv1, hdel⟩ := finv_step hinv hs
        obtain ⟨hv, hfe, hacc⟩ := fstep_facts hs (hns e (by simp))
        obtain ⟨f1, hf1, ht1, hst1⟩ := hfe f hf
        have ih' := ih s1 s2 ms' f1 hinv1 hf1 (by omega) (fun x hx => hns x (by simp [hx])) hr
        rw [hst1] at ih'
        rcases hacc with ⟨rfl, ha⟩ | ⟨r, rfl, ha⟩
        · rw [ha] at ih'; simpa using ih'
        · have hget := hdel r rfl f hf ht
          rw [ha] at ih'
          have hlt : s.accepted < (feed log f.start).length := by
            rcases Nat.lt_or_ge s.accepted (feed log f.start).length with h | h
            · exact h
            · rw [List.getElem?_eq_none h] at hget; cases hget
          have hdrop : (feed log f.start).drop s.accepted = r :: (feed log f.start).drop (s.accepted + 1) := by
            rw [List.drop_eq_getElem_cons hlt]
            congr 1
            rw [List.getElem?_eq_getElem hlt] at hget
            exact Option.some.inj hget
          simp only [List.singleton_append, List.length_cons]
          rw [hdrop, List.take_succ_cons, ← ih']

end KV.C02
