/-
Lemmas/GroupHbAlive.lean — a heartbeat function that returned has ended the generation or its exit section is pending (`Inv4`).
-/
import KafkaVerif.Lemmas.GroupHb
namespace KV.Group

/-- a heartbeat function that has returned either already ended the generation or its exit section is pending -/
def HbDoneOK (g : Gen) : Prop := g.hb = some .done → g.closed = true ∨ 0 < g.returning

def KeepsDone (f : Gen → Option Gen) : Prop := ∀ g g', f g = some g' → HbDoneOK g → HbDoneOK g'

theorem bodyReturned_mono (g : Gen) (a : Bool) :
    (g.bodyReturned a).closed = g.closed ∧ g.returning ≤ (g.bodyReturned a).returning := by
  unfold Gen.bodyReturned; split
  · exact ⟨rfl, Nat.le_succ _⟩
  · exact ⟨rfl, Nat.le_refl _⟩

theorem start_keep (g : Gen) : g.start.1.closed = g.closed ∧ g.start.1.returning = g.returning := by
  unfold Gen.start; split <;> exact ⟨rfl, rfl⟩

theorem done_sameHb (f : Gen → Option Gen)
    (hf : ∀ g g', f g = some g' → g'.hb = g.hb ∧ (g.closed = true → g'.closed = true) ∧ g.returning ≤ g'.returning) : KeepsDone f := by
  intro g g' h hd hh
  obtain ⟨h1, h2, h3⟩ := hf g g' h
  rw [h1] at hh
  rcases hd hh with hc | hr
  · exact .inl (h2 hc)
  · exact .inr (by omega)

theorem done_userStart (a : Bool) : KeepsDone (gUserStart a) := by
  apply done_sameHb; intro g g' h
  unfold gUserStart at h
  simp only at h
  have k := start_keep g
  split at h
  · cases h
    split
    · exact ⟨start_hb g, fun hc => by show g.start.1.closed = true; rw [k.1]; exact hc, by show g.returning ≤ g.start.1.returning; rw [k.2]; exact Nat.le_refl _⟩
    · exact ⟨start_hb g, fun hc => by show g.start.1.closed = true; rw [k.1]; exact hc, by show g.returning ≤ g.start.1.returning; rw [k.2]; exact Nat.le_refl _⟩
  · cases h

theorem done_watchStart (a : Bool) : KeepsDone (gWatchStart a) := by
  apply done_sameHb; intro g g' h
  unfold gWatchStart at h
  simp only at h
  have k := start_keep g
  split at h
  · cases h
    exact ⟨start_hb g, fun hc => by show g.start.1.closed = true; rw [k.1]; exact hc, by show g.returning ≤ g.start.1.returning; rw [k.2]; exact Nat.le_refl _⟩
  · cases h

theorem done_hbCall (gid : Int) (m : String) : KeepsDone (gHbCall gid m) := by
  intro g g' h _; unfold gHbCall at h; split at h
  · cases h; intro hh; cases hh
  · cases h
theorem done_hbRet (e : Option Err) : KeepsDone (gHbRet e) := by
  intro g g' h _; unfold gHbRet at h; split at h
  · cases h; intro hh; split at hh <;> cases hh
  · cases h
theorem done_hbExit : KeepsDone gHbExit := by
  intro g g' h _; unfold gHbExit at h; split at h
  · cases h; intro _; right; simp [Gen.bodyReturned]
  · cases h
theorem done_watchCall (t : Nat) : KeepsDone (gWatchCall t) := by
  apply done_sameHb; intro g g' h; unfold gWatchCall at h
  split at h <;> first | (cases h; exact ⟨rfl, id, Nat.le_refl _⟩) | cases h
theorem done_watchParts (t n : Nat) : KeepsDone (gWatchParts t n) := by
  apply done_sameHb; intro g g' h; unfold gWatchParts at h
  split at h <;> first | (cases h; exact ⟨rfl, id, Nat.le_refl _⟩) | cases h
theorem done_watchErr (t : Nat) (e : Err) : KeepsDone (gWatchErr t e) := by
  apply done_sameHb; intro g g' h; unfold gWatchErr at h
  split at h
  · cases h; exact ⟨rfl, id, Nat.le_refl _⟩
  · split at h
    · cases h; exact ⟨rfl, id, Nat.le_refl _⟩
    · split at h <;> (cases h; exact ⟨rfl, id, Nat.le_refl _⟩)
  · cases h
theorem done_watchExit (t : Nat) : KeepsDone (gWatchExit t) := by
  apply done_sameHb; intro g g' h; unfold gWatchExit at h
  split at h
  · cases h
    have := bodyReturned_mono g ‹Bool›
    exact ⟨by simp [setW, bodyReturned_hb], by intro hc; simp [setW]; rw [this.1]; exact hc, by simp [setW]; exact this.2⟩
  · split at h
    · cases h
      have := bodyReturned_mono g ‹Bool›
      exact ⟨by simp [setW, bodyReturned_hb], by intro hc; simp [setW]; rw [this.1]; exact hc, by simp [setW]; exact this.2⟩
    · cases h
  · cases h
theorem done_fnExit (c : Bool) (l : Nat) : KeepsDone (gFnExit c l) := by
  intro g g' h _ _; unfold gFnExit at h
  split at h
  · exact .inl (Gen.fnExit_closed _ _ h)
  · cases h
theorem done_uRet (a : Bool) : KeepsDone (gURet a) := by
  apply done_sameHb; intro g g' h; unfold gURet at h
  split at h
  · split at h
    · cases h
      have := bodyReturned_mono g true
      exact ⟨by simp [bodyReturned_hb], by intro hc; simp; rw [this.1]; exact hc, by simp; exact this.2⟩
    · cases h
  · split at h
    · cases h; exact ⟨rfl, id, Nat.le_refl _⟩
    · cases h
theorem done_uCtx : KeepsDone gUCtx := by
  apply done_sameHb; intro g g' h; unfold gUCtx at h
  split at h <;> first | (cases h; exact ⟨rfl, id, Nat.le_refl _⟩) | cases h

def Inv4 (s : St) : Prop := HbDoneOK s.cur

theorem inv4_onCur (s s' : St) (g : Nat) (f : Gen → Option Gen) (hf : KeepsDone f) (hi : Inv4 s)
    (h : onCur s g f = some s') : Inv4 s' := by
  unfold onCur at h
  split at h
  · simp only [Option.map_eq_some_iff] at h
    obtain ⟨cg, hcg, rfl⟩ := h
    exact hf _ _ hcg hi
  · cases h

theorem inv4_step (c : Cfg) (s s' : St) (e : Ev) (hi : Inv4 s) (h : step c s e = some s') : Inv4 s' := by
  cases e <;> simp only [step] at h
  case hbCall g gid m => exact inv4_onCur _ _ _ _ (done_hbCall gid m) hi h
  case hbRet g e => exact inv4_onCur _ _ _ _ (done_hbRet e) hi h
  case hbExit g => exact inv4_onCur _ _ _ _ done_hbExit hi h
  case watchCall g t => exact inv4_onCur _ _ _ _ (done_watchCall t) hi h
  case watchParts g t n => exact inv4_onCur _ _ _ _ (done_watchParts t n) hi h
  case watchErr g t e => exact inv4_onCur _ _ _ _ (done_watchErr t e) hi h
  case watchExit g t => exact inv4_onCur _ _ _ _ (done_watchExit t) hi h
  case fnExit g cbm l => exact inv4_onCur _ _ _ _ (done_fnExit cbm l) hi h
  case uRet g acc =>
    split at h
    · exact inv4_onCur _ _ _ _ (done_uRet acc) hi h
    · split at h
      · cases h; exact hi
      · cases h
  case uCtx g =>
    split at h
    · exact inv4_onCur _ _ _ _ done_uCtx hi h
    · split at h
      · cases h; exact hi
      · cases h
  case gStart g acc =>
    split at h
    · split at h
      · simp only [Option.map_eq_some_iff] at h
        obtain ⟨cg, hcg, rfl⟩ := h
        show HbDoneOK cg
        split at hcg
        · unfold gHbStart at hcg
          simp only at hcg
          split at hcg
          · cases hcg; intro hh; cases hh
          · cases hcg
        · exact done_watchStart acc _ _ hcg hi
      · simp only [Option.map_eq_some_iff] at h
        obtain ⟨cg, hcg, rfl⟩ := h
        exact done_userStart acc _ _ hcg hi
    · split at h
      · cases h; exact hi
      · cases h
  case gClose g was r =>
    split at h
    · split at h
      · cases h; intro _; exact .inl rfl
      · cases h
    · cases h
  case gNew g gid m =>
    split at h
    · cases h; intro hh; cases hh
    · cases h
  all_goals (repeat' split at h)
  all_goals (first | cases h | skip)
  all_goals (try (exact hi))
  all_goals (try (unfold coordFail afterLeave; (repeat' split) <;> exact hi))
  all_goals (try (unfold afterLeave; (repeat' split) <;> exact hi))

theorem inv4_reachable (c : Cfg) (s : St) (h : Reachable c s) : Inv4 s := by
  induction h with
  | init => intro hh; cases hh
  | step e _ hs ih => exact inv4_step c _ _ e ih hs

end KV.Group
