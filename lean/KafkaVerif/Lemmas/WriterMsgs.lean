/-
Lemmas/WriterMsgs.lean — messages versus batches (C01 "every accepted message exactly once", C07 "within one call"):
`InvMsgs`: a batch holds no message twice; within a call, a placed index has all earlier indexes of the same
topic-partition placed; stamps follow the index order within a call and topic-partition.
-/
import KafkaVerif.Lemmas.WriterPlace

namespace KV.Writer

/-! ## Messages and batches: each accepted message sits once in one batch; stamps follow the index order in a call -/

structure InvMsgs (s : State) : Prop where
  nodup : ∀ b B, s.batches b = some B → (B.msgs.map (·.msg)).Nodup
  prefixPlaced : ∀ c C, s.calls c = some C → ∀ j bj, C.place j = some bj → ∀ i, i < j → ∀ tp : TP,
    C.assign[i]? = some tp → C.assign[j]? = some tp → (C.place i).isSome = true
  callOrder : ∀ b B b' B', s.batches b = some B → s.batches b' = some B' → B.tp = B'.tp →
    ∀ m ∈ B.msgs, ∀ m' ∈ B'.msgs, m.msg.1 = m'.msg.1 → m.msg.2 < m'.msg.2 → m.seq < m'.seq

theorem invMsgs_init : InvMsgs State.init := by
  constructor <;> simp [State.init]

theorem lt_length_of_getElem? {α : Type} {l : List α} {j : Nat} {x : α} (h : l[j]? = some x) : j < l.length := by
  cases Nat.lt_or_ge j l.length with
  | inl h' => exact h'
  | inr h' => rw [List.getElem?_eq_none h'] at h; cases h

theorem InvMsgs.of_frame {s s' : State} (hP : InvPlace s) (h : InvMsgs s)
    (hcalls : ∀ c C', s'.calls c = some C' → (∀ i, C'.place i = none) ∨
      ∃ C, s.calls c = some C ∧ C'.place = C.place ∧ (C'.assign = C.assign ∨ ∃ x, C'.assign = C.assign ++ [x]))
    (hbat : ∀ b B', s'.batches b = some B' → B'.msgs = [] ∨ ∃ B, s.batches b = some B ∧ B'.msgs = B.msgs ∧ B'.tp = B.tp) :
    InvMsgs s' := by
  constructor
  · intro b B' hB'
    rcases hbat b B' hB' with e | ⟨B, hB, e, -⟩
    · rw [e]; exact List.nodup_nil
    · rw [e]; exact h.nodup b B hB
  · intro c C' hC' j bj hp i hij tp hai haj
    rcases hcalls c C' hC' with hn | ⟨C, hC, epl, hasg⟩
    · rw [hn j] at hp; cases hp
    · rw [epl] at hp ⊢
      obtain ⟨B, -, -, hja⟩ := hP.placed c C hC j bj hp
      have hjl := lt_length_of_getElem? hja
      rcases hasg with e | ⟨x, e⟩
      · rw [e] at hai haj; exact h.prefixPlaced c C hC j bj hp i hij tp hai haj
      · rw [e, List.getElem?_append_left (Nat.lt_trans hij hjl)] at hai
        rw [e, List.getElem?_append_left hjl] at haj
        exact h.prefixPlaced c C hC j bj hp i hij tp hai haj
  · intro b B1' b' B2' h1 h2 htp m hm m' hm' hc hlt
    rcases hbat b B1' h1 with e | ⟨B1, hB1, e1, t1⟩
    · rw [e] at hm; cases hm
    rcases hbat b' B2' h2 with e | ⟨B2, hB2, e2, t2⟩
    · rw [e] at hm'; cases hm'
    exact h.callOrder b B1 b' B2 hB1 hB2 (by rw [← t1, ← t2]; exact htp) m (e1 ▸ hm) m' (e2 ▸ hm') hc hlt

theorem mframe_calls_id {s s' : State} (e : s'.calls = s.calls) :
    ∀ c C', s'.calls c = some C' → (∀ i, C'.place i = none) ∨
      ∃ C, s.calls c = some C ∧ C'.place = C.place ∧ (C'.assign = C.assign ∨ ∃ x, C'.assign = C.assign ++ [x]) :=
  fun _ C' h => Or.inr ⟨C', e ▸ h, rfl, Or.inl rfl⟩

theorem mframe_calls_upd {s s' : State} {c : Nat} {C C' : Call} (hC : s.calls c = some C)
    (e : s'.calls = upd s.calls c (some C')) (h1 : C'.place = C.place)
    (h2 : C'.assign = C.assign ∨ ∃ x, C'.assign = C.assign ++ [x]) :
    ∀ x X', s'.calls x = some X' → (∀ i, X'.place i = none) ∨
      ∃ X, s.calls x = some X ∧ X'.place = X.place ∧ (X'.assign = X.assign ∨ ∃ y, X'.assign = X.assign ++ [y]) := by
  intro x X' hx
  rw [e] at hx
  rcases upd_some_elim hx with ⟨rfl, rfl⟩ | ⟨-, h⟩
  · exact Or.inr ⟨C, hC, h1, h2⟩
  · exact Or.inr ⟨X', h, rfl, Or.inl rfl⟩

theorem mframe_bat_id {s s' : State} (e : s'.batches = s.batches) :
    ∀ b B', s'.batches b = some B' → B'.msgs = [] ∨ ∃ B, s.batches b = some B ∧ B'.msgs = B.msgs ∧ B'.tp = B.tp :=
  fun _ B' h => Or.inr ⟨B', e ▸ h, rfl, rfl⟩

theorem mframe_bat_upd {s s' : State} {b : Nat} {B B' : Batch} (hB : s.batches b = some B)
    (e : s'.batches = upd s.batches b (some B')) (h1 : B'.msgs = B.msgs) (h2 : B'.tp = B.tp) :
    ∀ x X', s'.batches x = some X' → X'.msgs = [] ∨ ∃ X, s.batches x = some X ∧ X'.msgs = X.msgs ∧ X'.tp = X.tp := by
  intro x X' hx
  rw [e] at hx
  rcases upd_some_elim hx with ⟨rfl, rfl⟩ | ⟨-, h⟩
  · exact Or.inr ⟨B, hB, h1, h2⟩
  · exact Or.inr ⟨X', h, rfl, rfl⟩

/-- one call record changes keeping place and assign (phase / result / window only) -/
theorem InvMsgs.of_calls_upd {s s' : State} (hP : InvPlace s) (h : InvMsgs s) {c : Nat} {C C' : Call} (hC : s.calls c = some C)
    (ec : s'.calls = upd s.calls c (some C')) (eb : s'.batches = s.batches) (h1 : C'.place = C.place)
    (h2 : C'.assign = C.assign ∨ ∃ x, C'.assign = C.assign ++ [x]) : InvMsgs s' :=
  h.of_frame hP (mframe_calls_upd hC ec h1 h2) (mframe_bat_id eb)

theorem InvMsgs.of_bat_upd {s s' : State} (hP : InvPlace s) (h : InvMsgs s) {b : Nat} {B B' : Batch} (hB : s.batches b = some B)
    (eb : s'.batches = upd s.batches b (some B')) (ec : s'.calls = s.calls) (h1 : B'.msgs = B.msgs) (h2 : B'.tp = B.tp) :
    InvMsgs s' :=
  h.of_frame hP (mframe_calls_id ec) (mframe_bat_upd hB eb h1 h2)

end KV.Writer

namespace KV.Writer

theorem invMsgs_add {s s' : State} (hO : InvOrd s) (hP : InvPlace s) (h : InvMsgs s) {b c i size : Nat} {P : PW} {B : Batch} {C : Call}
    (hB : s.batches b = some B) (hC : s.calls c = some C)
    (hBtp : B.tp = P.tp) (hassign : C.assign[i]? = some P.tp) (hplace : C.place i = none)
    (hguard : (List.range i).all (fun j => C.assign[j]? != some P.tp || (C.place j).isSome) = true)
    (ebat : s'.batches = upd s.batches b (some (B.push { msg := (c, i), size := size, seq := s.seq })))
    (ecalls : s'.calls = upd s.calls c (some { C with place := upd C.place i (some b) })) : InvMsgs s' := by
  have hlookb : s'.batches b = some (B.push { msg := (c, i), size := size, seq := s.seq }) := by rw [ebat]; simp
  have hlook : ∀ y, y ≠ b → s'.batches y = s.batches y := fun y hy => by rw [ebat]; exact upd_other _ _ _ _ hy
  -- (c, i) is in no batch yet
  have hfresh : ∀ y Y, s.batches y = some Y → ∀ m ∈ Y.msgs, m.msg ≠ (c, i) := by
    intro y Y hY m hm e
    obtain ⟨X, hX, -, hp⟩ := hP.batchTP y Y hY m hm
    rw [e] at hX hp
    rw [hC] at hX; cases hX
    simp only at hp
    rw [hplace] at hp; cases hp
  -- the messages of a batch after the step
  have hmem : ∀ y Y', s'.batches y = some Y' → ∀ m ∈ Y'.msgs,
      (∃ Y, s.batches y = some Y ∧ Y'.tp = Y.tp ∧ m ∈ Y.msgs) ∨ (y = b ∧ Y'.tp = B.tp ∧ m = { msg := (c, i), size := size, seq := s.seq }) := by
    intro y Y' hy m hm
    by_cases hyb : y = b
    · subst hyb; rw [hlookb] at hy; cases hy
      simp only [Batch.push] at hm
      rcases List.mem_append.mp hm with hm | hm
      · exact Or.inl ⟨B, hB, rfl, hm⟩
      · simp at hm; exact Or.inr ⟨rfl, rfl, hm⟩
    · rw [hlook y hyb] at hy; exact Or.inl ⟨Y', hy, rfl, hm⟩
  constructor
  · intro y Y' hy
    by_cases hyb : y = b
    · subst hyb; rw [hlookb] at hy; cases hy
      simp only [Batch.push, List.map_append, List.map_cons, List.map_nil]
      refine List.nodup_append.mpr ⟨h.nodup y B hB, by simp, ?_⟩
      intro a ha a' ha'
      simp at ha'; subst ha'
      obtain ⟨m, hm, rfl⟩ := List.mem_map.mp ha
      exact hfresh y B hB m hm
    · rw [hlook y hyb] at hy; exact h.nodup y Y' hy
  · intro x X' hx j bj hp k hkj tp hak haj
    rw [ecalls] at hx
    rcases upd_some_elim hx with ⟨rfl, rfl⟩ | ⟨-, hx⟩
    · -- the call that adds: place' = upd place i (some b)
      have hpl : ∀ z, z ≠ i → upd C.place i (some b) z = C.place z := fun z hz => upd_other _ _ _ _ hz
      by_cases hki : k = i
      · subst hki; show (upd C.place k (some b) k).isSome = true; simp
      · show (upd C.place i (some b) k).isSome = true
        rw [hpl k hki]
        by_cases hji : j = i
        · subst hji
          rw [List.all_eq_true] at hguard
          have := hguard k (List.mem_range.mpr hkj)
          have htp : tp = P.tp := by
            have : C.assign[j]? = some tp := haj
            rw [hassign] at this; cases this; rfl
          rw [hak, htp] at this
          simpa using this
        · have hp' : C.place j = some bj := by
            have : upd C.place i (some b) j = some bj := hp
            rw [hpl j hji] at this; exact this
          exact h.prefixPlaced x C hC j bj hp' k hkj tp hak haj
    · exact h.prefixPlaced x X' hx j bj hp k hkj tp hak haj
  · intro y1 Y1' y2 Y2' h1 h2 htp m hm m' hm' hc hlt
    rcases hmem y1 Y1' h1 m hm with ⟨Y1, hY1, t1, hm1⟩ | ⟨rfl, t1, rfl⟩
    · rcases hmem y2 Y2' h2 m' hm' with ⟨Y2, hY2, t2, hm2⟩ | ⟨rfl, t2, rfl⟩
      · exact h.callOrder y1 Y1 y2 Y2 hY1 hY2 (by rw [← t1, ← t2]; exact htp) m hm1 m' hm2 hc hlt
      · exact hO.counterB y1 Y1 hY1 m hm1
    · rcases hmem y2 Y2' h2 m' hm' with ⟨Y2, hY2, t2, hm2⟩ | ⟨-, -, rfl⟩
      · -- a later index of the same call and topic-partition is already in a batch while index i is not: impossible
        exfalso
        obtain ⟨X, hX, ha, hp⟩ := hP.batchTP y2 Y2 hY2 m' hm2
        simp only at hc
        rw [← hc, hC] at hX; cases hX
        have hsame : Y2.tp = P.tp := by rw [← t2, ← htp, t1, hBtp]
        have := h.prefixPlaced c C hC m'.msg.2 y2 hp i hlt P.tp hassign (hsame ▸ ha)
        rw [hplace] at this; cases this
      · simp at hlt

theorem invMsgs_step (cfg : Cfg) (s : State) (e : Event) (s' : State) (hO : InvOrd s) (hP : InvPlace s) (hI : InvMsgs s)
    (hs : step cfg s e = some s') : InvMsgs s' := by
  cases e with
  | add pw b c i size =>
    simp only [step, stepAdd] at hs
    repeat' split at hs
    all_goals (first | (cases hs; done) | skip)
    rename_i _ P hPq _ B hB _ C hC hg
    obtain ⟨-, -, -, -, hBtp, -, -, -, -, hassign, hplace, -, hguard, -⟩ := hg
    cases hs
    exact invMsgs_add hO hP hI hB hC hBtp hassign hplace hguard rfl rfl
  | begin_ c msgs =>
    simp only [step] at hs
    repeat' split at hs
    all_goals (first | (cases hs; done) | skip)
    cases hs
    refine hI.of_frame hP ?_ (mframe_bat_id rfl)
    intro x X' hx
    rcases upd_some_elim hx with ⟨rfl, rfl⟩ | ⟨-, h⟩
    · exact Or.inl (fun _ => rfl)
    · exact Or.inr ⟨X', h, rfl, Or.inl rfl⟩
  | assign c i tp =>
    simp only [step] at hs
    repeat' split at hs
    all_goals (first | (cases hs; done) | skip)
    rename_i _ C hC hg
    cases hs
    exact hI.of_calls_upd hP hC rfl rfl rfl (Or.inr ⟨tp, rfl⟩)
  | reject c why i =>
    cases why <;> simp only [step, stepReject] at hs <;> repeat' split at hs
    all_goals (first | (cases hs; done) | skip)
    all_goals (rename_i _ C hC hg; cases hs)
    all_goals exact hI.of_calls_upd hP hC rfl rfl rfl (Or.inl rfl)
  | ret c r =>
    cases r <;> simp only [step, stepRet] at hs <;> repeat' split at hs
    all_goals (first | (cases hs; done) | skip)
    all_goals (rename_i _ C hC hg; cases hs)
    all_goals exact hI.of_calls_upd hP hC rfl rfl rfl (Or.inl rfl)
  | batch c =>
    simp only [step] at hs
    repeat' split at hs
    all_goals (first | (cases hs; done) | skip)
    rename_i _ C hC hg
    cases hs
    exact hI.of_calls_upd hP hC rfl rfl rfl (Or.inl rfl)
  | batched c =>
    simp only [step] at hs
    repeat' split at hs
    all_goals (first | (cases hs; done) | skip)
    rename_i _ C hC hg
    cases hs
    exact hI.of_calls_upd hP hC rfl rfl rfl (Or.inl rfl)
  | newBatch pw b =>
    simp only [step] at hs
    repeat' split at hs
    all_goals (first | (cases hs; done) | skip)
    cases hs
    refine hI.of_frame hP (mframe_calls_id rfl) ?_
    intro x X' hx
    rcases upd_some_elim hx with ⟨rfl, rfl⟩ | ⟨-, h⟩
    · exact Or.inl rfl
    · exact Or.inr ⟨X', h, rfl, rfl⟩
  | detach pw b why size =>
    simp only [step, stepDetach] at hs
    repeat' split at hs
    all_goals (first | (cases hs; done) | skip)
    rename_i _ P hPq _ B hB hg
    cases hs
    exact hI.of_bat_upd (B' := { B with detached := some why }) hP hB rfl rfl rfl rfl
  | timerFire pw b att =>
    simp only [step] at hs
    repeat' split at hs
    all_goals (first | (cases hs; done) | skip)
    rename_i _ P hPq _ B hB hg
    cases hs
    exact hI.of_bat_upd (B' := { B with timerFired := true }) hP hB rfl rfl rfl rfl
  | completion pw b code =>
    simp only [step] at hs
    repeat' split at hs
    all_goals (first | (cases hs; done) | skip)
    rename_i _ P hPq _ B hB hg
    cases hs
    exact hI.of_bat_upd (B' := { B with ncompl := B.ncompl + 1, cbCode := some code }) hP hB rfl rfl rfl rfl
  | complete pw b code =>
    simp only [step] at hs
    repeat' split at hs
    all_goals (first | (cases hs; done) | skip)
    rename_i _ P hPq _ B hB hg
    cases hs
    exact hI.of_bat_upd (B' := { B with done := some code }) hP hB rfl rfl rfl rfl
  | produce pw tp msgs out =>
    simp only [step, stepProduce] at hs
    repeat' split at hs
    all_goals (first | (cases hs; done) | skip)
    rename_i _ P hPq _ b k hsend _ B hB hg
    cases hs
    exact hI.of_bat_upd (B' := B.noteProduce out) hP hB rfl rfl rfl rfl
  | _ =>
    simp only [step] at hs
    repeat' split at hs
    all_goals (first | (cases hs; done) | skip)
    all_goals (cases hs)
    all_goals exact hI.of_frame hP (mframe_calls_id rfl) (mframe_bat_id rfl)

end KV.Writer

namespace KV.Writer

theorem invMsgsAll (cfg : Cfg) : ∀ s, Reachable cfg s → (InvOrd s ∧ InvPlace s) ∧ InvMsgs s :=
  invariant_of_step cfg (fun s => (InvOrd s ∧ InvPlace s) ∧ InvMsgs s) ⟨⟨invOrd_init, invPlace_init⟩, invMsgs_init⟩
    (fun s e s' h hs => ⟨⟨invOrd_step cfg s e s' h.1.1 hs, invPlace_step cfg s e s' h.1.2 hs⟩,
      invMsgs_step cfg s e s' h.1.1 h.1.2 h.2 hs⟩)

theorem invMsgs (cfg : Cfg) (s : State) (hr : Reachable cfg s) : InvMsgs s := (invMsgsAll cfg s hr).2

end KV.Writer
