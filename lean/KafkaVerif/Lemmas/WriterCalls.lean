/-
Lemmas/WriterCalls.lean — stamps versus call boundaries (for C07 `successive_calls_ordered`).

Ghost data: `Call.beginSeq` / `Call.endSeq` = the value of the global submission counter when the call began /
returned.  Every message of a call is stamped inside that window, so if one call returned before another began
(which is what "successive calls of one goroutine" means) all its stamps are smaller.
-/
import KafkaVerif.Lemmas.WriterOrder

namespace KV.Writer

structure InvCallSeq (s : State) : Prop where
  beginLe : ∀ c C, s.calls c = some C → C.beginSeq ≤ s.seq
  endLe : ∀ c C e, s.calls c = some C → C.endSeq = some e → e ≤ s.seq ∧ C.phase = .returned
  msgIn : ∀ b B, s.batches b = some B → ∀ m ∈ B.msgs, ∃ C, s.calls m.msg.1 = some C ∧ C.beginSeq ≤ m.seq ∧
    (∀ e, C.endSeq = some e → m.seq < e)

theorem invCallSeq_init : InvCallSeq State.init := by
  constructor <;> simp [State.init]

/-- frame: the counter does not decrease, call records keep their window (and stay returned once they have an end),
batches keep their messages -/
theorem InvCallSeq.of_frame {s s' : State} (h : InvCallSeq s) (hseq : s.seq ≤ s'.seq)
    (hcalls : ∀ c C', s'.calls c = some C' → ∃ C, s.calls c = some C ∧ C'.beginSeq = C.beginSeq ∧ C'.endSeq = C.endSeq ∧
      (C.phase = .returned → C'.phase = .returned))
    (hcalls' : ∀ c C, s.calls c = some C → ∃ C', s'.calls c = some C' ∧ C'.beginSeq = C.beginSeq ∧ C'.endSeq = C.endSeq)
    (hbat : ∀ b B', s'.batches b = some B' → B'.msgs = [] ∨ ∃ B, s.batches b = some B ∧ B'.msgs = B.msgs) : InvCallSeq s' := by
  constructor
  · intro c C' hC'
    obtain ⟨C, hC, e1, -, -⟩ := hcalls c C' hC'
    rw [e1]; exact Nat.le_trans (h.beginLe c C hC) hseq
  · intro c C' e hC' he
    obtain ⟨C, hC, -, e2, hph⟩ := hcalls c C' hC'
    obtain ⟨h1, h2⟩ := h.endLe c C e hC (e2 ▸ he)
    exact ⟨Nat.le_trans h1 hseq, hph h2⟩
  · intro b B' hB' m hm
    rcases hbat b B' hB' with he | ⟨B, hB, em⟩
    · rw [he] at hm; cases hm
    obtain ⟨C, hC, h1, h2⟩ := h.msgIn b B hB m (em ▸ hm)
    obtain ⟨C', hC', e1, e2⟩ := hcalls' _ C hC
    exact ⟨C', hC', e1 ▸ h1, fun e he => h2 e (e2 ▸ he)⟩

theorem qframe_calls_id {s s' : State} (e : s'.calls = s.calls) :
    (∀ c C', s'.calls c = some C' → ∃ C, s.calls c = some C ∧ C'.beginSeq = C.beginSeq ∧ C'.endSeq = C.endSeq ∧
      (C.phase = .returned → C'.phase = .returned)) ∧
    (∀ c C, s.calls c = some C → ∃ C', s'.calls c = some C' ∧ C'.beginSeq = C.beginSeq ∧ C'.endSeq = C.endSeq) :=
  ⟨fun _ C' h => ⟨C', e ▸ h, rfl, rfl, fun h => h⟩, fun _ C h => ⟨C, e ▸ h, rfl, rfl⟩⟩

theorem qframe_calls_upd {s s' : State} {c : Nat} {C C' : Call} (hC : s.calls c = some C)
    (e : s'.calls = upd s.calls c (some C')) (h1 : C'.beginSeq = C.beginSeq) (h2 : C'.endSeq = C.endSeq)
    (h3 : C.phase = .returned → C'.phase = .returned) :
    (∀ x X', s'.calls x = some X' → ∃ X, s.calls x = some X ∧ X'.beginSeq = X.beginSeq ∧ X'.endSeq = X.endSeq ∧
      (X.phase = .returned → X'.phase = .returned)) ∧
    (∀ x X, s.calls x = some X → ∃ X', s'.calls x = some X' ∧ X'.beginSeq = X.beginSeq ∧ X'.endSeq = X.endSeq) := by
  constructor
  · intro x X' hx
    rw [e] at hx
    rcases upd_some_elim hx with ⟨rfl, rfl⟩ | ⟨-, h⟩
    · exact ⟨C, hC, h1, h2, h3⟩
    · exact ⟨X', h, rfl, rfl, fun h => h⟩
  · intro x X hx
    by_cases hxc : x = c
    · subst hxc; rw [hC] at hx; cases hx
      exact ⟨C', by rw [e]; simp, h1, h2⟩
    · exact ⟨X, by rw [e, upd_other _ _ _ _ hxc]; exact hx, rfl, rfl⟩

theorem qframe_bat_id {s s' : State} (e : s'.batches = s.batches) :
    ∀ b B', s'.batches b = some B' → B'.msgs = [] ∨ ∃ B, s.batches b = some B ∧ B'.msgs = B.msgs :=
  fun _ B' h => Or.inr ⟨B', e ▸ h, rfl⟩

theorem qframe_bat_upd {s s' : State} {b : Nat} {B B' : Batch} (hB : s.batches b = some B)
    (e : s'.batches = upd s.batches b (some B')) (hm : B'.msgs = B.msgs) :
    ∀ x X', s'.batches x = some X' → X'.msgs = [] ∨ ∃ X, s.batches x = some X ∧ X'.msgs = X.msgs := by
  intro x X' hx
  rw [e] at hx
  rcases upd_some_elim hx with ⟨rfl, rfl⟩ | ⟨-, h⟩
  · exact Or.inr ⟨B, hB, hm⟩
  · exact Or.inr ⟨X', h, rfl⟩

/-- the record of call c changes in fields other than its window, and c has not returned -/
theorem InvCallSeq.of_calls_upd {s s' : State} (h : InvCallSeq s) {c : Nat} {C C' : Call} (hC : s.calls c = some C)
    (ec : s'.calls = upd s.calls c (some C')) (eb : s'.batches = s.batches) (es : s'.seq = s.seq)
    (h1 : C'.beginSeq = C.beginSeq) (h2 : C'.endSeq = C.endSeq) (hph : C.phase ≠ .returned) : InvCallSeq s' := by
  have hf := qframe_calls_upd hC ec h1 h2 (fun h => absurd h hph)
  exact h.of_frame (by rw [es]; exact Nat.le_refl _) hf.1 hf.2 (qframe_bat_id eb)

/-- the call c returns now (its window closes at the current counter) -/
theorem invCallSeq_return {s s' : State} (hO : InvOrd s) (h : InvCallSeq s) {c : Nat} {C C' : Call} (hC : s.calls c = some C)
    (ec : s'.calls = upd s.calls c (some C')) (eb : s'.batches = s.batches) (es : s'.seq = s.seq)
    (h1 : C'.beginSeq = C.beginSeq) (h2 : C'.endSeq = some s.seq) (h3 : C'.phase = .returned) : InvCallSeq s' := by
  constructor
  · intro x X' hx
    rw [ec] at hx; rw [es]
    rcases upd_some_elim hx with ⟨rfl, rfl⟩ | ⟨-, hx⟩
    · rw [h1]; exact h.beginLe x C hC
    · exact h.beginLe x X' hx
  · intro x X' e hx he
    rw [ec] at hx; rw [es]
    rcases upd_some_elim hx with ⟨rfl, rfl⟩ | ⟨-, hx⟩
    · rw [h2] at he; cases he; exact ⟨Nat.le_refl _, h3⟩
    · exact h.endLe x X' e hx he
  · intro b B hB m hm
    rw [eb] at hB
    obtain ⟨X, hX, g1, g2⟩ := h.msgIn b B hB m hm
    by_cases hmc : m.msg.1 = c
    · rw [hmc, hC] at hX; cases hX
      refine ⟨C', by rw [hmc, ec]; simp, h1 ▸ g1, ?_⟩
      intro e he; rw [h2] at he; cases he
      exact hO.counterB b B hB m hm
    · exact ⟨X, by rw [ec, upd_other _ _ _ _ hmc]; exact hX, g1, g2⟩

theorem invCallSeq_step (cfg : Cfg) (s : State) (e : Event) (s' : State) (hO : InvOrd s) (hI : InvCallSeq s)
    (hs : step cfg s e = some s') : InvCallSeq s' := by
  cases e with
  | reject c why i =>
    cases why <;> simp only [step, stepReject] at hs <;> repeat' split at hs
    all_goals (first | (cases hs; done) | skip)
    all_goals (rename_i _ C hC hg; cases hs)
    · exact invCallSeq_return hO hI hC rfl rfl rfl rfl rfl rfl
    · exact invCallSeq_return hO hI hC rfl rfl rfl rfl rfl rfl
    · exact invCallSeq_return hO hI hC rfl rfl rfl rfl rfl rfl
    · have hph : C.phase ≠ .returned := by simp [hg.2.2.1]
      exact hI.of_calls_upd hC rfl rfl rfl rfl rfl hph
  | ret c r =>
    cases r <;> simp only [step, stepRet] at hs <;> repeat' split at hs
    all_goals (first | (cases hs; done) | skip)
    all_goals (rename_i _ C hC hg; cases hs)
    all_goals exact invCallSeq_return hO hI hC rfl rfl rfl rfl rfl rfl
  | begin_ c msgs =>
    simp only [step] at hs
    repeat' split at hs
    all_goals (first | (cases hs; done) | skip)
    rename_i hg
    have hnone : s.calls c = none := by simpa using hg.2.1
    cases hs
    constructor
    · intro x X' hx
      rcases upd_some_elim hx with ⟨rfl, rfl⟩ | ⟨-, hx⟩
      · exact Nat.le_refl _
      · exact hI.beginLe x X' hx
    · intro x X' e hx he
      rcases upd_some_elim hx with ⟨rfl, rfl⟩ | ⟨-, hx⟩
      · cases he
      · exact hI.endLe x X' e hx he
    · intro b B hB m hm
      obtain ⟨X, hX, g1, g2⟩ := hI.msgIn b B hB m hm
      have hne : m.msg.1 ≠ c := by intro e; rw [e, hnone] at hX; cases hX
      exact ⟨X, by show upd s.calls c _ _ = _; rw [upd_other _ _ _ _ hne]; exact hX, g1, g2⟩
  | assign c i tp =>
    simp only [step] at hs
    repeat' split at hs
    all_goals (first | (cases hs; done) | skip)
    rename_i _ C hC hg
    cases hs
    have hph : C.phase ≠ .returned := by rcases hg.1 with h | h <;> simp [h]
    exact hI.of_calls_upd hC rfl rfl rfl rfl rfl hph
  | batch c =>
    simp only [step] at hs
    repeat' split at hs
    all_goals (first | (cases hs; done) | skip)
    rename_i _ C hC hg
    cases hs
    have hph : C.phase ≠ .returned := by simp [hg.2.2.1]
    exact hI.of_calls_upd hC rfl rfl rfl rfl rfl hph
  | batched c =>
    simp only [step] at hs
    repeat' split at hs
    all_goals (first | (cases hs; done) | skip)
    rename_i _ C hC hg
    cases hs
    have hph : C.phase ≠ .returned := by simp [hg.2.1]
    exact hI.of_calls_upd hC rfl rfl rfl rfl rfl hph
  | add pw b c i size =>
    simp only [step, stepAdd] at hs
    repeat' split at hs
    all_goals (first | (cases hs; done) | skip)
    rename_i _ P hP _ B hB _ C hC hg
    obtain ⟨-, -, -, -, -, -, -, -, hphase, -⟩ := hg
    cases hs
    have hend : C.endSeq = none := by
      cases he : C.endSeq with
      | none => rfl
      | some e => have := (hI.endLe c C e hC he).2; rw [hphase] at this; cases this
    constructor
    · intro x X' hx
      rcases upd_some_elim hx with ⟨rfl, rfl⟩ | ⟨-, hx⟩
      · exact Nat.le_succ_of_le (hI.beginLe x C hC)
      · exact Nat.le_succ_of_le (hI.beginLe x X' hx)
    · intro x X' e hx he
      rcases upd_some_elim hx with ⟨rfl, rfl⟩ | ⟨-, hx⟩
      · rw [show ({ C with place := upd C.place i (some b) } : Call).endSeq = C.endSeq from rfl, hend] at he; cases he
      · obtain ⟨g1, g2⟩ := hI.endLe x X' e hx he
        exact ⟨Nat.le_succ_of_le g1, g2⟩
    · intro y Y' hy m hm
      -- the call record of a message after the step
      have hcl : ∀ x X, s.calls x = some X → ∃ X', upd s.calls c (some { C with place := upd C.place i (some b) }) x = some X' ∧
          X'.beginSeq = X.beginSeq ∧ X'.endSeq = X.endSeq := by
        intro x X hx
        by_cases hxc : x = c
        · subst hxc; rw [hC] at hx; cases hx
          exact ⟨{ C with place := upd C.place i (some b) }, by simp, rfl, rfl⟩
        · exact ⟨X, by rw [upd_other _ _ _ _ hxc]; exact hx, rfl, rfl⟩
      rcases upd_some_elim hy with ⟨rfl, rfl⟩ | ⟨-, hy⟩
      · simp only [Batch.push] at hm
        rcases List.mem_append.mp hm with hm | hm
        · obtain ⟨X, hX, g1, g2⟩ := hI.msgIn y B hB m hm
          obtain ⟨X', hX', e1, e2⟩ := hcl _ X hX
          exact ⟨X', hX', e1 ▸ g1, fun e he => g2 e (e2 ▸ he)⟩
        · simp at hm; subst hm
          obtain ⟨X', hX', e1, e2⟩ := hcl c C hC
          refine ⟨X', hX', by rw [e1]; exact hI.beginLe c C hC, ?_⟩
          intro e he; rw [e2, hend] at he; cases he
      · obtain ⟨X, hX, g1, g2⟩ := hI.msgIn y Y' hy m hm
        obtain ⟨X', hX', e1, e2⟩ := hcl _ X hX
        exact ⟨X', hX', e1 ▸ g1, fun e he => g2 e (e2 ▸ he)⟩
  | newBatch pw b =>
    simp only [step] at hs
    repeat' split at hs
    all_goals (first | (cases hs; done) | skip)
    cases hs
    refine hI.of_frame (Nat.le_refl _) (qframe_calls_id rfl).1 (qframe_calls_id rfl).2 ?_
    intro x X' hx
    rcases upd_some_elim hx with ⟨rfl, rfl⟩ | ⟨-, h⟩
    · exact Or.inl rfl
    · exact Or.inr ⟨X', h, rfl⟩
  | detach pw b why size =>
    simp only [step, stepDetach] at hs
    repeat' split at hs
    all_goals (first | (cases hs; done) | skip)
    rename_i _ P hP _ B hB hg
    cases hs
    exact hI.of_frame (Nat.le_refl _) (qframe_calls_id rfl).1 (qframe_calls_id rfl).2
      (qframe_bat_upd (B' := { B with detached := some why }) hB rfl rfl)
  | timerFire pw b att =>
    simp only [step] at hs
    repeat' split at hs
    all_goals (first | (cases hs; done) | skip)
    rename_i _ P hP _ B hB hg
    cases hs
    exact hI.of_frame (Nat.le_refl _) (qframe_calls_id rfl).1 (qframe_calls_id rfl).2
      (qframe_bat_upd (B' := { B with timerFired := true }) hB rfl rfl)
  | completion pw b code =>
    simp only [step] at hs
    repeat' split at hs
    all_goals (first | (cases hs; done) | skip)
    rename_i _ P hP _ B hB hg
    cases hs
    exact hI.of_frame (Nat.le_refl _) (qframe_calls_id rfl).1 (qframe_calls_id rfl).2
      (qframe_bat_upd (B' := { B with ncompl := B.ncompl + 1, cbCode := some code }) hB rfl rfl)
  | complete pw b code =>
    simp only [step] at hs
    repeat' split at hs
    all_goals (first | (cases hs; done) | skip)
    rename_i _ P hP _ B hB hg
    cases hs
    exact hI.of_frame (Nat.le_refl _) (qframe_calls_id rfl).1 (qframe_calls_id rfl).2
      (qframe_bat_upd (B' := { B with done := some code }) hB rfl rfl)
  | produce pw tp msgs out =>
    simp only [step, stepProduce] at hs
    repeat' split at hs
    all_goals (first | (cases hs; done) | skip)
    rename_i _ P hP _ b k hsend _ B hB hg
    cases hs
    exact hI.of_frame (Nat.le_refl _) (qframe_calls_id rfl).1 (qframe_calls_id rfl).2
      (qframe_bat_upd (B' := B.noteProduce out) hB rfl rfl)
  | _ =>
    simp only [step] at hs
    repeat' split at hs
    all_goals (first | (cases hs; done) | skip)
    all_goals (cases hs)
    all_goals exact hI.of_frame (Nat.le_refl _) (qframe_calls_id rfl).1 (qframe_calls_id rfl).2 (qframe_bat_id rfl)

theorem invOrdCallSeq (cfg : Cfg) : ∀ s, Reachable cfg s → InvOrd s ∧ InvCallSeq s :=
  invariant_of_step cfg (fun s => InvOrd s ∧ InvCallSeq s) ⟨invOrd_init, invCallSeq_init⟩
    (fun s e s' h hs => ⟨invOrd_step cfg s e s' h.1 hs, invCallSeq_step cfg s e s' h.1 h.2 hs⟩)

theorem invCallSeq (cfg : Cfg) (s : State) (hr : Reachable cfg s) : InvCallSeq s := (invOrdCallSeq cfg s hr).2

end KV.Writer
