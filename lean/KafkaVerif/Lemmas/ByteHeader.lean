/-
Lemmas/ByteHeader.lean — `readHeaderB` (message_reader.go readHeader, byte level) on the header bytes of the reference
encoders: with the whole header inside `remain` it yields the fields the tokenizer's `readH2` / `readH1` yield and
consumes exactly the header; cut anywhere → errShortRead.
-/
import KafkaVerif.Model.ByteHeader
import KafkaVerif.Lemmas.ByteReader
import KafkaVerif.Lemmas.ByteLayout

namespace KV.C02.BR
open KV KV.RW KV.Spec.RB KV.C02

theorem aos_readInt8 (x : Int) (h : InRange M8 x) : AllOrShort readInt8 (i8 x) x := by
  intro rest remain
  have hl : (i8 x).length = 1 := by simp [i8]
  constructor
  · intro hle
    have hk : ¬ 1 > remain := by omega
    have := readI8_i8 x rest h
    simp only [readI8] at this
    simp only [readInt8, readInt, hk, if_false, this, hl]
  · intro hlt
    exact ⟨_, by simp only [readInt8, readInt]; rw [if_pos (by omega)]⟩

theorem aos_readInt16 (x : Int) (h : InRange M16 x) : AllOrShort readInt16 (i16 x) x := by
  intro rest remain
  have hl : (i16 x).length = 2 := by simp [i16]
  constructor
  · intro hle
    have hk : ¬ 2 > remain := by omega
    have := readI16_i16 x rest h
    simp only [readI16] at this
    simp only [readInt16, readInt, hk, if_false, this, hl]
  · intro hlt
    exact ⟨_, by simp only [readInt16, readInt]; rw [if_pos (by omega)]⟩

theorem aos_readInt64 (x : Int) (h : InRange M64 x) : AllOrShort readInt64 (i64 x) x := by
  intro rest remain
  have hl : (i64 x).length = 8 := by simp [i64]
  constructor
  · intro hle
    have hk : ¬ 8 > remain := by omega
    have := readI64_i64 x rest h
    simp only [readI64] at this
    simp only [readInt64, readInt, hk, if_false, this, hl]
  · intro hlt
    exact ⟨_, by simp only [readInt64, readInt]; rw [if_pos (by omega)]⟩

/-- the checksum field: four bytes whose value nobody looks at -/
theorem aos_readCrc (c : Nat) : AllOrShort readInt32 (u32 c) (toS M32 (deN (u32 c))) :=
  aos_readInt 4 M32 (u32 c) (by simp [u32])

/-- **the 61 header bytes of a v2 batch** -/
theorem readHeaderB_v2 (c : Nat) (f : FrameV2) (h : f.WF) :
    AllOrShort readHeaderB (encH2 c f)
      (.v2 ⟨f.baseOffset, f.lastOffsetDelta, f.firstTs, f.count, f.attributes, f.payload.length⟩) := by
  obtain ⟨h1, h2, h3, h4, h5, h6, h7, h8, h9, h10, h11⟩ := h
  have hlen : InRange M32 (((9 + (frameBody f).length : Nat) : Int)) := by
    have := frameBody_length f; unfold InRange M32 at *; omega
  have hm : InRange M8 2 := by unfold InRange M8; omega
  have hl : ((((9 + (frameBody f).length : Nat) : Int)) - 49).toNat = f.payload.length := by
    have := frameBody_length f; omega
  -- the `case 2` branch, from the innermost read outwards
  have b9 := aos_bind (q := fun count => (M.pure (HdrB.v2 ⟨f.baseOffset, f.lastOffsetDelta, f.firstTs, count, f.attributes,
      ((((9 + (frameBody f).length : Nat) : Int)) - 49).toNat⟩) : M HdrB)) (aos_readInt32 f.count h10) (aos_pure _)
  have b8 := aos_bind (q := fun _ => M.bind readInt32 fun count => (M.pure (HdrB.v2 ⟨f.baseOffset, f.lastOffsetDelta, f.firstTs, count, f.attributes,
      ((((9 + (frameBody f).length : Nat) : Int)) - 49).toNat⟩) : M HdrB)) (aos_readInt32 f.baseSeq h9) b9
  have b7 := aos_bind (q := fun _ => M.bind readInt32 fun _ => M.bind readInt32 fun count => (M.pure (HdrB.v2 ⟨f.baseOffset, f.lastOffsetDelta, f.firstTs, count, f.attributes,
      ((((9 + (frameBody f).length : Nat) : Int)) - 49).toNat⟩) : M HdrB)) (aos_readInt16 f.producerEpoch h8) b8
  have b6 := aos_bind (q := fun _ => M.bind readInt16 fun _ => M.bind readInt32 fun _ => M.bind readInt32 fun count => (M.pure (HdrB.v2 ⟨f.baseOffset, f.lastOffsetDelta, f.firstTs, count, f.attributes,
      ((((9 + (frameBody f).length : Nat) : Int)) - 49).toNat⟩) : M HdrB)) (aos_readInt64 f.producerId h7) b7
  have b5 := aos_bind (q := fun _ => M.bind readInt64 fun _ => M.bind readInt16 fun _ => M.bind readInt32 fun _ => M.bind readInt32 fun count => (M.pure (HdrB.v2 ⟨f.baseOffset, f.lastOffsetDelta, f.firstTs, count, f.attributes,
      ((((9 + (frameBody f).length : Nat) : Int)) - 49).toNat⟩) : M HdrB)) (aos_readInt64 f.maxTs h6) b6
  have b4 := aos_bind (q := fun fts => M.bind readInt64 fun _ => M.bind readInt64 fun _ => M.bind readInt16 fun _ => M.bind readInt32 fun _ => M.bind readInt32 fun count => (M.pure (HdrB.v2 ⟨f.baseOffset, f.lastOffsetDelta, fts, count, f.attributes,
      ((((9 + (frameBody f).length : Nat) : Int)) - 49).toNat⟩) : M HdrB)) (aos_readInt64 f.firstTs h5) b5
  have b3 := aos_bind (q := fun lod => M.bind readInt64 fun fts => M.bind readInt64 fun _ => M.bind readInt64 fun _ => M.bind readInt16 fun _ => M.bind readInt32 fun _ => M.bind readInt32 fun count => (M.pure (HdrB.v2 ⟨f.baseOffset, lod, fts, count, f.attributes,
      ((((9 + (frameBody f).length : Nat) : Int)) - 49).toNat⟩) : M HdrB)) (aos_readInt32 f.lastOffsetDelta h4) b4
  have b2 := aos_bind (q := fun attrs => M.bind readInt32 fun lod => M.bind readInt64 fun fts => M.bind readInt64 fun _ => M.bind readInt64 fun _ => M.bind readInt16 fun _ => M.bind readInt32 fun _ => M.bind readInt32 fun count => (M.pure (HdrB.v2 ⟨f.baseOffset, lod, fts, count, attrs,
      ((((9 + (frameBody f).length : Nat) : Int)) - 49).toNat⟩) : M HdrB)) (aos_readInt16 f.attributes h3) b3
  have b1 := aos_bind (q := fun _ => M.bind readInt16 fun attrs => M.bind readInt32 fun lod => M.bind readInt64 fun fts => M.bind readInt64 fun _ => M.bind readInt64 fun _ => M.bind readInt16 fun _ => M.bind readInt32 fun _ => M.bind readInt32 fun count => (M.pure (HdrB.v2 ⟨f.baseOffset, lod, fts, count, attrs,
      ((((9 + (frameBody f).length : Nat) : Int)) - 49).toNat⟩) : M HdrB)) (aos_readCrc c) b2
  have hbr : AllOrShort (hdrBranch f.baseOffset (((9 + (frameBody f).length : Nat) : Int)) 2) _ _ := b1
  -- the four leading fields
  have a4 := aos_bind (q := fun magic => hdrBranch f.baseOffset (((9 + (frameBody f).length : Nat) : Int)) magic) (aos_readInt8 2 hm) hbr
  have a3 := aos_bind (q := fun _ => M.bind readInt8 fun magic => hdrBranch f.baseOffset (((9 + (frameBody f).length : Nat) : Int)) magic)
    (aos_readInt32 f.leaderEpoch h2) a4
  have a2 := aos_bind (q := fun len => M.bind readInt32 fun _ => M.bind readInt8 fun magic => hdrBranch f.baseOffset len magic)
    (aos_readInt32 _ hlen) a3
  have a1 := aos_bind (q := fun fo => M.bind readInt32 fun len => M.bind readInt32 fun _ => M.bind readInt8 fun magic => hdrBranch fo len magic)
    (aos_readInt64 f.baseOffset h1) a2
  rw [hl] at a1
  exact aos_congr a1 (by simp [encH2, List.append_assoc])

/-- **the 18 / 26 header bytes of a v0 / v1 message** (plain or wrapper) -/
theorem readHeaderB_v1 (c : Nat) (m : Msg) (h : m.WF) :
    AllOrShort readHeaderB (encH1 c m) (.v1 ⟨m.offset, m.magic, m.attributes, (encB1 m).length⟩ m.ts) := by
  have hbl := encB1_length m h
  have hml := msgBody_length m h
  obtain ⟨h1, hm, ha, ht, hz, hl⟩ := h
  have hb : (msgBody m).length ≤ 18 + optLen m.key + optLen m.value := by
    rw [hml]; split <;> split <;> split <;> omega
  have hlen : InRange M32 (((4 + (msgBody m).length : Nat) : Int)) := by unfold InRange M32 at *; omega
  have hm0 : InRange M8 0 := by unfold InRange M8; omega
  have hm1 : InRange M8 1 := by unfold InRange M8; omega
  rcases hm with h0 | h1'
  · have hsz : ((((4 + (msgBody m).length : Nat) : Int)) - 6).toNat = (encB1 m).length := by rw [hbl]; simp [h0]; omega
    have b1 := aos_bind (q := fun attrs => (M.pure (HdrB.v1 ⟨m.offset, 0, attrs, ((((4 + (msgBody m).length : Nat) : Int)) - 6).toNat⟩ 0) : M HdrB))
      (aos_readInt8 m.attributes ha) (aos_pure _)
    have hbr : AllOrShort (hdrBranch m.offset (((4 + (msgBody m).length : Nat) : Int)) 0) _ _ := b1
    have a4 := aos_bind (q := fun magic => hdrBranch m.offset (((4 + (msgBody m).length : Nat) : Int)) magic) (aos_readInt8 0 hm0) hbr
    have a3 := aos_bind (q := fun _ => M.bind readInt8 fun magic => hdrBranch m.offset (((4 + (msgBody m).length : Nat) : Int)) magic)
      (aos_readCrc c) a4
    have a2 := aos_bind (q := fun len => M.bind readInt32 fun _ => M.bind readInt8 fun magic => hdrBranch m.offset len magic)
      (aos_readInt32 _ hlen) a3
    have a1 := aos_bind (q := fun fo => M.bind readInt32 fun len => M.bind readInt32 fun _ => M.bind readInt8 fun magic => hdrBranch fo len magic)
      (aos_readInt64 m.offset h1) a2
    rw [hsz] at a1
    rw [h0, hz h0]
    exact aos_congr a1 (by simp [encH1, h0, List.append_assoc])
  · have hne : ¬ m.magic = 0 := by omega
    have hsz : ((((4 + (msgBody m).length : Nat) : Int)) - 14).toNat = (encB1 m).length := by rw [hbl]; simp [hne]; omega
    have b2 := aos_bind (q := fun ts => (M.pure (HdrB.v1 ⟨m.offset, 1, m.attributes, ((((4 + (msgBody m).length : Nat) : Int)) - 14).toNat⟩ ts) : M HdrB))
      (aos_readInt64 m.ts ht) (aos_pure _)
    have b1 := aos_bind (q := fun attrs => M.bind readInt64 fun ts => (M.pure (HdrB.v1 ⟨m.offset, 1, attrs, ((((4 + (msgBody m).length : Nat) : Int)) - 14).toNat⟩ ts) : M HdrB))
      (aos_readInt8 m.attributes ha) b2
    have hbr : AllOrShort (hdrBranch m.offset (((4 + (msgBody m).length : Nat) : Int)) 1) _ _ := b1
    have a4 := aos_bind (q := fun magic => hdrBranch m.offset (((4 + (msgBody m).length : Nat) : Int)) magic) (aos_readInt8 1 hm1) hbr
    have a3 := aos_bind (q := fun _ => M.bind readInt8 fun magic => hdrBranch m.offset (((4 + (msgBody m).length : Nat) : Int)) magic)
      (aos_readCrc c) a4
    have a2 := aos_bind (q := fun len => M.bind readInt32 fun _ => M.bind readInt8 fun magic => hdrBranch m.offset len magic)
      (aos_readInt32 _ hlen) a3
    have a1 := aos_bind (q := fun fo => M.bind readInt32 fun len => M.bind readInt32 fun _ => M.bind readInt8 fun magic => hdrBranch fo len magic)
      (aos_readInt64 m.offset h1) a2
    rw [hsz] at a1
    rw [h1']
    exact aos_congr a1 (by simp [encH1, h1', List.append_assoc])

end KV.C02.BR
