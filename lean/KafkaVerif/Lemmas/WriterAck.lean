/-
Lemmas/WriterAck.lean — the acknowledgement invariant of the Writer LTS (for C01 `ack_exact`, `werr_exact`).

Ghost data: `Batch.acked` is set by the broker's decision `produce … acked` for that batch.  The invariant ties
the three places where "this batch was acknowledged" lives: the broker side (ghost flag, log content), the
sender goroutine's position (attempt answered with an ack / retry loop left without error) and the batch's
final `done` error that WriteMessages reads.
-/
import KafkaVerif.Lemmas.WriterOrder

namespace KV.Writer

/-- the sender holds batch b and knows (or is about to learn) that it was acknowledged -/
def AckState (σ : Sender) (b : Nat) : Prop :=
  (∃ k, σ = .attempting b k (some .acked)) ∨ (∃ cb, σ = .finishing b 0 cb)

/-- the part of the pipeline that is no longer attached to the partition writer -/
def PW.sent (P : PW) : List Nat := P.sender.batch?.toList ++ P.queue ++ P.pending.toList

structure InvAck (s : State) : Prop where
  pipeLive : ∀ pw P, s.pws pw = some P → ∀ b ∈ P.pipe, ∀ B, s.batches b = some B → B.done = none
  sentDet : ∀ pw P, s.pws pw = some P → ∀ b ∈ P.sent, ∀ B, s.batches b = some B → B.detached.isSome = true
  ackedDet : ∀ b B, s.batches b = some B → B.acked = true → B.detached.isSome = true
  senderAcked : ∀ pw P, s.pws pw = some P → ∀ b, AckState P.sender b → ∀ B, s.batches b = some B → B.acked = true
  doneAcked : ∀ b B, s.batches b = some B → B.done = some 0 → B.acked = true
  ackedWhere : ∀ b B, s.batches b = some B → B.acked = true →
    B.done = some 0 ∨ ∃ P, s.pws B.pw = some P ∧ AckState P.sender b
  ackedInLog : ∀ b B, s.batches b = some B → B.acked = true → ∀ m ∈ B.msgs, ∃ e ∈ s.log B.tp, e.msg = m.msg ∧ e.batch = b

theorem invAck_init : InvAck State.init := by
  constructor <;> simp [State.init]

/-- frame lemma: the invariant survives every change that shrinks pipelines, keeps the senders' knowledge of
acknowledgements, keeps each batch's owner / partition / done / acked, only lets `detached` become set, only
appends messages to batches that are not acknowledged, and only appends to logs. -/
theorem InvAck.of_frame {s s' : State} (h : InvAck s)
    (hpws : ∀ pw P', s'.pws pw = some P' →
      (P'.pipe = [] ∧ P'.sent = [] ∧ P'.sender = .idle) ∨
      ∃ P, s.pws pw = some P ∧ P'.pipe.Sublist P.pipe ∧ P'.sent.Sublist P.sent ∧ ∀ b, AckState P'.sender b → AckState P.sender b)
    (hpws' : ∀ pw P, s.pws pw = some P → ∃ P', s'.pws pw = some P' ∧ ∀ b, AckState P.sender b → AckState P'.sender b)
    (hbat : ∀ b B', s'.batches b = some B' → ∃ B, s.batches b = some B ∧ B'.tp = B.tp ∧ B'.pw = B.pw ∧
      B'.done = B.done ∧ B'.acked = B.acked ∧ (B.detached.isSome = true → B'.detached.isSome = true) ∧
      (B'.msgs = B.msgs ∨ (B.acked = false ∧ ∃ m, B'.msgs = B.msgs ++ [m])))
    (hlog : ∀ tp e, e ∈ s.log tp → e ∈ s'.log tp) : InvAck s' := by
  constructor
  · intro pw P' hp b hb B' hB'
    obtain ⟨B, hB, -, -, hd, -⟩ := hbat _ _ hB'
    rcases hpws _ _ hp with ⟨he, -, -⟩ | ⟨P, hP, hsub, -, -⟩
    · rw [he] at hb; cases hb
    · rw [hd]; exact h.pipeLive pw P hP b (hsub.subset hb) B hB
  · intro pw P' hp b hb B' hB'
    obtain ⟨B, hB, -, -, -, -, hdet, -⟩ := hbat _ _ hB'
    rcases hpws _ _ hp with ⟨-, he, -⟩ | ⟨P, hP, -, hsub, -⟩
    · rw [he] at hb; cases hb
    · exact hdet (h.sentDet pw P hP b (hsub.subset hb) B hB)
  · intro b B' hB' hack
    obtain ⟨B, hB, -, -, -, ha, hdet, -⟩ := hbat _ _ hB'
    exact hdet (h.ackedDet b B hB (ha ▸ hack))
  · intro pw P' hp b hst B' hB'
    obtain ⟨B, hB, -, -, -, ha, -, -⟩ := hbat _ _ hB'
    rcases hpws _ _ hp with ⟨-, -, he⟩ | ⟨P, hP, -, -, hst'⟩
    · rw [he] at hst; rcases hst with ⟨k, hk⟩ | ⟨cb, hk⟩ <;> cases hk
    · rw [ha]; exact h.senderAcked pw P hP b (hst' b hst) B hB
  · intro b B' hB' hd
    obtain ⟨B, hB, -, -, hd', ha, -, -⟩ := hbat _ _ hB'
    rw [ha]; exact h.doneAcked b B hB (hd' ▸ hd)
  · intro b B' hB' hack
    obtain ⟨B, hB, -, hpw, hd', ha, -, -⟩ := hbat _ _ hB'
    rcases h.ackedWhere b B hB (ha ▸ hack) with hd | ⟨P, hP, hst⟩
    · left; rw [hd']; exact hd
    · right
      obtain ⟨P', hP', hst'⟩ := hpws' _ _ hP
      exact ⟨P', by rw [hpw]; exact hP', hst' b hst⟩
  · intro b B' hB' hack m hm
    obtain ⟨B, hB, htp, -, -, ha, -, hmsgs⟩ := hbat _ _ hB'
    have hackB : B.acked = true := ha ▸ hack
    rcases hmsgs with e | ⟨hf, -⟩
    · obtain ⟨x, hx, h1, h2⟩ := h.ackedInLog b B hB hackB m (e ▸ hm)
      exact ⟨x, by rw [htp]; exact hlog _ _ hx, h1, h2⟩
    · rw [hf] at hackB; cases hackB

theorem frame_pws_upd {s : State} {pws' : Nat → Option PW} {pw : Nat} {P P' : PW} (hP : s.pws pw = some P)
    (e : pws' = upd s.pws pw (some P')) (hpipe : P'.pipe.Sublist P.pipe) (hsent : P'.sent.Sublist P.sent)
    (h1 : ∀ b, AckState P'.sender b → AckState P.sender b) (h2 : ∀ b, AckState P.sender b → AckState P'.sender b) :
    (∀ x X', pws' x = some X' → (X'.pipe = [] ∧ X'.sent = [] ∧ X'.sender = .idle) ∨
      ∃ X, s.pws x = some X ∧ X'.pipe.Sublist X.pipe ∧ X'.sent.Sublist X.sent ∧ ∀ b, AckState X'.sender b → AckState X.sender b) ∧
    (∀ x X, s.pws x = some X → ∃ X', pws' x = some X' ∧ ∀ b, AckState X.sender b → AckState X'.sender b) := by
  constructor
  · intro x X' hx
    rw [e] at hx
    rcases upd_some_elim hx with ⟨rfl, rfl⟩ | ⟨-, h⟩
    · exact Or.inr ⟨P, hP, hpipe, hsent, h1⟩
    · exact Or.inr ⟨X', h, List.Sublist.refl _, List.Sublist.refl _, fun _ h => h⟩
  · intro x X hx
    by_cases hxp : x = pw
    · subst hxp; rw [hP] at hx; cases hx
      exact ⟨P', by rw [e]; simp, h2⟩
    · exact ⟨X, by rw [e, upd_other _ _ _ _ hxp]; exact hx, fun _ h => h⟩

theorem frame_pws_id {s : State} :
    (∀ x X', s.pws x = some X' → (X'.pipe = [] ∧ X'.sent = [] ∧ X'.sender = .idle) ∨
      ∃ X, s.pws x = some X ∧ X'.pipe.Sublist X.pipe ∧ X'.sent.Sublist X.sent ∧ ∀ b, AckState X'.sender b → AckState X.sender b) ∧
    (∀ x X, s.pws x = some X → ∃ X', s.pws x = some X' ∧ ∀ b, AckState X.sender b → AckState X'.sender b) :=
  ⟨fun _ X' h => Or.inr ⟨X', h, List.Sublist.refl _, List.Sublist.refl _, fun _ h => h⟩, fun _ X h => ⟨X, h, fun _ h => h⟩⟩

theorem frame_bat_upd {s : State} {bt' : Nat → Option Batch} {b : Nat} {B B' : Batch} (hB : s.batches b = some B)
    (e : bt' = upd s.batches b (some B')) (h1 : B'.tp = B.tp) (h2 : B'.pw = B.pw) (h3 : B'.done = B.done)
    (h4 : B'.acked = B.acked) (h5 : B.detached.isSome = true → B'.detached.isSome = true)
    (h6 : B'.msgs = B.msgs ∨ (B.acked = false ∧ ∃ m, B'.msgs = B.msgs ++ [m])) :
    ∀ x X', bt' x = some X' → ∃ X, s.batches x = some X ∧ X'.tp = X.tp ∧ X'.pw = X.pw ∧
      X'.done = X.done ∧ X'.acked = X.acked ∧ (X.detached.isSome = true → X'.detached.isSome = true) ∧
      (X'.msgs = X.msgs ∨ (X.acked = false ∧ ∃ m, X'.msgs = X.msgs ++ [m])) := by
  intro x X' hx
  rw [e] at hx
  rcases upd_some_elim hx with ⟨rfl, rfl⟩ | ⟨-, h⟩
  · exact ⟨B, hB, h1, h2, h3, h4, h5, h6⟩
  · exact ⟨X', h, rfl, rfl, rfl, rfl, fun h => h, Or.inl rfl⟩

theorem frame_bat_id {s : State} :
    ∀ x X', s.batches x = some X' → ∃ X, s.batches x = some X ∧ X'.tp = X.tp ∧ X'.pw = X.pw ∧
      X'.done = X.done ∧ X'.acked = X.acked ∧ (X.detached.isSome = true → X'.detached.isSome = true) ∧
      (X'.msgs = X.msgs ∨ (X.acked = false ∧ ∃ m, X'.msgs = X.msgs ++ [m])) :=
  fun _ X' h => ⟨X', h, rfl, rfl, rfl, rfl, fun h => h, Or.inl rfl⟩

theorem ackState_congr {σ σ' : Sender} (h : ∀ b k br, σ ≠ .attempting b k br) (h' : ∀ b k br, σ' ≠ .attempting b k br)
    (g : ∀ b c cb, σ ≠ .finishing b c cb) (g' : ∀ b c cb, σ' ≠ .finishing b c cb) :
    (∀ b, AckState σ' b → AckState σ b) ∧ (∀ b, AckState σ b → AckState σ' b) := by
  constructor
  · intro b hb; rcases hb with ⟨k, hk⟩ | ⟨cb, hk⟩
    · exact absurd hk (h' _ _ _)
    · exact absurd hk (g' _ _ _)
  · intro b hb; rcases hb with ⟨k, hk⟩ | ⟨cb, hk⟩
    · exact absurd hk (h _ _ _)
    · exact absurd hk (g _ _ _)

theorem ackState_batch {σ : Sender} {b : Nat} (h : AckState σ b) : σ.batch? = some b := by
  rcases h with ⟨k, hk⟩ | ⟨cb, hk⟩ <;> (rw [hk]; rfl)

theorem sent_sub_pipe (P : PW) : ∀ b ∈ P.sent, b ∈ P.pipe := by
  intro b hb; unfold PW.pipe; exact List.mem_append_left _ hb

theorem sender_mem_pipe {P : PW} {b : Nat} (h : P.sender.batch? = some b) : b ∈ P.pipe := by
  simp [PW.pipe, h]

theorem invAck_newBatch {s s' : State} (hO : InvOrd s) (hI : InvAck s) {pw b : Nat} {P : PW} (hP : s.pws pw = some P)
    (hc : P.curr = none) (hpend : P.pending = none) (hb : s.batches b = none)
    (epws : s'.pws = upd s.pws pw (some { P with curr := some b, nbatches := P.nbatches + 1 }))
    (ebat : s'.batches = upd s.batches b (some (Batch.new pw P.tp P.nbatches)))
    (elog : s'.log = s.log) : InvAck s' := by
  have hpipe : ({ P with curr := some b, nbatches := P.nbatches + 1 } : PW).pipe = P.pipe ++ [b] := by
    simp [PW.pipe, hc, hpend]
  have hsent : ({ P with curr := some b, nbatches := P.nbatches + 1 } : PW).sent = P.sent := by simp [PW.sent]
  have hne : ∀ x X, s.pws x = some X → ∀ y ∈ X.pipe, y ≠ b := by
    intro x X hx y hy e
    obtain ⟨B, hB, -⟩ := hO.pipeEx x X hx y hy
    rw [e, hb] at hB; cases hB
  have hlook : ∀ y, y ≠ b → s'.batches y = s.batches y := fun y hy => by rw [ebat]; exact upd_other _ _ _ _ hy
  have hlookb : s'.batches b = some (Batch.new pw P.tp P.nbatches) := by rw [ebat]; simp
  -- old partition writer of a new one, with the same sender
  have hold : ∀ x X', s'.pws x = some X' → ∃ X, s.pws x = some X ∧ X'.sender = X.sender ∧ X'.sent = X.sent ∧
      (X'.pipe = X.pipe ∨ X'.pipe = X.pipe ++ [b]) := by
    intro x X' hx
    rw [epws] at hx
    rcases upd_some_elim hx with ⟨rfl, rfl⟩ | ⟨-, h⟩
    · exact ⟨P, hP, rfl, hsent, Or.inr hpipe⟩
    · exact ⟨X', h, rfl, rfl, Or.inl rfl⟩
  constructor
  · intro x X' hx y hy Y hY
    obtain ⟨X, hX, -, -, hp⟩ := hold x X' hx
    by_cases hyb : y = b
    · subst hyb; rw [hlookb] at hY; cases hY; rfl
    · rw [hlook y hyb] at hY
      have hy' : y ∈ X.pipe := by
        rcases hp with e | e
        · exact e ▸ hy
        · rw [e] at hy
          rcases List.mem_append.mp hy with h | h
          · exact h
          · simp at h; exact absurd h hyb
      exact hI.pipeLive x X hX y hy' Y hY
  · intro x X' hx y hy Y hY
    obtain ⟨X, hX, -, hs, -⟩ := hold x X' hx
    rw [hs] at hy
    have hyb : y ≠ b := hne x X hX y (sent_sub_pipe X y hy)
    rw [hlook y hyb] at hY
    exact hI.sentDet x X hX y hy Y hY
  · intro y Y hY hack
    by_cases hyb : y = b
    · subst hyb; rw [hlookb] at hY; cases hY; cases hack
    · rw [hlook y hyb] at hY; exact hI.ackedDet y Y hY hack
  · intro x X' hx y hst Y hY
    obtain ⟨X, hX, hsd, -, -⟩ := hold x X' hx
    rw [hsd] at hst
    have hyb : y ≠ b := hne x X hX y (sender_mem_pipe (ackState_batch hst))
    rw [hlook y hyb] at hY
    exact hI.senderAcked x X hX y hst Y hY
  · intro y Y hY hd
    by_cases hyb : y = b
    · subst hyb; rw [hlookb] at hY; cases hY; cases hd
    · rw [hlook y hyb] at hY; exact hI.doneAcked y Y hY hd
  · intro y Y hY hack
    by_cases hyb : y = b
    · subst hyb; rw [hlookb] at hY; cases hY; cases hack
    · rw [hlook y hyb] at hY
      rcases hI.ackedWhere y Y hY hack with hd | ⟨X, hX, hst⟩
      · exact Or.inl hd
      · right
        by_cases hxp : Y.pw = pw
        · rw [hxp] at hX; rw [hP] at hX; cases hX
          exact ⟨{ P with curr := some b, nbatches := P.nbatches + 1 }, by rw [epws, hxp]; simp, hst⟩
        · exact ⟨X, by rw [epws, upd_other _ _ _ _ hxp]; exact hX, hst⟩
  · intro y Y hY hack m hm
    by_cases hyb : y = b
    · subst hyb; rw [hlookb] at hY; cases hY; cases hack
    · rw [hlook y hyb] at hY; rw [elog]; exact hI.ackedInLog y Y hY hack m hm

theorem invAck_detach {s s' : State} (hI : InvAck s) {pw b : Nat} {P : PW} {B : Batch} {why : Why}
    (hP : s.pws pw = some P) (hB : s.batches b = some B) (hc : P.curr = some b) (hpend : P.pending = none)
    (epws : s'.pws = upd s.pws pw (some { P with curr := none, pending := some b }))
    (ebat : s'.batches = upd s.batches b (some { B with detached := some why }))
    (elog : s'.log = s.log) : InvAck s' := by
  have hpipe : ({ P with curr := none, pending := some b } : PW).pipe = P.pipe := by simp [PW.pipe, hc, hpend]
  have hsent : ({ P with curr := none, pending := some b } : PW).sent = P.sent ++ [b] := by simp [PW.sent, hpend]
  have hold : ∀ x X', s'.pws x = some X' → ∃ X, s.pws x = some X ∧ X'.sender = X.sender ∧ X'.pipe = X.pipe ∧
      (X'.sent = X.sent ∨ X'.sent = X.sent ++ [b]) := by
    intro x X' hx
    rw [epws] at hx
    rcases upd_some_elim hx with ⟨rfl, rfl⟩ | ⟨-, h⟩
    · exact ⟨P, hP, rfl, hpipe, Or.inr hsent⟩
    · exact ⟨X', h, rfl, rfl, Or.inl rfl⟩
  -- the new version of every batch: same as before except that b is now detached
  have hbat : ∀ y Y', s'.batches y = some Y' → ∃ Y, s.batches y = some Y ∧ Y'.msgs = Y.msgs ∧ Y'.tp = Y.tp ∧ Y'.pw = Y.pw ∧
      Y'.done = Y.done ∧ Y'.acked = Y.acked ∧ (Y.detached.isSome = true ∨ y = b → Y'.detached.isSome = true) := by
    intro y Y' hy
    rw [ebat] at hy
    rcases upd_some_elim hy with ⟨rfl, rfl⟩ | ⟨hne, h⟩
    · exact ⟨B, hB, rfl, rfl, rfl, rfl, rfl, fun _ => rfl⟩
    · exact ⟨Y', h, rfl, rfl, rfl, rfl, rfl, fun h => h.elim id (fun e => absurd e hne)⟩
  constructor
  · intro x X' hx y hy Y' hY'
    obtain ⟨X, hX, -, hp, -⟩ := hold x X' hx
    obtain ⟨Y, hY, -, -, -, hd, -⟩ := hbat y Y' hY'
    rw [hd]; exact hI.pipeLive x X hX y (hp ▸ hy) Y hY
  · intro x X' hx y hy Y' hY'
    obtain ⟨X, hX, -, -, hs⟩ := hold x X' hx
    obtain ⟨Y, hY, -, -, -, -, -, hdet⟩ := hbat y Y' hY'
    by_cases hyb : y = b
    · exact hdet (Or.inr hyb)
    · have hy' : y ∈ X.sent := by
        rcases hs with e | e
        · exact e ▸ hy
        · rw [e] at hy
          rcases List.mem_append.mp hy with h | h
          · exact h
          · simp at h; exact absurd h hyb
      exact hdet (Or.inl (hI.sentDet x X hX y hy' Y hY))
  · intro y Y' hY' hack
    obtain ⟨Y, hY, -, -, -, -, ha, hdet⟩ := hbat y Y' hY'
    exact hdet (Or.inl (hI.ackedDet y Y hY (ha ▸ hack)))
  · intro x X' hx y hst Y' hY'
    obtain ⟨X, hX, hsd, -, -⟩ := hold x X' hx
    obtain ⟨Y, hY, -, -, -, -, ha, -⟩ := hbat y Y' hY'
    rw [ha]; exact hI.senderAcked x X hX y (hsd ▸ hst) Y hY
  · intro y Y' hY' hd
    obtain ⟨Y, hY, -, -, -, hd', ha, -⟩ := hbat y Y' hY'
    rw [ha]; exact hI.doneAcked y Y hY (hd' ▸ hd)
  · intro y Y' hY' hack
    obtain ⟨Y, hY, -, -, hpw, hd', ha, -⟩ := hbat y Y' hY'
    rcases hI.ackedWhere y Y hY (ha ▸ hack) with hd | ⟨X, hX, hst⟩
    · left; rw [hd']; exact hd
    · right
      rw [hpw]
      by_cases hxp : Y.pw = pw
      · rw [hxp] at hX; rw [hP] at hX; cases hX
        exact ⟨{ P with curr := none, pending := some b }, by rw [epws, hxp]; simp, hst⟩
      · exact ⟨X, by rw [epws, upd_other _ _ _ _ hxp]; exact hX, hst⟩
  · intro y Y' hY' hack m hm
    obtain ⟨Y, hY, hmsgs, htp, -, -, ha, -⟩ := hbat y Y' hY'
    rw [elog, htp]; exact hI.ackedInLog y Y hY (ha ▸ hack) m (hmsgs ▸ hm)

theorem sender_mem_sent {P : PW} {b : Nat} (h : P.sender.batch? = some b) : b ∈ P.sent := by
  simp [PW.sent, h]

/-- while an attempt is in flight without an answer, the batch has not been acknowledged before -/
theorem not_acked_in_flight {s : State} (hI : InvAck s) {pw b k : Nat} {P : PW} {B : Batch}
    (hP : s.pws pw = some P) (hB : s.batches b = some B) (hsend : P.sender = .attempting b k none) (hBpw : B.pw = pw) :
    B.acked = false := by
  cases h : B.acked with
  | false => rfl
  | true =>
    rcases hI.ackedWhere b B hB h with hd | ⟨P0, hP0, hst⟩
    · have := hI.pipeLive pw P hP b (sender_mem_pipe (by rw [hsend]; rfl)) B hB
      rw [this] at hd; cases hd
    · rw [hBpw, hP] at hP0; cases hP0
      rw [hsend] at hst
      rcases hst with ⟨k', hk⟩ | ⟨cb, hk⟩ <;> cases hk

theorem invAck_produce {s s' : State} (hI : InvAck s) {pw b k : Nat} {P : PW} {B : Batch} {tp : TP} {out : BrOut}
    (hP : s.pws pw = some P) (hB : s.batches b = some B) (hsend : P.sender = .attempting b k none)
    (hBpw : B.pw = pw) (hBtp : B.tp = tp)
    (epws : s'.pws = upd s.pws pw (some { P with sender := .attempting b k (some out) }))
    (ebat : s'.batches = upd s.batches b (some (B.noteProduce out)))
    (hlogmono : ∀ t e, e ∈ s.log t → e ∈ s'.log t)
    (hlogent : out = .acked → ∀ x ∈ mkEntries pw b B, x ∈ s'.log tp) : InvAck s' := by
  have hna := not_acked_in_flight hI hP hB hsend hBpw
  have hpipe : ({ P with sender := .attempting b k (some out) } : PW).pipe = P.pipe := by
    simp [PW.pipe, hsend, Sender.batch?]
  have hsent : ({ P with sender := .attempting b k (some out) } : PW).sent = P.sent := by
    simp [PW.sent, hsend, Sender.batch?]
  have hbpipe : b ∈ P.pipe := sender_mem_pipe (by rw [hsend]; rfl)
  have hbsent : b ∈ P.sent := sender_mem_sent (by rw [hsend]; rfl)
  have hold : ∀ x X', s'.pws x = some X' → ∃ X, s.pws x = some X ∧ X'.pipe = X.pipe ∧ X'.sent = X.sent ∧
      ((x = pw ∧ X = P ∧ X'.sender = .attempting b k (some out)) ∨ (x ≠ pw ∧ X' = X)) := by
    intro x X' hx
    rw [epws] at hx
    rcases upd_some_elim hx with ⟨rfl, rfl⟩ | ⟨hne, h⟩
    · exact ⟨P, hP, hpipe, hsent, Or.inl ⟨rfl, rfl, rfl⟩⟩
    · exact ⟨X', h, rfl, rfl, Or.inr ⟨hne, rfl⟩⟩
  have hbat : ∀ y Y', s'.batches y = some Y' → ∃ Y, s.batches y = some Y ∧ Y'.msgs = Y.msgs ∧ Y'.tp = Y.tp ∧ Y'.pw = Y.pw ∧
      Y'.done = Y.done ∧ Y'.detached = Y.detached ∧
      ((y = b ∧ Y = B ∧ Y'.acked = (out == .acked)) ∨ (y ≠ b ∧ Y' = Y)) := by
    intro y Y' hy
    rw [ebat] at hy
    rcases upd_some_elim hy with ⟨rfl, rfl⟩ | ⟨hne, h⟩
    · exact ⟨B, hB, rfl, rfl, rfl, rfl, rfl, Or.inl ⟨rfl, rfl, by simp [Batch.noteProduce, hna]⟩⟩
    · exact ⟨Y', h, rfl, rfl, rfl, rfl, rfl, Or.inr ⟨hne, rfl⟩⟩
  have hout : ∀ {o : BrOut}, (o == BrOut.acked) = true → o = .acked := by
    intro o h; cases o <;> simp_all
  constructor
  · intro x X' hx y hy Y' hY'
    obtain ⟨X, hX, hp, -, -⟩ := hold x X' hx
    obtain ⟨Y, hY, -, -, -, hd, -⟩ := hbat y Y' hY'
    rw [hd]; exact hI.pipeLive x X hX y (hp ▸ hy) Y hY
  · intro x X' hx y hy Y' hY'
    obtain ⟨X, hX, -, hs, -⟩ := hold x X' hx
    obtain ⟨Y, hY, -, -, -, -, hdet, -⟩ := hbat y Y' hY'
    rw [hdet]; exact hI.sentDet x X hX y (hs ▸ hy) Y hY
  · intro y Y' hY' hack
    obtain ⟨Y, hY, -, -, -, -, hdet, hc⟩ := hbat y Y' hY'
    rw [hdet]
    rcases hc with ⟨rfl, rfl, -⟩ | ⟨-, rfl⟩
    · exact hI.sentDet pw P hP y hbsent Y hB
    · exact hI.ackedDet y Y' hY hack
  · intro x X' hx y hst Y' hY'
    obtain ⟨X, hX, -, -, hc⟩ := hold x X' hx
    obtain ⟨Y, hY, -, -, -, -, -, hcb⟩ := hbat y Y' hY'
    rcases hc with ⟨rfl, rfl, hsd⟩ | ⟨hne, rfl⟩
    · rw [hsd] at hst
      rcases hst with ⟨k', hk⟩ | ⟨cb, hk⟩
      · cases hk
        rcases hcb with ⟨-, -, ha⟩ | ⟨hne, -⟩
        · rw [ha]; rfl
        · exact absurd rfl hne
      · cases hk
    · have := hI.senderAcked x X' hX y hst Y hY
      rcases hcb with ⟨rfl, rfl, -⟩ | ⟨-, rfl⟩
      · rw [hna] at this; cases this
      · exact this
  · intro y Y' hY' hd
    obtain ⟨Y, hY, -, -, -, hd', -, hcb⟩ := hbat y Y' hY'
    rcases hcb with ⟨rfl, rfl, -⟩ | ⟨-, rfl⟩
    · have := hI.pipeLive pw P hP y hbpipe Y hB
      rw [hd', this] at hd; cases hd
    · exact hI.doneAcked y Y' hY hd
  · intro y Y' hY' hack
    obtain ⟨Y, hY, -, -, hpw, hd', -, hcb⟩ := hbat y Y' hY'
    rcases hcb with ⟨rfl, rfl, ha⟩ | ⟨hne, rfl⟩
    · right
      rw [ha] at hack
      have := hout hack
      subst this
      exact ⟨{ P with sender := .attempting y k (some .acked) }, by rw [hpw, hBpw, epws]; simp, Or.inl ⟨k, rfl⟩⟩
    · rcases hI.ackedWhere y Y' hY hack with hd | ⟨X, hX, hst⟩
      · exact Or.inl hd
      · right
        by_cases hxp : Y'.pw = pw
        · rw [hxp, hP] at hX; cases hX
          rw [hsend] at hst
          rcases hst with ⟨k', hk⟩ | ⟨cb, hk⟩ <;> cases hk
        · exact ⟨X, by rw [epws, upd_other _ _ _ _ hxp]; exact hX, hst⟩
  · intro y Y' hY' hack m hm
    obtain ⟨Y, hY, hmsgs, htp, -, -, -, hcb⟩ := hbat y Y' hY'
    rcases hcb with ⟨rfl, rfl, ha⟩ | ⟨hne, rfl⟩
    · rw [ha] at hack
      have := hout hack
      rw [htp, hBtp]
      rw [hmsgs] at hm
      refine ⟨{ msg := m.msg, seq := m.seq, batch := y, ord := Y.ord, pw := pw }, hlogent this _ ?_, rfl, rfl⟩
      exact List.mem_map.mpr ⟨m, hm, rfl⟩
    · obtain ⟨e, he, h1, h2⟩ := hI.ackedInLog y Y' hY hack m hm
      exact ⟨e, hlogmono _ _ he, h1, h2⟩

theorem invAck_complete {s s' : State} (hO : InvOrd s) (hI : InvAck s) {pw b : Nat} {P : PW} {B : Batch} {code : Code} {cb : Bool}
    (hP : s.pws pw = some P) (hB : s.batches b = some B) (hsend : P.sender = .finishing b code cb)
    (epws : s'.pws = upd s.pws pw (some { P with sender := .idle }))
    (ebat : s'.batches = upd s.batches b (some { B with done := some code }))
    (elog : s'.log = s.log) : InvAck s' := by
  have hhead : P.pipe = b :: ({ P with sender := .idle } : PW).pipe := by simp [PW.pipe, hsend, Sender.batch?]
  have hheadS : P.sent = b :: ({ P with sender := .idle } : PW).sent := by simp [PW.sent, hsend, Sender.batch?]
  have hbpipe : b ∈ P.pipe := sender_mem_pipe (by rw [hsend]; rfl)
  have hBpw : B.pw = pw := by
    obtain ⟨B0, hB0, h⟩ := hO.pipeEx pw P hP b hbpipe
    rw [hB] at hB0; cases hB0; exact h
  have hnotrest : b ∉ ({ P with sender := .idle } : PW).pipe := by
    have := hO.pipeNodup pw P hP
    rw [hhead] at this
    exact (List.nodup_cons.mp this).1
  have hnotin : ∀ x X, s.pws x = some X → x ≠ pw → b ∉ X.pipe := by
    intro x X hx hne hmem
    obtain ⟨B0, hB0, h⟩ := hO.pipeEx x X hx b hmem
    rw [hB] at hB0; cases hB0
    exact hne (h.symm.trans hBpw)
  have hold : ∀ x X', s'.pws x = some X' → ∃ X, s.pws x = some X ∧ b ∉ X'.pipe ∧ (∀ y ∈ X'.pipe, y ∈ X.pipe) ∧
      (∀ y ∈ X'.sent, y ∈ X.sent) ∧ ((x = pw ∧ X'.sender = .idle) ∨ (x ≠ pw ∧ X' = X)) := by
    intro x X' hx
    rw [epws] at hx
    rcases upd_some_elim hx with ⟨rfl, rfl⟩ | ⟨hne, h⟩
    · refine ⟨P, hP, hnotrest, ?_, ?_, Or.inl ⟨rfl, rfl⟩⟩
      · intro y hy; rw [hhead]; exact List.mem_cons_of_mem _ hy
      · intro y hy; rw [hheadS]; exact List.mem_cons_of_mem _ hy
    · exact ⟨X', h, hnotin x X' h hne, fun _ h => h, fun _ h => h, Or.inr ⟨hne, rfl⟩⟩
  have hbat : ∀ y Y', s'.batches y = some Y' → ∃ Y, s.batches y = some Y ∧ Y'.msgs = Y.msgs ∧ Y'.tp = Y.tp ∧ Y'.pw = Y.pw ∧
      Y'.acked = Y.acked ∧ Y'.detached = Y.detached ∧
      ((y = b ∧ Y = B ∧ Y'.done = some code) ∨ (y ≠ b ∧ Y' = Y)) := by
    intro y Y' hy
    rw [ebat] at hy
    rcases upd_some_elim hy with ⟨rfl, rfl⟩ | ⟨hne, h⟩
    · exact ⟨B, hB, rfl, rfl, rfl, rfl, rfl, Or.inl ⟨rfl, rfl, rfl⟩⟩
    · exact ⟨Y', h, rfl, rfl, rfl, rfl, rfl, Or.inr ⟨hne, rfl⟩⟩
  constructor
  · intro x X' hx y hy Y' hY'
    obtain ⟨X, hX, hnb, hsub, -, -⟩ := hold x X' hx
    obtain ⟨Y, hY, -, -, -, -, -, hc⟩ := hbat y Y' hY'
    rcases hc with ⟨rfl, -, -⟩ | ⟨-, rfl⟩
    · exact absurd hy hnb
    · exact hI.pipeLive x X hX y (hsub y hy) Y' hY
  · intro x X' hx y hy Y' hY'
    obtain ⟨X, hX, -, -, hsub, -⟩ := hold x X' hx
    obtain ⟨Y, hY, -, -, -, -, hdet, -⟩ := hbat y Y' hY'
    rw [hdet]; exact hI.sentDet x X hX y (hsub y hy) Y hY
  · intro y Y' hY' hack
    obtain ⟨Y, hY, -, -, -, ha, hdet, -⟩ := hbat y Y' hY'
    rw [hdet]; exact hI.ackedDet y Y hY (ha ▸ hack)
  · intro x X' hx y hst Y' hY'
    obtain ⟨X, hX, -, -, -, hc⟩ := hold x X' hx
    obtain ⟨Y, hY, -, -, -, ha, -, -⟩ := hbat y Y' hY'
    rcases hc with ⟨-, hsd⟩ | ⟨-, rfl⟩
    · rw [hsd] at hst; rcases hst with ⟨k', hk⟩ | ⟨cb', hk⟩ <;> cases hk
    · rw [ha]; exact hI.senderAcked x X' hX y hst Y hY
  · intro y Y' hY' hd
    obtain ⟨Y, hY, -, -, -, ha, -, hc⟩ := hbat y Y' hY'
    rw [ha]
    rcases hc with ⟨rfl, rfl, hd'⟩ | ⟨-, rfl⟩
    · rw [hd'] at hd; cases hd
      exact hI.senderAcked pw P hP y (by rw [hsend]; exact Or.inr ⟨cb, rfl⟩) Y hB
    · exact hI.doneAcked y Y' hY hd
  · intro y Y' hY' hack
    obtain ⟨Y, hY, -, -, hpw, ha, -, hc⟩ := hbat y Y' hY'
    rcases hc with ⟨rfl, rfl, hd'⟩ | ⟨hne, rfl⟩
    · left
      rcases hI.ackedWhere y Y hB (ha ▸ hack) with hd | ⟨P0, hP0, hst⟩
      · have := hI.pipeLive pw P hP y hbpipe Y hB
        rw [this] at hd; cases hd
      · rw [hBpw, hP] at hP0; cases hP0
        rw [hsend] at hst
        rcases hst with ⟨k', hk⟩ | ⟨cb', hk⟩
        · cases hk
        · cases hk; exact hd'
    · rcases hI.ackedWhere y Y' hY hack with hd | ⟨X, hX, hst⟩
      · exact Or.inl hd
      · right
        by_cases hxp : Y'.pw = pw
        · rw [hxp, hP] at hX; cases hX
          have := ackState_batch hst
          rw [hsend] at this
          simp [Sender.batch?] at this
          exact absurd this.symm hne
        · exact ⟨X, by rw [epws, upd_other _ _ _ _ hxp]; exact hX, hst⟩
  · intro y Y' hY' hack m hm
    obtain ⟨Y, hY, hmsgs, htp, -, ha, -, -⟩ := hbat y Y' hY'
    rw [elog, htp]; exact hI.ackedInLog y Y hY (ha ▸ hack) m (hmsgs ▸ hm)

theorem invAck_step (cfg : Cfg) (s : State) (e : Event) (s' : State) (hO : InvOrd s) (hI : InvAck s)
    (hs : step cfg s e = some s') : InvAck s' := by
  cases e with
  | qput q b acc =>
    simp only [step] at hs
    repeat' split at hs
    all_goals (first | (cases hs; done) | skip)
    rename_i _ pw hq _ P hP hg
    obtain ⟨hpend, hc, -⟩ := hg
    cases hs
    have hf := frame_pws_upd (P' := { P with pending := none, queue := enq P.queue b acc }) hP rfl
      (by cases acc <;> simp [PW.pipe, hc, hpend, enq]) (by cases acc <;> simp [PW.sent, hpend, enq])
      (fun _ h => h) (fun _ h => h)
    exact hI.of_frame hf.1 hf.2 frame_bat_id (fun _ _ h => h)
  | qget q ob =>
    simp only [step] at hs
    repeat' split at hs
    all_goals (first | (cases hs; done) | skip)
    · rename_i _ pw hq _ P hP _ b hg
      obtain ⟨hsend, hhead⟩ := hg
      cases hs
      have hq := head?_cons_tail hhead
      have ha := ackState_congr (σ := P.sender) (σ' := .ready b 0) (by simp [hsend]) (by simp) (by simp [hsend]) (by simp)
      have hf := frame_pws_upd (P' := { P with queue := P.queue.tail, sender := .ready b 0 }) hP rfl
        (by simp only [PW.pipe, hsend, Sender.batch?]; rw [hq]; simp)
        (by simp only [PW.sent, hsend, Sender.batch?]; rw [hq]; simp) ha.1 ha.2
      exact hI.of_frame hf.1 hf.2 frame_bat_id (fun _ _ h => h)
    · rename_i _ pw hq _ P hP _ hg
      obtain ⟨hsend, -, -⟩ := hg
      cases hs
      have ha := ackState_congr (σ := P.sender) (σ' := .exited) (by simp [hsend]) (by simp) (by simp [hsend]) (by simp)
      have hf := frame_pws_upd (P' := { P with sender := .exited }) hP rfl
        (by simp [PW.pipe, hsend, Sender.batch?]) (by simp [PW.sent, hsend, Sender.batch?]) ha.1 ha.2
      exact hI.of_frame hf.1 hf.2 frame_bat_id (fun _ _ h => h)
  | qclose q =>
    simp only [step] at hs
    repeat' split at hs
    all_goals (first | (cases hs; done) | skip)
    rename_i _ pw hq _ P hP hg
    cases hs
    have hf := frame_pws_upd (P' := { P with qclosed := true }) hP rfl (by simp [PW.pipe]) (by simp [PW.sent])
      (fun _ h => h) (fun _ h => h)
    exact hI.of_frame hf.1 hf.2 frame_bat_id (fun _ _ h => h)
  | timerFire pw b att =>
    simp only [step] at hs
    repeat' split at hs
    all_goals (first | (cases hs; done) | skip)
    rename_i _ P hP _ B hB hg
    cases hs
    exact hI.of_frame frame_pws_id.1 frame_pws_id.2
      (frame_bat_upd (B' := { B with timerFired := true }) hB rfl rfl rfl rfl rfl (fun h => h) (Or.inl rfl)) (fun _ _ h => h)
  | attempt pw b k =>
    simp only [step] at hs
    repeat' split at hs
    all_goals (first | (cases hs; done) | skip)
    rename_i _ P hP hg
    cases hs
    have ha : (∀ x, AckState (.attempting b k none) x → AckState P.sender x) ∧ (∀ x, AckState P.sender x → AckState (.attempting b k none) x) := by
      constructor
      · intro x hx; rcases hx with ⟨k', hk⟩ | ⟨cb, hk⟩ <;> cases hk
      · intro x hx; rw [hg.1] at hx; rcases hx with ⟨k', hk⟩ | ⟨cb, hk⟩ <;> cases hk
    have hf := frame_pws_upd (P' := { P with sender := .attempting b k none }) hP rfl
      (by simp [PW.pipe, hg.1, Sender.batch?]) (by simp [PW.sent, hg.1, Sender.batch?]) ha.1 ha.2
    exact hI.of_frame hf.1 hf.2 frame_bat_id (fun _ _ h => h)
  | attemptDone pw b k code =>
    simp only [step] at hs
    repeat' split at hs
    all_goals (first | (cases hs; done) | skip)
    rename_i _ P hP _ b' k' br hsend hg
    obtain ⟨rfl, rfl, hcons⟩ := hg
    cases hs
    have hbq : (afterAttempt cfg b' k' code).batch? = some b' := by
      unfold afterAttempt
      split
      · rfl
      · split <;> rfl
    have ha : (∀ x, AckState (afterAttempt cfg b' k' code) x → AckState P.sender x) ∧
        (∀ x, AckState P.sender x → AckState (afterAttempt cfg b' k' code) x) := by
      constructor
      · intro x hx
        unfold afterAttempt at hx
        split at hx
        · rename_i hc0
          subst hc0
          have hbr : br = some .acked := by
            cases br with
            | none => simp [consistent] at hcons
            | some o =>
              cases o with
              | acked => rfl
              | lost a => simp [consistent] at hcons
              | rejected c => simp [consistent] at hcons; exact absurd hcons.1.symm hcons.2
          rcases hx with ⟨k, hk⟩ | ⟨cb, hk⟩
          · cases hk
          · cases hk; rw [hsend, hbr]; exact Or.inl ⟨k', rfl⟩
        · rename_i hc0
          split at hx
          · rcases hx with ⟨k, hk⟩ | ⟨cb, hk⟩ <;> cases hk
          · rcases hx with ⟨k, hk⟩ | ⟨cb, hk⟩
            · cases hk
            · cases hk; exact absurd rfl hc0
      · intro x hx
        rw [hsend] at hx
        rcases hx with ⟨k, hk⟩ | ⟨cb, hk⟩
        · cases hk
          have : code = 0 := by simpa [consistent] using hcons
          subst this
          simp only [afterAttempt, if_true]
          exact Or.inr ⟨false, rfl⟩
        · cases hk
    have hf := frame_pws_upd (P' := { P with sender := afterAttempt cfg b' k' code }) hP rfl
      (by simp only [PW.pipe]; rw [hbq, hsend]; simp [Sender.batch?])
      (by simp only [PW.sent]; rw [hbq, hsend]; simp [Sender.batch?]) ha.1 ha.2
    exact hI.of_frame hf.1 hf.2 frame_bat_id (fun _ _ h => h)
  | completion pw b code =>
    simp only [step] at hs
    repeat' split at hs
    all_goals (first | (cases hs; done) | skip)
    rename_i _ P hP _ B hB hg
    cases hs
    have ha : (∀ x, AckState (.finishing b code true) x → AckState P.sender x) ∧ (∀ x, AckState P.sender x → AckState (.finishing b code true) x) := by
      constructor
      · intro x hx; rw [hg.2]; rcases hx with ⟨k', hk⟩ | ⟨cb, hk⟩
        · cases hk
        · cases hk; exact Or.inr ⟨false, rfl⟩
      · intro x hx; rw [hg.2] at hx; rcases hx with ⟨k', hk⟩ | ⟨cb, hk⟩
        · cases hk
        · cases hk; exact Or.inr ⟨true, rfl⟩
    have hf := frame_pws_upd (P' := { P with sender := .finishing b code true }) hP rfl
      (by simp [PW.pipe, hg.2, Sender.batch?]) (by simp [PW.sent, hg.2, Sender.batch?]) ha.1 ha.2
    exact hI.of_frame hf.1 hf.2
      (frame_bat_upd (B' := { B with ncompl := B.ncompl + 1, cbCode := some code }) hB rfl rfl rfl rfl rfl (fun h => h) (Or.inl rfl))
      (fun _ _ h => h)
  | add pw b c i size =>
    simp only [step, stepAdd] at hs
    repeat' split at hs
    all_goals (first | (cases hs; done) | skip)
    rename_i _ P hP _ B hB _ C hC hg
    obtain ⟨-, -, -, -, -, hdet, -⟩ := hg
    cases hs
    have hna : B.acked = false := by
      cases h : B.acked with
      | false => rfl
      | true => have := hI.ackedDet b B hB h; rw [hdet] at this; cases this
    exact hI.of_frame frame_pws_id.1 frame_pws_id.2
      (frame_bat_upd (B' := B.push { msg := (c, i), size := size, seq := s.seq }) hB rfl rfl rfl rfl rfl (fun h => h)
        (Or.inr ⟨hna, _, rfl⟩)) (fun _ _ h => h)
  | newPW pw q tp =>
    simp only [step] at hs
    repeat' split at hs
    all_goals (first | (cases hs; done) | skip)
    rename_i hg
    obtain ⟨-, -, -, h2, -⟩ := hg
    have h2' : s.pws pw = none := by simpa using h2
    cases hs
    refine hI.of_frame ?_ ?_ frame_bat_id (fun _ _ h => h)
    · intro x X' hx
      rcases upd_some_elim hx with ⟨rfl, rfl⟩ | ⟨-, h⟩
      · left; simp [PW.new, PW.pipe, PW.sent, Sender.batch?]
      · exact Or.inr ⟨X', h, List.Sublist.refl _, List.Sublist.refl _, fun _ h => h⟩
    · intro x X hx
      have hne : x ≠ pw := by intro e; rw [e, h2'] at hx; cases hx
      exact ⟨X, by show upd s.pws pw _ x = _; rw [upd_other _ _ _ _ hne]; exact hx, fun _ h => h⟩
  | newBatch pw b =>
    simp only [step] at hs
    repeat' split at hs
    all_goals (first | (cases hs; done) | skip)
    rename_i _ P hP hg
    obtain ⟨-, hc, hpend, hb, -⟩ := hg
    cases hs
    exact invAck_newBatch hO hI hP hc hpend (by simpa using hb) rfl rfl rfl
  | detach pw b why size =>
    simp only [step, stepDetach] at hs
    repeat' split at hs
    all_goals (first | (cases hs; done) | skip)
    rename_i _ P hP _ B hB hg
    obtain ⟨hc, hpend, -, -⟩ := hg
    cases hs
    exact invAck_detach hI hP hB hc hpend rfl rfl rfl
  | produce pw tp msgs out =>
    simp only [step, stepProduce] at hs
    repeat' split at hs
    all_goals (first | (cases hs; done) | skip)
    rename_i _ P hP _ b k hsend _ B hB hg
    obtain ⟨hBpw, hBtp, -, -⟩ := hg
    cases hs
    refine invAck_produce hI hP hB hsend hBpw hBtp rfl rfl ?_ ?_
    · intro t e he
      rw [produced_log]
      split
      · by_cases ht : t = tp
        · subst ht; simp [he]
        · rw [upd_other _ _ _ _ ht]; exact he
      · exact he
    · intro ho x hx
      subst ho
      rw [produced_log]
      simp [BrOut.applied, hx]
  | complete pw b code =>
    simp only [step] at hs
    repeat' split at hs
    all_goals (first | (cases hs; done) | skip)
    rename_i _ P hP _ B hB hg
    cases hs
    exact invAck_complete hO hI hP hB hg rfl rfl rfl
  | _ =>
    simp only [step, stepReject, stepRet] at hs
    repeat' split at hs
    all_goals (first | (cases hs; done) | skip)
    all_goals (cases hs)
    all_goals exact hI.of_frame frame_pws_id.1 frame_pws_id.2 frame_bat_id (fun _ _ h => h)

/-- both invariants together, for every reachable state -/
theorem invOrdAck (cfg : Cfg) : ∀ s, Reachable cfg s → InvOrd s ∧ InvAck s :=
  invariant_of_step cfg (fun s => InvOrd s ∧ InvAck s) ⟨invOrd_init, invAck_init⟩
    (fun s e s' h hs => ⟨invOrd_step cfg s e s' h.1 hs, invAck_step cfg s e s' h.1 h.2 hs⟩)

theorem invAck (cfg : Cfg) (s : State) (hr : Reachable cfg s) : InvAck s := (invOrdAck cfg s hr).2

end KV.Writer
