/-
Lemmas/TransportConn.lean — a failed transport connection is absorbing: once `dead`, every later accepted event
leaves it dead and does not use it.
-/
import KafkaVerif.Model.TransportConnC17

namespace KV.TransportConn

theorem get_set_same {s : State} {c : Nat} {x : St} (st : St) (h : get s c = some x) : get (set s c st) c = some st := by
  induction s with
  | nil => simp [get] at h
  | cons hd tl ih =>
    obtain ⟨c', g, st'⟩ := hd
    unfold set
    by_cases hc : c' = c
    · simp [hc, get]
    · simp only [hc, ↓reduceIte, get]
      simp only [get, hc, ↓reduceIte] at h
      exact ih h

theorem get_set_other {s : State} {c d : Nat} (st : St) (h : c ≠ d) : get (set s c st) d = get s d := by
  induction s with
  | nil => rfl
  | cons hd tl ih =>
    obtain ⟨c', g, st'⟩ := hd
    unfold set
    by_cases hc : c' = c
    · subst hc
      simp [get, h]
    · simp only [hc, ↓reduceIte, get]
      by_cases hd' : c' = d
      · simp [hd']
      · simp [hd', ih]

theorem get_closeGroup {s : State} {g d : Nat} {st : St} (h : get s d = some st) (hi : st ≠ .idle) :
    get (closeGroup s g) d = some st := by
  induction s with
  | nil => simp [get] at h
  | cons hd tl ih =>
    obtain ⟨c', g', st'⟩ := hd
    simp only [closeGroup, List.map_cons]
    by_cases hc : c' = d
    · simp only [get, hc, ↓reduceIte, Option.some.injEq] at h
      subst h
      simp [hi, get, hc]
    · simp only [get, hc, ↓reduceIte] at h
      have := ih h
      simp only [closeGroup] at this
      split <;> simp [get, hc, this]

theorem move_spec {s s' : State} {c : Nat} {frm : List St} {to : St} (h : move s c frm to = some s') :
    ∃ st, get s c = some st ∧ frm.contains st = true ∧ s' = set s c to := by
  unfold move at h
  cases hg : get s c with
  | none => simp [hg] at h
  | some st =>
    simp only [hg] at h
    cases hf : frm.contains st with
    | true =>
      rw [hf] at h
      simp only [↓reduceIte, Option.some.injEq] at h
      exact ⟨st, rfl, hf, h.symm⟩
    | false => rw [hf] at h; simp at h

/-- a move on connection c' keeps a dead c dead, and if c' = c it can only be the exit -/
theorem dead_move {s s' : State} {c c' : Nat} {frm : List St} {to : St} (hd : dead s c)
    (h : move s c' frm to = some s') (hfrm : c' = c → (frm.contains .doneFail = false ∨ to = .exited) ∧ frm.contains .exited = false) :
    dead s' c ∧ (c' = c → frm.contains .doneFail = true) := by
  obtain ⟨st, hg, hf, rfl⟩ := move_spec h
  by_cases hc : c' = c
  · subst hc
    have hh := hfrm rfl
    rcases hd with hd | hd
    · rw [hd] at hg; cases hg
      rcases hh.1 with h1 | h1
      · rw [h1] at hf; cases hf
      · subst h1
        exact ⟨Or.inr (get_set_same _ hd), fun _ => hf⟩
    · rw [hd] at hg; cases hg
      rw [hh.2] at hf; cases hf
  · refine ⟨?_, fun e => absurd e hc⟩
    rcases hd with hd | hd
    · exact Or.inl (by rw [get_set_other _ hc]; exact hd)
    · exact Or.inr (by rw [get_set_other _ hc]; exact hd)

theorem beq_false_of_ne {a b : Nat} (h : a ≠ b) : (a == b) = false := by simp [h]

/-- THE absorbing lemma: a dead connection stays dead and is not used by any accepted event -/
theorem dead_step {f : TFacts} (hf : f.dropFailed = true) {s s' : State} {c : Nat} {e : Ev} (hd : dead s c) (h : step f s e = some s') :
    dead s' c ∧ uses c e = false := by
  cases e with
  | new c' g =>
    simp only [step] at h
    by_cases hc : c' = c
    · subst hc
      rcases hd with hd | hd <;> simp [hd] at h
    · split at h
      · cases h
      · cases h
        refine ⟨?_, by simp [uses, hc]⟩
        rcases hd with hd | hd
        · exact Or.inl (by simp [get, hc, hd])
        · exact Or.inr (by simp [get, hc, hd])
  | grab c' =>
    have := dead_move hd h (fun _ => ⟨Or.inl (by decide), by decide⟩)
    refine ⟨this.1, ?_⟩
    by_cases hc : c' = c
    · exact absurd (this.2 hc) (by decide)
    · simp [uses, hc]
  | recv c' =>
    have := dead_move hd h (fun _ => ⟨Or.inl (by decide), by decide⟩)
    refine ⟨this.1, ?_⟩
    by_cases hc : c' = c
    · exact absurd (this.2 hc) (by decide)
    · simp [uses, hc]
  | done c' ok nr =>
    have := dead_move hd h (fun _ => ⟨Or.inl (by decide), by decide⟩)
    refine ⟨this.1, ?_⟩
    by_cases hc : c' = c
    · exact absurd (this.2 hc) (by decide)
    · simp [uses, hc]
  | release c' kept =>
    cases kept with
    | true =>
      have h : move s c' [.doneOk, .fresh] .idle = some s' := by simpa [step, hf] using h
      have := dead_move hd h (fun _ => ⟨Or.inl (by decide), by decide⟩)
      refine ⟨this.1, ?_⟩
      by_cases hc : c' = c
      · exact absurd (this.2 hc) (by decide)
      · simp [uses, hc]
    | false =>
      have := dead_move hd h (fun _ => ⟨Or.inl (by decide), by decide⟩)
      refine ⟨this.1, ?_⟩
      by_cases hc : c' = c
      · exact absurd (this.2 hc) (by decide)
      · simp [uses, hc]
  | remove c' =>
    have := dead_move hd h (fun _ => ⟨Or.inl (by decide), by decide⟩)
    refine ⟨this.1, ?_⟩
    by_cases hc : c' = c
    · exact absurd (this.2 hc) (by decide)
    · simp [uses, hc]
  | closeIdle g =>
    simp only [step, Option.some.injEq] at h
    subst h
    refine ⟨?_, rfl⟩
    rcases hd with hd | hd
    · exact Or.inl (get_closeGroup hd (by decide))
    · exact Or.inr (get_closeGroup hd (by decide))
  | exit c' =>
    have h : move s c' [.doneFail, .closing] .exited = some s' := by simpa [step, hf] using h
    have := dead_move hd h (fun _ => ⟨Or.inr rfl, by decide⟩)
    exact ⟨this.1, rfl⟩

theorem dead_run {f : TFacts} (hf : f.dropFailed = true) {s s' : State} {c : Nat} (es : List Ev) (hd : dead s c) (h : run f s es = some s') :
    dead s' c ∧ ∀ e ∈ es, uses c e = false := by
  induction es generalizing s with
  | nil => simp only [run, Option.some.injEq] at h; subst h; exact ⟨hd, by simp⟩
  | cons e es ih =>
    simp only [run] at h
    cases hs : step f s e with
    | none => simp [hs] at h
    | some s1 =>
      simp only [hs] at h
      have h1 := dead_step hf hd hs
      have h2 := ih h1.1 h
      refine ⟨h2.1, ?_⟩
      intro e' he'
      rcases List.mem_cons.mp he' with rfl | hm
      · exact h1.2
      · exact h2.2 e' hm

theorem run_append {f : TFacts} {s : State} (a b : List Ev) : run f s (a ++ b) = (run f s a).bind (fun s1 => run f s1 b) := by
  induction a generalizing s with
  | nil => rfl
  | cons e es ih =>
    simp only [List.cons_append, run]
    cases step f s e with
    | none => rfl
    | some s1 => exact ih

end KV.TransportConn
