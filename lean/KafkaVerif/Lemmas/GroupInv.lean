/-
Lemmas/GroupInv.lean — the two inductive invariants of the group-run LTS:
`Inv1` (accounting: between generations every accounted function has run its exit section) and
`Inv2` (back-off obligation, member id at the error-delivery points, what `run` did before it exited).
-/
import KafkaVerif.Lemmas.GroupRun
namespace KV.Group

def PC.quiet : PC → Bool
  | .starting _ | .handing | .running | .closing _ | .waiting _ _ => false
  | _ => true

/-- between generations every accounted function of the last generation has run its exit section -/
def inv1P (pc : PC) (g : Gen) : Prop :=
  Gen.Inv g ∧ (pc.quiet = true → g.closed = true ∧ g.routines = 0) ∧
  (∀ ret r, pc = .waiting ret r → g.closed = true ∧ (r = 0 → g.routines = 0))

def Inv1 (s : St) : Prop := inv1P s.pc s.cur

theorem inv1_onCur {s : St} {c : Gen} (hi : Inv1 s) (ok : GenOK s.cur c) : Inv1 { s with cur := c } := by
  show inv1P s.pc c
  obtain ⟨h1, h2, h3⟩ := hi
  refine ⟨ok.inv h1, ?_, ?_⟩
  · intro hq
    have t := h2 hq
    have l := ok.routines_le t.1
    exact ⟨ok.closed_mono t.1, by omega⟩
  · intro ret r hp
    have t := h3 ret r hp
    have l := ok.routines_le t.1
    exact ⟨ok.closed_mono t.1, fun h0 => by have := t.2 h0; omega⟩

theorem returnsNow_quiet {s : St} {m : String} {e : Option Err} (h : returnsNow s m e = true) : s.pc.quiet = true := by
  unfold returnsNow at h
  simp only [Bool.or_eq_true, Bool.and_eq_true, beq_iff_eq] at h
  rcases h with h | ⟨⟨h | h, _⟩, _⟩ <;> rw [h] <;> rfl

theorem inv1P_live {p : PC} {g : Gen} (hp : p.quiet = false) (hw : ∀ ret r, p ≠ .waiting ret r) (hg : Gen.Inv g) :
    inv1P p g := by
  refine ⟨hg, ?_, ?_⟩
  · intro h; rw [hp] at h; cases h
  · intro ret r h; exact absurd h (hw ret r)

theorem inv1_step (c : Cfg) (s s' : St) (e : Ev) (hi : Inv1 s) (h : step c s e = some s') : Inv1 s' := by
  cases e <;> simp only [step] at h
  case nextGenRet m e =>
    split at h
    · rename_i hr
      have hq := hi.2.1 (returnsNow_quiet hr)
      have key : ∀ p : PC, p.quiet = true → ∀ s'' : St, s''.pc = p → s''.cur = s.cur → Inv1 s'' := by
        intro p hp s'' h1 h2
        refine ⟨by rw [h2]; exact hi.1, fun _ => by rw [h2]; exact hq, ?_⟩
        intro ret r hw; rw [← h1, hw] at hp; cases hp
      split at h <;> (cases h; exact key _ rfl _ rfl rfl)
    · cases h
  case hbCall g gid m => obtain ⟨c, ok, rfl⟩ := onCur_spec _ _ _ _ (genOK_hbCall gid m) h; exact inv1_onCur hi ok
  case hbRet g e => obtain ⟨c, ok, rfl⟩ := onCur_spec _ _ _ _ (genOK_hbRet e) h; exact inv1_onCur hi ok
  case hbExit g => obtain ⟨c, ok, rfl⟩ := onCur_spec _ _ _ _ genOK_hbExit h; exact inv1_onCur hi ok
  case watchCall g t => obtain ⟨c, ok, rfl⟩ := onCur_spec _ _ _ _ (genOK_watchCall t) h; exact inv1_onCur hi ok
  case watchParts g t n => obtain ⟨c, ok, rfl⟩ := onCur_spec _ _ _ _ (genOK_watchParts t n) h; exact inv1_onCur hi ok
  case watchErr g t e => obtain ⟨c, ok, rfl⟩ := onCur_spec _ _ _ _ (genOK_watchErr t e) h; exact inv1_onCur hi ok
  case watchExit g t => obtain ⟨c, ok, rfl⟩ := onCur_spec _ _ _ _ (genOK_watchExit t) h; exact inv1_onCur hi ok
  case fnExit g cbm l => obtain ⟨c, ok, rfl⟩ := onCur_spec _ _ _ _ (genOK_fnExit cbm l) h; exact inv1_onCur hi ok
  case gStart g acc =>
    split at h
    · split at h
      · rename_i k hpc
        have key : ∀ cg, GenOK s.cur cg → Inv1 { s with cur := cg, pc := if k + 1 == 1 + c.nWatch then .handing else .starting (k + 1) } := by
          intro cg ok
          have := (inv1_onCur hi ok).1
          split
          · exact inv1P_live rfl (fun _ _ => by simp) this
          · exact inv1P_live rfl (fun _ _ => by simp) this
        simp only [Option.map_eq_some_iff] at h
        obtain ⟨cg, hcg, rfl⟩ := h
        split at hcg
        · exact key cg (genOK_hbStart _ _ _ hcg)
        · exact key cg (genOK_watchStart _ _ _ hcg)
      · simp only [Option.map_eq_some_iff] at h
        obtain ⟨cg, hcg, rfl⟩ := h
        exact inv1_onCur hi (genOK_userStart _ _ _ hcg)
    · split at h
      · cases h; exact hi
      · cases h
  case uRet g acc =>
    split at h
    · obtain ⟨c, ok, rfl⟩ := onCur_spec _ _ _ _ (genOK_uRet acc) h; exact inv1_onCur hi ok
    · split at h
      · cases h; exact hi
      · cases h
  case uCtx g =>
    split at h
    · obtain ⟨c, ok, rfl⟩ := onCur_spec _ _ _ _ genOK_uCtx h; exact inv1_onCur hi ok
    · split at h
      · cases h; exact hi
      · cases h
  case gNew g gid m =>
    split at h
    · cases h; exact ⟨Gen.inv_fresh _ _, by simp [PC.quiet], by simp⟩
    · cases h
  case gClose g was r =>
    split at h
    · split at h
      · rename_i hc
        cases h
        simp at hc
        refine ⟨Gen.inv_closeBegin _ hi.1, by simp [PC.quiet], ?_⟩
        intro ret r hp
        simp at hp
        refine ⟨rfl, fun h0 => ?_⟩
        show s.cur.routines = 0
        omega
      · cases h
    · cases h
  case gClosed g =>
    split at h
    · split at h
      · rename_i ret r hpc hc
        cases h
        simp [Gen.closeCanReturn] at hc
        have hw := hi.2.2 _ _ hpc
        refine ⟨hi.1, fun _ => ⟨hw.1, ?_⟩, by simp⟩
        show s.cur.routines = 0
        rcases hc.2 with h0 | hj
        · exact hw.2 h0
        · exact (hi.1.joined_iff.mp hj).2.1
      · cases h
    · cases h
  all_goals (repeat' split at h)
  all_goals (first | cases h | skip)
  all_goals (try (simp_all [Inv1, inv1P, PC.quiet, afterLeave, coordFail]; done))
  all_goals (try (exact hi))
  all_goals (try (unfold coordFail afterLeave; (repeat' split) <;> simp_all [Inv1, inv1P, PC.quiet]; done))
  all_goals (try (unfold afterLeave; (repeat' split) <;> simp_all [Inv1, inv1P, PC.quiet]; done))

/-- program points at which a pending back-off obligation may exist -/
def PC.nb : PC → Bool
  | .coord _ lv => lv.isSome
  | .leaveP _ | .leaveCall _ | .delivering _ true | .backoffP _ | .exiting | .exited => true
  | _ => false

def PC.memberless : PC → Bool
  | .delivering _ true | .backoffP _ => true
  | _ => false

def PC.gone : PC → Bool
  | .exiting | .exited => true
  | _ => false

theorem returnsNow_plain {s : St} {m : String} {e : Option Err} (h : returnsNow s m e = true) :
    s.pc.nb = false ∧ s.pc.memberless = false ∧ s.pc.gone = false := by
  unfold returnsNow at h
  simp only [Bool.or_eq_true, Bool.and_eq_true, beq_iff_eq] at h
  rcases h with h | ⟨⟨h | h, _⟩, _⟩ <;> rw [h] <;> exact ⟨rfl, rfl, rfl⟩

structure Inv2 (c : Cfg) (s : St) : Prop where
  nb : s.needBackoff = true → s.pc.nb = true
  dm : s.pc.memberless = true → s.member = ""
  gone : s.pc.gone = true → ∃ b, s.exitWith = some (s.member, b)
  ex : ∀ m b, s.exitWith = some (m, b) →
    s.pc.gone = true ∧ (c.fixD9 = true → b = true ∨ m = "") ∧ (b = true → m = "" ∨ m ∈ s.left ∨ s.leaveFail = true)

theorem inv2_onCur {c : Cfg} {s : St} {g : Gen} (hi : Inv2 c s) : Inv2 c { s with cur := g } :=
  ⟨hi.nb, hi.dm, hi.gone, hi.ex⟩

theorem onCur_eq (s s' : St) (g : Nat) (f : Gen → Option Gen) (h : onCur s g f = some s') :
    ∃ cg, s' = { s with cur := cg } := by
  unfold onCur at h
  split at h
  · simp only [Option.map_eq_some_iff] at h
    obtain ⟨cg, _, rfl⟩ := h
    exact ⟨cg, rfl⟩
  · cases h

theorem inv2_step (c : Cfg) (s s' : St) (e : Ev) (hi : Inv2 c s) (h : step c s e = some s') : Inv2 c s' := by
  cases e <;> simp only [step] at h
  case nextGenRet m e =>
    split at h
    · rename_i hr
      obtain ⟨p1, _, p3⟩ := returnsNow_plain hr
      have hnb : s.needBackoff = false := by
        cases hb : s.needBackoff with
        | false => rfl
        | true => have := hi.nb hb; rw [p1] at this; cases this
      have hex : s.exitWith = none := by
        cases hx : s.exitWith with
        | none => rfl
        | some mb => have := (hi.ex mb.1 mb.2 (by rw [hx])).1; rw [p3] at this; cases this
      split at h <;> cases h
      · exact ⟨by simp [hnb], by simp [PC.memberless], by simp [PC.gone], by simp [hex]⟩
      · exact ⟨by simp [hnb], by simp [PC.memberless], by simp [PC.gone], by simp [hex]⟩
      · exact ⟨by simp [hnb], by simp [PC.memberless], by simp [PC.gone], by simp [hex]⟩
      · exact ⟨by simp [PC.nb], by simp [PC.memberless], by simp [PC.gone], by simp [hex]⟩
    · cases h
  case hbCall g gid m => obtain ⟨cg, rfl⟩ := onCur_eq _ _ _ _ h; exact inv2_onCur hi
  case hbRet g e => obtain ⟨cg, rfl⟩ := onCur_eq _ _ _ _ h; exact inv2_onCur hi
  case hbExit g => obtain ⟨cg, rfl⟩ := onCur_eq _ _ _ _ h; exact inv2_onCur hi
  case watchCall g t => obtain ⟨cg, rfl⟩ := onCur_eq _ _ _ _ h; exact inv2_onCur hi
  case watchParts g t n => obtain ⟨cg, rfl⟩ := onCur_eq _ _ _ _ h; exact inv2_onCur hi
  case watchErr g t e => obtain ⟨cg, rfl⟩ := onCur_eq _ _ _ _ h; exact inv2_onCur hi
  case watchExit g t => obtain ⟨cg, rfl⟩ := onCur_eq _ _ _ _ h; exact inv2_onCur hi
  case fnExit g cbm l => obtain ⟨cg, rfl⟩ := onCur_eq _ _ _ _ h; exact inv2_onCur hi
  case uRet g acc =>
    split at h
    · obtain ⟨cg, rfl⟩ := onCur_eq _ _ _ _ h; exact inv2_onCur hi
    · split at h
      · cases h; exact ⟨hi.nb, hi.dm, hi.gone, hi.ex⟩
      · cases h
  case uCtx g =>
    split at h
    · obtain ⟨cg, rfl⟩ := onCur_eq _ _ _ _ h; exact inv2_onCur hi
    · split at h
      · cases h; exact hi
      · cases h
  case gStart g acc =>
    split at h
    · split at h
      · rename_i k hpc
        simp only [Option.map_eq_some_iff] at h
        obtain ⟨cg, hcg, rfl⟩ := h
        have h1 := hi.nb; have h2 := hi.dm; have h3 := hi.gone; have h4 := hi.ex
        rw [hpc] at h1 h2 h3
        refine ⟨?_, ?_, ?_, ?_⟩
        · intro hb; have := h1 hb; simp [PC.nb] at this
        · intro hm; split at hm <;> simp [PC.memberless] at hm
        · intro hm; split at hm <;> simp [PC.gone] at hm
        · intro m b hx; have := (h4 m b hx).1; rw [hpc] at this; simp [PC.gone] at this
      · simp only [Option.map_eq_some_iff] at h
        obtain ⟨cg, hcg, rfl⟩ := h
        exact inv2_onCur hi
    · split at h
      · cases h; exact ⟨hi.nb, hi.dm, hi.gone, hi.ex⟩
      · cases h
  all_goals (repeat' split at h)
  all_goals (first | cases h | skip)
  all_goals (try (exact hi))
  all_goals (try (exact ⟨hi.nb, hi.dm, hi.gone, hi.ex⟩))
  all_goals (obtain ⟨h1, h2, h3, h4⟩ := hi)
  all_goals (try (refine ⟨?_, ?_, ?_, ?_⟩ <;> simp_all [PC.nb, PC.memberless, PC.gone, afterLeave, coordFail] <;> done))
  all_goals (try (unfold coordFail afterLeave; (repeat' split) <;> (refine ⟨?_, ?_, ?_, ?_⟩ <;> simp_all [PC.nb, PC.memberless, PC.gone] <;> done)))
  all_goals (try (unfold afterLeave; (repeat' split) <;> (refine ⟨?_, ?_, ?_, ?_⟩ <;> simp_all [PC.nb, PC.memberless, PC.gone] <;> done)))

theorem inv1_init : Inv1 {} := by
  refine ⟨⟨rfl, by simp [noGen], by simp [noGen]⟩, fun _ => ⟨rfl, rfl⟩, ?_⟩
  intro ret r h; cases h

theorem inv2_init (c : Cfg) : Inv2 c {} :=
  ⟨by simp, by simp [PC.memberless], by simp [PC.gone], by simp⟩

theorem inv1_reachable (c : Cfg) (s : St) (h : Reachable c s) : Inv1 s := by
  induction h with
  | init => exact inv1_init
  | step e _ hs ih => exact inv1_step c _ _ e ih hs

theorem inv2_reachable (c : Cfg) (s : St) (h : Reachable c s) : Inv2 c s := by
  induction h with
  | init => exact inv2_init c
  | step e _ hs ih => exact inv2_step c _ _ e ih hs

end KV.Group
