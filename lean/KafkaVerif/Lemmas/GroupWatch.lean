/-
Lemmas/GroupWatch.lean — one partition watcher per configured topic (invariant `Inv5`).
-/
import KafkaVerif.Lemmas.GroupHbAlive
namespace KV.Group

/-- every generation-function step except a watcher start keeps the number of watchers -/
def KeepsW (f : Gen → Option Gen) : Prop := ∀ g g', f g = some g' → g'.watchers.length = g.watchers.length

theorem start_w (g : Gen) : g.start.1.watchers = g.watchers := by unfold Gen.start; split <;> rfl
theorem bodyReturned_w (g : Gen) (a : Bool) : (g.bodyReturned a).watchers = g.watchers := by
  unfold Gen.bodyReturned; split <;> rfl
theorem setW_len (g : Gen) (t : Nat) (w : WProc) : (setW g t w).watchers.length = g.watchers.length := by simp [setW]
theorem fnExit_w (g g' : Gen) (h : g.fnExit = some g') : g'.watchers = g.watchers := by
  unfold Gen.fnExit at h
  split at h
  · cases h
  · split at h
    · cases h
    · cases h; rfl

theorem w_userStart (a : Bool) : KeepsW (gUserStart a) := by
  intro g g' h; unfold gUserStart at h; simp only at h
  split at h
  · cases h; split <;> simp [start_w]
  · cases h
theorem w_hbStart (a : Bool) : KeepsW (gHbStart a) := by
  intro g g' h; unfold gHbStart at h; simp only at h
  split at h
  · cases h; simp [start_w]
  · cases h
theorem w_watchStart (a : Bool) (g g' : Gen) (h : gWatchStart a g = some g') : g'.watchers.length = g.watchers.length + 1 := by
  unfold gWatchStart at h; simp only at h
  split at h
  · cases h; simp [start_w]
  · cases h
theorem w_hbCall (gid : Int) (m : String) : KeepsW (gHbCall gid m) := by
  intro g g' h; unfold gHbCall at h; split at h <;> first | (cases h; rfl) | cases h
theorem w_hbRet (e : Option Err) : KeepsW (gHbRet e) := by
  intro g g' h; unfold gHbRet at h; split at h <;> first | (cases h; rfl) | cases h
theorem w_hbExit : KeepsW gHbExit := by
  intro g g' h; unfold gHbExit at h; split at h <;> first | (cases h; simp [bodyReturned_w]) | cases h
theorem w_watchCall (t : Nat) : KeepsW (gWatchCall t) := by
  intro g g' h; unfold gWatchCall at h
  split at h <;> first | (cases h; exact setW_len _ _ _) | cases h
theorem w_watchParts (t n : Nat) : KeepsW (gWatchParts t n) := by
  intro g g' h; unfold gWatchParts at h
  split at h <;> first | (cases h; exact setW_len _ _ _) | cases h
theorem w_watchErr (t : Nat) (e : Err) : KeepsW (gWatchErr t e) := by
  intro g g' h; unfold gWatchErr at h
  split at h
  · cases h; exact setW_len _ _ _
  · split at h
    · cases h; exact setW_len _ _ _
    · split at h <;> (cases h; exact setW_len _ _ _)
  · cases h
theorem w_watchExit (t : Nat) : KeepsW (gWatchExit t) := by
  intro g g' h; unfold gWatchExit at h
  split at h
  · cases h; rw [setW_len, bodyReturned_w]
  · split at h
    · cases h; rw [setW_len, bodyReturned_w]
    · cases h
  · cases h
theorem w_fnExit (c : Bool) (l : Nat) : KeepsW (gFnExit c l) := by
  intro g g' h; unfold gFnExit at h
  split at h
  · rw [fnExit_w g g' h]
  · cases h
theorem w_uRet (a : Bool) : KeepsW (gURet a) := by
  intro g g' h; unfold gURet at h
  split at h
  · split at h
    · cases h; simp [bodyReturned_w]
    · cases h
  · split at h
    · cases h; rfl
    · cases h
theorem w_uCtx : KeepsW gUCtx := by
  intro g g' h; unfold gUCtx at h; split at h <;> first | (cases h; rfl) | cases h

/-- how many watchers the current generation has, by program point: `k - 1` after `k ≥ 1` internal starts, all
`nWatch` (one per configured topic) once the generation waits for hand-over -/
def inv5P (c : Cfg) (pc : PC) (g : Gen) : Prop :=
  match pc with
  | .starting k => g.watchers.length + 1 = k ∨ (k = 0 ∧ g.watchers.length = 0)
  | .handing | .running | .closing _ | .waiting _ _ => g.watchers.length = c.nWatch
  | _ => True

def Inv5 (c : Cfg) (s : St) : Prop := inv5P c s.pc s.cur

theorem inv5_onCur (c : Cfg) (s s' : St) (g : Nat) (f : Gen → Option Gen) (hf : KeepsW f) (hi : Inv5 c s)
    (h : onCur s g f = some s') : Inv5 c s' := by
  unfold onCur at h
  split at h
  · simp only [Option.map_eq_some_iff] at h
    obtain ⟨cg, hcg, rfl⟩ := h
    have hl := hf _ _ hcg
    unfold Inv5 inv5P at hi ⊢
    simp only
    split <;> simp_all
  · cases h

theorem inv5_step (c : Cfg) (s s' : St) (e : Ev) (hi : Inv5 c s) (h : step c s e = some s') : Inv5 c s' := by
  cases e <;> simp only [step] at h
  case hbCall g gid m => exact inv5_onCur c _ _ _ _ (w_hbCall gid m) hi h
  case hbRet g e => exact inv5_onCur c _ _ _ _ (w_hbRet e) hi h
  case hbExit g => exact inv5_onCur c _ _ _ _ w_hbExit hi h
  case watchCall g t => exact inv5_onCur c _ _ _ _ (w_watchCall t) hi h
  case watchParts g t n => exact inv5_onCur c _ _ _ _ (w_watchParts t n) hi h
  case watchErr g t e => exact inv5_onCur c _ _ _ _ (w_watchErr t e) hi h
  case watchExit g t => exact inv5_onCur c _ _ _ _ (w_watchExit t) hi h
  case fnExit g cbm l => exact inv5_onCur c _ _ _ _ (w_fnExit cbm l) hi h
  case uRet g acc =>
    split at h
    · exact inv5_onCur c _ _ _ _ (w_uRet acc) hi h
    · split at h
      · cases h; exact hi
      · cases h
  case uCtx g =>
    split at h
    · exact inv5_onCur c _ _ _ _ w_uCtx hi h
    · split at h
      · cases h; exact hi
      · cases h
  case gStart g acc =>
    split at h
    · split at h
      · rename_i k hpc
        simp only [Option.map_eq_some_iff] at h
        obtain ⟨cg, hcg, rfl⟩ := h
        unfold Inv5 inv5P at hi
        rw [hpc] at hi
        simp only at hi
        show inv5P c (if k + 1 == 1 + c.nWatch then PC.handing else PC.starting (k + 1)) cg
        split at hcg
        · rename_i hk
          have hk0 : k = 0 := by simpa using hk
          have hl := w_hbStart acc _ _ hcg
          subst hk0
          have h0 : s.cur.watchers.length = 0 := by rcases hi with h | h; omega; exact h.2
          split
          · rename_i hh; simp at hh; unfold inv5P; simp only; omega
          · unfold inv5P; simp only; left; omega
        · rename_i hk
          have hk0 : k ≠ 0 := by simpa using hk
          have hl := w_watchStart acc _ _ hcg
          have hw : s.cur.watchers.length + 1 = k := by rcases hi with h | h; exact h; exact absurd h.1 hk0
          split
          · rename_i hh; simp at hh; unfold inv5P; simp only; omega
          · unfold inv5P; simp only; left; omega
      · simp only [Option.map_eq_some_iff] at h
        obtain ⟨cg, hcg, rfl⟩ := h
        have hl := w_userStart acc _ _ hcg
        unfold Inv5 inv5P at hi ⊢
        simp only
        split <;> simp_all
    · split at h
      · cases h; exact hi
      · cases h
  case gNew g gid m =>
    split at h
    · cases h; unfold Inv5 inv5P; simp
    · cases h
  case gClose g was r =>
    split at h
    · split at h
      · rename_i hpc _
        cases h
        unfold Inv5 inv5P at hi ⊢
        rw [hpc] at hi
        simpa [Gen.closeBegin] using hi
      · cases h
    · cases h
  case nextGenRet m e =>
    split at h
    · split at h <;> (cases h; unfold Inv5 inv5P; simp)
    · cases h
  all_goals (repeat' split at h)
  all_goals (first | cases h | skip)
  all_goals (try (exact hi))
  all_goals (try (unfold Inv5 inv5P at hi ⊢; simp_all; done))
  all_goals (try (unfold coordFail afterLeave; (repeat' split) <;> (unfold Inv5 inv5P at hi ⊢; simp_all); done))
  all_goals (try (unfold afterLeave; (repeat' split) <;> (unfold Inv5 inv5P at hi ⊢; simp_all); done))

theorem inv5_reachable (c : Cfg) (s : St) (h : Reachable c s) : Inv5 c s := by
  induction h with
  | init => unfold Inv5 inv5P; simp
  | step e _ hs ih => exact inv5_step c _ _ e ih hs

end KV.Group
