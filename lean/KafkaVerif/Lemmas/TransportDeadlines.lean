/-
Lemmas/TransportDeadlines.lean — a connection serving a request the broker never answers gets out iff the request's
context is bounded (Model/TransportDeadlines.lean).
-/
import KafkaVerif.Model.TransportDeadlines
import KafkaVerif.Lemmas.TransportLife
namespace KV.TransportConn

/-- **bounded ⇒ the connection is reclaimed**: a connection serving a request under a bounded context fails at the
deadline and then exits (its network connection is closed), whatever the broker does -/
theorem serving_bounded_exits (f : TFacts) (bounded : Nat → Bool) (s : State) (c : Nat) (hs : get s c = some .serving)
    (hb : bounded c = true) :
    ∃ s1 s2, stepSilentT f bounded s (.done c false false) = some s1 ∧ stepSilentT f bounded s1 (.exit c) = some s2 ∧
      get s2 c = some .exited := by
  have h1 : step f s (.done c false false) = some (set s c .doneFail) := by
    simp [step, move, hs]
  have hg1 : get (set s c .doneFail) c = some .doneFail := by
    rw [get_set]; simp [hs]
  have h2 : step f (set s c .doneFail) (.exit c) = some (set (set s c .doneFail) c .exited) := by
    cases hd : f.dropFailed <;> simp [step, move, hg1, hd]
  refine ⟨set s c .doneFail, set (set s c .doneFail) c .exited, by simp [stepSilentT, hb, h1], by simpa [stepSilentT] using h2, ?_⟩
  rw [get_set]; simp [hg1]

/-- **unbounded ⇒ stranded for ever**: a connection serving a request whose context has no deadline stays `serving`
under every event possible against a silent broker — the caller's cancellation is not an event of the connection,
`closeIdle` closes idle connections only, `exit` needs a finished exchange: goroutine and socket are never reclaimed -/
theorem serving_unbounded_stranded (f : TFacts) (bounded : Nat → Bool) (s s' : State) (c : Nat) (e : Ev)
    (hs : get s c = some .serving) (hb : bounded c = false) (h : stepSilentT f bounded s e = some s') :
    get s' c = some .serving := by
  by_cases hc : connOf e = some c
  · exfalso
    cases e <;> simp [connOf] at hc
    all_goals (try subst hc)
    case new c' g => simp [stepSilentT, step, hs] at h
    case grab c' => simp [stepSilentT, step, move, hs] at h
    case recv c' => simp [stepSilentT, step, move, hs] at h
    case done c' ok nr =>
      simp only [stepSilentT] at h
      split at h
      · cases h
      · simp [hb] at h
    case release c' k => cases k <;> cases hd : f.dropFailed <;> simp [stepSilentT, step, move, hs, hd] at h
    case remove c' => simp [stepSilentT, step, move, hs] at h
    case exit c' => cases hd : f.dropFailed <;> simp [stepSilentT, step, move, hs, hd] at h
  · have hstep : step f s e = some s' := by
      cases e
      case done c' ok nr =>
        simp only [stepSilentT] at h
        split at h
        · cases h
        · split at h
          · rename_i h1 _
            have : ok = false ∧ nr = false := by simpa using h1
            rw [this.1, this.2]; exact h
          · cases h
      all_goals exact h
    exact step_other f s s' e c .serving hstep hs (by decide) hc

end KV.TransportConn
