/-
Lemmas/BatchBytes.lean — conservation of bytes by every piece of Model/BatchBytes.lean.
-/
import KafkaVerif.Model.BatchBytes
import KafkaVerif.Lemmas.ConnOps

namespace KV.BatchBytes
open KV KV.Reader KV.ConnOps

theorem conserves_readHeader01 : Conserves readHeader01 := by
  unfold readHeader01
  refine conserves_bind (conserves_readInt 8) fun _ => conserves_bind (conserves_readInt 4) fun _ =>
    conserves_bind (conserves_readInt 4) fun _ => conserves_bind (conserves_readInt 1) fun magic => ?_
  split
  · exact conserves_bind (conserves_readInt 1) fun _ => conserves_pure _
  · split
    · exact conserves_bind (conserves_readInt 1) fun _ => conserves_bind (conserves_readInt 8) fun _ => conserves_pure _
    · exact conserves_throw _

theorem conserves_cbNew (n : Int) : Conserves (cbNew n) := conserves_readNewBytes n

theorem conserves_keyOfRead (n : Int) : Conserves (keyOfRead n) := by
  unfold keyOfRead
  split
  · exact conserves_pure _
  · exact conserves_bind (conserves_discardN n) fun _ => conserves_pure _

/-- the value callback of `Batch.Read` returns exactly the bytes it did not consume, for every buffer size -/
theorem conserves_valOfRead (cap : Nat) (n : Int) : Conserves (valOfRead cap n) := by
  intro s
  unfold valOfRead
  split
  · exact Adv.refl s
  · split
    · exact Adv.refl s
    · rename_i hn0 hnsz
      simp only
      split
      · refine ⟨s.inp, by simp, ?_⟩
        simp only; omega
      · rename_i hlen
        have hm : min n.toNat cap ≤ s.sz := by omega
        have h1 : Adv s ⟨s.inp.drop (min n.toNat cap), s.sz - min n.toNat cap⟩ := by
          refine ⟨s.inp.take (min n.toNat cap), take_append_drop' _ _, ?_⟩
          simp only [List.length_take]; omega
        have h2 := conserves_discardN (n - ↑(min n.toNat cap)) ⟨s.inp.drop (min n.toNat cap), s.sz - min n.toNat cap⟩
        cases hd : discardN (n - ↑(min n.toNat cap)) ⟨s.inp.drop (min n.toNat cap), s.sz - min n.toNat cap⟩ with
        | mk r s' =>
          rw [hd] at h2
          cases r <;> exact Adv.trans h1 h2

theorem conserves_readMsg {β : Type} (kcb : Int → R Bytes) (vcb : Int → R β)
    (hk : ∀ n, Conserves (kcb n)) (hv : ∀ n, Conserves (vcb n)) (min : Int) :
    ∀ (fuel : Nat) (pending : Option Hdr), Conserves (readMsg kcb vcb min fuel pending) := by
  intro fuel
  induction fuel with
  | zero => intro p; unfold readMsg; exact conserves_throw _
  | succ fuel ih =>
    intro p
    unfold readMsg
    refine conserves_bind ?_ fun h => ?_
    · cases p with
      | none => exact conserves_readHeader01
      | some h => exact conserves_pure h
    · split
      · exact conserves_throw _
      · split
        · exact conserves_bind (conserves_discardLen 4) fun _ => conserves_bind (conserves_discardLen 4) fun _ => ih none
        · exact conserves_bind (conserves_readLenWith 4 hk) fun _ =>
            conserves_bind (conserves_readLenWith 4 hv) fun _ => conserves_pure _

/-- `(*Batch).readMessage` moves the reader state forward only by consuming bytes (on every path: a message, the
drain after errShortRead, an error) -/
theorem batchReadMessage_adv {β : Type} (expired : Bool) (fuel : Nat) (kcb : Int → R Bytes) (vcb : Int → R β)
    (hk : ∀ n, Conserves (kcb n)) (hv : ∀ n, Conserves (vcb n)) (b : BSt) :
    Adv b.rs (batchReadMessage expired fuel kcb vcb b).2.rs ∧
    (batchReadMessage expired fuel kcb vcb b).2.hasMsgs = b.hasMsgs ∧
    (batchReadMessage expired fuel kcb vcb b).2.empty = b.empty := by
  unfold batchReadMessage
  split
  · exact ⟨Adv.refl _, rfl, rfl⟩
  · split
    · exact ⟨Adv.refl _, rfl, rfl⟩
    · have hm := conserves_readMsg kcb vcb hk hv b.offset fuel b.pending b.rs
      split
      · next h => rw [h] at hm; exact ⟨hm, rfl, rfl⟩
      · next rs' h =>
        rw [h] at hm
        have hd := conserves_discardN (↑rs'.sz) rs'
        split
        · next h2 => rw [h2] at hd; exact ⟨Adv.trans hm hd, rfl, rfl⟩
        · next h2 => rw [h2] at hd; exact ⟨Adv.trans hm hd, rfl, rfl⟩
      · next h => rw [h] at hm; exact ⟨hm, rfl, rfl⟩

theorem runOp_adv (expired : Bool) (fuel : Nat) (o : Op) (b : BSt) :
    Adv b.rs (runOp expired fuel o b).2.rs ∧ (runOp expired fuel o b).2.hasMsgs = b.hasMsgs ∧
    (runOp expired fuel o b).2.empty = b.empty := by
  cases o with
  | readMessage =>
    have h := batchReadMessage_adv expired fuel cbNew cbNew conserves_cbNew conserves_cbNew b
    simp only [runOp, batchMsg]
    split <;> (rename_i heq; rw [heq] at h; exact h)
  | read cap =>
    have h := batchReadMessage_adv expired fuel keyOfRead (valOfRead cap) conserves_keyOfRead (conserves_valOfRead cap) b
    simp only [runOp, batchRead]
    split
    · rename_i heq; rw [heq] at h; exact h
    · rename_i heq; rw [heq] at h
      split <;> exact h

theorem runOps_adv (expired : Bool) (fuel : Nat) : ∀ (ops : List Op) (b : BSt),
    Adv b.rs (runOps expired fuel ops b).2.rs ∧ (runOps expired fuel ops b).2.hasMsgs = b.hasMsgs ∧
    (runOps expired fuel ops b).2.empty = b.empty := by
  intro ops
  induction ops with
  | nil => intro b; exact ⟨Adv.refl _, rfl, rfl⟩
  | cons o os ih =>
    intro b
    have h1 := runOp_adv expired fuel o b
    have h2 := ih (runOp expired fuel o b).2
    simp only [runOps]
    exact ⟨Adv.trans h1.1 h2.1, by rw [h2.2.1, h1.2.1], by rw [h2.2.2, h1.2.2]⟩

/-- once `batch.err` is set nothing is read any more -/
theorem runOp_err_fixed (expired : Bool) (fuel : Nat) (o : Op) (b : BSt) (e : BErr) (he : b.err = some e) :
    (runOp expired fuel o b).2 = b := by
  cases o <;> simp [runOp, batchMsg, batchRead, batchReadMessage, he]

theorem runOps_err_fixed (expired : Bool) (fuel : Nat) : ∀ (ops : List Op) (b : BSt) (e : BErr), b.err = some e →
    (runOps expired fuel ops b).2 = b := by
  intro ops
  induction ops with
  | nil => intro b e _; rfl
  | cons o os ih =>
    intro b e he
    have h1 := runOp_err_fixed expired fuel o b e he
    simp only [runOps]
    rw [h1]; exact ih b e he

/-- the empty reader never touches the stream -/
theorem runOp_empty_rs (expired : Bool) (fuel : Nat) (o : Op) (b : BSt) (he : b.empty = true) :
    (runOp expired fuel o b).2.rs = b.rs := by
  cases o <;> simp only [runOp, batchMsg, batchRead, batchReadMessage] <;> cases b.err <;> simp [he]

theorem runOps_empty_rs (expired : Bool) (fuel : Nat) : ∀ (ops : List Op) (b : BSt), b.empty = true →
    (runOps expired fuel ops b).2.rs = b.rs := by
  intro ops
  induction ops with
  | nil => intro b _; rfl
  | cons o os ih =>
    intro b he
    simp only [runOps]
    have h1 := runOp_empty_rs expired fuel o b he
    have h2 := (runOp_adv expired fuel o b).2.2
    rw [ih _ (by rw [h2]; exact he), h1]

/-- a conn is kept after Close only for these values of `batch.err` -/
def keeps : Option BErr → Bool
  | none => true
  | some .eof => true
  | some (.kafka _) => true
  | some .shortBuffer => true
  | _ => false

theorem ofErr_discard_not_kept (e : Err) (h : ∀ k, e ≠ .kafka k) : keeps (some (ofErr e)) = false := by
  cases e <;> simp_all [ofErr, keeps]

/-- without a real reader to discard (`msgs == nil` or the `empty` reader) Close keeps the conn by the sticky error alone -/
theorem batchClose_kept_nodiscard (b : BSt) (h : (b.hasMsgs && !b.empty) = false) :
    (batchClose b).2.2 = keeps b.err := by
  unfold batchClose keeps
  simp only [h, Bool.false_eq_true, ↓reduceIte]
  cases b.err with
  | none => rfl
  | some e => cases e <;> rfl

theorem batchClose_rs (b : BSt) :
    (batchClose b).2.1 = if b.hasMsgs && !b.empty then (discardN b.rs.sz b.rs).2 else b.rs := by
  unfold batchClose
  simp only
  split <;> rfl

theorem discardN_err_not_kafka (n : Int) (s : RS) (e : Err) (h : (discardN n s).1 = .error e) : ∀ k, e ≠ .kafka k := by
  intro k hk; subst hk
  unfold discardN at h
  repeat' split at h
  all_goals simp at h

/-- a kept conn: the sticky error allows it AND the discard (if there was one) succeeded -/
theorem batchClose_kept_imp (b : BSt) (hk : (batchClose b).2.2 = true) :
    keeps b.err = true ∧ ((b.hasMsgs && !b.empty) = true → ∃ u, (discardN b.rs.sz b.rs).1 = .ok u) := by
  cases hd : (b.hasMsgs && !b.empty) with
  | false =>
    rw [batchClose_kept_nodiscard b hd] at hk
    exact ⟨hk, by intro h; cases h⟩
  | true =>
    unfold batchClose at hk
    simp only [hd, ↓reduceIte] at hk
    cases hr : (discardN (↑b.rs.sz) b.rs).1 with
    | ok u =>
      refine ⟨?_, fun _ => ⟨u, rfl⟩⟩
      simp only [hr] at hk
      unfold keeps
      cases hb : b.err with
      | none => rfl
      | some e => cases e <;> simp_all
    | error e =>
      simp only [hr] at hk
      have hnk := discardN_err_not_kafka _ _ e hr
      cases e <;> simp [ofErr] at hk
      exact absurd rfl (hnk _)

theorem ofErr_keeps (e : Err) (h : keeps (some (ofErr e)) = true) : ∃ k, e = .kafka k := by
  cases e <;> simp [ofErr, keeps] at h ⊢

end KV.BatchBytes
