/-
Lemmas/GroupRunMeasure.lean — a termination measure for the `run` goroutine of Model/GroupRun.lean (used by C09).
-/
import KafkaVerif.Model.GroupRun

namespace KV.Group

def After.base : After → Nat
  | .exit => 0
  | .deliver _ => 7

/-- position of the `run` goroutine inside one iteration of its loop (larger = earlier) -/
def rank (c : Cfg) : PC → Nat
  | .exited => 0
  | .exiting => 1
  | .leaveCall a => 2 + a.base
  | .coord k (some a) => 5 + a.base - min k 2
  | .leaveP a => 6 + a.base
  | .delivering _ _ => 8
  | .retp _ (some _) => 14
  | .waiting (some _) _ => 15
  | .closing (some _) => 16
  | .handing => 17
  | .starting k => 18 + (c.nWatch + 1 - k)
  | .created => c.nWatch + 20
  | .fetching => c.nWatch + 21
  | .syncing => c.nWatch + 22
  | .assigning => c.nWatch + 23
  | .joining => c.nWatch + 24
  | .coord k none => c.nWatch + 27 - min k 2
  | .backoffP true => c.nWatch + 28
  | .retp _ none => c.nWatch + 28
  | .backoffP false => c.nWatch + 29
  | .waiting none _ => c.nWatch + 29
  | .closing none => c.nWatch + 30
  | .running => c.nWatch + 31

/-- work left for the `run` goroutine: every hand-over to a `Next` call starts at most one more iteration -/
def runMu (c : Cfg) (s : St) : Nat := s.nextWaiting * (c.nWatch + 40) + rank c s.pc

theorem rank_lt (c : Cfg) (p : PC) : rank c p < c.nWatch + 40 := by
  cases p with
  | leaveCall a => cases a <;> simp [rank, After.base] <;> omega
  | leaveP a => cases a <;> simp [rank, After.base] <;> omega
  | coord k lv => cases lv with
    | none => simp only [rank]; omega
    | some a => cases a <;> simp only [rank, After.base] <;> omega
  | retp m e => cases e <;> simp only [rank] <;> omega
  | waiting e r => cases e <;> simp only [rank] <;> omega
  | closing e => cases e <;> simp only [rank] <;> omega
  | backoffP b => cases b <;> simp only [rank] <;> omega
  | _ => simp only [rank] <;> omega

/-- events of the `run` goroutine itself -/
def Ev.runLoop : Ev → Bool
  | .connectRes _ | .findRes _ | .joinOk .. | .joinErr .. | .partsRes _ | .syncRes .. | .fetchRes _ | .gNew ..
  | .sawClose .. | .handed _ | .sawGenDone _ | .gClose .. | .gClosed _ | .nextGenRet .. | .leave _ | .leaveRes ..
  | .errDeliver .. | .backoff _ | .runExit => true
  | _ => false

theorem runMu_handover (c : Cfg) (s : St) (p : PC) (inb : Option Msg) (h : s.nextWaiting > 0) :
    runMu c { s with pc := p, inbox := inb, nextWaiting := s.nextWaiting - 1 } < runMu c s := by
  obtain ⟨n, hn⟩ : ∃ n, s.nextWaiting = n + 1 := ⟨s.nextWaiting - 1, by omega⟩
  have := rank_lt c p
  simp only [runMu, hn, Nat.add_sub_cancel, Nat.succ_mul]
  omega

theorem runMu_pc (c : Cfg) (s s' : St) (hnw : s'.nextWaiting = s.nextWaiting) (hr : rank c s'.pc < rank c s.pc) :
    runMu c s' < runMu c s := by
  simp only [runMu, hnw]; omega

end KV.Group

namespace KV.Group

theorem afterLeave_rank (c : Cfg) (s : St) (a : After) :
    (afterLeave s a).nextWaiting = s.nextWaiting ∧ rank c (afterLeave s a).pc ≤ 1 + a.base := by
  cases a <;> simp [afterLeave, rank, After.base]

theorem rank_coord_none (c : Cfg) (k : Nat) : rank c (.coord k none) = c.nWatch + 27 - min k 2 := rfl
theorem rank_coord_some (c : Cfg) (k : Nat) (a : After) : rank c (.coord k (some a)) = 5 + a.base - min k 2 := rfl
theorem rank_retp_some (c : Cfg) (m : String) (e : Err) : rank c (.retp m (some e)) = 14 := rfl

theorem coordFail_rank (c : Cfg) (s : St) (lv : Option After) (e : Err) (k : Nat) (hk : k ≤ 2) :
    (coordFail s lv e).nextWaiting = s.nextWaiting ∧ rank c (coordFail s lv e).pc < rank c (.coord k lv) := by
  cases lv with
  | none =>
    refine ⟨by simp [coordFail], ?_⟩
    rw [rank_coord_none]
    show rank c (.retp s.member (some e)) < _
    rw [rank_retp_some]; omega
  | some a =>
    have := afterLeave_rank c { s with leaveFail := true } a
    refine ⟨by simpa [coordFail] using this.1, ?_⟩
    rw [rank_coord_some]
    have h2 : rank c (coordFail s (some a) e).pc ≤ 1 + a.base := this.2
    omega

theorem returnsNow_cases (s : St) (m : String) (e : Option Err) (h : returnsNow s m e = true) :
    s.pc = .retp m e ∨ ((s.pc = .assigning ∨ s.pc = .fetching) ∧ e = some .net) := by
  simp only [returnsNow, Bool.or_eq_true, Bool.and_eq_true, beq_iff_eq] at h
  rcases h with h | ⟨⟨h1, _⟩, h3⟩
  · exact Or.inl h
  · exact Or.inr ⟨h1, h3⟩

theorem dec_of (c : Cfg) (s s' : St) (hnw : s'.nextWaiting = s.nextWaiting) (hr : rank c s'.pc < rank c s.pc) :
    runMu c s' < runMu c s := runMu_pc c s s' hnw hr

macro "fin_rank" : tactic => `(tactic| (apply dec_of <;> simp_all [rank, After.base] <;> omega))

theorem runMu_decreases (c : Cfg) (s s' : St) (e : Ev) (he : e.runLoop = true) (h : step c s e = some s') :
    runMu c s' < runMu c s := by
  cases e <;> simp only [Ev.runLoop] at he <;> try contradiction
  case connectRes e =>
    cases hpc : s.pc <;> simp only [step, hpc] at h <;> try contradiction
    rename_i k lv
    match k, e with
    | 0, none => simp at h; subst h; cases lv <;> fin_rank
    | 0, some er =>
      simp at h; subst h
      have := coordFail_rank c s lv er 0 (by omega)
      exact dec_of c s _ this.1 (by rw [hpc]; exact this.2)
    | 2, none => simp at h; subst h; cases lv <;> fin_rank
    | 2, some er =>
      simp at h; subst h
      have := coordFail_rank c s lv er 2 (by omega)
      exact dec_of c s _ this.1 (by rw [hpc]; exact this.2)
    | 1, _ => simp at h
    | k + 3, _ => simp at h
  case findRes e =>
    cases hpc : s.pc <;> simp only [step, hpc] at h <;> try contradiction
    rename_i k lv
    match k, e with
    | 1, none => simp at h; subst h; cases lv <;> fin_rank
    | 1, some er =>
      simp at h; subst h
      have := coordFail_rank c s lv er 1 (by omega)
      exact dec_of c s _ this.1 (by rw [hpc]; exact this.2)
    | 0, _ => simp at h
    | k + 2, _ => simp at h
  case joinOk mi m gid leader =>
    simp only [step, Option.ite_none_right_eq_some, Option.some.injEq, Bool.and_eq_true, beq_iff_eq] at h
    obtain ⟨⟨hpc, _⟩, rfl⟩ := h
    cases leader <;> fin_rank
  case joinErr mi e =>
    simp only [step, Option.ite_none_right_eq_some, Option.some.injEq, Bool.and_eq_true, beq_iff_eq] at h
    obtain ⟨⟨hpc, _⟩, rfl⟩ := h
    fin_rank
  case partsRes e =>
    simp only [step] at h
    split at h
    · rename_i hpc
      simp only [beq_iff_eq] at hpc
      split at h <;> (simp at h; subst h; fin_rank)
    · simp at h
  case syncRes mi gi e =>
    simp only [step] at h
    split at h
    · rename_i hpc
      simp only [Bool.and_eq_true, beq_iff_eq] at hpc
      split at h <;> (simp at h; subst h; fin_rank)
    · simp at h
  case fetchRes e =>
    simp only [step] at h
    split at h
    · rename_i hpc
      simp only [beq_iff_eq] at hpc
      split at h <;> (simp at h; subst h; fin_rank)
    · simp at h
  case gNew g gid m =>
    simp only [step, Option.ite_none_right_eq_some, Option.some.injEq, Bool.and_eq_true, beq_iff_eq] at h
    obtain ⟨⟨⟨⟨hpc, _⟩, _⟩, _⟩, rfl⟩ := h
    fin_rank
  case sawClose g running =>
    simp only [step, Option.ite_none_right_eq_some, Option.some.injEq, Bool.and_eq_true, beq_iff_eq] at h
    obtain ⟨⟨_, hpc⟩, rfl⟩ := h
    cases running <;> fin_rank
  case handed g =>
    simp only [step, Option.ite_none_right_eq_some, Option.some.injEq, Bool.and_eq_true, beq_iff_eq,
      decide_eq_true_eq] at h
    obtain ⟨⟨_, hnw⟩, rfl⟩ := h
    exact runMu_handover c s _ _ hnw
  case sawGenDone g =>
    simp only [step, Option.ite_none_right_eq_some, Option.some.injEq, Bool.and_eq_true, beq_iff_eq] at h
    obtain ⟨⟨⟨_, hpc⟩, _⟩, rfl⟩ := h
    fin_rank
  case gClose g was r =>
    cases hpc : s.pc <;> simp only [step, hpc] at h <;> try contradiction
    rename_i ret
    simp only [Option.ite_none_right_eq_some, Option.some.injEq] at h
    obtain ⟨_, rfl⟩ := h
    cases ret <;> fin_rank
  case gClosed g =>
    cases hpc : s.pc <;> simp only [step, hpc] at h <;> try contradiction
    rename_i ret r
    simp only [Option.ite_none_right_eq_some, Option.some.injEq] at h
    obtain ⟨_, rfl⟩ := h
    cases ret <;> fin_rank
  case nextGenRet m e =>
    simp only [step] at h
    split at h
    · rename_i hret
      rcases returnsNow_cases s m e hret with hpc | ⟨hpc, he⟩
      · split at h <;> (simp at h; subst h; fin_rank)
      · subst he
        simp at h; subst h
        rcases hpc with hpc | hpc <;> fin_rank
    · simp at h
  case leave m =>
    cases hpc : s.pc <;> simp only [step, hpc] at h <;> try contradiction
    rename_i a
    split at h
    · split at h
      · simp at h; subst h
        have := afterLeave_rank c { s with leaveFail := false } a
        apply dec_of _ _ _ this.1
        rw [hpc, show rank c (.leaveP a) = 6 + a.base from rfl]; exact Nat.lt_of_le_of_lt this.2 (by omega)
      · simp at h; subst h; cases a <;> fin_rank
    · simp at h
  case leaveRes mi ok =>
    cases hpc : s.pc <;> simp only [step, hpc] at h <;> try contradiction
    rename_i a
    simp only [Option.ite_none_right_eq_some, Option.some.injEq] at h
    obtain ⟨_, rfl⟩ := h
    have := afterLeave_rank c { s with left := mi :: s.left } a
    apply dec_of _ _ _ this.1
    rw [hpc, show rank c (.leaveCall a) = 2 + a.base from rfl]; exact Nat.lt_of_le_of_lt this.2 (by omega)
  case errDeliver e delivered =>
    cases hpc : s.pc <;> simp only [step, hpc] at h <;> try contradiction
    rename_i e' bk
    split at h
    · split at h
      · simp only [Option.ite_none_right_eq_some, Option.some.injEq, Bool.and_eq_true, decide_eq_true_eq] at h
        obtain ⟨⟨_, hnw⟩, rfl⟩ := h
        exact runMu_handover c s _ _ hnw
      · split at h
        · split at h <;> (simp at h; subst h; fin_rank)
        · simp at h
    · simp at h
  case backoff what =>
    cases hpc : s.pc <;> simp only [step, hpc] at h <;> try contradiction
    rename_i b
    cases b
    · simp only [Option.ite_none_right_eq_some, Option.some.injEq] at h
      obtain ⟨_, rfl⟩ := h; fin_rank
    · simp only at h
      split at h
      · simp at h; subst h; fin_rank
      · split at h
        · simp at h; subst h; fin_rank
        · simp at h
  case runExit =>
    simp only [step, Option.ite_none_right_eq_some, Option.some.injEq, beq_iff_eq] at h
    obtain ⟨hpc, rfl⟩ := h
    fin_rank


theorem onCur_keeps (s s' : St) (g : Nat) (f : Gen → Option Gen) (h : onCur s g f = some s') :
    s'.pc = s.pc ∧ s'.nextWaiting = s.nextWaiting := by
  simp only [onCur] at h
  split at h
  · cases hf : f s.cur with
    | none => simp [hf] at h
    | some c => simp [hf] at h; subst h; exact ⟨rfl, rfl⟩
  · simp at h

/-- no event other than a new `Next` call of the application increases `runMu` -/
theorem runMu_le (c : Cfg) (s s' : St) (e : Ev) (hn : e ≠ .nextCall) (h : step c s e = some s') :
    runMu c s' ≤ runMu c s := by
  by_cases hr : e.runLoop = true
  · exact Nat.le_of_lt (runMu_decreases c s s' e hr h)
  have keep : ∀ g f, onCur s g f = some s' → runMu c s' ≤ runMu c s := by
    intro g f hf
    obtain ⟨h1, h2⟩ := onCur_keeps s s' g f hf
    simp [runMu, h1, h2]
  cases e <;> simp only [Ev.runLoop] at hr <;> try contradiction
  case gStart g acc =>
    simp only [step] at h
    split at h
    · cases hpc : s.pc with
      | starting k =>
        simp only [hpc, Option.map_eq_some_iff] at h
        obtain ⟨cg, _, rfl⟩ := h
        have hr' : rank c (if (k + 1 == 1 + c.nWatch) = true then PC.handing else PC.starting (k + 1)) ≤ rank c (.starting k) := by
          split <;> simp only [rank] <;> omega
        simp only [runMu, hpc]
        omega
      | _ =>
        simp only [hpc, Option.map_eq_some_iff] at h
        obtain ⟨cg, _, rfl⟩ := h
        simp [runMu, hpc]
    · split at h
      · simp at h; subst h; simp [runMu]
      · simp at h
  case hbCall g gid m => exact keep _ _ h
  case hbRet g e => exact keep _ _ h
  case hbExit g => exact keep _ _ h
  case watchCall g t => exact keep _ _ h
  case watchParts g t n => exact keep _ _ h
  case watchErr g t e => exact keep _ _ h
  case watchExit g t => exact keep _ _ h
  case fnExit g cbm l => exact keep _ _ h
  case uRet g acc =>
    simp only [step] at h
    split at h
    · exact keep _ _ h
    · split at h
      · simp at h; subst h; simp [runMu]
      · simp at h
  case uCtx g =>
    simp only [step] at h
    split at h
    · exact keep _ _ h
    · split at h
      · simp at h; subst h; simp [runMu]
      · simp at h
  case closeCall => simp [step] at h; subst h; simp [runMu]
  case closeRet =>
    simp only [step, Option.ite_none_right_eq_some, Option.some.injEq] at h
    obtain ⟨_, rfl⟩ := h; exact Nat.le_refl _
  case nextRet r =>
    simp only [step] at h
    split at h
    · simp only [Option.ite_none_right_eq_some, Option.some.injEq] at h
      obtain ⟨_, rfl⟩ := h
      simp only [runMu]
      exact Nat.add_le_add_right (Nat.mul_le_mul_right _ (Nat.sub_le _ _)) _
    · simp only [Option.ite_none_right_eq_some, Option.some.injEq] at h
      obtain ⟨_, rfl⟩ := h; simp [runMu]

/-- while the group is closed and `run` has not exited, the `run` goroutine is never blocked on the application:
outside `gen.close()` (pc `waiting`, which waits for the generation's functions — C15 `close_returns_after_all_exits`)
and the start of the internal functions, one of its own steps (or the coordinator's answer it waits for) is enabled -/
theorem run_progress_when_closed (c : Cfg) (s : St) (hc : s.closedCG = true) (hx : s.pc ≠ .exited)
    (hw : ∀ ret r, s.pc ≠ .waiting ret r) (hs : ∀ k, s.pc ≠ .starting k)
    (hcur : (s.pc = .handing ∨ s.pc = .running ∨ ∃ r, s.pc = .closing r) → 0 < s.gens)
    (hk : ∀ k lv, s.pc = .coord k lv → k ≤ 2) :
    ∃ e, e.runLoop = true ∧ (step c s e).isSome := by
  cases hpc : s.pc with
  | exited => exact absurd hpc hx
  | waiting ret r => exact absurd hpc (hw ret r)
  | starting k => exact absurd hpc (hs k)
  | exiting => exact ⟨.runExit, rfl, by simp [step, hpc]⟩
  | coord k lv =>
    match k with
    | 0 => exact ⟨.connectRes none, rfl, by simp [step, hpc]⟩
    | 1 => exact ⟨.findRes none, rfl, by simp [step, hpc]⟩
    | 2 => exact ⟨.connectRes none, rfl, by simp [step, hpc]⟩
    | k + 3 => exact absurd (hk _ _ hpc) (by omega)
  | joining => exact ⟨.joinErr s.member .net, rfl, by simp [step, hpc]⟩
  | assigning => exact ⟨.partsRes none, rfl, by simp [step, hpc]⟩
  | syncing => exact ⟨.syncRes s.jm s.jg none, rfl, by simp [step, hpc]⟩
  | fetching => exact ⟨.fetchRes none, rfl, by simp [step, hpc]⟩
  | created => exact ⟨.gNew s.gens s.jg s.jm, rfl, by simp [step, hpc]⟩
  | handing => have hcur := hcur (Or.inl hpc); exact ⟨.sawClose (s.gens - 1) false, rfl, by simp [step, hpc, hc, isCur]; omega⟩
  | running => have hcur := hcur (Or.inr (Or.inl hpc)); exact ⟨.sawClose (s.gens - 1) true, rfl, by simp [step, hpc, hc, isCur]; omega⟩
  | closing ret => have hcur := hcur (Or.inr (Or.inr ⟨ret, hpc⟩)); exact ⟨.gClose (s.gens - 1) s.cur.closed s.cur.routines, rfl, by simp [step, hpc, isCur]; omega⟩
  | retp m e => exact ⟨.nextGenRet m e, rfl, by
      have hr : returnsNow s m e = true := by simp [returnsNow, hpc]
      simp only [step, hr, if_true]
      cases e with
      | none => rfl
      | some er => cases er <;> rfl⟩
  | leaveP a => exact ⟨.leave s.member, rfl, by simp only [step, hpc, beq_self_eq_true, if_true]; split <;> rfl⟩
  | leaveCall a => exact ⟨.leaveRes s.member true, rfl, by simp [step, hpc]⟩
  | delivering e bk => exact ⟨.errDeliver e false, rfl, by simp [step, hpc, hc]; split <;> rfl⟩
  | backoffP b =>
    cases b
    · exact ⟨.backoff 0, rfl, by simp [step, hpc]⟩
    · exact ⟨.backoff 1, rfl, by simp [step, hpc]⟩

end KV.Group
