/-
Lemmas/GroupResp.lean — the regenerated parser programs of Conn.offsetCommit / offsetFetch / heartbeat / leaveGroup
(Gen/ConnLegacy.lean, run by Model/ConnOps.lean `opRead`) applied to the reference encodings of the responses.
-/
import KafkaVerif.Lemmas.GroupWire
import KafkaVerif.Model.ConnSpecs
import KafkaVerif.Spec.GroupWire

namespace KV.GroupResp
open KV KV.Reader KV.Legacy KV.Wire KV.ConnOps KV.GroupWire

/-- running a parser step `f` over the concatenated encodings of a list: one element at a time -/
theorem iter_list {α : Type} (f : P) (w : α → Bytes) (g : Ctx → α → Ctx) (ok : α → Prop)
    (hf : ∀ x c r sz, ok x → (w x).length ≤ sz → f c ⟨w x ++ r, sz⟩ = (.ok (g c x), ⟨r, sz - (w x).length⟩)) :
    ∀ (l : List α) (c : Ctx) (r : Bytes) (sz : Nat), (∀ x ∈ l, ok x) → ((l.map w).flatten).length ≤ sz →
      iter l.length f c ⟨(l.map w).flatten ++ r, sz⟩ = (.ok (l.foldl g c), ⟨r, sz - ((l.map w).flatten).length⟩) := by
  intro l
  induction l with
  | nil => intro c r sz _ _; simp [iter]
  | cons x xs ih =>
    intro c r sz hok hsz
    simp only [List.map_cons, List.flatten_cons, List.length_append] at hsz
    simp only [List.length_cons, iter, List.map_cons, List.flatten_cons, List.append_assoc]
    rw [hf x c _ sz (hok x List.mem_cons_self) (by omega)]
    simp only
    rw [ih (g c x) r (sz - (w x).length) (fun y hy => hok y (List.mem_cons_of_mem _ hy)) (by omega)]
    simp only [List.foldl_cons, List.length_append]
    congr 2
    omega

theorem runSteps_nil (c : Ctx) (s : RS) : runSteps [] c s = (.ok c, s) := by rw [runSteps]
theorem runSteps_cons (st : Step) (rest : List Step) (c : Ctx) (s : RS) :
    runSteps (st :: rest) c s = (match runStep st c s with
      | (.ok c', s') => runSteps rest c' s'
      | (.error e, s') => (.error e, s')) := by rw [runSteps]; rfl
theorem runStep_int (n : Nat) (c : Ctx) (s : RS) :
    runStep (.int n) c s = lift (readInt n) (fun c v => { c with evs := .int v :: c.evs }) c s := by rw [runStep]
theorem runStep_err (c : Ctx) (s : RS) :
    runStep .err c s = lift (readInt 2) (fun c v => { c with evs := .err v :: c.evs, lastErr := v }) c s := by rw [runStep]
theorem runStep_str (c : Ctx) (s : RS) :
    runStep .str c s = lift readString (fun c b => { c with evs := .str b :: c.evs }) c s := by rw [runStep]
theorem runStep_arr (body : List Step) (c : Ctx) (s : RS) :
    runStep (.arr body) c s = (match readInt 4 s with
      | (.error e, s') => (.error e, s')
      | (.ok n, s') => iter n.toNat (runSteps body) c s') := by rw [runStep]; rfl

/-! ### OffsetCommit v2 response: [topic [partition error_code]] -/

def encPart (pc : Int × Int) : Bytes := encInt 4 pc.1 ++ encInt 2 pc.2
def encTopic (t : Bytes × List (Int × Int)) : Bytes := writeString t.1 ++ encInt 4 t.2.length ++ (t.2.map encPart).flatten
def encResp (ts : List (Bytes × List (Int × Int))) : Bytes := encInt 4 ts.length ++ (ts.map encTopic).flatten

def PartOK (pc : Int × Int) : Prop := Fits 4 pc.1 ∧ Fits 2 pc.2
def TopicOK (t : Bytes × List (Int × Int)) : Prop := t.1.length < 32768 ∧ t.2.length < 2147483648 ∧ ∀ pc ∈ t.2, PartOK pc

def gPart (c : Ctx) (pc : Int × Int) : Ctx := { c with evs := .err pc.2 :: .int pc.1 :: c.evs, lastErr := pc.2 }
def gTopic (c : Ctx) (t : Bytes × List (Int × Int)) : Ctx := t.2.foldl gPart { c with evs := .str t.1 :: c.evs }

theorem encPart_length (pc : Int × Int) : (encPart pc).length = 6 := by simp [encPart, encInt_length]

theorem run_part (pc : Int × Int) (c : Ctx) (r : Bytes) (sz : Nat) (h : PartOK pc) (hs : (encPart pc).length ≤ sz) :
    runSteps [.int 4, .err] c ⟨encPart pc ++ r, sz⟩ = (.ok (gPart c pc), ⟨r, sz - (encPart pc).length⟩) := by
  rw [encPart_length] at hs ⊢
  simp only [runSteps_cons, runSteps_nil, runStep_int, runStep_err, lift, encPart, List.append_assoc]
  rw [readInt_enc 4 pc.1 _ sz (by omega) h.1 (by omega)]
  simp only
  rw [readInt_enc 2 pc.2 _ (sz - 4) (by omega) h.2 (by omega)]
  simp only [gPart]
  congr 2 <;> omega

theorem run_topic (t : Bytes × List (Int × Int)) (c : Ctx) (r : Bytes) (sz : Nat) (h : TopicOK t)
    (hs : (encTopic t).length ≤ sz) :
    runSteps [.str, .arr [.int 4, .err]] c ⟨encTopic t ++ r, sz⟩ = (.ok (gTopic c t), ⟨r, sz - (encTopic t).length⟩) := by
  obtain ⟨h1, h2, h3⟩ := h
  have hlen : (encTopic t).length = 2 + t.1.length + 4 + ((t.2.map encPart).flatten).length := by
    simp [encTopic, writeString, encInt_length]; omega
  rw [hlen] at hs ⊢
  simp only [runSteps_cons, runSteps_nil, runStep_str, runStep_arr, lift, encTopic, List.append_assoc]
  rw [readString_write t.1 _ sz h1 (by omega)]
  simp only
  rw [readInt_enc 4 _ _ _ (by omega) (fits4 _ h2) (by omega)]
  simp only [Int.toNat_natCast]
  rw [iter_list (runSteps [.int 4, .err]) encPart gPart PartOK run_part t.2 _ r _ h3 (by omega)]
  simp only [gTopic]
  congr 2
  omega

theorem run_resp (ts : List (Bytes × List (Int × Int))) (c : Ctx) (r : Bytes) (sz : Nat)
    (hn : ts.length < 2147483648) (h : ∀ t ∈ ts, TopicOK t) (hs : (encResp ts).length ≤ sz) :
    runSteps KV.Gen.ConnLegacy.offsetCommitResponseV2 c ⟨encResp ts ++ r, sz⟩ =
      (.ok (ts.foldl gTopic c), ⟨r, sz - (encResp ts).length⟩) := by
  have hlen : (encResp ts).length = 4 + ((ts.map encTopic).flatten).length := by simp [encResp, encInt_length]
  rw [hlen] at hs ⊢
  simp only [KV.Gen.ConnLegacy.offsetCommitResponseV2, runSteps_cons, runSteps_nil, runStep_arr, encResp, List.append_assoc]
  rw [readInt_enc 4 _ _ _ (by omega) (fits4 _ hn) (by omega)]
  simp only [Int.toNat_natCast]
  rw [iter_list (runSteps [.str, .arr [.int 4, .err]]) encTopic gTopic TopicOK run_topic ts _ r _ h (by omega)]
  dsimp only
  congr 2
  omega


/-- the per-partition error codes of the response, in wire order -/
def codesOf (ts : List (Bytes × List (Int × Int))) : List Int := ts.flatMap (fun t => t.2.map (·.2))

theorem errs_gPart (c : Ctx) (pc : Int × Int) : (gPart c pc).errs = c.errs ++ [pc.2] := by
  simp [Ctx.errs, gPart]

theorem errs_parts (l : List (Int × Int)) (c : Ctx) : (l.foldl gPart c).errs = c.errs ++ l.map (·.2) := by
  induction l generalizing c with
  | nil => simp
  | cons x xs ih => simp [List.foldl_cons, ih, errs_gPart]

theorem errs_gTopic (c : Ctx) (t : Bytes × List (Int × Int)) : (gTopic c t).errs = c.errs ++ t.2.map (·.2) := by
  unfold gTopic
  rw [errs_parts]
  simp [Ctx.errs]

theorem errs_topics (ts : List (Bytes × List (Int × Int))) (c : Ctx) : (ts.foldl gTopic c).errs = c.errs ++ codesOf ts := by
  induction ts generalizing c with
  | nil => simp [codesOf]
  | cons x xs ih => simp [List.foldl_cons, ih, errs_gTopic, codesOf]

/-- **acked on the wire**: the conn builder's regenerated model of `Conn.offsetCommit` (parser program re-extracted from
offsetcommit.go, framing flags from conn.go), run on the OffsetCommit v2 response that carries the per-partition codes
`codesOf ts`, consumes the whole frame and concludes: nil when every code is 0, otherwise `kafka.Error` of the FIRST
non-zero code. -/
theorem offsetCommit_conclusion (ts : List (Bytes × List (Int × Int))) (hn : ts.length < 2147483648)
    (h : ∀ t ∈ ts, TopicOK t) (topic : Bytes) :
    opRead (simpleOp "offsetCommit" KV.Gen.ConnLegacy.offsetCommitResponseV2) 2 topic ⟨encResp ts, (encResp ts).length⟩ =
      ((match (codesOf ts).find? (fun k => k != 0) with | some k => Outcome.kafka k | none => Outcome.ok), ⟨[], 0⟩) := by
  have hr := run_resp ts { ver := 2 } [] (encResp ts).length hn h (Nat.le_refl _)
  simp only [List.append_nil, Nat.sub_self] at hr
  unfold opRead
  simp only [simpleOp, hr]
  have he : (ts.foldl gTopic { ver := 2 }).errs = codesOf ts := by rw [errs_topics]; simp [Ctx.errs]
  simp only [Post.eval, he]
  have hf : (List.find? (fun k => k ≠ 0 && !([] : List Int).contains k) (codesOf ts)) = (codesOf ts).find? (fun k => k != 0) := by
    congr 1; funext k; by_cases hk : k = 0 <;> simp [hk]
  simp only [hf]
  cases (codesOf ts).find? (fun k => k != 0) <;> simp


/-- the reference encoder of Spec/GroupWire.lean (topic names as strings) is `encResp` on the UTF-8 bytes -/
theorem spec_offsetCommitResp (ts : List (String × List (Int × Int))) :
    KV.Spec.GroupWire.offsetCommitResp ts = encResp (ts.map fun t => (t.1.toUTF8.toList, t.2)) := by
  simp [KV.Spec.GroupWire.offsetCommitResp, KV.Spec.GroupWire.arr, KV.Spec.GroupWire.str, KV.Spec.GroupWire.i32,
    KV.Spec.GroupWire.i16, encResp, encTopic, writeString, List.map_map, Function.comp_def]
  rfl

/-! ### OffsetFetch v1 response: [topic [partition offset metadata error_code]] -/

abbrev FPart := Int × Int × Bytes × Int     -- partition, offset, metadata, error code

def encFPart (x : FPart) : Bytes := encInt 4 x.1 ++ encInt 8 x.2.1 ++ writeString x.2.2.1 ++ encInt 2 x.2.2.2
def encFTopic (t : Bytes × List FPart) : Bytes := writeString t.1 ++ encInt 4 t.2.length ++ (t.2.map encFPart).flatten
def encFResp (ts : List (Bytes × List FPart)) : Bytes := encInt 4 ts.length ++ (ts.map encFTopic).flatten

def FPartOK (x : FPart) : Prop := Fits 4 x.1 ∧ Fits 8 x.2.1 ∧ x.2.2.1.length < 32768 ∧ Fits 2 x.2.2.2
def FTopicOK (t : Bytes × List FPart) : Prop := t.1.length < 32768 ∧ t.2.length < 2147483648 ∧ ∀ x ∈ t.2, FPartOK x

def gFPart (c : Ctx) (x : FPart) : Ctx :=
  { c with evs := .err x.2.2.2 :: .str x.2.2.1 :: .int x.2.1 :: .int x.1 :: c.evs, lastErr := x.2.2.2 }
def gFTopic (c : Ctx) (t : Bytes × List FPart) : Ctx := t.2.foldl gFPart { c with evs := .str t.1 :: c.evs }

theorem encFPart_length (x : FPart) : (encFPart x).length = 16 + x.2.2.1.length := by
  simp [encFPart, encInt_length, writeString]; omega

theorem run_fpart (x : FPart) (c : Ctx) (r : Bytes) (sz : Nat) (h : FPartOK x) (hs : (encFPart x).length ≤ sz) :
    runSteps [.int 4, .int 8, .str, .err] c ⟨encFPart x ++ r, sz⟩ = (.ok (gFPart c x), ⟨r, sz - (encFPart x).length⟩) := by
  rw [encFPart_length] at hs ⊢
  obtain ⟨h1, h2, h3, h4⟩ := h
  simp only [runSteps_cons, runSteps_nil, runStep_int, runStep_err, runStep_str, lift, encFPart, List.append_assoc]
  rw [readInt_enc 4 x.1 _ sz (by omega) h1 (by omega)]
  simp only
  rw [readInt_enc 8 x.2.1 _ _ (by omega) h2 (by omega)]
  simp only
  rw [readString_write x.2.2.1 _ _ h3 (by omega)]
  simp only
  rw [readInt_enc 2 x.2.2.2 _ _ (by omega) h4 (by omega)]
  simp only [gFPart]
  congr 2 <;> omega

theorem run_ftopic (t : Bytes × List FPart) (c : Ctx) (r : Bytes) (sz : Nat) (h : FTopicOK t)
    (hs : (encFTopic t).length ≤ sz) :
    runSteps [.str, .arr [.int 4, .int 8, .str, .err]] c ⟨encFTopic t ++ r, sz⟩ =
      (.ok (gFTopic c t), ⟨r, sz - (encFTopic t).length⟩) := by
  obtain ⟨h1, h2, h3⟩ := h
  have hlen : (encFTopic t).length = 2 + t.1.length + 4 + ((t.2.map encFPart).flatten).length := by
    simp [encFTopic, writeString, encInt_length]; omega
  rw [hlen] at hs ⊢
  simp only [runSteps_cons, runSteps_nil, runStep_str, runStep_arr, lift, encFTopic, List.append_assoc]
  rw [readString_write t.1 _ sz h1 (by omega)]
  simp only
  rw [readInt_enc 4 _ _ _ (by omega) (fits4 _ h2) (by omega)]
  simp only [Int.toNat_natCast]
  rw [iter_list (runSteps [.int 4, .int 8, .str, .err]) encFPart gFPart FPartOK run_fpart t.2 _ r _ h3 (by omega)]
  simp only [gFTopic]
  congr 2
  omega

theorem run_fresp (ts : List (Bytes × List FPart)) (c : Ctx) (r : Bytes) (sz : Nat)
    (hn : ts.length < 2147483648) (h : ∀ t ∈ ts, FTopicOK t) (hs : (encFResp ts).length ≤ sz) :
    runSteps KV.Gen.ConnLegacy.offsetFetchResponseV1 c ⟨encFResp ts ++ r, sz⟩ =
      (.ok (ts.foldl gFTopic c), ⟨r, sz - (encFResp ts).length⟩) := by
  have hlen : (encFResp ts).length = 4 + ((ts.map encFTopic).flatten).length := by simp [encFResp, encInt_length]
  rw [hlen] at hs ⊢
  simp only [KV.Gen.ConnLegacy.offsetFetchResponseV1, runSteps_cons, runSteps_nil, runStep_arr, encFResp, List.append_assoc]
  rw [readInt_enc 4 _ _ _ (by omega) (fits4 _ hn) (by omega)]
  simp only [Int.toNat_natCast]
  rw [iter_list (runSteps [.str, .arr [.int 4, .int 8, .str, .err]]) encFTopic gFTopic FTopicOK run_ftopic ts _ r _ h (by omega)]
  dsimp only
  congr 2
  omega

def fcodesOf (ts : List (Bytes × List FPart)) : List Int := ts.flatMap (fun t => t.2.map (·.2.2.2))

theorem errs_gFPart (c : Ctx) (x : FPart) : (gFPart c x).errs = c.errs ++ [x.2.2.2] := by simp [Ctx.errs, gFPart]

theorem errs_fparts (l : List FPart) (c : Ctx) : (l.foldl gFPart c).errs = c.errs ++ l.map (·.2.2.2) := by
  induction l generalizing c with
  | nil => simp
  | cons x xs ih => simp [List.foldl_cons, ih, errs_gFPart]

theorem errs_gFTopic (c : Ctx) (t : Bytes × List FPart) : (gFTopic c t).errs = c.errs ++ t.2.map (·.2.2.2) := by
  unfold gFTopic
  rw [errs_fparts]
  simp [Ctx.errs]

theorem errs_ftopics (ts : List (Bytes × List FPart)) (c : Ctx) : (ts.foldl gFTopic c).errs = c.errs ++ fcodesOf ts := by
  induction ts generalizing c with
  | nil => simp [fcodesOf]
  | cons x xs ih => simp [List.foldl_cons, ih, errs_gFTopic, fcodesOf]

/-- the same for `Conn.offsetFetch`: a failed OffsetFetch (any non-zero per-partition code) is seen as that error -/
theorem offsetFetch_conclusion (ts : List (Bytes × List FPart)) (hn : ts.length < 2147483648)
    (h : ∀ t ∈ ts, FTopicOK t) (topic : Bytes) :
    opRead (simpleOp "offsetFetch" KV.Gen.ConnLegacy.offsetFetchResponseV1) 1 topic ⟨encFResp ts, (encFResp ts).length⟩ =
      ((match (fcodesOf ts).find? (fun k => k != 0) with | some k => Outcome.kafka k | none => Outcome.ok), ⟨[], 0⟩) := by
  have hr := run_fresp ts { ver := 1 } [] (encFResp ts).length hn h (Nat.le_refl _)
  simp only [List.append_nil, Nat.sub_self] at hr
  unfold opRead
  simp only [simpleOp, hr]
  have he : (ts.foldl gFTopic { ver := 1 }).errs = fcodesOf ts := by rw [errs_ftopics]; simp [Ctx.errs]
  simp only [Post.eval, he]
  have hf : (List.find? (fun k => k ≠ 0 && !([] : List Int).contains k) (fcodesOf ts)) = (fcodesOf ts).find? (fun k => k != 0) := by
    congr 1; funext k; by_cases hk : k = 0 <;> simp [hk]
  simp only [hf]
  cases (fcodesOf ts).find? (fun k => k != 0) <;> simp

/-! ### Heartbeat v0 / LeaveGroup v0 response: error_code -/

theorem errOnly_conclusion (method : String) (prog : List Step) (hp : prog = [.err]) (code : Int) (hc : Fits 2 code) (topic : Bytes) :
    opRead (simpleOp method prog) 0 topic ⟨encInt 2 code, 2⟩ =
      ((if code = 0 then Outcome.ok else Outcome.kafka code), ⟨[], 0⟩) := by
  subst hp
  unfold opRead
  simp only [simpleOp, runSteps_cons, runSteps_nil, runStep_err, lift]
  have := readInt_enc 2 code [] 2 (by omega) hc (Nat.le_refl _)
  simp only [List.append_nil] at this
  rw [this]
  simp only [Nat.sub_self, Post.eval, Ctx.errs]
  by_cases h0 : code = 0 <;> simp [h0]

theorem runStep_bytes (c : Ctx) (s : RS) :
    runStep .bytes c s = lift readBytes (fun c b => { c with evs := .int b.length :: c.evs }) c s := by rw [runStep]
theorem runStep_ifGe (v : Nat) (body : List Step) (c : Ctx) (s : RS) :
    runStep (.ifGe v body) c s = (if c.ver ≥ v then runSteps body c s else (.ok c, s)) := by rw [runStep]

/-- outcome of a response with exactly one error-code field -/
def concl (code : Int) : Outcome := if code = 0 then .ok else .kafka code

theorem post_single (c : Ctx) (code : Int) (h : c.errs = [code]) (topic : Bytes) :
    (Post.firstErr []).eval topic c = (if code = 0 then none else some code) := by
  simp only [Post.eval, h]
  by_cases h0 : code = 0 <;> simp [h0]

/-! ### FindCoordinator v0: error_code node_id host port -/

def encFind (code node : Int) (host : Bytes) (port : Int) : Bytes :=
  encInt 2 code ++ encInt 4 node ++ writeString host ++ encInt 4 port

theorem findCoordinator_conclusion (code node port : Int) (host topic : Bytes)
    (h1 : Fits 2 code) (h2 : Fits 4 node) (h3 : host.length < 32768) (h4 : Fits 4 port) :
    opRead (simpleOp "findCoordinator" KV.Gen.ConnLegacy.findCoordinatorResponseV0) 0 topic
        ⟨encFind code node host port, (encFind code node host port).length⟩ = (concl code, ⟨[], 0⟩) := by
  have hlen : (encFind code node host port).length = 12 + host.length := by
    simp [encFind, encInt_length, writeString]; omega
  unfold opRead
  simp only [simpleOp, KV.Gen.ConnLegacy.findCoordinatorResponseV0, runSteps_cons, runSteps_nil, runStep_err, runStep_int,
    runStep_str, lift, hlen]
  simp only [encFind, List.append_assoc]
  rw [readInt_enc 2 code _ _ (by omega) h1 (by omega)]
  simp only
  rw [readInt_enc 4 node _ _ (by omega) h2 (by omega)]
  simp only
  rw [readString_write host _ _ h3 (by omega)]
  simp only
  have := readInt_enc 4 port [] (12 + host.length - 2 - 4 - (2 + host.length)) (by omega) h4 (by omega)
  simp only [List.append_nil] at this
  rw [this]
  have hz : 12 + host.length - 2 - 4 - (2 + host.length) - 4 = 0 := by omega
  simp only [hz]
  rw [post_single _ code (by simp [Ctx.errs]) topic]
  unfold concl
  by_cases h0 : code = 0 <;> simp [h0]

/-! ### SyncGroup v0: error_code assignment(bytes) -/

def encSync (code : Int) (a : Bytes) : Bytes := encInt 2 code ++ writeBytes a

theorem syncGroup_conclusion (code : Int) (a topic : Bytes) (h1 : Fits 2 code) (h2 : a.length < 2147483648) :
    opRead (simpleOp "syncGroup" KV.Gen.ConnLegacy.syncGroupResponseV0) 0 topic
        ⟨encSync code a, (encSync code a).length⟩ = (concl code, ⟨[], 0⟩) := by
  have hlen : (encSync code a).length = 6 + a.length := by simp [encSync, encInt_length, writeBytes]; omega
  unfold opRead
  simp only [simpleOp, KV.Gen.ConnLegacy.syncGroupResponseV0, runSteps_cons, runSteps_nil, runStep_err, runStep_bytes, lift, hlen]
  simp only [encSync]
  rw [readInt_enc 2 code _ _ (by omega) h1 (by omega)]
  simp only
  have := readBytes_write a [] (6 + a.length - 2) h2 (by omega)
  simp only [List.append_nil] at this
  rw [this]
  have hz : 6 + a.length - 2 - (4 + a.length) = 0 := by omega
  simp only [hz]
  rw [post_single _ code (by simp [Ctx.errs]) topic]
  unfold concl
  by_cases h0 : code = 0 <;> simp [h0]

/-! ### JoinGroup v1: error_code generation_id protocol leader member [member_id metadata] -/

def encMember (m : Bytes × Bytes) : Bytes := writeString m.1 ++ writeBytes m.2
def MemberOK (m : Bytes × Bytes) : Prop := m.1.length < 32768 ∧ m.2.length < 2147483648
def gMember (c : Ctx) (m : Bytes × Bytes) : Ctx := { c with evs := .int m.2.length :: .str m.1 :: c.evs }

theorem run_member (m : Bytes × Bytes) (c : Ctx) (r : Bytes) (sz : Nat) (h : MemberOK m) (hs : (encMember m).length ≤ sz) :
    runSteps [.str, .bytes] c ⟨encMember m ++ r, sz⟩ = (.ok (gMember c m), ⟨r, sz - (encMember m).length⟩) := by
  have hlen : (encMember m).length = 6 + m.1.length + m.2.length := by
    simp [encMember, writeString, writeBytes, encInt_length]; omega
  rw [hlen] at hs ⊢
  simp only [runSteps_cons, runSteps_nil, runStep_str, runStep_bytes, lift, encMember, List.append_assoc]
  rw [readString_write m.1 _ sz h.1 (by omega)]
  simp only
  rw [readBytes_write m.2 r _ h.2 (by omega)]
  simp only [gMember]
  congr 2
  omega

theorem errs_members (l : List (Bytes × Bytes)) (c : Ctx) : (l.foldl gMember c).errs = c.errs := by
  induction l generalizing c with
  | nil => rfl
  | cons x xs ih => rw [List.foldl_cons, ih]; simp [gMember, Ctx.errs]

def encJoin (code gen : Int) (proto leader member : Bytes) (ms : List (Bytes × Bytes)) : Bytes :=
  encInt 2 code ++ encInt 4 gen ++ writeString proto ++ writeString leader ++ writeString member ++
    encInt 4 ms.length ++ (ms.map encMember).flatten

theorem run_join (code gen : Int) (proto leader member : Bytes) (ms : List (Bytes × Bytes)) (c : Ctx) (r : Bytes) (sz : Nat)
    (hv : c.ver < 2)
    (h1 : Fits 2 code) (h2 : Fits 4 gen) (h3 : proto.length < 32768) (h4 : leader.length < 32768)
    (h5 : member.length < 32768) (h6 : ms.length < 2147483648) (h7 : ∀ m ∈ ms, MemberOK m)
    (hs : (encJoin code gen proto leader member ms).length ≤ sz) :
    runSteps KV.Gen.ConnLegacy.joinGroupResponse c ⟨encJoin code gen proto leader member ms ++ r, sz⟩ =
      (.ok (ms.foldl gMember { c with evs := .str member :: .str leader :: .str proto :: .int gen :: .err code :: c.evs,
                                       lastErr := code }),
       ⟨r, sz - (encJoin code gen proto leader member ms).length⟩) := by
  have hlen : (encJoin code gen proto leader member ms).length =
      16 + proto.length + leader.length + member.length + ((ms.map encMember).flatten).length := by
    simp [encJoin, encInt_length, writeString]; omega
  rw [hlen] at hs ⊢
  simp only [KV.Gen.ConnLegacy.joinGroupResponse, runSteps_cons, runSteps_nil, runStep_ifGe, runStep_err, runStep_int,
    runStep_str, runStep_arr, lift]
  have hv' : ¬ (c.ver ≥ 2) := by omega
  simp only [hv', ↓reduceIte]
  simp only [encJoin, List.append_assoc]
  rw [readInt_enc 2 code _ _ (by omega) h1 (by omega)]
  simp only
  rw [readInt_enc 4 gen _ _ (by omega) h2 (by omega)]
  simp only
  rw [readString_write proto _ _ h3 (by omega)]
  simp only
  rw [readString_write leader _ _ h4 (by omega)]
  simp only
  rw [readString_write member _ _ h5 (by omega)]
  simp only
  rw [readInt_enc 4 _ _ _ (by omega) (fits4 _ h6) (by omega)]
  simp only [Int.toNat_natCast]
  rw [iter_list (runSteps [.str, .bytes]) encMember gMember MemberOK run_member ms _ r _ h7 (by omega)]
  dsimp only
  congr 2
  omega

theorem joinGroup_conclusion (code gen : Int) (proto leader member topic : Bytes) (ms : List (Bytes × Bytes))
    (h1 : Fits 2 code) (h2 : Fits 4 gen) (h3 : proto.length < 32768) (h4 : leader.length < 32768)
    (h5 : member.length < 32768) (h6 : ms.length < 2147483648) (h7 : ∀ m ∈ ms, MemberOK m) :
    opRead (simpleOp "joinGroup" KV.Gen.ConnLegacy.joinGroupResponse) 1 topic
        ⟨encJoin code gen proto leader member ms, (encJoin code gen proto leader member ms).length⟩ = (concl code, ⟨[], 0⟩) := by
  have hr := run_join code gen proto leader member ms { ver := 1 } [] _ (by simp) h1 h2 h3 h4 h5 h6 h7 (Nat.le_refl _)
  simp only [List.append_nil, Nat.sub_self] at hr
  unfold opRead
  simp only [simpleOp, hr]
  rw [post_single _ code (by rw [errs_members]; simp [Ctx.errs]) topic]
  unfold concl
  by_cases h0 : code = 0 <;> simp [h0]


/-! ### the reference encoders of Spec/GroupWire.lean (strings) are these byte-level encoders -/
open KV.Spec.GroupWire in
theorem spec_findCoordinatorResp (c : Int) (host : String) (port : Int) :
    findCoordinatorResp c host port = encFind c 1 host.toUTF8.toList port := by
  simp [findCoordinatorResp, encFind, str, i16, i32, writeString]

open KV.Spec.GroupWire in
theorem spec_syncGroupResp (c : Int) (a : Bytes) : syncGroupResp c a = encSync c a := by
  simp [syncGroupResp, encSync, bytes, i16, i32, writeBytes]

open KV.Spec.GroupWire in
theorem spec_joinGroupResp (c g : Int) (proto leader member : String) (ms : List (String × List String)) :
    joinGroupResp c g proto leader member ms =
      encJoin c g proto.toUTF8.toList leader.toUTF8.toList member.toUTF8.toList
        (ms.map fun m => (m.1.toUTF8.toList, subscription m.2)) := by
  simp [joinGroupResp, encJoin, arr, str, bytes, i16, i32, writeString, encMember, writeBytes, List.map_map, Function.comp_def]


end KV.GroupResp
