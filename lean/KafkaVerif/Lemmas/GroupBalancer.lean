/-
Lemmas/GroupBalancer.lean — helper lemmas for Props/C14.lean (core Lean only).
-/
import KafkaVerif.Model.GroupBalancer
import KafkaVerif.Spec.GroupAssign

namespace KV.GroupBalancer
open KV.Spec.GroupAssign

/-! ## sorting by id -/

theorem insertById_perm (m : Member) (l : List Member) : (insertById m l).Perm (m :: l) := by
  induction l with
  | nil => exact List.Perm.refl _
  | cons x xs ih =>
    unfold insertById
    split
    · exact List.Perm.refl _
    · exact (List.Perm.cons x ih).trans (List.Perm.swap m x xs)

theorem sortById_perm (l : List Member) : (sortById l).Perm l := by
  induction l with
  | nil => exact List.Perm.refl _
  | cons m ms ih => exact (insertById_perm m _).trans (List.Perm.cons m ih)

theorem insertById_sorted (m : Member) (l : List Member) (h : l.Pairwise (fun a b => a.id ≤ b.id)) :
    (insertById m l).Pairwise (fun a b => a.id ≤ b.id) := by
  induction l with
  | nil => simp [insertById]
  | cons x xs ih =>
    unfold insertById
    have hx := List.pairwise_cons.mp h
    split
    · rename_i hle
      refine List.pairwise_cons.mpr ⟨?_, h⟩
      intro b hb
      rcases List.mem_cons.mp hb with rfl | hb
      · exact hle
      · exact Nat.le_trans hle (hx.1 b hb)
    · rename_i hle
      refine List.pairwise_cons.mpr ⟨?_, ih hx.2⟩
      intro b hb
      have := (insertById_perm m xs).mem_iff.mp hb
      rcases List.mem_cons.mp this with rfl | hb
      · omega
      · exact hx.1 b hb

theorem sortById_sorted (l : List Member) : (sortById l).Pairwise (fun a b => a.id ≤ b.id) := by
  induction l with
  | nil => simp [sortById]
  | cons m ms ih => exact insertById_sorted m _ ih

/-- distinct ids, as a pairwise statement on the member list -/
def IdsDistinct (l : List Member) : Prop := l.Pairwise (fun a b => a.id ≠ b.id)

theorem idsDistinct_iff (l : List Member) : IdsDistinct l ↔ DistinctIds l := by
  unfold IdsDistinct DistinctIds List.Nodup
  rw [List.pairwise_map]

theorem wf_split {ms : List Member} (h : WellFormed ms) : IdsDistinct ms :=
  (idsDistinct_iff ms).mpr h

theorem IdsDistinct.perm {l₁ l₂ : List Member} (h : l₁.Perm l₂) (hd : IdsDistinct l₁) : IdsDistinct l₂ :=
  (h.pairwise_iff (fun {_ _} hxy => fun e => hxy e.symm)).mp hd

theorem IdsDistinct.sublist {l₁ l₂ : List Member} (h : l₁.Sublist l₂) (hd : IdsDistinct l₂) : IdsDistinct l₁ :=
  List.Pairwise.sublist h hd

theorem sortById_strict (l : List Member) (hd : IdsDistinct l) :
    (sortById l).Pairwise (fun a b => a.id < b.id) := by
  have h1 := sortById_sorted l
  have h2 : IdsDistinct (sortById l) := hd.perm (sortById_perm l).symm
  unfold IdsDistinct at h2
  have := h1.and h2
  exact this.imp (fun {a b} ⟨x, y⟩ => by omega)

/-- two strictly sorted lists with the same elements are equal -/
theorem strict_sorted_unique : ∀ (l₁ l₂ : List Member), l₁.Perm l₂ →
    l₁.Pairwise (fun a b => a.id < b.id) → l₂.Pairwise (fun a b => a.id < b.id) → l₁ = l₂
  | [], l₂, hp, _, _ => hp.nil_eq
  | a :: l₁, [], hp, _, _ => by simpa using hp.length_eq
  | a :: l₁, b :: l₂, hp, h1, h2 => by
    have h1' := List.pairwise_cons.mp h1
    have h2' := List.pairwise_cons.mp h2
    have hab : a = b := by
      have ha : a ∈ b :: l₂ := hp.mem_iff.mp (List.mem_cons_self)
      have hb : b ∈ a :: l₁ := hp.mem_iff.mpr (List.mem_cons_self)
      rcases List.mem_cons.mp ha with e | ha
      · exact e
      · rcases List.mem_cons.mp hb with e | hb
        · exact e.symm
        · have := h1'.1 b hb; have := h2'.1 a ha; omega
    subst hab
    have := strict_sorted_unique l₁ l₂ (List.Perm.cons_inv hp) h1'.2 h2'.2
    rw [this]

/-! ## `appendByTopic` and the subscribers -/

theorem firstListings_filter (t : Nat) : ∀ (l pre : List Nat),
    (firstListings pre l).filter (· == t) = if t ∈ pre then [] else if t ∈ l then [t] else []
  | [], pre => by simp [firstListings]
  | x :: xs, pre => by
    have ih := firstListings_filter t xs (pre ++ [x])
    unfold firstListings
    by_cases hx : x = t
    · subst hx
      by_cases hp : x ∈ pre
      · simp [hp, ih]
      · simp [hp, List.filter_cons, ih]
    · have htx : ¬ t = x := fun e => hx e.symm
      by_cases hp : x ∈ pre
      · simp [hp, ih, htx]
      · simp [hp, List.filter_cons, hx, ih, htx]

/-- a member is entered under `t` exactly once iff `t` occurs in its topic list, however often -/
theorem appendByTopic_eq_subscribers (t : Nat) : ∀ (ms : List Member), appendByTopic t ms = subscribers ms t
  | [] => rfl
  | m :: ms => by
    have ih := appendByTopic_eq_subscribers t ms
    unfold appendByTopic subscribers
    rw [firstListings_filter t _ [], ih, List.filter_cons]
    unfold subscribers
    by_cases hc : t ∈ m.topics <;> simp [hc]

theorem subscribers_distinct (ms : List Member) (t : Nat) (hd : IdsDistinct ms) : IdsDistinct (subscribers ms t) :=
  hd.sublist List.filter_sublist

/-- under the hypotheses the sorted member list of a topic is a strictly sorted permutation of its subscribers -/
theorem findMembers_perm (ms : List Member) (t : Nat) :
    (findMembersByTopic ms t).Perm (subscribers ms t) := by
  unfold findMembersByTopic
  rw [appendByTopic_eq_subscribers t ms]
  exact sortById_perm _

theorem findMembers_strict (ms : List Member) (t : Nat) (hd : IdsDistinct ms) :
    (findMembersByTopic ms t).Pairwise (fun a b => a.id < b.id) := by
  unfold findMembersByTopic
  rw [appendByTopic_eq_subscribers t ms]
  exact sortById_strict _ (subscribers_distinct ms t hd)

/-! ## the member × partition double loop: every index is selected by exactly one member ⇒ cover -/

theorem flatMap_congr' {α β : Type} {f g : α → List β} : ∀ (l : List α), (∀ a ∈ l, f a = g a) → l.flatMap f = l.flatMap g
  | [], _ => rfl
  | a :: l, h => by
    rw [List.flatMap_cons, List.flatMap_cons, h a List.mem_cons_self,
      flatMap_congr' l (fun b hb => h b (List.mem_cons_of_mem _ hb))]

theorem pick_nil (sel : Nat → Bool) (j : Nat) : pick sel j [] = [] := rfl

theorem flatMap_pick_cons (sel : Nat → Nat → Bool) (j : Nat) (p : Int) (ps : List Int) : ∀ (is : List Nat),
    (is.flatMap (fun i => pick (sel i) j (p :: ps))).Perm
      ((is.filter (fun i => sel i j)).map (fun _ => p) ++ is.flatMap (fun i => pick (sel i) (j + 1) ps))
  | [] => by simp
  | i :: is => by
    have ih := flatMap_pick_cons sel j p ps is
    rw [List.perm_iff_count] at ih ⊢
    intro a
    have := ih a
    by_cases h : sel i j
    · simp [pick, h, List.filter_cons, List.count_append, List.count_cons] at this ⊢; omega
    · simp [pick, h, List.filter_cons, List.count_append] at this ⊢; omega

theorem cover_gen (sel : Nat → Nat → Bool) (is : List Nat) : ∀ (parts : List Int) (j : Nat),
    (∀ j', j ≤ j' → j' < j + parts.length → (is.filter (fun i => sel i j')).length = 1) →
    (is.flatMap (fun i => pick (sel i) j parts)).Perm parts
  | [], j, _ => by simp [pick_nil]
  | p :: ps, j, h => by
    have ih := cover_gen sel is ps (j + 1) (fun j' h1 h2 => h j' (by omega) (by simp; omega))
    refine (flatMap_pick_cons sel j p ps is).trans ?_
    have h1 := h j (Nat.le_refl _) (by simp)
    rw [List.map_const', h1]
    exact List.Perm.cons p ih

theorem assignGo_flatMap (sel : Nat → Nat → Bool) (parts : List Int) : ∀ (sub : List Member) (i : Nat),
    (assignGo sel parts i sub).flatMap (·.2) = (List.range' i sub.length).flatMap (fun i' => pick (sel i') 0 parts)
  | [], _ => rfl
  | m :: rest, i => by
    simp [assignGo, List.range'_succ, assignGo_flatMap sel parts rest (i + 1)]

theorem collect_cons_same (id : Nat) (x : List Int) (es : List (Nat × List Int)) :
    collect id ((id, x) :: es) = x ++ collect id es := by
  simp [collect, List.filter_cons]

theorem collect_cons_other (id id' : Nat) (x : List Int) (es : List (Nat × List Int)) (h : id' ≠ id) :
    collect id ((id', x) :: es) = collect id es := by
  simp [collect, List.filter_cons, h]

theorem collect_assignGo_absent (sel : Nat → Nat → Bool) (parts : List Int) (id : Nat) : ∀ (sub : List Member) (i : Nat),
    (∀ m ∈ sub, m.id ≠ id) → collect id (assignGo sel parts i sub) = []
  | [], _, _ => rfl
  | m :: rest, i, h => by
    unfold assignGo
    rw [collect_cons_other _ _ _ _ (h m List.mem_cons_self)]
    exact collect_assignGo_absent sel parts id rest (i + 1) (fun x hx => h x (List.mem_cons_of_mem _ hx))

/-- with distinct ids the entry of the k-th listed member is exactly what the loop picked for index `i+k` -/
theorem collect_assignGo_mem (sel : Nat → Nat → Bool) (parts : List Int) : ∀ (sub : List Member) (i : Nat),
    IdsDistinct sub → ∀ m ∈ sub, ∃ k, sub[k]? = some m ∧ collect m.id (assignGo sel parts i sub) = pick (sel (i + k)) 0 parts
  | [], _, _, m, hm => by simp at hm
  | x :: rest, i, hd, m, hm => by
    have hd' := List.pairwise_cons.mp hd
    unfold assignGo
    rcases List.mem_cons.mp hm with rfl | hm
    · refine ⟨0, rfl, ?_⟩
      rw [collect_cons_same, collect_assignGo_absent sel parts _ rest (i + 1) (fun y hy e => hd'.1 y hy e.symm)]
      simp
    · obtain ⟨k, hk, hc⟩ := collect_assignGo_mem sel parts rest (i + 1) hd'.2 m hm
      refine ⟨k + 1, by simpa using hk, ?_⟩
      rw [collect_cons_other _ _ _ _ (hd'.1 m hm), hc]
      congr 2; omega

theorem flatMap_collect (sel : Nat → Nat → Bool) (parts : List Int) : ∀ (sub : List Member) (i : Nat),
    IdsDistinct sub →
    sub.flatMap (fun m => collect m.id (assignGo sel parts i sub)) = (assignGo sel parts i sub).flatMap (·.2)
  | [], _, _ => rfl
  | x :: rest, i, hd => by
    have hd' := List.pairwise_cons.mp hd
    have ih := flatMap_collect sel parts rest (i + 1) hd'.2
    unfold assignGo
    rw [List.flatMap_cons, List.flatMap_cons, collect_cons_same,
      collect_assignGo_absent sel parts _ rest (i + 1) (fun y hy e => hd'.1 y hy e.symm), List.append_nil, ← ih]
    congr 1
    apply flatMap_congr'
    intro m hm
    exact collect_cons_other _ _ _ _ (hd'.1 m hm)

/-! ## Range: contiguous runs -/

def rsel (lo hi : Nat) : Nat → Bool := fun j => decide (lo ≤ j) && decide (j < hi)

theorem pick_range_ge (lo hi : Nat) : ∀ (parts : List Int) (j : Nat), lo ≤ j →
    pick (rsel lo hi) j parts = parts.take (hi - j)
  | [], _, _ => by simp [pick]
  | p :: ps, j, h => by
    have ih := pick_range_ge lo hi ps (j + 1) (by omega)
    unfold pick
    by_cases hj : j < hi
    · have : hi - j = (hi - (j + 1)) + 1 := by omega
      simp [rsel, h, hj, ih, this]
    · have : hi - j = 0 := by omega
      simp [rsel, hj, ih, this]
      omega

theorem pick_range (lo hi : Nat) : ∀ (parts : List Int) (j : Nat), j ≤ lo →
    pick (rsel lo hi) j parts = (parts.drop (lo - j)).take (hi - lo)
  | [], _, _ => by simp [pick]
  | p :: ps, j, h => by
    by_cases hj : j = lo
    · subst hj; rw [pick_range_ge j hi _ j (Nat.le_refl _)]; simp
    · have ih := pick_range lo hi ps (j + 1) (by omega)
      unfold pick
      have : lo - j = (lo - (j + 1)) + 1 := by omega
      have hl : ¬ lo ≤ j := by omega
      simp [rsel, hl, ih, this]

theorem rangeSel_eq (M P i : Nat) : rangeSel M P i = rsel (i * P / M) ((i + 1) * P / M) := rfl

theorem brk_mono (M P i k : Nat) (h : i ≤ k) : i * P / M ≤ k * P / M :=
  Nat.div_le_div_right (Nat.mul_le_mul_right _ h)

theorem range_concat (M : Nat) (parts : List Int) : ∀ (sub : List Member) (i : Nat),
    (assignGo (rangeSel M parts.length) parts i sub).flatMap (·.2) =
      (parts.drop (i * parts.length / M)).take ((i + sub.length) * parts.length / M - i * parts.length / M)
  | [], i => by simp [assignGo]
  | m :: rest, i => by
    have ih := range_concat M parts rest (i + 1)
    unfold assignGo
    rw [List.flatMap_cons, ih, rangeSel_eq, pick_range _ _ _ 0 (Nat.zero_le _)]
    have h1 := brk_mono M parts.length i (i + 1) (by omega)
    have h2 := brk_mono M parts.length (i + 1) (i + 1 + rest.length) (by omega)
    have e : (i + (m :: rest).length) = i + 1 + rest.length := by simp; omega
    rw [e]
    generalize i * parts.length / M = a at *
    generalize (i + 1) * parts.length / M = b at *
    generalize (i + 1 + rest.length) * parts.length / M = c at *
    have : c - a = (b - a) + (c - b) := by omega
    rw [this, List.take_add, List.drop_drop]
    have : a + (b - a) = b := by omega
    simp [this]

/-! ## loads: Range runs and RoundRobin strides have ⌊P/M⌋ or ⌊P/M⌋+1 elements -/

theorem brk_step (M P i : Nat) (hM : 0 < M) :
    P / M ≤ (i + 1) * P / M - i * P / M ∧ (i + 1) * P / M - i * P / M ≤ P / M + 1 := by
  rw [Nat.succ_mul, Nat.add_div hM]
  generalize P / M = d
  generalize i * P / M = e
  split <;> omega

theorem brk_le (M P i : Nat) (hM : 0 < M) (hi : i ≤ M) : i * P / M ≤ P := by
  have : i * P / M ≤ M * P / M := Nat.div_le_div_right (Nat.mul_le_mul_right _ hi)
  rwa [Nat.mul_div_cancel_left _ hM] at this

theorem range_pick_length (M : Nat) (parts : List Int) (i : Nat) (hM : 0 < M) (hi : i < M) :
    (pick (rangeSel M parts.length i) 0 parts).length = (i + 1) * parts.length / M - i * parts.length / M := by
  rw [rangeSel_eq, pick_range _ _ _ 0 (Nat.zero_le _)]
  have h1 := brk_le M parts.length (i + 1) hM (by omega)
  have h2 := brk_mono M parts.length i (i + 1) (by omega)
  simp
  omega

/-- number of indices `< n` congruent to `i` modulo `M` -/
def cnt (M i n : Nat) : Nat := n / M + if i < n % M then 1 else 0

theorem cnt_succ (M i n : Nat) (hM : 0 < M) (hi : i < M) :
    cnt M i (n + 1) = cnt M i n + if n % M = i then 1 else 0 := by
  unfold cnt
  have hn := Nat.div_add_mod n M
  have hr := Nat.mod_lt n hM
  by_cases h : n % M + 1 < M
  · have := (Nat.div_mod_unique (a := n + 1) (d := n / M) (c := n % M + 1) hM).mpr ⟨by omega, h⟩
    rw [this.1, this.2]
    split <;> split <;> split <;> omega
  · have := (Nat.div_mod_unique (a := n + 1) (d := n / M + 1) (c := 0) hM).mpr ⟨by rw [Nat.mul_succ]; omega, hM⟩
    rw [this.1, this.2]
    split <;> split <;> split <;> omega

theorem rr_pick_length (M i : Nat) (hM : 0 < M) (hi : i < M) : ∀ (parts : List Int) (j : Nat),
    (pick (rrSel M i) j parts).length + cnt M i j = cnt M i (j + parts.length)
  | [], j => by simp [pick]
  | p :: ps, j => by
    have ih := rr_pick_length M i hM hi ps (j + 1)
    have hs := cnt_succ M i j hM hi
    unfold pick
    have e : j + (p :: ps).length = j + 1 + ps.length := by simp; omega
    rw [e]
    by_cases h : j % M = i
    · simp [rrSel, h] at hs ⊢; omega
    · simp [rrSel, h] at hs ⊢; omega

theorem rr_pick_length0 (M i : Nat) (hM : 0 < M) (hi : i < M) (parts : List Int) :
    (pick (rrSel M i) 0 parts).length = parts.length / M + if i < parts.length % M then 1 else 0 := by
  have := rr_pick_length M i hM hi parts 0
  simp [cnt] at this
  exact this

theorem rr_exactly_one (M j : Nat) (hM : 0 < M) :
    ((List.range' 0 M).filter (fun i => rrSel M i j)).length = 1 := by
  have h1 : (List.range' 0 M).filter (fun i => rrSel M i j) = (List.range' 0 M).filter (fun i => i == j % M) := by
    apply List.filter_congr; intro a _; exact BEq.comm
  rw [h1, ← List.countP_eq_length_filter, ← List.count_eq_countP, List.Nodup.count List.nodup_range']
  have := Nat.mod_lt j hM
  simp [List.mem_range']; omega

/-! ## from the appended entries to the map value of a subscriber; rank = index in the sorted list -/

theorem findPartitions_eq (t : Nat) : ∀ (ps : List Part), findPartitions t ps = partsOf t ps
  | [] => rfl
  | p :: ps => by
    have ih := findPartitions_eq t ps
    unfold findPartitions partsOf
    by_cases h : p.topic = t
    · simp [h, List.filter_cons, ih, partsOf]
    · simp [h, List.filter_cons, ih, partsOf]

/-- in a strictly sorted list the element at index `k` has exactly `k` smaller elements -/
theorem rank_sorted : ∀ (sub : List Member) (k : Nat) (m : Member), sub.Pairwise (fun a b => a.id < b.id) →
    sub[k]? = some m → (sub.filter (fun x => x.id < m.id)).length = k
  | [], k, m, _, h => by simp at h
  | x :: rest, 0, m, hs, h => by
    have hs' := List.pairwise_cons.mp hs
    simp at h; subst h
    have : (x :: rest).filter (fun y => y.id < x.id) = [] := by
      rw [List.filter_eq_nil_iff]
      intro a ha
      rcases List.mem_cons.mp ha with rfl | ha
      · simp
      · have := hs'.1 a ha; simp; omega
    rw [this]; rfl
  | x :: rest, k + 1, m, hs, h => by
    have hs' := List.pairwise_cons.mp hs
    have h' : rest[k]? = some m := by simpa using h
    have hm : m ∈ rest := List.mem_of_getElem? h'
    have ih := rank_sorted rest k m hs'.2 h'
    have := hs'.1 m hm
    simp [List.filter_cons, this, ih]

theorem rank_eq (ms : List Member) (t : Nat) (hd : IdsDistinct ms) (k : Nat) (m : Member)
    (hk : (findMembersByTopic ms t)[k]? = some m) : rank ms t m.id = k := by
  unfold rank
  rw [← ((findMembers_perm ms t).filter _).length_eq]
  exact rank_sorted _ k m (findMembers_strict ms t hd) hk

/-- the entry of a subscriber is what the double loop picks for its rank -/
theorem entry_of_subscriber (sel : Nat → Nat → Bool) (parts : List Int) (ms : List Member) (t : Nat)
    (hd : IdsDistinct ms) (m : Member) (hm : m ∈ subscribers ms t) :
    collect m.id (assignGo sel parts 0 (findMembersByTopic ms t)) = pick (sel (rank ms t m.id)) 0 parts ∧
    rank ms t m.id < (subscribers ms t).length := by
  have hp := findMembers_perm ms t
  have hdist : IdsDistinct (findMembersByTopic ms t) := (subscribers_distinct ms t hd).perm hp.symm
  obtain ⟨k, hk, hc⟩ := collect_assignGo_mem sel parts _ 0 hdist m (hp.mem_iff.mpr hm)
  have hr := rank_eq ms t hd k m hk
  have hlt : k < (findMembersByTopic ms t).length := by
    rcases List.getElem?_eq_some_iff.mp hk with ⟨hlt, _⟩; exact hlt
  rw [hp.length_eq] at hlt
  rw [hr]; simp at hc
  exact ⟨hc, by omega⟩

theorem entry_of_other (sel : Nat → Nat → Bool) (parts : List Int) (ms : List Member) (t id : Nat)
    (hid : ∀ m ∈ subscribers ms t, m.id ≠ id) :
    collect id (assignGo sel parts 0 (findMembersByTopic ms t)) = [] :=
  collect_assignGo_absent sel parts id _ 0 (fun m hm => hid m ((findMembers_perm ms t).mem_iff.mp hm))

/-- the subscribers' entries together are the concatenation of everything the loop appended -/
theorem entries_perm (sel : Nat → Nat → Bool) (parts : List Int) (ms : List Member) (t : Nat)
    (hd : IdsDistinct ms) :
    ((subscribers ms t).flatMap (fun m => collect m.id (assignGo sel parts 0 (findMembersByTopic ms t)))).Perm
      ((assignGo sel parts 0 (findMembersByTopic ms t)).flatMap (·.2)) := by
  have hp := findMembers_perm ms t
  have hdist : IdsDistinct (findMembersByTopic ms t) := (subscribers_distinct ms t hd).perm hp.symm
  rw [← flatMap_collect sel parts _ 0 hdist]
  exact List.Perm.flatMap_right _ hp.symm


/-! ## strides; invariance under the listing order -/

theorem pick_eq_zipIdx (sel : Nat → Bool) : ∀ (l : List Int) (j : Nat),
    pick sel j l = ((l.zipIdx j).filter (fun x => sel x.2)).map (·.1)
  | [], _ => rfl
  | p :: ps, j => by
    have ih := pick_eq_zipIdx sel ps (j + 1)
    unfold pick
    by_cases h : sel j <;> simp [List.zipIdx_cons, List.filter_cons, h, ih]

theorem pick_rr_stride (M i : Nat) (l : List Int) : pick (rrSel M i) 0 l = stride M i l := by
  rw [pick_eq_zipIdx]; rfl

/-- the sorted member list of a topic depends only on the set of members -/
theorem findMembers_perm_invariant (ms ms' : List Member) (hp : ms.Perm ms') (h : WellFormed ms) (t : Nat) :
    findMembersByTopic ms t = findMembersByTopic ms' t := by
  have hd := wf_split h
  have hd' : IdsDistinct ms' := hd.perm hp
  apply strict_sorted_unique _ _ _ (findMembers_strict ms t hd) (findMembers_strict ms' t hd')
  exact (findMembers_perm ms t).trans ((hp.filter _).trans (findMembers_perm ms' t).symm)

end KV.GroupBalancer
