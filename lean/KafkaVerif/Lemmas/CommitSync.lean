/-
Lemmas/CommitSync.lean — the invariant behind `sync_commit_recorded`: the stash dominates the requests being
committed, an acknowledged attempt records them, positive answers are only given for recorded requests.
-/
import KafkaVerif.Lemmas.Stash
namespace KV.Commit

/-- the stash dominates every commit of the request -/
def Dom (s : Stash) (r : Req) : Prop := ∀ c ∈ r.commits, Has s c.tp c.offset

/-- an acknowledged OffsetCommit request, issued after the call of `r` began, covers every commit of `r` -/
def Rec (sent : List (Stash × Bool)) (r : Req) : Prop :=
  ∀ c ∈ r.commits, ∃ i offs, sent[i]? = some (offs, true) ∧ r.sentAtCall ≤ i ∧ Has offs c.tp c.offset

theorem Rec.mono {sent : List (Stash × Bool)} {r : Req} (x : List (Stash × Bool)) (h : Rec sent r) : Rec (sent ++ x) r := by
  intro c hc
  obtain ⟨i, offs, hi, hb, hh⟩ := h c hc
  refine ⟨i, offs, ?_, hb, hh⟩
  have hlt : i < sent.length := by
    rcases Nat.lt_or_ge i sent.length with h | h
    · exact h
    · rw [List.getElem?_eq_none h] at hi; cases hi
  rw [List.getElem?_append_left hlt]; exact hi

theorem dom_nil_rec {r : Req} (sent : List (Stash × Bool)) (h : Dom [] r) : Rec sent r := by
  intro c hc
  obtain ⟨o, hm, _⟩ := h c hc
  cases hm

def pcReqs : LPC → List Req
  | .draining rs | .committing rs _ _ | .done rs _ _ => rs
  | _ => []

def domPc (st : Stash) : LPC → Prop
  | .draining rs | .committing rs _ _ => ∀ r ∈ rs, Dom st r
  | _ => True

def recPc (sent : List (Stash × Bool)) : LPC → Prop
  | .done rs true _ => ∀ r ∈ rs, Rec sent r
  | _ => True

structure SInv (s : CState) : Prop where
  uniq : Uniq s.stash
  dom : domPc s.stash s.pc
  recp : recPc s.sent s.pc
  recr : ∀ x ∈ s.replied, x.2 = true → Rec s.sent x.1
  bq : ∀ r ∈ s.queue, r.sentAtCall ≤ s.sent.length
  bp : ∀ r ∈ pcReqs s.pc, r.sentAtCall ≤ s.sent.length

theorem sinv_enterCommit (s : CState) (rs : List Req) (f : Bool) (h : SInv s)
    (hd : ∀ r ∈ rs, Dom s.stash r) (hb : ∀ r ∈ rs, r.sentAtCall ≤ s.sent.length) : SInv (enterCommit s rs f) := by
  unfold enterCommit
  split
  · rename_i he
    have hnil : s.stash = [] := by simpa using he
    refine ⟨h.uniq, trivial, ?_, h.recr, h.bq, hb⟩
    intro r hr
    exact dom_nil_rec _ (hnil ▸ hd r hr)
  · exact ⟨h.uniq, hd, trivial, h.recr, h.bq, hb⟩

theorem sinv_settle (s : CState) (h : SInv s) : SInv (settle s) := by
  unfold settle
  split
  · rename_i rs hp
    have hd := h.dom; have hb := h.bp
    rw [hp] at hd hb
    exact sinv_enterCommit s rs true h hd hb
  · split
    · exact h
    · exact ⟨h.uniq, trivial, trivial, h.recr, h.bq, (by intro r hr; cases hr)⟩
  · exact h

theorem sameMap_sup (a b : Stash) (h : sameMap a b = true) : ∀ e ∈ b, e ∈ a := by
  intro e he
  unfold sameMap at h
  simp only [Bool.and_eq_true, List.all_eq_true] at h
  have := h.2 e he
  simpa using this

theorem sinv_init : SInv {} :=
  ⟨uniq_nil, trivial, trivial, (by intro x hx; cases hx), (by intro r hr; cases hr), (by intro r hr; cases hr)⟩

theorem sinv_step (s s' : CState) (e : CEv) (hi : SInv s) (h : cstep s e = some s') : SInv s' := by
  cases e <;> simp only [cstep] at h
  case call id msgs =>
    cases h
    refine ⟨hi.uniq, hi.dom, hi.recp, hi.recr, ?_, hi.bp⟩
    intro r hr
    rcases List.mem_append.mp hr with hr | hr
    · exact hi.bq r hr
    · simp at hr; subst hr; exact Nat.le_refl _
  case begin sync =>
    split at h
    · cases h; exact ⟨uniq_nil, trivial, trivial, hi.recr, hi.bq, (by intro r hr; cases hr)⟩
    · cases h
  case deq commits drain =>
    have hs : SInv (if drain = true then s else settle s) := by
      split
      · exact hi
      · exact sinv_settle s hi
    generalize (if drain = true then s else settle s) = t at h hs
    split at h
    · cases h
    · rename_i r q' htk
      obtain ⟨hr, hrc, hq⟩ := takeReq_spec _ _ _ _ htk
      have hu' : Uniq (t.stash.merge commits) := uniq_merge _ _ hs.uniq
      have hdr : Dom (t.stash.merge commits) r := by
        intro c hc; exact has_merge_self commits t.stash hs.uniq c (hrc ▸ hc)
      have hbr := hs.bq r hr
      split at h
      · rename_i hp
        split at h
        · cases h
          apply sinv_enterCommit
          · refine ⟨hu', ?_, ?_, hs.recr, fun x hx => hs.bq x (hq x hx), ?_⟩
            · rw [hp]; trivial
            · rw [hp]; trivial
            · rw [hp]; intro x hx; cases hx
          · intro x hx; simp at hx; subst hx; exact hdr
          · intro x hx; simp at hx; subst hx; exact hbr
        · cases h
          refine ⟨hu', ?_, ?_, hs.recr, fun x hx => hs.bq x (hq x hx), ?_⟩
          · rw [hp]; trivial
          · rw [hp]; trivial
          · rw [hp]; intro x hx; cases hx
      · rename_i rs hp
        cases h
        have hd := hs.dom; have hb := hs.bp
        rw [hp] at hd hb
        have hdm : ∀ x ∈ rs, Dom (t.stash.merge commits) x := by
          intro x hx c hc
          exact has_merge_mono commits t.stash hs.uniq _ _ (hd x hx c hc)
        refine ⟨hu', ?_, trivial, hs.recr, fun x hx => hs.bq x (hq x hx), ?_⟩
        · show ∀ x ∈ (if t.sync = true then rs ++ [r] else rs), Dom _ x
          split
          · intro x hx
            rcases List.mem_append.mp hx with hx | hx
            · exact hdm x hx
            · simp at hx; subst hx; exact hdr
          · exact hdm
        · show ∀ x ∈ (if t.sync = true then rs ++ [r] else rs), _
          split
          · intro x hx
            rcases List.mem_append.mp hx with hx | hx
            · exact hb x hx
            · simp at hx; subst hx; exact hbr
          · exact hb
      · cases h
  case attempt offs ok =>
    have hs := sinv_settle s hi
    generalize settle s = t at h hs
    split at h
    · rename_i rs att final hp
      split at h
      · rename_i hc
        simp only [Bool.and_eq_true] at hc
        have hd := hs.dom; have hb := hs.bp
        rw [hp] at hd hb
        have hrr : ∀ x ∈ t.replied, x.2 = true → Rec (t.sent ++ [(offs, ok)]) x.1 :=
          fun x hx hx2 => (hs.recr x hx hx2).mono _
        have hbq : ∀ r ∈ t.queue, r.sentAtCall ≤ (t.sent ++ [(offs, ok)]).length := by
          intro r hr; have := hs.bq r hr; simp; omega
        have hbp : ∀ r ∈ rs, r.sentAtCall ≤ (t.sent ++ [(offs, ok)]).length := by
          intro r hr; have := hb r hr; simp; omega
        split at h
        · rename_i hok
          cases h
          subst hok
          refine ⟨hs.uniq, trivial, ?_, hrr, hbq, hbp⟩
          intro r hr c hcm
          obtain ⟨o, hm, hle⟩ := hd r hr c hcm
          refine ⟨t.sent.length, offs, by simp, hb r hr, o, sameMap_sup _ _ hc.1 _ hm, hle⟩
        · split at h
          · cases h; exact ⟨hs.uniq, hd, trivial, hrr, hbq, hbp⟩
          · cases h; exact ⟨hs.uniq, trivial, trivial, hrr, hbq, hbp⟩
      · cases h
    · cases h
  case abort =>
    have hs := sinv_settle s hi
    generalize settle s = t at h hs
    split at h
    · rename_i rs att final hp
      split at h
      · cases h
        have hb := hs.bp; rw [hp] at hb
        exact ⟨hs.uniq, trivial, trivial, hs.recr, hs.bq, hb⟩
      · cases h
    · cases h
  case replied =>
    split at h
    · rename_i r ok hp
      split at h
      · cases h
        have hr := hi.recp; rw [hp] at hr
        refine ⟨uniq_nil, trivial, trivial, ?_, hi.bq, (by intro x hx; cases hx)⟩
        intro x hx hx2
        rcases List.mem_append.mp hx with hx | hx
        · exact hi.recr x hx hx2
        · simp at hx; subst hx
          simp at hx2; subst hx2
          exact hr r List.mem_cons_self
      · cases h
    · cases h
  case reply ok' =>
    have hs := sinv_settle s hi
    generalize settle s = t at h hs
    split at h
    · rename_i r rs ok hp
      split at h
      · cases h
        have hr := hs.recp; have hb := hs.bp
        rw [hp] at hr hb
        refine ⟨hs.uniq, trivial, ?_, ?_, hs.bq, fun x hx => hb x (List.mem_cons_of_mem _ hx)⟩
        · cases ok with
          | false => trivial
          | true => exact fun x hx => hr x (List.mem_cons_of_mem _ hx)
        · intro x hx hx2
          rcases List.mem_append.mp hx with hx | hx
          · exact hs.recr x hx hx2
          · simp at hx; subst hx
            simp at hx2; subst hx2
            exact hr r List.mem_cons_self
      · cases h
    · cases h
  case reset =>
    have hs := sinv_settle s hi
    generalize settle s = t at h hs
    split at h
    · split at h
      · cases h
        refine ⟨uniq_nil, ?_, ?_, hs.recr, hs.bq, ?_⟩
        · split <;> trivial
        · split
          · intro x hx; cases hx
          · trivial
        · split <;> (intro x hx; cases hx)
      · cases h
    · cases h
  case tick =>
    have hs := sinv_settle s hi
    generalize settle s = t at h hs
    split at h
    · cases h
      exact sinv_enterCommit t [] false hs (by intro x hx; cases hx) (by intro x hx; cases hx)
    · cases h
  case genEnd =>
    have hs := sinv_settle s hi
    generalize settle s = t at h hs
    split at h
    · cases h
      exact ⟨hs.uniq, (by intro x hx; cases hx), trivial, hs.recr, hs.bq, (by intro x hx; cases hx)⟩
    · cases h
  case endLoop =>
    have hs := sinv_settle s hi
    generalize settle s = t at h hs
    split at h
    · cases h
      exact ⟨hs.uniq, trivial, trivial, hs.recr, hs.bq, (by intro x hx; cases hx)⟩
    · cases h
  case ret id ok =>
    split at h
    · cases h; exact ⟨hi.uniq, hi.dom, hi.recp, hi.recr, hi.bq, hi.bp⟩
    · cases h

theorem enterCommit_replied (s : CState) (rs : List Req) (f : Bool) :
    (enterCommit s rs f).replied = s.replied ∧ (enterCommit s rs f).rets = s.rets := by
  unfold enterCommit; split <;> exact ⟨rfl, rfl⟩

theorem settle_replied (s : CState) : (settle s).replied = s.replied ∧ (settle s).rets = s.rets := by
  unfold settle
  split
  · exact enterCommit_replied _ _ _
  · split <;> exact ⟨rfl, rfl⟩
  · exact ⟨rfl, rfl⟩

/-- every synchronous CommitMessages that returned was answered by the commit loop with that result -/
def RetOK (s : CState) : Prop := ∀ x ∈ s.rets, ∃ r, r.id = x.1 ∧ (r, x.2) ∈ s.replied

theorem retok_grow {s t : CState} (h : RetOK s) (hr : t.rets = s.rets) (hp : ∀ x ∈ s.replied, x ∈ t.replied) : RetOK t := by
  intro x hx
  rw [hr] at hx
  obtain ⟨r, h1, h2⟩ := h x hx
  exact ⟨r, h1, hp _ h2⟩

theorem retok_step (s s' : CState) (e : CEv) (hi : RetOK s) (h : cstep s e = some s') : RetOK s' := by
  have hset : RetOK (settle s) := retok_grow hi (settle_replied s).2 (by rw [(settle_replied s).1]; exact fun x hx => hx)
  cases e <;> simp only [cstep] at h
  case call id msgs => cases h; exact retok_grow hi rfl (fun x hx => hx)
  case begin sync =>
    split at h
    · cases h; exact retok_grow hi rfl (fun x hx => hx)
    · cases h
  case deq commits drain =>
    have hs : RetOK (if drain = true then s else settle s) := by split; exact hi; exact hset
    generalize (if drain = true then s else settle s) = t at h hs
    split at h
    · cases h
    · split at h
      · split at h
        · cases h
          exact retok_grow hs (enterCommit_replied _ _ _).2 (by rw [(enterCommit_replied _ _ _).1]; exact fun x hx => hx)
        · cases h; exact retok_grow hs rfl (fun x hx => hx)
      · cases h; exact retok_grow hs rfl (fun x hx => hx)
      · cases h
  case attempt offs ok =>
    generalize settle s = t at h hset
    split at h
    · split at h
      · split at h
        · cases h; exact retok_grow hset rfl (fun x hx => hx)
        · split at h <;> (cases h; exact retok_grow hset rfl (fun x hx => hx))
      · cases h
    · cases h
  case abort =>
    generalize settle s = t at h hset
    split at h
    · split at h
      · cases h; exact retok_grow hset rfl (fun x hx => hx)
      · cases h
    · cases h
  case replied =>
    split at h
    · split at h
      · cases h; exact retok_grow hi rfl (fun x hx => List.mem_append_left _ hx)
      · cases h
    · cases h
  case reply ok' =>
    generalize settle s = t at h hset
    split at h
    · split at h
      · cases h; exact retok_grow hset rfl (fun x hx => List.mem_append_left _ hx)
      · cases h
    · cases h
  case reset =>
    generalize settle s = t at h hset
    split at h
    · split at h
      · cases h; exact retok_grow hset rfl (fun x hx => hx)
      · cases h
    · cases h
  case tick =>
    generalize settle s = t at h hset
    split at h
    · cases h
      exact retok_grow hset (enterCommit_replied _ _ _).2 (by rw [(enterCommit_replied _ _ _).1]; exact fun x hx => hx)
    · cases h
  case genEnd =>
    generalize settle s = t at h hset
    split at h
    · cases h; exact retok_grow hset rfl (fun x hx => hx)
    · cases h
  case endLoop =>
    generalize settle s = t at h hset
    split at h
    · cases h; exact retok_grow hset rfl (fun x hx => hx)
    · cases h
  case ret id ok =>
    split at h
    · rename_i hany
      cases h
      intro x hx
      rcases List.mem_append.mp hx with hx | hx
      · exact hi x hx
      · simp at hx; subst hx
        simp only [List.any_eq_true, Bool.and_eq_true, beq_iff_eq] at hany
        obtain ⟨y, hy, h1, h2⟩ := hany
        exact ⟨y.1, h1, by rw [← h2]; exact hy⟩
    · cases h

theorem retok_reachable (s : CState) (h : CReachable s) : RetOK s := by
  induction h with
  | init => intro x hx; cases hx
  | step e _ hs ih => exact retok_step _ _ e ih hs

theorem sinv_reachable (s : CState) (h : CReachable s) : SInv s := by
  induction h with
  | init => exact sinv_init
  | step e _ hs ih => exact sinv_step _ _ e ih hs

end KV.Commit
