/-
Lemmas/GroupDeadlines.lean — a closed consumer group gets out of every coordinator request iff the request has a
deadline (Model/GroupDeadlines.lean): progress of `run` and of the generation's functions against a silent coordinator.
-/
import KafkaVerif.Model.GroupDeadlines
import KafkaVerif.Lemmas.GroupCloseProgress
namespace KV.GroupClose
open KV.Group

theorem stepSilentG_sub (f : Bool) (c : Cfg) (s s' : St) (e : Ev) (h : stepSilentG f c s e = some s') : step c s e = some s' := by
  unfold stepSilentG at h
  split at h
  · cases h
  · split at h
    · exact h
    · cases h
  · exact h

/-- an event that is not the return of a coordinator request is as enabled as before -/
theorem stepSilentG_other (f : Bool) (c : Cfg) (s : St) (e : Ev) (h : e.coordAnswer = none) : stepSilentG f c s e = step c s e := by
  unfold stepSilentG; rw [h]

/-- a local failure is possible when the request has a deadline -/
theorem stepSilentG_fail (c : Cfg) (s : St) (e : Ev) (h : e.coordAnswer = some false) : stepSilentG true c s e = step c s e := by
  unfold stepSilentG; rw [h]; rfl

/-- `run_progress_when_closed` against a silent coordinator: wherever `run` waits for a coordinator answer the enabled
step is the request's failure by deadline -/
theorem run_progress_when_closed_silent (c : Cfg) (s : St) (hc : s.closedCG = true) (hx : s.pc ≠ .exited)
    (hw : ∀ ret r, s.pc ≠ .waiting ret r) (hs : ∀ k, s.pc ≠ .starting k)
    (hcur : (s.pc = .handing ∨ s.pc = .running ∨ ∃ r, s.pc = .closing r) → 0 < s.gens)
    (hk : ∀ k lv, s.pc = .coord k lv → k ≤ 2) :
    ∃ e, e.runLoop = true ∧ (stepSilentG true c s e).isSome = true := by
  cases hpc : s.pc with
  | exited => exact absurd hpc hx
  | waiting ret r => exact absurd hpc (hw ret r)
  | starting k => exact absurd hpc (hs k)
  | exiting => exact ⟨.runExit, rfl, by rw [stepSilentG_other _ _ _ _ rfl]; simp [step, hpc]⟩
  | coord k lv =>
    match k with
    | 0 => exact ⟨.connectRes none, rfl, by rw [stepSilentG_other _ _ _ _ rfl]; simp [step, hpc]⟩
    | 1 => exact ⟨.findRes (some .net), rfl, by rw [stepSilentG_fail _ _ _ rfl]; simp [step, hpc]⟩
    | 2 => exact ⟨.connectRes none, rfl, by rw [stepSilentG_other _ _ _ _ rfl]; simp [step, hpc]⟩
    | k + 3 => exact absurd (hk _ _ hpc) (by omega)
  | joining => exact ⟨.joinErr s.member .net, rfl, by rw [stepSilentG_fail _ _ _ rfl]; simp [step, hpc]⟩
  | assigning => exact ⟨.partsRes (some .net), rfl, by rw [stepSilentG_fail _ _ _ rfl]; simp [step, hpc]⟩
  | syncing => exact ⟨.syncRes s.jm s.jg (some .net), rfl, by rw [stepSilentG_fail _ _ _ rfl]; simp [step, hpc]⟩
  | fetching => exact ⟨.fetchRes (some .net), rfl, by rw [stepSilentG_fail _ _ _ rfl]; simp [step, hpc]⟩
  | created => exact ⟨.gNew s.gens s.jg s.jm, rfl, by rw [stepSilentG_other _ _ _ _ rfl]; simp [step, hpc]⟩
  | handing => have hcur := hcur (Or.inl hpc); exact ⟨.sawClose (s.gens - 1) false, rfl, by rw [stepSilentG_other _ _ _ _ rfl]; simp [step, hpc, hc, isCur]; omega⟩
  | running => have hcur := hcur (Or.inr (Or.inl hpc)); exact ⟨.sawClose (s.gens - 1) true, rfl, by rw [stepSilentG_other _ _ _ _ rfl]; simp [step, hpc, hc, isCur]; omega⟩
  | closing ret => have hcur := hcur (Or.inr (Or.inr ⟨ret, hpc⟩)); exact ⟨.gClose (s.gens - 1) s.cur.closed s.cur.routines, rfl, by rw [stepSilentG_other _ _ _ _ rfl]; simp [step, hpc, isCur]; omega⟩
  | retp m e => exact ⟨.nextGenRet m e, rfl, by
      rw [stepSilentG_other _ _ _ _ rfl]
      have hr : returnsNow s m e = true := by simp [returnsNow, hpc]
      simp only [step, hr, if_true]
      cases e with
      | none => rfl
      | some er => cases er <;> rfl⟩
  | leaveP a => exact ⟨.leave s.member, rfl, by rw [stepSilentG_other _ _ _ _ rfl]; simp only [step, hpc, beq_self_eq_true, if_true]; split <;> rfl⟩
  | leaveCall a => exact ⟨.leaveRes s.member false, rfl, by rw [stepSilentG_fail _ _ _ rfl]; simp [step, hpc]⟩
  | delivering e bk => exact ⟨.errDeliver e false, rfl, by rw [stepSilentG_other _ _ _ _ rfl]; simp [step, hpc, hc]; split <;> rfl⟩
  | backoffP b =>
    cases b
    · exact ⟨.backoff 0, rfl, by rw [stepSilentG_other _ _ _ _ rfl]; simp [step, hpc]⟩
    · exact ⟨.backoff 1, rfl, by rw [stepSilentG_other _ _ _ _ rfl]; simp [step, hpc]⟩

/-- `genEv` plus the local failure of a watcher's request -/
def genEvS (e : Ev) : Bool := genEv e || (match e with | .watchErr _ _ _ => true | _ => false)

/-- **progress inside `gen.close()` against a silent coordinator** -/
theorem waiting_progress_silent (c : Cfg) (s : St) (hr : Reachable c s) (ret : Option Err) (r : Nat)
    (hp : s.pc = .waiting ret r) : ∃ e, genEvS e = true ∧ (stepSilentG true c s e).isSome = true := by
  have h3 := inv3_reachable c s hr
  have h1 := inv1_reachable c s hr
  have hi := ci_reachable c s hr
  have hg : 0 < s.gens := h3.hasGen (by simp [hp, PC.quiet])
  have hcur : isCur s (s.gens - 1) = true := by simp [isCur]; omega
  obtain ⟨hclosed, -⟩ := h1.2.2 ret r hp
  by_cases hcan : s.cur.closeCanReturn r = true
  · exact ⟨.gClosed (s.gens - 1), rfl, by rw [stepSilentG_other _ _ _ _ rfl]; simp [step, hp, hcur, hcan]⟩
  · have hcan' : s.cur.closeCanReturn r = false := by simpa using hcan
    simp only [Gen.closeCanReturn, Bool.or_eq_false_iff, beq_eq_false_iff_ne, ne_eq] at hcan'
    obtain ⟨hr0, hj⟩ := hcan'
    -- some accounted function has not run its exit section
    have hacc : 0 < s.cur.accounted := by have := hi.wait ret r hp; omega
    have hrt : 0 < s.cur.routines := by
      rcases Nat.eq_zero_or_pos s.cur.routines with h0 | h0
      · have := h1.1.joined_iff.mpr ⟨hclosed, h0, hacc⟩
        rw [hj] at this; cases this
      · exact h0
    have hA := hi.acc
    unfold Acc at hA
    by_cases hret : 0 < s.cur.returning
    · refine ⟨.fnExit (s.gens - 1) false (s.cur.routines - 1), rfl, ?_⟩
      have h1' : ¬(s.cur.routines = 0 ∨ s.cur.returning = 0) := by omega
      have h2' : ¬(s.cur.routines = 1 ∧ s.cur.joined = true) := by simp [hj]
      have hl : s.cur.routines - 1 + 1 = s.cur.routines := by omega
      rw [stepSilentG_other _ _ _ _ rfl]
      simp [step, onCur, hcur, gFnExit, hclosed, hl, Gen.fnExit, h1', h2']
    · by_cases hhb : 0 < hbLive s.cur.hb
      · cases hh : s.cur.hb with
        | none => simp [hh, hbLive] at hhb
        | some p =>
          cases p with
          | idle => exact ⟨.hbExit (s.gens - 1), rfl, by rw [stepSilentG_other _ _ _ _ rfl]; simp [step, onCur, hcur, gHbExit, hh, hclosed]⟩
          | calling => exact ⟨.hbRet (s.gens - 1) (some .net), rfl, by rw [stepSilentG_fail _ _ _ rfl]; simp [step, onCur, hcur, gHbRet, hh]⟩
          | failed => exact ⟨.hbExit (s.gens - 1), rfl, by rw [stepSilentG_other _ _ _ _ rfl]; simp [step, onCur, hcur, gHbExit, hh]⟩
          | done => simp [hh, hbLive] at hhb
      · by_cases hwl : 0 < wLive s.cur.watchers
        · obtain ⟨t, w, hw, hnd⟩ := exists_live_watcher s.cur.watchers hwl
          cases w with
          | init => exact ⟨.watchCall (s.gens - 1) t, rfl, by rw [stepSilentG_other _ _ _ _ rfl]; simp [step, onCur, hcur, gWatchCall, hw]⟩
          | calling0 => exact ⟨.watchErr (s.gens - 1) t .net, rfl, by rw [stepSilentG_fail _ _ _ rfl]; simp [step, onCur, hcur, gWatchErr, hw]⟩
          | idle n => exact ⟨.watchExit (s.gens - 1) t, rfl, by rw [stepSilentG_other _ _ _ _ rfl]; simp [step, onCur, hcur, gWatchExit, hw, hclosed]⟩
          | calling n => exact ⟨.watchErr (s.gens - 1) t .net, rfl, by rw [stepSilentG_fail _ _ _ rfl]; simp [step, onCur, hcur, gWatchErr, hw, Err.isKafka]⟩
          | failed => exact ⟨.watchExit (s.gens - 1) t, rfl, by rw [stepSilentG_other _ _ _ _ rfl]; simp [step, onCur, hcur, gWatchExit, hw]⟩
          | done => exact absurd rfl hnd
        · have hu : 0 < s.cur.users := by omega
          exact ⟨.uRet (s.gens - 1) true, rfl, by rw [stepSilentG_other _ _ _ _ rfl]; simp [step, hcur, onCur, gURet, hu]⟩


/-- **a closed group can always move, also when the coordinator has stopped answering**, provided every coordinator
request is made under a deadline -/
theorem run_progress_full_silent (c : Cfg) (s : St) (hr : Reachable c s) (hc : s.closedCG = true) (hx : s.pc ≠ .exited) :
    ∃ e, (e.runLoop = true ∨ (∃ g acc, e = .gStart g acc) ∨ genEvS e = true) ∧ (stepSilentG true c s e).isSome = true := by
  have hi := inv3_reachable c s hr
  by_cases hw : ∃ ret r, s.pc = .waiting ret r
  · obtain ⟨ret, r, hp⟩ := hw
    obtain ⟨e, he, hen⟩ := waiting_progress_silent c s hr ret r hp
    exact ⟨e, Or.inr (Or.inr he), hen⟩
  · have hw' : ∀ ret r, s.pc ≠ .waiting ret r := fun ret r h => hw ⟨ret, r, h⟩
    by_cases hs : ∃ k, s.pc = .starting k
    · -- starting the generation's own functions involves no coordinator request
      obtain ⟨k, hpc⟩ := hs
      have hg : 0 < s.gens := hi.hasGen (by simp [hpc, PC.quiet])
      have hcur : isCur s (s.gens - 1) = true := by simp [isCur]; omega
      refine ⟨.gStart (s.gens - 1) s.cur.start.2, Or.inr (Or.inl ⟨_, _, rfl⟩), ?_⟩
      rw [stepSilentG_other _ _ _ _ rfl]
      simp only [step, hcur, if_true, hpc]
      by_cases hk : k = 0
      · subst hk
        obtain ⟨hcl, _⟩ := hi.fresh hpc
        simp [gHbStart, Gen.start, hcl]
      · have : (k == 0) = false := by simp [hk]
        simp [this, gWatchStart]
    · have hs' : ∀ k, s.pc ≠ .starting k := fun k hk => hs ⟨k, hk⟩
      have hgens : (s.pc = .handing ∨ s.pc = .running ∨ ∃ r, s.pc = .closing r) → 0 < s.gens := by
        intro h
        apply hi.hasGen
        rcases h with h | h | ⟨r, h⟩ <;> simp [h, PC.quiet]
      obtain ⟨e, he, hen⟩ := run_progress_when_closed_silent c s hc hx hw' hs' hgens hi.stage
      exact ⟨e, Or.inl he, hen⟩

theorem silent_false_answer (c : Cfg) (s : St) (e : Ev) (h : e.coordAnswer.isSome = true) : stepSilentG false c s e = none := by
  unfold stepSilentG
  cases ha : e.coordAnswer with
  | none => rw [ha] at h; cases h
  | some b => cases b <;> rfl

/-- **a coordinator request without a deadline blocks `run` for ever**: waiting for the answer of FindCoordinator,
JoinGroup, SyncGroup or LeaveGroup (the pcs from which the model has no local way out), against a silent coordinator `run` has no step
(`cg.done` is not observed by a blocked socket read): `ConsumerGroup.Close` waits in `cg.wg.Wait()`. -/
theorem run_blocked_without_deadline (c : Cfg) (s : St)
    (hp : (∃ lv, s.pc = .coord 1 lv) ∨ s.pc = .joining ∨ s.pc = .syncing ∨ ∃ a, s.pc = .leaveCall a)
    (e : Ev) (he : e.runLoop = true) : stepSilentG false c s e = none := by
  rcases hp with ⟨lv, hpc⟩ | hpc | hpc | ⟨a, hpc⟩ <;>
    (cases e <;> simp [Ev.runLoop] at he <;>
      first
      | (refine silent_false_answer _ _ _ ?_; simp [Ev.coordAnswer]; done)
      | (simp [stepSilentG, Ev.coordAnswer, step, hpc, returnsNow]; done)
      | (simp [stepSilentG, Ev.coordAnswer, step, hpc, returnsNow]; intros; split <;> simp))

end KV.GroupClose
