/-
Lemmas/WriterAge.lean — the age of the attached batch (C08 "closed once BatchTimeout has elapsed since it was opened"):
the model carries a clock (`tick`), every batch records when it was created, and the clock cannot pass
`openedAt + linger` of a batch that is still attached and whose timer has not fired.  `InvAge`: in every reachable
state an attached batch whose timer has not fired is at most `linger` old — whatever was appended to it meanwhile
(`add` neither moves `openedAt` nor the clock: the timer is armed once, at creation).
-/
import KafkaVerif.Lemmas.WriterProgress

namespace KV.Writer

def InvAge (cfg : Cfg) (s : State) : Prop :=
  ∀ pw P, s.pws pw = some P → ∀ b, P.curr = some b → ∀ B, s.batches b = some B →
    B.timerFired = true ∨ cfg.linger = 0 ∨ s.now ≤ s.openedAt b + cfg.linger

theorem invAge_init (cfg : Cfg) : InvAge cfg State.init := by
  intro pw P h; simp [State.init] at h

/-- frame: clock and opening times unchanged; partition writers keep their attached batch or drop it; batches keep
(or set) their timer flag -/
theorem InvAge.of_frame {cfg : Cfg} {s s' : State} (h : InvAge cfg s) (hnow : s'.now = s.now)
    (hopen : s'.openedAt = s.openedAt)
    (hpws : ∀ pw P', s'.pws pw = some P' → P'.curr = none ∨ ∃ P, s.pws pw = some P ∧ P'.curr = P.curr)
    (hbat : ∀ b B', s'.batches b = some B' → ∃ B, s.batches b = some B ∧ (B.timerFired = true → B'.timerFired = true)) :
    InvAge cfg s' := by
  intro pw P' hP' b hc B' hB'
  rcases hpws pw P' hP' with hn | ⟨P, hP, e⟩
  · rw [hn] at hc; cases hc
  · obtain ⟨B, hB, hf⟩ := hbat b B' hB'
    rcases h pw P hP b (e ▸ hc) B hB with h1 | h2 | h3
    · exact Or.inl (hf h1)
    · exact Or.inr (Or.inl h2)
    · exact Or.inr (Or.inr (by rw [hnow, hopen]; exact h3))

theorem aframe_pws_id {s s' : State} (e : s'.pws = s.pws) :
    ∀ pw P', s'.pws pw = some P' → P'.curr = none ∨ ∃ P, s.pws pw = some P ∧ P'.curr = P.curr :=
  fun pw P' h => Or.inr ⟨P', by rw [← e]; exact h, rfl⟩

theorem aframe_pws_upd {s s' : State} {pw : Nat} {P P' : PW} (hP : s.pws pw = some P)
    (e : s'.pws = upd s.pws pw (some P')) (h1 : P'.curr = none ∨ P'.curr = P.curr) :
    ∀ x X', s'.pws x = some X' → X'.curr = none ∨ ∃ X, s.pws x = some X ∧ X'.curr = X.curr := by
  intro x X' hx
  rw [e] at hx
  rcases upd_some_elim hx with ⟨rfl, rfl⟩ | ⟨-, hx⟩
  · rcases h1 with h | h
    · exact Or.inl h
    · exact Or.inr ⟨P, hP, h⟩
  · exact Or.inr ⟨X', hx, rfl⟩

theorem aframe_bat_id {s s' : State} (e : s'.batches = s.batches) :
    ∀ b B', s'.batches b = some B' → ∃ B, s.batches b = some B ∧ (B.timerFired = true → B'.timerFired = true) :=
  fun b B' h => ⟨B', by rw [← e]; exact h, fun x => x⟩

theorem aframe_bat_upd {s s' : State} {b : Nat} {B0 B0' : Batch} (hB : s.batches b = some B0)
    (e : s'.batches = upd s.batches b (some B0')) (h1 : B0.timerFired = true → B0'.timerFired = true) :
    ∀ x X', s'.batches x = some X' → ∃ X, s.batches x = some X ∧ (X.timerFired = true → X'.timerFired = true) := by
  intro x X' hx
  rw [e] at hx
  rcases upd_some_elim hx with ⟨rfl, rfl⟩ | ⟨-, hx⟩
  · exact ⟨B0, hB, h1⟩
  · exact ⟨X', hx, fun y => y⟩

theorem invAge_step (cfg : Cfg) (s : State) (e : Event) (s' : State) (hO : InvOrd s) (hS : InvSched cfg s)
    (hI : InvAge cfg s) (hs : step cfg s e = some s') : InvAge cfg s' := by
  cases e with
  | tick t =>
    simp only [step] at hs
    repeat' split at hs
    all_goals (first | (cases hs; done) | skip)
    rename_i hg
    cases hs
    intro pw P hP b hc B hB
    have hno := hg.2
    unfold notOverdue at hno
    rcases Bool.or_eq_true_iff.mp hno with h0 | hall
    · exact Or.inr (Or.inl (by simpa using h0))
    · rw [List.all_eq_true] at hall
      have := hall pw (hS.pwListed pw P hP)
      have hP' : s.pws pw = some P := hP
      have hB' : s.batches b = some B := hB
      rw [hP'] at this
      simp only [hc, hB'] at this
      rcases Bool.or_eq_true_iff.mp this with h1 | h2
      · exact Or.inl h1
      · exact Or.inr (Or.inr (by simpa using h2))
  | newPW pw q tp =>
    simp only [step] at hs
    repeat' split at hs
    all_goals (first | (cases hs; done) | skip)
    rename_i hg
    cases hs
    refine hI.of_frame rfl rfl ?_ (aframe_bat_id rfl)
    intro x X' hx
    rcases upd_some_elim hx with ⟨rfl, rfl⟩ | ⟨-, hx⟩
    · exact Or.inl rfl
    · exact Or.inr ⟨X', hx, rfl⟩
  | newBatch pw b =>
    simp only [step] at hs
    repeat' split at hs
    all_goals (first | (cases hs; done) | skip)
    rename_i _ P hP hg
    cases hs
    have hnone : s.batches b = none := by
      have := hg.2.2.2.1
      cases hp : s.batches b with
      | none => rfl
      | some X => rw [hp] at this; cases this
    intro x X' hx0 y hc Y' hY'
    rcases upd_some_elim hx0 with ⟨rfl, rfl⟩ | ⟨hne, hx⟩
    all_goals clear hx0
    · -- the partition writer that opened the batch: its attached batch is the new one, opened now
      have : b = y := by simpa using hc
      subst this
      refine Or.inr (Or.inr ?_)
      show s.now ≤ upd s.openedAt b s.now b + cfg.linger
      rw [upd_same]; exact Nat.le_add_right _ _
    · -- another partition writer: its attached batch is an old one
      have hyb : y ≠ b := by
        rintro rfl
        obtain ⟨Y, hY, -⟩ := hO.pipeEx x X' hx y (by simp [PW.pipe, hc])
        rw [hnone] at hY; cases hY
      have hY : s.batches y = some Y' := by
        have : upd s.batches b (some (Batch.new pw P.tp P.nbatches)) y = some Y' := hY'
        rw [upd_other _ _ _ _ hyb] at this; exact this
      rcases hI x X' hx y hc Y' hY with h1 | h2 | h3
      · exact Or.inl h1
      · exact Or.inr (Or.inl h2)
      · refine Or.inr (Or.inr ?_)
        show s.now ≤ upd s.openedAt b s.now y + cfg.linger
        rw [upd_other _ _ _ _ hyb]; exact h3
  | add pw b c i size =>
    simp only [step, stepAdd] at hs
    repeat' split at hs
    all_goals (first | (cases hs; done) | skip)
    rename_i _ P hPq _ B hB _ C hC hg
    cases hs
    exact hI.of_frame rfl rfl (aframe_pws_id rfl) (aframe_bat_upd hB rfl (fun x => x))
  | detach pw b why size =>
    simp only [step, stepDetach] at hs
    repeat' split at hs
    all_goals (first | (cases hs; done) | skip)
    rename_i _ P hP _ B hB hg
    cases hs
    exact hI.of_frame rfl rfl (aframe_pws_upd hP rfl (Or.inl rfl))
      (aframe_bat_upd (B0' := { B with detached := some why }) hB rfl (fun x => x))
  | qput q b acc =>
    simp only [step] at hs
    repeat' split at hs
    all_goals (first | (cases hs; done) | skip)
    rename_i _ pw hq _ P hP hg
    cases hs
    exact hI.of_frame rfl rfl (aframe_pws_upd hP rfl (Or.inr rfl)) (aframe_bat_id rfl)
  | qget q ob =>
    simp only [step] at hs
    repeat' split at hs
    all_goals (first | (cases hs; done) | skip)
    · rename_i _ pw hq _ P hP _ b hg
      cases hs
      exact hI.of_frame rfl rfl (aframe_pws_upd hP rfl (Or.inr rfl)) (aframe_bat_id rfl)
    · rename_i _ pw hq _ P hP _ hg
      cases hs
      exact hI.of_frame rfl rfl (aframe_pws_upd hP rfl (Or.inr rfl)) (aframe_bat_id rfl)
  | qclose q =>
    simp only [step] at hs
    repeat' split at hs
    all_goals (first | (cases hs; done) | skip)
    rename_i _ pw hq _ P hP hg
    cases hs
    exact hI.of_frame rfl rfl (aframe_pws_upd hP rfl (Or.inr rfl)) (aframe_bat_id rfl)
  | timerFire pw b att =>
    simp only [step] at hs
    repeat' split at hs
    all_goals (first | (cases hs; done) | skip)
    rename_i _ P hP _ B hB hg
    cases hs
    exact hI.of_frame rfl rfl (aframe_pws_id rfl)
      (aframe_bat_upd (B0' := { B with timerFired := true }) hB rfl (fun _ => rfl))
  | attempt pw b k =>
    simp only [step] at hs
    repeat' split at hs
    all_goals (first | (cases hs; done) | skip)
    rename_i _ P hP hg
    cases hs
    exact hI.of_frame rfl rfl (aframe_pws_upd hP rfl (Or.inr rfl)) (aframe_bat_id rfl)
  | produce pw tp msgs out =>
    simp only [step, stepProduce] at hs
    repeat' split at hs
    all_goals (first | (cases hs; done) | skip)
    rename_i _ P hP _ b k hsend _ B hB hg
    cases hs
    exact hI.of_frame rfl rfl (aframe_pws_upd (P' := { P with sender := .attempting b k (some out) }) hP rfl (Or.inr rfl))
      (aframe_bat_upd (B0' := B.noteProduce out) hB rfl (fun x => x))
  | attemptDone pw b k code =>
    simp only [step] at hs
    repeat' split at hs
    all_goals (first | (cases hs; done) | skip)
    rename_i _ P hP _ b' k' br hsend hg
    cases hs
    exact hI.of_frame rfl rfl (aframe_pws_upd hP rfl (Or.inr rfl)) (aframe_bat_id rfl)
  | completion pw b code =>
    simp only [step] at hs
    repeat' split at hs
    all_goals (first | (cases hs; done) | skip)
    rename_i _ P hP _ B hB hg
    cases hs
    exact hI.of_frame rfl rfl (aframe_pws_upd hP rfl (Or.inr rfl))
      (aframe_bat_upd (B0' := { B with ncompl := B.ncompl + 1, cbCode := some code }) hB rfl (fun x => x))
  | complete pw b code =>
    simp only [step] at hs
    repeat' split at hs
    all_goals (first | (cases hs; done) | skip)
    rename_i _ P hP _ B hB hg
    cases hs
    exact hI.of_frame rfl rfl (aframe_pws_upd hP rfl (Or.inr rfl))
      (aframe_bat_upd (B0' := { B with done := some code }) hB rfl (fun x => x))
  | reject c why i =>
    cases why <;> simp only [step, stepReject] at hs <;> repeat' split at hs
    all_goals (first | (cases hs; done) | skip)
    all_goals (cases hs)
    all_goals exact hI.of_frame rfl rfl (aframe_pws_id rfl) (aframe_bat_id rfl)
  | ret c r =>
    cases r <;> simp only [step, stepRet] at hs <;> repeat' split at hs
    all_goals (first | (cases hs; done) | skip)
    all_goals (cases hs)
    all_goals exact hI.of_frame rfl rfl (aframe_pws_id rfl) (aframe_bat_id rfl)
  | _ =>
    simp only [step] at hs
    repeat' split at hs
    all_goals (first | (cases hs; done) | skip)
    all_goals (cases hs)
    all_goals exact hI.of_frame rfl rfl (aframe_pws_id rfl) (aframe_bat_id rfl)

theorem invAge (cfg : Cfg) (s : State) (hr : Reachable cfg s) : InvAge cfg s :=
  (invariant_of_step cfg (fun s => Reachable cfg s ∧ InvAge cfg s) ⟨⟨[], rfl⟩, invAge_init cfg⟩
    (fun s e s' h hs => ⟨reachable_step h.1 hs,
      invAge_step cfg s e s' (invOrd cfg s h.1) (invSched cfg s h.1) h.2 hs⟩) s hr).2

end KV.Writer
