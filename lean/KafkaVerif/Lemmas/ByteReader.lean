/-
Lemmas/ByteReader.lean — the byte-level reads of the legacy decoder (Model/ByteReader.lean) against the record format
(Spec/RecordBatch.lean): on the encoding of a value followed by anything, with at least as many bytes of the message
set left as the encoding is long, a read returns the value and consumes exactly the encoding; with fewer it fails with
errShortRead (`AllOrShort`).  Composed (`aos_bind`) up to `readRecordV2`: the record part of readMessageV2.
-/
import KafkaVerif.Model.ByteReader
import KafkaVerif.Lemmas.ByteLayout

namespace KV.C02.BR
open KV KV.RW KV.Spec.RB

def AllOrShort {α : Type} (p : M α) (e : Bytes) (v : α) : Prop :=
  ∀ (rest : Bytes) (remain : Nat),
    (e.length ≤ remain → p ⟨e ++ rest, remain⟩ = .ok (v, ⟨rest, remain - e.length⟩)) ∧
    (remain < e.length → ∃ r', p ⟨e ++ rest, remain⟩ = .error (.short, r'))

theorem aos_pure {α : Type} (v : α) : AllOrShort (M.pure v) [] v := by
  intro rest remain
  exact ⟨fun _ => by simp [M.pure], fun h => by simp at h⟩

theorem aos_bind {α β : Type} {p : M α} {q : α → M β} {e1 e2 : Bytes} {v1 : α} {v2 : β}
    (h1 : AllOrShort p e1 v1) (h2 : AllOrShort (q v1) e2 v2) : AllOrShort (M.bind p q) (e1 ++ e2) v2 := by
  intro rest remain
  obtain ⟨a1, a2⟩ := h1 (e2 ++ rest) remain
  constructor
  · intro hle
    simp only [List.length_append] at hle
    have := a1 (by omega)
    obtain ⟨b1, _⟩ := h2 rest (remain - e1.length)
    simp only [M.bind, List.append_assoc, this, b1 (by omega)]
    simp only [List.length_append]
    congr 3; omega
  · intro hlt
    simp only [List.length_append] at hlt
    by_cases hc : remain < e1.length
    · obtain ⟨r', hr'⟩ := a2 hc
      exact ⟨r', by simp only [M.bind, List.append_assoc, hr']⟩
    · have := a1 (by omega)
      obtain ⟨_, b2⟩ := h2 rest (remain - e1.length)
      obtain ⟨r', hr'⟩ := b2 (by omega)
      exact ⟨r', by simp only [M.bind, List.append_assoc, this, hr']⟩

theorem aos_congr {α : Type} {p : M α} {e e' : Bytes} {v : α} (h : AllOrShort p e v) (he : e = e') : AllOrShort p e' v := by
  subst he; exact h

/-- read.go readVarInt on the zig-zag LEB128 encoding of `x` -/
theorem aos_readVarInt (x : Int) : AllOrShort readVarInt (varint x) x := by
  intro rest remain
  constructor
  · intro hle
    have htake : (varint x ++ rest).take remain = varint x ++ rest.take (remain - (varint x).length) := by
      rw [List.take_append]
      congr 1
      exact List.take_of_length_le hle
    simp only [readVarInt, htake]
    have : readUvarint (varint x ++ rest.take (remain - (varint x).length)) = some (zigzag x, rest.take (remain - (varint x).length)) := by
      simp [varint, readUvarint_uvarint]
    simp only [this, unzigzag_zigzag, List.length_append]
    have hu : (varint x).length + (rest.take (remain - (varint x).length)).length - (rest.take (remain - (varint x).length)).length
        = (varint x).length := by omega
    simp only [hu, List.drop_left']
  · intro hlt
    have htake : (varint x ++ rest).take remain = (varint x).take remain := by
      rw [List.take_append]
      have : remain - (varint x).length = 0 := by omega
      simp [this]
    have : readUvarint ((varint x).take remain) = none := by
      simp only [varint] at hlt ⊢
      exact readUvarint_prefix (zigzag x) remain hlt
    exact ⟨⟨(varint x ++ rest).drop remain, remain - ((varint x).take remain).length⟩, by simp only [readVarInt, htake, this]⟩

/-- read.go peekRead with a fixed width: any `k` bytes -/
theorem aos_readInt (k m : Nat) (e : Bytes) (he : e.length = k) : AllOrShort (readInt k m) e (toS m (deN e)) := by
  intro rest remain
  constructor
  · intro hle
    have hk : ¬ k > remain := by omega
    have : readI k m (e ++ rest) = some (toS m (deN e), rest) := by
      simp [readI, readN, he.symm]
    simp only [readInt, hk, if_false, this, he]
  · intro hlt
    exact ⟨_, by simp only [readInt]; rw [if_pos (by omega)]⟩

/-- read.go readNewBytes with the length of what follows -/
theorem aos_readNewBytes (b : Bytes) : AllOrShort (readNewBytes (b.length : Int)) b b := by
  intro rest remain
  constructor
  · intro hle
    by_cases h0 : b = []
    · subst h0; simp [readNewBytes]
    · have hpos : ¬ ((b.length : Int) ≤ 0) := by
        have : 0 < b.length := List.length_pos_iff.mpr h0
        omega
      have h1 : ¬ remain < ((b.length : Int)).toNat := by simp; omega
      have h2 : ¬ (b ++ rest).length < ((b.length : Int)).toNat := by simp
      simp only [readNewBytes, hpos, if_false, Int.toNat_natCast, List.take_left', List.drop_left']
      rw [if_neg (by omega), if_neg (by simp)]
  · intro hlt
    have hpos : ¬ ((b.length : Int) ≤ 0) := by omega
    have h1 : remain < ((b.length : Int)).toNat := by simp; omega
    have h2 : remain ≤ (b ++ rest).length := by simp; omega
    refine ⟨⟨List.drop remain (b ++ rest), 0⟩, ?_⟩
    simp only [readNewBytes, hpos, if_false, Int.toNat_natCast]
    rw [if_pos hlt, if_pos h2]

theorem aos_readNewBytes_neg (n : Int) (hn : n ≤ 0) : AllOrShort (readNewBytes n) [] [] := by
  intro rest remain
  exact ⟨fun _ => by simp [readNewBytes, hn], fun h => by simp at h⟩

/-- batch.go readMessageBytes after a length `n`: null for a negative one, else that many bytes -/
theorem aos_readMessageBytes_some (b : Bytes) : AllOrShort (readMessageBytes (b.length : Int)) b (some b) := by
  have h : AllOrShort (M.bind (readNewBytes (b.length : Int)) fun x => M.pure (if ((b.length : Int)) < 0 then none else some x))
      (b ++ []) (some b) := by
    have hn : ¬ ((b.length : Int) < 0) := by omega
    have := aos_bind (q := fun x => M.pure (if ((b.length : Int)) < 0 then none else some x)) (aos_readNewBytes b)
      (by simpa [hn] using aos_pure (some b))
    exact this
  exact aos_congr h (by simp)

theorem aos_readMessageBytes_none (n : Int) (hn : n < 0) : AllOrShort (readMessageBytes n) [] none := by
  have h : AllOrShort (M.bind (readNewBytes n) fun x => M.pure (if n < 0 then none else some x)) ([] ++ []) none :=
    aos_bind (q := fun x => M.pure (if n < 0 then none else some x)) (aos_readNewBytes_neg n (by omega))
      (by simpa [hn] using aos_pure (none : Option Bytes))
  exact aos_congr h (by simp)

/-- message_reader.go runFunc on a nullable byte string of the record format: null stays null, empty stays empty -/
theorem aos_runFunc (ob : Option Bytes) : AllOrShort runFunc (varbytes ob) ob := by
  cases ob with
  | none =>
    have := aos_bind (q := fun length => readMessageBytes length) (aos_readVarInt (-1)) (aos_readMessageBytes_none (-1) (by omega))
    exact aos_congr this (by simp [varbytes])
  | some b =>
    exact aos_bind (q := fun length => readMessageBytes length) (aos_readVarInt (b.length : Int)) (aos_readMessageBytes_some b)

/-- a varint length followed by that many bytes (−1: null) -/
theorem aos_lenBytes {β : Type} (ob : Option Bytes) (f : Option Bytes → β) :
    AllOrShort (M.bind readVarInt fun n => M.bind (readMessageBytes n) fun v => M.pure (f v)) (varbytes ob) (f ob) := by
  cases ob with
  | none =>
    have h2 : AllOrShort (M.bind (readMessageBytes (-1)) fun v => M.pure (f v)) ([] ++ []) (f none) :=
      aos_bind (aos_readMessageBytes_none (-1) (by omega)) (aos_pure _)
    have := aos_bind (q := fun n => M.bind (readMessageBytes n) fun v => M.pure (f v)) (aos_readVarInt (-1)) h2
    exact aos_congr this (by simp [varbytes])
  | some b =>
    have h2 : AllOrShort (M.bind (readMessageBytes (b.length : Int)) fun v => M.pure (f v)) (b ++ []) (f (some b)) :=
      aos_bind (aos_readMessageBytes_some b) (aos_pure _)
    have := aos_bind (q := fun n => M.bind (readMessageBytes n) fun v => M.pure (f v)) (aos_readVarInt (b.length : Int)) h2
    exact aos_congr this (by simp [varbytes])

/-- message_reader.go readMessageHeader on a record header -/
theorem aos_readMessageHeader (h : Hdr) : AllOrShort readMessageHeader (encHdr h) (h.key, h.value) := by
  have h3 := aos_lenBytes h.value (fun v => (h.key, v))
  have h2 := aos_bind (q := fun k => M.bind readVarInt fun n => M.bind (readMessageBytes n) fun v => M.pure (k, v))
    (aos_readNewBytes h.key) h3
  have h1 := aos_bind (q := fun keyLen => M.bind (readNewBytes keyLen) fun k =>
      M.bind readVarInt fun n => M.bind (readMessageBytes n) fun v => M.pure (k, v))
    (aos_readVarInt (h.key.length : Int)) h2
  exact aos_congr h1 (by simp [encHdr])

theorem aos_readMessageHeaders : ∀ (hs : List Hdr),
    AllOrShort (readMessageHeaders hs.length) (encHdrs hs) (hs.map fun h => (h.key, h.value)) := by
  intro hs
  induction hs with
  | nil => exact aos_pure _
  | cons h hs ih =>
    have h2 : AllOrShort (M.bind (readMessageHeaders hs.length) fun t => M.pure ((h.key, h.value) :: t))
        (encHdrs hs ++ []) ((h.key, h.value) :: hs.map fun h => (h.key, h.value)) := aos_bind ih (aos_pure _)
    have h1 := aos_bind (q := fun x => M.bind (readMessageHeaders hs.length) fun t => M.pure (x :: t)) (aos_readMessageHeader h) h2
    exact aos_congr h1 (by simp [encHdrs])

end KV.C02.BR

namespace KV.C02.BR
open KV KV.RW KV.Spec.RB

/-- what the Go code takes from a record of the format -/
def viewOf (rec : RecV2) : RecView :=
  { offDelta := rec.offDelta, tsDelta := rec.tsDelta, key := rec.key, value := rec.value,
    headers := rec.headers.map fun h => (h.key, h.value), consumed := ((encRec rec).length : Int) }

theorem aos_headersBranch (hs : List Hdr) :
    AllOrShort (if ((hs.length : Int)) > 0 then readMessageHeaders ((hs.length : Int)).toNat else M.pure [])
      (encHdrs hs) (hs.map fun h => (h.key, h.value)) := by
  cases hs with
  | nil => simpa [encHdrs] using aos_pure ([] : List (Bytes × Option Bytes))
  | cons h t =>
    have hpos : ((List.length (h :: t) : Nat) : Int) > 0 := by simp only [List.length_cons]; omega
    simp only [hpos, if_true, Int.toNat_natCast]
    exact aos_readMessageHeaders (h :: t)

theorem aos_recTail (rec : RecV2) (len lol : Int) :
    AllOrShort (recTail len lol) (recBody rec) { viewOf rec with consumed := len + lol } := by
  have h7 : AllOrShort (M.bind (if ((rec.headers.length : Int)) > 0 then readMessageHeaders ((rec.headers.length : Int)).toNat else M.pure [])
      fun headers => M.pure ({ offDelta := rec.offDelta, tsDelta := rec.tsDelta, key := rec.key, value := rec.value,
                               headers := headers, consumed := len + lol } : RecView))
      (encHdrs rec.headers ++ []) { viewOf rec with consumed := len + lol } :=
    aos_bind (aos_headersBranch rec.headers) (aos_pure _)
  have h6 := aos_bind (q := fun headerCount => M.bind (if headerCount > 0 then readMessageHeaders headerCount.toNat else M.pure [])
      fun headers => M.pure ({ offDelta := rec.offDelta, tsDelta := rec.tsDelta, key := rec.key, value := rec.value,
                               headers := headers, consumed := len + lol } : RecView))
    (aos_readVarInt (rec.headers.length : Int)) h7
  have h5 := aos_bind (q := fun val => M.bind readVarInt fun headerCount =>
      M.bind (if headerCount > 0 then readMessageHeaders headerCount.toNat else M.pure [])
      fun headers => M.pure ({ offDelta := rec.offDelta, tsDelta := rec.tsDelta, key := rec.key, value := val,
                               headers := headers, consumed := len + lol } : RecView))
    (aos_runFunc rec.value) h6
  have h4 := aos_bind (q := fun key => M.bind runFunc fun val => M.bind readVarInt fun headerCount =>
      M.bind (if headerCount > 0 then readMessageHeaders headerCount.toNat else M.pure [])
      fun headers => M.pure ({ offDelta := rec.offDelta, tsDelta := rec.tsDelta, key := key, value := val,
                               headers := headers, consumed := len + lol } : RecView))
    (aos_runFunc rec.key) h5
  have h3 := aos_bind (q := fun offsetDelta => M.bind runFunc fun key => M.bind runFunc fun val => M.bind readVarInt fun headerCount =>
      M.bind (if headerCount > 0 then readMessageHeaders headerCount.toNat else M.pure [])
      fun headers => M.pure ({ offDelta := offsetDelta, tsDelta := rec.tsDelta, key := key, value := val,
                               headers := headers, consumed := len + lol } : RecView))
    (aos_readVarInt rec.offDelta) h4
  have h2 := aos_bind (q := fun timestampDelta => M.bind readVarInt fun offsetDelta => M.bind runFunc fun key => M.bind runFunc fun val =>
      M.bind readVarInt fun headerCount =>
      M.bind (if headerCount > 0 then readMessageHeaders headerCount.toNat else M.pure [])
      fun headers => M.pure ({ offDelta := offsetDelta, tsDelta := timestampDelta, key := key, value := val,
                               headers := headers, consumed := len + lol } : RecView))
    (aos_readVarInt rec.tsDelta) h3
  have h1 := aos_bind (q := fun _attrs => M.bind readVarInt fun timestampDelta => M.bind readVarInt fun offsetDelta =>
      M.bind runFunc fun key => M.bind runFunc fun val => M.bind readVarInt fun headerCount =>
      M.bind (if headerCount > 0 then readMessageHeaders headerCount.toNat else M.pure [])
      fun headers => M.pure ({ offDelta := offsetDelta, tsDelta := timestampDelta, key := key, value := val,
                               headers := headers, consumed := len + lol } : RecView))
    (aos_readInt 1 M8 [rec.attrs] rfl) h2
  exact aos_congr h1 (by simp [recBody])

/-- **the record part of readMessageV2 at byte level**: on the encoding of a record followed by anything, with the whole
record inside what is left of the message set the Go code obtains the record's offset delta, timestamp delta, key, value
and headers, consumes exactly the record and decreases `lengthRemain` by its size; with the record cut anywhere by the
end of the set it fails with errShortRead -/
theorem readRecordV2_spec (rec : RecV2) : AllOrShort readRecordV2 (encRec rec) (viewOf rec) := by
  intro rest remain
  have hv := aos_readVarInt ((recBody rec).length : Int) (recBody rec ++ rest) remain
  have henc : encRec rec ++ rest = varint ((recBody rec).length : Int) ++ (recBody rec ++ rest) := by
    simp [encRec, List.append_assoc]
  have hlen : (encRec rec).length = (varint ((recBody rec).length : Int)).length + (recBody rec).length := by
    simp [encRec]
  constructor
  · intro hle
    have h1 := hv.1 (by omega)
    obtain ⟨t1, _⟩ := aos_recTail rec ((recBody rec).length : Int)
      ((remain : Int) - ((remain - (varint ((recBody rec).length : Int)).length : Nat) : Int)) rest
      (remain - (varint ((recBody rec).length : Int)).length)
    simp only [readRecordV2, henc, h1, t1 (by omega)]
    have : ((recBody rec).length : Int) + ((remain : Int) - ((remain - (varint ((recBody rec).length : Int)).length : Nat) : Int))
        = ((encRec rec).length : Int) := by omega
    simp only [this, viewOf]
    congr 3
    omega
  · intro hlt
    by_cases hc : remain < (varint ((recBody rec).length : Int)).length
    · obtain ⟨r', hr'⟩ := hv.2 hc
      exact ⟨r', by simp only [readRecordV2, henc, hr']⟩
    · have h1 := hv.1 (by omega)
      obtain ⟨_, t2⟩ := aos_recTail rec ((recBody rec).length : Int)
        ((remain : Int) - ((remain - (varint ((recBody rec).length : Int)).length : Nat) : Int)) rest
        (remain - (varint ((recBody rec).length : Int)).length)
      obtain ⟨r', hr'⟩ := t2 (by omega)
      exact ⟨r', by simp only [readRecordV2, henc, h1, hr']⟩

end KV.C02.BR

namespace KV.C02.BR
open KV KV.RW KV.Spec.RB

theorem aos_readInt32 (x : Int) (h : InRange M32 x) : AllOrShort readInt32 (i32 x) x := by
  intro rest remain
  have hl : (i32 x).length = 4 := by simp [i32]
  constructor
  · intro hle
    have hk : ¬ 4 > remain := by omega
    have := readI32_i32 x rest h
    simp only [readI32] at this
    simp only [readInt32, readInt, hk, if_false, this, hl]
  · intro hlt
    exact ⟨_, by simp only [readInt32, readInt]; rw [if_pos (by omega)]⟩

/-- a 4-byte length followed by that many bytes (−1: null) -/
theorem aos_readBytes32 (ob : Option Bytes) (h : InRange M32 (optLen ob : Int)) : AllOrShort readBytes32 (nbytes ob) ob := by
  cases ob with
  | none =>
    have h2 : AllOrShort (fun r => if (-1 : Int) > (r.remain : Int) then .error (.short, r) else readMessageBytes (-1) r : M (Option Bytes)) [] none := by
      intro rest remain
      refine ⟨fun hle => ?_, fun hlt => by simp at hlt⟩
      have : ¬ ((-1 : Int) > (remain : Int)) := by omega
      simp only [this, if_false]
      exact (aos_readMessageBytes_none (-1) (by omega) rest remain).1 hle
    have := aos_bind (q := fun n => (fun r => if n > (r.remain : Int) then .error (.short, r) else readMessageBytes n r : M (Option Bytes)))
      (aos_readInt32 (-1) (by decide)) h2
    exact aos_congr this (by simp [nbytes])
  | some b =>
    have hb := aos_readMessageBytes_some b
    have h2 : AllOrShort (fun r => if ((b.length : Int)) > (r.remain : Int) then .error (.short, r) else readMessageBytes (b.length : Int) r : M (Option Bytes)) b (some b) := by
      intro rest remain
      constructor
      · intro hle
        have : ¬ ((b.length : Int) > (remain : Int)) := by omega
        simp only [this, if_false]
        exact (hb rest remain).1 hle
      · intro hlt
        have : ((b.length : Int) > (remain : Int)) := by omega
        exact ⟨⟨b ++ rest, remain⟩, by simp only [this, if_true]⟩
    have := aos_bind (q := fun n => (fun r => if n > (r.remain : Int) then .error (.short, r) else readMessageBytes n r : M (Option Bytes)))
      (aos_readInt32 (b.length : Int) (by simpa [optLen] using h)) h2
    exact aos_congr this (by simp [nbytes])

theorem aos_discardN (b : Bytes) : AllOrShort (discardN b.length) b () := by
  intro rest remain
  constructor
  · intro hle
    have h2 : b.length ≤ (b ++ rest).length := by simp
    simp only [discardN, hle, if_true, h2, List.drop_left']
  · intro hlt
    have h1 : ¬ b.length ≤ remain := by omega
    have h2 : remain ≤ (b ++ rest).length := by simp; omega
    exact ⟨⟨List.drop remain (b ++ rest), 0⟩, by simp only [discardN, h1, if_false, h2, if_true]⟩

theorem aos_discardBytes32 (ob : Option Bytes) (h : InRange M32 (optLen ob : Int)) : AllOrShort discardBytes32 (nbytes ob) () := by
  cases ob with
  | none =>
    have h2 : AllOrShort (fun r => if (-1 : Int) > (r.remain : Int) then .error (.short, r)
        else if (-1 : Int) < 0 then .ok ((), r) else discardN (-1 : Int).toNat r : M Unit) [] () := by
      intro rest remain
      refine ⟨fun _ => ?_, fun hlt => by simp at hlt⟩
      have : ¬ ((-1 : Int) > (remain : Int)) := by omega
      simp [this]
    have := aos_bind (q := fun n => (fun r => if n > (r.remain : Int) then .error (.short, r)
        else if n < 0 then .ok ((), r) else discardN n.toNat r : M Unit)) (aos_readInt32 (-1) (by decide)) h2
    exact aos_congr this (by simp [nbytes])
  | some b =>
    have hb := aos_discardN b
    have h2 : AllOrShort (fun r => if ((b.length : Int)) > (r.remain : Int) then .error (.short, r)
        else if ((b.length : Int)) < 0 then .ok ((), r) else discardN ((b.length : Int)).toNat r : M Unit) b () := by
      intro rest remain
      have hn : ¬ ((b.length : Int) < 0) := by omega
      constructor
      · intro hle
        have : ¬ ((b.length : Int) > (remain : Int)) := by omega
        simp only [this, if_false, hn, Int.toNat_natCast]
        exact (hb rest remain).1 hle
      · intro hlt
        have : ((b.length : Int) > (remain : Int)) := by omega
        exact ⟨⟨b ++ rest, remain⟩, by simp only [this, if_true]⟩
    have := aos_bind (q := fun n => (fun r => if n > (r.remain : Int) then .error (.short, r)
        else if n < 0 then .ok ((), r) else discardN n.toNat r : M Unit)) (aos_readInt32 (b.length : Int) (by simpa [optLen] using h)) h2
    exact aos_congr this (by simp [nbytes])

/-- key and value of a v0/v1 message, read … -/
theorem readBodyV1_spec (m : Msg) (hk : InRange M32 (optLen m.key : Int)) (hv : InRange M32 (optLen m.value : Int)) :
    AllOrShort readBodyV1 (nbytes m.key ++ nbytes m.value) (m.key, m.value) := by
  have h2 : AllOrShort (M.bind readBytes32 fun v => M.pure (m.key, v)) (nbytes m.value ++ []) (m.key, m.value) :=
    aos_bind (aos_readBytes32 m.value hv) (aos_pure _)
  have h1 := aos_bind (q := fun k => M.bind readBytes32 fun v => M.pure (k, v)) (aos_readBytes32 m.key hk) h2
  exact aos_congr h1 (by simp)

/-- … or skipped -/
theorem skipBodyV1_spec (m : Msg) (hk : InRange M32 (optLen m.key : Int)) (hv : InRange M32 (optLen m.value : Int)) :
    AllOrShort skipBodyV1 (nbytes m.key ++ nbytes m.value) () :=
  aos_bind (q := fun _ => discardBytes32) (aos_discardBytes32 m.key hk) (aos_discardBytes32 m.value hv)

/-- a wrapper message: the key — whatever it is — is passed over, the value (the compressed inner set) is what is read -/
theorem readWrapV1_spec (m : Msg) (hk : InRange M32 (optLen m.key : Int)) (hv : InRange M32 (optLen m.value : Int)) :
    AllOrShort readWrapV1 (nbytes m.key ++ nbytes m.value) m.value :=
  aos_bind (q := fun _ => readBytes32) (aos_discardBytes32 m.key hk) (aos_readBytes32 m.value hv)

end KV.C02.BR
