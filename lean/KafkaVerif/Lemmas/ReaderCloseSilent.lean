/-
Lemmas/ReaderCloseSilent.lean — `Reader.Close` as a system (Model/ReaderCloseSystem.lean) against a broker and a
coordinator that have stopped answering: with a deadline on every blocking network operation of the fetchers
(Model/FetcherDeadlines.lean) and on every coordinator request (Model/GroupDeadlines.lean) some component can always move.
-/
import KafkaVerif.Lemmas.FetcherDeadlines
import KafkaVerif.Lemmas.GroupDeadlines
namespace KV.GroupClose
open KV KV.Group KV.ReaderCloseSystem

/-- `ReaderCloseSystem.step` against a broker and a coordinator that have stopped answering: the fetchers step with
`FetcherLife.stepSilent fn`, the group with `Group.stepSilentG fc` -/
def stepSilentSys (fn : FetcherLife.NetFacts) (fc : Bool) (c : Cfg) (s : ReaderCloseSystem.State) :
    ReaderCloseSystem.Event → Option ReaderCloseSystem.State
  | .fetcher i e =>
    match s.fetchers[i]? with
    | none => none
    | some f =>
      if e = .ctxCancel then none
      else (FetcherLife.stepSilent fn f e).map fun f' => { s with fetchers := s.fetchers.set i f' }
  | .group e =>
    match s.group with
    | none => none
    | some g =>
      if s.closed && (e == .nextCall || e == .closeCall) then none
      else (Group.stepSilentG fc c g e).map fun g' => { s with group := some g' }
  | e => ReaderCloseSystem.step c s e

/-- **Reader.Close cannot get stuck against a silent broker and a silent coordinator**, given a deadline on every
blocking network operation of the fetchers and on every coordinator request -/
theorem system_progress_silent (fn : FetcherLife.NetFacts) (ho : fn.offsets = true) (hrd : fn.read = true) (c : Cfg)
    (s : ReaderCloseSystem.State) (hi : ReaderCloseSystem.Inv c s) (hm : s.close = 2) :
    ∃ e, (ReaderCloseSystem.internal e = true ∨ (∃ gi acc, e = .group (.gStart gi acc)) ∨
          ∃ ge, e = .group ge ∧ genEvS ge = true) ∧ (stepSilentSys fn true c s e).isSome = true := by
  have hcl := hi.mark (by omega)
  by_cases hf : fetchersExited s = true
  · by_cases hg : groupExited s = true
    · by_cases hmc : s.msgsClosed = true
      · exact ⟨.closeReturn, Or.inl rfl, by simp [stepSilentSys, ReaderCloseSystem.step, hm, hmc]⟩
      · exact ⟨.closeMsgs, Or.inl rfl, by simp [stepSilentSys, ReaderCloseSystem.step, hm, hf, hg, hmc]⟩
    · cases hgs : s.group with
      | none => simp [groupExited, hgs] at hg
      | some g =>
        have hpc : g.pc ≠ .exited := by
          intro h; simp [groupExited, hgs, h] at hg
        obtain ⟨hr, hcc⟩ := hi.grp g hgs
        obtain ⟨e, he, hen⟩ := run_progress_full_silent c g hr (hcc hcl) hpc
        have hne : (e == .nextCall || e == .closeCall) = false := by
          rcases he with he | ⟨gi, acc, rfl⟩ | he
          · cases e <;> simp [Group.Ev.runLoop] at he ⊢
          · rfl
          · cases e <;> simp [genEvS, genEv] at he ⊢
        refine ⟨.group e, ?_, ?_⟩
        · rcases he with he | ⟨gi, acc, rfl⟩ | he
          · exact Or.inl he
          · exact Or.inr (Or.inl ⟨gi, acc, rfl⟩)
          · exact Or.inr (Or.inr ⟨e, rfl, he⟩)
        · cases hse : Group.stepSilentG true c g e with
          | none => simp [hse] at hen
          | some g' => simp [stepSilentSys, hgs, hne, hse]
  · have hex : ∃ f ∈ s.fetchers, f.pc ≠ .exited := by
      apply Classical.byContradiction
      intro hno
      apply hf
      simp only [fetchersExited, List.all_eq_true, beq_iff_eq]
      intro x hx
      apply Classical.byContradiction
      intro hne
      exact hno ⟨x, hx, hne⟩
    obtain ⟨f, hfm, hne⟩ := hex
    obtain ⟨i, hi', hget⟩ := List.getElem_of_mem hfm
    have hget? : s.fetchers[i]? = some f := by rw [List.getElem?_eq_getElem hi', hget]
    obtain ⟨e, hec, hen, -⟩ := FetcherLife.progress_after_cancel_silent fn ho hrd f (hi.canc hcl f hfm) hne
    refine ⟨.fetcher i e, Or.inl hec, ?_⟩
    have hnc : e ≠ .ctxCancel := by intro h; subst h; simp [FetcherLife.Event.control] at hec
    cases hse : FetcherLife.stepSilent fn f e with
    | none => simp [hse] at hen
    | some f' => simp [stepSilentSys, hget?, hnc, hse]

end KV.GroupClose
