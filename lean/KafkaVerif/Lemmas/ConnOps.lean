/-
Lemmas/ConnOps.lean — conservation and "no broker error without an explicit check" for every parser program,
and what they give for one exchange (`opRead`) and for fetch (`fetchRead`).
-/
import KafkaVerif.Model.ConnOps

namespace KV.ConnOps
open KV KV.Reader

/-- `PAdv f`: the program step `f` conserves bytes (for every context and state) -/
def PAdv (f : P) : Prop := ∀ c s, Adv s (f c s).2

theorem lift_adv {α : Type} {m : R α} (hm : Conserves m) (f : Ctx → α → Ctx) : PAdv (lift m f) := by
  intro c s
  have h := hm s
  unfold lift
  cases hp : m s with
  | mk r s' => rw [hp] at h; cases r <;> exact h

theorem iter_adv {f : P} (hf : PAdv f) : ∀ n, PAdv (iter n f) := by
  intro n
  induction n with
  | zero => intro c s; exact Adv.refl s
  | succ n ih =>
    intro c s
    have h := hf c s
    unfold iter
    cases hp : f c s with
    | mk r s' =>
      rw [hp] at h
      cases r with
      | error e => exact h
      | ok c' => exact Adv.trans h (ih c' s')

theorem readInt_then_adv (k : Nat) {g : Int → RS → Except Err Ctx × RS} (hg : ∀ n s, Adv s (g n s).2) (s : RS) :
    Adv s (match readInt k s with
           | (.error e, s') => ((.error e : Except Err Ctx), s')
           | (.ok n, s') => g n s').2 := by
  have h := conserves_readInt k s
  cases hp : readInt k s with
  | mk r s' =>
    rw [hp] at h
    cases r with
    | error e => exact h
    | ok n => exact Adv.trans h (hg n s')

mutual
theorem runStep_adv : ∀ st : Step, PAdv (runStep st)
  | .int n => by unfold runStep; exact lift_adv (conserves_readInt n) _
  | .err => by unfold runStep; exact lift_adv (conserves_readInt 2) _
  | .str => by unfold runStep; exact lift_adv conserves_readString _
  | .bytes => by unfold runStep; exact lift_adv conserves_readBytes _
  | .discStr => by unfold runStep; exact lift_adv (conserves_discardLen 2) _
  | .discBytes => by unfold runStep; exact lift_adv (conserves_discardLen 4) _
  | .disc n => by unfold runStep; exact lift_adv (conserves_discardN n) _
  | .arr body => by
    intro c s
    unfold runStep
    exact readInt_then_adv 4 (fun n s' => iter_adv (runSteps_adv body) n.toNat c s') s
  | .arrB elem body => by
    intro c s
    unfold runStep
    refine readInt_then_adv 4 (fun n s' => ?_) s
    split
    · exact Adv.refl s'
    · exact iter_adv (runSteps_adv body) n.toNat c s'
  | .ifGe v body => by
    intro c s
    unfold runStep
    split
    · exact runSteps_adv body c s
    · exact Adv.refl s
  | .failIfErr => by
    intro c s
    unfold runStep
    split <;> exact Adv.refl s
  | .expect1 => by
    intro c s
    unfold runStep
    exact readInt_then_adv 4 (fun n s' => by split <;> exact Adv.refl s') s
  | .hwm => by unfold runStep; exact lift_adv (conserves_readInt 8) _
  | .setSizeRead => by unfold runStep; exact lift_adv (conserves_readInt 4) _
  | .setSizeCheck => by
    intro c s
    unfold runStep
    split <;> exact Adv.refl s
  | .abortedTxs => by
    intro c s
    unfold runStep
    refine readInt_then_adv 4 (fun n s' => ?_) s
    split
    · exact Adv.refl s'
    · split
      · exact Adv.refl s'
      · refine iter_adv (fun c s => ?_) n.toNat c s'
        exact readInt_then_adv 8 (fun _ s'' => lift_adv (conserves_readInt 8) _ c s'') s
theorem runSteps_adv : ∀ ps : List Step, PAdv (runSteps ps)
  | [] => by intro c s; unfold runSteps; exact Adv.refl s
  | st :: rest => by
    intro c s
    have h := runStep_adv st c s
    unfold runSteps
    cases hp : runStep st c s with
    | mk r s' =>
      rw [hp] at h
      cases r with
      | error e => exact h
      | ok c' => exact Adv.trans h (runSteps_adv rest c' s')
end

/-! ### broker errors only come out of an explicit `failIfErr` -/

def isKafka : Except Err Ctx → Bool
  | .error (.kafka _) => true
  | _ => false

/-- `PNoK f`: `f` never ends in a kafka error -/
def PNoK (f : P) : Prop := ∀ c s, isKafka (f c s).1 = false

def RNoK {α : Type} (m : R α) : Prop := ∀ s k, (m s).1 ≠ .error (.kafka k)

theorem rnok_peekRead (n : Nat) : RNoK (peekRead n) := by
  intro s k; unfold peekRead; split
  · simp
  · split <;> simp

theorem rnok_readInt (n : Nat) : RNoK (readInt n) := by
  intro s k
  have h := rnok_peekRead n s k
  unfold readInt
  cases hp : peekRead n s with
  | mk r s' =>
    rw [hp] at h
    cases r with
    | error e => simpa using h
    | ok b => simp

theorem rnok_discardN (n : Int) : RNoK (discardN n) := by
  intro s k; unfold discardN
  split
  · split
    · simp
    · split <;> simp
  · split <;> simp

theorem rnok_readNewBytes (n : Int) : RNoK (readNewBytes n) := by
  intro s k; unfold readNewBytes
  split
  · simp
  · simp only
    split
    · split <;> simp
    · split <;> simp

theorem rnok_readLenWith {α : Type} (k : Nat) {cb : Int → R α} (h : ∀ n, RNoK (cb n)) : RNoK (readLenWith k cb) := by
  intro s c
  have hi := rnok_readInt k s c
  unfold readLenWith
  cases hp : readInt k s with
  | mk r s' =>
    rw [hp] at hi
    cases r with
    | error e => simpa using hi
    | ok n =>
      simp only
      split
      · simp
      · exact h n s' c

theorem rnok_discardLen (k : Nat) : RNoK (discardLen k) := by
  apply rnok_readLenWith
  intro n
  split
  · intro s c; simp [rpure]
  · exact rnok_discardN n

theorem lift_nok {α : Type} {m : R α} (hm : RNoK m) (f : Ctx → α → Ctx) : PNoK (lift m f) := by
  intro c s
  unfold lift
  cases hp : m s with
  | mk r s' =>
    cases r with
    | ok a => rfl
    | error e =>
      cases e with
      | kafka k => exact absurd (by rw [hp]) (hm s k)
      | _ => rfl

theorem iter_nok {f : P} (hf : PNoK f) : ∀ n, PNoK (iter n f) := by
  intro n
  induction n with
  | zero => intro c s; rfl
  | succ n ih =>
    intro c s
    have h := hf c s
    unfold iter
    cases hp : f c s with
    | mk r s' =>
      rw [hp] at h
      cases r with
      | error e => exact h
      | ok c' => exact ih c' s'

theorem readInt_then_nok (k : Nat) {g : Int → RS → Except Err Ctx × RS} (hg : ∀ n s, isKafka (g n s).1 = false) (s : RS) :
    isKafka (match readInt k s with
             | (.error e, s') => ((.error e : Except Err Ctx), s')
             | (.ok n, s') => g n s').1 = false := by
  cases hp : readInt k s with
  | mk r s' =>
    cases r with
    | ok n => exact hg n s'
    | error e =>
      cases e with
      | kafka c => exact absurd (by rw [hp]) (rnok_readInt k s c)
      | _ => rfl

mutual
theorem runStep_nok : ∀ st : Step, st.hasFail = false → PNoK (runStep st)
  | .int n, _ => by unfold runStep; exact lift_nok (rnok_readInt n) _
  | .err, _ => by unfold runStep; exact lift_nok (rnok_readInt 2) _
  | .str, _ => by unfold runStep; exact lift_nok (rnok_readLenWith 2 rnok_readNewBytes) _
  | .bytes, _ => by unfold runStep; exact lift_nok (rnok_readLenWith 4 rnok_readNewBytes) _
  | .discStr, _ => by unfold runStep; exact lift_nok (rnok_discardLen 2) _
  | .discBytes, _ => by unfold runStep; exact lift_nok (rnok_discardLen 4) _
  | .disc n, _ => by unfold runStep; exact lift_nok (rnok_discardN n) _
  | .arr body, h => by
    intro c s
    unfold runStep
    have hb : hasFailList body = false := by simpa [Step.hasFail] using h
    exact readInt_then_nok 4 (fun n s' => iter_nok (runSteps_nok body hb) n.toNat c s') s
  | .arrB elem body, h => by
    intro c s
    unfold runStep
    have hb : hasFailList body = false := by simpa [Step.hasFail] using h
    refine readInt_then_nok 4 (fun n s' => ?_) s
    split
    · rfl
    · exact iter_nok (runSteps_nok body hb) n.toNat c s'
  | .ifGe v body, h => by
    intro c s
    unfold runStep
    have hb : hasFailList body = false := by simpa [Step.hasFail] using h
    split
    · exact runSteps_nok body hb c s
    · rfl
  | .failIfErr, h => by simp [Step.hasFail] at h
  | .expect1, _ => by
    intro c s
    unfold runStep
    exact readInt_then_nok 4 (fun n s' => by split <;> rfl) s
  | .hwm, _ => by unfold runStep; exact lift_nok (rnok_readInt 8) _
  | .setSizeRead, _ => by unfold runStep; exact lift_nok (rnok_readInt 4) _
  | .setSizeCheck, _ => by
    intro c s
    unfold runStep
    split <;> rfl
  | .abortedTxs, _ => by
    intro c s
    unfold runStep
    refine readInt_then_nok 4 (fun n s' => ?_) s
    split
    · rfl
    · split
      · rfl
      · refine iter_nok (fun c s => ?_) n.toNat c s'
        exact readInt_then_nok 8 (fun _ s'' => lift_nok (rnok_readInt 8) _ c s'') s
theorem runSteps_nok : ∀ ps : List Step, hasFailList ps = false → PNoK (runSteps ps)
  | [], _ => by intro c s; unfold runSteps; rfl
  | st :: rest, h => by
    intro c s
    have h' : st.hasFail = false ∧ hasFailList rest = false := by simpa [hasFailList] using h
    have h1 := runStep_nok st h'.1 c s
    unfold runSteps
    cases hp : runStep st c s with
    | mk r s' =>
      rw [hp] at h1
      cases r with
      | error e => exact h1
      | ok c' => exact runSteps_nok rest h'.2 c' s'
end

/-! ### one exchange -/

theorem opRead_adv (o : OpSpec) (v : Nat) (topic : Bytes) (s : RS) : Adv s (opRead o v topic s).2 := by
  have h := runSteps_adv (o.parse v) { ver := v } s
  unfold opRead
  cases hp : runSteps (o.parse v) { ver := v } s with
  | mk r s1 =>
    rw [hp] at h
    cases r with
    | ok c =>
      simp only
      split
      · exact h
      · split <;> exact h
    | error e =>
      cases e with
      | kafka k =>
        simp only
        split
        · have hd := conserves_discardN (↑s1.sz) s1
          cases hq : discardN (↑s1.sz) s1 with
          | mk r2 s2 =>
            rw [hq] at hd
            cases r2 <;> exact Adv.trans h hd
        · exact h
      | _ => exact h

/-- discarding exactly the remaining size either fails or leaves nothing of the frame -/
theorem discardN_all_ok {s s2 : RS} {u : Unit} (h : discardN (↑s.sz) s = (.ok u, s2)) : s2.sz = 0 := by
  unfold discardN at h
  simp only [Int.le_refl, ↓reduceIte, Int.toNat_natCast] at h
  split at h
  · omega
  · split at h
    · simp at h
    · simp only [Prod.mk.injEq] at h
      rw [← h.2]; simp

/-- the heart of C11/C17 for one exchange: a "good" operation that does not fail has consumed the whole frame. -/
theorem opRead_not_fail_zero (o : OpSpec) (v : Nat) (topic : Bytes) (s : RS)
    (hz : o.expectZero = true) (hg : o.drain = true ∨ hasFailList (o.parse v) = false)
    (hnf : (opRead o v topic s).1.isFail = false) : (opRead o v topic s).2.sz = 0 := by
  have hk := fun h => runSteps_nok (o.parse v) h { ver := v } s
  unfold opRead at hnf ⊢
  cases hp : runSteps (o.parse v) { ver := v } s with
  | mk r s1 =>
    rw [hp] at hnf hk
    cases r with
    | ok c =>
      simp only [hz, Bool.true_and] at hnf ⊢
      split
      · rename_i h1; simp [h1, Outcome.isFail] at hnf
      · rename_i h1
        have : s1.sz = 0 := by simpa using h1
        split <;> simpa using this
    | error e =>
      cases e with
      | kafka k =>
        cases hg with
        | inr hnofail => have := hk hnofail; simp [isKafka] at this
        | inl hdrain =>
          simp only [hdrain, Bool.true_and] at hnf ⊢
          split
          · rename_i hpos
            have hpos' : 0 < s1.sz := of_decide_eq_true hpos
            cases hq : discardN (↑s1.sz) s1 with
            | mk r2 s2 =>
              cases r2 with
              | ok u => simpa using discardN_all_ok hq
              | error e2 => rw [hq] at hnf; simp [hpos', Outcome.isFail] at hnf
          · rename_i h1
            have : s1.sz = 0 := by simpa using h1
            simpa using this
      | shortRead => simp [Outcome.isFail] at hnf
      | eof => simp [Outcome.isFail] at hnf
      | unexpectedEOF => simp [Outcome.isFail] at hnf
      | other w => simp [Outcome.isFail] at hnf
      | panic w => simp [Outcome.isFail] at hnf

/-! ### fetch -/

theorem drainKafka_adv (fixed : Bool) (k : Int) (s : RS) : Adv s (drainKafka fixed k s).2 := by
  unfold drainKafka
  split
  · have hd := conserves_discardN (↑s.sz) s
    cases hq : discardN (↑s.sz) s with
    | mk r s2 => rw [hq] at hd; cases r <;> exact hd
  · exact Adv.refl s

theorem drainKafka_zero (k : Int) (s : RS) (hnf : (drainKafka true k s).1.isFail = false) :
    (drainKafka true k s).2.sz = 0 := by
  unfold drainKafka at hnf ⊢
  simp only [Bool.true_and] at hnf ⊢
  split
  · rename_i hpos
    have hpos' : 0 < s.sz := of_decide_eq_true hpos
    cases hq : discardN (↑s.sz) s with
    | mk r s2 =>
      cases r with
      | ok u => simpa using discardN_all_ok hq
      | error e => rw [hq] at hnf; simp [hpos', Outcome.isFail] at hnf
  · rename_i h1
    have : s.sz = 0 := by simpa using h1
    simpa using this


/-- when the whole frame is (still) on the stream, so it is after any conserving step -/
theorem Adv_enough {s s' : RS} (h : Adv s s') (he : s.sz ≤ s.inp.length) : s'.sz ≤ s'.inp.length := by
  obtain ⟨p, hp, hs⟩ := h
  rw [hp, List.length_append] at he
  omega

/-- discarding the rest of a frame that is on the stream succeeds and leaves exactly what follows the frame -/
theorem discardN_all_enough (s : RS) (he : s.sz ≤ s.inp.length) :
    discardN (↑s.sz) s = (.ok (), ⟨s.inp.drop s.sz, 0⟩) := by
  unfold discardN
  simp only [Int.le_refl, ↓reduceIte, Int.toNat_natCast]
  have h1 : ¬ ((s.sz : Int) < 0) := by omega
  have h2 : ¬ (s.inp.length < s.sz) := by omega
  simp [h1, h2]

/-- a failing discard of the rest of the frame has used the stream up -/
theorem discardN_all_fail {s s2 : RS} {e : Err} (h : discardN (↑s.sz) s = (.error e, s2)) :
    s2.inp = [] ∧ s.inp.length < s.sz := by
  unfold discardN at h
  simp only [Int.le_refl, ↓reduceIte, Int.toNat_natCast] at h
  split at h
  · omega
  · split at h
    · rename_i hlt
      simp only [Prod.mk.injEq] at h
      exact ⟨by rw [← h.2], hlt⟩
    · simp at h

/-- fetch, the frame being fully on the stream: not failed ⇒ frame fully consumed. -/
theorem fetchRead_full (v : Nat) (offset : Int) (b : Body) (s : RS) (hb : b.Conserves) (he : s.sz ≤ s.inp.length)
    (hnf : (fetchRead true v offset b s).1.isFail = false) : (fetchRead true v offset b s).2.sz = 0 := by
  have hh := runSteps_adv (fetchHeader v) { ver := v } s
  unfold fetchRead at hnf ⊢
  cases hp : runSteps (fetchHeader v) { ver := v } s with
  | mk r s1 =>
    rw [hp] at hnf hh
    cases r with
    | error e =>
      cases e with
      | kafka k => exact drainKafka_zero k s1 hnf
      | shortRead => simp [Outcome.isFail] at hnf
      | eof => simp [Outcome.isFail] at hnf
      | unexpectedEOF => simp [Outcome.isFail] at hnf
      | other w => simp [Outcome.isFail] at hnf
      | panic w => simp [Outcome.isFail] at hnf
    | ok c =>
      simp only at hnf ⊢
      split
      · rename_i hw
        simp only [hw, ↓reduceIte] at hnf
        exact drainKafka_zero 7 s1 hnf
      · rename_i hw
        simp only [hw, ↓reduceIte] at hnf
        have h1 := hb.1 s1
        cases hf : b.first s1 with
        | mk r1 s2 =>
          rw [hf] at hnf h1
          cases r1 with
          | error e => cases e <;> simp [Outcome.isFail] at hnf
          | ok u =>
            simp only at hnf ⊢
            have h2 := hb.2 s2
            have he3 : (b.rest s2).2.sz ≤ (b.rest s2).2.inp.length :=
              Adv_enough h2 (Adv_enough h1 (Adv_enough hh he))
            cases hr : b.rest s2 with
            | mk e3 s3 =>
              rw [hr] at hnf he3
              simp only at he3
              have hd := discardN_all_enough s3 he3
              cases e3 with
              | shortRead => simp [hd]
              | kafka k => simp [hd]
              | eof => simp [Outcome.isFail] at hnf
              | unexpectedEOF => simp [Outcome.isFail] at hnf
              | other w => simp [Outcome.isFail] at hnf
              | panic w => simp [Outcome.isFail] at hnf

theorem fetchRead_adv (fixed : Bool) (v : Nat) (offset : Int) (b : Body) (s : RS) (hb : b.Conserves) :
    Adv s (fetchRead fixed v offset b s).2 := by
  have hh := runSteps_adv (fetchHeader v) { ver := v } s
  unfold fetchRead
  cases hp : runSteps (fetchHeader v) { ver := v } s with
  | mk r s1 =>
    rw [hp] at hh
    cases r with
    | error e =>
      cases e with
      | kafka k => exact Adv.trans hh (drainKafka_adv fixed k s1)
      | _ => exact hh
    | ok c =>
      simp only
      split
      · exact Adv.trans hh (drainKafka_adv fixed 7 s1)
      · have h1 := hb.1 s1
        cases hf : b.first s1 with
        | mk r1 s2 =>
          rw [hf] at h1
          cases r1 with
          | error e => cases e <;> exact Adv.trans hh h1
          | ok u =>
            simp only
            have h2 := hb.2 s2
            cases hr : b.rest s2 with
            | mk e3 s3 =>
              rw [hr] at h2
              have h3 := Adv.trans hh (Adv.trans h1 h2)
              have hd := conserves_discardN (↑s3.sz) s3
              cases e3 with
              | shortRead =>
                simp only
                cases hq : discardN (↑s3.sz) s3 with
                | mk r4 s4 => rw [hq] at hd; cases r4 <;> exact Adv.trans h3 hd
              | kafka k =>
                simp only
                cases hq : discardN (↑s3.sz) s3 with
                | mk r4 s4 =>
                  rw [hq] at hd
                  cases r4 with
                  | ok u4 => exact Adv.trans h3 hd
                  | error e4 => cases fixed <;> exact Adv.trans h3 hd
              | _ => exact h3

/-- on a stream too short for the frame, a drain cannot succeed -/
theorem drainKafka_cut (k : Int) (s1 : RS) (key : (drainKafka true k s1).2.sz = 0 → False) :
    (drainKafka true k s1).1.isFail = true := by
  unfold drainKafka at key ⊢
  simp only [Bool.true_and] at key ⊢
  split
  · rename_i hpos
    have hpos' : 0 < s1.sz := of_decide_eq_true hpos
    cases hq : discardN (↑s1.sz) s1 with
    | mk r2 s2 =>
      rw [hq] at key
      simp only [hpos'] at key
      cases r2 with
      | ok u => exact absurd (discardN_all_ok hq) (by simpa using key)
      | error e2 => simp [Outcome.isFail]
  · rename_i h1
    have : s1.sz = 0 := by simpa using h1
    simp only [h1, Bool.false_eq_true, ↓reduceIte] at key
    exact absurd this key

/-- fetch on a stream that ends before the frame does — for every conserving message-set reader, however far the batch
was read before Close: a non-kafka error.  (Since the fix C02-D33 also when a kafka error came out of ReadMessage
and the rest of the response could not be skipped.) -/
theorem fetchRead_cut (v : Nat) (offset : Int) (b : Body) (s : RS) (hb : b.Conserves) (hcut : s.inp.length < s.sz) :
    (fetchRead true v offset b s).1.isFail = true := by
  have hadv := fetchRead_adv true v offset b s hb
  have key : (fetchRead true v offset b s).2.sz = 0 → False := by
    intro hz
    have := (hadv.consumed_all hz).1
    omega
  have hh := runSteps_adv (fetchHeader v) { ver := v } s
  unfold fetchRead at key ⊢
  cases hp : runSteps (fetchHeader v) { ver := v } s with
  | mk r s1 =>
    rw [hp] at key hh
    cases r with
    | error e =>
      cases e with
      | kafka k => exact drainKafka_cut k s1 key
      | shortRead => simp [Outcome.isFail]
      | eof => simp [Outcome.isFail]
      | unexpectedEOF => simp [Outcome.isFail]
      | other w => simp [Outcome.isFail]
      | panic w => simp [Outcome.isFail]
    | ok c =>
      simp only at key ⊢
      split
      · rename_i hw
        simp only [hw, ↓reduceIte] at key
        exact drainKafka_cut 7 s1 key
      · rename_i hw
        simp only [hw, ↓reduceIte] at key
        cases hf : b.first s1 with
        | mk r1 s2 =>
          rw [hf] at key
          cases r1 with
          | error e => cases e <;> simp [Outcome.isFail]
          | ok u =>
            simp only at key ⊢
            cases hr : b.rest s2 with
            | mk e3 s3 =>
              rw [hr] at key
              cases e3 with
              | shortRead =>
                simp only at key ⊢
                cases hq : discardN (↑s3.sz) s3 with
                | mk r4 s4 =>
                  rw [hq] at key
                  cases r4 with
                  | ok u4 => exact absurd (discardN_all_ok hq) (by simpa using key)
                  | error e4 => simp [Outcome.isFail]
              | kafka k =>
                simp only at key ⊢
                cases hq : discardN (↑s3.sz) s3 with
                | mk r4 s4 =>
                  rw [hq] at key
                  cases r4 with
                  | ok u4 => exact absurd (discardN_all_ok hq) (by simpa using key)
                  | error e4 => simp [Outcome.isFail]
              | eof => simp [Outcome.isFail]
              | unexpectedEOF => simp [Outcome.isFail]
              | other w => simp [Outcome.isFail]
              | panic w => simp [Outcome.isFail]

end KV.ConnOps
