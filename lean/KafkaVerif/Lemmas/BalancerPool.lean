/-
Lemmas/BalancerPool.lean — the ownership discipline of the hasher in Hash.Balance / ReferenceHash.Balance
(Model/Balancer.lean: `ownedRun`, `Pool`).  Core Lean only.
-/
import KafkaVerif.Model.Balancer

namespace KV.Balancer

/-- the caller-local discipline: every `use` happens while holding -/
theorem ownedRun_use_held : ∀ (es : List OwnEv) (h d : Bool), ownedRun es h d = true →
    ∀ pre post, es = pre ++ OwnEv.use :: post → holdingAfter pre h = true := by
  intro es
  induction es with
  | nil => intro h d _ pre post he; cases pre <;> simp at he
  | cons e es ih =>
    intro h d hr pre post he
    cases pre with
    | nil =>
      simp only [List.nil_append, List.cons.injEq] at he
      obtain ⟨rfl, _⟩ := he
      simp only [ownedRun, Bool.and_eq_true] at hr
      simpa [holdingAfter] using hr.1
    | cons a pre =>
      simp only [List.cons_append, List.cons.injEq] at he
      obtain ⟨rfl, rfl⟩ := he
      cases e with
      | acquire =>
        simp only [ownedRun, Bool.and_eq_true] at hr
        simpa [holdingAfter] using ih true d hr.2 pre post rfl
      | release =>
        simp only [ownedRun, Bool.and_eq_true] at hr
        simpa [holdingAfter] using ih false d hr.2 pre post rfl
      | deferRelease =>
        simp only [ownedRun, Bool.and_eq_true] at hr
        simpa [holdingAfter] using ih h true hr.2 pre post rfl
      | use =>
        simp only [ownedRun, Bool.and_eq_true] at hr
        simpa [holdingAfter] using ih h d hr.2 pre post rfl

/-- the shared state: who holds what is exclusive, held objects are not in the pool, one object per caller -/
structure Pool.Inv (p : Pool) : Prop where
  excl : ∀ c o c', (c, o) ∈ p.held → (c', o) ∈ p.held → c = c'
  notFree : ∀ c o, (c, o) ∈ p.held → o ∉ p.free
  freeNodup : p.free.Nodup
  bound : ∀ o, (o ∈ p.free ∨ ∃ c, (c, o) ∈ p.held) → o < p.next
  one : ∀ c o o', (c, o) ∈ p.held → (c, o') ∈ p.held → o = o'

theorem Pool.inv_init : Pool.init.Inv :=
  ⟨by simp [Pool.init], by simp [Pool.init], by simp [Pool.init], by simp [Pool.init], by simp [Pool.init]⟩

private theorem not_any_caller {held : List (Nat × Nat)} {c : Nat} (h : ¬ held.any (·.1 == c) = true) :
    ∀ o, (c, o) ∉ held := by
  intro o hm
  apply h
  simp only [List.any_eq_true]
  exact ⟨(c, o), hm, by simp⟩

theorem Pool.inv_step (p p' : Pool) (e : PoolEv) (hi : p.Inv) (hs : p.step e = some p') : p'.Inv := by
  cases e with
  | get c pick =>
    cases pick with
    | none =>
      simp only [Pool.step] at hs
      split at hs
      · cases hs
      · rename_i hany
        cases hs
        have hc := not_any_caller hany
        refine ⟨?_, ?_, hi.freeNodup, ?_, ?_⟩
        · intro a o a' h1 h2
          simp only [List.mem_cons, Prod.mk.injEq] at h1 h2
          rcases h1 with ⟨rfl, rfl⟩ | h1 <;> rcases h2 with ⟨rfl, h2e⟩ | h2
          · rfl
          · exact absurd (hi.bound _ (Or.inr ⟨_, h2⟩)) (Nat.lt_irrefl _)
          · subst h2e; exact absurd (hi.bound _ (Or.inr ⟨_, h1⟩)) (Nat.lt_irrefl _)
          · exact hi.excl _ _ _ h1 h2
        · intro a o h1 hf
          simp only [List.mem_cons, Prod.mk.injEq] at h1
          rcases h1 with ⟨rfl, rfl⟩ | h1
          · exact absurd (hi.bound _ (Or.inl hf)) (Nat.lt_irrefl _)
          · exact hi.notFree _ _ h1 hf
        · intro o h
          rcases h with hf | ⟨a, ha⟩
          · exact Nat.lt_succ_of_lt (hi.bound _ (Or.inl hf))
          · simp only [List.mem_cons, Prod.mk.injEq] at ha
            rcases ha with ⟨_, rfl⟩ | ha
            · exact Nat.lt_succ_self _
            · exact Nat.lt_succ_of_lt (hi.bound _ (Or.inr ⟨_, ha⟩))
        · intro a o o' h1 h2
          simp only [List.mem_cons, Prod.mk.injEq] at h1 h2
          rcases h1 with ⟨rfl, rfl⟩ | h1 <;> rcases h2 with ⟨h2c, rfl⟩ | h2
          · rfl
          · exact absurd h2 (hc _)
          · subst h2c; exact absurd h1 (hc _)
          · exact hi.one _ _ _ h1 h2
    | some o =>
      simp only [Pool.step] at hs
      split at hs
      · cases hs
      · rename_i hany
        split at hs
        · rename_i hcont
          cases hs
          have hc := not_any_caller hany
          have hof : o ∈ p.free := by simpa using hcont
          refine ⟨?_, ?_, hi.freeNodup.erase _, ?_, ?_⟩
          · intro a x a' h1 h2
            simp only [List.mem_cons, Prod.mk.injEq] at h1 h2
            rcases h1 with ⟨rfl, rfl⟩ | h1 <;> rcases h2 with ⟨rfl, h2e⟩ | h2
            · rfl
            · exact absurd hof (hi.notFree _ _ h2)
            · subst h2e; exact absurd hof (hi.notFree _ _ h1)
            · exact hi.excl _ _ _ h1 h2
          · intro a x h1 hf
            simp only [List.mem_cons, Prod.mk.injEq] at h1
            rcases h1 with ⟨rfl, rfl⟩ | h1
            · exact hi.freeNodup.not_mem_erase hf
            · exact hi.notFree _ _ h1 (List.mem_of_mem_erase hf)
          · intro x h
            rcases h with hf | ⟨a, ha⟩
            · exact hi.bound _ (Or.inl (List.mem_of_mem_erase hf))
            · simp only [List.mem_cons, Prod.mk.injEq] at ha
              rcases ha with ⟨_, rfl⟩ | ha
              · exact hi.bound _ (Or.inl hof)
              · exact hi.bound _ (Or.inr ⟨_, ha⟩)
          · intro a x x' h1 h2
            simp only [List.mem_cons, Prod.mk.injEq] at h1 h2
            rcases h1 with ⟨rfl, rfl⟩ | h1 <;> rcases h2 with ⟨h2c, rfl⟩ | h2
            · rfl
            · exact absurd h2 (hc _)
            · subst h2c; exact absurd h1 (hc _)
            · exact hi.one _ _ _ h1 h2
        · cases hs
  | put c =>
    simp only [Pool.step] at hs
    split at hs
    · cases hs
    · rename_i c0 o hfind
      cases hs
      have hmem : (c0, o) ∈ p.held := List.mem_of_find?_eq_some hfind
      have hc0 : c0 = c := by simpa using List.find?_some hfind
      subst hc0
      refine ⟨?_, ?_, ?_, ?_, ?_⟩
      · intro a x a' h1 h2
        simp only [List.mem_filter] at h1 h2
        exact hi.excl _ _ _ h1.1 h2.1
      · intro a x h1 hf
        simp only [List.mem_filter, bne_iff_ne, ne_eq] at h1
        simp only [List.mem_cons] at hf
        rcases hf with rfl | hf
        · exact h1.2 (hi.excl _ _ _ h1.1 hmem)
        · exact hi.notFree _ _ h1.1 hf
      · exact List.nodup_cons.mpr ⟨hi.notFree _ _ hmem, hi.freeNodup⟩
      · intro x h
        rcases h with hf | ⟨a, ha⟩
        · simp only [List.mem_cons] at hf
          rcases hf with rfl | hf
          · exact hi.bound _ (Or.inr ⟨_, hmem⟩)
          · exact hi.bound _ (Or.inl hf)
        · simp only [List.mem_filter] at ha
          exact hi.bound _ (Or.inr ⟨_, ha.1⟩)
      · intro a x x' h1 h2
        simp only [List.mem_filter] at h1 h2
        exact hi.one _ _ _ h1.1 h2.1
  | drop o =>
    simp only [Pool.step] at hs
    split at hs
    · cases hs
      refine ⟨hi.excl, ?_, hi.freeNodup.erase _, ?_, hi.one⟩
      · intro a x h1 hf
        exact hi.notFree _ _ h1 (List.mem_of_mem_erase hf)
      · intro x h
        rcases h with hf | h
        · exact hi.bound _ (Or.inl (List.mem_of_mem_erase hf))
        · exact hi.bound _ (Or.inr h)
    · cases hs

theorem Pool.inv_run : ∀ (evs : List PoolEv) (p p' : Pool), p.Inv → p.run evs = some p' → p'.Inv := by
  intro evs
  induction evs with
  | nil => intro p p' hi hr; simp only [Pool.run, Option.some.injEq] at hr; exact hr ▸ hi
  | cons e es ih =>
    intro p p' hi hr
    simp only [Pool.run] at hr
    split at hr
    · cases hr
    · rename_i q hq
      exact ih q p' (Pool.inv_step p q e hi hq) hr

end KV.Balancer
