/-
Lemmas/GroupWire.lean — reading back what write.go wrote: primitives of the legacy Conn codec in the size-threading
reader monad, and the two group payloads (helper lemmas for Props/C14.lean §7).
-/
import KafkaVerif.Model.GroupWire

namespace KV.GroupWire
open KV KV.Reader KV.Legacy KV.Wire

theorem encInt_length (k : Nat) (i : Int) : (encInt k i).length = k := by simp [encInt, be_length]

theorem beInt_eq_toS (bs : Bytes) (hk : 0 < bs.length) : beInt bs = toS (8 * bs.length) (fromBE bs) := by
  unfold beInt toS
  have h1 : beNat bs = fromBE bs := rfl
  have hp : (256 : Nat) ^ bs.length = 2 ^ (8 * bs.length) := by
    rw [show (256 : Nat) = 2 ^ 8 by rfl, ← Nat.pow_mul]
  have hp2 : (2 : Nat) ^ (8 * bs.length) = 2 * 2 ^ (8 * bs.length - 1) := by
    have : 8 * bs.length = (8 * bs.length - 1) + 1 := by omega
    rw [this, Nat.pow_succ]; simp; omega
  simp only [h1, hp]
  generalize fromBE bs = u
  rw [hp2]
  generalize (2 : Nat) ^ (8 * bs.length - 1) = h
  split <;> split <;> omega

/-- the value fits a signed `k`-byte field -/
def Fits (k : Nat) (i : Int) : Prop := -(2 ^ (8 * k - 1) : Nat) ≤ i ∧ i < (2 ^ (8 * k - 1) : Nat)

theorem beInt_encInt (k : Nat) (i : Int) (hk : 0 < k) (h : Fits k i) : beInt (encInt k i) = i := by
  rw [beInt_eq_toS _ (by rw [encInt_length]; exact hk), encInt_length]
  exact decInt_encInt k i hk h.1 h.2

theorem readInt_enc (k : Nat) (i : Int) (r : Bytes) (sz : Nat) (hk : 0 < k) (h : Fits k i) (hs : k ≤ sz) :
    readInt k ⟨encInt k i ++ r, sz⟩ = (.ok i, ⟨r, sz - k⟩) := by
  unfold readInt peekRead
  have h1 : ¬ k > sz := by omega
  have h2 : ¬ (encInt k i ++ r).length < k := by simp [encInt_length]
  simp only [h1, h2, ↓reduceIte]
  have hl := encInt_length k i
  rw [List.take_left' hl, List.drop_left' hl, beInt_encInt k i hk h]

theorem readNewBytes_app (b r : Bytes) (sz : Nat) (hs : b.length ≤ sz) :
    readNewBytes (b.length : Int) ⟨b ++ r, sz⟩ = (.ok b, ⟨r, sz - b.length⟩) := by
  unfold readNewBytes
  by_cases h0 : b.length = 0
  · have : b = [] := List.eq_nil_of_length_eq_zero h0
    subst this; simp
  · have h1 : ¬ ((b.length : Int) ≤ 0) := by omega
    simp only [h1, ↓reduceIte, Int.toNat_natCast]
    have hm : min b.length sz = b.length := by omega
    simp only [hm]
    have h2 : ¬ (b ++ r).length < b.length := by simp
    have h3 : ¬ sz < b.length := by omega
    simp [h2, h3]

theorem fits2 (n : Nat) (h : n < 32768) : Fits 2 (n : Int) := by unfold Fits; constructor <;> simp <;> omega
theorem fits4 (n : Nat) (h : n < 2147483648) : Fits 4 (n : Int) := by unfold Fits; constructor <;> simp <;> omega

theorem readString_write (s r : Bytes) (sz : Nat) (hl : s.length < 32768) (hs : 2 + s.length ≤ sz) :
    readString ⟨writeString s ++ r, sz⟩ = (.ok s, ⟨r, sz - (2 + s.length)⟩) := by
  unfold readString readLenWith writeString
  rw [List.append_assoc, readInt_enc 2 _ _ sz (by omega) (fits2 _ hl) (by omega)]
  have : ¬ ((s.length : Int) > ((sz - 2 : Nat) : Int)) := by omega
  simp only [this, ↓reduceIte]
  rw [readNewBytes_app s r (sz - 2) (by omega)]
  congr 2; omega

theorem readBytes_write (b r : Bytes) (sz : Nat) (hl : b.length < 2147483648) (hs : 4 + b.length ≤ sz) :
    readBytes ⟨writeBytes b ++ r, sz⟩ = (.ok b, ⟨r, sz - (4 + b.length)⟩) := by
  unfold readBytes readLenWith writeBytes
  rw [List.append_assoc, readInt_enc 4 _ _ sz (by omega) (fits4 _ hl) (by omega)]
  have : ¬ ((b.length : Int) > ((sz - 4 : Nat) : Int)) := by omega
  simp only [this, ↓reduceIte]
  rw [readNewBytes_app b r (sz - 4) (by omega)]
  congr 2; omega

/-- nil bytes (length −1) read back as empty -/
theorem readBytes_nil (r : Bytes) (sz : Nat) (hs : 4 ≤ sz) :
    readBytes ⟨encInt 4 (-1) ++ r, sz⟩ = (.ok [], ⟨r, sz - 4⟩) := by
  unfold readBytes readLenWith
  rw [readInt_enc 4 (-1) r sz (by omega) (by unfold Fits; constructor <;> simp) hs]
  have : ¬ ((-1 : Int) > ((sz - 4 : Nat) : Int)) := by omega
  simp only [this, ↓reduceIte]
  simp [readNewBytes]

def optLen : Option Bytes → Nat
  | none => 0
  | some b => b.length

theorem readBytes_opt (u : Option Bytes) (r : Bytes) (sz : Nat) (hl : optLen u < 2147483648) (hs : 4 + optLen u ≤ sz) :
    readBytes ⟨writeOptBytes u ++ r, sz⟩ = (.ok (u.getD []), ⟨r, sz - (4 + optLen u)⟩) := by
  cases u with
  | none => simpa [writeOptBytes, optLen] using readBytes_nil r sz (by simpa [optLen] using hs)
  | some b => simpa [writeOptBytes, optLen] using readBytes_write b r sz hl hs

/-- a loop of `k` reads over the concatenation of `k` written elements -/
theorem readTimes_each {α : Type} (cb : R α) (w : α → Bytes) : ∀ (l : List α) (r : Bytes) (sz : Nat),
    (∀ a ∈ l, ∀ r' sz', (w a).length ≤ sz' → cb ⟨w a ++ r', sz'⟩ = (.ok a, ⟨r', sz' - (w a).length⟩)) →
    (writeEach l w).length ≤ sz →
    readTimes cb l.length ⟨writeEach l w ++ r, sz⟩ = (.ok l, ⟨r, sz - (writeEach l w).length⟩)
  | [], r, sz, _, _ => by simp [readTimes, writeEach, rpure]
  | a :: l, r, sz, h, hs => by
    have hw : writeEach (a :: l) w = w a ++ writeEach l w := by simp [writeEach]
    rw [hw] at hs ⊢
    rw [List.length_append] at hs
    simp only [List.length_cons, readTimes, rbind]
    rw [List.append_assoc, h a List.mem_cons_self _ sz (by omega)]
    simp only
    rw [readTimes_each cb w l r _ (fun x hx => h x (List.mem_cons_of_mem _ hx)) (by omega)]
    simp only [rpure, List.length_append]
    congr 2; omega


/-! ## arrays, entries, the two payloads -/

theorem readArrayWith_write {α : Type} (cb : R α) (w : α → Bytes) (l : List α) (r : Bytes) (sz : Nat)
    (hn : l.length < 2147483648)
    (h : ∀ a ∈ l, ∀ r' sz', (w a).length ≤ sz' → cb ⟨w a ++ r', sz'⟩ = (.ok a, ⟨r', sz' - (w a).length⟩))
    (hs : (writeArray l w).length ≤ sz) :
    readArrayWith cb ⟨writeArray l w ++ r, sz⟩ = (.ok l, ⟨r, sz - (writeArray l w).length⟩) := by
  unfold readArrayWith writeArray writeArrayLen at *
  rw [List.length_append, encInt_length] at hs
  simp only [rbind]
  rw [List.append_assoc, readInt_enc 4 _ _ sz (by omega) (fits4 _ hn) (by omega)]
  simp only [Int.toNat_natCast]
  rw [readTimes_each cb w l r _ h (by omega), List.length_append, encInt_length]
  congr 2; omega

/-- all values fit int32 -/
def FitsAll (l : List Int) : Prop := ∀ v ∈ l, Fits 4 v

theorem readInt32Array_write (l : List Int) (r : Bytes) (sz : Nat) (hn : l.length < 2147483648) (hv : FitsAll l)
    (hs : (writeInt32Array l).length ≤ sz) :
    readArrayWith (readInt 4) ⟨writeInt32Array l ++ r, sz⟩ = (.ok l, ⟨r, sz - (writeInt32Array l).length⟩) := by
  unfold writeInt32Array at *
  apply readArrayWith_write (readInt 4) writeInt32 l r sz hn _ hs
  intro a ha r' sz' hsz
  have hl : (writeInt32 a).length = 4 := encInt_length 4 a
  rw [hl] at hsz ⊢
  exact readInt_enc 4 a r' sz' (by omega) (hv a ha) hsz

def WFEntry (e : Bytes × List Int) : Prop := e.1.length < 32768 ∧ e.2.length < 2147483648 ∧ FitsAll e.2

theorem readEntry_write (e : Bytes × List Int) (r : Bytes) (sz : Nat) (h : WFEntry e) (hs : (writeEntry e).length ≤ sz) :
    readEntry ⟨writeEntry e ++ r, sz⟩ = (.ok e, ⟨r, sz - (writeEntry e).length⟩) := by
  unfold readEntry writeEntry at *
  have hls : (writeString e.1).length = 2 + e.1.length := by simp [writeString, encInt_length]
  rw [List.length_append, hls] at hs
  simp only [rbind]
  rw [List.append_assoc, readString_write e.1 _ sz h.1 (by omega)]
  simp only
  rw [readInt32Array_write e.2 r _ h.2.1 h.2.2 (by omega)]
  simp only [rpure, List.length_append, hls]
  congr 2; omega

structure WFAssignment (a : Assignment) : Prop where
  version : Fits 2 a.version
  count : a.entries.length < 2147483648
  entries : ∀ e ∈ a.entries, WFEntry e
  userData : optLen a.userData < 2147483648

/-- `groupAssignment.readFrom` reads back exactly the entries `groupAssignment.writeTo` wrote, in the order written,
consumes exactly the bytes written and leaves the size counter at 0 -/
theorem readAssignment_write (a : Assignment) (h : WFAssignment a) (r : Bytes) :
    readAssignment ⟨writeAssignment a ++ r, (writeAssignment a).length⟩ =
      (.ok (a.version, a.entries, a.userData.getD []), ⟨r, 0⟩) := by
  have hl2 : (writeInt16 a.version).length = 2 := encInt_length 2 _
  have hl4 : (writeInt32 (a.entries.length : Int)).length = 4 := encInt_length 4 _
  have hlo : (writeOptBytes a.userData).length = 4 + optLen a.userData := by
    cases a.userData <;> simp [writeOptBytes, optLen, writeBytes, encInt_length]
  have hlen : (writeAssignment a).length = 2 + (4 + ((writeEach a.entries writeEntry).length + (4 + optLen a.userData))) := by
    simp only [writeAssignment, List.length_append, hl2, hl4, hlo]; omega
  unfold readAssignment
  have hnz : ¬ (writeAssignment a).length = 0 := by omega
  simp only [hnz, ↓reduceIte]
  rw [hlen]
  unfold writeAssignment
  simp only [rbind, List.append_assoc]
  rw [show writeInt16 a.version = encInt 2 a.version from rfl, readInt_enc 2 _ _ _ (by omega) h.version (by omega)]
  simp only [readEntries, rbind]
  rw [show writeInt32 (a.entries.length : Int) = encInt 4 (a.entries.length : Int) from rfl,
    readInt_enc 4 _ _ _ (by omega) (fits4 _ h.count) (by omega)]
  simp only [Int.toNat_natCast]
  rw [readTimes_each readEntry writeEntry a.entries _ _
    (fun e he r' sz' hsz => readEntry_write e r' sz' (h.entries e he) hsz) (by omega)]
  simp only
  rw [readBytes_opt a.userData r _ h.userData (by omega)]
  simp only [rpure]
  congr 2; omega

structure WFMetadata (m : Metadata) : Prop where
  version : Fits 2 m.version
  count : m.topics.length < 2147483648
  topics : ∀ t ∈ m.topics, t.length < 32768
  userData : optLen m.userData < 2147483648

/-- `groupMetadata.readFrom` reads back what `groupMetadata.writeTo` wrote: the topic list in listing order (repeats
included) and the user data (nil reads as empty) -/
theorem readMetadata_write (m : Metadata) (h : WFMetadata m) (r : Bytes) :
    readMetadata ⟨writeMetadata m ++ r, (writeMetadata m).length⟩ =
      (.ok (m.version, m.topics, m.userData.getD []), ⟨r, 0⟩) := by
  have hl2 : (writeInt16 m.version).length = 2 := encInt_length 2 _
  have hlo : (writeOptBytes m.userData).length = 4 + optLen m.userData := by
    cases m.userData <;> simp [writeOptBytes, optLen, writeBytes, encInt_length]
  have hlen : (writeMetadata m).length = 2 + ((writeStringArray m.topics).length + (4 + optLen m.userData)) := by
    simp only [writeMetadata, List.length_append, hl2, hlo]; omega
  unfold readMetadata
  rw [hlen]
  unfold writeMetadata
  simp only [rbind, List.append_assoc]
  rw [show writeInt16 m.version = encInt 2 m.version from rfl, readInt_enc 2 _ _ _ (by omega) h.version (by omega)]
  simp only [readStringArray]
  unfold writeStringArray at *
  rw [readArrayWith_write readString writeString m.topics _ _ h.count
    (fun t ht r' sz' hsz => by
      have hls : (writeString t).length = 2 + t.length := by simp [writeString, encInt_length]
      rw [hls] at hsz ⊢
      exact readString_write t r' sz' (h.topics t ht) hsz) (by omega)]
  simp only
  rw [readBytes_opt m.userData r _ h.userData (by omega)]
  simp only [rpure]
  congr 2; omega


end KV.GroupWire
