/- Lemmas/RoundRobin.lean — RoundRobin call sequences (64-bit call counter). -/
import KafkaVerif.Lemmas.BalancerRange
namespace KV.Balancer
open KV

theorem rr_single (rr : RoundRobin) (parts : List Int) (h1 : 1 ≤ rr.chunkSize) (hp : parts ≠ []) :
    rr.balance parts = ({ rr with counter := (rr.counter + 1) % two64 },
      parts[(rr.counter / rr.chunkSize.toNat) % parts.length]?) := by
  have hpos : 0 < parts.length := List.length_pos_iff.mpr hp
  unfold RoundRobin.balance
  have hc : ¬ rr.chunkSize < 1 := by omega
  have hl : ¬ parts.length = 0 := by omega
  simp only [hc, if_false, hl]

/-- the j-th of a sequence of calls, each with its own non-empty list, answers from the global call number:
`lists[j][((k + j) / ChunkSize) % |lists[j]|]` — as long as the counter does not reach 2⁶⁴ -/
theorem rr_runVar (ch : Int) (h1 : 1 ≤ ch) :
    ∀ (lists : List (List Int)) (k : Nat) (rr : RoundRobin), rr.chunkSize = ch → (lists ≠ [] → rr.counter = k) →
      (∀ l ∈ lists, l ≠ []) → k + lists.length ≤ two64 →
      ∀ (j : Nat) (hj : j < lists.length),
        (rr.runVar lists)[j]? = some (lists[j][((k + j) / ch.toNat) % lists[j].length]?) := by
  intro lists
  induction lists with
  | nil => intro k rr _ _ _ _ j hj; simp at hj
  | cons l rest ih =>
    intro k rr hc hk0 hne hle j hj
    have hk := hk0 (by simp)
    have hl : l ≠ [] := hne l (List.mem_cons_self ..)
    simp only [RoundRobin.runVar]
    rw [rr_single rr l (by omega) hl]
    simp only [List.length_cons] at hle hj
    cases j with
    | zero => simp [hc, hk]
    | succ i =>
      have hk' : rest ≠ [] → (rr.counter + 1) % two64 = k + 1 := by
        intro hr
        have : 0 < rest.length := List.length_pos_iff.mpr hr
        rw [hk]; exact Nat.mod_eq_of_lt (by omega)
      have := ih (k + 1) { rr with counter := (rr.counter + 1) % two64 } hc hk'
        (fun l' h => hne l' (List.mem_cons_of_mem _ h)) (by omega) i (by omega)
      simp only [List.getElem?_cons_succ, List.getElem_cons_succ]
      rw [this]
      have e : k + 1 + i = k + (i + 1) := by omega
      rw [e]

theorem rr_run (parts : List Int) (hp : parts ≠ []) (ch : Int) (h1 : 1 ≤ ch) :
    ∀ (n k : Nat) (rr : RoundRobin), rr.chunkSize = ch → (0 < n → rr.counter = k) → k + n ≤ two64 →
      (RoundRobin.run rr parts n).2 =
        (List.range n).map (fun j => parts[((k + j) / ch.toNat) % parts.length]?) := by
  intro n
  induction n with
  | zero => intro k rr _ _ _; simp [RoundRobin.run]
  | succ n ih =>
    intro k rr hc hk0 hle
    have hk := hk0 (by omega)
    unfold RoundRobin.run
    rw [rr_single rr parts (by omega) hp]
    simp only
    have hk' : 0 < n → (rr.counter + 1) % two64 = k + 1 := by
      intro hn; rw [hk]; exact Nat.mod_eq_of_lt (by omega)
    rw [ih (k + 1) { rr with counter := (rr.counter + 1) % two64 } hc hk' (by omega)]
    rw [List.range_succ_eq_map]
    simp only [List.map_cons, List.map_map, hc, hk, Nat.add_zero]
    congr 1
    apply List.map_congr_left
    intro j _
    simp only [Function.comp]
    have : k + 1 + j = k + (j + 1) := by omega
    rw [this]

end KV.Balancer
