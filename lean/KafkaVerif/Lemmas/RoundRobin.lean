/- Lemmas/RoundRobin.lean — RoundRobin call sequences (position + count model; no bound on the number of calls). -/
import KafkaVerif.Lemmas.BalancerRange
namespace KV.Balancer
open KV

/-- successor modulo `L`, the way the code does it: step, then reset when the end of the list is reached -/
theorem succ_mod_wrap (q L : Nat) (hL : 0 < L) :
    (q + 1) % L = if q % L + 1 ≥ L then 0 else q % L + 1 := by
  have hlt : q % L < L := Nat.mod_lt _ hL
  rw [Nat.add_mod]
  by_cases h1 : L = 1
  · subst h1; simp [Nat.mod_one]
  · have h1' : 1 % L = 1 := Nat.mod_eq_of_lt (by omega)
    rw [h1']
    split
    · have : q % L + 1 = L := by omega
      rw [this, Nat.mod_self]
    · exact Nat.mod_eq_of_lt (by omega)

theorem div_of_decomp (q c r : Nat) (hr : r < c) : (q * c + r) / c = q := by
  have hc : 0 < c := by omega
  rw [Nat.add_comm, Nat.mul_comm, Nat.add_mul_div_left _ _ hc, Nat.div_eq_of_lt hr, Nat.zero_add]

/-- the state after `k` calls with chunk `c` on an `L`-element list: `k = q·c + r`, `r ≤ c`, at position `q mod L`
with `r` messages of the chunk routed (both `(q, c)` and `(q+1, 0)` describe a complete chunk) -/
def RRAt (ch : Int) (L k : Nat) (rr : RoundRobin) : Prop :=
  rr.chunkSize = ch ∧ ∃ q r, k = q * ch.toNat + r ∧ r ≤ ch.toNat ∧ rr.index = q % L ∧ rr.count = Int.ofNat r

theorem rr_step (parts : List Int) (hp : parts ≠ []) (ch : Int) (h1 : 1 ≤ ch) (k : Nat) (rr : RoundRobin)
    (hi : RRAt ch parts.length k rr) :
    (rr.balance parts).2 = parts[(k / ch.toNat) % parts.length]? ∧ RRAt ch parts.length (k + 1) (rr.balance parts).1 := by
  obtain ⟨hc, q, r, hk, hr, hidx, hcnt⟩ := hi
  have hL : 0 < parts.length := List.length_pos_iff.mpr hp
  have hcpos : 0 < ch.toNat := by omega
  have hch : (ch.toNat : Int) = ch := Int.toNat_of_nonneg (by omega)
  have hn1 : ¬ rr.chunkSize < 1 := by omega
  unfold RoundRobin.balance
  simp only [hn1, if_false]
  by_cases hfull : r = ch.toNat
  · -- the chunk is complete: move on
    have hge : rr.count ≥ rr.chunkSize := by rw [hcnt, hc]; simp only [Int.ofNat_eq_natCast]; omega
    simp only [hge, if_true]
    have hkq : k = (q + 1) * ch.toNat := by rw [hk, hfull, Nat.add_mul]; omega
    have hdiv : k / ch.toNat = q + 1 := by rw [hkq, Nat.mul_div_cancel _ hcpos]
    have hw := succ_mod_wrap q parts.length hL
    by_cases hwrap : rr.index + 1 ≥ parts.length
    · simp only [hwrap, if_true]
      have : (q + 1) % parts.length = 0 := by rw [hw, ← hidx]; simp [hwrap]
      refine ⟨by rw [hdiv, this], hc, q + 1, 1, by rw [hkq], by omega, by simp [this], by simp⟩
    · simp only [hwrap, if_false]
      have : (q + 1) % parts.length = rr.index + 1 := by rw [hw, ← hidx]; simp [hwrap]
      refine ⟨by rw [hdiv, this], hc, q + 1, 1, by rw [hkq], by omega, by simp [this], by simp⟩
  · have hlt : r < ch.toNat := by omega
    have hnge : ¬ rr.count ≥ rr.chunkSize := by rw [hcnt, hc]; simp only [Int.ofNat_eq_natCast]; omega
    simp only [hnge, if_false]
    have hdiv : k / ch.toNat = q := by rw [hk]; exact div_of_decomp q _ r hlt
    have hin : ¬ rr.index ≥ parts.length := by rw [hidx]; exact Nat.not_le.mpr (Nat.mod_lt _ hL)
    simp only [hin, if_false]
    refine ⟨by rw [hdiv, hidx], hc, q, r + 1, by rw [hk]; omega, by omega, hidx, ?_⟩
    rw [hcnt]; simp only [Int.ofNat_eq_natCast]; omega

theorem rr_run (parts : List Int) (hp : parts ≠ []) (ch : Int) (h1 : 1 ≤ ch) :
    ∀ (n k : Nat) (rr : RoundRobin), RRAt ch parts.length k rr →
      (RoundRobin.run rr parts n).2 =
        (List.range n).map (fun j => parts[((k + j) / ch.toNat) % parts.length]?) := by
  intro n
  induction n with
  | zero => intro k rr _; simp [RoundRobin.run]
  | succ n ih =>
    intro k rr hi
    obtain ⟨hres, hnext⟩ := rr_step parts hp ch h1 k rr hi
    unfold RoundRobin.run
    simp only
    rw [ih (k + 1) (rr.balance parts).1 hnext, hres]
    rw [List.range_succ_eq_map]
    simp only [List.map_cons, List.map_map, Nat.add_zero]
    congr 1
    apply List.map_congr_left
    intro j _
    simp only [Function.comp]
    have : k + 1 + j = k + (j + 1) := by omega
    rw [this]

theorem rrAt_fresh (ch : Int) (L : Nat) : RRAt ch L 0 (RoundRobin.fresh ch) :=
  ⟨rfl, 0, 0, by simp, by omega, by simp [RoundRobin.fresh], by simp [RoundRobin.fresh]⟩

theorem rrAt_placed (ch : Int) (h1 : 1 ≤ ch) (calls L : Nat) : RRAt ch L calls (RoundRobin.placed ch calls L) := by
  have hn : ¬ ch < 1 := by omega
  have hcpos : 0 < ch.toNat := by omega
  refine ⟨rfl, calls / ch.toNat, calls % ch.toNat, ?_, ?_, ?_, ?_⟩
  · rw [Nat.mul_comm]; exact (Nat.div_add_mod calls ch.toNat).symm
  · exact Nat.le_of_lt (Nat.mod_lt _ hcpos)
  · simp [RoundRobin.placed, hn]
  · simp [RoundRobin.placed, hn]

end KV.Balancer
