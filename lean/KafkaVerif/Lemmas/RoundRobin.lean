/- Lemmas/RoundRobin.lean — RoundRobin call sequences. -/
import KafkaVerif.Lemmas.BalancerRange
namespace KV.Balancer
open KV

theorem chunkU32_small (ch : Int) (h1 : 1 ≤ ch) (h2 : ch < 4294967296) :
    (chunkU32 ch).toNat = ch.toNat := by
  unfold chunkU32
  have : ch % 4294967296 = ch := Int.emod_eq_of_lt (by omega) h2
  rw [this, ofNat_toNat_small]
  omega

theorem rr_single (rr : RoundRobin) (parts : List Int) (h1 : 1 ≤ rr.chunkSize) (h2 : rr.chunkSize < 4294967296)
    (hp : parts ≠ []) :
    rr.balance parts = ({ rr with counter := rr.counter + 1 },
      parts[(rr.counter.toNat / rr.chunkSize.toNat) % parts.length]?) := by
  have hpos : 0 < parts.length := List.length_pos_iff.mpr hp
  have hd : chunkU32 rr.chunkSize ≠ 0 := by
    intro e
    have := congrArg UInt32.toNat e
    rw [chunkU32_small _ h1 h2] at this
    simp at this; omega
  unfold RoundRobin.balance
  have hc : ¬ rr.chunkSize < 1 := by omega
  simp only [hc, if_false]
  have hl : ¬ (chunkU32 rr.chunkSize = 0 ∨ parts.length = 0) := by
    intro h; cases h with
    | inl h => exact hd h
    | inr h => omega
  simp only [hl, if_false]
  rw [UInt32.toNat_div, chunkU32_small _ h1 h2]

theorem rr_run (parts : List Int) (hp : parts ≠ []) (ch : Int) (h1 : 1 ≤ ch) (h2 : ch < 4294967296) :
    ∀ (n k : Nat) (rr : RoundRobin), rr.chunkSize = ch → (0 < n → rr.counter.toNat = k) → k + n ≤ 4294967296 →
      (RoundRobin.run rr parts n).2 =
        (List.range n).map (fun j => parts[((k + j) / ch.toNat) % parts.length]?) := by
  intro n
  induction n with
  | zero => intro k rr _ _ _; simp [RoundRobin.run]
  | succ n ih =>
    intro k rr hc hk0 hle
    have hk := hk0 (by omega)
    unfold RoundRobin.run
    rw [rr_single rr parts (by omega) (by omega) hp]
    simp only
    have hk' : 0 < n → (rr.counter + 1).toNat = k + 1 := by
      intro hn
      rw [UInt32.toNat_add, hk]
      have : (1 : UInt32).toNat = 1 := by decide
      rw [this]
      exact Nat.mod_eq_of_lt (by omega)
    rw [ih (k+1) { rr with counter := rr.counter + 1 } hc hk' (by omega)]
    rw [List.range_succ_eq_map]
    simp only [List.map_cons, List.map_map, hc, hk, Nat.add_zero]
    congr 1
    apply List.map_congr_left
    intro j _
    simp only [Function.comp]
    have : k + 1 + j = k + (j + 1) := by omega
    rw [this]

end KV.Balancer
