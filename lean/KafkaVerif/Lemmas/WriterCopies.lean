/-
Lemmas/WriterCopies.lean — bounded duplication (C01): `InvCopies`: the number of attempts of a batch the broker has
applied never exceeds the attempts the sender has made for it, hence never MaxAttempts; a batch the sender has not
taken yet has no applied attempt.
-/
import KafkaVerif.Lemmas.WriterProgress

namespace KV.Writer

/-- how many attempts of the batch it holds the sender has started (counting the one in flight once the broker has
decided on it); MaxAttempts once the retry loop is left -/
def senderBudget (cfg : Cfg) : Sender → Nat
  | .ready _ k => k
  | .attempting _ k none => k
  | .attempting _ k (some _) => k + 1
  | .finishing _ _ _ => cfg.maxAttempts
  | _ => 0

structure InvCopies (cfg : Cfg) (s : State) : Prop where
  held : ∀ pw P, s.pws pw = some P → ∀ b, P.sender.batch? = some b → ∀ B, s.batches b = some B →
    B.napplied ≤ senderBudget cfg P.sender
  unheld : ∀ b B, s.batches b = some B → (∀ P, s.pws B.pw = some P → P.sender.batch? ≠ some b) → B.done = none →
    B.napplied = 0
  bound : ∀ b B, s.batches b = some B → B.napplied ≤ cfg.maxAttempts

theorem invCopies_init (cfg : Cfg) : InvCopies cfg State.init := by
  constructor <;> simp [State.init]

def CPwsFrame (cfg : Cfg) (s s' : State) : Prop := ∀ pw P', s'.pws pw = some P' →
  P'.sender.batch? = none ∨
  ∃ P, s.pws pw = some P ∧ P'.sender.batch? = P.sender.batch? ∧ senderBudget cfg P.sender ≤ senderBudget cfg P'.sender

def CPwsFrame' (s s' : State) : Prop := ∀ pw P, s.pws pw = some P →
  ∃ P', s'.pws pw = some P' ∧ P'.sender.batch? = P.sender.batch?

def CBatFrame (s s' : State) : Prop := ∀ b B', s'.batches b = some B' →
  (s.batches b = none ∧ B'.napplied = 0) ∨
  ∃ B, s.batches b = some B ∧ B'.napplied = B.napplied ∧ B'.done = B.done ∧ B'.pw = B.pw

theorem InvCopies.of_frame {cfg : Cfg} {s s' : State} (h : InvCopies cfg s) (hp : CPwsFrame cfg s s')
    (hp' : CPwsFrame' s s') (hb : CBatFrame s s') : InvCopies cfg s' := by
  constructor
  · intro pw P' hP' b hbq B' hB'
    rcases hb b B' hB' with ⟨-, h0⟩ | ⟨B, hB, e1, -, -⟩
    · rw [h0]; exact Nat.zero_le _
    · rcases hp pw P' hP' with hn | ⟨P, hP, eq, hle⟩
      · rw [hn] at hbq; cases hbq
      · rw [e1]; exact Nat.le_trans (h.held pw P hP b (by rw [← eq]; exact hbq) B hB) hle
  · intro b B' hB' hun hd
    rcases hb b B' hB' with ⟨-, h0⟩ | ⟨B, hB, e1, e2, e3⟩
    · exact h0
    · rw [e1]
      refine h.unheld b B hB ?_ (by rw [← e2]; exact hd)
      intro P hP hq
      obtain ⟨P', hP', eq⟩ := hp' B.pw P hP
      exact hun P' (by rw [e3]; exact hP') (by rw [eq]; exact hq)
  · intro b B' hB'
    rcases hb b B' hB' with ⟨-, h0⟩ | ⟨B, hB, e1, -, -⟩
    · rw [h0]; exact Nat.zero_le _
    · rw [e1]; exact h.bound b B hB

theorem cpws_id {cfg : Cfg} {s s' : State} (e : s'.pws = s.pws) : CPwsFrame cfg s s' ∧ CPwsFrame' s s' :=
  ⟨fun pw P' h => Or.inr ⟨P', by rw [← e]; exact h, rfl, Nat.le_refl _⟩, fun pw P h => ⟨P, by rw [e]; exact h, rfl⟩⟩

theorem cpws_upd {cfg : Cfg} {s s' : State} {pw : Nat} {P P' : PW} (hP : s.pws pw = some P)
    (e : s'.pws = upd s.pws pw (some P')) (h1 : P'.sender.batch? = P.sender.batch?)
    (h2 : senderBudget cfg P.sender ≤ senderBudget cfg P'.sender) : CPwsFrame cfg s s' ∧ CPwsFrame' s s' := by
  constructor
  · intro x X' hx
    rw [e] at hx
    rcases upd_some_elim hx with ⟨rfl, rfl⟩ | ⟨-, hx⟩
    · exact Or.inr ⟨P, hP, h1, h2⟩
    · exact Or.inr ⟨X', hx, rfl, Nat.le_refl _⟩
  · intro x X hx
    by_cases hxp : x = pw
    · subst hxp; rw [hP] at hx; cases hx
      exact ⟨P', by rw [e]; simp, h1⟩
    · exact ⟨X, by rw [e, upd_other _ _ _ _ hxp]; exact hx, rfl⟩

theorem cbat_id {s s' : State} (e : s'.batches = s.batches) : CBatFrame s s' :=
  fun b B' h => Or.inr ⟨B', by rw [← e]; exact h, rfl, rfl, rfl⟩

theorem cbat_upd {s s' : State} {b : Nat} {B B' : Batch} (hB : s.batches b = some B)
    (e : s'.batches = upd s.batches b (some B')) (h1 : B'.napplied = B.napplied) (h2 : B'.done = B.done)
    (h3 : B'.pw = B.pw) : CBatFrame s s' := by
  intro x X' hx
  rw [e] at hx
  rcases upd_some_elim hx with ⟨rfl, rfl⟩ | ⟨-, hx⟩
  · exact Or.inr ⟨B, hB, h1, h2, h3⟩
  · exact Or.inr ⟨X', hx, rfl, rfl, rfl⟩

theorem InvCopies.frame {cfg : Cfg} {s s' : State} (h : InvCopies cfg s) (hp : CPwsFrame cfg s s' ∧ CPwsFrame' s s')
    (hb : CBatFrame s s') : InvCopies cfg s' := h.of_frame hp.1 hp.2 hb

theorem invCopies_step (cfg : Cfg) (s : State) (e : Event) (s' : State) (hO : InvOrd s) (hA : InvAck s)
    (hG : InvProg cfg s) (hI : InvCopies cfg s) (hs : step cfg s e = some s') : InvCopies cfg s' := by
  cases e with
  | newPW pw q tp =>
    simp only [step] at hs
    repeat' split at hs
    all_goals (first | (cases hs; done) | skip)
    rename_i hg
    cases hs
    have hnone : s.pws pw = none := by
      have := hg.2.2.2.1
      cases hp : s.pws pw with
      | none => rfl
      | some X => rw [hp] at this; cases this
    refine hI.of_frame ?_ ?_ (cbat_id rfl)
    · intro x X' hx
      rcases upd_some_elim hx with ⟨rfl, rfl⟩ | ⟨-, hx⟩
      · exact Or.inl rfl
      · exact Or.inr ⟨X', hx, rfl, Nat.le_refl _⟩
    · intro x X hx
      have hne : x ≠ pw := by rintro rfl; rw [hnone] at hx; cases hx
      exact ⟨X, by show upd s.pws pw _ x = some X; rw [upd_other _ _ _ _ hne]; exact hx, rfl⟩
  | newBatch pw b =>
    simp only [step] at hs
    repeat' split at hs
    all_goals (first | (cases hs; done) | skip)
    rename_i _ P hP hg
    cases hs
    have hnone : s.batches b = none := by
      have := hg.2.2.2.1
      cases hp : s.batches b with
      | none => rfl
      | some X => rw [hp] at this; cases this
    refine hI.frame (cpws_upd hP rfl rfl (Nat.le_refl _)) ?_
    intro x X' hx
    rcases upd_some_elim hx with ⟨rfl, rfl⟩ | ⟨-, hx⟩
    · exact Or.inl ⟨hnone, rfl⟩
    · exact Or.inr ⟨X', hx, rfl, rfl, rfl⟩
  | add pw b c i size =>
    simp only [step, stepAdd] at hs
    repeat' split at hs
    all_goals (first | (cases hs; done) | skip)
    rename_i _ P hPq _ B hB _ C hC hg
    cases hs
    exact hI.frame (cpws_id rfl) (cbat_upd hB rfl rfl rfl rfl)
  | detach pw b why size =>
    simp only [step, stepDetach] at hs
    repeat' split at hs
    all_goals (first | (cases hs; done) | skip)
    rename_i _ P hP _ B hB hg
    cases hs
    exact hI.frame (cpws_upd hP rfl rfl (Nat.le_refl _)) (cbat_upd (B' := { B with detached := some why }) hB rfl rfl rfl rfl)
  | qput q b acc =>
    simp only [step] at hs
    repeat' split at hs
    all_goals (first | (cases hs; done) | skip)
    rename_i _ pw hq _ P hP hg
    cases hs
    exact hI.frame (cpws_upd hP rfl rfl (Nat.le_refl _)) (cbat_id rfl)
  | qclose q =>
    simp only [step] at hs
    repeat' split at hs
    all_goals (first | (cases hs; done) | skip)
    rename_i _ pw hq _ P hP hg
    cases hs
    exact hI.frame (cpws_upd hP rfl rfl (Nat.le_refl _)) (cbat_id rfl)
  | timerFire pw b att =>
    simp only [step] at hs
    repeat' split at hs
    all_goals (first | (cases hs; done) | skip)
    rename_i _ P hP _ B hB hg
    cases hs
    exact hI.frame (cpws_id rfl) (cbat_upd (B' := { B with timerFired := true }) hB rfl rfl rfl rfl)
  | attempt pw b k =>
    simp only [step] at hs
    repeat' split at hs
    all_goals (first | (cases hs; done) | skip)
    rename_i _ P hP hg
    cases hs
    refine hI.frame (cpws_upd hP rfl ?_ ?_) (cbat_id rfl)
    · rw [hg.1]; rfl
    · rw [hg.1]; exact Nat.le_refl _
  | attemptDone pw b k code =>
    simp only [step] at hs
    repeat' split at hs
    all_goals (first | (cases hs; done) | skip)
    rename_i _ P hP _ b' k' br hsend hg
    cases hs
    obtain ⟨rfl, rfl, -⟩ := hg
    have hk := (hG.pw pw P hP).attBound b' k' br hsend
    refine hI.frame (cpws_upd hP rfl ?_ ?_) (cbat_id rfl)
    · rw [hsend]
      show (afterAttempt cfg b' k' code).batch? = some b'
      unfold afterAttempt
      repeat' split
      all_goals rfl
    · rw [hsend]
      show senderBudget cfg (.attempting b' k' br) ≤ senderBudget cfg (afterAttempt cfg b' k' code)
      have h1 : senderBudget cfg (.attempting b' k' br) ≤ k' + 1 := by
        cases br with
        | none => exact Nat.le_succ _
        | some o => exact Nat.le_refl _
      have h2 : k' + 1 ≤ senderBudget cfg (afterAttempt cfg b' k' code) := by
        unfold afterAttempt
        repeat' split
        · exact hk
        · exact Nat.le_refl _
        · exact hk
      exact Nat.le_trans h1 h2
  | completion pw b code =>
    simp only [step] at hs
    repeat' split at hs
    all_goals (first | (cases hs; done) | skip)
    rename_i _ P hP _ B hB hg
    cases hs
    refine hI.frame (cpws_upd hP rfl ?_ ?_)
      (cbat_upd (B' := { B with ncompl := B.ncompl + 1, cbCode := some code }) hB rfl rfl rfl rfl)
    · rw [hg.2]; rfl
    · rw [hg.2]; exact Nat.le_refl _
  | qget q ob =>
    simp only [step] at hs
    repeat' split at hs
    all_goals (first | (cases hs; done) | skip)
    · rename_i _ pw hq _ P hP _ b hg
      cases hs
      have hbq : b ∈ P.queue := by
        cases hqu : P.queue with
        | nil => have := hg.2; rw [hqu] at this; cases this
        | cons a t =>
          have := hg.2; rw [hqu] at this
          simp only [List.head?_cons, Option.some.injEq] at this
          subst this; exact List.mem_cons_self
      have hbpipe : b ∈ P.pipe := by simp [PW.pipe, hbq]
      have hidle : P.sender.batch? = none := by rw [hg.1]; rfl
      constructor
      · intro x X' hx b0 hb0 B0 hB0
        rcases upd_some_elim hx with ⟨rfl, rfl⟩ | ⟨-, hx⟩
        · have : b = b0 := by simpa [Sender.batch?] using hb0
          subst this
          obtain ⟨B1, hB1, hpw⟩ := hO.pipeEx x P hP b hbpipe
          have hB0' : s.batches b = some B0 := hB0
          have e : B1 = B0 := by rw [hB1] at hB0'; exact Option.some.inj hB0'
          subst e
          have hz := hI.unheld b B1 hB1 (by
            intro P2 hP2 hq2
            rw [hpw, hP] at hP2; cases hP2
            rw [hidle] at hq2; cases hq2) (hA.pipeLive x P hP b hbpipe B1 hB1)
          rw [hz]; exact Nat.zero_le _
        · exact hI.held x X' hx b0 hb0 B0 hB0
      · intro b0 B0 hB0 hun hd
        refine hI.unheld b0 B0 hB0 ?_ hd
        intro P2 hP2 hq2
        by_cases hpp : B0.pw = pw
        · rw [hpp, hP] at hP2; cases hP2
          rw [hidle] at hq2; cases hq2
        · exact hun P2 (by show upd s.pws pw _ B0.pw = some P2; rw [upd_other _ _ _ _ hpp]; exact hP2) hq2
      · exact hI.bound
    · rename_i _ pw hq _ P hP _ hg
      cases hs
      refine hI.frame (cpws_upd hP rfl ?_ ?_) (cbat_id rfl)
      · rw [hg.1]; rfl
      · rw [hg.1]; exact Nat.le_refl _
  | produce pw tp msgs out =>
    simp only [step, stepProduce] at hs
    repeat' split at hs
    all_goals (first | (cases hs; done) | skip)
    rename_i _ P hP _ b k hsend _ B hB hg
    cases hs
    have hheld : P.sender.batch? = some b := by rw [hsend]; rfl
    have hk := (hG.pw pw P hP).attBound b k none hsend
    have hle : B.napplied ≤ k := by
      have := hI.held pw P hP b hheld B hB
      rw [hsend] at this; exact this
    have hnp : (B.noteProduce out).napplied ≤ B.napplied + 1 := by
      simp only [Batch.noteProduce]
      split
      · exact Nat.le_refl _
      · exact Nat.le_succ _
    obtain ⟨B1, hB1, hpw⟩ := hO.pipeEx pw P hP b (sender_mem_pipe hheld)
    rw [hB] at hB1; cases hB1
    -- the batches after the step
    have hlook : ∀ x X', (produced s pw b k P B tp out).batches x = some X' →
        (x = b ∧ X' = B.noteProduce out) ∨ (x ≠ b ∧ s.batches x = some X') := by
      intro x X' hx
      by_cases hxb : x = b
      · subst hxb
        have : (produced s pw x k P B tp out).batches x = some (B.noteProduce out) := by simp [produced]
        rw [this] at hx; cases hx; exact Or.inl ⟨rfl, rfl⟩
      · refine Or.inr ⟨hxb, ?_⟩
        have : (produced s pw b k P B tp out).batches x = s.batches x := by
          simp only [produced]; exact upd_other _ _ _ _ hxb
        rw [← this]; exact hx
    have hpwlook : ∀ x, x ≠ pw → (produced s pw b k P B tp out).pws x = s.pws x := by
      intro x hx; simp only [produced]; exact upd_other _ _ _ _ hx
    have hpwself : (produced s pw b k P B tp out).pws pw = some { P with sender := .attempting b k (some out) } := by
      simp [produced]
    constructor
    · intro x X' hx b0 hb0 B0 hB0
      by_cases hxp : x = pw
      · subst hxp
        rw [hpwself] at hx; cases hx
        have : b = b0 := by simpa [Sender.batch?] using hb0
        subst this
        rcases hlook b B0 hB0 with ⟨-, rfl⟩ | ⟨hne, -⟩
        · show (B.noteProduce out).napplied ≤ k + 1
          exact Nat.le_trans hnp (Nat.succ_le_succ hle)
        · exact absurd rfl hne
      · rw [hpwlook x hxp] at hx
        rcases hlook b0 B0 hB0 with ⟨rfl, -⟩ | ⟨-, hB0'⟩
        · exfalso
          obtain ⟨B2, hB2, hpw2⟩ := hO.pipeEx x X' hx b0 (sender_mem_pipe hb0)
          rw [hB] at hB2; cases hB2
          exact hxp (hpw2.symm.trans hpw)
        · exact hI.held x X' hx b0 hb0 B0 hB0'
    · intro b0 B0 hB0 hun hd
      rcases hlook b0 B0 hB0 with ⟨rfl, rfl⟩ | ⟨hne, hB0'⟩
      · exfalso
        have hpw' : (B.noteProduce out).pw = pw := hpw
        exact hun _ (by rw [hpw']; exact hpwself) rfl
      · refine hI.unheld b0 B0 hB0' ?_ hd
        intro P2 hP2 hq2
        by_cases hpp : B0.pw = pw
        · rw [hpp, hP] at hP2; cases hP2
          rw [hheld] at hq2; cases hq2; exact hne rfl
        · exact hun P2 (by rw [hpwlook _ hpp]; exact hP2) hq2
    · intro b0 B0 hB0
      rcases hlook b0 B0 hB0 with ⟨-, rfl⟩ | ⟨-, hB0'⟩
      · exact Nat.le_trans hnp (Nat.le_trans (Nat.succ_le_succ hle) hk)
      · exact hI.bound b0 B0 hB0'
  | complete pw b code =>
    simp only [step] at hs
    repeat' split at hs
    all_goals (first | (cases hs; done) | skip)
    rename_i _ P hP _ B hB hg
    cases hs
    have hheld : P.sender.batch? = some b := by rw [hg]; rfl
    have hlook : ∀ x X', upd s.batches b (some { B with done := some code }) x = some X' →
        ∃ X, s.batches x = some X ∧ X'.napplied = X.napplied ∧ X'.pw = X.pw ∧ (x ≠ b → X' = X) ∧ (x = b → X'.done = some code) := by
      intro x X' hx
      rcases upd_some_elim hx with ⟨rfl, rfl⟩ | ⟨hne, hx⟩
      · exact ⟨B, hB, rfl, rfl, fun h => absurd rfl h, fun _ => rfl⟩
      · exact ⟨X', hx, rfl, rfl, fun _ => rfl, fun h => absurd h hne⟩
    constructor
    · intro x X' hx b0 hb0 B0 hB0
      rcases upd_some_elim hx with ⟨rfl, rfl⟩ | ⟨-, hx⟩
      · cases hb0
      · obtain ⟨X, hX, e1, -, -, -⟩ := hlook b0 B0 hB0
        rw [e1]; exact hI.held x X' hx b0 hb0 X hX
    · intro b0 B0 hB0 hun hd
      obtain ⟨X, hX, e1, e2, e3, e4⟩ := hlook b0 B0 hB0
      by_cases hb : b0 = b
      · rw [e4 hb] at hd; cases hd
      · have := e3 hb; subst this
        refine hI.unheld b0 B0 hX ?_ hd
        intro P2 hP2 hq2
        by_cases hpp : B0.pw = pw
        · rw [hpp, hP] at hP2; cases hP2
          rw [hheld] at hq2; cases hq2; exact hb rfl
        · exact hun P2 (by show upd s.pws pw _ B0.pw = some P2; rw [upd_other _ _ _ _ hpp]; exact hP2) hq2
    · intro b0 B0 hB0
      obtain ⟨X, hX, e1, -, -, -⟩ := hlook b0 B0 hB0
      rw [e1]; exact hI.bound b0 X hX
  | reject c why i =>
    cases why <;> simp only [step, stepReject] at hs <;> repeat' split at hs
    all_goals (first | (cases hs; done) | skip)
    all_goals (cases hs)
    all_goals exact hI.frame (cpws_id rfl) (cbat_id rfl)
  | ret c r =>
    cases r <;> simp only [step, stepRet] at hs <;> repeat' split at hs
    all_goals (first | (cases hs; done) | skip)
    all_goals (cases hs)
    all_goals exact hI.frame (cpws_id rfl) (cbat_id rfl)
  | _ =>
    simp only [step] at hs
    repeat' split at hs
    all_goals (first | (cases hs; done) | skip)
    all_goals (cases hs)
    all_goals exact hI.frame (cpws_id rfl) (cbat_id rfl)

theorem invCopies (cfg : Cfg) (hmax : 1 ≤ cfg.maxAttempts) (s : State) (hr : Reachable cfg s) : InvCopies cfg s :=
  (invariant_of_step cfg (fun s => Reachable cfg s ∧ InvCopies cfg s) ⟨⟨[], rfl⟩, invCopies_init cfg⟩
    (fun s e s' h hs => ⟨reachable_step h.1 hs,
      invCopies_step cfg s e s' (invOrd cfg s h.1) (invAck cfg s h.1) (invProg cfg hmax s h.1) h.2 hs⟩) s hr).2

end KV.Writer
