/-
Lemmas/XerialCut.lean — a framed stream that ENDS EARLY (truncated by the source, or the source fails): whatever the
reader hands out before it reports the end or the error is a prefix of what it hands out for the complete stream —
never other data.  Proved as a simulation: the reader on `rest` and the reader on `rest ++ t` make the same data steps.
-/
import KafkaVerif.Lemmas.XerialReader
import KafkaVerif.Lemmas.XerialIO

namespace KV.Model.Xerial
open KV KV.RW KV.Spec.Xerial

/-- the same reader with more bytes to come -/
def ext (r : Reader) (t : Bytes) : Reader := { r with rest := r.rest ++ t }

/-- a chunk result that carries data (not the end, not an error) -/
def Chunk.isData : Chunk → Bool
  | .direct _ => true
  | .buffered => true
  | _ => false

/-- the reader is in framed mode (header consumed and recognised) or about to read a complete xerial header -/
def Framed (r : Reader) : Prop :=
  (r.nbytes = 0 ∧ 16 ≤ r.rest.length ∧ r.rest.take 8 = magic) ∨ (r.nbytes ≠ 0 ∧ r.header.take 8 = magic)

theorem decodeInto_ext (c : Codec) (r : Reader) (t input : Bytes) (k : Nat) :
    decodeInto c (ext r t) input k = (ext (decodeInto c r input k).1 t, (decodeInto c r input k).2) := by
  unfold decodeInto
  cases c.decodedLen input <;> cases c.dec input <;> simp [ext] <;> split <;> rfl

theorem decodeInto_keeps (c : Codec) (r : Reader) (input : Bytes) (k : Nat) :
    (decodeInto c r input k).1.nbytes = r.nbytes ∧ (decodeInto c r input k).1.header = r.header := by
  unfold decodeInto
  cases c.decodedLen input <;> cases c.dec input <;> simp <;> split <;> simp

theorem framedBody_ext (c : Codec) (r : Reader) (t : Bytes) (k : Nat) (hd : (framedBody c r k).2.isData = true) :
    framedBody c (ext r t) k = (ext (framedBody c r k).1 t, (framedBody c r k).2) ∧
      (framedBody c r k).1.nbytes ≠ 0 ∧ (framedBody c r k).1.header = r.header := by
  simp only [framedBody] at hd ⊢
  by_cases h0 : r.rest.take 4 = []
  · rw [if_pos h0] at hd; simp [Chunk.isData] at hd
  rw [if_neg h0] at hd
  by_cases h4 : (r.rest.take 4).length < 4
  · rw [if_pos h4] at hd; simp [Chunk.isData] at hd
  rw [if_neg h4] at hd
  have hl4 : 4 ≤ r.rest.length := by
    simp only [List.length_take] at h4; omega
  have ht4 : (r.rest ++ t).take 4 = r.rest.take 4 := List.take_append_of_le_length hl4
  by_cases hin : ((r.rest.drop 4).take (deN (r.rest.take 4))).length < deN (r.rest.take 4)
  · rw [if_pos hin] at hd; split at hd <;> simp [Chunk.isData] at hd
  rw [if_neg hin] at hd
  have hlf : 4 + deN (r.rest.take 4) ≤ r.rest.length := by
    simp only [List.length_take, List.length_drop] at hin; omega
  have hd4 : (r.rest ++ t).drop 4 = r.rest.drop 4 ++ t := List.drop_append_of_le_length hl4
  have htk : (r.rest.drop 4 ++ t).take (deN (r.rest.take 4)) = (r.rest.drop 4).take (deN (r.rest.take 4)) :=
    List.take_append_of_le_length (by simp only [List.length_drop]; omega)
  have hdd : (r.rest ++ t).drop (4 + deN (r.rest.take 4)) = r.rest.drop (4 + deN (r.rest.take 4)) ++ t :=
    List.drop_append_of_le_length hlf
  simp only [ext, ht4, h0, h4, if_false, hd4, htk, hin, hdd]
  have := decodeInto_ext c { r with rest := r.rest.drop (4 + deN (r.rest.take 4)), nbytes := r.nbytes + 4 + deN (r.rest.take 4) } t
    ((r.rest.drop 4).take (deN (r.rest.take 4))) k
  simp only [ext] at this
  refine ⟨this, ?_, ?_⟩
  · rw [(decodeInto_keeps c _ _ k).1]; simp
  · rw [(decodeInto_keeps c _ _ k).2]

/-- one `readChunk`: a data step on the short stream is the same data step on the long one -/
theorem readChunk_ext (c : Codec) (r : Reader) (t : Bytes) (k : Nat) (hf : Framed r)
    (hd : (readChunk c r k).2.isData = true) :
    readChunk c (ext r t) k = (ext (readChunk c r k).1 t, (readChunk c r k).2) ∧ Framed (readChunk c r k).1 := by
  rcases hf with ⟨hn, hl, hm⟩ | ⟨hn, hm⟩
  · -- first call of the stream: 16 header bytes are there
    have hne : r.rest.take 16 ≠ [] := by
      intro h; have := congrArg List.length h; simp only [List.length_take, List.length_nil] at this; omega
    have hne' : (ext r t).rest.take 16 ≠ [] := by
      intro h; have := congrArg List.length h
      simp only [ext, List.length_take, List.length_nil, List.length_append] at this; omega
    have ht16 : (r.rest ++ t).take 16 = r.rest.take 16 := List.take_append_of_le_length hl
    have hd16 : (r.rest ++ t).drop 16 = r.rest.drop 16 ++ t := List.drop_append_of_le_length hl
    have hlen16 : (r.rest.take 16).length = 16 := by simp only [List.length_take]; omega
    have hmag : (afterHeader r (r.rest.take 16) (r.rest.drop 16)).header.take 8 = magic := by
      simp only [afterHeader]
      rw [List.take_append_of_le_length (by omega), List.take_take]
      simpa using hm
    have e1 : afterHeader (ext r t) ((ext r t).rest.take 16) ((ext r t).rest.drop 16) =
        ext (afterHeader r (r.rest.take 16) (r.rest.drop 16)) t := by
      simp only [afterHeader, ext, ht16, hd16]
    have hmag' : (afterHeader (ext r t) ((ext r t).rest.take 16) ((ext r t).rest.drop 16)).header.take 8 = magic := by
      rw [e1]; exact hmag
    rw [readChunk_eq c r k, headerPhase_first r hn hne] at hd
    rw [readChunk_eq c r k, readChunk_eq c (ext r t) k, headerPhase_first r hn hne, headerPhase_first (ext r t) hn hne']
    simp only [hmag, hmag', if_true] at hd ⊢
    rw [e1]
    have := framedBody_ext c (afterHeader r (r.rest.take 16) (r.rest.drop 16)) t k hd
    exact ⟨this.1, .inr ⟨this.2.1, by rw [this.2.2]; exact hmag⟩⟩
  · have hn' : (ext r t).nbytes ≠ 0 := hn
    rw [readChunk_eq c r k, headerPhase_later r hn] at hd
    rw [readChunk_eq c r k, readChunk_eq c (ext r t) k, headerPhase_later r hn, headerPhase_later (ext r t) hn']
    have hm1 : (clearOut r).header.take 8 = magic := hm
    have hm2 : (clearOut (ext r t)).header.take 8 = magic := hm
    simp only [hm1, hm2, if_true] at hd ⊢
    have e : clearOut (ext r t) = ext (clearOut r) t := rfl
    rw [e]
    have := framedBody_ext c (clearOut r) t k hd
    exact ⟨this.1, .inr ⟨this.2.1, by rw [this.2.2]; exact hm⟩⟩

/-- one `Read`: if the short stream delivers data, the long one delivers the same data (with any larger fuel) -/
theorem read_ext (c : Codec) (t : Bytes) (k : Nat) : ∀ (fuel fuel' : Nat) (r r1 : Reader) (d : Bytes), fuel ≤ fuel' → Framed r →
    read c fuel r k = (r1, .data d) → read c fuel' (ext r t) k = (ext r1 t, .data d) ∧ Framed r1
  | 0, _, r, r1, d, _, _, h => by simp [read] at h
  | fuel + 1, fuel', r, r1, d, hle, hf, h => by
    obtain ⟨f', rfl⟩ : ∃ f', fuel' = f' + 1 := ⟨fuel' - 1, by omega⟩
    simp only [read] at h ⊢
    by_cases ho : r.offset < r.output.length
    · have ho' : (ext r t).offset < (ext r t).output.length := ho
      rw [if_pos ho] at h
      rw [if_pos ho']
      simp only [Prod.mk.injEq, ReadRes.data.injEq] at h
      obtain ⟨h1, h2⟩ := h
      subst h1; subst h2
      exact ⟨rfl, by
        rcases hf with ⟨a, b, c'⟩ | ⟨a, b⟩
        · exact .inl ⟨a, b, c'⟩
        · exact .inr ⟨a, b⟩⟩
    · have ho' : ¬ (ext r t).offset < (ext r t).output.length := ho
      rw [if_neg ho] at h
      rw [if_neg ho']
      cases hrc : readChunk c r k with
      | mk r2 ch =>
        rw [hrc] at h
        cases ch with
        | eof => simp at h
        | err => simp at h
        | direct b =>
          have hx := readChunk_ext c r t k hf (by rw [hrc]; rfl)
          rw [hrc] at hx
          rw [hx.1]
          simp only at h ⊢
          by_cases hb : b.length > 0
          · rw [if_pos hb] at h ⊢
            simp only [Prod.mk.injEq, ReadRes.data.injEq] at h
            obtain ⟨h1, h2⟩ := h
            subst h1; subst h2
            exact ⟨rfl, hx.2⟩
          · rw [if_neg hb] at h ⊢
            exact read_ext c t k fuel f' r2 r1 d (by omega) hx.2 h
        | buffered =>
          have hx := readChunk_ext c r t k hf (by rw [hrc]; rfl)
          rw [hrc] at hx
          rw [hx.1]
          simp only at h ⊢
          exact read_ext c t k fuel f' r2 r1 d (by omega) hx.2 h

theorem readAllOut_of_readAllWith (c : Codec) : ∀ (ks : List Nat) (r : Reader) (x : Bytes),
    readAllWith c r ks = some x → readAllOut c r ks = x
  | [], r, x, h => by simp [readAllWith] at h
  | k :: ks, r, x, h => by
    simp only [readAllWith] at h
    simp only [readAllOut]
    cases hrd : read c (r.rest.length + 2) r k with
    | mk r' res =>
      rw [hrd] at h
      cases res with
      | data b =>
        simp only [Option.map_eq_some_iff] at h
        obtain ⟨y, hy, rfl⟩ := h
        simp only
        rw [readAllOut_of_readAllWith c ks r' y hy]
      | eof => simp only [Option.some.injEq] at h; subst h; rfl
      | err => simp at h

/-- **a stream that ends early delivers a prefix**: for every continuation `t` of the bytes still to come -/
theorem readAllOut_prefix (c : Codec) (t : Bytes) : ∀ (ks : List Nat) (r : Reader), Framed r →
    readAllOut c r ks <+: readAllOut c (ext r t) ks
  | [], _, _ => by simp [readAllOut]
  | k :: ks, r, hf => by
    simp only [readAllOut]
    cases hrd : read c (r.rest.length + 2) r k with
    | mk r' res =>
      cases res with
      | data b =>
        have hx := read_ext c t k (r.rest.length + 2) ((ext r t).rest.length + 2) r r' b
          (by simp only [ext, List.length_append]; omega) hf hrd
        rw [hx.1]
        simp only
        exact (List.prefix_append_right_inj b).mpr (readAllOut_prefix c t ks r' hx.2)
      | eof => exact List.nil_prefix
      | err => exact List.nil_prefix

/-- the same consumer on the reader whose source is a parameter (Model/XerialIO: any script of short reads, (0, nil)
answers, data together with EOF) -/
def readAllOutIO (c : Codec) : ReaderIO → List Nat → Bytes
  | _, [] => []
  | x, k :: ks =>
    match readIO c (x.r.rest.length + 2) x k with
    | (x', .data b) => b ++ readAllOutIO c x' ks
    | _ => []

theorem readAllOutIO_refines (c : Codec) (ks : List Nat) (x : ReaderIO) :
    readAllOutIO c x ks = readAllOut c x.r ks := by
  induction ks generalizing x with
  | nil => rfl
  | cons k ks ih =>
    simp only [readAllOutIO, readAllOut]
    obtain ⟨sc', h⟩ := readIO_refines c (x.r.rest.length + 2) x k
    rw [h]
    cases hrd : read c (x.r.rest.length + 2) x.r k with
    | mk r' res =>
      cases res with
      | data b => simp only; rw [ih ⟨r', sc'⟩]
      | eof => rfl
      | err => rfl

end KV.Model.Xerial
