/-
Lemmas/Group.lean — invariants of the abstract group history (Model/Group.lean).
-/
import KafkaVerif.Model.Group
namespace KV.GroupHist

/-- record `r` was delivered to some member -/
def Del (s : G) (r : Nat) : Prop := ∃ m, (m, r) ∈ s.delivered

structure GInv (s : G) : Prop where
  /-- everything below the committed offset was delivered -/
  cov : ∀ c, s.committed = some c → ∀ r, r < c → Del s r
  /-- everything below a reader's position was delivered -/
  below : ∀ rd ∈ s.readers, ∀ r, r < rd.pos → Del s r
  /-- the delivered set is downward closed -/
  down : ∀ d ∈ s.delivered, ∀ r, r ≤ d.2 → Del s r

/-- per epoch: delivered exactly `start, start+1, …, pos-1`, in this order, each to the epoch's member -/
structure NoGap (s : G) : Prop where
  shape : ∀ rd ∈ s.readers, rd.start ≤ rd.pos ∧ rd.epoch = List.range' rd.start (rd.pos - rd.start)
  mine : ∀ rd ∈ s.readers, ∀ r ∈ rd.epoch, (rd.m, r) ∈ s.delivered

theorem ginv_init : GInv {} :=
  ⟨(by intro c h; cases h), (by intro rd h; cases h), (by intro d h; cases h)⟩

theorem nogap_init : NoGap {} := ⟨(by intro rd h; cases h), (by intro rd h; cases h)⟩

theorem ginv_step (s s' : G) (e : GEv) (hi : GInv s) (h : gstep false s e = some s') : GInv s' := by
  cases e <;> simp only [gstep] at h
  case produce => cases h; exact ⟨hi.cov, hi.below, hi.down⟩
  case assign m =>
    cases h
    refine ⟨hi.cov, ?_, hi.down⟩
    intro rd hrd r hr
    rcases List.mem_append.mp hrd with hrd | hrd
    · exact hi.below rd hrd r hr
    · simp at hrd; subst hrd
      cases hc : s.committed with
      | none => simp [hc] at hr
      | some c => simp [hc] at hr; exact hi.cov c hc r hr
  case revoke i =>
    split at h
    · cases h
      exact ⟨hi.cov, fun rd hrd => hi.below rd (List.mem_of_mem_eraseIdx hrd), hi.down⟩
    · cases h
  case deliver i =>
    split at h
    · rename_i rd hget
      split at h
      · cases h
        have hmem : rd ∈ s.readers := List.mem_of_getElem? hget
        have mono : ∀ r, Del s r → Del { s with readers := s.readers.set i { rd with pos := rd.pos + 1, epoch := rd.epoch ++ [rd.pos] }, delivered := s.delivered ++ [(rd.m, rd.pos)] } r :=
          fun r ⟨m, hm⟩ => ⟨m, List.mem_append_left _ hm⟩
        have hnew : ∀ r, r ≤ rd.pos → Del { s with readers := s.readers.set i { rd with pos := rd.pos + 1, epoch := rd.epoch ++ [rd.pos] }, delivered := s.delivered ++ [(rd.m, rd.pos)] } r := by
          intro r hr
          rcases Nat.lt_or_ge r rd.pos with hlt | hge
          · exact mono r (hi.below rd hmem r hlt)
          · have : r = rd.pos := by omega
            subst this
            exact ⟨rd.m, List.mem_append_right _ (by simp)⟩
        refine ⟨fun c hc r hr => mono r (hi.cov c hc r hr), ?_, ?_⟩
        · intro x hx r hr
          rcases List.mem_or_eq_of_mem_set hx with hx | rfl
          · exact mono r (hi.below x hx r hr)
          · exact hnew r (by simp at hr; omega)
        · intro d hd r hr
          rcases List.mem_append.mp hd with hd | hd
          · exact mono r (hi.down d hd r hr)
          · simp at hd; subst hd; exact hnew r hr
      · cases h
    · cases h
  case commit m o ack =>
    split at h
    · rename_i hany
      cases h
      cases ack with
      | false => exact hi
      | true =>
        simp only [List.any_eq_true, Bool.and_eq_true, decide_eq_true_eq] at hany
        obtain ⟨d, hd, _, hle⟩ := hany
        refine ⟨?_, hi.below, hi.down⟩
        intro c hc r hr
        simp at hc; subst hc
        exact hi.down d hd r (by omega)
    · cases h

theorem nogap_step (sl : Bool) (s s' : G) (e : GEv) (hi : NoGap s) (h : gstep sl s e = some s') : NoGap s' := by
  cases e <;> simp only [gstep] at h
  case produce => cases h; exact ⟨hi.shape, hi.mine⟩
  case assign m =>
    cases h
    constructor
    · intro rd hrd
      rcases List.mem_append.mp hrd with hrd | hrd
      · exact hi.shape rd hrd
      · simp at hrd; subst hrd; simp
    · intro rd hrd r hr
      rcases List.mem_append.mp hrd with hrd | hrd
      · exact hi.mine rd hrd r hr
      · simp at hrd; subst hrd; cases hr
  case revoke i =>
    split at h
    · cases h
      exact ⟨fun rd hrd => hi.shape rd (List.mem_of_mem_eraseIdx hrd), fun rd hrd => hi.mine rd (List.mem_of_mem_eraseIdx hrd)⟩
    · cases h
  case deliver i =>
    split at h
    · rename_i rd hget
      split at h
      · cases h
        have hmem : rd ∈ s.readers := List.mem_of_getElem? hget
        obtain ⟨hle, hep⟩ := hi.shape rd hmem
        constructor
        · intro x hx
          rcases List.mem_or_eq_of_mem_set hx with hx | rfl
          · exact hi.shape x hx
          · refine ⟨by simp; omega, ?_⟩
            simp only
            have : rd.pos + 1 - rd.start = (rd.pos - rd.start) + 1 := by omega
            rw [this, List.range'_concat, hep]
            congr 2
            simp; omega
        · intro x hx r hr
          rcases List.mem_or_eq_of_mem_set hx with hx | rfl
          · exact List.mem_append_left _ (hi.mine x hx r hr)
          · simp only at hr ⊢
            rcases List.mem_append.mp hr with hr | hr
            · exact List.mem_append_left _ (hi.mine rd hmem r hr)
            · simp at hr; subst hr; exact List.mem_append_right _ (by simp)
      · cases h
    · cases h
  case commit m o ack =>
    split at h
    · cases h
      cases ack <;> exact ⟨hi.shape, hi.mine⟩
    · cases h

theorem ginv_reachable (s : G) (h : GReachable false s) : GInv s := by
  induction h with
  | init => exact ginv_init
  | step e _ hs ih => exact ginv_step _ _ e ih hs

theorem nogap_reachable (sl : Bool) (s : G) (h : GReachable sl s) : NoGap s := by
  induction h with
  | init => exact nogap_init
  | step e _ hs ih => exact nogap_step sl _ _ e ih hs

end KV.GroupHist
