/-
Lemmas/WriterQueued.lean — what a call that left batchMessages has handed over (C01/C08, cancelled calls):
`InvQueued`: once a call is past batchMessages (waiting for its batches, or returned with anything but a rejection —
`nil`, a WriteErrors, the async `nil`, or **ctx.Err()**), every one of its messages has been put into a batch.
`InvLive`: no batch is ever dropped — a batch that is not completed sits in the pipeline of its partition writer
(attached, detached-but-not-queued, queued, or with the sender).
-/
import KafkaVerif.Lemmas.WriterProgress

namespace KV.Writer

def CallQueued (C : Call) : Prop :=
  (C.phase = .batched ∨ (C.phase = .returned ∧ ∃ r, C.result = some r ∧ r.isReject = false)) → C.placedAll = true

def InvQueued (s : State) : Prop := ∀ c C, s.calls c = some C → CallQueued C

theorem invQueued_init : InvQueued State.init := by
  intro c C h; simp [State.init] at h

theorem InvQueued.of_calls_id {s s' : State} (h : InvQueued s) (e : s'.calls = s.calls) : InvQueued s' :=
  fun c C hC => h c C (e ▸ hC)

theorem InvQueued.of_calls_upd {s s' : State} (h : InvQueued s) {c : Nat} {C' : Call}
    (e : s'.calls = upd s.calls c (some C')) (hC' : CallQueued C') : InvQueued s' := by
  intro x X hx
  rw [e] at hx
  rcases upd_some_elim hx with ⟨rfl, rfl⟩ | ⟨-, hx⟩
  · exact hC'
  · exact h x X hx

theorem invQueued_step (cfg : Cfg) (s : State) (e : Event) (s' : State) (hI : InvQueued s)
    (hs : step cfg s e = some s') : InvQueued s' := by
  cases e with
  | add pw b c i size =>
    simp only [step, stepAdd] at hs
    repeat' split at hs
    all_goals (first | (cases hs; done) | skip)
    rename_i _ P hPq _ B hB _ C hC hg
    obtain ⟨-, -, -, -, -, -, -, -, hph, -⟩ := hg
    cases hs
    refine hI.of_calls_upd rfl ?_
    intro h
    rcases h with h | ⟨h, -⟩
    · have : C.phase = .batched := h
      rw [hph] at this; cases this
    · have : C.phase = .returned := h
      rw [hph] at this; cases this
  | begin_ c msgs =>
    simp only [step] at hs
    repeat' split at hs
    all_goals (first | (cases hs; done) | skip)
    cases hs
    refine hI.of_calls_upd rfl ?_
    intro h
    simp at h
  | assign c i tp =>
    simp only [step] at hs
    repeat' split at hs
    all_goals (first | (cases hs; done) | skip)
    rename_i _ C hC hg
    cases hs
    refine hI.of_calls_upd rfl ?_
    intro h
    simp at h
  | reject c why i =>
    cases why <;> simp only [step, stepReject] at hs <;> repeat' split at hs
    all_goals (first | (cases hs; done) | skip)
    all_goals (rename_i _ C hC hg; cases hs)
    all_goals (refine hI.of_calls_upd rfl ?_; intro h; simp [Result.isReject] at h)
  | ret c r =>
    cases r <;> simp only [step, stepRet] at hs <;> repeat' split at hs
    all_goals (first | (cases hs; done) | skip)
    all_goals (rename_i _ C hC hg; cases hs)
    all_goals (refine hI.of_calls_upd rfl ?_; intro h)
    all_goals first
      | exact hI c C hC (Or.inl hg.2.1)
      | exact hI c C hC (Or.inl hg.2)
      | (simp [Result.isReject] at h)
  | batch c =>
    simp only [step] at hs
    repeat' split at hs
    all_goals (first | (cases hs; done) | skip)
    rename_i _ C hC hg
    cases hs
    refine hI.of_calls_upd rfl ?_
    intro h
    simp at h
  | batched c =>
    simp only [step] at hs
    repeat' split at hs
    all_goals (first | (cases hs; done) | skip)
    rename_i _ C hC hg
    cases hs
    refine hI.of_calls_upd rfl ?_
    intro _
    exact hg.2.2.1
  | _ =>
    simp only [step, stepDetach, stepProduce] at hs
    repeat' split at hs
    all_goals (first | (cases hs; done) | skip)
    all_goals (cases hs)
    all_goals exact hI.of_calls_id rfl

theorem invQueued (cfg : Cfg) : ∀ s, Reachable cfg s → InvQueued s :=
  invariant_of_step cfg InvQueued invQueued_init (fun s e s' h hs => invQueued_step cfg s e s' h hs)

/-- every index of a fully placed call has a batch -/
theorem placedAll_elim {C : Call} (h : C.placedAll = true) (i : Nat) (hi : i < C.msgs.length) : ∃ b, C.place i = some b := by
  unfold Call.placedAll at h
  rw [List.all_eq_true] at h
  have := h i (List.mem_range.mpr hi)
  cases hp : C.place i with
  | none => rw [hp] at this; cases this
  | some b => exact ⟨b, rfl⟩

/-! ## No batch is dropped: what is not completed is in the pipeline of its partition writer -/

def InvLive (s : State) : Prop :=
  ∀ b B, s.batches b = some B → B.done = none → ∃ P, s.pws B.pw = some P ∧ b ∈ P.pipe

def BatFrame (s s' : State) : Prop := ∀ b B', s'.batches b = some B' → B'.done = none →
  (∃ P', s'.pws B'.pw = some P' ∧ b ∈ P'.pipe) ∨ ∃ B, s.batches b = some B ∧ B.done = none ∧ B'.pw = B.pw

def PwsFrame (s s' : State) : Prop := ∀ pw P, s.pws pw = some P →
  ∃ P', s'.pws pw = some P' ∧ ∀ b ∈ P.pipe, b ∈ P'.pipe ∨ ∃ B' c, s'.batches b = some B' ∧ B'.done = some c

theorem invLive_init : InvLive State.init := by
  intro b B h; simp [State.init] at h

theorem InvLive.of_frame {s s' : State} (h : InvLive s) (hbat : BatFrame s s') (hpws : PwsFrame s s') : InvLive s' := by
  intro b B' hB' hd
  rcases hbat b B' hB' hd with direct | ⟨B, hB, hd0, epw⟩
  · exact direct
  · obtain ⟨P, hP, hmem⟩ := h b B hB hd0
    obtain ⟨P', hP', hsub⟩ := hpws B.pw P hP
    rcases hsub b hmem with hin | ⟨B'', c, hB'', hc⟩
    · exact ⟨P', by rw [epw]; exact hP', hin⟩
    · rw [hB'] at hB''; cases hB''
      rw [hd] at hc; cases hc

theorem vframe_bat_id {s s' : State} (e : s'.batches = s.batches) : BatFrame s s' :=
  fun b B' h hd => Or.inr ⟨B', by rw [← e]; exact h, hd, rfl⟩

theorem vframe_bat_upd {s s' : State} {b : Nat} {B B' : Batch} (hB : s.batches b = some B)
    (e : s'.batches = upd s.batches b (some B')) (h1 : B'.done = B.done) (h2 : B'.pw = B.pw) : BatFrame s s' := by
  intro x X' hx hd
  rw [e] at hx
  rcases upd_some_elim hx with ⟨rfl, rfl⟩ | ⟨-, hx⟩
  · exact Or.inr ⟨B, hB, by rw [← h1]; exact hd, h2⟩
  · exact Or.inr ⟨X', hx, hd, rfl⟩

theorem vframe_pws_id {s s' : State} (e : s'.pws = s.pws) : PwsFrame s s' :=
  fun pw P h => ⟨P, by rw [e]; exact h, fun _ hb => Or.inl hb⟩

theorem vframe_pws_upd {s s' : State} {pw : Nat} {P P' : PW} (hP : s.pws pw = some P)
    (e : s'.pws = upd s.pws pw (some P'))
    (hsub : ∀ b ∈ P.pipe, b ∈ P'.pipe ∨ ∃ B' c, s'.batches b = some B' ∧ B'.done = some c) : PwsFrame s s' := by
  intro x X hx
  by_cases hxp : x = pw
  · subst hxp; rw [hP] at hx; cases hx
    exact ⟨P', by rw [e]; simp, hsub⟩
  · exact ⟨X, by rw [e, upd_other _ _ _ _ hxp]; exact hx, fun _ hb => Or.inl hb⟩

theorem mem_pipe_iff {P : PW} {y : Nat} :
    y ∈ P.pipe ↔ P.sender.batch? = some y ∨ y ∈ P.queue ∨ P.pending = some y ∨ P.curr = some y := by
  simp [PW.pipe, or_assoc]

/-- a partition writer changes only in its sender, which keeps its batch -/
theorem vframe_sender {s s' : State} {pw : Nat} {P : PW} {σ : Sender} (hP : s.pws pw = some P)
    (e : s'.pws = upd s.pws pw (some { P with sender := σ })) (hb : ∀ y, P.sender.batch? = some y → σ.batch? = some y) :
    PwsFrame s s' := by
  refine vframe_pws_upd hP e ?_
  intro y hy
  rw [mem_pipe_iff] at hy
  refine Or.inl (mem_pipe_iff.mpr ?_)
  rcases hy with h | h | h | h
  · exact Or.inl (hb y h)
  · exact Or.inr (Or.inl h)
  · exact Or.inr (Or.inr (Or.inl h))
  · exact Or.inr (Or.inr (Or.inr h))

theorem invLive_step (cfg : Cfg) (s : State) (e : Event) (s' : State) (hQ : InvClosedQ s) (hI : InvLive s)
    (hs : step cfg s e = some s') : InvLive s' := by
  cases e with
  | newPW pw q tp =>
    simp only [step] at hs
    repeat' split at hs
    all_goals (first | (cases hs; done) | skip)
    rename_i hg
    cases hs
    refine hI.of_frame (vframe_bat_id rfl) ?_
    intro x X hx
    have hne : x ≠ pw := by
      rintro rfl
      have := hg.2.2.2.1
      rw [hx] at this; cases this
    exact ⟨X, by show upd s.pws pw _ x = some X; rw [upd_other _ _ _ _ hne]; exact hx, fun _ hb => Or.inl hb⟩
  | newBatch pw b =>
    simp only [step] at hs
    repeat' split at hs
    all_goals (first | (cases hs; done) | skip)
    rename_i _ P hP hg
    cases hs
    refine hI.of_frame ?_ (vframe_pws_upd hP rfl ?_)
    · intro x X' hx hd
      rcases upd_some_elim hx with ⟨rfl, rfl⟩ | ⟨-, hx⟩
      · refine Or.inl ⟨{ P with curr := some x, nbatches := P.nbatches + 1 }, by simp [Batch.new], ?_⟩
        exact mem_pipe_iff.mpr (Or.inr (Or.inr (Or.inr rfl)))
      · exact Or.inr ⟨X', hx, hd, rfl⟩
    · intro y hy
      rw [mem_pipe_iff] at hy
      refine Or.inl (mem_pipe_iff.mpr ?_)
      rcases hy with h | h | h | h
      · exact Or.inl h
      · exact Or.inr (Or.inl h)
      · exact Or.inr (Or.inr (Or.inl h))
      · rw [hg.2.1] at h; cases h
  | add pw b c i size =>
    simp only [step, stepAdd] at hs
    repeat' split at hs
    all_goals (first | (cases hs; done) | skip)
    rename_i _ P hPq _ B hB _ C hC hg
    cases hs
    exact hI.of_frame (vframe_bat_upd hB rfl rfl rfl) (vframe_pws_id rfl)
  | detach pw b why size =>
    simp only [step, stepDetach] at hs
    repeat' split at hs
    all_goals (first | (cases hs; done) | skip)
    rename_i _ P hP _ B hB hg
    cases hs
    refine hI.of_frame (vframe_bat_upd (B' := { B with detached := some why }) hB rfl rfl rfl) (vframe_pws_upd hP rfl ?_)
    intro y hy
    rw [mem_pipe_iff] at hy
    refine Or.inl (mem_pipe_iff.mpr ?_)
    rcases hy with h | h | h | h
    · exact Or.inl h
    · exact Or.inr (Or.inl h)
    · rw [hg.2.1] at h; cases h
    · rw [hg.1] at h; exact Or.inr (Or.inr (Or.inl h))
  | qput q b acc =>
    simp only [step] at hs
    repeat' split at hs
    all_goals (first | (cases hs; done) | skip)
    rename_i _ pw hq _ P hP hg
    cases hs
    have hacc : acc = true := by
      cases hqc : P.qclosed with
      | false => rw [hg.2.2, hqc]; rfl
      | true =>
        have := (hQ.closedQ pw P hP hqc).2.2
        rw [hg.1] at this; cases this
    subst hacc
    refine hI.of_frame (vframe_bat_id rfl) (vframe_pws_upd hP rfl ?_)
    intro y hy
    rw [mem_pipe_iff] at hy
    refine Or.inl (mem_pipe_iff.mpr ?_)
    rcases hy with h | h | h | h
    · exact Or.inl h
    · exact Or.inr (Or.inl (by simp [enq, h]))
    · rw [hg.1] at h; cases h
      exact Or.inr (Or.inl (by simp [enq]))
    · exact Or.inr (Or.inr (Or.inr h))
  | qget q ob =>
    simp only [step] at hs
    repeat' split at hs
    all_goals (first | (cases hs; done) | skip)
    · rename_i _ pw hq _ P hP _ b hg
      cases hs
      refine hI.of_frame (vframe_bat_id rfl) (vframe_pws_upd hP rfl ?_)
      intro y hy
      rw [mem_pipe_iff] at hy
      refine Or.inl (mem_pipe_iff.mpr ?_)
      rcases hy with h | h | h | h
      · rw [hg.1] at h; cases h
      · cases hqu : P.queue with
        | nil => rw [hqu] at h; cases h
        | cons a t =>
          have hh := hg.2
          rw [hqu] at hh h
          simp only [List.head?_cons, Option.some.injEq] at hh
          subst hh
          rcases List.mem_cons.mp h with rfl | ht
          · exact Or.inl rfl
          · exact Or.inr (Or.inl ht)
      · exact Or.inr (Or.inr (Or.inl h))
      · exact Or.inr (Or.inr (Or.inr h))
    · rename_i _ pw hq _ P hP _ hg
      cases hs
      refine hI.of_frame (vframe_bat_id rfl) (vframe_sender hP rfl ?_)
      intro y h
      rw [hg.1] at h; cases h
  | qclose q =>
    simp only [step] at hs
    repeat' split at hs
    all_goals (first | (cases hs; done) | skip)
    rename_i _ pw hq _ P hP hg
    cases hs
    refine hI.of_frame (vframe_bat_id rfl) (vframe_pws_upd hP rfl ?_)
    intro y hy
    exact Or.inl hy
  | timerFire pw b att =>
    simp only [step] at hs
    repeat' split at hs
    all_goals (first | (cases hs; done) | skip)
    rename_i _ P hP _ B hB hg
    cases hs
    exact hI.of_frame (vframe_bat_upd (B' := { B with timerFired := true }) hB rfl rfl rfl) (vframe_pws_id rfl)
  | attempt pw b k =>
    simp only [step] at hs
    repeat' split at hs
    all_goals (first | (cases hs; done) | skip)
    rename_i _ P hP hg
    cases hs
    refine hI.of_frame (vframe_bat_id rfl) (vframe_sender hP rfl ?_)
    intro y h
    rw [hg.1] at h; exact h
  | produce pw tp msgs out =>
    simp only [step, stepProduce] at hs
    repeat' split at hs
    all_goals (first | (cases hs; done) | skip)
    rename_i _ P hP _ b k hsend _ B hB hg
    cases hs
    refine hI.of_frame (vframe_bat_upd (B' := B.noteProduce out) hB rfl rfl rfl) (vframe_sender hP rfl ?_)
    intro y h
    rw [hsend] at h; exact h
  | attemptDone pw b k code =>
    simp only [step] at hs
    repeat' split at hs
    all_goals (first | (cases hs; done) | skip)
    rename_i _ P hP _ b' k' br hsend hg
    cases hs
    have hbq : (afterAttempt cfg b k code).batch? = some b := by
      unfold afterAttempt
      repeat' split
      all_goals rfl
    refine hI.of_frame (vframe_bat_id rfl) (vframe_sender hP rfl ?_)
    intro y h
    rw [hsend] at h
    rw [hbq, ← hg.1]; exact h
  | completion pw b code =>
    simp only [step] at hs
    repeat' split at hs
    all_goals (first | (cases hs; done) | skip)
    rename_i _ P hP _ B hB hg
    cases hs
    refine hI.of_frame (vframe_bat_upd (B' := { B with ncompl := B.ncompl + 1, cbCode := some code }) hB rfl rfl rfl)
      (vframe_sender hP rfl ?_)
    intro y h
    rw [hg.2] at h; exact h
  | complete pw b code =>
    simp only [step] at hs
    repeat' split at hs
    all_goals (first | (cases hs; done) | skip)
    rename_i _ P hP _ B hB hg
    cases hs
    refine hI.of_frame ?_ (vframe_pws_upd hP rfl ?_)
    · intro x X' hx hd
      rcases upd_some_elim hx with ⟨rfl, rfl⟩ | ⟨-, hx⟩
      · cases hd
      · exact Or.inr ⟨X', hx, hd, rfl⟩
    · intro y hy
      rw [mem_pipe_iff] at hy
      rcases hy with h | h | h | h
      · rw [hg] at h
        have : b = y := by simpa [Sender.batch?] using h
        subst this
        exact Or.inr ⟨{ B with done := some code }, code, by simp, rfl⟩
      · exact Or.inl (mem_pipe_iff.mpr (Or.inr (Or.inl h)))
      · exact Or.inl (mem_pipe_iff.mpr (Or.inr (Or.inr (Or.inl h))))
      · exact Or.inl (mem_pipe_iff.mpr (Or.inr (Or.inr (Or.inr h))))
  | reject c why i =>
    cases why <;> simp only [step, stepReject] at hs <;> repeat' split at hs
    all_goals (first | (cases hs; done) | skip)
    all_goals (cases hs)
    all_goals exact hI.of_frame (vframe_bat_id rfl) (vframe_pws_id rfl)
  | ret c r =>
    cases r <;> simp only [step, stepRet] at hs <;> repeat' split at hs
    all_goals (first | (cases hs; done) | skip)
    all_goals (cases hs)
    all_goals exact hI.of_frame (vframe_bat_id rfl) (vframe_pws_id rfl)
  | _ =>
    simp only [step] at hs
    repeat' split at hs
    all_goals (first | (cases hs; done) | skip)
    all_goals (cases hs)
    all_goals exact hI.of_frame (vframe_bat_id rfl) (vframe_pws_id rfl)

theorem invLive (cfg : Cfg) (s : State) (hr : Reachable cfg s) : InvLive s :=
  (invariant_of_step cfg (fun s => InvClosedQ s ∧ InvLive s) ⟨invClosedQ_init, invLive_init⟩
    (fun s e s' h hs => ⟨invClosedQ_step cfg s e s' h.1 hs, invLive_step cfg s e s' h.1 h.2 hs⟩) s hr).2

end KV.Writer
