/- Lemmas/Source.lean — `readFull` and `readToEOF` return the same bytes for EVERY script of the source. -/
import KafkaVerif.Model.Source

namespace KV.Model.Source
open KV

theorem take_add' (l : Bytes) (a b : Nat) : l.take (a + b) = l.take a ++ (l.drop a).take b := by
  rw [List.take_add]

theorem readFull_spec (fuel : Nat) (s : Src) (want : Nat) (acc : Bytes) (hf : fuelFor s ≤ fuel) :
    ∃ sc', readFull fuel s want acc =
      (acc ++ s.data.take (want - acc.length), fullStatus want acc (s.data.take (want - acc.length)),
        ⟨s.data.drop (want - acc.length), sc'⟩) := by
  induction fuel generalizing s acc with
  | zero => simp [fuelFor] at hf
  | succ fuel ih =>
    obtain ⟨data, script⟩ := s
    simp only [readFull]
    by_cases hw : want ≤ acc.length
    · have h0 : want - acc.length = 0 := by omega
      exact ⟨script, by simp [hw, h0, fullStatus]⟩
    · simp only [hw, if_false]
      have hwp : 0 < want - acc.length := by omega
      by_cases hd : data = []
      · subst hd
        refine ⟨script, ?_⟩
        simp only [Src.read, if_true, List.append_nil, List.take_nil, List.drop_nil, fullStatus, List.length_nil,
          Nat.add_zero, hw, if_false]
        split <;> rfl
      · have hdl : 0 < data.length := List.length_pos_iff.mpr hd
        cases script with
        | nil =>
          simp only [Src.read, hd, if_false]
          have hf' : fuelFor ⟨data.drop (want - acc.length), []⟩ ≤ fuel := by
            simp only [fuelFor, List.length_nil, List.length_drop] at hf ⊢; omega
          obtain ⟨sc', hih⟩ := ih ⟨data.drop (want - acc.length), []⟩ (acc ++ data.take (want - acc.length)) hf'
          simp only [Bool.false_eq_true, if_false]
          rw [hih]
          refine ⟨sc', ?_⟩
          have hl : (acc ++ data.take (want - acc.length)).length = acc.length + min (want - acc.length) data.length := by
            simp
          by_cases hc : want - acc.length ≤ data.length
          · have h0 : want - (acc ++ data.take (want - acc.length)).length = 0 := by rw [hl]; omega
            simp only [h0, List.take_zero, List.append_nil, List.drop_zero]
            simp [fullStatus]
          · have hdn : data.drop (want - acc.length) = [] := List.drop_of_length_le (by omega)
            simp only [hdn, List.take_nil, List.append_nil, List.drop_nil]
            simp [fullStatus]
        | cons a rest =>
          simp only [Src.read, hd, if_false]
          generalize hk : min a.n (want - acc.length) = k
          have hkw : k ≤ want - acc.length := by omega
          by_cases he : (a.eof && decide (data.length ≤ k)) = true
          · simp only [he, if_true]
            have hle : data.length ≤ k := by simpa using (Bool.and_eq_true_iff.mp he).2
            have ht : data.take k = data := List.take_of_length_le hle
            have hdk : data.drop k = [] := List.drop_of_length_le hle
            have ht2 : data.take (want - acc.length) = data := List.take_of_length_le (by omega)
            have hdn : data.drop (want - acc.length) = [] := List.drop_of_length_le (by omega)
            refine ⟨rest, ?_⟩
            simp only [ht, hdk, ht2, hdn, fullStatus, List.length_append]
            split
            · rfl
            · split <;> rfl
          · simp only [he, Bool.false_eq_true, if_false]
            have hf' : fuelFor ⟨data.drop k, rest⟩ ≤ fuel := by
              simp only [fuelFor, List.length_cons, List.length_drop] at hf ⊢; omega
            obtain ⟨sc', hih⟩ := ih ⟨data.drop k, rest⟩ (acc ++ data.take k) hf'
            rw [hih]
            refine ⟨sc', ?_⟩
            have hl : (acc ++ data.take k).length = acc.length + min k data.length := by simp
            by_cases hc : k ≤ data.length
            · have hmin : min k data.length = k := Nat.min_eq_left hc
              have hw2 : want - (acc ++ data.take k).length = (want - acc.length) - k := by rw [hl, hmin]; omega
              have hsplit : data.take (want - acc.length) = data.take k ++ (data.drop k).take ((want - acc.length) - k) := by
                have : want - acc.length = k + ((want - acc.length) - k) := by omega
                rw [this, take_add']; congr 2; omega
              have hdrop : (data.drop k).drop ((want - acc.length) - k) = data.drop (want - acc.length) := by
                rw [List.drop_drop]; congr 1; omega
              have htl : (data.take k).length = k := by rw [List.length_take]; exact hmin
              simp only [List.length_append, htl, ← Nat.sub_sub, hsplit, hdrop, List.append_assoc, fullStatus, Nat.add_assoc]
            · have hdk : data.drop k = [] := List.drop_of_length_le (by omega)
              have htk : data.take k = data := List.take_of_length_le (by omega)
              have ht2 : data.take (want - acc.length) = data := List.take_of_length_le (by omega)
              have hdn : data.drop (want - acc.length) = [] := List.drop_of_length_le (by omega)
              simp only [hdk, htk, ht2, hdn, List.take_nil, List.drop_nil, List.append_nil]
              simp [fullStatus]

theorem readToEOF_spec (fuel : Nat) (s : Src) (cap : Nat) (input : Bytes) (hf : fuelFor s ≤ fuel)
    (hc : 0 < cap) (hi : input.length ≤ cap) :
    (readToEOF fuel s cap input).1 = (if input ++ s.data = [] then none else some (input ++ s.data)) ∧
    (readToEOF fuel s cap input).2.data = [] := by
  induction fuel generalizing s cap input with
  | zero => simp [fuelFor] at hf
  | succ fuel ih =>
    obtain ⟨data, script⟩ := s
    simp only [readToEOF]
    generalize hcap : (if input.length = cap then 2 * cap else cap) = cap'
    have hc' : 0 < cap' := by rw [← hcap]; split <;> omega
    have hi' : input.length < cap' := by rw [← hcap]; split <;> omega
    by_cases hd : data = []
    · subst hd
      simp only [Src.read, if_true, List.append_nil]
      by_cases hin : input = []
      · simp [hin]
      · have : 0 < input.length := List.length_pos_iff.mpr hin
        simp [hin, this]
    · have hdl : 0 < data.length := List.length_pos_iff.mpr hd
      have hne : input ++ data ≠ [] := by simp [hd]
      cases script with
      | nil =>
        simp only [Src.read, hd, if_false, Bool.false_eq_true]
        have hf' : fuelFor ⟨data.drop (cap' - input.length), []⟩ ≤ fuel := by
          simp only [fuelFor, List.length_nil, List.length_drop] at hf ⊢; omega
        have := ih ⟨data.drop (cap' - input.length), []⟩ cap' (input ++ data.take (cap' - input.length)) hf' hc'
          (by simp; omega)
        simp only [List.append_assoc, List.take_append_drop] at this
        simpa [hne] using this
      | cons a rest =>
        simp only [Src.read, hd, if_false]
        generalize hk : min a.n (cap' - input.length) = k
        by_cases he : (a.eof && decide (data.length ≤ k)) = true
        · simp only [he, if_true]
          have hle : data.length ≤ k := by simpa using (Bool.and_eq_true_iff.mp he).2
          have ht : data.take k = data := List.take_of_length_le hle
          have hdn : data.drop k = [] := List.drop_of_length_le hle
          have hpos : 0 < input.length + data.length := by omega
          simp [ht, hdn, hpos, hne]
        · simp only [he, Bool.false_eq_true, if_false]
          have hf' : fuelFor ⟨data.drop k, rest⟩ ≤ fuel := by
            simp only [fuelFor, List.length_cons, List.length_drop] at hf ⊢; omega
          have := ih ⟨data.drop k, rest⟩ cap' (input ++ data.take k) hf' hc' (by simp; omega)
          simp only [List.append_assoc, List.take_append_drop] at this
          simpa [hne] using this

end KV.Model.Source
