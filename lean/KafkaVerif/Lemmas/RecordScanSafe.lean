/-
Lemmas/RecordScanSafe.lean — with every guard of `RCfg` present, the record-set reader of Model/RecordScan.lean
returns a value or an error on EVERY input: no panic, no allocation beyond the bytes that hold the data.
-/
import KafkaVerif.Model.RecordScan

namespace KV.RecordScan
open KV KV.Wire

def RSafe {α : Type} : RRes α → Prop
  | .ok _ _ => True
  | .error => True
  | .panic => False
  | .balloon => False

theorem rbind_safe {α β : Type} (r : RRes α) (f : α → RS → RRes β) (hr : RSafe r) (hf : ∀ a s, RSafe (f a s)) :
    RSafe (r.bind f) := by
  cases r <;> simp_all [RRes.bind, RSafe]

theorem rread_safe (c : RCfg) (h : c.readGuard = true) (k : Nat) (s : RS) : RSafe (rread c k s) := by
  unfold rread
  try simp only []
  repeat' split
  all_goals simp_all [RSafe]

theorem rint_safe (c : RCfg) (h : c.readGuard = true) (k : Nat) (s : RS) : RSafe (rint c k s) :=
  rbind_safe _ _ (rread_safe c h k s) fun _ _ => by simp [RSafe]

theorem rvarint_safe (c : RCfg) (h : c.readGuard = true) (s : RS) : RSafe (rvarint c s) := by
  unfold rvarint
  try simp only []
  repeat' split
  all_goals simp_all [RSafe]

theorem rdiscard_safe (n : Int) (s : RS) : RSafe (rdiscard n s) := by
  unfold rdiscard
  try simp only []
  repeat' split
  all_goals simp_all [RSafe]

theorem rreadLen_safe (c : RCfg) (h : c.readGuard = true) (hb : c.readBounded = true) (n : Int) (s : RS) :
    RSafe (rreadLen c n s) := by
  unfold rreadLen
  split
  · simp [RSafe]
  · split
    · simp [hb, RSafe]
    · split
      · simp [hb, RSafe]
      · exact rbind_safe _ _ (rread_safe c h _ s) fun _ _ => by simp [RSafe]

theorem headerV2_safe (c : RCfg) (h : c.readGuard = true) (hb : c.readBounded = true) (s : RS) : RSafe (headerV2 c s) := by
  unfold headerV2
  refine rbind_safe _ _ (rvarint_safe c h s) fun kl s => rbind_safe _ _ ?_ fun _ s =>
    rbind_safe _ _ (rvarint_safe c h s) fun vl s => ?_
  · split
    · simp [RSafe]
    · exact rreadLen_safe c h hb _ s
  · split
    · simp [RSafe]
    · exact rreadLen_safe c h hb _ s

theorem headersV2_safe (c : RCfg) (h : c.readGuard = true) (hb : c.readBounded = true) :
    ∀ (n : Nat) (s : RS), RSafe (headersV2 c n s)
  | 0, s => by simp [headersV2, RSafe]
  | n + 1, s => by
    unfold headersV2
    exact rbind_safe _ _ (headerV2_safe c h hb s) fun _ s => headersV2_safe c h hb n s

theorem ite_ok_safe {p : Prop} [Decidable p] (x : RRes Unit) (s : RS) (hx : RSafe x) :
    RSafe (if p then x else RRes.ok () s) := by
  split
  · exact hx
  · simp [RSafe]

theorem recordV2_safe (c : RCfg) (h : c.readGuard = true) (hb : c.readBounded = true) (hc : c.countsBounded = true)
    (s : RS) : RSafe (recordV2 c s) := by
  unfold recordV2
  refine rbind_safe _ _ (rvarint_safe c h s) fun _ s => rbind_safe _ _ (rread_safe c h 1 s) fun _ s =>
    rbind_safe _ _ (rvarint_safe c h s) fun _ s => rbind_safe _ _ (rvarint_safe c h s) fun _ s =>
    rbind_safe _ _ (rvarint_safe c h s) fun kl s => rbind_safe _ _ (ite_ok_safe _ s (rdiscard_safe kl s)) fun _ s =>
    rbind_safe _ _ (rvarint_safe c h s) fun vl s => rbind_safe _ _ (ite_ok_safe _ s (rdiscard_safe vl s)) fun _ s =>
    rbind_safe _ _ (rvarint_safe c h s) fun nh s => ?_
  split
  · split
    · simp [RSafe]
    · split
      · simp [hc, RSafe]
      · exact headersV2_safe c h hb _ s
  · simp [RSafe]

theorem recordsV2_safe (c : RCfg) (h : c.readGuard = true) (hb : c.readBounded = true) (hc : c.countsBounded = true) :
    ∀ (n done : Nat) (s : RS), RSafe (recordsV2 c n done s)
  | 0, _, s => by simp [recordsV2, RSafe]
  | n + 1, done, s => by
    unfold recordsV2
    have := recordV2_safe c h hb hc s
    split
    · exact recordsV2_safe c h hb hc n _ _
    · simp [RSafe]
    · rename_i heq; rw [heq] at this; exact this
    · rename_i heq; rw [heq] at this; exact this

theorem readV2_safe (c : RCfg) (h : c.readGuard = true) (hb : c.readBounded = true) (hc : c.countsBounded = true)
    (crcC : Bytes → Nat) (dcmp : Int → Bytes → Option Bytes) (s : RS) : RSafe (readV2 c crcC dcmp s) := by
  unfold readV2
  refine rbind_safe _ _ (rread_safe c h 8 s) fun _ s => rbind_safe _ _ (rint_safe c h 4 s) fun bl s => ?_
  split
  · simp [RSafe]
  · split
    · exact rbind_safe _ _ (rdiscard_safe _ s) fun _ _ => by simp [RSafe]
    · refine rbind_safe _ _ (rread_safe c h 9 _) fun h1 s1 => rbind_safe _ _ (rread_safe c h 40 s1) fun h2 s1 => ?_
      try simp only []
      split
      · simp [RSafe]
      · refine rbind_safe _ _ (rread_safe c h _ s1) fun payload s1 => ?_
        try simp only []
        split
        · simp [RSafe]
        · split
          · simp [RSafe]
          · split
            · simp [hc, RSafe]
            · split
              · simp [hc, RSafe]
              · have := recordsV2_safe c h hb hc (toS 32 (fromBE (List.drop 36 h2))).toNat 0
                  ⟨by assumption, [((by assumption : Bytes).length : Int)]⟩
                split
                · split <;> simp [RSafe]
                · simp [RSafe]
                · rename_i heq; rw [heq] at this; exact this
                · rename_i heq; rw [heq] at this; exact this

theorem writeTo_safe (c : RCfg) (h : c.readGuard = true) (n : Int) (s : RS) : RSafe (writeTo c n s) := by
  unfold writeTo
  try simp only []
  repeat' split
  all_goals simp_all [RSafe]

theorem readMessage_safe (c : RCfg) (h : c.readGuard = true) (crcI : Bytes → Nat) (s : RS) :
    RSafe (readMessage c crcI s) := by
  unfold readMessage
  try simp only []
  refine rbind_safe _ _ (rread_safe c h 8 _) fun _ s0 => rbind_safe _ _ (rint_safe c h 4 s0) fun size s0 =>
    rbind_safe _ _ (rread_safe c h 4 _) fun crcb s1 => rbind_safe _ _ (rread_safe c h 2 s1) fun ma s1 =>
    rbind_safe _ _ ?_ fun _ s1 => rbind_safe _ _ (rint_safe c h 4 s1) fun kl s1 => rbind_safe _ _ ?_ fun _ s1 =>
    rbind_safe _ _ (rint_safe c h 4 s1) fun vl s1 => rbind_safe _ _ ?_ fun _ s1 => ?_
  · split
    · exact rbind_safe _ _ (rread_safe c h 8 s1) fun _ _ => by simp [RSafe]
    · simp [RSafe]
  · split
    · exact writeTo_safe c h _ s1
    · simp [RSafe]
  · split
    · exact writeTo_safe c h _ s1
    · simp [RSafe]
  · split <;> simp [RSafe]

theorem innerV1_safe (c : RCfg) (h : c.readGuard = true) (crcI : Bytes → Nat) :
    ∀ (fuel : Nat) (s : RS), RSafe (innerV1 c crcI fuel s)
  | 0, s => by simp [innerV1, RSafe]
  | fuel + 1, s => by
    unfold innerV1
    split
    · simp [RSafe]
    · have := readMessage_safe c h crcI s
      split
      · split
        · exact innerV1_safe c h crcI fuel _
        · simp [RSafe]
      · simp [RSafe]
      · rename_i heq; rw [heq] at this; exact this
      · rename_i heq; rw [heq] at this; exact this

theorem readV1_safe (c : RCfg) (h : c.readGuard = true) (crcI : Bytes → Nat) (dcmp : Int → Bytes → Option Bytes)
    (s : RS) : RSafe (readV1 c crcI dcmp s) := by
  unfold readV1
  refine rbind_safe _ _ (readMessage_safe c h crcI s) fun av s => ?_
  obtain ⟨attrs, value⟩ := av
  try simp only []
  split
  · simp [RSafe]
  · split
    · simp [RSafe]
    · rename_i inner _
      have := innerV1_safe c h crcI (inner.length + 1) ⟨inner, [2147483647]⟩
      split
      · simp [RSafe]
      · simp [RSafe]
      · rename_i heq; rw [heq] at this; exact this
      · rename_i heq; rw [heq] at this; exact this

theorem setLoop_safe (c : RCfg) (h : c.readGuard = true) (hb : c.readBounded = true) (hc : c.countsBounded = true)
    (hp : c.peekChecked = true) (crcI crcC : Bytes → Nat) (dcmp : Int → Bytes → Option Bytes) :
    ∀ (fuel nrec : Nat) (s : RS), RSafe (setLoop c crcI crcC dcmp fuel nrec s)
  | 0, nrec, s => by simp [setLoop, RSafe]
  | fuel + 1, nrec, s => by
    unfold setLoop
    split
    · simp [RSafe]
    · split
      · simp [RSafe]
      · split
        · split <;> simp [RSafe]
        · split
          · simp [hp, RSafe]
          · simp only []
            have h2 := readV2_safe c h hb hc crcC dcmp s
            have h1 := readV1_safe c h crcI dcmp s
            split
            · split
              · exact setLoop_safe c h hb hc hp crcI crcC dcmp fuel _ _
              · simp [RSafe]
            · simp [RSafe]
            · rename_i heq
              split at heq
              · rw [heq] at h2; exact h2
              · split at heq
                · rw [heq] at h1; exact h1
                · simp at heq
            · rename_i heq
              split at heq
              · rw [heq] at h2; exact h2
              · split at heq
                · rw [heq] at h1; exact h1
                · simp at heq

/-- **the record-set reader is safe on every input** when all guards are in place -/
theorem readSet_safe (c : RCfg) (hg : c.allGuards = true) (crcI crcC : Bytes → Nat) (dcmp : Int → Bytes → Option Bytes)
    (inp : Bytes) (frameRemain : Int) : RSafe (readSet c crcI crcC dcmp inp frameRemain) := by
  simp only [RCfg.allGuards, Bool.and_eq_true] at hg
  obtain ⟨⟨⟨⟨⟨⟨_, h⟩, hp⟩, hc⟩, _⟩, hb⟩, _⟩ := hg
  unfold readSet
  try simp only []
  refine rbind_safe _ _ (rint_safe c h 4 _) fun size s => ?_
  split
  · simp [RSafe]
  · split
    · simp [RSafe]
    · split
      · simp [RSafe]
      · refine rbind_safe _ _ (setLoop_safe c h hb hc hp crcI crcC dcmp _ 0 _) fun np s2 => ?_
        obtain ⟨nrec, pending⟩ := np
        try simp only []
        split
        · simp [RSafe]
        · exact rbind_safe _ _ (rdiscard_safe _ s2) fun _ _ => by split <;> simp [RSafe]

end KV.RecordScan
