/- Lemmas/Murmur2.lean — the Go index-loop murmur2 equals the block-recursive MurmurHash2. -/
import KafkaVerif.Model.Balancer
import KafkaVerif.Spec.Partitioners
namespace KV.Balancer
open KV

def toSpecConsts (c : MConsts) : Spec.MMConsts := { seed := c.seed, m := c.m, r := c.r }

theorem and_ff (b : UInt8) : (b.toUInt32 &&& (0xff : UInt32)) = b.toUInt32 := by
  apply UInt32.toNat_inj.mp
  simp only [UInt32.toNat_and, UInt8.toNat_toUInt32]
  have h : b.toNat < 256 := b.toNat_lt
  have : (0xff : UInt32).toNat = 2^8 - 1 := by decide
  rw [this, Nat.and_two_pow_sub_one_eq_mod]
  omega

theorem mixBlock_eq (c : MConsts) (h : UInt32) (b0 b1 b2 b3 : UInt8) :
    mixBlock c h b0 b1 b2 b3 = Spec.mmBlock (toSpecConsts c) h b0 b1 b2 b3 := by
  simp only [mixBlock, Spec.mmBlock, and_ff, toSpecConsts]

theorem drop_cons4 (data : Bytes) (k : Nat) (h : k + 4 ≤ data.length) :
    data.drop k = data.getD k 0 :: data.getD (k+1) 0 :: data.getD (k+2) 0 :: data.getD (k+3) 0 :: data.drop (k+4) := by
  have h0 : k < data.length := by omega
  have h1 : k+1 < data.length := by omega
  have h2 : k+2 < data.length := by omega
  have h3 : k+3 < data.length := by omega
  rw [List.drop_eq_getElem_cons h0, List.drop_eq_getElem_cons h1,
      List.drop_eq_getElem_cons h2, List.drop_eq_getElem_cons h3]
  simp [List.getD_eq_getElem?_getD, h0, h1, h2, h3]

theorem loop_eq (c : MConsts) (data : Bytes) : ∀ (n i : Nat) (h : UInt32), 4 * (i + n) ≤ data.length →
    Spec.mmBody (toSpecConsts c) (data.drop (4 * i)) h
      = Spec.mmBody (toSpecConsts c) (data.drop (4 * (i + n))) (goLoop c data h i n) := by
  intro n
  induction n with
  | zero => intro i h _; simp [goLoop]
  | succ n ih =>
    intro i h hl
    rw [drop_cons4 data (4*i) (by omega)]
    simp only [Spec.mmBody, goLoop]
    rw [← mixBlock_eq]
    have := ih (i+1) (mixBlock c h (data.getD (4 * i) 0) (data.getD (4 * i + 1) 0) (data.getD (4 * i + 2) 0) (data.getD (4 * i + 3) 0)) (by omega)
    have e1 : 4 * (i + 1) = 4 * i + 4 := by omega
    have e2 : i + 1 + n = i + (n + 1) := by omega
    rw [e1, e2] at this
    exact this

theorem getD_of_drop (data : Bytes) (k j : Nat) (l : Bytes) (hd : data.drop k = l) (hj : j < l.length) :
    data.getD (k + j) 0 = l.getD j 0 := by
  subst hd
  simp [List.getD_eq_getElem?_getD]

theorem tail_eq (c : MConsts) (data : Bytes) (h : UInt32) (q : Nat) (hq : q = data.length / 4) :
    Spec.mmBody (toSpecConsts c) (data.drop (4 * q)) h = goTail c data h (4 * q) (data.length % 4) := by
  have hlen : (data.drop (4*q)).length = data.length % 4 := by simp; omega
  match hd : data.drop (4*q), hlen with
  | [], hl => simp at hl; simp [Spec.mmBody, goTail, ← hl]
  | [a], hl =>
    simp at hl
    have h0 := getD_of_drop data (4*q) 0 _ hd (by simp)
    simp at h0
    simp [Spec.mmBody, goTail, ← hl, and_ff, toSpecConsts, List.getD_eq_getElem?_getD] at *
    rw [h0]
  | [a, b], hl =>
    simp at hl
    have h0 := getD_of_drop data (4*q) 0 _ hd (by simp)
    have h1 := getD_of_drop data (4*q) 1 _ hd (by simp)
    simp at h0 h1
    simp [Spec.mmBody, goTail, ← hl, and_ff, toSpecConsts, List.getD_eq_getElem?_getD] at *
    rw [h0, h1]
  | [a, b, d], hl =>
    simp at hl
    have h0 := getD_of_drop data (4*q) 0 _ hd (by simp)
    have h1 := getD_of_drop data (4*q) 1 _ hd (by simp)
    have h2 := getD_of_drop data (4*q) 2 _ hd (by simp)
    simp at h0 h1 h2
    simp [Spec.mmBody, goTail, ← hl, and_ff, toSpecConsts, List.getD_eq_getElem?_getD] at *
    rw [h0, h1, h2]
  | a :: b :: d :: e :: r, hl => simp at hl; omega

theorem murmur2Go_eq_with (c : MConsts) (data : Bytes) :
    murmur2Go c data = Spec.murmur2With (toSpecConsts c) data := by
  unfold murmur2Go Spec.murmur2With
  have h1 := loop_eq c data (data.length / 4) 0 (c.seed ^^^ UInt32.ofNat data.length) (by omega)
  simp only [Nat.mul_zero, List.drop_zero, Nat.zero_add] at h1
  have h2 := tail_eq c data (goLoop c data (c.seed ^^^ UInt32.ofNat data.length) 0 (data.length / 4)) (data.length / 4) rfl
  simp only [finalMix]
  rw [← h2, ← h1]
  simp [toSpecConsts]

end KV.Balancer
