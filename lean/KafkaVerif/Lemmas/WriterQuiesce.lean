/-
Lemmas/WriterQuiesce.lean — the whole writer drains by itself (C08 "flushed without further input", C01 "the caller
gets its answer"): flushing the partition writers one after the other with their internal events only — timer, queue,
sender, broker answers; no WriteMessages step, no Close step — reaches a state in which every batch is completed, while
no call record changes.
-/
import KafkaVerif.Lemmas.WriterQueued

namespace KV.Writer

/-- events of the writer's own goroutines and of the broker (state-independent classification) -/
def Event.internal : Event → Bool
  | .timerFire _ _ true => true
  | .detach _ _ .timer _ => true
  | .qput _ _ _ => true
  | .qget _ (some _) => true
  | .attempt _ _ _ => true
  | .produce _ _ _ _ => true
  | .attemptDone _ _ _ _ => true
  | .completion _ _ _ => true
  | .complete _ _ _ => true
  | _ => false

theorem internal_of_internalFor {s : State} {pw : Nat} {e : Event} (h : internalFor s pw e = true) : e.internal = true := by
  cases e with
  | timerFire pw' b att => cases att <;> simp [internalFor, Event.internal] at h ⊢
  | detach pw' b why sz => cases why <;> simp [internalFor, Event.internal] at h ⊢
  | qget q ob => cases ob <;> simp [internalFor, Event.internal] at h ⊢
  | qput q b acc => rfl
  | attempt pw' b k => rfl
  | produce pw' tp msgs out => rfl
  | attemptDone pw' b k code => rfl
  | completion pw' b code => rfl
  | complete pw' b code => rfl
  | _ => simp [internalFor] at h

/-- an internal event of partition writer pw touches no call record, not the writer mutex, and no other partition
writer -/
theorem internal_frame (cfg : Cfg) (s s' : State) (pw : Nat) (e : Event) (hint : internalFor s pw e = true)
    (hs : step cfg s e = some s') :
    s'.calls = s.calls ∧ s'.wlock = s.wlock ∧ s'.pwIds = s.pwIds ∧ ∀ x, x ≠ pw → s'.pws x = s.pws x := by
  cases e with
  | timerFire pw' b att =>
    simp only [step] at hs
    repeat' split at hs
    all_goals (first | (cases hs; done) | skip)
    cases hs
    exact ⟨rfl, rfl, rfl, fun _ _ => rfl⟩
  | detach pw' b why sz =>
    cases why with
    | timer =>
      simp only [internalFor, beq_iff_eq] at hint
      subst hint
      simp only [step, stepDetach] at hs
      repeat' split at hs
      all_goals (first | (cases hs; done) | skip)
      cases hs
      exact ⟨rfl, rfl, rfl, fun x hx => upd_other _ _ _ _ hx⟩
    | _ => simp [internalFor] at hint
  | qput q b acc =>
    simp only [internalFor, beq_iff_eq] at hint
    simp only [step, hint] at hs
    repeat' split at hs
    all_goals (first | (cases hs; done) | skip)
    cases hs
    exact ⟨rfl, rfl, rfl, fun x hx => upd_other _ _ _ _ hx⟩
  | qget q ob =>
    cases ob with
    | none => simp [internalFor] at hint
    | some b =>
      simp only [internalFor, beq_iff_eq] at hint
      simp only [step, hint] at hs
      repeat' split at hs
      all_goals (first | (cases hs; done) | skip)
      cases hs
      exact ⟨rfl, rfl, rfl, fun x hx => upd_other _ _ _ _ hx⟩
  | attempt pw' b k =>
    simp only [internalFor, beq_iff_eq] at hint
    subst hint
    simp only [step] at hs
    repeat' split at hs
    all_goals (first | (cases hs; done) | skip)
    cases hs
    exact ⟨rfl, rfl, rfl, fun x hx => upd_other _ _ _ _ hx⟩
  | produce pw' tp msgs out =>
    simp only [internalFor, beq_iff_eq] at hint
    subst hint
    simp only [step, stepProduce] at hs
    repeat' split at hs
    all_goals (first | (cases hs; done) | skip)
    cases hs
    exact ⟨rfl, rfl, rfl, fun x hx => upd_other _ _ _ _ hx⟩
  | attemptDone pw' b k code =>
    simp only [internalFor, beq_iff_eq] at hint
    subst hint
    simp only [step] at hs
    repeat' split at hs
    all_goals (first | (cases hs; done) | skip)
    cases hs
    exact ⟨rfl, rfl, rfl, fun x hx => upd_other _ _ _ _ hx⟩
  | completion pw' b code =>
    simp only [internalFor, beq_iff_eq] at hint
    subst hint
    simp only [step] at hs
    repeat' split at hs
    all_goals (first | (cases hs; done) | skip)
    cases hs
    exact ⟨rfl, rfl, rfl, fun x hx => upd_other _ _ _ _ hx⟩
  | complete pw' b code =>
    simp only [internalFor, beq_iff_eq] at hint
    subst hint
    simp only [step] at hs
    repeat' split at hs
    all_goals (first | (cases hs; done) | skip)
    cases hs
    exact ⟨rfl, rfl, rfl, fun x hx => upd_other _ _ _ _ hx⟩
  | _ => simp [internalFor] at hint

theorem internalRun_frame (cfg : Cfg) (pw : Nat) : ∀ (es : List Event) (s s' : State),
    internalRun cfg pw s es = some s' →
    s'.calls = s.calls ∧ s'.wlock = s.wlock ∧ s'.fresh = s.fresh ∧ s'.pwIds = s.pwIds ∧
      (∀ x, x ≠ pw → s'.pws x = s.pws x) ∧ es.all Event.internal = true := by
  intro es
  induction es with
  | nil =>
    intro s s' h
    simp only [internalRun, Option.some.injEq] at h
    subst h
    exact ⟨rfl, rfl, rfl, rfl, fun _ _ => rfl, rfl⟩
  | cons e es ih =>
    intro s s' h
    simp only [internalRun] at h
    split at h
    · rename_i hint
      cases hs : step cfg s e with
      | none => simp [hs] at h
      | some s1 =>
        simp only [hs] at h
        obtain ⟨a1, a2, a3, a4⟩ := internal_frame cfg s s1 pw e hint hs
        have a5 := internal_keeps_fresh cfg s s1 pw e hint hs
        obtain ⟨b1, b2, b3, b4, b5, b6⟩ := ih s1 s' h
        refine ⟨b1.trans a1, b2.trans a2, b3.trans a5, b4.trans a3, fun x hx => (b5 x hx).trans (a4 x hx), ?_⟩
        simp only [List.all_cons, Bool.and_eq_true]
        exact ⟨internal_of_internalFor hint, b6⟩
    · cases h

theorem reachable_run {cfg : Cfg} {s s' : State} {es : List Event} (hr : Reachable cfg s) (h : run cfg s es = some s') :
    Reachable cfg s' := by
  obtain ⟨es0, h0⟩ := hr
  refine ⟨es0 ++ es, ?_⟩
  rw [run_append, h0]
  exact h

/-- flushing the partition writers of a list one after the other -/
theorem drain_list (cfg : Cfg) (hmax : 1 ≤ cfg.maxAttempts) : ∀ (l : List Nat) (s : State), Reachable cfg s → s.fresh = none →
    ∃ es s', run cfg s es = some s' ∧ es.all Event.internal = true ∧ s'.calls = s.calls ∧ s'.wlock = s.wlock ∧
      s'.fresh = none ∧ s'.pwIds = s.pwIds ∧
      (∀ pw P, s.pws pw = some P → P.pipe = [] → ∃ P', s'.pws pw = some P' ∧ P'.pipe = []) ∧
      (∀ pw ∈ l, ∀ P', s'.pws pw = some P' → P'.pipe = []) := by
  intro l
  induction l with
  | nil =>
    intro s hr hf
    exact ⟨[], s, rfl, rfl, rfl, rfl, hf, rfl, fun pw P hP he => ⟨P, hP, he⟩, by intro pw hpw; cases hpw⟩
  | cons pw l ih =>
    intro s hr hf
    obtain ⟨es1, s1, hrun1, hint1, hc1, hw1, hf1, hi1, hkeep1, hall1⟩ := ih s hr hf
    have hr1 := reachable_run hr hrun1
    cases hP1 : s1.pws pw with
    | none =>
      refine ⟨es1, s1, hrun1, hint1, hc1, hw1, hf1, hi1, hkeep1, ?_⟩
      intro x hx P' hP'
      rcases List.mem_cons.mp hx with rfl | hx
      · rw [hP1] at hP'; cases hP'
      · exact hall1 x hx P' hP'
    | some P1 =>
      obtain ⟨es2, s2, P2, hir, hP2, hpipe2, -, -⟩ :=
        flush_completes cfg hmax _ s1 hr1 hf1 pw P1 hP1 (Nat.le_refl _)
      obtain ⟨c2, w2, f2, i2, o2, int2⟩ := internalRun_frame cfg pw es2 s1 s2 hir
      have hrun2 := internalRun_is_run cfg pw es2 s1 s2 hir
      -- a partition writer with an empty pipeline in s1 still has one in s2
      have hkeep2 : ∀ x X, s1.pws x = some X → X.pipe = [] → ∃ X', s2.pws x = some X' ∧ X'.pipe = [] := by
        intro x X hX he
        by_cases hxp : x = pw
        · subst hxp; exact ⟨P2, hP2, hpipe2⟩
        · exact ⟨X, by rw [o2 x hxp]; exact hX, he⟩
      refine ⟨es1 ++ es2, s2, ?_, ?_, c2.trans hc1, w2.trans hw1, f2.trans hf1, i2.trans hi1, ?_, ?_⟩
      · rw [run_append, hrun1]; exact hrun2
      · rw [List.all_append, hint1, int2]; rfl
      · intro x X hX he
        obtain ⟨X1, hX1, he1⟩ := hkeep1 x X hX he
        exact hkeep2 x X1 hX1 he1
      · intro x hx X' hX'
        rcases List.mem_cons.mp hx with rfl | hx
        · rw [hP2] at hX'; cases hX'; exact hpipe2
        · by_cases hxp : x = pw
          · subst hxp; rw [hP2] at hX'; cases hX'; exact hpipe2
          · have hX1 : s1.pws x = some X' := by rw [← o2 x hxp]; exact hX'
            exact hall1 x hx X' hX1

/-- **drains** — from every reachable state in which no call is inside batchMessages there is a continuation made of
internal events only after which every batch of the writer is completed; the continuation changes no call record. -/
theorem drains (cfg : Cfg) (hmax : 1 ≤ cfg.maxAttempts) (s : State) (hr : Reachable cfg s) (hfresh : s.fresh = none) :
    ∃ es s', run cfg s es = some s' ∧ es.all Event.internal = true ∧ s'.calls = s.calls ∧ s'.wlock = s.wlock ∧
      ∀ b B, s'.batches b = some B → ∃ code, B.done = some code := by
  obtain ⟨es, s', hrun, hint, hc, hw, -, hids, -, hall⟩ := drain_list cfg hmax s.pwIds s hr hfresh
  refine ⟨es, s', hrun, hint, hc, hw, ?_⟩
  have hr' := reachable_run hr hrun
  intro b B hB
  cases hd : B.done with
  | some code => exact ⟨code, rfl⟩
  | none =>
    exfalso
    obtain ⟨P, hP, hmem⟩ := invLive cfg s' hr' b B hB hd
    have hlisted := (invSched cfg s' hr').pwListed B.pw P hP
    rw [hids] at hlisted
    rw [hall B.pw hlisted P hP] at hmem
    cases hmem

end KV.Writer
