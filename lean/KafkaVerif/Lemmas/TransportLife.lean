/-
Lemmas/TransportLife.lean — life-cycle facts of pooled Transport connections (Model/TransportConnC17.lean, the LTS
over the T.* hook events of transport.go) used by C09: a connection whose release was refused (its group is closed)
or that was taken off the idle stack can only exit; an exited connection stays exited.
-/
import KafkaVerif.Model.TransportConnC17

namespace KV.TransportConn

theorem get_set (s : State) (c c' : Nat) (st : St) :
    get (set s c st) c' = if c' = c ∧ (get s c).isSome then some st else get s c' := by
  induction s with
  | nil => simp [set, get]
  | cons x r ih =>
    obtain ⟨c0, g0, st0⟩ := x
    by_cases h0 : c0 = c
    · subst h0
      by_cases h1 : c' = c0
      · subst h1; simp [set, get]
      · have : ¬ c0 = c' := fun h => h1 h.symm
        simp [set, get, h1, this]
    · by_cases h1 : c0 = c'
      · subst h1
        have : ¬ c0 = c := h0
        simp [set, get, h0, this]
      · simp only [set, h0, if_false, get, h1]
        exact ih

/-- closing a group never changes a connection that is not idle -/
theorem get_closeGroup_of_ne_idle (s : State) (g c : Nat) (st : St) (h : get s c = some st) (hn : st ≠ .idle) :
    get (closeGroup s g) c = some st := by
  induction s with
  | nil => simp [get] at h
  | cons x r ih =>
    obtain ⟨c0, g0, st0⟩ := x
    simp only [closeGroup, List.map_cons]
    by_cases hc : c0 = c
    · simp only [get, hc, if_true] at h
      injection h with h; subst h
      split
      · rename_i hh; exact absurd hh.2 hn
      · simp [get, hc]
    · simp only [get, hc, if_false] at h
      split <;> (simp only [get, hc, if_false]; exact ih h)

theorem move_spec (s s' : State) (c : Nat) (frm : List St) (to : St) (h : move s c frm to = some s') :
    (∃ st, get s c = some st ∧ frm.contains st = true) ∧ s' = set s c to := by
  simp only [move] at h
  cases hg : get s c with
  | none => simp [hg] at h
  | some st =>
    simp only [hg] at h
    split at h
    · rename_i hc; injection h with h; exact ⟨⟨st, rfl, hc⟩, h.symm⟩
    · simp at h

/-- the connection named by an event -/
def connOf : Ev → Option Nat
  | .new c _ | .grab c | .recv c | .done c _ _ | .release c _ | .remove c | .exit c => some c
  | .closeIdle _ => none

/-- an event about another connection, or a group close, leaves a non-idle connection as it is -/
theorem step_other (f : TFacts) (s s' : State) (e : Ev) (c : Nat) (st : St) (h : step f s e = some s') (hg : get s c = some st)
    (hn : st ≠ .idle) (hc : connOf e ≠ some c) : get s' c = some st := by
  have mv : ∀ c' frm to, c' ≠ c → move s c' frm to = some s' → get s' c = some st := by
    intro c' frm to hne hm
    obtain ⟨_, rfl⟩ := move_spec s s' c' frm to hm
    rw [get_set]; simp [Ne.symm hne, hg]
  cases e with
  | new c' g =>
    simp only [step] at h
    split at h
    · simp at h
    · injection h with h; subst h
      have : c' ≠ c := fun hh => hc (by simp [connOf, hh])
      simp [get, this, hg]
  | closeIdle g => simp only [step] at h; injection h with h; subst h; exact get_closeGroup_of_ne_idle s g c st hg hn
  | grab c' => exact mv c' _ _ (fun hh => hc (by simp [connOf, hh])) h
  | recv c' => exact mv c' _ _ (fun hh => hc (by simp [connOf, hh])) h
  | done c' ok nr => exact mv c' _ _ (fun hh => hc (by simp [connOf, hh])) h
  | release c' k => cases k <;> exact mv c' _ _ (fun hh => hc (by simp [connOf, hh])) h
  | remove c' => exact mv c' _ _ (fun hh => hc (by simp [connOf, hh])) h
  | exit c' => exact mv c' _ _ (fun hh => hc (by simp [connOf, hh])) h

/-- **closing_only_exits** — a connection that is `closing` (release refused, idle timer, group closed) stays closing
until its run loop exits; no other event of that connection is possible -/
theorem closing_only_exits (f : TFacts) (s s' : State) (e : Ev) (c : Nat) (hcl : get s c = some .closing)
    (h : step f s e = some s') :
    get s' c = some .closing ∨ (e = .exit c ∧ get s' c = some .exited) := by
  by_cases hc : connOf e = some c
  · right
    have mv : ∀ frm to, move s c frm to = some s' → frm.contains St.closing = true ∧ get s' c = some to := by
      intro frm to hm
      obtain ⟨⟨st, h1, h2⟩, rfl⟩ := move_spec s s' c frm to hm
      rw [hcl] at h1; injection h1 with h1; subst h1
      exact ⟨h2, by rw [get_set]; simp [hcl]⟩
    cases e <;> simp only [connOf, Option.some.injEq] at hc
    case new c' g => subst hc; simp [step, hcl] at h
    case grab c' => subst hc; exact absurd (mv _ _ h).1 (by cases f.dropFailed <;> decide)
    case recv c' => subst hc; exact absurd (mv _ _ h).1 (by cases f.dropFailed <;> decide)
    case done c' ok nr => subst hc; exact absurd (mv _ _ h).1 (by cases f.dropFailed <;> decide)
    case release c' k => subst hc; cases k <;> exact absurd (mv _ _ h).1 (by cases f.dropFailed <;> decide)
    case remove c' => subst hc; exact absurd (mv _ _ h).1 (by cases f.dropFailed <;> decide)
    case exit c' => subst hc; exact ⟨rfl, (mv _ _ h).2⟩
    case closeIdle g => cases hc
  · exact Or.inl (step_other f s s' e c .closing h hcl (by decide) hc)

/-- **released_refused_exits** — `releaseConn` refused (the group has been closed): the connection is `closing`, and
by `closing_only_exits` the next event of that connection can only be `Exit` -/
theorem released_refused_exits (f : TFacts) (s s' : State) (c : Nat) (h : step f s (.release c false) = some s') :
    get s' c = some .closing ∧
    ∀ e s'', step f s' e = some s'' → connOf e = some c → e = .exit c ∧ get s'' c = some .exited := by
  obtain ⟨⟨st, h1, _⟩, rfl⟩ := move_spec s s' c _ _ h
  have hcl : get (set s c .closing) c = some .closing := by rw [get_set]; simp [h1]
  refine ⟨hcl, ?_⟩
  intro e s'' hs hc
  rcases closing_only_exits f _ s'' e c hcl hs with hh | hh
  · -- an event of c that leaves it closing: impossible
    exfalso
    have mv : ∀ frm to, move (set s c .closing) c frm to = some s'' → frm.contains St.closing = true ∧ get s'' c = some to := by
      intro frm to hm
      obtain ⟨⟨st', h1', h2'⟩, rfl⟩ := move_spec _ s'' c frm to hm
      rw [hcl] at h1'; injection h1' with h1'; subst h1'
      exact ⟨h2', by rw [get_set]; simp [hcl]⟩
    cases e <;> simp only [connOf, Option.some.injEq] at hc
    case new c' g => subst hc; simp [step, hcl] at hs
    case grab c' => subst hc; exact absurd (mv _ _ hs).1 (by cases f.dropFailed <;> decide)
    case recv c' => subst hc; exact absurd (mv _ _ hs).1 (by cases f.dropFailed <;> decide)
    case done c' ok nr => subst hc; exact absurd (mv _ _ hs).1 (by cases f.dropFailed <;> decide)
    case release c' k => subst hc; cases k <;> exact absurd (mv _ _ hs).1 (by cases f.dropFailed <;> decide)
    case remove c' => subst hc; exact absurd (mv _ _ hs).1 (by cases f.dropFailed <;> decide)
    case exit c' => subst hc; have := (mv _ _ hs).2; rw [hh] at this; cases this
    case closeIdle g => cases hc
  · exact hh

/-- an exited connection stays exited -/
theorem exited_is_final (f : TFacts) (s s' : State) (e : Ev) (c : Nat) (hx : get s c = some .exited) (h : step f s e = some s') :
    get s' c = some .exited := by
  by_cases hc : connOf e = some c
  · exfalso
    have mv : ∀ frm to, move s c frm to = some s' → frm.contains St.exited = true := by
      intro frm to hm
      obtain ⟨⟨st, h1, h2⟩, _⟩ := move_spec s s' c frm to hm
      rw [hx] at h1; injection h1 with h1; subst h1; exact h2
    cases e <;> simp only [connOf, Option.some.injEq] at hc
    case new c' g => subst hc; simp [step, hx] at h
    case grab c' => subst hc; exact absurd (mv _ _ h) (by cases f.dropFailed <;> decide)
    case recv c' => subst hc; exact absurd (mv _ _ h) (by cases f.dropFailed <;> decide)
    case done c' ok nr => subst hc; exact absurd (mv _ _ h) (by cases f.dropFailed <;> decide)
    case release c' k => subst hc; cases k <;> exact absurd (mv _ _ h) (by cases f.dropFailed <;> decide)
    case remove c' => subst hc; exact absurd (mv _ _ h) (by cases f.dropFailed <;> decide)
    case exit c' => subst hc; exact absurd (mv _ _ h) (by cases f.dropFailed <;> decide)
    case closeIdle g => cases hc
  · exact step_other f s s' e c .exited h hx (by decide) hc

end KV.TransportConn
