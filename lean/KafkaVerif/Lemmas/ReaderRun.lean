/-
Lemmas/ReaderRun.lean — invariant of the per-generation unsubscribe model.
-/
import KafkaVerif.Model.ReaderRun
namespace KV.ReaderRun

/-- repaired code: the current generation's fetchers run unless its OWN unsubscribe function has run -/
structure RInv (s : RR) : Prop where
  len : s.alive.length = s.gens ∧ s.unsubRan.length = s.gens
  cur : 0 < s.gens → s.unsubRan.getD (s.gens - 1) true = false → s.alive.getD (s.gens - 1) false = true

theorem rinv_init : RInv {} := ⟨⟨rfl, rfl⟩, fun h => absurd h (by decide)⟩

theorem rinv_step (s s' : RR) (e : REv) (hi : RInv s) (h : rstep true s e = some s') : RInv s' := by
  cases e <;> simp only [rstep] at h
  case subscribe =>
    cases h
    obtain ⟨⟨l1, l2⟩, _⟩ := hi
    refine ⟨⟨?_, ?_⟩, ?_⟩
    · split <;> simp [setAt, l1]
    · simp [l2]
    · intro _ _
      have hl : (if s.gens = 0 then s.alive else setAt s.alive (s.gens - 1) false).length = s.gens := by
        split <;> simp [setAt, l1]
      simp [List.getD, hl]
  case unsub g =>
    split at h
    · rename_i hc
      cases h
      obtain ⟨⟨l1, l2⟩, hcur⟩ := hi
      refine ⟨⟨by simp [setAt, l1], by simp [setAt, l2]⟩, ?_⟩
      intro hpos hnot
      simp only [if_true] at hnot ⊢
      by_cases hg : g = s.gens - 1
      · subst hg
        have : s.gens - 1 < s.unsubRan.length := by omega
        simp [setAt, List.getD, this] at hnot
      · have h1 : (setAt s.unsubRan g true).getD (s.gens - 1) true = s.unsubRan.getD (s.gens - 1) true := by
          simp [setAt, List.getD, List.getElem?_set_ne hg]
        have h2 : (setAt s.alive g false).getD (s.gens - 1) false = s.alive.getD (s.gens - 1) false := by
          simp [setAt, List.getD, List.getElem?_set_ne hg]
        rw [h2]
        exact hcur hpos (by rw [← h1]; exact hnot)
    · cases h

theorem rinv_reachable (s : RR) (h : RReachable true s) : RInv s := by
  induction h with
  | init => exact rinv_init
  | step e _ hs ih => exact rinv_step _ _ e ih hs


/-- in both variants: `r.start` stops the previous generation's fetchers before it starts the new ones — at most the
current generation's fetchers of a Reader are running -/
structure OneInv (s : RR) : Prop where
  len : s.alive.length = s.gens
  old : ∀ g, g + 1 < s.gens → s.alive.getD g false = false

theorem oneinv_step (cap : Bool) (s s' : RR) (e : REv) (hi : OneInv s) (h : rstep cap s e = some s') : OneInv s' := by
  cases e <;> simp only [rstep] at h
  case subscribe =>
    cases h
    obtain ⟨l1, hold⟩ := hi
    have hl : (if s.gens = 0 then s.alive else setAt s.alive (s.gens - 1) false).length = s.gens := by
      split <;> simp [setAt, l1]
    refine ⟨by simp [hl], ?_⟩
    intro g hg
    have hg0 : g + 1 < s.gens + 1 := hg
    have hg' : g < s.gens := by omega
    have hlt : g < (if s.gens = 0 then s.alive else setAt s.alive (s.gens - 1) false).length := by omega
    simp only [List.getD, List.getElem?_append_left hlt]
    split
    · omega
    · by_cases hgl : g = s.gens - 1
      · subst hgl; simp [setAt, l1, hg']
      · have := hold g (by omega)
        simp [setAt, List.getElem?_set_ne (Ne.symm hgl)]
        simpa [List.getD] using this
  case unsub g =>
    split at h
    · cases h
      obtain ⟨l1, hold⟩ := hi
      refine ⟨by simp [setAt, l1], ?_⟩
      intro x hx
      have hx0 : x + 1 < s.gens := hx
      have := hold x hx0
      by_cases hxt : (if cap = true then g else s.gens - 1) = x
      · have hlt : x < s.alive.length := by omega
        simp [setAt, List.getD, hxt, hlt]
      · simp [setAt, List.getD, List.getElem?_set_ne hxt]
        simpa [List.getD] using this
    · cases h

theorem oneinv_reachable (cap : Bool) (s : RR) (h : RReachable cap s) : OneInv s := by
  induction h with
  | init => exact ⟨rfl, fun g hg => by simp at hg⟩
  | step e _ hs ih => exact oneinv_step cap _ _ e ih hs

end KV.ReaderRun
