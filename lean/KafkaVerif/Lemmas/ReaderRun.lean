/-
Lemmas/ReaderRun.lean — invariant of the per-generation unsubscribe model.
-/
import KafkaVerif.Model.ReaderRun
namespace KV.ReaderRun

/-- repaired code: the current generation's fetchers run unless its OWN unsubscribe function has run -/
structure RInv (s : RR) : Prop where
  len : s.alive.length = s.gens ∧ s.unsubRan.length = s.gens
  cur : 0 < s.gens → s.unsubRan.getD (s.gens - 1) true = false → s.alive.getD (s.gens - 1) false = true

theorem rinv_init : RInv {} := ⟨⟨rfl, rfl⟩, fun h => absurd h (by decide)⟩

theorem rinv_step (s s' : RR) (e : REv) (hi : RInv s) (h : rstep true s e = some s') : RInv s' := by
  cases e <;> simp only [rstep] at h
  case subscribe =>
    cases h
    obtain ⟨⟨l1, l2⟩, _⟩ := hi
    refine ⟨⟨?_, ?_⟩, ?_⟩
    · split <;> simp [setAt, l1]
    · simp [l2]
    · intro _ _
      have hl : (if s.gens = 0 then s.alive else setAt s.alive (s.gens - 1) false).length = s.gens := by
        split <;> simp [setAt, l1]
      simp [List.getD, hl]
  case unsub g =>
    split at h
    · rename_i hc
      cases h
      obtain ⟨⟨l1, l2⟩, hcur⟩ := hi
      refine ⟨⟨by simp [setAt, l1], by simp [setAt, l2]⟩, ?_⟩
      intro hpos hnot
      simp only [if_true] at hnot ⊢
      by_cases hg : g = s.gens - 1
      · subst hg
        have : s.gens - 1 < s.unsubRan.length := by omega
        simp [setAt, List.getD, this] at hnot
      · have h1 : (setAt s.unsubRan g true).getD (s.gens - 1) true = s.unsubRan.getD (s.gens - 1) true := by
          simp [setAt, List.getD, List.getElem?_set_ne hg]
        have h2 : (setAt s.alive g false).getD (s.gens - 1) false = s.alive.getD (s.gens - 1) false := by
          simp [setAt, List.getD, List.getElem?_set_ne hg]
        rw [h2]
        exact hcur hpos (by rw [← h1]; exact hnot)
    · cases h

theorem rinv_reachable (s : RR) (h : RReachable true s) : RInv s := by
  induction h with
  | init => exact rinv_init
  | step e _ hs ih => exact rinv_step _ _ e ih hs

end KV.ReaderRun
