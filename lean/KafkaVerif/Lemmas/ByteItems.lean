/-
Lemmas/ByteItems.lean — the sublanguage of the reference encoder that the C02 builder's byte-level tokenizer
(`Spec/ByteLayout`: `BItem`, `encItems`, `tokenize`, any cut) covers, seen through this property's descriptions
(`Spec/ByteTokens.Desc`): same bytes, same layout item, and every such item is `Good` for the Client-path decoder
model.  Lets `Props/C05.decoders_agree_items` put the C02 Conn/Batch reader model and the C05 Client-path model on
the very same bytes with the tokens read off those bytes by the C02 tokenizer.
-/
import KafkaVerif.Lemmas.ByteTokens
import KafkaVerif.Lemmas.ByteLayout
import KafkaVerif.Lemmas.FetchDecoder

namespace KV.Spec.RB
open KV KV.RW KV.C02 KV.Model.RecordReader

/-- a digest of a record's content (not of its offset, which the layout carries separately) -/
def contentTag (tagC : Int → Option Bytes → Option Bytes → List Hdr → Nat) (r : Rec) : Nat :=
  tagC r.ts r.key r.value r.headers

/-- the tokenizer configuration whose opaque digests are `tagC` of the record's content -/
def cfgOf (tagC : Int → Option Bytes → Option Bytes → List Hdr → Nat) (c : Crcs) (dec : Int → Bytes → Option Bytes) : TokCfg :=
  ⟨c, dec, fun first x => tagC (first + x.tsDelta) x.key x.value x.headers, fun m => tagC m.ts m.key m.value []⟩

def descOf (c : Crcs) (enc : Int → Bytes → Bytes) : BItem → Desc
  | .plain2 b => .batch b.frame b.recs
  | .comp2 hdr codec recs => .batch (comp2Frame enc hdr codec recs) recs
  | .msg m => .msg m
  | .wrap m codec inner => .wrapper (wrapMsg enc c.ieee m codec inner) inner

theorem codec_facts (codec : Int) (h0 : 0 < codec) (h8 : codec < 8) :
    codecOf codec = codec ∧ logAppend codec = false ∧ isControl codec = false := by
  have : codec = 1 ∨ codec = 2 ∨ codec = 3 ∨ codec = 4 ∨ codec = 5 ∨ codec = 6 ∨ codec = 7 := by omega
  rcases this with h | h | h | h | h | h | h <;> subst h <;> decide

theorem bytes_descOf (tagC : Int → Option Bytes → Option Bytes → List Hdr → Nat) (c : Crcs) (dec : Int → Bytes → Option Bytes)
    (enc : Int → Bytes → Bytes) (it : BItem) :
    it.bytes (cfgOf tagC c dec) enc = encEntry c (descOf c enc it).entry := by
  cases it <;> rfl

theorem encItems_descs (tagC : Int → Option Bytes → Option Bytes → List Hdr → Nat) (c : Crcs) (dec : Int → Bytes → Option Bytes)
    (enc : Int → Bytes → Bytes) (its : List BItem) :
    encItems (cfgOf tagC c dec) enc its = encSet c ((its.map (descOf c enc)).map Desc.entry) := by
  induction its with
  | nil => rfl
  | cons it its ih => simp only [encItems, List.map_cons, encSet, bytes_descOf, ih]

/-- what the Client-path theorems need beyond `BItem.WF`: wrappers as brokers write them (magic 1, at least one inner
message, inner messages uncompressed, relative offsets ending at the wrapper's offset when that is 0) -/
def itemExtra : BItem → Prop
  | .wrap m _ inner => m.magic = 1 ∧ inner ≠ [] ∧ (∀ x ∈ inner, codecOf x.attributes = 0) ∧ (m.offset = 0 → lastOffset inner = 0)
  | _ => True

theorem item_descOf (tagC : Int → Option Bytes → Option Bytes → List Hdr → Nat) (c : Crcs) (dec : Int → Bytes → Option Bytes)
    (enc : Int → Bytes → Bytes) (it : BItem) (hwf : it.WF (cfgOf tagC c dec) enc) :
    it.item (cfgOf tagC c dec) enc = (descOf c enc it).item c (contentTag tagC) := by
  cases it with
  | plain2 b =>
    simp only [BItem.item, BBatch.item, descOf, Desc.item, BBatch.frame, recToks, cfgOf]
    have h0 : (decide (codecOf 0 ≠ 0)) = false := by decide
    have hl : logAppend 0 = false := by decide
    simp [h0, contentTag, recOfV2, recOfV2c, stamp, hl]
  | comp2 hdr codec recs =>
    obtain ⟨_, h0, h8, _⟩ := hwf
    obtain ⟨hc, hl, _⟩ := codec_facts codec h0 h8
    have hd : (decide (codecOf codec ≠ 0)) = true := by rw [hc]; simp; omega
    simp [BItem.item, descOf, Desc.item, comp2Frame, recToks, cfgOf, hd, contentTag, recOfV2, recOfV2c, stamp, hl]
  | msg m => simp [BItem.item, descOf, Desc.item, cfgOf, contentTag, recOfMsg]
  | wrap m codec inner =>
    obtain ⟨_, h0, h8, _⟩ := hwf
    obtain ⟨_, hl, _⟩ := codec_facts codec h0 h8
    simp [BItem.item, descOf, Desc.item, wrapMsg, innerToks, cfgOf, contentTag, recOfMsg, stamp, hl]

theorem good_descOf (tagC : Int → Option Bytes → Option Bytes → List Hdr → Nat) (c : Crcs) (dec : Int → Bytes → Option Bytes)
    (enc : Int → Bytes → Bytes) (hdec : ∀ k b, dec k (enc k b) = some b) (it : BItem)
    (hwf : it.WF (cfgOf tagC c dec) enc) (hx : itemExtra it) : (descOf c enc it).Good c dec := by
  cases it with
  | plain2 b => exact ⟨hwf, by simp [BBatch.frame, codecOf], rfl⟩
  | comp2 hdr codec recs =>
    obtain ⟨hw, h0, h8, _⟩ := hwf
    obtain ⟨hc, _, _⟩ := codec_facts codec h0 h8
    refine ⟨hw, ?_, rfl⟩
    have hne : ¬ codec = 0 := by omega
    simp [comp2Frame, hc, hne, hdec]
  | msg m => exact ⟨hwf.1, by simpa [codecOf] using hwf.2⟩
  | wrap m codec inner =>
    obtain ⟨hw, h0, h8, hin⟩ := hwf
    obtain ⟨hmg, hne, hcod, hbase⟩ := hx
    obtain ⟨hc, _, _⟩ := codec_facts codec h0 h8
    exact ⟨hw, hmg, by simp only [wrapMsg, hc]; omega,
      ⟨_, rfl, by simp only [wrapMsg, hc, hdec, cfgOf]; rw [encMsgs_eq_encSet]⟩,
      fun x hx' => ⟨hin x hx', hcod x hx'⟩, hne, hbase⟩

theorem item_size_bytes (tagC : Int → Option Bytes → Option Bytes → List Hdr → Nat) (c : Crcs) (dec : Int → Bytes → Option Bytes)
    (enc : Int → Bytes → Bytes) (it : BItem) :
    (it.item (cfgOf tagC c dec) enc).size = (it.bytes (cfgOf tagC c dec) enc).length := by
  cases it with
  | plain2 b => simp [BItem.item, BBatch.item, Item.size, BItem.bytes, encFrame, frameBody_length, BBatch.frame]; omega
  | comp2 hdr codec recs => simp [BItem.item, Item.size, BItem.bytes, encFrame, frameBody_length, comp2Frame]; omega
  | msg m => rfl
  | wrap m codec inner => rfl

theorem itemsSize_bytes (tagC : Int → Option Bytes → Option Bytes → List Hdr → Nat) (c : Crcs) (dec : Int → Bytes → Option Bytes)
    (enc : Int → Bytes → Bytes) (its : List BItem) :
    itemsSize (layoutOfItems (cfgOf tagC c dec) enc its) = (encItems (cfgOf tagC c dec) enc its).length := by
  induction its with
  | nil => rfl
  | cons it its ih =>
    simp only [layoutOfItems, List.map_cons, itemsSize, encItems, List.length_append] at ih ⊢
    rw [ih, item_size_bytes]

end KV.Spec.RB
