/-
Lemmas/PageBuffer.lean — the page buffer behaves like one flat byte string: what the index arithmetic of
`contiguousPages` (indexOf / slice / page.slice / ReadAt / WriteAt / Truncate / refTo) computes is the corresponding
take/drop of the concatenation of the pages.
-/
import KafkaVerif.Model.PageBuffer

namespace KV.Model.PageBuffer
open KV

/-- bytes `[b, e)` of a byte string -/
def seg (F : Bytes) (b e : Nat) : Bytes := (F.take e).drop b

theorem contig_le {P : Nat} : ∀ {ps : List Bytes}, Contig P ps → ∀ pg ∈ ps, pg.length ≤ P
  | [], _, pg, h => by simp at h
  | [x], hc, pg, h => by simp only [List.mem_singleton] at h; subst h; exact hc
  | x :: y :: r, hc, pg, h => by
    simp only [Contig] at hc
    simp only [List.mem_cons] at h
    rcases h with h | h
    · subst h; omega
    · exact contig_le hc.2 pg (by simpa using h)

theorem contig_tail {P : Nat} {x : Bytes} {r : List Bytes} (h : Contig P (x :: r)) : Contig P r := by
  cases r with
  | nil => trivial
  | cons y r' => exact h.2

theorem pageSlice_eq (P off : Nat) (pg : Bytes) (b e : Nat) (h : pg.length ≤ P) :
    pageSlice P off pg b e = seg pg (b - off) (e - off) := by
  unfold pageSlice seg
  have ht : pg.take (min (e - off) P) = pg.take (e - off) := by
    by_cases hx : e - off ≤ P
    · rw [Nat.min_eq_left hx]
    · rw [Nat.min_eq_right (by omega), List.take_of_length_le h, List.take_of_length_le (by omega)]
  have hd : (pg.take (e - off)).drop (min (b - off) P) = (pg.take (e - off)).drop (b - off) := by
    by_cases hx : b - off ≤ P
    · rw [Nat.min_eq_left hx]
    · have hl : (pg.take (e - off)).length ≤ P := by rw [List.length_take]; omega
      rw [Nat.min_eq_right (by omega), List.drop_of_length_le hl, List.drop_of_length_le (by omega)]
  simp only
  split
  · rw [ht, hd]
  · rename_i hij
    rw [← hd, ← ht]
    symm
    apply List.drop_of_length_le
    rw [List.length_take]; omega

theorem seg_append (pg R : Bytes) (P B E : Nat) (hp : pg.length = P) :
    seg pg B E ++ seg R (B - P) (E - P) = seg (pg ++ R) B E := by
  unfold seg
  rw [List.take_append, List.drop_append, hp, List.length_take, hp]
  congr 1
  by_cases hE : P ≤ E
  · rw [Nat.min_eq_right hE]
  · have : E - P = 0 := by omega
    rw [this]; simp

/-- all pages: the page slices concatenate to the segment of the flat content -/
theorem slices_all (P : Nat) : ∀ (ps : List Bytes) (base b e : Nat), Contig P ps →
    ((withOffs P base ps).map (fun q => seg q.2 (b - q.1) (e - q.1))).flatten = seg ps.flatten (b - base) (e - base)
  | [], _, _, _, _ => by simp [withOffs, seg]
  | [pg], base, b, e, _ => by simp [withOffs]
  | pg :: q :: r, base, b, e, hc => by
    have ih := slices_all P (q :: r) (base + P) b e hc.2
    simp only [withOffs, List.map_cons, List.flatten_cons] at ih ⊢
    rw [ih]
    have h1 : b - (base + P) = b - base - P := by omega
    have h2 : e - (base + P) = e - base - P := by omega
    rw [h1, h2]
    exact seg_append pg _ P _ _ hc.1

theorem withOffs_take_bound (P : Nat) : ∀ (ps : List Bytes) (base i : Nat) (q : Nat × Bytes),
    q ∈ (withOffs P base ps).take i → q.1 + P ≤ base + i * P
  | [], _, _, _, h => by simp [withOffs] at h
  | pg :: r, base, 0, q, h => by simp at h
  | pg :: r, base, i + 1, q, h => by
    simp only [withOffs, List.take_succ_cons, List.mem_cons] at h
    rcases h with h | h
    · subst h; simp only; rw [Nat.succ_mul]; omega
    · have := withOffs_take_bound P r (base + P) i q h
      rw [Nat.succ_mul]; omega

theorem withOffs_drop_bound (P : Nat) : ∀ (ps : List Bytes) (base m : Nat) (q : Nat × Bytes),
    q ∈ (withOffs P base ps).drop m → base + m * P ≤ q.1
  | [], _, _, _, h => by simp [withOffs] at h
  | pg :: r, base, 0, q, h => by
    simp only [List.drop_zero] at h
    clear withOffs_drop_bound
    induction r generalizing base pg with
    | nil => simp only [withOffs, List.mem_singleton] at h; subst h; simp
    | cons x r ih =>
      simp only [withOffs, List.mem_cons] at h
      rcases h with h | h
      · subst h; simp
      · have := ih x (base + P) (by simpa [withOffs] using h)
        omega
  | pg :: r, base, m + 1, q, h => by
    simp only [withOffs, List.drop_succ_cons] at h
    have := withOffs_drop_bound P r (base + P) m q h
    rw [Nat.succ_mul]; omega

theorem withOffs_len (P : Nat) : ∀ (ps : List Bytes) (base : Nat), (withOffs P base ps).length = ps.length
  | [], _ => rfl
  | _ :: r, base => by simp [withOffs, withOffs_len P r]

theorem withOffs_mem_le (P : Nat) : ∀ (ps : List Bytes) (base : Nat) (q : Nat × Bytes), Contig P ps →
    q ∈ withOffs P base ps → q.2.length ≤ P
  | [], _, _, _, h => by simp [withOffs] at h
  | pg :: r, base, q, hc, h => by
    simp only [withOffs, List.mem_cons] at h
    rcases h with h | h
    · subst h; exact contig_le hc pg (by simp)
    · exact withOffs_mem_le P r (base + P) q (contig_tail hc) h

/-- the selected pages suffice: pages before `indexOf(begin)` and after `indexOf(end)` hold nothing of `[begin, end)` -/
theorem slice_segs (P : Nat) (hP : 0 < P) (pb : PB) (hc : Contig P pb.pages) (b e : Nat) (hbe : b ≤ e) :
    ((slice P pb b e).map (fun q => seg q.2 (b - q.1) (e - q.1))).flatten = seg (flat pb) (b - pb.base) (e - pb.base) := by
  have hslice : slice P pb b e = ((withOffs P pb.base pb.pages).drop (indexOf P pb b)).take
      ((if indexOf P pb e < pb.pages.length then indexOf P pb e + 1 else indexOf P pb e) - indexOf P pb b) := rfl
  unfold flat
  rw [hslice, ← slices_all P pb.pages pb.base b e hc]
  generalize hW : withOffs P pb.base pb.pages = W
  generalize hi : indexOf P pb b = i
  generalize hj : (if indexOf P pb e < pb.pages.length then indexOf P pb e + 1 else indexOf P pb e) = j'
  have hmemle : ∀ q ∈ W, q.2.length ≤ P := fun q hq => withOffs_mem_le P pb.pages pb.base q hc (hW ▸ hq)
  have hsplit : W = W.take i ++ ((W.drop i).take (j' - i) ++ (W.drop i).drop (j' - i)) := by
    rw [List.take_append_drop, List.take_append_drop]
  have hbefore : ((W.take i).map (fun q => seg q.2 (b - q.1) (e - q.1))).flatten = [] := by
    rw [List.flatten_eq_nil_iff]
    intro l hl
    simp only [List.mem_map] at hl
    obtain ⟨q, hq, rfl⟩ := hl
    have hb := withOffs_take_bound P pb.pages pb.base i q (hW ▸ hq)
    have hle := hmemle q (List.mem_of_mem_take hq)
    have hib : i * P ≤ b - pb.base := by rw [← hi]; exact Nat.div_mul_le_self _ _
    have hi0 : i ≠ 0 := by intro h0; rw [h0] at hq; simp at hq
    have hiP : P ≤ i * P := Nat.le_mul_of_pos_left P (Nat.pos_of_ne_zero hi0)
    unfold seg
    apply List.drop_of_length_le
    rw [List.length_take]; omega
  have hafter : (((W.drop i).drop (j' - i)).map (fun q => seg q.2 (b - q.1) (e - q.1))).flatten = [] := by
    rw [List.flatten_eq_nil_iff]
    intro l hl
    simp only [List.mem_map] at hl
    obtain ⟨q, hq, rfl⟩ := hl
    rw [List.drop_drop] at hq
    by_cases hjl : indexOf P pb e < pb.pages.length
    · simp only [hjl, if_true] at hj
      have hij : i ≤ j' := by
        rw [← hi, ← hj]; unfold indexOf
        have : (b - pb.base) / P ≤ (e - pb.base) / P := Nat.div_le_div_right (by omega)
        omega
      have hdb := withOffs_drop_bound P pb.pages pb.base (i + (j' - i)) q (hW ▸ hq)
      have : i + (j' - i) = j' := by omega
      rw [this] at hdb
      have hlt : e - pb.base < (indexOf P pb e + 1) * P := by
        unfold indexOf
        have := Nat.lt_div_mul_add hP (a := e - pb.base)
        rw [Nat.succ_mul]; omega
      rw [hj] at hlt
      have : e - q.1 = 0 := by omega
      unfold seg
      rw [this]; simp
    · simp only [hjl, if_false] at hj
      have hlen : W.length ≤ i + (j' - i) := by
        rw [← hW, withOffs_len]; omega
      rw [List.drop_of_length_le hlen] at hq
      simp at hq
  conv => rhs; rw [hsplit]
  simp only [List.map_append, List.flatten_append, hbefore, hafter, List.nil_append, List.append_nil]

theorem slice_mem_le (P : Nat) (pb : PB) (hc : Contig P pb.pages) (b e : Nat) : ∀ q ∈ slice P pb b e, q.2.length ≤ P := by
  intro q hq
  have hslice : slice P pb b e = ((withOffs P pb.base pb.pages).drop (indexOf P pb b)).take
      ((if indexOf P pb e < pb.pages.length then indexOf P pb e + 1 else indexOf P pb e) - indexOf P pb b) := rfl
  rw [hslice] at hq
  exact withOffs_mem_le P pb.pages pb.base q hc (List.mem_of_mem_drop (List.mem_of_mem_take hq))

/-- `scan(begin, end)` = the bytes `[begin, end)` of the flat content (for `begin ≤ end`, page size > 0) -/
theorem scan_eq (P : Nat) (hP : 0 < P) (pb : PB) (hc : Contig P pb.pages) (b e : Nat) (hbe : b ≤ e) :
    scan P pb b e = seg (flat pb) (b - pb.base) (e - pb.base) := by
  rw [← slice_segs P hP pb hc b e hbe]
  unfold scan
  congr 1
  apply List.map_congr_left
  intro q hq
  exact pageSlice_eq P q.1 q.2 b e (slice_mem_le P pb hc b e q hq)

/-! ### Write -/

theorem contig_cons_full {P : Nat} {x : Bytes} {rest : List Bytes} (hx : x.length = P) (h : Contig P rest) :
    Contig P (x :: rest) := by
  cases rest with
  | nil => simp only [Contig]; omega
  | cons y r => exact ⟨hx, h⟩

theorem chunk_spec (P : Nat) (hP : 0 < P) : ∀ (fuel : Nat) (b : Bytes), b.length ≤ fuel →
    (chunk P fuel b).flatten = b ∧ Contig P (chunk P fuel b)
  | 0, b, h => by
    have : b = [] := List.eq_nil_of_length_eq_zero (by omega)
    subst this; simp [chunk, Contig]
  | fuel + 1, b, h => by
    simp only [chunk]
    by_cases hb : b.length ≤ P
    · simp [hb, Contig]
    · simp only [hb, if_false]
      have ih := chunk_spec P hP fuel (b.drop P) (by rw [List.length_drop]; omega)
      refine ⟨by simp [ih.1], contig_cons_full (by rw [List.length_take]; omega) ih.2⟩

theorem fill_spec (P : Nat) (hP : 0 < P) (tail b : Bytes) (ht : tail.length ≤ P) :
    (fill P tail b).flatten = tail ++ b ∧ Contig P (fill P tail b) := by
  unfold fill
  by_cases hb : b.length ≤ P - tail.length
  · simp only [hb, if_true]
    exact ⟨by simp, by simp only [Contig, List.length_append]; omega⟩
  · simp only [hb, if_false]
    have ih := chunk_spec P hP b.length (b.drop (P - tail.length)) (by rw [List.length_drop]; omega)
    refine ⟨by simp [ih.1], contig_cons_full (by rw [List.length_append, List.length_take]; omega) ih.2⟩

theorem writePages_spec (P : Nat) (hP : 0 < P) : ∀ (ps : List Bytes) (b : Bytes), Contig P ps →
    (writePages P ps b).flatten = ps.flatten ++ b ∧ Contig P (writePages P ps b)
  | [], b, _ => by simpa [writePages] using fill_spec P hP [] b (by simp)
  | [tail], b, hc => by simpa [writePages] using fill_spec P hP tail b hc
  | pg :: q :: r, b, hc => by
    have ih := writePages_spec P hP (q :: r) b hc.2
    simp only [writePages]
    exact ⟨by simp [ih.1], contig_cons_full hc.1 ih.2⟩

/-- `Write` appends, pages stay contiguous -/
theorem write_spec (P : Nat) (hP : 0 < P) (pb : PB) (b : Bytes) (hc : Contig P pb.pages) :
    flat (write P pb b) = flat pb ++ b ∧ Contig P (write P pb b).pages ∧ (write P pb b).base = pb.base := by
  unfold write
  by_cases hb : b = []
  · subst hb; simp [flat, hc]
  · simp only [hb, if_false, flat]
    have := writePages_spec P hP pb.pages b hc
    exact ⟨this.1, this.2, trivial⟩

/-! ### Truncate -/

theorem truncPages_spec (P : Nat) : ∀ (ps : List Bytes) (n : Nat), Contig P ps →
    (truncPages ps n).flatten = ps.flatten.take n ∧ Contig P (truncPages ps n)
  | [], n, _ => by simp [truncPages, Contig]
  | pg :: rest, n, hc => by
    simp only [truncPages]
    by_cases h1 : pg.length ≤ n
    · simp only [h1, if_true]
      have ih := truncPages_spec P rest (n - pg.length) (contig_tail hc)
      refine ⟨by simp [ih.1, List.take_append, List.take_of_length_le h1], ?_⟩
      cases hr : truncPages rest (n - pg.length) with
      | nil => simp only [Contig]; exact contig_le hc pg (by simp)
      | cons y r' =>
        rw [← hr]
        cases rest with
        | nil => simp [truncPages] at hr
        | cons q r => exact contig_cons_full hc.1 ih.2
    · simp only [h1, if_false]
      by_cases h0 : n > 0
      · simp only [h0, if_true]
        refine ⟨by simp [List.take_append_of_le_length (Nat.le_of_lt (Nat.lt_of_not_le h1))], ?_⟩
        simp only [Contig, List.length_take]
        have := contig_le hc pg (by simp); omega
      · have : n = 0 := by omega
        subst this; simp [Contig]

/-- `Truncate(n)` keeps the first `n` bytes -/
theorem truncate_spec (P : Nat) (pb : PB) (n : Nat) (hc : Contig P pb.pages) :
    flat (truncate pb n) = (flat pb).take n ∧ Contig P (truncate pb n).pages := by
  unfold truncate
  by_cases h : n < (flat pb).length
  · rw [if_pos h]
    exact truncPages_spec P pb.pages n hc
  · rw [if_neg h]
    exact ⟨(List.take_of_length_le (by omega)).symm, hc⟩

/-! ### ReadAt -/

/-- pages with consecutive page-aligned offsets starting at `po`, all full except possibly the last -/
def Aligned (P : Nat) : Nat → List (Nat × Bytes) → Prop
  | _, [] => True
  | po, [q] => q.1 = po ∧ q.2.length ≤ P
  | po, q :: rest => q.1 = po ∧ q.2.length = P ∧ Aligned P (po + P) rest

theorem aligned_withOffs (P : Nat) : ∀ (ps : List Bytes) (base : Nat), Contig P ps → Aligned P base (withOffs P base ps)
  | [], _, _ => trivial
  | [pg], base, hc => ⟨rfl, hc⟩
  | pg :: q :: r, base, hc => ⟨rfl, hc.1, aligned_withOffs P (q :: r) (base + P) hc.2⟩

theorem aligned_tail {P po : Nat} {q : Nat × Bytes} {rest : List (Nat × Bytes)} (h : Aligned P po (q :: rest)) :
    Aligned P (po + P) rest := by
  cases rest with
  | nil => trivial
  | cons y r => exact h.2.2

theorem aligned_head {P po : Nat} {q : Nat × Bytes} {rest : List (Nat × Bytes)} (h : Aligned P po (q :: rest)) :
    q.1 = po ∧ q.2.length ≤ P ∧ (rest ≠ [] → q.2.length = P) := by
  cases rest with
  | nil => exact ⟨h.1, h.2, fun hn => absurd rfl hn⟩
  | cons y r => exact ⟨h.1, by have := h.2.1; omega, fun _ => h.2.1⟩

theorem aligned_drop (P : Nat) : ∀ (i : Nat) (qs : List (Nat × Bytes)) (po : Nat), Aligned P po qs →
    Aligned P (po + i * P) (qs.drop i)
  | 0, qs, po, h => by simpa using h
  | i + 1, [], po, _ => by simp [Aligned]
  | i + 1, q :: rest, po, h => by
    have := aligned_drop P i rest (po + P) (aligned_tail h)
    simp only [List.drop_succ_cons]
    rw [Nat.succ_mul]
    have e : po + (i * P + P) = po + P + i * P := by omega
    rw [e]; exact this

theorem aligned_take (P : Nat) : ∀ (m : Nat) (qs : List (Nat × Bytes)) (po : Nat), Aligned P po qs →
    Aligned P po (qs.take m)
  | 0, qs, po, _ => by simp [Aligned]
  | m + 1, [], po, _ => by simp [Aligned]
  | m + 1, q :: rest, po, h => by
    have hh := aligned_head h
    have ih := aligned_take P m rest (po + P) (aligned_tail h)
    simp only [List.take_succ_cons]
    cases ht : rest.take m with
    | nil => exact ⟨hh.1, hh.2.1⟩
    | cons y r =>
      rw [ht] at ih
      have hne : rest ≠ [] := by intro hn; rw [hn] at ht; simp at ht
      exact ⟨hh.1, hh.2.2 hne, ih⟩

theorem aligned_ge (P : Nat) : ∀ (qs : List (Nat × Bytes)) (po : Nat), Aligned P po qs → ∀ q ∈ qs, po ≤ q.1
  | [], _, _, q, h => by simp at h
  | x :: rest, po, ha, q, h => by
    simp only [List.mem_cons] at h
    rcases h with h | h
    · subst h; have := (aligned_head ha).1; omega
    · have := aligned_ge P rest (po + P) (aligned_tail ha) q h; omega

theorem readPages_zero (P : Nat) : ∀ (qs : List (Nat × Bytes)) (off : Nat), readPages P qs off 0 = []
  | [], _ => rfl
  | (po, pg) :: rest, off => by
    simp only [readPages, List.take_zero]
    have : (if off - po > pg.length then ([] : Bytes) else []) = [] := by split <;> rfl
    rw [this]
    simpa using readPages_zero P rest off

theorem seg_take_drop (pg : Bytes) (rel n : Nat) : seg pg rel (rel + n) = (pg.drop rel).take n := by
  unfold seg
  rw [List.drop_take]
  congr 1
  omega

/-- `contiguousPages.ReadAt` over aligned pages = the page segments of `[off, off+n)` -/
theorem readPages_eq (P : Nat) : ∀ (qs : List (Nat × Bytes)) (po off n : Nat), Aligned P po qs → po ≤ off →
    readPages P qs off n = (qs.map (fun q => seg q.2 (off - q.1) (off + n - q.1))).flatten
  | [], _, _, _, _, _ => rfl
  | (o, pg) :: rest, po, off, n, ha, hle => by
    have hh := aligned_head ha
    simp only at hh
    obtain ⟨ho, hpl, hfull⟩ := hh
    subst ho
    simp only [readPages, List.map_cons, List.flatten_cons]
    by_cases hrel : off - o > pg.length
    · simp only [hrel, if_true, List.nil_append, List.length_nil, Nat.add_zero, Nat.sub_zero]
      have hseg : seg pg (off - o) (off + n - o) = [] := by
        unfold seg; apply List.drop_of_length_le; rw [List.length_take]; omega
      rw [hseg, List.nil_append]
      cases hr : rest with
      | nil => rfl
      | cons y r =>
        have hP := hfull (by rw [hr]; simp)
        rw [← hr]
        exact readPages_eq P rest (o + P) off n (aligned_tail ha) (by omega)
    · simp only [hrel, if_false]
      have hseg : seg pg (off - o) (off + n - o) = (pg.drop (off - o)).take n := by
        have : off + n - o = (off - o) + n := by omega
        rw [this]; exact seg_take_drop pg _ n
      rw [hseg]
      congr 1
      cases hr : rest with
      | nil => rfl
      | cons y r =>
        rw [← hr]
        have hP := hfull (by rw [hr]; simp)
        have hal := aligned_tail ha
        have hlen : ((pg.drop (off - o)).take n).length = min n (P - (off - o)) := by
          rw [List.length_take, List.length_drop, hP]
        by_cases hn : n ≤ P - (off - o)
        · -- everything asked for came from this page
          rw [hlen, Nat.min_eq_left hn, Nat.sub_self, readPages_zero]
          symm
          rw [List.flatten_eq_nil_iff]
          intro l hl
          simp only [List.mem_map] at hl
          obtain ⟨q, hq, rfl⟩ := hl
          have := aligned_ge P rest (o + P) hal q hq
          have h0 : off + n - q.1 = 0 := by omega
          unfold seg; rw [h0]; simp
        · rw [hlen, Nat.min_eq_right (by omega)]
          have hoff : off + (P - (off - o)) = o + P := by omega
          rw [hoff, readPages_eq P rest (o + P) (o + P) (n - (P - (off - o))) hal (Nat.le_refl _)]
          congr 1
          apply List.map_congr_left
          intro q hq
          have := aligned_ge P rest (o + P) hal q hq
          have h1 : o + P - q.1 = off - q.1 := by omega
          have h2 : o + P + (n - (P - (off - o))) - q.1 = off + n - q.1 := by omega
          rw [h1, h2]

theorem slice_aligned (P : Nat) (pb : PB) (hc : Contig P pb.pages) (b e : Nat) :
    Aligned P (pb.base + indexOf P pb b * P) (slice P pb b e) := by
  have hslice : slice P pb b e = ((withOffs P pb.base pb.pages).drop (indexOf P pb b)).take
      ((if indexOf P pb e < pb.pages.length then indexOf P pb e + 1 else indexOf P pb e) - indexOf P pb b) := rfl
  rw [hslice]
  exact aligned_take P _ _ _ (aligned_drop P _ _ _ (aligned_withOffs P pb.pages pb.base hc))

/-- `ReadAt(buf, off)` returns the `len(buf)` bytes at `off` of the flat content (as many as there are) -/
theorem readAt_eq (P : Nat) (hP : 0 < P) (pb : PB) (hc : Contig P pb.pages) (off n : Nat) (hbase : pb.base ≤ off) :
    readAt P pb off n = ((flat pb).drop (off - pb.base)).take n := by
  unfold readAt
  have hal := slice_aligned P pb hc off (off + n)
  have hle : pb.base + indexOf P pb off * P ≤ off := by
    unfold indexOf
    have := Nat.div_mul_le_self (off - pb.base) P
    omega
  rw [readPages_eq P _ _ off n hal hle, slice_segs P hP pb hc off (off + n) (by omega)]
  have : off + n - pb.base = (off - pb.base) + n := by omega
  rw [this, seg_take_drop]

/-! ### WriteAt (inside the written part) -/

/-- `F` with the bytes at `[o, o+|b|)` replaced by `b` -/
def patch (F : Bytes) (o : Nat) (b : Bytes) : Bytes := F.take o ++ (b ++ F.drop (o + b.length))

theorem patch_nil (F : Bytes) (o : Nat) : patch F o [] = F := by simp [patch]

theorem overwrite_nil (P : Nat) : ∀ (ps : List Bytes) (po off : Nat), overwritePages P ps po off [] = ps
  | [], _, _ => rfl
  | pg :: rest, po, off => by simp [overwritePages, overwrite_nil P rest]

theorem contig_of_lengths {P : Nat} : ∀ {ps qs : List Bytes}, ps.map List.length = qs.map List.length → Contig P qs → Contig P ps
  | [], [], _, _ => trivial
  | [], _ :: _, h, _ => by simp at h
  | _ :: _, [], h, _ => by simp at h
  | [x], [y], h, hc => by simp only [List.map_cons, List.map_nil, List.cons.injEq, and_true] at h; simp only [Contig] at hc ⊢; omega
  | [x], y :: z :: r, h, _ => by simp at h
  | x :: x' :: r, [y], h, _ => by simp at h
  | x :: x' :: r, y :: y' :: r', h, hc => by
    simp only [List.map_cons, List.cons.injEq] at h
    exact ⟨by have := hc.1; omega, contig_of_lengths (ps := x' :: r) (qs := y' :: r') (by simp [h.2.1, h.2.2]) hc.2⟩

theorem overwritePages_spec (P : Nat) (hP : 0 < P) : ∀ (ps : List Bytes) (po off : Nat) (b : Bytes), Contig P ps →
    po ≤ off → off + b.length ≤ po + ps.flatten.length →
    (overwritePages P ps po off b).flatten = patch ps.flatten (off - po) b ∧
      (overwritePages P ps po off b).map List.length = ps.map List.length
  | [], po, off, b, _, hle, hfit => by
    have : b = [] := List.eq_nil_of_length_eq_zero (by simp at hfit; omega)
    subst this; simp [overwritePages, patch]
  | pg :: rest, po, off, b, hc, hle, hfit => by
    have hpl : pg.length ≤ P := contig_le hc pg (by simp)
    have hfull : rest ≠ [] → pg.length = P := by
      intro hne
      cases rest with
      | nil => exact absurd rfl hne
      | cons y r => exact hc.1
    simp only [List.flatten_cons, List.length_append] at hfit
    by_cases hb : b = []
    · subst hb
      simp [overwrite_nil, patch_nil]
    · have hbl : 0 < b.length := List.length_pos_iff.mpr hb
      simp only [overwritePages, hb, false_or]
      by_cases hskip : off ≥ po + P
      · simp only [hskip, if_true]
        have hrne : rest ≠ [] := by
          intro hn; subst hn; simp at hfit; omega
        have hP' := hfull hrne
        have ih := overwritePages_spec P hP rest (po + P) off b (contig_tail hc) hskip (by omega)
        refine ⟨?_, by simp [ih.2]⟩
        simp only [List.flatten_cons, ih.1, patch]
        have h1 : off - po = pg.length + (off - (po + P)) := by omega
        rw [h1, List.take_append, List.drop_append]
        simp only [List.take_of_length_le (show pg.length ≤ pg.length + (off - (po + P)) by omega), Nat.add_sub_cancel_left,
          List.append_assoc]
        congr 2
        have h2 : pg.length + (off - (po + P)) + b.length - pg.length = off - (po + P) + b.length := by omega
        rw [List.drop_of_length_le (show pg.length ≤ pg.length + (off - (po + P)) + b.length by omega), h2]
        simp
      · simp only [hskip, if_false]
        have hrel : off - po ≤ pg.length := by
          by_cases hrne : rest = []
          · subst hrne; simp at hfit; omega
          · have := hfull hrne; omega
        by_cases hfits : b.length ≤ pg.length - (off - po)
        · -- the whole of `b` lands in this page
          have hn : min b.length (pg.length - (off - po)) = b.length := Nat.min_eq_left hfits
          simp only [pageWriteAt, hn, List.take_of_length_le (Nat.le_refl _), List.drop_of_length_le (Nat.le_refl _),
            overwrite_nil]
          refine ⟨?_, ?_⟩
          · simp only [List.flatten_cons, patch, List.append_assoc]
            rw [List.take_append_of_le_length hrel, List.drop_append_of_le_length (by omega)]
          · simp only [List.map_cons, List.length_append, List.length_take, List.length_drop]
            congr 1
            omega
        · have hrne : rest ≠ [] := by
            intro hn; subst hn; simp at hfit; omega
          have hP' := hfull hrne
          have hn : min b.length (pg.length - (off - po)) = pg.length - (off - po) := Nat.min_eq_right (by omega)
          simp only [pageWriteAt, hn]
          have hoff : off + (pg.length - (off - po)) = po + P := by omega
          rw [hoff]
          have ih := overwritePages_spec P hP rest (po + P) (po + P) (b.drop (pg.length - (off - po))) (contig_tail hc)
            (Nat.le_refl _) (by rw [List.length_drop]; omega)
          refine ⟨?_, ?_⟩
          · simp only [List.flatten_cons, ih.1, patch, Nat.sub_self, List.take_zero, List.nil_append, Nat.zero_add,
              List.append_assoc, List.length_drop]
            have hd0 : pg.drop (off - po + (pg.length - (off - po))) = [] := List.drop_of_length_le (by omega)
            rw [hd0, List.nil_append, List.take_append_of_le_length hrel]
            congr 1
            rw [← List.append_assoc, List.take_append_drop]
            congr 1
            rw [List.drop_append, List.drop_of_length_le (show pg.length ≤ off - po + b.length by omega)]
            simp only [List.nil_append]
            congr 1
            omega
          · simp only [List.map_cons, ih.2, List.length_append, List.length_take, List.length_drop]
            congr 1
            omega

/-- `WriteAt(b, off)` inside the written part replaces exactly the bytes `[off, off+len(b))`; nothing moves -/
theorem writeAt_spec (P : Nat) (hP : 0 < P) (pb : PB) (b : Bytes) (off : Nat) (hc : Contig P pb.pages)
    (hbase : pb.base ≤ off) (hfit : off + b.length ≤ pb.base + (flat pb).length) :
    flat (writeAt P pb b off) = patch (flat pb) (off - pb.base) b ∧ Contig P (writeAt P pb b off).pages := by
  have := overwritePages_spec P hP pb.pages pb.base off b hc hbase hfit
  exact ⟨this.1, contig_of_lengths this.2 hc⟩

/-! ### pageRef: reading through a reference to `[begin, end)` -/

theorem flatten_le (P : Nat) : ∀ (ps : List Bytes), (∀ pg ∈ ps, pg.length ≤ P) → ps.flatten.length ≤ ps.length * P
  | [], _ => by simp
  | pg :: r, h => by
    have := flatten_le P r (fun x hx => h x (by simp [hx]))
    have := h pg (by simp)
    simp only [List.flatten_cons, List.length_append, List.length_cons, Nat.succ_mul]; omega

/-- dropping whole pages = dropping their bytes -/
theorem drop_pages (P : Nat) : ∀ (i : Nat) (ps : List Bytes), Contig P ps → (ps.drop i).flatten = ps.flatten.drop (i * P)
  | 0, ps, _ => by simp
  | i + 1, [], _ => by simp
  | i + 1, [pg], hc => by
    simp only [List.drop_succ_cons, List.drop_nil, List.flatten_nil, List.flatten_cons, List.append_nil]
    symm; apply List.drop_of_length_le
    have hl : pg.length ≤ P := hc
    rw [Nat.succ_mul]; omega
  | i + 1, pg :: q :: r, hc => by
    have ih := drop_pages P i (q :: r) hc.2
    have hpl : pg.length = P := hc.1
    simp only [List.drop_succ_cons, List.flatten_cons] at ih ⊢
    rw [ih, Nat.succ_mul]
    have e1 : i * P + P = pg.length + i * P := by omega
    rw [e1, ← List.drop_drop, List.drop_left' rfl]

/-- the first `m` pages of a contiguous list hold `min total (m·P)` bytes -/
theorem take_pages_length (P : Nat) : ∀ (m : Nat) (xs : List Bytes), Contig P xs →
    (xs.take m).flatten.length = min xs.flatten.length (m * P)
  | 0, xs, _ => by simp
  | m + 1, [], _ => by simp
  | m + 1, [pg], hc => by
    simp only [List.take_succ_cons, List.take_nil, List.flatten_cons, List.flatten_nil, List.append_nil]
    have hl : pg.length ≤ P := hc
    rw [Nat.succ_mul]; omega
  | m + 1, pg :: q :: r, hc => by
    have ih := take_pages_length P m (q :: r) hc.2
    simp only [List.take_succ_cons, List.flatten_cons, List.length_append] at ih ⊢
    rw [ih, Nat.succ_mul]
    have := hc.1; omega

theorem contig_drop (P : Nat) : ∀ (i : Nat) (ps : List Bytes), Contig P ps → Contig P (ps.drop i)
  | 0, ps, h => by simpa using h
  | i + 1, [], _ => by simp [Contig]
  | i + 1, pg :: r, h => by simpa using contig_drop P i r (contig_tail h)

theorem contig_take (P : Nat) : ∀ (m : Nat) (ps : List Bytes), Contig P ps → Contig P (ps.take m)
  | 0, ps, _ => by simp [Contig]
  | m + 1, [], _ => by simp [Contig]
  | m + 1, [pg], h => by simpa using h
  | m + 1, pg :: q :: r, h => by
    have ih := contig_take P m (q :: r) h.2
    simp only [List.take_succ_cons]
    exact contig_cons_full h.1 ih

theorem withOffs_map_snd (P : Nat) : ∀ (ps : List Bytes) (base : Nat), (withOffs P base ps).map (·.2) = ps
  | [], _ => rfl
  | pg :: r, base => by simp [withOffs, withOffs_map_snd P r]

theorem withOffs_drop_head (P : Nat) : ∀ (ps : List Bytes) (base i : Nat) (q : Nat × Bytes) (rest : List (Nat × Bytes)),
    (withOffs P base ps).drop i = q :: rest → q.1 = base + i * P
  | [], base, i, q, rest, h => by simp [withOffs] at h
  | pg :: r, base, 0, q, rest, h => by
    simp only [withOffs, List.drop_zero, List.cons.injEq] at h; rw [← h.1]; simp
  | pg :: r, base, i + 1, q, rest, h => by
    simp only [withOffs, List.drop_succ_cons] at h
    have := withOffs_drop_head P r (base + P) i q rest h
    rw [this, Nat.succ_mul]; omega

theorem take_head {α : Type} : ∀ (l : List α) (m : Nat) (q : α) (r : List α), l.take m = q :: r → ∃ r', l = q :: r'
  | [], m, q, r, h => by simp at h
  | x :: l, 0, q, r, h => by simp at h
  | x :: l, m + 1, q, r, h => by
    simp only [List.take_succ_cons, List.cons.injEq] at h
    exact ⟨l, by rw [h.1]⟩

/-- the pages of a reference: `pages[i : j']`, based at the offset of page `i` -/
theorem refTo_eq (P : Nat) (pb : PB) (b e : Nat) :
    (refTo P pb b e).pages = (pb.pages.drop (indexOf P pb b)).take
        ((if indexOf P pb e < pb.pages.length then indexOf P pb e + 1 else indexOf P pb e) - indexOf P pb b) ∧
    ((refTo P pb b e).pages ≠ [] → (refTo P pb b e).base = pb.base + indexOf P pb b * P) := by
  have hslice : slice P pb b e = ((withOffs P pb.base pb.pages).drop (indexOf P pb b)).take
      ((if indexOf P pb e < pb.pages.length then indexOf P pb e + 1 else indexOf P pb e) - indexOf P pb b) := rfl
  have hmap : (slice P pb b e).map (·.2) = (pb.pages.drop (indexOf P pb b)).take
      ((if indexOf P pb e < pb.pages.length then indexOf P pb e + 1 else indexOf P pb e) - indexOf P pb b) := by
    rw [hslice, List.map_take, List.map_drop, withOffs_map_snd]
  unfold refTo
  cases hs : slice P pb b e with
  | nil =>
    rw [hs] at hmap
    simp only [List.map_nil] at hmap
    exact ⟨hmap, fun h => absurd rfl h⟩
  | cons q rest =>
    rw [hs] at hmap
    simp only [List.map_cons] at hmap
    refine ⟨hmap, fun _ => ?_⟩
    rw [hslice] at hs
    obtain ⟨r', hr'⟩ := take_head _ _ _ _ hs
    exact withOffs_drop_head P pb.pages pb.base _ q r' hr'

/-- reading `n` bytes at `off` through a reference to `[b, e)` of the buffer gives the bytes `[b+off, min(b+off+n, e))`
of the buffer's flat content — the reference sees exactly its range, nothing else, page boundaries do not matter -/
theorem refReadAt_eq (P : Nat) (hP : 0 < P) (pb : PB) (hc : Contig P pb.pages) (hb0 : pb.base = 0)
    (b e off n : Nat) (hbe : b ≤ e) (he : e ≤ (flat pb).length) :
    refReadAt P (refTo P pb b e) b (e - b) off n = (((flat pb).take e).drop (b + off)).take n := by
  unfold refReadAt
  have hlim : b + (e - b) = e := by omega
  simp only [hlim]
  by_cases hoe : off + b ≥ e
  · simp only [hoe, if_true]
    symm
    have : ((flat pb).take e).drop (b + off) = [] := by
      apply List.drop_of_length_le; rw [List.length_take]; omega
    rw [this]; simp
  · simp only [hoe, if_false]
    generalize hn' : (if off + b + n > e then e - (off + b) else n) = n'
    have hn'le : off + b + n' ≤ e := by rw [← hn']; split <;> omega
    have hn'eq : n' = min n (e - (off + b)) := by rw [← hn']; split <;> omega
    obtain ⟨hpages, hbase⟩ := refTo_eq P pb b e
    generalize hi : indexOf P pb b = i at hpages hbase
    generalize hm : (if indexOf P pb e < pb.pages.length then indexOf P pb e + 1 else indexOf P pb e) - i = m at hpages
    -- the flat content of the reference is a prefix of the buffer's content from byte i·P on
    have hX : Contig P (pb.pages.drop i) := contig_drop P i pb.pages hc
    have hXf : (pb.pages.drop i).flatten = pb.pages.flatten.drop (i * P) := drop_pages P i pb.pages hc
    have hflat : flat pb = pb.pages.flatten := rfl
    have hA : flat (refTo P pb b e) = ((flat pb).drop (i * P)).take (flat (refTo P pb b e)).length := by
      have hsplit : (pb.pages.drop i).flatten = ((pb.pages.drop i).take m).flatten ++ ((pb.pages.drop i).drop m).flatten := by
        rw [← List.flatten_append, List.take_append_drop]
      rw [hflat]
      show (refTo P pb b e).pages.flatten = _
      have hfr : flat (refTo P pb b e) = (refTo P pb b e).pages.flatten := rfl
      rw [hfr, hpages, ← hXf, hsplit, List.take_left' rfl]
    have hAlen : (flat (refTo P pb b e)).length = min ((flat pb).length - i * P) (m * P) := by
      have hfr : flat (refTo P pb b e) = (refTo P pb b e).pages.flatten := rfl
      rw [hfr, hpages, take_pages_length P m _ hX, hXf, List.length_drop, hflat]
    have hiP : i * P ≤ b := by
      rw [← hi]; unfold indexOf; rw [hb0]; exact Nat.div_mul_le_self _ _
    -- the requested range lies inside the reference's pages
    have hcover : off + b + n' - i * P ≤ (flat (refTo P pb b e)).length := by
      rw [hAlen]
      have h1 : off + b + n' - i * P ≤ (flat pb).length - i * P := by omega
      have h2 : off + b + n' - i * P ≤ m * P := by
        by_cases hjl : indexOf P pb e < pb.pages.length
        · simp only [hjl, if_true] at hm
          have hlt : e < (indexOf P pb e + 1) * P := by
            unfold indexOf; rw [hb0]
            have := Nat.lt_div_mul_add hP (a := e - 0)
            rw [Nat.succ_mul]; simp at this ⊢; omega
          have hij : i ≤ indexOf P pb e := by
            rw [← hi]; unfold indexOf; exact Nat.div_le_div_right (by omega)
          have : m * P = (indexOf P pb e + 1) * P - i * P := by
            rw [← hm, Nat.sub_mul]
          omega
        · simp only [hjl, if_false] at hm
          have hle := flatten_le P pb.pages (contig_le hc)
          have : (flat pb).length ≤ indexOf P pb e * P := by
            unfold flat
            exact Nat.le_trans hle (Nat.mul_le_mul_right P (by omega))
          have hij : i ≤ indexOf P pb e := by
            rw [← hi]; unfold indexOf; exact Nat.div_le_div_right (by omega)
          have : m * P = indexOf P pb e * P - i * P := by rw [← hm, Nat.sub_mul]
          omega
      omega
    by_cases hne : (refTo P pb b e).pages = []
    · -- no pages: nothing can be asked for
      have hfl : (flat (refTo P pb b e)).length = 0 := by unfold flat; rw [hne]; rfl
      have hn0 : n' = 0 := by omega
      have hrc : Contig P (refTo P pb b e).pages := by rw [hne]; trivial
      have : readAt P (refTo P pb b e) (off + b) n' = [] := by
        rw [hn0]; unfold readAt; exact readPages_zero P _ _
      rw [this]
      have hmin : min n (e - (off + b)) = 0 := by omega
      symm
      apply List.eq_nil_of_length_eq_zero
      rw [List.length_take, List.length_drop, List.length_take]; omega
    · have hrb := hbase hne
      have hrc : Contig P (refTo P pb b e).pages := by rw [hpages]; exact contig_take P m _ hX
      rw [readAt_eq P hP _ hrc (off + b) n' (by rw [hrb, hb0]; omega), hA, hrb, hb0]
      simp only [Nat.zero_add]
      -- both sides are the bytes [off+b, off+b+n') of the buffer
      rw [List.drop_take, List.take_take, List.drop_drop]
      have e1 : i * P + (off + b - i * P) = b + off := by omega
      rw [e1]
      have e2 : min n' ((flat (refTo P pb b e)).length - (off + b - i * P)) = n' := by omega
      rw [e2, List.drop_take, List.take_take, hn'eq]
      congr 1
      omega

end KV.Model.PageBuffer
