/-
Lemmas/RecordReader.lean — on every valid (Spec-encoded) record set the model of kafka-go's Client-path decoder
returns what the reference decoder returns; a batch with a wrong checksum ends decoding without surfacing it.
-/
import KafkaVerif.Model.RecordReader
import KafkaVerif.Lemmas.RecordBatchSpec

namespace KV.Model.RecordReader
open KV KV.RW KV.Spec.RB

/-- the masks in the Go sources are the Spec's (fails to check when a mask in protocol/record.go changes) -/
@[simp] theorem libCodecOf_eq (a : Int) : libCodecOf a = codecOf a := by
  simp only [libCodecOf, codecOf, Gen.RecordConsts.compressionMask]; rfl
@[simp] theorem libIsControl_eq (a : Int) : libIsControl a = isControl a := by
  simp only [libIsControl, isControl, Gen.RecordConsts.controlConst]; rfl
/-- the masks the Client-path decoders test are the timestamp-type bit of the Spec (breaks when the test disappears) -/
@[simp] theorem libLogAppendV2_eq (a : Int) : libLogAppendV2 a = logAppend a := by
  simp [libLogAppendV2, maskTest, Gen.RecordConsts.stampMasksV2, logAppend]
@[simp] theorem libLogAppendV1_eq (a : Int) : libLogAppendV1 a = logAppend a := by
  simp [libLogAppendV1, maskTest, Gen.RecordConsts.stampMasksV1, logAppend]

theorem map_stamp_recOfV2c (f : FrameV2) (xs : List RecV2) :
    (xs.map (recOfV2c f)).map (stamp (logAppend f.attributes) f.maxTs) = xs.map (recOfV2 f) := by
  simp [List.map_map, recOfV2, Function.comp_def]

theorem libVarBytes_varbytes (b : Option Bytes) (r : Bytes) : libVarBytes (varbytes b ++ r) = some (b, r) := by
  cases b with
  | none => simp [varbytes, libVarBytes, readVarint_varint]
  | some b =>
    simp only [varbytes, libVarBytes, List.append_assoc, readVarint_varint]
    have h2 : ¬ ((b.length : Int) < 0) := by omega
    simp [h2, takeN_append]

theorem libHeader_encHdr (h : Hdr) (r : Bytes) : libHeader (encHdr h ++ r) = some (h, r) := by
  simp only [encHdr, libHeader, List.append_assoc, readVarint_varint]
  have h2 : ¬ ((h.key.length : Int) < 0) := by omega
  simp [h2, takeN_append, libVarBytes_varbytes]

theorem libHeaders_encHdrs (hs : List Hdr) (r : Bytes) : libHeaders hs.length (encHdrs hs ++ r) = some (hs, r) := by
  induction hs with
  | nil => simp [libHeaders, encHdrs]
  | cons h hs ih => simp [libHeaders, encHdrs, List.append_assoc, libHeader_encHdr, ih]

theorem libRecord_encRec (base first : Int) (x : RecV2) (r : Bytes) :
    libRecord base first (encRec x ++ r) = some (⟨base + x.offDelta, first + x.tsDelta, x.key, x.value, x.headers⟩, r) := by
  simp only [encRec, recBody, libRecord, List.append_assoc, List.cons_append, readVarint_varint, libVarBytes_varbytes]
  cases hh : x.headers with
  | nil => simp [encHdrs]
  | cons h hs =>
    have hpos : ((h :: hs).length : Int) > 0 := by simp only [List.length_cons]; omega
    have := libHeaders_encHdrs (h :: hs) r
    simp only [hpos, if_true]
    simp only [List.length_cons] at this
    simp [this]

theorem libRecords_encRecs (f : FrameV2) (xs : List RecV2) :
    libRecords f.baseOffset f.firstTs xs.length (encRecs xs) = xs.map (recOfV2c f) := by
  induction xs with
  | nil => simp [libRecords]
  | cons x xs ih =>
    simp only [List.length_cons, libRecords, encRecs, libRecord_encRec, List.map_cons, ih]
    simp [recOfV2c]

theorem encRec_pos (r : RecV2) : 0 < (encRec r).length := by
  simp only [encRec, List.length_append, varint_length]
  have := uvarintLen_pos (zigzag ((recBody r).length : Int))
  simp only [varintLen]; omega

theorem encRecs_length_ge (xs : List RecV2) : xs.length ≤ (encRecs xs).length := by
  induction xs with
  | nil => simp
  | cons x xs ih =>
    have := encRec_pos x
    simp only [encRecs, List.length_cons, List.length_append]; omega

/-- a batch as a broker stores it: well-formed header, the payload (after decompression) is the encoding of `xs` -/
structure GoodBatch (dec : Int → Bytes → Option Bytes) (f : FrameV2) (xs : List RecV2) : Prop where
  wf : f.WF
  payload : (if codecOf f.attributes = 0 then some f.payload else dec (codecOf f.attributes) f.payload) = some (encRecs xs)
  count : f.count = (xs.length : Int)

theorem spec_flatten_batch (c : Crcs) (dec : Int → Bytes → Option Bytes) (f : FrameV2) (xs : List RecV2)
    (h : GoodBatch dec f xs) : flattenEntry c dec (.batch f) = some (isControl f.attributes, xs.map (recOfV2 f)) := by
  simp only [flattenEntry, h.payload, h.count, decodeRecs_encRecs]

theorem encFrame_eq (crc : Bytes → Nat) (f : FrameV2) : encFrame crc f =
    i64 f.baseOffset ++ (i32 ((9 + (frameBody f).length : Nat) : Int) ++ (i32 f.leaderEpoch ++ (i8 2 ++
      (u32 (crc (frameBody f)) ++ frameBody f)))) := rfl

/-- `readFromVersion2` on the bytes `baseOffset, length, epoch, 2, c', body` of a well-formed frame -/
theorem libReadV2_bytes (crc : Bytes → Nat) (dec : Int → Bytes → Option Bytes) (f : FrameV2) (xs : List RecV2)
    (h : GoodBatch dec f xs) (c' : Nat) (hc : c' < M32) (r : Bytes) :
    libReadV2 crc dec (i64 f.baseOffset ++ (i32 ((9 + (frameBody f).length : Nat) : Int) ++ (i32 f.leaderEpoch ++
      (i8 2 ++ (u32 c' ++ frameBody f)))) ++ r) =
      if crc (frameBody f) = c' then .ok (isControl f.attributes) (xs.map (recOfV2 f)) r else .err := by
  have hw := h.wf
  obtain ⟨h1, h2, _, _, _, _, _, _, _, _, h11⟩ := h.wf
  have hlen : InRange M32 ((9 + (frameBody f).length : Nat) : Int) := by
    rw [frameBody_length]; unfold InRange M32 at *; omega
  have hblk : (i32 f.leaderEpoch ++ (i8 2 ++ (u32 c' ++ frameBody f))).length
      = ((9 + (frameBody f).length : Nat) : Int).toNat := by
    simp; omega
  have htake := takeN_append (i32 f.leaderEpoch ++ (i8 2 ++ (u32 c' ++ frameBody f))) r
  rw [hblk] at htake
  have hm : InRange M8 2 := by unfold InRange M8; omega
  have hnot : ¬ (((9 + (frameBody f).length : Nat) : Int) >
      ((i32 f.leaderEpoch ++ (i8 2 ++ (u32 c' ++ (frameBody f ++ r)))).length : Int)) := by
    simp; omega
  simp only [libReadV2, List.append_assoc, readI64_i64 _ _ h1, readI32_i32 _ _ hlen]
  simp only [hnot, if_false]
  simp only [List.append_assoc] at htake
  rw [htake]
  simp only [readI32_i32 _ _ h2, readI8_i8 _ _ hm, readU32_u32 _ _ hc, readFrameBody_frameBody f hw, libCodecOf_eq,
    libIsControl_eq, h.payload]
  have hcnt : ¬ f.count < 0 := by rw [h.count]; omega
  by_cases hcrc : crc (frameBody f) = c'
  · have hx : ¬ ((xs.length : Int) < 0 ∨ (xs.length : Int) > ((encRecs xs).length : Int)) := by
      have := encRecs_length_ge xs; omega
    simp only [hcrc, ne_eq, not_true_eq_false, if_false, h.count, hx, Int.toNat_natCast, libRecords_encRecs,
      libLogAppendV2_eq, map_stamp_recOfV2c, if_true]
  · simp [hcrc]

theorem libReadV2_encFrame (crc : Bytes → Nat) (hcrc : ∀ b, crc b < M32) (dec : Int → Bytes → Option Bytes)
    (f : FrameV2) (xs : List RecV2) (h : GoodBatch dec f xs) (r : Bytes) :
    libReadV2 crc dec (encFrame crc f ++ r) = .ok (isControl f.attributes) (xs.map (recOfV2 f)) r := by
  rw [encFrame_eq, libReadV2_bytes crc dec f xs h _ (hcrc _) r]; simp

theorem libReadMsg_encMsg (crc : Bytes → Nat) (hcrc : ∀ b, crc b < M32) (m : Msg) (h : m.WF) (r : Bytes) :
    libReadMsg crc (encMsg crc m ++ r) = some (m.attributes, m, r) := by
  have hw := h
  have hbl := msgBody_length m h
  obtain ⟨h1, _, _, _, _, hl⟩ := h
  have hb : (msgBody m).length ≤ 18 + optLen m.key + optLen m.value := by
    rw [hbl]; split <;> split <;> split <;> omega
  have hlen : InRange M32 ((4 + (msgBody m).length : Nat) : Int) := by
    unfold InRange M32 at *; omega
  have h4 : ¬ (((4 + (msgBody m).length : Nat) : Int) < 0) := by omega
  have hblk : (u32 (crc (msgBody m)) ++ msgBody m).length = ((4 + (msgBody m).length : Nat) : Int).toNat := by
    simp; omega
  have htake := takeN_append (u32 (crc (msgBody m)) ++ msgBody m) r
  rw [hblk] at htake
  simp only [encMsg, libReadMsg, List.append_assoc, readI64_i64 _ _ h1, readI32_i32 _ _ hlen]
  simp only [h4, if_false]
  simp only [List.append_assoc] at htake
  rw [htake]
  simp [readU32_u32 _ _ (hcrc _), readMsgBody_msgBody m hw]

theorem lastOff_eq (ms : List Msg) : lastOff ms = lastOffset ms := by
  induction ms with
  | nil => rfl
  | cons m ms ih =>
    cases ms with
    | nil => rfl
    | cons m' ms' => simp only [lastOff, lastOffset] at ih ⊢; exact ih

theorem encSet_msgs_cons (c : Crcs) (m : Msg) (ms : List Msg) :
    encSet c ((m :: ms).map Entry.msg) = encMsg c.ieee m ++ encSet c (ms.map Entry.msg) := rfl

theorem libInner_encSet (c : Crcs) (h1 : ∀ b, c.ieee b < M32) (inner : List Msg) (hwf : ∀ x ∈ inner, x.WF)
    (fuel : Nat) (hf : inner.length ≤ fuel) : libInner c.ieee fuel (encSet c (inner.map Entry.msg)) = some inner := by
  induction inner generalizing fuel with
  | nil => cases fuel <;> simp [libInner, encSet]
  | cons m ms ih =>
    cases fuel with
    | zero => simp at hf
    | succ fuel =>
      rw [encSet_msgs_cons]
      have hw := hwf m (by simp)
      cases hbs : encMsg c.ieee m ++ encSet c (ms.map Entry.msg) with
      | nil =>
        have := congrArg List.length hbs
        simp [encMsg] at this
      | cons x xs =>
        simp only [libInner]
        rw [← hbs, libReadMsg_encMsg c.ieee h1 m hw]
        simp only
        rw [ih (fun x hx => hwf x (by simp [hx])) fuel (by simp only [List.length_cons] at hf; omega)]

/-- a v1 wrapper as a broker stores it: the (decompressed) value is the message set of the inner messages, which
carry relative offsets; the wrapper carries the absolute offset of the last one -/
structure GoodWrapper (c : Crcs) (dec : Int → Bytes → Option Bytes) (m : Msg) (inner : List Msg) : Prop where
  wf : m.WF
  magic : m.magic = 1
  codec : codecOf m.attributes ≠ 0
  value : ∃ v, m.value = some v ∧ dec (codecOf m.attributes) v = some (encSet c (inner.map Entry.msg))
  innerWF : ∀ x ∈ inner, x.WF ∧ codecOf x.attributes = 0
  nonempty : inner ≠ []
  base : m.offset = 0 → lastOffset inner = 0

/-- the records of a wrapper: inner relative offsets made absolute -/
def wrapperRecs (m : Msg) (inner : List Msg) : List Rec :=
  inner.map fun x => stamp (logAppend m.attributes) m.ts { recOfMsg x with offset := (m.offset - lastOffset inner) + x.offset }

theorem filterMap_msgs (f : Entry → Option Msg) (hf : ∀ x, f (.msg x) = some x) (ms : List Msg) :
    (ms.map Entry.msg).filterMap f = ms := by
  induction ms with
  | nil => rfl
  | cons m ms ih => simp [List.filterMap_cons, hf, ih]

theorem spec_flatten_wrapper (c : Crcs) (h1 : ∀ b, c.ieee b < M32) (h2 : ∀ b, c.castagnoli b < M32)
    (dec : Int → Bytes → Option Bytes) (m : Msg) (inner : List Msg) (h : GoodWrapper c dec m inner) :
    flattenEntry c dec (.msg m) = some (false, wrapperRecs m inner) := by
  obtain ⟨v, hv, hd⟩ := h.value
  have hrs : readSet c (encSet c (inner.map Entry.msg)).length (encSet c (inner.map Entry.msg)) = some (inner.map Entry.msg) :=
    decodeSet_encSet c h1 h2 _ (fun e he => by
      simp only [List.mem_map] at he
      obtain ⟨x, hx, rfl⟩ := he
      exact (h.innerWF x hx).1)
  have hany : (inner.any fun x => decide (codecOf x.attributes ≠ 0)) = false := by
    rw [List.any_eq_false]
    intro x hx
    simp [(h.innerWF x hx).2]
  have hm0 : ¬ m.magic = 0 := by rw [h.magic]; decide
  simp only [flattenEntry, h.codec, if_false, hv, hd, hrs]
  rw [filterMap_msgs _ (fun x => rfl) inner]
  simp only [List.length_map, ne_eq, not_true_eq_false, if_false, hm0, wrapperRecs]
  have hany' : (inner.any fun x => decide ¬codecOf x.attributes = 0) = false := by simpa using hany
  simp only [hany', Bool.false_eq_true, if_false]

theorem libReadV1_wrapper (c : Crcs) (h1 : ∀ b, c.ieee b < M32) (dec : Int → Bytes → Option Bytes) (m : Msg)
    (inner : List Msg) (h : GoodWrapper c dec m inner) (r : Bytes) :
    libReadV1 c.ieee dec (encMsg c.ieee m ++ r) = .ok false (wrapperRecs m inner) r := by
  obtain ⟨v, hv, hd⟩ := h.value
  have hin := libInner_encSet c h1 inner (fun x hx => (h.innerWF x hx).1) (encSet c (inner.map Entry.msg)).length
    (by have := encSet_length_ge c (inner.map Entry.msg); simpa using this)
  simp only [libReadV1, libReadMsg_encMsg c.ieee h1 m h.wf r, libCodecOf_eq, h.codec, if_false, hv, hd, hin]
  have hon : (decide (m.magic = 1) && logAppend m.attributes) = logAppend m.attributes := by simp [h.magic]
  simp only [libLogAppendV1_eq, hon]
  by_cases h0 : m.offset = 0
  · have hl := h.base h0
    simp only [h0, ne_eq, not_true_eq_false, false_and, if_false, wrapperRecs, hl]
    congr 1
    apply List.map_congr_left
    intro x _
    simp [recOfMsg]
  · simp only [ne_eq, h0, not_false_eq_true, h.nonempty, and_self, if_true, wrapperRecs, lastOff_eq]
    congr 1
    apply List.map_congr_left
    intro x _
    congr 1
    simp only [recOfMsg, Rec.mk.injEq, and_true]
    omega

/-- entries of a valid response and the logical records they stand for -/
inductive GoodEntry (c : Crcs) (dec : Int → Bytes → Option Bytes) : Entry → Bool × List Rec → Prop where
  | batch (f : FrameV2) (xs : List RecV2) : GoodBatch dec f xs →
      GoodEntry c dec (.batch f) (isControl f.attributes, xs.map (recOfV2 f))
  | msg (m : Msg) : m.WF → codecOf m.attributes = 0 → GoodEntry c dec (.msg m) (false, [recOfMsg m])
  | wrapper (m : Msg) (inner : List Msg) : GoodWrapper c dec m inner →
      GoodEntry c dec (.msg m) (false, wrapperRecs m inner)

/-- a valid response: entries paired with the logical records they stand for -/
inductive AllGood (c : Crcs) (dec : Int → Bytes → Option Bytes) : List Entry → List (Bool × List Rec) → Prop where
  | nil : AllGood c dec [] []
  | cons {e : Entry} {g : Bool × List Rec} {es : List Entry} {gs : List (Bool × List Rec)} :
      GoodEntry c dec e g → AllGood c dec es gs → AllGood c dec (e :: es) (g :: gs)

theorem GoodEntry.wf {c : Crcs} {dec : Int → Bytes → Option Bytes} {e : Entry} {g : Bool × List Rec} (h : GoodEntry c dec e g) :
    match e with | .msg m => m.WF | .batch f => f.WF := by
  cases h with
  | batch f xs hb => exact hb.wf
  | msg m hw _ => exact hw
  | wrapper m inner hw => exact hw.wf

theorem spec_flatten_entry (c : Crcs) (h1 : ∀ b, c.ieee b < M32) (h2 : ∀ b, c.castagnoli b < M32)
    (dec : Int → Bytes → Option Bytes) (e : Entry) (g : Bool × List Rec)
    (h : GoodEntry c dec e g) : flattenEntry c dec e = some g := by
  cases h with
  | batch f xs hb => exact spec_flatten_batch c dec f xs hb
  | msg m hw hc => simp [flattenEntry, hc]
  | wrapper m inner hw => exact spec_flatten_wrapper c h1 h2 dec m inner hw

theorem encEntry_length_ge17 (c : Crcs) (e : Entry) : 17 ≤ (encEntry c e).length := by
  cases e with
  | msg m =>
    simp only [encEntry, encMsg, msgBody, List.length_append, i64_length, i32_length, u32_length, i8_length]; omega
  | batch f => simp [encEntry, encFrame, frameBody]; omega

theorem libStep_entry (c : Crcs) (h1 : ∀ b, c.ieee b < M32) (h2 : ∀ b, c.castagnoli b < M32)
    (dec : Int → Bytes → Option Bytes) (e : Entry) (g : Bool × List Rec) (hg : GoodEntry c dec e g) (rest : Bytes)
    (fuel : Nat) :
    libReadSet c dec (fuel + 1) (encEntry c e ++ rest) = g :: libReadSet c dec fuel rest := by
  have hlen := encEntry_length_ge17 c e
  have hl : ¬ (encEntry c e ++ rest).length < 17 := by simp; omega
  cases hbs : encEntry c e ++ rest with
  | nil => have := congrArg List.length hbs; rw [List.length_append, List.length_nil] at this; omega
  | cons x xs =>
    rw [← hbs]
    have hdef : libReadSet c dec (fuel + 1) (x :: xs) =
        (if (x :: xs).length < 17 then [] else match (x :: xs)[16]? with
          | none => []
          | some magic =>
            match (if magic = 2 then libReadV2 c.castagnoli dec (x :: xs)
                   else if magic = 0 ∨ magic = 1 then libReadV1 c.ieee dec (x :: xs) else .err) with
            | .ok ctl recs rest => (ctl, recs) :: libReadSet c dec fuel rest
            | .skip => []
            | .err => []) := rfl
    rw [hbs, hdef, ← hbs]
    simp only [hl, if_false]
    cases hg with
    | batch f xs' hb =>
      have hm := magicOf_encFrame c.castagnoli f rest
      simp only [magicOf] at hm
      simp only [encEntry, hm, if_true, libReadV2_encFrame c.castagnoli h2 dec f xs' hb rest]
    | msg m hw hc =>
      obtain ⟨b, hb, hne⟩ := magicOf_encMsg c.ieee m rest hw.2.1
      simp only [magicOf] at hb
      have hb01 : b = 0 ∨ b = 1 := by
        have := hb
        simp only [encMsg, msgBody, List.append_assoc] at this
        rw [getElem?_skip _ _ _ (by simp), getElem?_skip _ _ _ (by simp), getElem?_skip _ _ _ (by simp)] at this
        rcases hw.2.1 with h0 | h1'
        · simp [i8_eq, h0] at this; rw [← this]; decide
        · simp [i8_eq, h1'] at this; rw [← this]; decide
      simp only [encEntry, hb, hne, if_false, hb01, if_true, libReadV1, libReadMsg_encMsg c.ieee h1 m hw rest, libCodecOf_eq, hc]
    | wrapper m inner hw =>
      obtain ⟨b, hb, hne⟩ := magicOf_encMsg c.ieee m rest hw.wf.2.1
      simp only [magicOf] at hb
      have hb01 : b = 0 ∨ b = 1 := by
        have := hb
        simp only [encMsg, msgBody, List.append_assoc] at this
        rw [getElem?_skip _ _ _ (by simp), getElem?_skip _ _ _ (by simp), getElem?_skip _ _ _ (by simp)] at this
        simp [i8_eq, hw.magic] at this; rw [← this]; decide
      simp only [encEntry, hb, hne, if_false, hb01, if_true, libReadV1_wrapper c h1 dec m inner hw rest]

theorem libReadSet_encSet (c : Crcs) (h1 : ∀ b, c.ieee b < M32) (h2 : ∀ b, c.castagnoli b < M32)
    (dec : Int → Bytes → Option Bytes) (es : List Entry) (gs : List (Bool × List Rec))
    (h : AllGood c dec es gs) (tail : Bytes) (fuel : Nat) (hf : es.length ≤ fuel) :
    libReadSet c dec fuel (encSet c es ++ tail) = gs ++ libReadSet c dec (fuel - es.length) tail := by
  induction h generalizing fuel with
  | nil => simp [encSet]
  | cons hg _ ih =>
    cases fuel with
    | zero => simp at hf
    | succ fuel =>
      simp only [encSet, List.append_assoc]
      rw [libStep_entry c h1 h2 dec _ _ hg]
      rw [ih fuel (by simp only [List.length_cons] at hf; omega)]
      simp

theorem flattenAll_good (c : Crcs) (h1 : ∀ b, c.ieee b < M32) (h2 : ∀ b, c.castagnoli b < M32)
    (dec : Int → Bytes → Option Bytes) (es : List Entry) (gs : List (Bool × List Rec))
    (h : AllGood c dec es gs) : flattenAll c dec es = some gs := by
  induction h with
  | nil => rfl
  | cons hg _ ih => simp [flattenAll, spec_flatten_entry c h1 h2 dec _ _ hg, ih]

end KV.Model.RecordReader
