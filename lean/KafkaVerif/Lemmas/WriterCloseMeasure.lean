/-
C09 over the detailed Writer LTS: a termination measure for Close.

`closeMu` = 1 while Close holds the writer mutex + the number of calls between `enter()` and their identification
          + Σ over the listed partition writers of `pwM` (the sender's remaining steps, the queued / pending / open
            batches, 1 while the queue is open, 1 while the goroutine has not exited)
          + Σ over the calls of `callM` (steps a call still has to take: balancing, ErrClosedPipe, return).
`closing_decreases`: every *closing* event — a step of Close after its begin, of a partition writer's goroutine, of
the broker, of a call already inside WriteMessages — strictly lowers `closeMu` in every reachable state.
`closingRun_bounded`: hence every schedule of closing events is finite (≤ `closeMu` steps).
`close_terminates_detail`: with `close_progress_closing` (Lemmas/WriterCloseProgress): from a reachable closed state
every maximal run of closing events ends where `closeReturn` is enabled.  A call that passed `enter()` before Close and
identifies itself during the run (`begin_`) brings its own work: `evCost` / `runCost` add it to the bound; there are at
most `entered` such calls (the term `entered` of `closeMu`).

Outside the closing set, and why: `enter` (a caller arriving; refused once closed), `closeBegin` / `closeReturn` (another
Close call / the observation itself), timers (Close needs none; each fires at most once per batch), `qclose` of a queue
that is closed already (the code closes each once), and `batch` / `newPW` / `newBatch` / `add` / `batched`, which need an
open writer or a call holding the mutex and are disabled once `closed` (DI.lockClosed).
-/
import KafkaVerif.Lemmas.WriterCloseProgress
namespace KV.WriterCloseDetail
open KV.Writer

/-! ## a termination measure for Close on the detailed model -/

theorem sum_map_congr (l : List Nat) (f g : Nat → Nat) (h : ∀ x ∈ l, g x = f x) : (l.map g).sum = (l.map f).sum := by
  induction l with
  | nil => rfl
  | cons a t ih =>
    simp only [List.map_cons, List.sum_cons]
    rw [h a (by simp), ih (fun x hx => h x (by simp [hx]))]

theorem sum_map_upd_lt (l : List Nat) (hnd : l.Nodup) (f g : Nat → Nat) (c : Nat) (hc : c ∈ l)
    (hfg : ∀ x, x ≠ c → g x = f x) (hlt : g c < f c) : (l.map g).sum < (l.map f).sum := by
  induction l with
  | nil => cases hc
  | cons a t ih =>
    rw [List.nodup_cons] at hnd
    simp only [List.map_cons, List.sum_cons]
    by_cases hac : a = c
    · subst hac
      have : (t.map g).sum = (t.map f).sum := sum_map_congr t f g (fun x hx => hfg x (by intro he; subst he; exact hnd.1 hx))
      omega
    · have hct : c ∈ t := by
        rcases List.mem_cons.mp hc with h | h
        · exact absurd h.symm hac
        · exact h
      have := ih hnd.2 hct
      rw [hfg a hac]; omega

def lockM : Lock → Nat
  | .closer => 1
  | _ => 0

/-- work left in a partition writer, its queue's closing and its goroutine's exit included (no timers: Close does not
need them) -/
def pwM (cfg : Cfg) (P : PW) : Nat :=
  senderCost cfg P.sender + P.queue.length * (batchCost cfg + 1) +
  (if P.pending.isSome then batchCost cfg + 2 else 0) + (if P.curr.isSome then batchCost cfg + 3 else 0) +
  (if P.qclosed then 0 else 1) + (if P.sender = .exited then 0 else 1)

def pwMs (cfg : Cfg) (s : State) (pw : Nat) : Nat :=
  match s.pws pw with
  | some P => pwM cfg P
  | none => 0

/-- steps a call still has to take -/
def callM (C : Call) : Nat :=
  match C.phase with
  | .returned => 0
  | .rejectedClosed => 1
  | .batched => 1
  | .batching => 2
  | .assigning => (C.msgs.length - C.assign.length) + 3
  | .begun => C.msgs.length + 4

def callMs (s : State) (c : Nat) : Nat :=
  match s.calls c with
  | some C => callM C
  | none => 0

def closeMu (cfg : Cfg) (s : State) : Nat :=
  lockM s.wlock + s.entered + (s.pwIds.map (pwMs cfg s)).sum + (s.callIds.map (callMs s)).sum

/-- what an event may add to the measure: a call that identifies itself brings its own work -/
def evCost : Event → Nat
  | .begin_ _ msgs => msgs.length + 4
  | _ => 0

/-- the listed partition writers are distinct -/
def NI (s : State) : Prop := s.pwIds.Nodup

theorem ni_init : NI State.init := by simp [NI, State.init]

theorem ni_step (cfg : Cfg) (s s' : State) (e : Event) (hp : PI s) (hd : DI s) (h : NI s) (hs : step cfg s e = some s') : NI s' := by
  rcases step_pws_shape cfg s s' e hs with ⟨-, e2⟩ | ⟨pw0, P, P', hP, e1, e2, -⟩ | ⟨pw0, q, tp, -, -, hn, e1, e2⟩
  · unfold NI; rw [e2]; exact h
  · unfold NI; rw [e2]; exact h
  · unfold NI; rw [e2, List.nodup_append]
    refine ⟨h, by simp, ?_⟩
    intro a ha b hb
    simp at hb; subst hb
    intro he; subst he
    have := hp a ha
    rw [hn] at this; cases this

theorem ni_reachable (cfg : Cfg) : ∀ s, Reachable cfg s → NI s := by
  have : ∀ s, Reachable cfg s → (PI s ∧ DI s) ∧ NI s :=
    invariant_of_step cfg (fun s => (PI s ∧ DI s) ∧ NI s) ⟨⟨pi_init, di_init⟩, ni_init⟩
      (fun s e s' h hs => ⟨⟨pi_step cfg s s' e h.1.1 hs, di_step cfg s s' e h.1.2 hs⟩, ni_step cfg s s' e h.1.1 h.1.2 h.2 hs⟩)
  exact fun s hr => (this s hr).2

/-- one partition writer changes and its measure drops; the lock, the id lists and the calls stay -/
theorem mu_pw (cfg : Cfg) (s s' : State) (hd : DI s) (hn : NI s) (pw0 : Nat) (P P' : PW) (hP : s.pws pw0 = some P)
    (e1 : s'.pws = upd s.pws pw0 (some P')) (e2 : s'.pwIds = s.pwIds) (e3 : s'.wlock = s.wlock)
    (e4 : s'.calls = s.calls) (e5 : s'.callIds = s.callIds) (e6 : s'.entered = s.entered)
    (hlt : pwM cfg P' < pwM cfg P) :
    closeMu cfg s' < closeMu cfg s := by
  unfold closeMu
  rw [e2, e3, e5, e6]
  have hc : (s.callIds.map (callMs s')).sum = (s.callIds.map (callMs s)).sum :=
    sum_map_congr _ _ _ (fun x _ => by simp [callMs, e4])
  have hp : (s.pwIds.map (pwMs cfg s')).sum < (s.pwIds.map (pwMs cfg s)).sum := by
    apply sum_map_upd_lt s.pwIds hn (pwMs cfg s) (pwMs cfg s') pw0 (hd.ids pw0 P hP)
    · intro x hx; simp [pwMs, e1, upd_other _ _ _ _ hx]
    · simp [pwMs, e1, hP]; exact hlt
  omega

/-- one call record changes and its measure drops -/
theorem mu_call (cfg : Cfg) (s s' : State) (hc : CI s) (c : Nat) (C C' : Call) (hC : s.calls c = some C)
    (e1 : s'.calls = upd s.calls c (some C')) (e2 : s'.callIds = s.callIds) (e3 : s'.wlock = s.wlock)
    (e4 : s'.pws = s.pws) (e5 : s'.pwIds = s.pwIds) (e6 : s'.entered = s.entered) (hlt : callM C' < callM C) :
    closeMu cfg s' < closeMu cfg s := by
  unfold closeMu
  rw [e2, e3, e5, e6]
  have hp : (s.pwIds.map (pwMs cfg s')).sum = (s.pwIds.map (pwMs cfg s)).sum :=
    sum_map_congr _ _ _ (fun x _ => by simp [pwMs, e4])
  have hcc : (s.callIds.map (callMs s')).sum < (s.callIds.map (callMs s)).sum := by
    apply sum_map_upd_lt s.callIds hc.nodup (callMs s) (callMs s') c ((hc.ids c).mpr (by simp [hC]))
    · intro x hx; simp [callMs, e1, upd_other _ _ _ _ hx]
    · simp [callMs, e1, hC]; exact hlt
  omega


theorem senderCost_afterAttempt (cfg : Cfg) (b k : Nat) (code : Code) (br : Option BrOut) (hk : k < cfg.maxAttempts) :
    senderCost cfg (afterAttempt cfg b k code) < senderCost cfg (.attempting b k br) := by
  have h3 : 3 ≤ 3 * (cfg.maxAttempts - k) := by omega
  unfold afterAttempt
  split
  · cases br <;> simp [senderCost] <;> omega
  · split
    · rename_i hh
      cases br <;> simp [senderCost] <;> omega
    · cases br <;> simp [senderCost] <;> omega

theorem afterAttempt_ne_exited (cfg : Cfg) (b k : Nat) (code : Code) : afterAttempt cfg b k code ≠ .exited := by
  intro h
  have := afterAttempt_batch cfg b k code
  rw [h] at this; cases this

theorem closing_decreases (cfg : Cfg) (hmax : 1 ≤ cfg.maxAttempts) (s s' : State) (hr : Reachable cfg s) (e : Event)
    (hcl : closing s e = true) (hs : step cfg s e = some s') : closeMu cfg s' < closeMu cfg s + evCost e := by
  have hd := di_reachable cfg s hr
  have hn := ni_reachable cfg s hr
  have hc := ci_reachable cfg s hr
  have hG := invProg cfg hmax s hr
  cases e <;> simp only [closing] at hcl <;> (try (exact absurd hcl (by decide))) <;>
    simp only [evCost, Nat.add_zero] <;>
    simp only [step, stepReject, stepDetach, stepProduce, produced, stepRet] at hs
  case empty =>
    split at hs
    · rename_i hg
      injection hs with hs
      have e1 : s'.pws = s.pws := by rw [← hs]
      have e2 : s'.pwIds = s.pwIds := by rw [← hs]
      have e3 : s'.wlock = s.wlock := by rw [← hs]
      have e4 : s'.entered = s.entered - 1 := by rw [← hs]
      have e5 : s'.callIds = s.callIds := by rw [← hs]
      have e6 : s'.calls = s.calls := by rw [← hs]
      unfold closeMu
      rw [e2, e3, e4, e5]
      have h1 : (s.pwIds.map (pwMs cfg s')).sum = (s.pwIds.map (pwMs cfg s)).sum :=
        sum_map_congr _ _ _ (fun x _ => by simp [pwMs, e1])
      have h2 : (s.callIds.map (callMs s')).sum = (s.callIds.map (callMs s)).sum :=
        sum_map_congr _ _ _ (fun x _ => by simp [callMs, e6])
      rw [h1, h2]; omega
    · simp at hs
  case begin_ c msgs =>
    split at hs
    · rename_i hg
      injection hs with hs
      have hnone : s.calls c = none := by simpa using hg.2.1
      have hnin : c ∉ s.callIds := by
        intro hcin; have := (hc.ids c).mp hcin; rw [hnone] at this; cases this
      have e1 : s'.pws = s.pws := by rw [← hs]
      have e2 : s'.pwIds = s.pwIds := by rw [← hs]
      have e3 : s'.wlock = s.wlock := by rw [← hs]
      have e4 : s'.entered = s.entered - 1 := by rw [← hs]
      have e5 : s'.callIds = s.callIds ++ [c] := by rw [← hs]
      have e6 : ∀ x, x ≠ c → s'.calls x = s.calls x := by
        intro x hx; rw [← hs]; simp [upd_other _ _ _ _ hx]
      have e7 : callMs s' c = msgs.length + 4 := by rw [← hs]; simp [callMs, callM]
      unfold closeMu
      rw [e2, e3, e4, e5]
      simp only [List.map_append, List.sum_append, List.map_cons, List.map_nil, List.sum_cons, List.sum_nil]
      have h1 : (s.pwIds.map (pwMs cfg s')).sum = (s.pwIds.map (pwMs cfg s)).sum :=
        sum_map_congr _ _ _ (fun x _ => by simp [pwMs, e1])
      have h2 : (s.callIds.map (callMs s')).sum = (s.callIds.map (callMs s)).sum :=
        sum_map_congr _ _ _ (fun x hx => by
          have : x ≠ c := by intro he; subst he; exact hnin hx
          simp [callMs, e6 x this])
      rw [h1, h2, e7]; omega
    · simp at hs
  case closeMarked n =>
    split at hs
    · rename_i hg
      injection hs with hs; subst hs
      unfold closeMu
      have h1 : (s.pwIds.map (pwMs cfg { s with wlock := .free })).sum = (s.pwIds.map (pwMs cfg s)).sum :=
        sum_map_congr _ _ _ (fun x _ => rfl)
      have h2 : (s.callIds.map (callMs { s with wlock := .free })).sum = (s.callIds.map (callMs s)).sum :=
        sum_map_congr _ _ _ (fun x _ => rfl)
      simp only [h1, h2, hg.1, lockM]; omega
    · simp at hs
  case detach pw b why size =>
    split at hs
    · simp at hs
    · rename_i P hP
      split at hs
      · simp at hs
      · split at hs
        · rename_i hg
          injection hs with hs; subst hs
          refine mu_pw cfg s _ hd hn pw P _ hP rfl rfl rfl rfl rfl rfl ?_
          simp [pwM, hg.1, hg.2.1]
        · simp at hs
  case qput q b acc =>
    split at hs
    · simp at hs
    · rename_i pw hq0
      split at hs
      · simp at hs
      · rename_i P hP
        split at hs
        · rename_i hg
          injection hs with hs; subst hs
          refine mu_pw cfg s _ hd hn pw P _ hP rfl rfl rfl rfl rfl rfl ?_
          cases acc
          · simp [pwM, enq, hg.1]
          · simp [pwM, enq, hg.1, Nat.add_mul]; omega
        · simp at hs
  case qget q ob =>
    split at hs
    · simp at hs
    · rename_i pw hq0
      split at hs
      · simp at hs
      · rename_i P hP
        split at hs
        · rename_i b
          split at hs
          · rename_i hg
            injection hs with hs; subst hs
            refine mu_pw cfg s _ hd hn pw P _ hP rfl rfl rfl rfl rfl rfl ?_
            cases hq : P.queue with
            | nil => rw [hq] at hg; simp at hg
            | cons a t =>
              simp [pwM, hg.1, hq, senderCost, batchCost, Nat.add_mul]; omega
          · simp at hs
        · split at hs
          · rename_i hg
            injection hs with hs; subst hs
            refine mu_pw cfg s _ hd hn pw P _ hP rfl rfl rfl rfl rfl rfl ?_
            simp [pwM, hg.1, senderCost]
          · simp at hs
  case qclose q =>
    split at hs
    · simp at hs
    · rename_i pw hq0
      split at hs
      · simp at hs
      · rename_i P hP
        split at hs
        · rename_i hg
          injection hs with hs; subst hs
          have hq : P.qclosed = false := by simpa [hq0, hP] using hcl
          refine mu_pw cfg s _ hd hn pw P _ hP rfl rfl rfl rfl rfl rfl ?_
          simp [pwM, hq]
        · simp at hs
  case attempt pw b k =>
    split at hs
    · simp at hs
    · rename_i P hP
      split at hs
      · rename_i hg
        injection hs with hs; subst hs
        refine mu_pw cfg s _ hd hn pw P _ hP rfl rfl rfl rfl rfl rfl ?_
        simp [pwM, hg.1, senderCost]
      · simp at hs
  case produce pw tp msgs out =>
    split at hs
    · rename_i P hP
      split at hs
      · rename_i b k hsd
        split at hs
        · rename_i B hB
          split at hs
          · injection hs with hs; subst hs
            refine mu_pw cfg s _ hd hn pw P _ hP rfl rfl rfl rfl rfl rfl ?_
            simp [pwM, hsd, senderCost]
          · simp at hs
        · simp at hs
      · simp at hs
    · simp at hs
  case attemptDone pw b k code =>
    split at hs
    · simp at hs
    · rename_i P hP
      split at hs
      · rename_i b' k' br hsd
        split at hs
        · rename_i hg
          injection hs with hs; subst hs
          refine mu_pw cfg s _ hd hn pw P _ hP rfl rfl rfl rfl rfl rfl ?_
          have hk := (hG.pw pw P hP).attBound b' k' br hsd
          have h1 := senderCost_afterAttempt cfg b k code br (by rw [← hg.2.1]; exact hk)
          have h2 := afterAttempt_ne_exited cfg b k code
          simp only [pwM, hsd, h2, if_false]
          rw [hg.1, hg.2.1] at *
          simp; omega
        · simp at hs
      · simp at hs
  case completion pw b code =>
    split at hs
    · simp at hs
    · rename_i P hP
      split at hs
      · simp at hs
      · split at hs
        · rename_i hg
          injection hs with hs; subst hs
          refine mu_pw cfg s _ hd hn pw P _ hP rfl rfl rfl rfl rfl rfl ?_
          simp [pwM, hg.2, senderCost]
        · simp at hs
  case complete pw b code =>
    split at hs
    · simp at hs
    · rename_i P hP
      split at hs
      · simp at hs
      · split at hs
        · rename_i hg
          injection hs with hs; subst hs
          refine mu_pw cfg s _ hd hn pw P _ hP rfl rfl rfl rfl rfl rfl ?_
          cases hcm : cfg.completion <;> simp [pwM, hg, hcm, senderCost]
        · simp at hs
  case assign c i tp =>
    split at hs
    · simp at hs
    · rename_i C hC
      split at hs
      · rename_i hg
        injection hs with hs; subst hs
        refine mu_call cfg s _ hc c C _ hC rfl rfl rfl rfl rfl rfl ?_
        obtain ⟨m, hm, -⟩ := msgAt_elim hg.2.2.2
        have hi : i < C.msgs.length := by
          rcases Nat.lt_or_ge i C.msgs.length with h1 | h1
          · exact h1
          · rw [List.getElem?_eq_none h1] at hm; cases hm
        rcases hg.1 with hp | hp
        · simp [callM, hp]; omega
        · simp [callM, hp]; omega
      · simp at hs
  case reject c why i =>
    split at hs
    · simp at hs
    · rename_i C hC
      split at hs <;> split at hs <;> first | (simp at hs; done) | skip
      all_goals (rename_i hg; injection hs with hs; subst hs)
      all_goals refine mu_call cfg s _ hc c C _ hC rfl rfl rfl rfl rfl rfl ?_
      · simp [callM, hg.1]
      · rcases hg.1 with hp | hp <;> simp [callM, hp]
      · rcases hg.1 with hp | hp <;> simp [callM, hp]
      · simp [callM, hg.2.2.1]
  case ret c r =>
    split at hs
    · simp at hs
    · rename_i C hC
      split at hs <;> first | (simp at hs; done) | (split at hs <;> first | (simp at hs; done) | skip)
      all_goals (rename_i hg; injection hs with hs; subst hs)
      all_goals refine mu_call cfg s _ hc c C _ hC rfl rfl rfl rfl rfl rfl ?_
      · simp [callM, hg]
      · simp [callM, hg.2]
      · simp [callM, hg.2]
      · simp [callM, hg.2.1]
      · simp [callM, hg.2.1]


/-- closing events do not change the closed flag -/
theorem closing_keeps (cfg : Cfg) (s s' : State) (e : Event) (hcl : closing s e = true) (hs : step cfg s e = some s') :
    s'.closed = s.closed := by
  cases e <;> simp only [closing] at hcl <;> (try (exact absurd hcl (by decide))) <;>
    simp only [step, stepReject, stepDetach, stepProduce, produced, stepRet] at hs
  all_goals
    ((repeat' split at hs) <;>
      first
      | (simp at hs; done)
      | (injection hs with hs; subst hs; rfl))

/-- a run made of closing events only -/
def closingRun (cfg : Cfg) : State → List Event → Option State
  | s, [] => some s
  | s, e :: es =>
    if closing s e then
      match step cfg s e with
      | some s' => closingRun cfg s' es
      | none => none
    else none

/-- what the calls that identify themselves during the run bring along -/
def runCost (es : List Event) : Nat := (es.map evCost).sum

/-- **every schedule of closing events is finite**: a run of closing events from a reachable state has at most
`closeMu` steps, plus the work of the calls that identified themselves during it (at most `entered` of them) -/
theorem closingRun_bounded (cfg : Cfg) (hmax : 1 ≤ cfg.maxAttempts) : ∀ (es : List Event) (s s' : State),
    Reachable cfg s → closingRun cfg s es = some s' →
    es.length + closeMu cfg s' ≤ closeMu cfg s + runCost es ∧ Reachable cfg s' ∧ s'.closed = s.closed := by
  intro es
  induction es with
  | nil =>
    intro s s' hr h
    simp only [closingRun, Option.some.injEq] at h
    subst h
    exact ⟨by simp [runCost], hr, rfl⟩
  | cons e es ih =>
    intro s s' hr h
    simp only [closingRun] at h
    split at h
    · rename_i hcl
      cases hs : step cfg s e with
      | none => simp [hs] at h
      | some s1 =>
        simp only [hs] at h
        have hdec := closing_decreases cfg hmax s s1 hr e hcl hs
        have hk := closing_keeps cfg s s1 e hcl hs
        obtain ⟨h1, h2, h3⟩ := ih s1 s' (reachable_step hr hs) h
        refine ⟨?_, h2, by rw [h3, hk]⟩
        simp only [List.length_cons, runCost, List.map_cons, List.sum_cons] at h1 ⊢
        omega
    · cases h

/-- **Close terminates on the detailed model, in every schedule.**  From a reachable state with the writer closed:
every run of closing events has at most `closeMu` + `runCost` steps, and a run that cannot be extended — no closing
event is enabled any more — ends in a state in which `Close` may return. -/
theorem close_terminates_detail (cfg : Cfg) (hmax : 1 ≤ cfg.maxAttempts) (s : State) (hr : Reachable cfg s)
    (hc : s.closed = true) (es : List Event) (s' : State) (hrun : closingRun cfg s es = some s') :
    es.length ≤ closeMu cfg s + runCost es ∧
    ((∀ e, closing s' e = true → step cfg s' e = none) → (step cfg s' .closeReturn).isSome = true) := by
  obtain ⟨h1, h2, h3⟩ := closingRun_bounded cfg hmax es s s' hr hrun
  refine ⟨by omega, ?_⟩
  intro hnone
  cases hret : step cfg s' .closeReturn with
  | some _ => rfl
  | none =>
    exfalso
    obtain ⟨e, hcl, hen⟩ := close_progress_closing cfg hmax s' h2 (by rw [h3]; exact hc) hret
    rw [hnone e hcl] at hen; cases hen

end KV.WriterCloseDetail
