/- Lemmas/XerialIO.lean — the reader's behaviour does not depend on how the underlying io.Reader answers. -/
import KafkaVerif.Model.XerialIO
import KafkaVerif.Lemmas.Source
import KafkaVerif.Lemmas.Xerial

namespace KV.Model.Xerial
open KV KV.RW KV.Model.Source

theorem fullStatus_nil (want : Nat) (d : Bytes) :
    fullStatus want [] d = if want ≤ d.length then .ok else if 0 < d.length then .unexpected else .eof := by
  simp [fullStatus]

theorem headerPhaseIO_refines (x : ReaderIO) :
    (headerPhase x.r = none ∧ headerPhaseIO x = none) ∨
    (∃ r' pre sc', headerPhase x.r = some (r', pre) ∧ headerPhaseIO x = some (⟨r', sc'⟩, pre)) := by
  unfold headerPhase headerPhaseIO
  by_cases hn : x.r.nbytes = 0
  · simp only [hn, if_true]
    obtain ⟨sc', h⟩ := readFull_spec (fuelFor x.src) x.src 16 [] (Nat.le_refl _)
    rw [h]
    simp only [ReaderIO.src, List.nil_append, List.length_nil, Nat.sub_zero]
    by_cases he : x.r.rest.take 16 = []
    · left; simp only [he, if_true, and_self]
    · right
      simp only [he, if_false]
      exact ⟨_, _, sc', rfl, rfl⟩
  · right
    simp only [hn, if_false]
    exact ⟨x.r, 0, x.script, rfl, rfl⟩

theorem framedBodyIO_refines (c : Codec) (x : ReaderIO) (k : Nat) :
    ∃ sc', framedBodyIO c x k = (⟨(framedBody c x.r k).1, sc'⟩, (framedBody c x.r k).2) := by
  unfold framedBodyIO framedBody
  obtain ⟨sc1, h1⟩ := readFull_spec (fuelFor x.src) x.src 4 [] (Nat.le_refl _)
  rw [h1]
  simp only [ReaderIO.src, List.nil_append, List.length_nil, Nat.sub_zero, fullStatus_nil]
  have hrel : (x.r.rest.take 4).length < 4 → x.r.rest.drop 4 = [] := by
    intro h; apply List.drop_of_length_le; rw [List.length_take] at h; omega
  have hl0 : x.r.rest.take 4 = [] → (x.r.rest.take 4).length = 0 := fun h => by rw [h]; rfl
  generalize hgl : x.r.rest.take 4 = l at hrel hl0 ⊢
  by_cases hl : l = []
  · have h0 := hl0 hl
    have hn4 : ¬ 4 ≤ l.length := by omega
    have hn0 : ¬ 0 < l.length := by omega
    simp only [hl, if_true, hn4, hn0, if_false]
    exact ⟨sc1, rfl⟩
  · have hpos : 0 < l.length := List.length_pos_iff.mpr hl
    by_cases h4 : l.length < 4
    · have hn4 : ¬ 4 ≤ l.length := by omega
      simp only [hl, if_false, hn4, hpos, if_true, h4, hrel h4]
      exact ⟨sc1, rfl⟩
    · have h44 : 4 ≤ l.length := by omega
      simp only [hl, h44, if_true, h4, if_false]
      obtain ⟨sc2, h2⟩ := readFull_spec (fuelFor ⟨x.r.rest.drop 4, sc1⟩) ⟨x.r.rest.drop 4, sc1⟩ (deN l) [] (Nat.le_refl _)
      rw [h2]
      simp only [List.nil_append, List.length_nil, Nat.sub_zero, fullStatus_nil, List.drop_drop]
      have hrel2 : ((x.r.rest.drop 4).take (deN l)).length < deN l → x.r.rest.drop (4 + deN l) = [] := by
        intro h; apply List.drop_of_length_le; rw [List.length_take, List.length_drop] at h; omega
      generalize hgi : (x.r.rest.drop 4).take (deN l) = input at hrel2 ⊢
      by_cases hshort : input.length < deN l
      · have hnle : ¬ deN l ≤ input.length := by omega
        simp only [hnle, if_false, hshort, if_true, hrel2 hshort]
        refine ⟨sc2, ?_⟩
        by_cases hp : 0 < input.length
        · have hne : input ≠ [] := List.length_pos_iff.mp hp
          simp only [hp, if_true, hne, if_false]
        · have he : input = [] := by
            cases input with
            | nil => rfl
            | cons _ _ => simp at hp
          subst he
          simp
      · have hle : deN l ≤ input.length := by omega
        simp only [hle, if_true, hshort, if_false]
        exact ⟨sc2, rfl⟩

theorem unframedBodyIO_refines (c : Codec) (x : ReaderIO) (pre k : Nat) (hpre : pre ≤ 16) :
    ∃ sc', unframedBodyIO c x pre k = (⟨(unframedBody c x.r pre k).1, sc'⟩, (unframedBody c x.r pre k).2) := by
  unfold unframedBodyIO unframedBody
  have hlen : (x.r.header.take pre).length ≤ blockCap := by
    rw [List.length_take]; simp only [blockCap]; omega
  have hs := readToEOF_spec (fuelFor x.src) x.src blockCap (x.r.header.take pre) (Nat.le_refl _) (by decide) hlen
  cases hr : readToEOF (fuelFor x.src) x.src blockCap (x.r.header.take pre) with
  | mk res s' =>
    rw [hr] at hs
    simp only [ReaderIO.src] at hs
    by_cases hin : x.r.header.take pre ++ x.r.rest = []
    · simp only [hin, if_true] at hs ⊢
      rw [hs.1]
      exact ⟨s'.script, rfl⟩
    · simp only [hin, if_false] at hs ⊢
      rw [hs.1]
      simp only [hs.2]
      exact ⟨s'.script, rfl⟩

theorem headerPhase_pre_le (r r' : Reader) (pre : Nat) (h : headerPhase r = some (r', pre)) : pre ≤ 16 := by
  unfold headerPhase at h
  by_cases hn : r.nbytes = 0
  · simp only [hn, if_true] at h
    by_cases he : r.rest.take 16 = []
    · simp [he] at h
    · simp only [he, if_false, Option.some.injEq, Prod.mk.injEq] at h
      rw [← h.2, List.length_take]; omega
  · simp only [hn, if_false, Option.some.injEq, Prod.mk.injEq] at h; omega

/-- whatever the source's script: same next state, same result as the script-free model -/
theorem readChunkIO_refines (c : Codec) (x : ReaderIO) (k : Nat) :
    ∃ sc', readChunkIO c x k = (⟨(readChunk c x.r k).1, sc'⟩, (readChunk c x.r k).2) := by
  unfold readChunkIO readChunk
  rcases headerPhaseIO_refines ⟨{ x.r with output := [], offset := 0 }, x.script⟩ with ⟨h1, h2⟩ | ⟨r', pre, sc', h1, h2⟩
  · simp only at h1
    simp only [h1, h2]
    exact ⟨x.script, rfl⟩
  · simp only at h1
    simp only [h1, h2]
    by_cases hm : r'.header.take 8 = Spec.Xerial.magic
    · simp only [hm, if_true]
      exact framedBodyIO_refines c ⟨r', sc'⟩ k
    · simp only [hm, if_false]
      exact unframedBodyIO_refines c ⟨r', sc'⟩ pre k (headerPhase_pre_le _ _ _ h1)

theorem readIO_refines (c : Codec) (fuel : Nat) (x : ReaderIO) (k : Nat) :
    ∃ sc', readIO c fuel x k = (⟨(read c fuel x.r k).1, sc'⟩, (read c fuel x.r k).2) := by
  induction fuel generalizing x with
  | zero => exact ⟨x.script, rfl⟩
  | succ fuel ih =>
    simp only [readIO, read]
    by_cases ho : x.r.offset < x.r.output.length
    · simp only [ho, if_true]
      exact ⟨x.script, rfl⟩
    · simp only [ho, if_false]
      obtain ⟨sc', h⟩ := readChunkIO_refines c x k
      rw [h]
      cases hch : readChunk c x.r k with
      | mk r' ch =>
        simp only
        cases ch with
        | direct b =>
          simp only
          by_cases hb : b.length > 0
          · simp only [hb, if_true]; exact ⟨sc', rfl⟩
          · simp only [hb, if_false]; exact ih ⟨r', sc'⟩
        | buffered => exact ih ⟨r', sc'⟩
        | eof => exact ⟨sc', rfl⟩
        | err => exact ⟨sc', rfl⟩

theorem readAllWithIO_refines (c : Codec) (ks : List Nat) (x : ReaderIO) :
    readAllWithIO c x ks = readAllWith c x.r ks := by
  induction ks generalizing x with
  | nil => rfl
  | cons k ks ih =>
    simp only [readAllWithIO, readAllWith]
    obtain ⟨sc', h⟩ := readIO_refines c (x.r.rest.length + 2) x k
    rw [h]
    cases hrd : read c (x.r.rest.length + 2) x.r k with
    | mk r' res =>
      cases res with
      | data b => simp only; rw [ih ⟨r', sc'⟩]
      | eof => rfl
      | err => rfl

end KV.Model.Xerial

namespace KV.Model.Xerial
open KV KV.RW KV.Model.Source

/-- `ReadFrom` in framed mode never loses, duplicates or reorders a byte, for EVERY behaviour of the source -/
theorem readFromLoop_spec (c : Codec) (fuel : Nat) (w : Writer) (s : Src) (hfr : w.framed = true) (h : WInv c w)
    (hs : w.input.length + slack ≤ blockCap) (hf : fuelFor s ≤ fuel) :
    let r := readFromLoop c fuel w s
    WInv c r.1 ∧ r.1.framed = true ∧ r.1.input.length + slack ≤ blockCap ∧ content r.1 = content w ++ s.data := by
  induction fuel generalizing w s with
  | zero => simp [fuelFor] at hf
  | succ fuel ih =>
    obtain ⟨fr, inp, ou, bl⟩ := w
    simp only at hfr hs
    subst hfr
    obtain ⟨data, script⟩ := s
    have hcap : blockCap = 32768 := rfl
    have hsl : slack = 1024 := rfl
    -- one iteration with the bytes `b` that arrived: state afterwards
    have step : ∀ b : Bytes, b.length ≤ blockCap - inp.length →
        let w1 : Writer := ⟨true, inp ++ b, ou, bl⟩
        let w2 := if blockCap - w1.input.length < slack then flush c w1 else w1
        WInv c w2 ∧ w2.framed = true ∧ w2.input.length + slack ≤ blockCap ∧ content w2 = content ⟨true, inp, ou, bl⟩ ++ b := by
      intro b hb
      have hw1 : WInv c ⟨true, inp ++ b, ou, bl⟩ := ⟨h.out_eq, h.nonempty, h.bounded, fun hf' => by simp at hf'⟩
      have hlen1 : (inp ++ b).length ≤ blockCap := by simp only [List.length_append]; omega
      have hc1 : content ⟨true, inp ++ b, ou, bl⟩ = content ⟨true, inp, ou, bl⟩ ++ b := by simp [content]
      by_cases hfl : blockCap - (inp ++ b).length < slack
      · simp only [hfl, if_true]
        refine ⟨flush_inv c _ hw1 (fun _ => hlen1) (fun hf' => by simp at hf'), by rw [flush_framed],
          by rw [flush_input]; simp [slack, blockCap], by rw [flush_content, hc1]⟩
      · simp only [hfl, if_false]
        exact ⟨hw1, trivial, by simp only [List.length_append] at hfl ⊢; omega, hc1⟩
    simp only [readFromLoop]
    by_cases hd : data = []
    · subst hd
      have := step [] (by simp)
      simpa [Src.read] using this
    · cases script with
      | nil =>
        simp only [Src.read, hd, if_false, Bool.false_eq_true]
        have hb : (data.take (blockCap - inp.length)).length ≤ blockCap - inp.length := by
          rw [List.length_take]; omega
        have st := step (data.take (blockCap - inp.length)) hb
        simp only at st
        have hdl : 0 < data.length := List.length_pos_iff.mpr hd
        have hf' : fuelFor ⟨data.drop (blockCap - inp.length), []⟩ ≤ fuel := by
          simp only [fuelFor, List.length_nil, List.length_drop] at hf ⊢; omega
        have := ih _ ⟨data.drop (blockCap - inp.length), []⟩ st.2.1 st.1 st.2.2.1 hf'
        refine ⟨this.1, this.2.1, this.2.2.1, ?_⟩
        rw [this.2.2.2, st.2.2.2, List.append_assoc, List.take_append_drop]
      | cons a rest =>
        simp only [Src.read, hd, if_false]
        generalize hk : min a.n (blockCap - inp.length) = k
        have hb : (data.take k).length ≤ blockCap - inp.length := by rw [List.length_take]; omega
        have st := step (data.take k) hb
        simp only at st
        by_cases he : (a.eof && decide (data.length ≤ k)) = true
        · simp only [he, if_true]
          have hle : data.length ≤ k := by simpa using (Bool.and_eq_true_iff.mp he).2
          have ht : data.take k = data := List.take_of_length_le hle
          rw [ht] at st ⊢
          exact st
        · simp only [he, Bool.false_eq_true, if_false]
          have hf' : fuelFor ⟨data.drop k, rest⟩ ≤ fuel := by
            simp only [fuelFor, List.length_cons, List.length_drop] at hf ⊢; omega
          have := ih _ ⟨data.drop k, rest⟩ st.2.1 st.1 st.2.2.1 hf'
          refine ⟨this.1, this.2.1, this.2.2.1, ?_⟩
          rw [this.2.2.2, st.2.2.2, List.append_assoc, List.take_append_drop]

theorem readFromUnframed_spec (w : Writer) (s : Src) (hi : w.input.length ≤ blockCap) :
    (readFromUnframed w s).input = w.input ++ s.data := by
  unfold readFromUnframed
  have := (readToEOF_spec (fuelFor s) s blockCap w.input (Nat.le_refl _) (by decide) hi).1
  rw [this]
  by_cases he : w.input ++ s.data = []
  · simp only [he, if_true]
    have := List.append_eq_nil_iff.mp he
    simp [this.1]
  · simp only [he, if_false]

end KV.Model.Xerial
