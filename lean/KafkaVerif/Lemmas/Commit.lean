/-
Lemmas/Commit.lean — facts about `Stash.merge` and the coverage invariant of the commit-loop LTS.
-/
import KafkaVerif.Model.Commit

namespace KV.Commit

theorem merge1_mem (s : Stash) (c : Commit) (e : TP × Int) (h : e ∈ s.merge1 c) :
    e ∈ s ∨ e = (c.tp, c.offset) := by
  unfold Stash.merge1 at h
  split at h
  · rcases List.mem_append.mp h with h | h
    · exact .inl h
    · simp at h; exact .inr h
  · split at h
    · obtain ⟨e0, he0, rfl⟩ := List.mem_map.mp h
      by_cases hk : (e0.1 == c.tp) = true
      · simp [hk]; right
        have : e0.1 = c.tp := by simpa using hk
        rw [this]
      · simp [hk]; exact .inl he0
    · exact .inl h

theorem merge_mem (cs : List Commit) (s : Stash) (e : TP × Int) (h : e ∈ s.merge cs) :
    e ∈ s ∨ ∃ c ∈ cs, e = (c.tp, c.offset) := by
  induction cs generalizing s with
  | nil => exact .inl h
  | cons c cs ih =>
    simp only [Stash.merge, List.foldl_cons] at h
    rcases ih (s.merge1 c) h with h1 | ⟨c', hc', rfl⟩
    · rcases merge1_mem s c e h1 with h2 | rfl
      · exact .inl h2
      · exact .inr ⟨c, List.mem_cons_self, rfl⟩
    · exact .inr ⟨c', List.mem_cons_of_mem _ hc', rfl⟩

/-- an offset for a partition is covered by what the application passed to CommitMessages -/
def Covered (passed : List (TP × Int)) (e : TP × Int) : Prop := ∃ m, (e.1, m) ∈ passed ∧ e.2 ≤ m + 1

theorem Covered.mono {p : List (TP × Int)} (q : List (TP × Int)) {e : TP × Int} (h : Covered p e) : Covered (p ++ q) e := by
  obtain ⟨m, hm, hle⟩ := h
  exact ⟨m, List.mem_append_left _ hm, hle⟩

structure Cov (s : CState) : Prop where
  stash : ∀ e ∈ s.stash, Covered s.passed e
  queue : ∀ r ∈ s.queue, ∀ c ∈ r.commits, Covered s.passed (c.tp, c.offset)
  sent : ∀ x ∈ s.sent, ∀ e ∈ x.1, Covered s.passed e

theorem enterCommit_fields (s : CState) (rs : List Req) (f : Bool) :
    (enterCommit s rs f).passed = s.passed ∧ (enterCommit s rs f).queue = s.queue ∧
    (enterCommit s rs f).stash = s.stash ∧ (enterCommit s rs f).sent = s.sent ∧ (enterCommit s rs f).sync = s.sync := by
  unfold enterCommit; split <;> exact ⟨rfl, rfl, rfl, rfl, rfl⟩

theorem settle_fields (s : CState) :
    (settle s).passed = s.passed ∧ (settle s).queue = s.queue ∧ (settle s).stash = s.stash ∧
    (settle s).sent = s.sent ∧ (settle s).sync = s.sync := by
  unfold settle
  split
  · exact enterCommit_fields _ _ _
  · split <;> exact ⟨rfl, rfl, rfl, rfl, rfl⟩
  · exact ⟨rfl, rfl, rfl, rfl, rfl⟩

theorem Cov.of_fields {s t : CState} (h : Cov s) (f : t.passed = s.passed ∧ t.queue = s.queue ∧ t.stash = s.stash ∧
    t.sent = s.sent ∧ t.sync = s.sync) : Cov t := by
  obtain ⟨f1, f2, f3, f4, _⟩ := f
  exact ⟨by rw [f1, f3]; exact h.stash, by rw [f1, f2]; exact h.queue, by rw [f1, f4]; exact h.sent⟩

theorem takeReq_spec (q : List Req) (cs : List Commit) (r : Req) (q' : List Req) (h : takeReq q cs = some (r, q')) :
    r ∈ q ∧ r.commits = cs ∧ ∀ x ∈ q', x ∈ q := by
  induction q generalizing q' with
  | nil => simp [takeReq] at h
  | cons a rest ih =>
    unfold takeReq at h
    split at h
    · rename_i hc
      cases h
      exact ⟨List.mem_cons_self, by simpa using hc, fun x hx => List.mem_cons_of_mem _ hx⟩
    · simp only [Option.map_eq_some_iff] at h
      obtain ⟨⟨x, q2⟩, hx, heq⟩ := h
      cases heq
      obtain ⟨h1, h2, h3⟩ := ih q2 hx
      refine ⟨List.mem_cons_of_mem _ h1, h2, ?_⟩
      intro y hy
      rcases List.mem_cons.mp hy with rfl | hy
      · exact List.mem_cons_self
      · exact List.mem_cons_of_mem _ (h3 y hy)

theorem sameMap_sub (a b : Stash) (h : sameMap a b = true) : ∀ e ∈ a, e ∈ b := by
  intro e he
  unfold sameMap at h
  simp only [Bool.and_eq_true, List.all_eq_true] at h
  have := h.1 e he
  simpa using this

theorem cov_init : Cov {} := ⟨by simp, by simp, by simp⟩

theorem cov_stash_empty {s : CState} (h : Cov s) (pc : LPC) (rp : List (Req × Bool)) :
    Cov { s with stash := [], pc := pc, replied := rp } :=
  ⟨by simp, h.queue, h.sent⟩

theorem cov_pc {s : CState} (h : Cov s) (pc : LPC) : Cov { s with pc := pc } := ⟨h.stash, h.queue, h.sent⟩

theorem cov_step (s s' : CState) (e : CEv) (hi : Cov s) (h : cstep s e = some s') : Cov s' := by
  cases e <;> simp only [cstep] at h
  case call id msgs =>
    cases h
    refine ⟨fun e he => (hi.stash e he).mono _, ?_, fun x hx e he => (hi.sent x hx e he).mono _⟩
    intro r hr c hc
    rcases List.mem_append.mp hr with hr | hr
    · exact (hi.queue r hr c hc).mono _
    · simp at hr; subst hr
      obtain ⟨m, hm, rfl⟩ := List.mem_map.mp hc
      exact ⟨m.2, List.mem_append_right _ hm, by simp [makeCommit]⟩
  case begin sync =>
    split at h
    · cases h; exact ⟨by simp, hi.queue, hi.sent⟩
    · cases h
  case deq commits drain =>
    have hs : Cov (if drain = true then s else settle s) := by
      split
      · exact hi
      · exact hi.of_fields (settle_fields s)
    generalize (if drain = true then s else settle s) = t at h hs
    split at h
    · cases h
    · rename_i r q' htk
      obtain ⟨hr, hrc, hq⟩ := takeReq_spec _ _ _ _ htk
      have hm : Cov { t with queue := q', stash := t.stash.merge commits } := by
        refine ⟨?_, fun x hx => hs.queue x (hq x hx), hs.sent⟩
        intro e he
        rcases merge_mem commits t.stash e he with h1 | ⟨c, hc, rfl⟩
        · exact hs.stash e h1
        · exact hs.queue r hr c (hrc ▸ hc)
      split at h
      · split at h
        · cases h; exact hm.of_fields (enterCommit_fields _ _ _)
        · cases h; exact hm
      · cases h; exact ⟨hm.stash, hm.queue, hm.sent⟩
      · cases h
  case attempt offs ok =>
    have hs := hi.of_fields (settle_fields s)
    generalize settle s = t at h hs
    split at h
    · split at h
      · rename_i hc
        simp only [Bool.and_eq_true] at hc
        have hsent : ∀ x ∈ t.sent ++ [(offs, ok)], ∀ e ∈ x.1, Covered t.passed e := by
          intro x hx e he
          rcases List.mem_append.mp hx with hx | hx
          · exact hs.sent x hx e he
          · simp at hx; subst hx; exact hs.stash e (sameMap_sub _ _ hc.1 e he)
        split at h
        · cases h; exact ⟨hs.stash, hs.queue, hsent⟩
        · split at h <;> (cases h; exact ⟨hs.stash, hs.queue, hsent⟩)
      · cases h
    · cases h
  case abort =>
    have hs := hi.of_fields (settle_fields s)
    generalize settle s = t at h hs
    split at h
    · split at h
      · cases h; exact cov_pc hs _
      · cases h
    · cases h
  case replied =>
    split at h
    · split at h
      · cases h; exact ⟨by simp, hi.queue, hi.sent⟩
      · cases h
    · cases h
  case reply ok' =>
    have hs := hi.of_fields (settle_fields s)
    generalize settle s = t at h hs
    split at h
    · split at h
      · cases h; exact ⟨hs.stash, hs.queue, hs.sent⟩
      · cases h
    · cases h
  case reset =>
    have hs := hi.of_fields (settle_fields s)
    generalize settle s = t at h hs
    split at h
    · split at h
      · cases h; exact ⟨by simp, hs.queue, hs.sent⟩
      · cases h
    · cases h
  case tick =>
    have hs := hi.of_fields (settle_fields s)
    generalize settle s = t at h hs
    split at h
    · cases h; exact hs.of_fields (enterCommit_fields _ _ _)
    · cases h
  case genEnd =>
    have hs := hi.of_fields (settle_fields s)
    generalize settle s = t at h hs
    split at h
    · cases h; exact cov_pc hs _
    · cases h
  case endLoop =>
    have hs := hi.of_fields (settle_fields s)
    generalize settle s = t at h hs
    split at h
    · cases h; exact cov_pc hs _
    · cases h
  case ret id ok =>
    split at h
    · cases h; exact ⟨hi.stash, hi.queue, hi.sent⟩
    · cases h

theorem cov_reachable (s : CState) (h : CReachable s) : Cov s := by
  induction h with
  | init => exact cov_init
  | step e _ hs ih => exact cov_step _ _ e ih hs

end KV.Commit
