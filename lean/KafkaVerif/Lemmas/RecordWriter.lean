/-
Lemmas/RecordWriter.lean — the writer models of `Model/RecordWriter.lean` emit exactly the reference
encoding (`Spec/RecordBatch.lean`) of the records they were given; computed sizes are actual lengths.
-/
import KafkaVerif.Model.RecordWriter
import KafkaVerif.Lemmas.RecordBatchSpec

namespace KV.Model.RecordWriter
open KV KV.RW KV.Spec.RB

/-! ### sizes -/

theorem bitLen_zero : bitLen 0 = 0 := by rw [bitLen]; simp

theorem bitLen_step (n : Nat) (h : n ≠ 0) : bitLen n = 1 + bitLen (n / 2) := by
  rw [bitLen]; simp [h]

theorem bitLen_le (k n : Nat) (h : n < 2 ^ k) : bitLen n ≤ k := by
  induction k generalizing n with
  | zero => have : n = 0 := by simpa using h
            subst this; simp [bitLen_zero]
  | succ k ih =>
    by_cases h0 : n = 0
    · subst h0; simp [bitLen_zero]
    · rw [bitLen_step n h0]
      have : n / 2 < 2 ^ k := by rw [Nat.pow_succ] at h; omega
      have := ih _ this
      omega

theorem bitLen_128 (n : Nat) (h : 128 ≤ n) : bitLen n = 7 + bitLen (n / 128) := by
  rw [bitLen_step n (by omega), bitLen_step (n / 2) (by omega), bitLen_step (n / 2 / 2) (by omega),
    bitLen_step (n / 2 / 2 / 2) (by omega), bitLen_step (n / 2 / 2 / 2 / 2) (by omega),
    bitLen_step (n / 2 / 2 / 2 / 2 / 2) (by omega), bitLen_step (n / 2 / 2 / 2 / 2 / 2 / 2) (by omega)]
  have : n / 2 / 2 / 2 / 2 / 2 / 2 / 2 = n / 128 := by omega
  rw [this]; omega

theorem sizeOfUnsignedVarInt_eq (u : Nat) : sizeOfUnsignedVarInt u = uvarintLen u := by
  induction u using uvarintLen.induct with
  | case1 u h =>
    rw [uvarintLen]; simp only [h, if_true]
    unfold sizeOfUnsignedVarInt
    have hv : (if u = 0 then 1 else u) < 2 ^ 7 := by split <;> omega
    have hv0 : (if u = 0 then 1 else u) ≠ 0 := by split <;> omega
    have h1 := bitLen_le 7 _ hv
    have h2 := bitLen_step _ hv0
    omega
  | case2 u h ih =>
    rw [uvarintLen]; simp only [h, if_false]
    unfold sizeOfUnsignedVarInt at *
    have hu : ¬ u = 0 := by omega
    have hu' : ¬ u / 128 = 0 := by omega
    simp only [hu, hu', if_false] at *
    rw [bitLen_128 u (by omega)]
    omega

theorem sizeOfVarInt_eq (x : Int) : sizeOfVarInt x = (varint x).length := by
  rw [varint_length]; exact sizeOfUnsignedVarInt_eq _

theorem varIntLen_eq (x : Int) : varIntLen x = (varint x).length := by
  rw [varint_length]; rfl

/-! The sizing / writing helpers of protocol/size.go and protocol/encode.go call, NOW, the zig-zag functions (the names
are read off the source by `go/extract sizefns` on every run): these lemmas stop to hold when one of them switches to the
unsigned varint, and with them `recordV2_eq` and everything that says the writer emits the Spec encoding. -/

theorem prefixSize_zz (n : Int) : prefixSize "sizeOfVarInt" n = (varint n).length := by
  simp [prefixSize, sizeOfVarInt_eq]

theorem prefixBytes_zz (n : Int) : prefixBytes "writeVarInt" n = varint n := by
  simp [prefixBytes]

theorem writeVarNullBytes_eq (b : Option Bytes) : writeVarNullBytes b = varbytes b := by
  cases b <;> simp [writeVarNullBytes, nth, Gen.SizeFns.writeVarNullBytesCalls, prefixBytes_zz, varbytes]

theorem writeVarNullBytesFrom_eq (b : Option Bytes) : writeVarNullBytesFrom b = varbytes b := by
  cases b <;> simp [writeVarNullBytesFrom, nth, Gen.SizeFns.writeVarNullBytesFromCalls, prefixBytes_zz, varbytes]

theorem sizeOfVarNullBytes_eq (b : Option Bytes) : sizeOfVarNullBytes b = (varbytes b).length := by
  cases b <;> simp [sizeOfVarNullBytes, nth, Gen.SizeFns.varNullBytesCalls, prefixSize_zz, varbytes]

theorem sizeOfVarNullBytesIface_eq (b : Option Bytes) : sizeOfVarNullBytesIface b = (varbytes b).length := by
  cases b <;> simp [sizeOfVarNullBytesIface, nth, Gen.SizeFns.varNullBytesIfaceCalls, prefixSize_zz, varbytes]

theorem sizeOfVarString_eq (s : Bytes) : sizeOfVarString s = (varint (s.length : Int)).length + s.length := by
  simp [sizeOfVarString, nth, Gen.SizeFns.varStringCalls, prefixSize_zz]

theorem varint_neg_one_length : (varint (-1)).length = 1 := by
  simp only [varint]; rw [uvarint]; simp [zigzag]

theorem varint_zero_length : (varint 0).length = 1 := by
  simp only [varint]; rw [uvarint]; simp [zigzag]

theorem varBytesLen_eq (b : Option Bytes) : varBytesLen b = (varbytes b).length := by
  cases b with
  | none => simp [varBytesLen, optLen, varbytes, varIntLen_eq, varint_neg_one_length, varint_zero_length]
  | some b => simp [varBytesLen, optLen, varbytes, varIntLen_eq]

theorem writeHeaders_eq (hs : List Hdr) : writeHeaders hs = encHdrs hs := by
  induction hs with
  | nil => rfl
  | cons h hs ih =>
    simp [writeHeaders, encHdrs, writeHeader, encHdr, writeVarNullBytes_eq, ih, nth, Gen.SizeFns.writeVarStringCalls,
      prefixBytes_zz]

theorem headersSize_eq (hs : List Hdr) : headersSize hs = (encHdrs hs).length := by
  induction hs with
  | nil => rfl
  | cons h hs ih =>
    simp [headersSize, encHdrs, encHdr, sizeOfVarString_eq, sizeOfVarNullBytes_eq, ih]; omega

theorem headersLen_eq (hs : List Hdr) : headersLen hs = (encHdrs hs).length := by
  induction hs with
  | nil => rfl
  | cons h hs ih =>
    simp [headersLen, encHdrs, encHdr, varStringLen, varBytesLen_eq, varIntLen_eq, ih]; omega

/-! ### one record -/

def specRec (delta : Int) (i : Nat) (r : PRec) : RecV2 := ⟨0, delta, (i : Int), r.key, r.value, r.headers⟩

theorem recBody_length (x : RecV2) : (recBody x).length =
    1 + (varint x.tsDelta).length + (varint x.offDelta).length + (varbytes x.key).length +
      (varbytes x.value).length + (varint (x.headers.length : Int)).length + (encHdrs x.headers).length := by
  simp [recBody]; omega

theorem recordV2_eq (first : Int) (i : Nat) (t : Int) (r : PRec) :
    recordV2 first i t r = encRec (specRec (t - first) i r) := by
  have hl := recBody_length (specRec (t - first) i r)
  simp only [specRec] at hl
  simp only [recordV2, encRec, sizeOfVarInt_eq, sizeOfVarNullBytesIface_eq, headersSize_eq]
  rw [← hl]
  simp [recBody, specRec, writeVarNullBytesFrom_eq, writeHeaders_eq]

theorem recordSize_eq (d : Int) (i : Nat) (r : PRec) : recordSize d i r = (recBody (specRec d i r)).length := by
  rw [recBody_length]
  simp [recordSize, specRec, varIntLen_eq, varBytesLen_eq, headersLen_eq]; omega

theorem legacyRecordWith_eq (delta : Int → Int → Int) (base : Int) (i : Nat) (r : PRec) :
    legacyRecordWith delta base i r = encRec (specRec (delta base r.time) i r) := by
  simp only [legacyRecordWith, encRec, recordSize_eq]
  simp [recBody, specRec, writeVarNullBytes_eq, writeHeaders_eq]

/-! ### record sequences -/

def specRecsV2 (now first : Int) : Nat → List PRec → List RecV2
  | _, [] => []
  | i, r :: rs => specRec (effTime now r - first) i r :: specRecsV2 now first (i + 1) rs

theorem recordsV2_eq (now first : Int) (i : Nat) (rs : List PRec) :
    recordsV2 now first i rs = encRecs (specRecsV2 now first i rs) := by
  induction rs generalizing i with
  | nil => rfl
  | cons r rs ih => simp [recordsV2, specRecsV2, encRecs, recordV2_eq, ih]

theorem specRecsV2_length (now first : Int) (i : Nat) (rs : List PRec) :
    (specRecsV2 now first i rs).length = rs.length := by
  induction rs generalizing i with
  | nil => rfl
  | cons r rs ih => simp [specRecsV2, ih]

def specRecsLegacy (delta : Int → Int → Int) (base : Int) : Nat → List PRec → List RecV2
  | _, [] => []
  | i, r :: rs => specRec (delta base r.time) i r :: specRecsLegacy delta base (i + 1) rs

theorem legacyRecordsWith_eq (delta : Int → Int → Int) (base : Int) (i : Nat) (rs : List PRec) :
    legacyRecordsWith delta base i rs = encRecs (specRecsLegacy delta base i rs) := by
  induction rs generalizing i with
  | nil => rfl
  | cons r rs ih => simp [legacyRecordsWith, specRecsLegacy, encRecs, legacyRecordWith_eq, ih]

theorem specRecsLegacy_length (delta : Int → Int → Int) (base : Int) (i : Nat) (rs : List PRec) :
    (specRecsLegacy delta base i rs).length = rs.length := by
  induction rs generalizing i with
  | nil => rfl
  | cons r rs ih => simp [specRecsLegacy, ih]

theorem recordBatchSizeWith_eq (delta : Int → Int → Int) (base : Int) (i : Nat) (rs : List PRec) :
    recordBatchSizeWith delta base i rs = 61 + (legacyRecordsWith delta base i rs).length := by
  induction rs generalizing i with
  | nil => rfl
  | cons r rs ih =>
    simp only [recordBatchSizeWith, legacyRecordsWith, ih, legacyRecordWith_eq, encRec, List.length_append,
      recordSize_eq, varIntLen_eq]
    rw [legacyRecordsWith_eq]
    omega

/-- the logical records a consumer must see: offsets i, i+1, …, the given millisecond timestamps,
keys / values / headers untouched -/
def expectedFrom : Nat → List Int → List PRec → List Rec
  | _, _, [] => []
  | _, [], _ :: _ => []
  | i, t :: ts, r :: rs => ⟨(i : Int), t, r.key, r.value, r.headers⟩ :: expectedFrom (i + 1) ts rs

def expected (times : List Int) (recs : List PRec) : List Rec := expectedFrom 0 times recs

theorem map_recOfV2_specRecsV2 (f : FrameV2) (hb : f.baseOffset = 0) (hl : logAppend f.attributes = false) (now : Int)
    (i : Nat) (rs : List PRec) :
    (specRecsV2 now f.firstTs i rs).map (recOfV2 f) = expectedFrom i (rs.map (effTime now)) rs := by
  induction rs generalizing i with
  | nil => rfl
  | cons r rs ih =>
    simp only [specRecsV2, List.map_cons, expectedFrom, ih]
    simp [recOfV2, recOfV2c, stamp, hl, specRec, hb]
    omega

theorem map_recOfV2_specRecsLegacy (f : FrameV2) (hb : f.baseOffset = 0) (hl : logAppend f.attributes = false) (base : Int)
    (hf : f.firstTs = timestampOf base) (i : Nat) (rs : List PRec) :
    (specRecsLegacy tsDelta base i rs).map (recOfV2 f) = expectedFrom i (rs.map (fun r => timestampOf r.time)) rs := by
  induction rs generalizing i with
  | nil => rfl
  | cons r rs ih =>
    simp only [specRecsLegacy, List.map_cons, expectedFrom, ih]
    simp [recOfV2, recOfV2c, stamp, hl, specRec, hb, hf, tsDelta]
    omega

/-! ### protocol writeToVersion2 -/

def firstTime (now : Int) : List PRec → Int
  | [] => 0
  | r0 :: _ => effTime now r0

def frameOfV2 (attrs now : Int) (recs : List PRec) : FrameV2 :=
  ⟨0, -1, attrs, (recs.length : Int) - 1, firstTime now recs, maxTime now 0 recs, -1, -1, -1, (recs.length : Int),
    recordsV2 now (firstTime now recs) 0 recs⟩

theorem writeV2_eq (crc : Bytes → Nat) (attrs now : Int) (recs : List PRec) (hne : recs ≠ []) :
    writeV2 crc attrs now recs = some (encFrame crc (frameOfV2 attrs now recs)) := by
  cases recs with
  | nil => exact absurd rfl hne
  | cons r0 rs =>
    simp only [writeV2, encFrame, frameOfV2, frameBody, firstTime]
    congr 3
    simp
    congr 1
    omega

theorem flatten_plain_batch (c : Crcs) (dec : Int → Bytes → Option Bytes) (f : FrameV2) (xs : List RecV2)
    (hcodec : codecOf f.attributes = 0) (hp : f.payload = encRecs xs) (hc : f.count = (xs.length : Int)) :
    flattenEntry c dec (.batch f) = some (isControl f.attributes, xs.map (recOfV2 f)) := by
  simp [flattenEntry, hcodec, hp, hc, decodeRecs_encRecs]

theorem writeV2_spec (crc : Bytes → Nat) (hcrc : ∀ b, crc b < M32) (attrs now : Int) (recs : List PRec)
    (hne : recs ≠ []) (hwf : (frameOfV2 attrs now recs).WF) (hcodec : codecOf attrs = 0)
    (hlog : logAppend attrs = false) :
    ∃ bytes f, writeV2 crc attrs now recs = some bytes ∧
      readFrame crc bytes = some (f, []) ∧ f.baseOffset = 0 ∧ f.count = recs.length ∧
      f.lastOffsetDelta = (recs.length : Int) - 1 ∧
      flattenEntry ⟨crc, crc⟩ (fun _ _ => none) (.batch f) =
        some (isControl attrs, expected (recs.map (effTime now)) recs) := by
  refine ⟨_, frameOfV2 attrs now recs, writeV2_eq crc attrs now recs hne, ?_, rfl, rfl, rfl, ?_⟩
  · have := readFrame_encFrame crc hcrc _ hwf []
    simpa using this
  · have hp : (frameOfV2 attrs now recs).payload = encRecs (specRecsV2 now (firstTime now recs) 0 recs) :=
      recordsV2_eq _ _ _ _
    have hc : (frameOfV2 attrs now recs).count = ((specRecsV2 now (firstTime now recs) 0 recs).length : Int) := by
      rw [specRecsV2_length]; rfl
    rw [flatten_plain_batch _ _ _ _ hcodec hp hc]
    have := map_recOfV2_specRecsV2 (frameOfV2 attrs now recs) rfl hlog now 0 recs
    simp only [frameOfV2] at this ⊢
    rw [this]; rfl

/-! ### Conn path -/

def baseTime : List PRec → Int
  | [] => 0
  | r0 :: _ => r0.time

def legacyFrame (recs : List PRec) : FrameV2 :=
  ⟨0, -1, 0, (recs.length : Int) - 1, timestampOf (baseTime recs), timestampOf (lastTime (baseTime recs) recs), -1, -1, -1,
    (recs.length : Int), legacyRecordsWith tsDelta (baseTime recs) 0 recs⟩

theorem legacyBatch_eq (crc : Bytes → Nat) (recs : List PRec) (hne : recs ≠ []) :
    legacyBatch crc recs = encFrame crc (legacyFrame recs) := by
  cases recs with
  | nil => exact absurd rfl hne
  | cons r0 rs =>
    simp only [legacyBatch, legacyBatchWith, encFrame, legacyFrame, frameBody, baseTime, recordBatchSizeWith_eq]
    congr 2
    simp
    congr 1
    omega

theorem legacyBatch_length (crc : Bytes → Nat) (recs : List PRec) (hne : recs ≠ []) :
    (legacyBatch crc recs).length = recordBatchSizeWith tsDelta (recs.head hne).time 0 recs := by
  cases recs with
  | nil => exact absurd rfl hne
  | cons r0 rs =>
    rw [recordBatchSizeWith_eq]
    simp [legacyBatch, legacyBatchWith]
    omega

theorem legacyBatch_spec (crc : Bytes → Nat) (hcrc : ∀ b, crc b < M32) (recs : List PRec)
    (hne : recs ≠ []) (hwf : (legacyFrame recs).WF) :
    ∃ f, readFrame crc (legacyBatch crc recs) = some (f, []) ∧ f.baseOffset = 0 ∧ f.count = recs.length ∧
      f.lastOffsetDelta = (recs.length : Int) - 1 ∧
      flattenEntry ⟨crc, crc⟩ (fun _ _ => none) (.batch f) =
        some (false, expected (recs.map (fun r => timestampOf r.time)) recs) := by
  refine ⟨legacyFrame recs, ?_, rfl, rfl, rfl, ?_⟩
  · rw [legacyBatch_eq crc recs hne]
    have := readFrame_encFrame crc hcrc _ hwf []
    simpa using this
  · have hp : (legacyFrame recs).payload = encRecs (specRecsLegacy tsDelta (baseTime recs) 0 recs) :=
      legacyRecordsWith_eq _ _ _ _
    have hc : (legacyFrame recs).count = ((specRecsLegacy tsDelta (baseTime recs) 0 recs).length : Int) := by
      rw [specRecsLegacy_length]; rfl
    have hcodec : codecOf (legacyFrame recs).attributes = 0 := by simp [legacyFrame, codecOf]
    rw [flatten_plain_batch _ _ _ _ hcodec hp hc]
    have := map_recOfV2_specRecsLegacy (legacyFrame recs) rfl (show logAppend 0 = false by decide) (baseTime recs) rfl 0 recs
    rw [this]
    rfl

/-! ### v1 -/

theorem writeNullBytes_eq (b : Option Bytes) : writeNullBytes b = nbytes b := by cases b <;> rfl

def msgsOfV1 (attrs now : Int) : Nat → List PRec → List Msg
  | _, [] => []
  | i, r :: rs => ⟨(i : Int), 1, attrs, effTime now r, r.key, r.value⟩ :: msgsOfV1 attrs now (i + 1) rs

theorem messageV1_eq (crc : Bytes → Nat) (attrs now : Int) (i : Nat) (r : PRec) :
    messageV1 crc attrs now i r = encMsg crc ⟨(i : Int), 1, attrs, effTime now r, r.key, r.value⟩ := by
  simp [messageV1, encMsg, msgBody, writeNullBytes_eq]

theorem writeV1_eq (c : Crcs) (attrs now : Int) (i : Nat) (rs : List PRec) :
    writeV1 c.ieee attrs now i rs = encSet c ((msgsOfV1 attrs now i rs).map Entry.msg) := by
  induction rs generalizing i with
  | nil => rfl
  | cons r rs ih => simp [writeV1, msgsOfV1, encSet, encEntry, messageV1_eq, ih]

theorem writeV1_spec (c : Crcs) (h1 : ∀ b, c.ieee b < M32) (h2 : ∀ b, c.castagnoli b < M32)
    (attrs now : Int) (recs : List PRec) (hwf : ∀ m ∈ msgsOfV1 attrs now 0 recs, m.WF) :
    decodeSet c (writeV1 c.ieee attrs now 0 recs) = some ((msgsOfV1 attrs now 0 recs).map Entry.msg) := by
  rw [writeV1_eq]
  apply decodeSet_encSet c h1 h2
  intro e he
  simp only [List.mem_map] at he
  obtain ⟨m, hm, rfl⟩ := he
  exact hwf m hm

end KV.Model.RecordWriter

/-! ### compressed writers (abstract compressor `comp`, decompressor `dec` with `dec (comp p) = p`) -/

namespace KV.Model.RecordWriter
open KV KV.RW KV.Spec.RB

def frameOfV2C (comp : Bytes → Bytes) (attrs now : Int) (recs : List PRec) : FrameV2 :=
  { frameOfV2 attrs now recs with payload := comp (recordsV2 now (firstTime now recs) 0 recs) }

theorem writeV2C_eq (crc : Bytes → Nat) (comp : Bytes → Bytes) (attrs now : Int) (recs : List PRec) (hne : recs ≠ []) :
    writeV2C crc comp attrs now recs = some (encFrame crc (frameOfV2C comp attrs now recs)) := by
  cases recs with
  | nil => exact absurd rfl hne
  | cons r0 rs =>
    simp only [writeV2C, encFrame, frameOfV2C, frameOfV2, frameBody, firstTime]
    congr 3
    simp
    congr 1
    omega

theorem flatten_compressed_batch (c : Crcs) (dec : Int → Bytes → Option Bytes) (f : FrameV2) (xs : List RecV2)
    (hcodec : codecOf f.attributes ≠ 0) (hp : dec (codecOf f.attributes) f.payload = some (encRecs xs))
    (hc : f.count = (xs.length : Int)) :
    flattenEntry c dec (.batch f) = some (isControl f.attributes, xs.map (recOfV2 f)) := by
  simp [flattenEntry, hcodec, hp, hc, decodeRecs_encRecs]

/-- protocol `writeToVersion2` with compression: one batch the reference decoder accepts; decompressing its payload
and decoding gives exactly the given records (offsets 0..n-1, ms timestamps) -/
theorem writeV2C_spec (crc : Bytes → Nat) (hcrc : ∀ b, crc b < M32) (comp : Bytes → Bytes)
    (dec : Int → Bytes → Option Bytes) (attrs now : Int) (recs : List PRec)
    (hne : recs ≠ []) (hwf : (frameOfV2C comp attrs now recs).WF) (hcodec : codecOf attrs ≠ 0)
    (hlog : logAppend attrs = false) (hdec : ∀ p, dec (codecOf attrs) (comp p) = some p) :
    ∃ bytes f, writeV2C crc comp attrs now recs = some bytes ∧
      readFrame crc bytes = some (f, []) ∧ f.baseOffset = 0 ∧ f.count = recs.length ∧
      f.lastOffsetDelta = (recs.length : Int) - 1 ∧
      flattenEntry ⟨crc, crc⟩ dec (.batch f) = some (isControl attrs, expected (recs.map (effTime now)) recs) := by
  refine ⟨_, frameOfV2C comp attrs now recs, writeV2C_eq crc comp attrs now recs hne, ?_, rfl, rfl, rfl, ?_⟩
  · have := readFrame_encFrame crc hcrc _ hwf []
    simpa using this
  · have hp : dec (codecOf (frameOfV2C comp attrs now recs).attributes) (frameOfV2C comp attrs now recs).payload
        = some (encRecs (specRecsV2 now (firstTime now recs) 0 recs)) := by
      simp only [frameOfV2C, frameOfV2]
      rw [hdec, recordsV2_eq]
    have hc : (frameOfV2C comp attrs now recs).count = ((specRecsV2 now (firstTime now recs) 0 recs).length : Int) := by
      rw [specRecsV2_length]; rfl
    rw [flatten_compressed_batch _ _ _ _ hcodec hp hc]
    have := map_recOfV2_specRecsV2 (frameOfV2C comp attrs now recs) rfl hlog now 0 recs
    simp only [frameOfV2C, frameOfV2] at this ⊢
    rw [this]; rfl

def legacyFrameC (comp : Bytes → Bytes) (code : Int) (recs : List PRec) : FrameV2 :=
  { legacyFrame recs with attributes := code, payload := comp (legacyRecordsWith tsDelta (baseTime recs) 0 recs) }

theorem legacyBatchC_eq (crc : Bytes → Nat) (comp : Bytes → Bytes) (code : Int) (recs : List PRec) (hne : recs ≠ []) :
    legacyBatchC crc comp code recs = encFrame crc (legacyFrameC comp code recs) := by
  cases recs with
  | nil => exact absurd rfl hne
  | cons r0 rs =>
    simp only [legacyBatchC, encFrame, legacyFrameC, legacyFrame, frameBody, baseTime]
    congr 2
    simp
    congr 1
    omega

/-- Conn `WriteCompressedMessages` (produce v3/v7): `compressRecordBatch` + `writeRecordBatch` -/
theorem legacyBatchC_spec (crc : Bytes → Nat) (hcrc : ∀ b, crc b < M32) (comp : Bytes → Bytes)
    (dec : Int → Bytes → Option Bytes) (code : Int) (recs : List PRec)
    (hne : recs ≠ []) (hwf : (legacyFrameC comp code recs).WF) (hcodec : codecOf code ≠ 0)
    (hlog : logAppend code = false) (hdec : ∀ p, dec (codecOf code) (comp p) = some p) :
    ∃ f, readFrame crc (legacyBatchC crc comp code recs) = some (f, []) ∧ f.baseOffset = 0 ∧ f.count = recs.length ∧
      f.lastOffsetDelta = (recs.length : Int) - 1 ∧
      flattenEntry ⟨crc, crc⟩ dec (.batch f) =
        some (isControl code, expected (recs.map (fun r => timestampOf r.time)) recs) := by
  refine ⟨legacyFrameC comp code recs, ?_, rfl, rfl, rfl, ?_⟩
  · rw [legacyBatchC_eq crc comp code recs hne]
    have := readFrame_encFrame crc hcrc _ hwf []
    simpa using this
  · have hp : dec (codecOf (legacyFrameC comp code recs).attributes) (legacyFrameC comp code recs).payload
        = some (encRecs (specRecsLegacy tsDelta (baseTime recs) 0 recs)) := by
      simp only [legacyFrameC, legacyFrame]
      rw [hdec, legacyRecordsWith_eq]
    have hc : (legacyFrameC comp code recs).count = ((specRecsLegacy tsDelta (baseTime recs) 0 recs).length : Int) := by
      rw [specRecsLegacy_length]; rfl
    rw [flatten_compressed_batch _ _ _ _ hcodec hp hc]
    have := map_recOfV2_specRecsLegacy (legacyFrameC comp code recs) rfl hlog (baseTime recs) rfl 0 recs
    rw [this]
    rfl

/-- protocol `writeToVersion1` with compression: one wrapper message (offset 0, the batch attributes, timestamp
`now`, null key) whose value is the compressed uncompressed-set -/
theorem writeV1C_eq (crc : Bytes → Nat) (comp : Bytes → Bytes) (attrs now : Int) (recs : List PRec) :
    writeV1C crc comp attrs now recs =
      encMsg crc ⟨0, 1, attrs, now, none, some (comp (writeV1 crc (attrs - attrs % 8) now 0 recs))⟩ := by
  simp [writeV1C, messageV1_eq, effTime]

/-- … and that value decompresses to a message set that decodes to the given records with relative offsets 0..n-1 -/
theorem writeV1C_spec (c : Crcs) (h1 : ∀ b, c.ieee b < M32) (h2 : ∀ b, c.castagnoli b < M32) (comp : Bytes → Bytes)
    (attrs now : Int) (recs : List PRec)
    (hw : (⟨0, 1, attrs, now, none, some (comp (writeV1 c.ieee (attrs - attrs % 8) now 0 recs))⟩ : Msg).WF)
    (hwf : ∀ m ∈ msgsOfV1 (attrs - attrs % 8) now 0 recs, m.WF) :
    decodeSet c (writeV1C c.ieee comp attrs now recs) =
      some [.msg ⟨0, 1, attrs, now, none, some (comp (writeV1 c.ieee (attrs - attrs % 8) now 0 recs))⟩] ∧
    decodeSet c (writeV1 c.ieee (attrs - attrs % 8) now 0 recs) =
      some ((msgsOfV1 (attrs - attrs % 8) now 0 recs).map Entry.msg) := by
  refine ⟨?_, writeV1_spec c h1 h2 _ now recs hwf⟩
  rw [writeV1C_eq]
  have := decodeSet_encSet c h1 h2 [.msg ⟨0, 1, attrs, now, none, some (comp (writeV1 c.ieee (attrs - attrs % 8) now 0 recs))⟩]
    (fun e he => by simp only [List.mem_singleton] at he; subst he; exact hw)
  simpa [encSet, encEntry] using this

end KV.Model.RecordWriter

namespace KV.Model.RecordWriter
open KV KV.RW KV.Spec.RB

theorem nbytes_length (b : Option Bytes) : (nbytes b).length = 4 + optLen b := by
  cases b <;> simp [nbytes, optLen]

/-- Conn `writeMessage`: `messageSize` is the real size, the bytes are the reference encoding -/
theorem legacyMessage_eq (crc : Bytes → Nat) (offset attrs : Int) (r : PRec) :
    legacyMessage crc offset attrs r = encMsg crc ⟨offset, 1, attrs, timestampOf r.time, r.key, r.value⟩ := by
  simp only [legacyMessage, encMsg, msgBody, writeNullBytes_eq]
  simp only [show ((1 : Int) = 0) = False from by simp, if_false, List.length_append, i8_length, i64_length, nbytes_length]
  congr 3
  omega

def legacyMsgs (attrs : Int) (offs : Nat → Int) : Nat → List PRec → List Msg
  | _, [] => []
  | i, r :: rs => ⟨offs i, 1, attrs, timestampOf r.time, r.key, r.value⟩ :: legacyMsgs attrs offs (i + 1) rs

theorem legacyMessageSet_eq (c : Crcs) (rs : List PRec) (i : Nat) :
    legacyMessageSet c.ieee rs = encSet c ((legacyMsgs 0 (fun _ => 0) i rs).map Entry.msg) := by
  induction rs generalizing i with
  | nil => rfl
  | cons r rs ih => simp [legacyMessageSet, legacyMsgs, encSet, encEntry, legacyMessage_eq, ih (i + 1)]

theorem legacyInner_eq (c : Crcs) (rs : List PRec) (i : Nat) :
    legacyInner c.ieee i rs = encSet c ((legacyMsgs 0 (fun j => (j : Int)) i rs).map Entry.msg) := by
  induction rs generalizing i with
  | nil => rfl
  | cons r rs ih => simp [legacyInner, legacyMsgs, encSet, encEntry, legacyMessage_eq, ih (i + 1)]

theorem legacyWrapper_eq (crc : Bytes → Nat) (comp : Bytes → Bytes) (code : Int) (recs : List PRec) :
    legacyWrapper crc comp code recs = encMsg crc ⟨0, 1, code, 0, none, some (comp (legacyInner crc 0 recs))⟩ := by
  simp only [legacyWrapper, encMsg, msgBody, writeNullBytes_eq]
  simp only [show ((1 : Int) = 0) = False from by simp, if_false, List.length_append, i8_length, i64_length, nbytes_length,
    optLen]
  congr 3
  omega

/-- Conn produce v2 (uncompressed and compressed): the message set / the wrapper's decompressed value decode to the
given messages (ms timestamps; offsets as written: `Message.Offset` = 0 uncompressed, 0..n-1 inside a wrapper) -/
theorem legacy_v1_write_spec (c : Crcs) (h1 : ∀ b, c.ieee b < M32) (h2 : ∀ b, c.castagnoli b < M32) (recs : List PRec)
    (hwf0 : ∀ m ∈ legacyMsgs 0 (fun _ => 0) 0 recs, m.WF) (hwf1 : ∀ m ∈ legacyMsgs 0 (fun j => (j : Int)) 0 recs, m.WF) :
    decodeSet c (legacyMessageSet c.ieee recs) = some ((legacyMsgs 0 (fun _ => 0) 0 recs).map Entry.msg) ∧
    decodeSet c (legacyInner c.ieee 0 recs) = some ((legacyMsgs 0 (fun j => (j : Int)) 0 recs).map Entry.msg) := by
  constructor
  · rw [legacyMessageSet_eq c recs 0]
    apply decodeSet_encSet c h1 h2
    intro e he
    simp only [List.mem_map] at he
    obtain ⟨m, hm, rfl⟩ := he
    exact hwf0 m hm
  · rw [legacyInner_eq c recs 0]
    apply decodeSet_encSet c h1 h2
    intro e he
    simp only [List.mem_map] at he
    obtain ⟨m, hm, rfl⟩ := he
    exact hwf1 m hm

end KV.Model.RecordWriter
