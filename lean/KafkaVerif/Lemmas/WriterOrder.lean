/-
Lemmas/WriterOrder.lean — the ordering invariant of the Writer LTS (for C07 `order_preserved`).

Ghost data: every `add` stamps the message with the global submission counter `s.seq`; log entries carry
the stamp and the batch they were copied from.  The invariant says, for every partition writer, that its
pipeline (batch being sent, queue, detached-not-yet-put, attached) is duplicate free, ordered by stamps,
and that everything already in the partition's log is older than everything still in the pipeline (or is a
copy of the very batch being sent).  With "one partition writer per topic-partition" (`uniq`) this gives the
pairwise order of the log.
-/
import KafkaVerif.Lemmas.WriterInv

namespace KV.Writer

theorem upd_some_elim {β : Type} {f : Nat → Option β} {a x : Nat} {v w : β} (h : upd f a (some v) x = some w) :
    (x = a ∧ w = v) ∨ (x ≠ a ∧ f x = some w) := by
  by_cases hx : x = a
  · subst hx; simp at h; exact Or.inl ⟨rfl, h.symm⟩
  · rw [upd_other _ _ _ _ hx] at h; exact Or.inr ⟨hx, h⟩

/-- stamps of the first batch are all smaller than stamps of the second (looked up in `bt`) -/
def SeqBefore (bt : Nat → Option Batch) (b b' : Nat) : Prop :=
  ∀ B B', bt b = some B → bt b' = some B' → ∀ m ∈ B.msgs, ∀ m' ∈ B'.msgs, m.seq < m'.seq

def LogRel (x y : LogEntry) : Prop := x.seq < y.seq ∨ x.batch = y.batch

structure InvOrd (s : State) : Prop where
  counterB : ∀ b B, s.batches b = some B → ∀ m ∈ B.msgs, m.seq < s.seq
  counterL : ∀ tp, ∀ x ∈ s.log tp, x.seq < s.seq
  sorted : ∀ b B, s.batches b = some B → B.msgs.Pairwise (fun m m' => m.seq < m'.seq)
  uniq : ∀ pw P, s.pws pw = some P → s.pwOf P.tp = some pw
  pipeEx : ∀ pw P, s.pws pw = some P → ∀ b ∈ P.pipe, ∃ B, s.batches b = some B ∧ B.pw = pw
  pipeNodup : ∀ pw P, s.pws pw = some P → P.pipe.Nodup
  pipeSeq : ∀ pw P, s.pws pw = some P → P.pipe.Pairwise (SeqBefore s.batches)
  logSeq : ∀ pw P, s.pws pw = some P → ∀ x ∈ s.log P.tp, ∀ b ∈ P.pipe, ∀ B, s.batches b = some B →
    ∀ m ∈ B.msgs, x.seq < m.seq ∨ x.batch = b
  logOrd : ∀ tp, (s.log tp).Pairwise LogRel

theorem invOrd_init : InvOrd State.init := by
  constructor <;> simp [State.init]

/-- the invariant survives any change that only shrinks pipelines, keeps every batch's messages and owner,
and leaves logs, the counter and the topic-partition index alone -/
theorem InvOrd.of_shrink {s s' : State} (h : InvOrd s)
    (hpwOf : s'.pwOf = s.pwOf) (hseq : s'.seq = s.seq) (hlog : s'.log = s.log)
    (hpws : ∀ pw P', s'.pws pw = some P' → ∃ P, s.pws pw = some P ∧ P'.tp = P.tp ∧ P'.pipe.Sublist P.pipe)
    (hbat : ∀ b B', s'.batches b = some B' → ∃ B, s.batches b = some B ∧ B'.msgs = B.msgs ∧ B'.pw = B.pw)
    (hbat' : ∀ b B, s.batches b = some B → ∃ B', s'.batches b = some B' ∧ B'.msgs = B.msgs ∧ B'.pw = B.pw) :
    InvOrd s' := by
  have hSB : ∀ b b', SeqBefore s.batches b b' → SeqBefore s'.batches b b' := by
    intro b b' hr B1' B2' h1 h2 m hm m' hm'
    obtain ⟨B1, hB1, e1, -⟩ := hbat _ _ h1
    obtain ⟨B2, hB2, e2, -⟩ := hbat _ _ h2
    exact hr B1 B2 hB1 hB2 m (e1 ▸ hm) m' (e2 ▸ hm')
  constructor
  · intro b B' hb m hm
    obtain ⟨B, hB, e, -⟩ := hbat _ _ hb
    rw [hseq]; exact h.counterB b B hB m (e ▸ hm)
  · intro tp x hx; rw [hseq]; rw [hlog] at hx; exact h.counterL tp x hx
  · intro b B' hb
    obtain ⟨B, hB, e, -⟩ := hbat _ _ hb
    rw [e]; exact h.sorted b B hB
  · intro pw P' hp
    obtain ⟨P, hP, e, -⟩ := hpws _ _ hp
    rw [hpwOf, e]; exact h.uniq pw P hP
  · intro pw P' hp b hb
    obtain ⟨P, hP, -, hsub⟩ := hpws _ _ hp
    obtain ⟨B, hB, hpw⟩ := h.pipeEx pw P hP b (hsub.subset hb)
    obtain ⟨B', hB', -, e⟩ := hbat' _ _ hB
    exact ⟨B', hB', e ▸ hpw⟩
  · intro pw P' hp
    obtain ⟨P, hP, -, hsub⟩ := hpws _ _ hp
    exact (h.pipeNodup pw P hP).sublist hsub
  · intro pw P' hp
    obtain ⟨P, hP, -, hsub⟩ := hpws _ _ hp
    exact ((h.pipeSeq pw P hP).sublist hsub).imp (hSB _ _)
  · intro pw P' hp x hx b hb B' hB' m hm
    obtain ⟨P, hP, e, hsub⟩ := hpws _ _ hp
    obtain ⟨B, hB, e2, -⟩ := hbat _ _ hB'
    rw [hlog, e] at hx
    exact h.logSeq pw P hP x hx b (hsub.subset hb) B hB m (e2 ▸ hm)
  · intro tp; rw [hlog]; exact h.logOrd tp

theorem shrink_pws {s : State} {pws' : Nat → Option PW} {pw : Nat} {P P' : PW} (hP : s.pws pw = some P)
    (e : pws' = upd s.pws pw (some P')) (htp : P'.tp = P.tp) (hsub : P'.pipe.Sublist P.pipe) :
    ∀ x Q', pws' x = some Q' → ∃ Q, s.pws x = some Q ∧ Q'.tp = Q.tp ∧ Q'.pipe.Sublist Q.pipe := by
  intro x Q' hx
  rw [e] at hx
  rcases upd_some_elim hx with ⟨rfl, rfl⟩ | ⟨-, h⟩
  · exact ⟨P, hP, htp, hsub⟩
  · exact ⟨Q', h, rfl, List.Sublist.refl _⟩

theorem shrink_pws_id {s : State} : ∀ x Q', s.pws x = some Q' → ∃ Q, s.pws x = some Q ∧ Q'.tp = Q.tp ∧ Q'.pipe.Sublist Q.pipe :=
  fun _ Q' h => ⟨Q', h, rfl, List.Sublist.refl _⟩

theorem shrink_bat {s : State} {bt' : Nat → Option Batch} {b : Nat} {B B' : Batch} (hB : s.batches b = some B)
    (e : bt' = upd s.batches b (some B')) (hm : B'.msgs = B.msgs) (hp : B'.pw = B.pw) :
    (∀ x X', bt' x = some X' → ∃ X, s.batches x = some X ∧ X'.msgs = X.msgs ∧ X'.pw = X.pw) ∧
    (∀ x X, s.batches x = some X → ∃ X', bt' x = some X' ∧ X'.msgs = X.msgs ∧ X'.pw = X.pw) := by
  constructor
  · intro x X' hx
    rw [e] at hx
    rcases upd_some_elim hx with ⟨rfl, rfl⟩ | ⟨-, h⟩
    · exact ⟨B, hB, hm, hp⟩
    · exact ⟨X', h, rfl, rfl⟩
  · intro x X hx
    by_cases hxb : x = b
    · subst hxb; rw [hB] at hx; cases hx
      exact ⟨B', by rw [e]; simp, hm, hp⟩
    · exact ⟨X, by rw [e, upd_other _ _ _ _ hxb]; exact hx, rfl, rfl⟩

theorem shrink_bat_id {s : State} :
    (∀ x X', s.batches x = some X' → ∃ X, s.batches x = some X ∧ X'.msgs = X.msgs ∧ X'.pw = X.pw) ∧
    (∀ x X, s.batches x = some X → ∃ X', s.batches x = some X' ∧ X'.msgs = X.msgs ∧ X'.pw = X.pw) :=
  ⟨fun _ X h => ⟨X, h, rfl, rfl⟩, fun _ X h => ⟨X, h, rfl, rfl⟩⟩

theorem head?_cons_tail {l : List Nat} {b : Nat} (h : l.head? = some b) : l = b :: l.tail := by
  cases l with
  | nil => simp at h
  | cons a t => simp at h; simp [h]

theorem seqBefore_congr {bt bt' : Nat → Option Batch} {x y : Nat} (hx : bt' x = bt x) (hy : bt' y = bt y)
    (h : SeqBefore bt x y) : SeqBefore bt' x y := by
  intro B B' h1 h2; rw [hx] at h1; rw [hy] at h2; exact h B B' h1 h2

theorem invOrd_newPW {s : State} (hI : InvOrd s) {pw q : Nat} {tp : TP} (h1 : s.pwOf tp = none) (h2 : s.pws pw = none) :
    InvOrd { s with pwOf := upd s.pwOf tp (some pw), qOf := upd s.qOf q (some pw), pwIds := s.pwIds ++ [pw],
                    tps := s.tps ++ [tp], pws := upd s.pws pw (some (PW.new tp q)) } := by
  have hnew : (PW.new tp q).pipe = [] := by simp [PW.new, PW.pipe, Sender.batch?]
  constructor
  · exact hI.counterB
  · exact hI.counterL
  · exact hI.sorted
  · intro x X hx
    rcases upd_some_elim hx with ⟨rfl, rfl⟩ | ⟨hne, h⟩
    · simp [PW.new]
    · have := hI.uniq x X h
      have hne2 : X.tp ≠ tp := by intro e; rw [e, h1] at this; cases this
      show upd s.pwOf tp (some pw) X.tp = some x
      rw [upd_other _ _ _ _ hne2]; exact this
  · intro x X hx b hb
    rcases upd_some_elim hx with ⟨rfl, rfl⟩ | ⟨hne, h⟩
    · rw [hnew] at hb; cases hb
    · exact hI.pipeEx x X h b hb
  · intro x X hx
    rcases upd_some_elim hx with ⟨rfl, rfl⟩ | ⟨hne, h⟩
    · rw [hnew]; exact List.nodup_nil
    · exact hI.pipeNodup x X h
  · intro x X hx
    rcases upd_some_elim hx with ⟨rfl, rfl⟩ | ⟨hne, h⟩
    · rw [hnew]; exact List.Pairwise.nil
    · exact hI.pipeSeq x X h
  · intro x X hx y hy b hb
    rcases upd_some_elim hx with ⟨rfl, rfl⟩ | ⟨hne, h⟩
    · rw [hnew] at hb; cases hb
    · exact hI.logSeq x X h y hy b hb
  · exact hI.logOrd

theorem invOrd_newBatch {s s' : State} (hI : InvOrd s) {pw b : Nat} {P : PW} (hP : s.pws pw = some P)
    (hc : P.curr = none) (hpend : P.pending = none) (hb : s.batches b = none)
    (epws : s'.pws = upd s.pws pw (some { P with curr := some b, nbatches := P.nbatches + 1 }))
    (ebat : s'.batches = upd s.batches b (some (Batch.new pw P.tp P.nbatches)))
    (elog : s'.log = s.log) (eseq : s'.seq = s.seq) (epwOf : s'.pwOf = s.pwOf) : InvOrd s' := by
  have hpipe : ({ P with curr := some b, nbatches := P.nbatches + 1 } : PW).pipe = P.pipe ++ [b] := by
    simp [PW.pipe, hc, hpend]
  -- every batch in any old pipeline exists, hence differs from the fresh id b
  have hne : ∀ x X, s.pws x = some X → ∀ y ∈ X.pipe, y ≠ b := by
    intro x X hx y hy e
    obtain ⟨B, hB, -⟩ := hI.pipeEx x X hx y hy
    rw [e, hb] at hB; cases hB
  have hlook : ∀ y, y ≠ b → s'.batches y = s.batches y := fun y hy => by rw [ebat]; exact upd_other _ _ _ _ hy
  have hlookb : s'.batches b = some (Batch.new pw P.tp P.nbatches) := by rw [ebat]; simp
  have hnewmsgs : (Batch.new pw P.tp P.nbatches).msgs = [] := rfl
  constructor
  · intro x X hx m hm
    rw [ebat] at hx; rw [eseq]
    rcases upd_some_elim hx with ⟨rfl, rfl⟩ | ⟨-, h⟩
    · rw [hnewmsgs] at hm; cases hm
    · exact hI.counterB x X h m hm
  · rw [elog, eseq]; exact hI.counterL
  · intro x X hx
    rw [ebat] at hx
    rcases upd_some_elim hx with ⟨rfl, rfl⟩ | ⟨-, h⟩
    · rw [hnewmsgs]; exact List.Pairwise.nil
    · exact hI.sorted x X h
  · intro x X hx
    rw [epws] at hx; rw [epwOf]
    rcases upd_some_elim hx with ⟨rfl, rfl⟩ | ⟨-, h⟩
    · exact hI.uniq x P hP
    · exact hI.uniq x X h
  · intro x X hx y hy
    rw [epws] at hx
    rcases upd_some_elim hx with ⟨rfl, rfl⟩ | ⟨-, h⟩
    · rw [hpipe] at hy
      rcases List.mem_append.mp hy with hy | hy
      · obtain ⟨B, hB, hpw⟩ := hI.pipeEx x P hP y hy
        exact ⟨B, by rw [hlook y (hne x P hP y hy)]; exact hB, hpw⟩
      · simp at hy; subst hy
        exact ⟨_, hlookb, rfl⟩
    · obtain ⟨B, hB, hpw⟩ := hI.pipeEx x X h y hy
      exact ⟨B, by rw [hlook y (hne x X h y hy)]; exact hB, hpw⟩
  · intro x X hx
    rw [epws] at hx
    rcases upd_some_elim hx with ⟨rfl, rfl⟩ | ⟨-, h⟩
    · rw [hpipe]
      refine List.nodup_append.mpr ⟨hI.pipeNodup x P hP, by simp, ?_⟩
      intro y hy z hz
      simp at hz; subst hz
      exact hne x P hP y hy
    · exact hI.pipeNodup x X h
  · intro x X hx
    rw [epws] at hx
    rcases upd_some_elim hx with ⟨rfl, rfl⟩ | ⟨-, h⟩
    · rw [hpipe]
      refine List.pairwise_append.mpr ⟨?_, List.pairwise_singleton _ _, ?_⟩
      · have := hI.pipeSeq x P hP
        refine List.Pairwise.imp_of_mem ?_ this
        intro y z hy hz hr
        exact seqBefore_congr (hlook y (hne x P hP y hy)) (hlook z (hne x P hP z hz)) hr
      · intro y hy z hz
        simp at hz; subst hz
        intro B B' _ h2 m _ m' hm'
        rw [hlookb] at h2; cases h2
        rw [hnewmsgs] at hm'; cases hm'
    · have := hI.pipeSeq x X h
      refine List.Pairwise.imp_of_mem ?_ this
      intro y z hy hz hr
      exact seqBefore_congr (hlook y (hne x X h y hy)) (hlook z (hne x X h z hz)) hr
  · intro x X hx e he y hy B hB m hm
    rw [epws] at hx; rw [elog] at he
    rcases upd_some_elim hx with ⟨rfl, rfl⟩ | ⟨-, h⟩
    · rw [hpipe] at hy
      rcases List.mem_append.mp hy with hy | hy
      · have hB' : s.batches y = some B := by rw [← hlook y (hne x P hP y hy)]; exact hB
        exact hI.logSeq x P hP e he y hy B hB' m hm
      · simp at hy; subst hy
        rw [hlookb] at hB; cases hB
        rw [hnewmsgs] at hm; cases hm
    · have hB' : s.batches y = some B := by rw [← hlook y (hne x X h y hy)]; exact hB
      exact hI.logSeq x X h e he y hy B hB' m hm
  · rw [elog]; exact hI.logOrd

theorem invOrd_add {s s' : State} (hI : InvOrd s) {pw b : Nat} {P : PW} {B : Batch} {m : BMsg}
    (hP : s.pws pw = some P) (hB : s.batches b = some B) (hc : P.curr = some b) (hpend : P.pending = none)
    (hBpw : B.pw = pw) (hm : m.seq = s.seq)
    (epws : s'.pws = s.pws) (ebat : s'.batches = upd s.batches b (some (B.push m)))
    (elog : s'.log = s.log) (eseq : s'.seq = s.seq + 1) (epwOf : s'.pwOf = s.pwOf) : InvOrd s' := by
  have hlook : ∀ y, y ≠ b → s'.batches y = s.batches y := fun y hy => by rw [ebat]; exact upd_other _ _ _ _ hy
  have hlookb : s'.batches b = some (B.push m) := by rw [ebat]; simp
  have hmsgs : (B.push m).msgs = B.msgs ++ [m] := rfl
  -- b sits only in pw's pipeline, as its last element
  have hpipe : P.pipe = (P.sender.batch?.toList ++ P.queue) ++ [b] := by simp [PW.pipe, hc, hpend]
  have hnotin : ∀ x X, s.pws x = some X → x ≠ pw → b ∉ X.pipe := by
    intro x X hx hne hmem
    obtain ⟨B', hB', hpw'⟩ := hI.pipeEx x X hx b hmem
    rw [hB] at hB'; cases hB'
    exact hne (hpw'.symm.trans hBpw)
  have hfront : b ∉ P.sender.batch?.toList ++ P.queue := by
    have := hI.pipeNodup pw P hP
    rw [hpipe] at this
    have := (List.nodup_append.mp this).2.2
    intro hmem
    exact this b hmem b (by simp) rfl
  -- stamps of every message of the new version of a batch
  have hmem' : ∀ y Y', s'.batches y = some Y' → ∀ x ∈ Y'.msgs,
      (∃ Y, s.batches y = some Y ∧ x ∈ Y.msgs) ∨ (y = b ∧ x = m) := by
    intro y Y' hy x hx
    by_cases hyb : y = b
    · subst hyb; rw [hlookb] at hy; cases hy
      rw [hmsgs] at hx
      rcases List.mem_append.mp hx with hx | hx
      · exact Or.inl ⟨B, hB, hx⟩
      · simp at hx; exact Or.inr ⟨rfl, hx⟩
    · rw [hlook y hyb] at hy; exact Or.inl ⟨Y', hy, hx⟩
  have hSB : ∀ y z, y ≠ b → SeqBefore s.batches y z → (∃ Y, s.batches y = some Y) → SeqBefore s'.batches y z := by
    intro y z hyb hr hex Y Z' hy hz a ha c hc'
    rw [hlook y hyb] at hy
    rcases hmem' z Z' hz c hc' with ⟨Z, hZ, hcz⟩ | ⟨-, rfl⟩
    · exact hr Y Z hy hZ a ha c hcz
    · rw [hm]; exact hI.counterB y Y hy a ha
  constructor
  · intro x X hx a ha
    rw [eseq]
    rcases hmem' x X hx a ha with ⟨Y, hY, haY⟩ | ⟨-, rfl⟩
    · exact Nat.lt_succ_of_lt (hI.counterB x Y hY a haY)
    · omega
  · intro tp x hx; rw [elog] at hx; rw [eseq]; exact Nat.lt_succ_of_lt (hI.counterL tp x hx)
  · intro x X hx
    by_cases hxb : x = b
    · subst hxb; rw [hlookb] at hx; cases hx
      rw [hmsgs]
      refine List.pairwise_append.mpr ⟨hI.sorted x B hB, List.pairwise_singleton _ _, ?_⟩
      intro a ha c hc'
      simp at hc'; subst hc'
      rw [hm]; exact hI.counterB x B hB a ha
    · rw [hlook x hxb] at hx; exact hI.sorted x X hx
  · intro x X hx; rw [epws] at hx; rw [epwOf]; exact hI.uniq x X hx
  · intro x X hx y hy
    rw [epws] at hx
    obtain ⟨Y, hY, hpw⟩ := hI.pipeEx x X hx y hy
    by_cases hyb : y = b
    · subst hyb; rw [hB] at hY; cases hY
      exact ⟨_, hlookb, hpw⟩
    · exact ⟨Y, by rw [hlook y hyb]; exact hY, hpw⟩
  · intro x X hx; rw [epws] at hx; exact hI.pipeNodup x X hx
  · intro x X hx
    rw [epws] at hx
    have hps := hI.pipeSeq x X hx
    by_cases hxpw : x = pw
    · subst hxpw; rw [hP] at hx; cases hx
      rw [hpipe] at hps ⊢
      obtain ⟨h1, -, h3⟩ := List.pairwise_append.mp hps
      refine List.pairwise_append.mpr ⟨?_, List.pairwise_singleton _ _, ?_⟩
      · refine List.Pairwise.imp_of_mem ?_ h1
        intro y z hy hz hr
        have hyb : y ≠ b := fun e => hfront (e ▸ hy)
        obtain ⟨Y, hY, -⟩ := hI.pipeEx x P hP y (by rw [hpipe]; exact List.mem_append_left _ hy)
        exact hSB y z hyb hr ⟨Y, hY⟩
      · intro y hy z hz
        have hyb : y ≠ b := fun e => hfront (e ▸ hy)
        obtain ⟨Y, hY, -⟩ := hI.pipeEx x P hP y (by rw [hpipe]; exact List.mem_append_left _ hy)
        exact hSB y z hyb (h3 y hy z hz) ⟨Y, hY⟩
    · refine List.Pairwise.imp_of_mem ?_ hps
      intro y z hy hz hr
      have hyb : y ≠ b := fun e => hnotin x X hx hxpw (e ▸ hy)
      obtain ⟨Y, hY, -⟩ := hI.pipeEx x X hx y hy
      exact hSB y z hyb hr ⟨Y, hY⟩
  · intro x X hx e he y hy Y' hY' a ha
    rw [epws] at hx; rw [elog] at he
    rcases hmem' y Y' hY' a ha with ⟨Y, hY, haY⟩ | ⟨-, rfl⟩
    · exact hI.logSeq x X hx e he y hy Y hY a haY
    · left; rw [hm]; exact hI.counterL X.tp e he
  · rw [elog]; exact hI.logOrd

theorem invOrd_produce {s s' : State} (hI : InvOrd s) {pw b k : Nat} {P : PW} {B : Batch} {tp : TP} {out : BrOut}
    (hP : s.pws pw = some P) (hB : s.batches b = some B) (hsend : P.sender = .attempting b k none)
    (hPtp : P.tp = tp)
    (epws : s'.pws = upd s.pws pw (some { P with sender := .attempting b k (some out) }))
    (ebat : s'.batches = upd s.batches b (some (B.noteProduce out)))
    (elog : s'.log = upd s.log tp (s.log tp ++ mkEntries pw b B)) (eseq : s'.seq = s.seq)
    (epwOf : s'.pwOf = s.pwOf) : InvOrd s' := by
  have hpipe' : ({ P with sender := .attempting b k (some out) } : PW).pipe = P.pipe := by
    simp [PW.pipe, hsend, Sender.batch?]
  have hhead : P.pipe = b :: (P.queue ++ P.pending.toList ++ P.curr.toList) := by
    simp [PW.pipe, hsend, Sender.batch?]
  have hb := shrink_bat (B' := B.noteProduce out) hB ebat rfl rfl
  have hpws : ∀ x X', s'.pws x = some X' → ∃ X, s.pws x = some X ∧ X'.tp = X.tp ∧ X'.pipe = X.pipe := by
    intro x X' hx
    rw [epws] at hx
    rcases upd_some_elim hx with ⟨rfl, rfl⟩ | ⟨-, h⟩
    · exact ⟨P, hP, rfl, hpipe'⟩
    · exact ⟨X', h, rfl, rfl⟩
  have hSB : ∀ y z, SeqBefore s.batches y z → SeqBefore s'.batches y z := by
    intro y z hr B1' B2' h1 h2 m hm m' hm'
    obtain ⟨B1, hB1, e1, -⟩ := hb.1 _ _ h1
    obtain ⟨B2, hB2, e2, -⟩ := hb.1 _ _ h2
    exact hr B1 B2 hB1 hB2 m (e1 ▸ hm) m' (e2 ▸ hm')
  have hlogtp : s'.log tp = s.log tp ++ mkEntries pw b B := by rw [elog]; simp
  have hlogne : ∀ t, t ≠ tp → s'.log t = s.log t := fun t ht => by rw [elog]; exact upd_other _ _ _ _ ht
  have hent : ∀ x ∈ mkEntries pw b B, ∃ m ∈ B.msgs, x.seq = m.seq ∧ x.batch = b := by
    intro x hx
    obtain ⟨m, hm, rfl⟩ := List.mem_map.mp hx
    exact ⟨m, hm, rfl, rfl⟩
  constructor
  · intro x X' hx m hm
    obtain ⟨X, hX, e, -⟩ := hb.1 _ _ hx
    rw [eseq]; exact hI.counterB x X hX m (e ▸ hm)
  · intro t x hx
    rw [eseq]
    by_cases ht : t = tp
    · subst ht; rw [hlogtp] at hx
      rcases List.mem_append.mp hx with hx | hx
      · exact hI.counterL t x hx
      · obtain ⟨m, hm, e, -⟩ := hent x hx
        rw [e]; exact hI.counterB b B hB m hm
    · rw [hlogne t ht] at hx; exact hI.counterL t x hx
  · intro x X' hx
    obtain ⟨X, hX, e, -⟩ := hb.1 _ _ hx
    rw [e]; exact hI.sorted x X hX
  · intro x X' hx
    obtain ⟨X, hX, e, -⟩ := hpws _ _ hx
    rw [epwOf, e]; exact hI.uniq x X hX
  · intro x X' hx y hy
    obtain ⟨X, hX, -, e⟩ := hpws _ _ hx
    obtain ⟨Y, hY, hpw⟩ := hI.pipeEx x X hX y (e ▸ hy)
    obtain ⟨Y', hY', -, e2⟩ := hb.2 _ _ hY
    exact ⟨Y', hY', e2 ▸ hpw⟩
  · intro x X' hx
    obtain ⟨X, hX, -, e⟩ := hpws _ _ hx
    rw [e]; exact hI.pipeNodup x X hX
  · intro x X' hx
    obtain ⟨X, hX, -, e⟩ := hpws _ _ hx
    rw [e]; exact (hI.pipeSeq x X hX).imp (hSB _ _)
  · intro x X' hx e he y hy Y' hY' a ha
    obtain ⟨X, hX, etp, epipe⟩ := hpws _ _ hx
    obtain ⟨Y, hY, emsgs, -⟩ := hb.1 _ _ hY'
    rw [epipe] at hy; rw [emsgs] at ha; rw [etp] at he
    by_cases ht : X.tp = tp
    · -- then x is the producing partition writer
      have hxpw : x = pw := by
        have h1 := hI.uniq x X hX
        have h2 := hI.uniq pw P hP
        rw [ht] at h1; rw [hPtp] at h2; rw [h1] at h2; cases h2; rfl
      subst hxpw; rw [hP] at hX; cases hX
      rw [ht, hlogtp] at he
      rcases List.mem_append.mp he with he | he
      · exact hI.logSeq x P hP e (ht ▸ he) y hy Y hY a ha
      · obtain ⟨m0, hm0, es, eb⟩ := hent e he
        by_cases hyb : y = b
        · right; rw [eb, hyb]
        · left
          have hps := hI.pipeSeq x P hP
          rw [hhead] at hps hy
          have hy' : y ∈ P.queue ++ P.pending.toList ++ P.curr.toList := by
            rcases List.mem_cons.mp hy with h | h
            · exact absurd h hyb
            · exact h
          have := (List.pairwise_cons.mp hps).1 y hy'
          rw [es]; exact this B Y hB hY m0 hm0 a ha
    · rw [hlogne _ ht] at he
      exact hI.logSeq x X hX e he y hy Y hY a ha
  · intro t
    by_cases ht : t = tp
    · subst ht; rw [hlogtp]
      refine List.pairwise_append.mpr ⟨hI.logOrd t, ?_, ?_⟩
      · unfold mkEntries
        refine List.Pairwise.map _ ?_ (hI.sorted b B hB)
        intro m m' h; exact Or.inl h
      · intro x hx y hy
        obtain ⟨m0, hm0, es, eb⟩ := hent y hy
        have := hI.logSeq pw P hP x (hPtp ▸ hx) b (by rw [hhead]; simp) B hB m0 hm0
        rcases this with h | h
        · left; rw [es]; exact h
        · right; rw [eb]; exact h
    · rw [hlogne t ht]; exact hI.logOrd t

theorem invOrd_step (cfg : Cfg) (s : State) (e : Event) (s' : State) (hI : InvOrd s) (hs : step cfg s e = some s') :
    InvOrd s' := by
  cases e with
  | detach pw b why size =>
    simp only [step, stepDetach] at hs
    repeat' split at hs
    all_goals (first | (cases hs; done) | skip)
    rename_i _ P hP _ B hB hg
    obtain ⟨hc, hpend, -, -⟩ := hg
    cases hs
    have hb := shrink_bat (B' := { B with detached := some why }) hB rfl rfl rfl
    exact hI.of_shrink rfl rfl rfl
      (shrink_pws hP rfl rfl (by simp [PW.pipe, hc, hpend])) hb.1 hb.2
  | qput q b acc =>
    simp only [step] at hs
    repeat' split at hs
    all_goals (first | (cases hs; done) | skip)
    rename_i _ pw hq _ P hP hg
    obtain ⟨hpend, hc, -⟩ := hg
    cases hs
    exact hI.of_shrink rfl rfl rfl
      (shrink_pws hP rfl rfl (by cases acc <;> simp [PW.pipe, hc, hpend, enq])) shrink_bat_id.1 shrink_bat_id.2
  | qget q ob =>
    simp only [step] at hs
    repeat' split at hs
    all_goals (first | (cases hs; done) | skip)
    · rename_i _ pw hq _ P hP _ b hg
      obtain ⟨hsend, hhead⟩ := hg
      cases hs
      refine hI.of_shrink rfl rfl rfl (shrink_pws hP rfl rfl ?_) shrink_bat_id.1 shrink_bat_id.2
      have := head?_cons_tail hhead
      simp only [PW.pipe, hsend, Sender.batch?]
      rw [this]; simp
    · rename_i _ pw hq _ P hP _ hg
      obtain ⟨hsend, -, -⟩ := hg
      cases hs
      exact hI.of_shrink rfl rfl rfl (shrink_pws hP rfl rfl (by simp [PW.pipe, hsend, Sender.batch?])) shrink_bat_id.1 shrink_bat_id.2
  | qclose q =>
    simp only [step] at hs
    repeat' split at hs
    all_goals (first | (cases hs; done) | skip)
    rename_i _ pw hq _ P hP hg
    cases hs
    exact hI.of_shrink rfl rfl rfl (shrink_pws hP rfl rfl (by simp [PW.pipe])) shrink_bat_id.1 shrink_bat_id.2
  | timerFire pw b att =>
    simp only [step] at hs
    repeat' split at hs
    all_goals (first | (cases hs; done) | skip)
    rename_i _ P hP _ B hB hg
    cases hs
    have hb := shrink_bat (B' := { B with timerFired := true }) hB rfl rfl rfl
    exact hI.of_shrink rfl rfl rfl shrink_pws_id hb.1 hb.2
  | attempt pw b k =>
    simp only [step] at hs
    repeat' split at hs
    all_goals (first | (cases hs; done) | skip)
    rename_i _ P hP hg
    cases hs
    exact hI.of_shrink rfl rfl rfl (shrink_pws hP rfl rfl (by simp [PW.pipe, hg.1, Sender.batch?])) shrink_bat_id.1 shrink_bat_id.2
  | attemptDone pw b k code =>
    simp only [step] at hs
    repeat' split at hs
    all_goals (first | (cases hs; done) | skip)
    rename_i _ P hP _ b' k' br hsend hg
    obtain ⟨rfl, rfl, -⟩ := hg
    cases hs
    refine hI.of_shrink rfl rfl rfl (shrink_pws hP rfl rfl ?_) shrink_bat_id.1 shrink_bat_id.2
    have : (afterAttempt cfg b' k' code).batch? = some b' := by
      unfold afterAttempt
      split
      · rfl
      · split <;> rfl
    simp only [PW.pipe]
    rw [this, hsend]
    simp [Sender.batch?]
  | completion pw b code =>
    simp only [step] at hs
    repeat' split at hs
    all_goals (first | (cases hs; done) | skip)
    rename_i _ P hP _ B hB hg
    cases hs
    have hb := shrink_bat (B' := { B with ncompl := B.ncompl + 1, cbCode := some code }) hB rfl rfl rfl
    exact hI.of_shrink rfl rfl rfl (shrink_pws hP rfl rfl (by simp [PW.pipe, hg.2, Sender.batch?])) hb.1 hb.2
  | complete pw b code =>
    simp only [step] at hs
    repeat' split at hs
    all_goals (first | (cases hs; done) | skip)
    rename_i _ P hP _ B hB hg
    cases hs
    have hb := shrink_bat (B' := { B with done := some code }) hB rfl rfl rfl
    exact hI.of_shrink rfl rfl rfl (shrink_pws hP rfl rfl (by simp [PW.pipe, hg, Sender.batch?])) hb.1 hb.2
  | newPW pw q tp =>
    simp only [step] at hs
    repeat' split at hs
    all_goals (first | (cases hs; done) | skip)
    rename_i hg
    obtain ⟨-, -, h1, h2, -⟩ := hg
    cases hs
    exact invOrd_newPW hI (by simpa using h1) (by simpa using h2)
  | newBatch pw b =>
    simp only [step] at hs
    repeat' split at hs
    all_goals (first | (cases hs; done) | skip)
    rename_i _ P hP hg
    obtain ⟨-, hc, hpend, hb, -⟩ := hg
    cases hs
    exact invOrd_newBatch hI hP hc hpend (by simpa using hb) rfl rfl rfl rfl rfl
  | add pw b c i size =>
    simp only [step, stepAdd] at hs
    repeat' split at hs
    all_goals (first | (cases hs; done) | skip)
    rename_i _ P hP _ B hB _ C hC hg
    obtain ⟨-, hc, hpend, hBpw, -⟩ := hg
    cases hs
    exact invOrd_add (m := { msg := (c, i), size := size, seq := s.seq }) hI hP hB hc hpend hBpw rfl rfl rfl rfl rfl rfl
  | produce pw tp msgs out =>
    simp only [step, stepProduce] at hs
    repeat' split at hs
    all_goals (first | (cases hs; done) | skip)
    rename_i _ P hP _ b k hsend _ B hB hg
    obtain ⟨-, -, hPtp, -⟩ := hg
    cases hs
    by_cases happ : out.applied = true
    · exact invOrd_produce hI hP hB hsend hPtp rfl rfl (by rw [produced_log]; simp [happ]) rfl rfl
    · have hb := shrink_bat (B' := B.noteProduce out) hB rfl rfl rfl
      exact hI.of_shrink rfl rfl (by rw [produced_log]; simp [happ])
        (shrink_pws hP rfl rfl (by simp [PW.pipe, hsend, Sender.batch?])) hb.1 hb.2
  | _ =>
    simp only [step, stepReject, stepRet] at hs
    repeat' split at hs
    all_goals (first | (cases hs; done) | skip)
    all_goals (cases hs)
    all_goals exact hI.of_shrink rfl rfl rfl shrink_pws_id shrink_bat_id.1 shrink_bat_id.2

theorem invOrd (cfg : Cfg) : ∀ s, Reachable cfg s → InvOrd s :=
  invariant_of_step cfg InvOrd invOrd_init (fun s e s' => invOrd_step cfg s e s')

end KV.Writer
