/-
Lemmas/FetcherDeadlines.lean — a cancelled fetcher gets out of every blocking network operation iff that operation has
a deadline (Model/FetcherDeadlines.lean).
-/
import KafkaVerif.Model.FetcherDeadlines
import KafkaVerif.Lemmas.FetcherLife
namespace KV.FetcherLife

theorem stepSilent_sub (f : NetFacts) (s s' : State) (e : Event) (h : stepSilent f s e = some s') : step s e = some s' := by
  unfold stepSilent at h
  split at h
  · split at h
    · exact h
    · cases h
  · exact h

theorem stepSilent_all (f : NetFacts) (ho : f.offsets = true) (hr : f.read = true) (s : State) (e : Event) :
    stepSilent f s e = step s e := by
  unfold stepSilent
  cases e <;> simp [Event.deadline, ho, hr]

/-- against a silent broker too, every control step of a cancelled fetcher lowers `rank` -/
theorem terminates_after_cancel_silent (f : NetFacts) (s s' : State) (e : Event) (hc : s.cancelled = true)
    (he : e.control = true) (h : stepSilent f s e = some s') : rank s' < rank s ∧ s'.cancelled = true :=
  terminates_after_cancel s s' e hc he (stepSilent_sub f s s' e h)

/-- **with every deadline in place a cancelled fetcher is never blocked, whatever the broker does**: while it has not
exited a control step is enabled against a silent broker, and it is `cancel` only when the pending sleep really sees
the context done — inside a network operation the enabled step is that operation's (failed) return -/
theorem progress_after_cancel_silent (f : NetFacts) (ho : f.offsets = true) (hr : f.read = true) (s : State)
    (hc : s.cancelled = true) (hx : s.pc ≠ .exited) :
    ∃ e, e.control = true ∧ (stepSilent f s e).isSome = true ∧ (e = .cancel → s.sampled = true) := by
  obtain ⟨pc, co, ca, sa⟩ := s
  simp only at hc hx; subst hc
  simp only [stepSilent_all f ho hr]
  cases pc
  case exited => exact absurd rfl hx
  case idle0 => exact ⟨.top 0, rfl, by simp [step], by intro h; cases h⟩
  case top =>
    cases sa
    · exact ⟨.init false, rfl, by simp [step], by intro h; cases h⟩
    · exact ⟨.cancel, rfl, by simp [step], fun _ => rfl⟩
  case retry => exact ⟨.top 1, rfl, by simp [step], by intro h; cases h⟩
  case broke => exact ⟨.top 1, rfl, by simp [step], by intro h; cases h⟩
  case inLoop => exact ⟨.iter, rfl, by simp [step], by intro h; cases h⟩
  case iterating =>
    cases sa
    · exact ⟨.read .closeBreak, rfl, by simp [step], by intro h; cases h⟩
    · exact ⟨.cancel, rfl, by simp [step], fun _ => rfl⟩
  case oor => exact ⟨.offsets false, rfl, by simp [step], by intro h; cases h⟩
  case afterOffsets => exact ⟨.iter, rfl, by simp [step], by intro h; cases h⟩

/-- **an operation without a deadline blocks for ever**: in a state blocked in a network operation whose deadline fact
is false, no event of the fetcher other than hand-overs / the (unobserved) cancellation of its context is possible
against a silent broker — not even `cancel` once the sleep is over: `Reader.Close` then waits in `r.join.Wait()` -/
theorem blocked_without_deadline (f : NetFacts) (s : State) (b : NetFacts → Bool) (hb : blockedIn s = some b)
    (hf : b f = false) (e : Event) (he : e.control = true) (hne : e ≠ .cancel ∨ s.pc = .oor) :
    stepSilent f s e = none := by
  obtain ⟨pc, co, ca, sa⟩ := s
  cases pc <;> simp only [blockedIn] at hb <;> try (cases hb; done)
  case oor =>
    injection hb with hb; subst hb
    cases e <;> simp [Event.control] at he <;> simp [stepSilent, Event.deadline, step, hf]
  case top =>
    cases sa <;> simp at hb
    subst hb
    rcases hne with hne | hne
    · cases e <;> simp [Event.control] at he <;> simp [stepSilent, Event.deadline, step, hf] <;> try (exact absurd rfl hne)
    · cases hne
  case iterating =>
    cases sa <;> simp at hb
    subst hb
    rcases hne with hne | hne
    · cases e <;> simp [Event.control] at he <;> simp [stepSilent, Event.deadline, step, hf] <;> try (exact absurd rfl hne)
    · cases hne

end KV.FetcherLife
