/-
Lemmas/LegacyModel.lean — the writeBuffer primitives of the hand-written Conn codec (Base/LegacyWire.lean) are the
model encoder of Model/Codec.lean at the corresponding non-flexible Kafka types.  Used by the generated
`T.legacy_model` theorems of Gen/Legacy.lean.
-/
import KafkaVerif.Base.LegacyWire
import KafkaVerif.Model.Codec

namespace KV.Legacy
open KV KV.Wire KV.Codec

theorem enc_int8 (i : Int) : encode .int8 (.int i) = writeInt8 i := by simp [encode, writeInt8]
theorem enc_int16 (i : Int) : encode .int16 (.int i) = writeInt16 i := by simp [encode, writeInt16]
theorem enc_int32 (i : Int) : encode .int32 (.int i) = writeInt32 i := by simp [encode, writeInt32]
theorem enc_int64 (i : Int) : encode .int64 (.int i) = writeInt64 i := by simp [encode, writeInt64]
theorem enc_bool (b : Bool) : encode .bool (.bool b) = writeBool b := by simp [encode, encBool, writeBool]
theorem enc_string (s : Bytes) : encode (.string false false) (.str s) = writeString s := by
  simp [encode, encString, writeString]
theorem enc_bytes (b : Bytes) : encode (.bytes false false) (.bytes (some b)) = writeBytes b := by
  simp [encode, encBytes, writeBytes]

theorem encodeElems_map {α : Type} (ty : Ty) (val : α → Val) (l : List α) :
    encodeElems ty (l.map val) = writeEach l (fun x => encode ty (val x)) := by
  induction l with
  | nil => simp [encodeElems, writeEach]
  | cons x xs ih => simp [encodeElems, writeEach, ih]

/-- a non-nullable array of mapped elements -/
theorem enc_array {α : Type} (ty : Ty) (n : Bool) (val : α → Val) (l : List α) :
    encode (.array false n ty) (.arr (some (l.map val))) = writeArray l (fun x => encode ty (val x)) := by
  cases n <;> simp [encode, encArrayLen, encodeElems_map, writeArray, writeArrayLen]

theorem enc_array_null (ty : Ty) : encode (.array false true ty) (.arr none) = writeArrayLen (-1) := by
  simp [encode, encArrayLen, encodeElems, writeArrayLen]

/-- a non-flexible struct without tagged fields is the concatenation of its fields -/
theorem enc_struct (fs : List Ty) (vs : List Val) : encode (.struct false fs [] []) (.struct vs []) = encodeFields fs vs := by
  simp [encode]

theorem encFields_nil : encodeFields [] [] = [] := by simp [encodeFields]
theorem encFields_cons (t : Ty) (ts : List Ty) (v : Val) (vs : List Val) :
    encodeFields (t :: ts) (v :: vs) = (if t.zeroSize then [] else encode t v) ++ encodeFields ts vs := by
  simp [encodeFields]

@[simp] theorem zs_int8 : Ty.zeroSize .int8 = false := rfl
@[simp] theorem zs_int16 : Ty.zeroSize .int16 = false := rfl
@[simp] theorem zs_int32 : Ty.zeroSize .int32 = false := rfl
@[simp] theorem zs_int64 : Ty.zeroSize .int64 = false := rfl
@[simp] theorem zs_bool : Ty.zeroSize .bool = false := rfl
@[simp] theorem zs_string (c n : Bool) : Ty.zeroSize (.string c n) = false := rfl
@[simp] theorem zs_bytes (c n : Bool) : Ty.zeroSize (.bytes c n) = false := rfl
@[simp] theorem zs_array (c n : Bool) (t : Ty) : Ty.zeroSize (.array c n t) = false := rfl
@[simp] theorem zs_struct (f : Bool) (a : List Ty) (b : List Int) (c : List Ty) : Ty.zeroSize (.struct f a b c) = false := rfl

theorem writeInt32_fun : writeInt32 = fun x => Wire.encInt 4 x := rfl
theorem writeString_fun : writeString = fun s => Wire.encInt 2 s.length ++ s := rfl

theorem writeStringArray_eta (a : List Bytes) : writeArray a (fun x => writeString x) = writeStringArray a := rfl
theorem writeInt32Array_eta (a : List Int) : writeArray a (fun x => writeInt32 x) = writeInt32Array a := rfl

end KV.Legacy
